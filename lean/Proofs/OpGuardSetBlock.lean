/-
  Proofs/OpGuardSetBlock.lean — pieces of the undo guard (C04) for the steps `Transform.set_block_type`
  records: (d) the position facts of the retype step from "the step applied", (b) the payload of the
  `ReplaceStep`s of `clear_incompatible`, (a) its `RemoveMarkStep`s.
-/
import Proofs.OpGuardWrap
import Proofs.TypePlanFit
import Proofs.MarkUndo
import Proofs.Merge
namespace PM

/-! ### (d) the retype step: positions from "the step applied" -/

theorem sliceKids_ok_le (kids : List Node) (f t : Nat) (s : Slice) (h : sliceKids kids f t = .ok s) : f ≤ t := by
  unfold sliceKids at h
  split at h
  · omega
  · split at h
    · simp at h
    · rename_i hc
      simp only [Bool.or_eq_true, decide_eq_true_eq, not_or, Nat.not_lt] at hc
      exact hc.2

/-- **the end of an applied retype step is the end of the node its start points at**: if `node_at(s)` finds a
    non-leaf node and `retypeStep s e nn` applies, then `e = s + node.size`.  (Token balance: the new document
    `… nn-open gap nn-close …` and the old one `… node-open gap x …` are both balanced, so `x` is a close token,
    and the gap — a closed slice — is then exactly the node's content.) -/
theorem retype_applied_end (S : Schema) (d d' node nn : Node) (s e : Nat)
    (hna : d.nodeAt s = .ok (some node)) (hnl : node.isLeaf = false) (hnt : nn.isText = false)
    (h : S.apply (retypeStep s e nn) d = .ok d') : e = s + node.size := by
  cases node with
  | text => simp [Node.isLeaf] at hnl
  | leaf => simp [Node.isLeaf] at hnl
  | elem t a m kN =>
    obtain ⟨hw, hlenN⟩ := nodeAt_window d _ s hna rfl
    have h' := h
    unfold retypeStep at h'
    obtain ⟨gap, ins0, hgap, hgo1, hgo2, _, _⟩ := apply_replaceAround_parts S d d' _ _ _ _ _ _ _ h'
    have hle : s + 1 ≤ e - 1 := sliceKids_ok_le _ _ _ _ hgap
    obtain ⟨hL', heL⟩ := retypeStep_toks S d d' s e nn hnt (by omega) h
    have hgt : gap.toks = ((ftoks d.kids).drop (s + 1)).take (e - 1 - (s + 1)) :=
      sliceKids_toks d.kids (s + 1) (e - 1) gap hle (by rw [← ftoks_length]; omega) hgap
    have hgc : gap.toks = ftoks gap.content := by
      cases gap with
      | mk c os oe =>
        simp only at hgo1 hgo2
        subst hgo1 hgo2
        exact Slice.toks_closed c
    rw [hgc, show e - 1 - (s + 1) = e - s - 2 by omega] at hgt
    simp only [Node.size_elem, Node.toks_elem] at hw hlenN
    generalize hLdef : ftoks d.kids = L at *
    -- the tokens behind `s + 1`
    have hD1 : L.drop (s + 1) = ftoks kN ++ Tok.cl :: L.drop (s + (2 + fsize kN)) := by
      have hA : (L.take s).length = s := by rw [List.length_take]; omega
      conv => lhs; rw [hw]
      rw [show L.take s ++ Tok.op t a m :: (ftoks kN ++ [Tok.cl]) ++ L.drop (s + (2 + fsize kN)) =
        (L.take s ++ [Tok.op t a m]) ++ (ftoks kN ++ Tok.cl :: L.drop (s + (2 + fsize kN))) by simp]
      rw [List.drop_left' (by simp [hA])]
    -- the token at `e - 1`
    have hx : ∃ x, L.drop (e - 1) = x :: L.drop e := by
      have hlt : e - 1 < L.length := by omega
      refine ⟨L[e - 1], ?_⟩
      rw [List.drop_eq_getElem_cons hlt, show e - 1 + 1 = e by omega]
    obtain ⟨x, hx⟩ := hx
    have hD2 : L.drop (s + 1) = ftoks gap.content ++ x :: L.drop e := by
      have := List.take_append_drop (e - s - 2) (L.drop (s + 1))
      rw [← hgt, List.drop_drop, show s + 1 + (e - s - 2) = e - 1 by omega, hx] at this
      exact this.symm
    -- balance
    have hbL : balance L = 0 := by rw [← hLdef]; exact balance_ftoks _
    have hbL' : balance (ftoks d'.kids) = 0 := balance_ftoks _
    have hsplit : L = L.take s ++ Tok.op t a m :: (ftoks gap.content ++ x :: L.drop e) := by
      have h0 := List.take_append_drop s L
      have h1 : L.drop s = Tok.op t a m :: L.drop (s + 1) := by
        have hA : (L.take s).length = s := by rw [List.length_take]; omega
        conv => lhs; rw [hw]
        rw [List.append_assoc, List.drop_left' hA, hD1]
        simp
      rw [h1, hD2] at h0
      exact h0.symm
    have hnb : balance (nn.toks.take 1) + balance (nn.toks.drop 1) = 0 := by
      rw [← balance_append, List.take_append_drop]; exact Node.balance_toks nn
    rw [hL', ← hgt] at hbL'
    rw [hsplit] at hbL
    simp only [balance_append, balance_cons, balance_ftoks] at hbL hbL'
    have hop1 : (Tok.op t a m).delta = 1 := rfl
    have hxd : x.delta = -1 := by omega
    have hxcl : x = Tok.cl := by
      cases x <;> simp [Tok.delta] at hxd ⊢
    subst hxcl
    have := (balanced_prefix_unique kN gap.content _ _ (hD1.symm.trans hD2)).1
    have hlen := congrArg List.length this
    rw [ftoks_length, hgt, List.length_take, List.length_drop] at hlen
    simp only [Node.size_elem]
    omega

/-- in a normal-form child list, `node_at` at the position of an open token finds that element node -/
theorem nodeAtKids_of_op (t : TypeId) (a : Attrs) (m : Marks) (kids : List Node) (pos : Nat)
    (hn : fnormKids kids = true) (h : (ftoks kids)[pos]? = some (Tok.op t a m)) :
    ∃ k, nodeAtKids kids pos = .ok (some (.elem t a m k)) := by
  fun_induction nodeAtKids kids pos
  case case1 => simp at h
  case case2 => simp at h
  case case3 n' ns =>
    simp only [fnormKids_cons, Bool.and_eq_true] at hn
    cases n' with
    | text s ms =>
      cases s with
      | nil => simp at hn
      | cons c s' => simp at h
    | leaf t' a' m' => simp at h
    | elem t' a' m' k =>
      simp only [ftoks_cons, Node.toks_elem, List.cons_append, List.getElem?_cons_zero, Option.some.injEq,
        Tok.op.injEq] at h
      obtain ⟨rfl, rfl, rfl⟩ := h
      exact ⟨k, rfl⟩
  case case4 n' ns pos h0 h1 ih =>
    simp only [fnormKids_cons, Bool.and_eq_true] at hn
    apply ih hn.2
    rw [ftoks_cons, List.getElem?_append_right (by rw [Node.toks_length]; exact h1), Node.toks_length] at h
    exact h
  case case5 ns pos h0 ty ats mk k h1 ih =>
    simp only [fnormKids_cons, Bool.and_eq_true, Node.norm_elem] at hn
    simp only [Node.size_elem, Nat.not_le] at h1
    obtain ⟨p, rfl⟩ : ∃ p, pos = p + 1 := ⟨pos - 1, by omega⟩
    simp only [ftoks_cons, Node.toks_elem, List.cons_append, List.getElem?_cons_succ, List.append_assoc] at h
    by_cases hp : p < fsize k
    · apply ih (fnormKids_of_fnorm hn.1)
      rw [List.getElem?_append_left (by rw [ftoks_length]; exact hp)] at h
      simpa using h
    · have hpe : p = fsize k := by omega
      rw [List.getElem?_append_right (by rw [ftoks_length]; omega), ftoks_length, hpe] at h
      simp at h
  case case6 n' ns pos h0 h1 hne =>
    exfalso
    cases n' with
    | text s ms =>
      simp only [Node.size_text, Nat.not_le] at h1
      rw [ftoks_cons, List.getElem?_append_left (by rw [Node.toks_length]; simpa using h1)] at h
      simp only [Node.toks_text, List.getElem?_map] at h
      cases hs : s[pos]? with
      | none => simp [hs] at h
      | some c => simp [hs] at h
    | leaf t' a' m' => simp at h1; omega
    | elem t' a' m' k => exact hne _ _ _ _ rfl

/-- **`retypeStep s e nn` applied and the token at `s` is an open token ⇒ `node_at(s)` is a non-leaf node
    ending at `e`.**  The hypothesis on the token cannot be dropped: see the note below. -/
theorem retype_applied_nodeAt (S : Schema) (d d' nn : Node) (s e : Nat) (t : TypeId) (a : Attrs) (m : Marks)
    (hn : fnorm d.kids = true) (hop : (ftoks d.kids)[s]? = some (Tok.op t a m)) (hnt : nn.isText = false)
    (h : S.apply (retypeStep s e nn) d = .ok d') :
    ∃ node, d.nodeAt s = .ok (some node) ∧ e = s + node.size ∧ node.isLeaf = false := by
  obtain ⟨k, hk⟩ := nodeAtKids_of_op t a m d.kids s (fnormKids_of_fnorm hn) hop
  exact ⟨_, hk, retype_applied_end S d d' _ nn s e hk rfl hnt h, rfl⟩

/-! The token hypothesis `hop` of `retype_applied_nodeAt` is needed: "the step applied" alone does not make `s`
    the start of a node.  Schema `doc "X*"`, `X "(text|X)*"`; `d = doc(X("a"), X("b"))` (valid);
    `retypeStep 2 4 X()` — replace 2…4 (the close token of the first `X` and the open token of the second) around
    the empty gap 3…3 by `X()` — passes both structure checks (a close and an open token are no content) and
    applies: `doc(X("a", X(), "b"))`; but `d.nodeAt 2 = .ok none`.  (Checked with `#eval` on the model.)  In
    general the applied step leaves exactly two shapes for the tokens at `s` and `e - 1` (by token balance):
    open … close (this lemma) or close … open (a join of two siblings around a new node). -/

/-! ### (b) the `ReplaceStep`s of `clear_incompatible`: their payload -/

theorem canonicalMarks_allowed (S : Schema) (nt : NodeType) (ms : Marks) (h : canonicalMarks S ms = true) :
    canonicalMarks S (setFrom (nt.allowedMarks ms)) = true := by
  apply setFrom_canonical
  rw [canonicalMarks_iff_canonP] at h ⊢
  exact h.sublist List.filter_sublist

theorem nlEdits_payload (S : Schema) (pty : TypeId) (cur : Nat) (c : Node) (hc : S.checkNode c = true) :
    ∀ e ∈ nlEdits S pty cur c, fnorm e.2.2 = true ∧ S.checkKids e.2.2 = true ∧
      ∃ a b ms, e = (cur + a, cur + b, [Node.text [32] ms]) := by
  intro e he
  cases c with
  | leaf t a m => simp [nlEdits] at he
  | elem t a m k => simp [nlEdits] at he
  | text s ms =>
    simp only [nlEdits] at he
    split at he
    · simp at he
    · simp only [List.mem_map] at he
      obtain ⟨ab, _, rfl⟩ := he
      rw [checkNode_text] at hc
      refine ⟨by simp [fnorm, fnormKids, Node.norm, chainOk], ?_, ab.1, ab.2, _, rfl⟩
      simp only [checkKids_cons, checkKids_nil, checkNode_text, Bool.and_true]
      exact canonicalMarks_allowed S _ ms hc

/-- **every `ReplaceStep` `clear_incompatible` collects carries a closed, normal-form, valid payload**: nothing
    (a child the new type does not accept is deleted) or one space with the text's marks the new type allows
    (a newline is replaced) -/
theorem clearEdits_payload (S : Schema) (pty : TypeId) : ∀ (kids : List Node) (q cur : Nat),
    S.checkKids kids = true → ∀ e ∈ clearEdits S pty kids q cur, fnorm e.2.2 = true ∧ S.checkKids e.2.2 = true
  | [], _, _, _, e, he => by simp [clearEdits] at he
  | c :: cs, q, cur, hk, e, he => by
    simp only [checkKids_cons, Bool.and_eq_true] at hk
    unfold clearEdits at he
    split at he
    · simp only [List.mem_cons] at he
      rcases he with rfl | he
      · exact ⟨rfl, by simp⟩
      · exact clearEdits_payload S pty cs _ _ hk.2 e he
    · simp only [List.mem_append] at he
      rcases he with he | he
      · obtain ⟨h1, h2, _⟩ := nlEdits_payload S pty cur c hk.1 e he
        exact ⟨h1, h2⟩
      · exact clearEdits_payload S pty cs _ _ hk.2 e he

/-- the same for the steps: every step of the reversed edit list is a plain `ReplaceStep` with a closed slice whose
    content is in normal form and passes `openValid S 0 0` -/
theorem clearEdits_steps_payload (S : Schema) (pty : TypeId) (kids : List Node) (q cur : Nat)
    (hk : S.checkKids kids = true) :
    ∀ st ∈ ((clearEdits S pty kids q cur).map Edit.step).reverse,
      ∃ a b c, st = .replace a b ⟨c, 0, 0⟩ false ∧ fnorm c = true ∧ openValid S 0 0 c = true := by
  intro st hst
  simp only [List.mem_reverse, List.mem_map] at hst
  obtain ⟨e, he, rfl⟩ := hst
  obtain ⟨h1, h2⟩ := clearEdits_payload S pty kids q cur hk e he
  exact ⟨e.1, e.2.1, e.2.2, rfl, h1, by simpa [openValid, rightOpenValid] using h2⟩

/-! ### (a) the `RemoveMarkStep`s of `clear_incompatible` -/

/-- the guard component for a recorded `RemoveMarkStep` (as `PlanGuard` of Proofs/MarkHistory.lean, first case) -/
def RmGuard (S : Schema) (s : Step) (d : Node) (_d' : Node) : Prop :=
  ∃ a b m, s = .removeMark a b m ∧ (sameTypeFree S d a b m.ty = true → removeMarkUndoable S d a b m = true)

/-- in a valid document: every inline node starting in `[a, b)` is an atom and carries `m` ⇒ unless one of them
    carries two marks of `m`'s type, `AddMarkStep(a, b, m)` undoes `RemoveMarkStep(a, b, m)` -/
theorem removeMark_guard_of_carried (S : Schema) (d : Node) (a b : Nat) (m : Mark)
    (hv : S.checkNode d = true)
    (h : ∀ i, i < (ftoks d.kids).length → a ≤ i → i < b → isInlineTok S (tokD d i) = true →
      isAtomTok S (tokD d i) = true ∧ m ∈ (tokD d i).marks) :
    sameTypeFree S d a b m.ty = true → removeMarkUndoable S d a b m = true := by
  intro hst
  rw [removeMarkUndoable_iff]
  intro i hi h1 h2
  unfold removeUndoTok
  rw [tokInline_eq, tokAtom_eq, tokMarks_eq]
  by_cases hin : isInlineTok S (tokD d i) = true
  · obtain ⟨hat, hm⟩ := h i hi h1 h2 hin
    have hty := unique_of_count _ m hm ((sameTypeFree_iff S d a b m.ty).mp hst i hi h1 h2 hin)
    obtain ⟨hc, hal⟩ := valid_tok S d hv i hi
    simp [hin, hat, hal m hm, add_remove_eq S _ m hc hm hty]
  · simp [hin]

theorem histAll_fin_irrel (P : Step → Node → Prop) : ∀ (hist : List (Step × Node)) (fin fin' : Node),
    HistAll (fun s d _ => P s d) hist fin → HistAll (fun s d _ => P s d) hist fin'
  | [], _, _, _ => trivial
  | (_, _) :: rest, fin, fin', ⟨h1, h2⟩ => ⟨h1, histAll_fin_irrel P rest fin fin' h2⟩

theorem stepsHist_append (S : Schema) : ∀ (a b : List Step) (d d1 : Node), S.applyAll a d = .ok d1 →
    S.stepsHist (a ++ b) d = S.stepsHist a d ++ S.stepsHist b d1
  | [], b, d, d1, h => by
    simp only [Schema.applyAll, Except.ok.injEq] at h; subst h; rfl
  | s :: a, b, d, d1, h => by
    simp only [Schema.applyAll] at h
    split at h
    · rename_i d2 hd
      simp only [List.cons_append, Schema.stepsHist, hd, stepsHist_append S a b d2 d1 h]
    · simp at h

theorem tokD_window (d : Node) (A W R : List Tok) (hL : ftoks d.kids = A ++ W ++ R) (i : Nat)
    (h1 : A.length ≤ i) (h2 : i < A.length + W.length) : tokD d i ∈ W := by
  unfold tokD
  rw [hL, List.getD_eq_getElem?_getD, List.append_assoc, List.getElem?_append_right h1,
    List.getElem?_append_left (by omega), List.getElem?_eq_getElem (by omega)]
  exact List.getElem_mem _

/-- **the `RemoveMarkStep`s over one window**: the window's inline tokens are atoms carrying every mark of the
    (duplicate-free) list ⇒ each step satisfies its guard on the document it is applied to; validity is kept -/
theorem removeMarks_window_guard (S : Schema) (hts : TextStableP S) (f t : Nat) :
    ∀ (bad : Marks) (d d' : Node) (A W R : List Tok),
    S.checkNode d = true → ftoks d.kids = A ++ W ++ R → A.length = f → f + W.length = t → bad.Nodup →
    (∀ tok ∈ W, isInlineTok S tok = true → isAtomTok S tok = true ∧ ∀ m ∈ bad, m ∈ tok.marks) →
    S.applyAll (bad.map (fun m => Step.removeMark f t m)) d = .ok d' →
    HistAll (RmGuard S) (S.stepsHist (bad.map (fun m => Step.removeMark f t m)) d) d' ∧ S.checkNode d' = true
  | [], d, d', A, W, R, hv, _, _, _, _, _, h => by
    simp only [List.map_nil, Schema.applyAll, Except.ok.injEq] at h
    subst h
    exact ⟨trivial, hv⟩
  | m :: bad, d, d', A, W, R, hv, hL, hA, hW, hnd, hWt, h => by
    simp only [List.map_cons, Schema.applyAll] at h
    split at h
    · rename_i d1 h1
      obtain ⟨e1, _, _⟩ := apply_removeMark_window S d d1 f t m h1
      have hw : ((ftoks d.kids).drop f).take (t - f) = W := by
        rw [hL, List.append_assoc, List.drop_left' hA]
        exact List.take_left' (by omega)
      have htk : (ftoks d.kids).take f = A := by
        rw [hL, List.append_assoc]; exact List.take_left' hA
      have hdr : (ftoks d.kids).drop t = R := by
        rw [hL]; exact List.drop_left' (by simp; omega)
      rw [hw, htk, hdr] at e1
      have hv1 : S.checkNode d1 = true := (removeMark_keepsAll S d d1 f t m h1).valid hts hv
      simp only [List.nodup_cons] at hnd
      have hWt' : ∀ tok ∈ W.map (remTok S m), isInlineTok S tok = true →
          isAtomTok S tok = true ∧ ∀ m' ∈ bad, m' ∈ tok.marks := by
        intro tok' htok' hin'
        simp only [List.mem_map] at htok'
        obtain ⟨tok, htok, rfl⟩ := htok'
        unfold remTok at hin' ⊢
        by_cases hin : isInlineTok S tok = true
        · obtain ⟨hat, hms⟩ := hWt tok htok hin
          rw [if_pos hin]
          rw [isAtomTok_withMarks, marks_withMarks_atom S _ tok hat]
          refine ⟨hat, fun m' hm' => ?_⟩
          simp only [Mark.removeFromSet, List.mem_filter, bne_iff_ne, ne_eq]
          exact ⟨hms m' (List.mem_cons_of_mem _ hm'), fun e => hnd.1 (e ▸ hm')⟩
        · rw [if_neg hin] at hin'
          exact absurd hin' hin
      obtain ⟨ih1, ih2⟩ := removeMarks_window_guard S hts f t bad d1 d' A (W.map (remTok S m)) R hv1 e1 hA
        (by simp; omega) hnd.2 hWt' h
      refine ⟨?_, ih2⟩
      simp only [List.map_cons, Schema.stepsHist, h1]
      refine ⟨⟨f, t, m, rfl, removeMark_guard_of_carried S d f t m hv (fun i hi ha hb hin => ?_)⟩, ih1⟩
      have hmem := tokD_window d A W R hL i (by omega) (by omega)
      obtain ⟨hat, hms⟩ := hWt _ hmem hin
      exact ⟨hat, hms m List.mem_cons_self⟩
    · simp at h

theorem histAll_rmGuard_fin (S : Schema) : ∀ (hist : List (Step × Node)) (fin fin' : Node),
    HistAll (RmGuard S) hist fin → HistAll (RmGuard S) hist fin'
  | [], _, _, _ => trivial
  | (_, _) :: rest, fin, fin', ⟨h1, h2⟩ => ⟨h1, histAll_rmGuard_fin S rest fin fin' h2⟩

/-- the tokens of a text or leaf child: atoms (if inline at all) carrying the child's marks -/
theorem leaf_toks_carry (S : Schema) (c : Node) (hc : c.isLeaf = true) :
    ∀ tok ∈ c.toks, isInlineTok S tok = true → isAtomTok S tok = true ∧ tok.marks = c.marks := by
  intro tok htok hin
  cases c with
  | elem t a m k => simp [Node.isLeaf] at hc
  | text s ms =>
    simp only [Node.toks_text, List.mem_map] at htok
    obtain ⟨u, _, rfl⟩ := htok
    exact ⟨rfl, rfl⟩
  | leaf t a ms =>
    simp only [Node.toks_leaf, List.mem_singleton] at htok
    subst htok
    exact ⟨hin, rfl⟩

theorem marks_nodup_of_check (S : Schema) (c : Node) (hc : S.checkNode c = true) : c.marks.Nodup := by
  have : canonicalMarks S c.marks = true := by
    cases c with
    | text s ms => rw [checkNode_text] at hc; exact hc
    | leaf t a ms =>
      rw [checkNode_leaf] at hc
      simp only [Bool.and_eq_true] at hc
      exact hc.1
    | elem t a ms k =>
      rw [checkNode_elem] at hc
      simp only [Bool.and_eq_true] at hc
      exact hc.1.2
  exact ((canonicalMarks_iff_canonP S _).mp this).nodup

/-- **the `RemoveMarkStep`s of the walk of `clear_incompatible` over the children `kids`** (sitting at offset `cur`
    of the document): if every child that has marks the new type forbids is a text or a leaf, each step
    satisfies its guard on the document it is applied to -/
theorem clearRm_window_guard (S : Schema) (hts : TextStableP S) (pty : TypeId) :
    ∀ (kids : List Node) (q cur : Nat) (d d' : Node) (P Q : List Tok),
    S.checkNode d = true → S.checkKids kids = true →
    (∀ c ∈ kids, c.isLeaf = true ∨ badMarks S pty c.marks = []) →
    ftoks d.kids = P ++ ftoks kids ++ Q → P.length = cur →
    S.applyAll (clearRm S pty kids q cur) d = .ok d' →
    HistAll (RmGuard S) (S.stepsHist (clearRm S pty kids q cur) d) d' ∧ S.checkNode d' = true
  | [], q, cur, d, d', P, Q, hv, _, _, _, _, h => by
    simp only [clearRm, Schema.applyAll, Except.ok.injEq] at h
    subst h
    exact ⟨trivial, hv⟩
  | c :: cs, q, cur, d, d', P, Q, hv, hk, hleaf, hL, hP, h => by
    simp only [checkKids_cons, Bool.and_eq_true] at hk
    have hleaf' : ∀ x ∈ cs, x.isLeaf = true ∨ badMarks S pty x.marks = [] :=
      fun x hx => hleaf x (List.mem_cons_of_mem _ hx)
    cases hm : (S.dfa pty).matchType q (S.tyOf c) with
    | none =>
      simp only [clearRm, hm] at h ⊢
      exact clearRm_window_guard S hts pty cs q (cur + c.size) d d' (P ++ c.toks) Q hv hk.2 hleaf'
        (by rw [hL]; simp) (by simp [Node.toks_length, hP]) h
    | some q' =>
      simp only [clearRm, hm] at h ⊢
      obtain ⟨d1, h1, h2⟩ := applyAll_append S _ _ d d' h
      rw [stepsHist_append S _ _ d d1 h1, histAll_append]
      have hLc : ftoks d.kids = P ++ c.toks ++ (ftoks cs ++ Q) := by rw [hL]; simp
      have e1 := applyAll_removeMarks_window S cur (cur + c.size) _ d d1 P c.toks (ftoks cs ++ Q)
        hLc hP (by rw [Node.toks_length]) h1
      have hA : HistAll (RmGuard S)
          (S.stepsHist ((badMarks S pty c.marks).map (fun m => Step.removeMark cur (cur + c.size) m)) d) d1 ∧
          S.checkNode d1 = true := by
        by_cases hb : badMarks S pty c.marks = []
        · rw [hb] at h1 ⊢
          simp only [List.map_nil, Schema.applyAll, Except.ok.injEq] at h1
          subst h1
          exact ⟨trivial, hv⟩
        · have hcl : c.isLeaf = true := (hleaf c List.mem_cons_self).resolve_right hb
          refine removeMarks_window_guard S hts cur (cur + c.size) _ d d1 P c.toks (ftoks cs ++ Q) hv hLc hP
            (by rw [Node.toks_length]) ((marks_nodup_of_check S c hk.1).filter _) (fun tok htok hin => ?_) h1
          obtain ⟨hat, hms⟩ := leaf_toks_carry S c hcl tok htok hin
          refine ⟨hat, fun m hmb => ?_⟩
          rw [hms]
          exact (List.mem_filter.mp hmb).1
      obtain ⟨ih1, ih2⟩ := clearRm_window_guard S hts pty cs q' (cur + c.size) d1 d'
        (P ++ c.toks.map (stripTok S (badMarks S pty c.marks))) Q hA.2 hk.2 hleaf'
        (by rw [e1]; simp) (by simp [Node.toks_length, hP]) h2
      exact ⟨⟨histAll_rmGuard_fin S _ _ _ hA.1, ih1⟩, ih2⟩

/-- **(a) the `RemoveMarkStep`s `clear_incompatible(pos, pty)` applies satisfy the undo guard**: valid document,
    `node_at(pos)` finds `node`, every child of `node` carrying a mark that `pty` forbids is a text or a leaf
    (true of a textblock of a document without inline nodes that have content) -/
theorem clearRm_steps_guard (S : Schema) (hts : TextStableP S) (pty : TypeId) (d0 dEnd node : Node) (pos q : Nat)
    (hv : S.checkNode d0 = true) (hna : d0.nodeAt pos = .ok (some node))
    (hleaf : ∀ c ∈ node.kids, c.isLeaf = true ∨ badMarks S pty c.marks = [])
    (h : S.applyAll (clearRm S pty node.kids q (pos + 1)) d0 = .ok dEnd) :
    HistAll (RmGuard S) (S.stepsHist (clearRm S pty node.kids q (pos + 1)) d0) dEnd ∧
      S.checkNode dEnd = true := by
  cases node with
  | text s ms =>
    simp only [Node.kids, clearRm, Schema.applyAll, Except.ok.injEq] at h ⊢
    subst h; exact ⟨trivial, hv⟩
  | leaf t a ms =>
    simp only [Node.kids, clearRm, Schema.applyAll, Except.ok.injEq] at h ⊢
    subst h; exact ⟨trivial, hv⟩
  | elem t a m kids =>
    obtain ⟨hw, hlen⟩ := nodeAt_window d0 _ pos hna rfl
    have hckK : S.checkKids d0.kids = true := checkNode_kids hv
    have hvN := nodeAtKids_valid S d0.kids pos _ hckK hna
    have hck : S.checkKids kids = true := by
      rw [checkNode_elem] at hvN
      simp only [Bool.and_eq_true] at hvN
      exact hvN.2
    simp only [Node.kids_elem] at h hleaf ⊢
    simp only [Node.size_elem, Node.toks_elem] at hw hlen
    refine clearRm_window_guard S hts pty kids q (pos + 1) d0 dEnd
      ((ftoks d0.kids).take pos ++ [Tok.op t a m])
      (Tok.cl :: (ftoks d0.kids).drop (pos + (2 + fsize kids))) hv hck hleaf ?_ ?_ h
    · conv => lhs; rw [hw]
      simp
    · simp only [List.length_append, List.length_take, List.length_cons, List.length_nil]
      omega

end PM
