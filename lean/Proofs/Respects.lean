/- Proofs/Respects.lean — helper lemmas for Props/C11.lean, C12.lean, C18.lean -/
import PM.Monitor
import Proofs.StepToks
namespace PM
end PM
