/- Proofs/Respects.lean — helper lemmas for Props/C11.lean, C12.lean, C18.lean -/
import PM.Monitor
import Proofs.StepToks
import Proofs.MarkEffect
import Proofs.StepMap
namespace PM

/-! ### content filter, structural windows -/

theorem structuralOnly_iff (l : List Tok) : structuralOnly l = true ↔ l.filter Tok.isContent = [] := by
  simp [structuralOnly, List.filter_eq_nil_iff]

theorem structuralOnly_append (a b : List Tok) :
    structuralOnly (a ++ b) = (structuralOnly a && structuralOnly b) := by
  simp [structuralOnly]

theorem between_of_le (d : List Tok) (a b : Nat) (h : a ≤ b) : between d a b = (d.drop a).take (b - a) := by
  simp [between, Nat.min_eq_left h, Nat.max_eq_right h]

theorem between_comm (d : List Tok) (a b : Nat) : between d a b = between d b a := by
  simp [between, Nat.min_comm, Nat.max_comm]

theorem take_split {α} (d : List α) (a b : Nat) (h : a ≤ b) :
    d.take b = d.take a ++ (d.drop a).take (b - a) := by
  have : b = a + (b - a) := by omega
  conv => lhs; rw [this, List.take_add]

theorem drop_split {α} (d : List α) (a b : Nat) (h : a ≤ b) :
    d.drop a = (d.drop a).take (b - a) ++ d.drop b := by
  have : d.drop b = (d.drop a).drop (b - a) := by rw [List.drop_drop]; congr 1; omega
  rw [this, List.take_append_drop]

/-- the content before two positions separated by structural tokens only is the same -/
theorem content_take_eq (d : List Tok) (a b : Nat) (h : structuralOnly (between d a b) = true) :
    (d.take a).filter Tok.isContent = (d.take b).filter Tok.isContent := by
  rcases Nat.le_total a b with hab | hab
  · rw [between_of_le d a b hab, structuralOnly_iff] at h
    rw [take_split d a b hab, List.filter_append, h, List.append_nil]
  · rw [between_comm, between_of_le d b a hab, structuralOnly_iff] at h
    rw [take_split d b a hab, List.filter_append, h, List.append_nil]

/-- … and so is the content after them -/
theorem content_drop_eq (d : List Tok) (a b : Nat) (h : structuralOnly (between d a b) = true) :
    (d.drop a).filter Tok.isContent = (d.drop b).filter Tok.isContent := by
  rcases Nat.le_total a b with hab | hab
  · rw [between_of_le d a b hab, structuralOnly_iff] at h
    rw [drop_split d a b hab, List.filter_append, h, List.nil_append]
  · rw [between_comm, between_of_le d b a hab, structuralOnly_iff] at h
    rw [drop_split d b a hab, List.filter_append, h, List.nil_append]

theorem textUnits_append (a b : List Tok) : textUnits (a ++ b) = textUnits a ++ textUnits b := by
  induction a with
  | nil => rfl
  | cons x xs ih => cases x <;> simp [textUnits, ih]

theorem textUnits_filter (l : List Tok) : textUnits (l.filter Tok.isContent) = textUnits l := by
  induction l with
  | nil => rfl
  | cons x xs ih => cases x <;> simp [textUnits, Tok.isContent, List.filter_cons, ih]

theorem isSubseq_nil {α} [DecidableEq α] (xs : List α) (h : isSubseq xs [] = true) : xs = [] := by
  cases xs with
  | nil => rfl
  | cons x xs => simp [isSubseq] at h

theorem sliceToks'_empty : sliceToks' Slice.empty = [] := by
  simp [sliceToks', Slice.empty]

theorem sliceToks'_eq (sl : Slice) : sliceToks' sl = sl.toks := rfl

/-! ### splices leave the outside alone (C18) -/

theorem splice_outside {α} (d S N : List α) (F T a b : Nat) (haF : a < F) (hFT : F ≤ T) (hTb : T < b)
    (hb : b ≤ d.length) (hN : N = d.take F ++ S ++ d.drop T) :
    N.take (a + 1) = d.take (a + 1) ∧
    N.drop (b - 1 + N.length - d.length) = d.drop (b - 1) ∧
    d.length ≤ b - 1 + N.length := by
  have hlen : N.length = F + S.length + (d.length - T) := by
    subst hN; simp; omega
  refine ⟨?_, ?_, by omega⟩
  · subst hN
    rw [List.append_assoc, List.take_append_of_le_length (by simp; omega), List.take_take]
    congr 1; omega
  · have e : b - 1 + N.length - d.length = (d.take F ++ S).length + (b - 1 - T) := by
      simp; omega
    rw [e]; subst hN
    rw [← List.drop_drop, List.drop_left, List.drop_drop]
    congr 1; omega

/-- a pointwise change inside `[F, T)` of an equally long list -/
theorem pointwise_outside {α} (d N : List α) (F T a b : Nat) (haF : a < F) (hTb : T < b)
    (hlen : N.length = d.length) (hout : ∀ i, ¬ (F ≤ i ∧ i < T) → N[i]? = d[i]?) :
    N.take (a + 1) = d.take (a + 1) ∧
    N.drop (b - 1 + N.length - d.length) = d.drop (b - 1) ∧
    d.length ≤ b - 1 + N.length := by
  refine ⟨?_, ?_, by omega⟩
  · apply List.ext_getElem?
    intro i
    simp only [List.getElem?_take]
    split
    · exact hout i (by omega)
    · rfl
  · rw [hlen, Nat.add_sub_cancel]
    apply List.ext_getElem?
    intro i
    simp only [List.getElem?_drop]
    exact hout _ (by omega)

/-! ### the non-strict versions (`withinNode`): the range may end just after the node's close token -/

theorem splice_outside_le {α} (d S N : List α) (F T a b : Nat) (haF : a < F) (hFT : F ≤ T) (hTb : T ≤ b)
    (hb : b ≤ d.length) (hN : N = d.take F ++ S ++ d.drop T) :
    N.take (a + 1) = d.take (a + 1) ∧
    N.drop (b + N.length - d.length) = d.drop b ∧
    d.length ≤ b + N.length := by
  have hlen : N.length = F + S.length + (d.length - T) := by
    subst hN; simp; omega
  refine ⟨?_, ?_, by omega⟩
  · subst hN
    rw [List.append_assoc, List.take_append_of_le_length (by simp; omega), List.take_take]
    congr 1; omega
  · have e : b + N.length - d.length = (d.take F ++ S).length + (b - T) := by
      simp; omega
    rw [e]; subst hN
    rw [← List.drop_drop, List.drop_left, List.drop_drop]
    congr 1; omega

theorem pointwise_outside_le {α} (d N : List α) (F T a b : Nat) (haF : a < F) (hTb : T ≤ b)
    (hlen : N.length = d.length) (hout : ∀ i, ¬ (F ≤ i ∧ i < T) → N[i]? = d[i]?) :
    N.take (a + 1) = d.take (a + 1) ∧
    N.drop (b + N.length - d.length) = d.drop b ∧
    d.length ≤ b + N.length := by
  refine ⟨?_, ?_, by omega⟩
  · apply List.ext_getElem?
    intro i
    simp only [List.getElem?_take]
    split
    · exact hout i (by omega)
    · rfl
  · rw [hlen, Nat.add_sub_cancel]
    apply List.ext_getElem?
    intro i
    simp only [List.getElem?_drop]
    exact hout _ (by omega)

/-! ### `content_between` on tokens (C12) -/

/-- every node of a resolved path below its head is an element node -/
theorem resolveScan_tail_elem (node : Node) (start : Nat) (rest : List Node) (idx cur po : Nat)
    (path : Path) (h : resolveScan node start rest idx cur po = some path) :
    ∀ e ∈ path.tail, ∃ t a m k, e.node = Node.elem t a m k := by
  fun_induction resolveScan node start rest idx cur po generalizing path
  case case1 => simp at h; subst h; simp
  case case2 => simp at h
  case case3 => simp at h; subst h; simp
  case case4 node start n ns idx cur po h0 h1 ih => exact ih path h
  case case5 node start ns idx cur po h0 ty ats mk kids h1 ih =>
    cases hr : resolveScan (Node.elem ty ats mk kids) (start + cur + 1) kids 0 0 (po - 1) with
    | none => simp [hr] at h
    | some p' =>
      simp only [hr, Option.map_some, Option.some.injEq] at h
      subst h
      obtain ⟨_, ⟨e', tl, rfl, he'⟩, _⟩ :=
        resolveScan_ok _ _ kids 0 0 (po - 1) _ [] (by simp [Node.kids]) rfl (by simp [fsize]) hr
      intro e he
      simp only [List.tail_cons, List.mem_cons] at he
      rcases he with rfl | he
      · exact ⟨ty, ats, mk, kids, he'⟩
      · exact ih _ hr e (by simpa using he)
  case case6 => simp at h; subst h; simp

theorem resolve_node_elem {doc : Node} {pos : Nat} {r : RPos} (h : doc.resolve pos = some r)
    (k : Nat) (hk : k < r.depth) : ∃ t a m kids, r.node (k + 1) = Node.elem t a m kids := by
  unfold Node.resolve at h
  split at h
  · cases hr : resolveScan doc 0 doc.kids 0 0 pos with
    | none => simp [hr] at h
    | some p =>
      simp only [hr, Option.map_some, Option.some.injEq] at h
      subst h
      simp only [RPos.depth] at hk
      have hlt : k + 1 < p.length := by omega
      apply resolveScan_tail_elem _ _ _ _ _ _ _ hr
      simp only [RPos.entry]
      cases p with
      | nil => simp at hlt
      | cons e tl =>
        simp only [List.length_cons] at hlt
        simp [List.getElem!_eq_getElem?_getD, List.getElem?_eq_getElem (show k < tl.length by omega)]
  · simp at h

theorem fsize_take_succ (kids : List Node) (i : Nat) (c : Node) (h : kids[i]? = some c) :
    fsize (kids.take (i + 1)) = fsize (kids.take i) + c.size := by
  rw [List.take_add_one, h, fsize_append]
  simp [fsize]

theorem getElem?_of_window {α} (G : List α) (q n : Nat) (L : List α) (h : (G.drop q).take n = L)
    (i : Nat) (hi : i < L.length) : G[q + i]? = L[i]? := by
  subst h
  simp only [List.length_take, List.length_drop] at hi
  rw [List.getElem?_take_of_lt (by omega), List.getElem?_drop]

/-- `descend` answers "no" only if it runs out of distance while reading open tokens -/
theorem descend_false : ∀ (dist : Nat) (next : Option Node) (X : List Tok),
    contentBetween.descend dist next = false →
    (∀ n, next = some n → ∃ Y, X = n.toks ++ Y) → structuralOnly (X.take dist) = true
  | 0, _, X, _, _ => by simp [structuralOnly]
  | dist + 1, none, X, h, _ => by simp [contentBetween.descend] at h
  | dist + 1, some n, X, h, hx => by
    obtain ⟨Y, rfl⟩ := hx n rfl
    cases n with
    | text s m => simp [contentBetween.descend, Node.isLeaf] at h
    | leaf ty a m => simp [contentBetween.descend, Node.isLeaf] at h
    | elem ty a m kids =>
      simp only [contentBetween.descend, Node.isLeaf, Bool.false_eq_true, if_false, Node.kids] at h
      simp only [Node.toks, List.cons_append, List.take_succ_cons]
      have ih := descend_false dist kids.head? (ftoks kids ++ [Tok.cl] ++ Y) h (by
        intro c hc
        cases kids with
        | nil => simp at hc
        | cons c' cs =>
          simp only [List.head?_cons, Option.some.injEq] at hc; subst hc
          exact ⟨ftoks cs ++ [Tok.cl] ++ Y, by simp [ftoks]⟩)
      simp only [structuralOnly, List.all_cons, Tok.isContent, Bool.not_false, Bool.true_and]
      exact ih

/-- the loop invariant of `climb`: `dist` tokens are left, the ones read so far are close tokens, and
    the current position is the child boundary `indexAfter depth` of the node at `depth` -/
structure ClimbInv (doc : Node) (f t : Nat) (r : RPos) (depth dist : Nat) : Prop where
  hd : depth ≤ r.depth
  le : f + dist ≤ t
  so : structuralOnly (((ftoks doc.kids).drop f).take (t - dist - f)) = true
  at_ : t - dist = r.start depth + fsize ((r.node depth).kids.take (r.indexAfter depth))

theorem climbInv_init (doc : Node) (f t : Nat) (r : RPos) (hft : f ≤ t) (R : Resolved doc f r)
    (h0 : r.textOffset = 0) : ClimbInv doc f t r r.depth (t - f) := by
  refine ⟨Nat.le_refl _, by omega, ?_, ?_⟩
  · have : t - (t - f) - f = 0 := by omega
    rw [this]; simp [structuralOnly]
  · have he := R.entry r.depth (Nat.le_refl _)
    have hp := R.pos_eq
    simp only [RPos.textOffset] at h0
    have h1 := he.pos_le
    have h2 := he.pos_eq
    have hi : r.indexAfter r.depth = (r.entry r.depth).index := by
      simp [RPos.indexAfter, RPos.textOffset, h0, RPos.index]
    rw [hi]
    show t - (t - f) = r.start r.depth + fsize ((r.entry r.depth).node.kids.take (r.entry r.depth).index)
    omega

theorem climbInv_step (doc : Node) (f t : Nat) (r : RPos) (hr : doc.resolve f = some r)
    (depth dist : Nat) (I : ClimbInv doc f t r depth dist) (hdist : 0 < dist) (hdep : 0 < depth)
    (hend : r.indexAfter depth = (r.node depth).kids.length) :
    ClimbInv doc f t r (depth - 1) (dist - 1) := by
  have R := resolve_resolved hr
  obtain ⟨k, rfl⟩ : ∃ k, depth = k + 1 := ⟨depth - 1, by omega⟩
  have hk : k < r.depth := I.hd
  obtain ⟨ty, a, m, kids, hn⟩ := resolve_node_elem hr k hk
  have hw := R.window_node k hk
  have hat := I.at_
  rw [hend, List.take_length, Resolved.start_succ, hn] at hat
  simp only [Node.kids] at hat
  rw [hn] at hw
  -- the token at the current position is the close token of the node at `depth`
  have hcl : (ftoks doc.kids)[t - dist]? = some Tok.cl := by
    have := getElem?_of_window _ _ _ _ hw (1 + fsize kids) (by simp [Node.toks, ftoks_length]; omega)
    rw [show (r.entry k).pos + (1 + fsize kids) = t - dist by omega] at this
    rw [this, ← ftoks_length, Nat.add_comm]
    simp only [Node.toks, List.getElem?_cons_succ]
    rw [List.getElem?_append_right (Nat.le_refl _)]
    simp
  have hle := I.le
  refine ⟨by omega, by omega, ?_, ?_⟩
  · have e : t - (dist - 1) - f = (t - dist - f) + 1 := by omega
    rw [e, List.take_add_one, List.getElem?_drop, show f + (t - dist - f) = t - dist by omega, hcl,
      structuralOnly_append, I.so]
    rfl
  · have hc := (R.chain k hk).1
    have he := (R.entry k (by omega)).pos_eq
    have hi : r.indexAfter k = r.index k + 1 := by
      have : ¬ (k = r.depth) := by omega
      simp [RPos.indexAfter, this]
    simp only [Nat.add_sub_cancel]
    rw [hi, fsize_take_succ _ _ _ hc, hn]
    simp only [Node.size]
    change (r.entry k).pos = r.start k + fsize ((r.node k).kids.take (r.index k)) at he
    omega

theorem climb_inv (doc : Node) (f t : Nat) (r : RPos) (hr : doc.resolve f = some r) :
    ∀ (fuel depth dist : Nat), ClimbInv doc f t r depth dist →
      ClimbInv doc f t r (contentBetween.climb r fuel depth dist).1 (contentBetween.climb r fuel depth dist).2
  | 0, depth, dist, I => by simpa [contentBetween.climb] using I
  | fuel + 1, depth, dist, I => by
    unfold contentBetween.climb
    split
    · rename_i hc
      simp only [Bool.and_eq_true, decide_eq_true_eq, beq_iff_eq, gt_iff_lt] at hc
      exact climb_inv doc f t r hr fuel _ _ (climbInv_step doc f t r hr depth dist I hc.1.1 hc.1.2 hc.2)
    · exact I

/-- `content_between` answers "no" only for closes-then-opens ranges (a non-empty range starting
    inside a text node is answered "yes" by the early branch) -/
theorem contentBetween_structural' (doc : Node) (f t : Nat) (hft : f ≤ t)
    (h : contentBetween doc f t = some false) :
    structuralOnly (((ftoks doc.kids).drop f).take (t - f)) = true := by
  by_cases hemp : t - f = 0
  · rw [hemp]; simp [structuralOnly]
  unfold contentBetween at h
  cases hr : doc.resolve f with
  | none => simp [hr] at h
  | some r =>
    rw [hr] at h
    simp only at h
    by_cases hb : r.textOffset = 0
    · have hcond : (decide (t - f > 0) && r.textOffset != 0) = false := by simp [hb]
      rw [hcond] at h
      simp only [Bool.false_eq_true, if_false] at h
      have R := resolve_resolved hr
      have I := climb_inv doc f t r hr (r.depth + 1) r.depth (t - f) (climbInv_init doc f t r hft R hb)
      generalize hc : contentBetween.climb r (r.depth + 1) r.depth (t - f) = cd at h I
      obtain ⟨d', dist'⟩ := cd
      simp only at h I
      have hle := I.le
      rw [take_split _ (t - dist' - f) (t - f) (by omega), structuralOnly_append, I.so, Bool.true_and,
        List.drop_drop, show f + (t - dist' - f) = t - dist' by omega,
        show t - f - (t - dist' - f) = dist' by omega]
      by_cases hd0 : dist' > 0
      · rw [if_pos hd0] at h
        simp only [Option.some.injEq] at h
        refine descend_false dist' _ _ h ?_
        intro n hn
        have hw := window_child _ _ _ _ _ (R.window_kids d' I.hd) hn
        rw [← I.at_] at hw
        exact ⟨((ftoks doc.kids).drop (t - dist')).drop n.size, by rw [← hw, List.take_append_drop]⟩
      · have : dist' = 0 := by omega
        subst this; simp [structuralOnly]
    · have hcond : (decide (t - f > 0) && r.textOffset != 0) = true := by
        simp [hb]; omega
      rw [hcond] at h
      simp at h

end PM
