/- Proofs/FitNoRaise.lean — towards `fit_no_raise`: an iteration of the loop of `fit` can only raise **inside `place_nodes`**.
   `find_fittable` (both passes), `open_more` and `drop_node` return whenever every frontier entry holds a match and the
   unplaced slice's `open_start` is covered by its first-child chain (`fitStep_raises_in_place`). -/
import Proofs.FitOpen
set_option linter.unusedVariables false
namespace PM

theorem ite_total {α : Type} {c : Prop} [Decidable c] {x y : FM α} (hx : ∃ r, x = .ok r) (hy : ∃ r, y = .ok r) :
    ∃ r, (if c then x else y) = .ok r := by
  split
  · exact hx
  · exact hy

theorem contentAt_total : ∀ (d : Nat) (c : List Node), d ≤ spineL c →
    ∃ F, contentAt c d = .ok F ∧ spineL c = d + spineL F
  | 0, c, _ => ⟨c, rfl, by omega⟩
  | d + 1, c, h => by
    cases c with
    | nil => simp [spineL] at h
    | cons n rest =>
      cases n with
      | text s m => simp [spineL] at h
      | leaf t a m => simp [spineL] at h
      | elem t a m k =>
        simp only [spineL_elem_cons] at h ⊢
        obtain ⟨F, hF, hs⟩ := contentAt_total d k (by omega)
        exact ⟨F, by unfold contentAt; simpa [Node.kids] using hF, by omega⟩

theorem fittableStart_total (S : Schema) (total : Nat) : ∀ (n d : Nat) (cur : List Node) (oe : Nat), n ≤ spineL cur →
    ∃ r, fittableStart S total n d cur oe = .ok r
  | 0, d, cur, oe, _ => ⟨total, rfl⟩
  | n + 1, d, cur, oe, h => by
    cases cur with
    | nil => simp [spineL] at h
    | cons node rest =>
      cases node with
      | text s m => simp [spineL] at h
      | leaf t a m => simp [spineL] at h
      | elem t a m k =>
        simp only [spineL_elem_cons] at h
        unfold fittableStart
        simp only
        exact ite_total ⟨d, rfl⟩ (fittableStart_total S total n (d + 1) k _ (by omega))

theorem dropFromFragment_total : ∀ (d : Nat) (c : List Node) (count : Nat), d ≤ spineL c →
    ∃ r, dropFromFragment c d count = .ok r
  | 0, c, count, _ => ⟨_, rfl⟩
  | d + 1, c, count, h => by
    cases c with
    | nil => simp [spineL] at h
    | cons n rest =>
      cases n with
      | text s m => simp [spineL] at h
      | leaf t a m => simp [spineL] at h
      | elem t a m k =>
        simp only [spineL_elem_cons] at h
        obtain ⟨r, hr⟩ := dropFromFragment_total d k count (by omega)
        unfold dropFromFragment
        simp only
        rw [FM.bind_eq hr]
        exact ⟨_, rfl⟩

theorem frontierHit_total (S : Schema) (hdet : DetS S) (hf : FillersOK S) (pass2 : Bool) (sd : Nat)
    (parent first : Option Node) (it : FItem) (fd : Nat) (q : Nat) (hq : it.st = some q) :
    ∃ r, frontierHit S pass2 sd parent first it fd = .ok r := by
  have hgs : getSt it = .ok q := by unfold getSt; rw [hq]; rfl
  unfold frontierHit
  cases pass2 with
  | false =>
    simp only [Bool.not_false, if_true]
    cases first with
    | none =>
      cases parent with
      | none => exact ⟨none, rfl⟩
      | some p =>
        simp only
        split <;> exact ⟨_, rfl⟩
    | some fst =>
      simp only
      rw [FM.bind_eq hgs]
      split
      · exact ⟨_, rfl⟩
      · obtain ⟨inj, hinj⟩ := fillOpt_ok S hdet hf it.ty q [S.tyOf fst] false
        rw [FM.bind_eq hinj]
        cases inj <;> exact ⟨_, rfl⟩
  | true =>
    simp only [Bool.not_true, Bool.false_eq_true, if_false]
    cases first with
    | none => exact ⟨none, rfl⟩
    | some fst =>
      simp only
      rw [FM.bind_eq hgs]
      split <;> exact ⟨_, rfl⟩

theorem scanFrontier_total (S : Schema) (hdet : DetS S) (hf : FillersOK S) (pass2 : Bool) (sd : Nat)
    (parent first : Option Node) (fr : List FItem) (hfr : FrOK fr) :
    ∀ n, n ≤ fr.length → ∃ r, scanFrontier S pass2 sd parent first fr n = .ok r
  | 0, _ => ⟨none, rfl⟩
  | n + 1, h => by
    unfold scanFrontier
    rw [FM.bind_eq (getItem_lt (by omega))]
    obtain ⟨q, hq⟩ := hfr fr[n] (List.getElem_mem _)
    obtain ⟨hit, hhit⟩ := frontierHit_total S hdet hf pass2 sd parent first fr[n] n q hq
    rw [FM.bind_eq hhit]
    cases hit with
    | some g => exact ⟨_, rfl⟩
    | none =>
      simp only
      have hb : ∃ b, frontierBreak S parent fr[n] = .ok b := by
        unfold frontierBreak
        cases parent with
        | none => exact ⟨false, rfl⟩
        | some p =>
          simp only
          have hgs : getSt fr[n] = .ok q := by unfold getSt; rw [hq]; rfl
          rw [FM.bind_eq hgs]
          exact ⟨_, rfl⟩
      obtain ⟨b, hb⟩ := hb
      rw [FM.bind_eq hb]
      cases b with
      | true => exact ⟨none, rfl⟩
      | false =>
        simp only [Bool.false_eq_true, if_false]
        exact scanFrontier_total S hdet hf pass2 sd parent first fr hfr n (by omega)

theorem sliceLevel_total (u : Slice) (sd : Nat) (h : sd ≤ spineL u.content) : ∃ lvl, sliceLevel u sd = .ok lvl := by
  unfold sliceLevel
  split
  · exact ⟨_, rfl⟩
  · rename_i hsd
    obtain ⟨F, hF, hs⟩ := contentAt_total (sd - 1) u.content (by omega)
    rw [FM.bind_eq hF]
    cases F with
    | nil => simp [spineL] at hs; omega
    | cons p rest => exact ⟨_, rfl⟩

theorem scanSlice_total (S : Schema) (hdet : DetS S) (hf : FillersOK S) (pass2 : Bool) (u : Slice)
    (fr : List FItem) (hfr : FrOK fr) : ∀ n, n ≤ spineL u.content + 1 → ∃ r, scanSlice S pass2 u fr n = .ok r
  | 0, _ => ⟨none, rfl⟩
  | sd + 1, h => by
    unfold scanSlice
    obtain ⟨lvl, hl⟩ := sliceLevel_total u sd (by omega)
    rw [FM.bind_eq hl]
    obtain ⟨r, hr⟩ := scanFrontier_total S hdet hf pass2 sd lvl.1 lvl.2.head? fr hfr fr.length (Nat.le_refl _)
    rw [FM.bind_eq hr]
    cases r with
    | some g => exact ⟨_, rfl⟩
    | none => exact scanSlice_total S hdet hf pass2 u fr hfr sd (by omega)

/-- **`find_fittable` returns** -/
theorem findFittable_total (S : Schema) (hdet : DetS S) (hf : FillersOK S) (st : FitState) (hfr : FrOK st.frontier)
    (hwf : st.unplaced.openStart ≤ spineL st.unplaced.content) : ∃ r, findFittable S st = .ok r := by
  unfold findFittable
  simp only
  obtain ⟨sdp, hs⟩ := fittableStart_total S st.unplaced.openStart st.unplaced.openStart 0 st.unplaced.content
    st.unplaced.openEnd hwf
  have hle := fittableStart_le S _ _ 0 _ _ sdp (by omega) hs
  rw [FM.bind_eq hs]
  obtain ⟨r, hr⟩ := scanSlice_total S hdet hf false st.unplaced st.frontier hfr (sdp + 1) (by omega)
  rw [FM.bind_eq hr]
  cases r with
  | some g => exact ⟨_, rfl⟩
  | none => exact scanSlice_total S hdet hf true st.unplaced st.frontier hfr _ (by omega)

theorem openMore_total (st : FitState) (hwf : st.unplaced.openStart ≤ spineL st.unplaced.content) :
    ∃ r, openMore st = .ok r := by
  unfold openMore
  simp only
  obtain ⟨F, hF, _⟩ := contentAt_total st.unplaced.openStart st.unplaced.content hwf
  rw [FM.bind_eq hF]
  cases F with
  | nil => exact ⟨_, rfl⟩
  | cons first rest =>
    simp only
    split <;> exact ⟨_, rfl⟩

theorem dropNode_total (st : FitState) (hwf : st.unplaced.openStart ≤ spineL st.unplaced.content) :
    ∃ r, dropNode st = .ok r := by
  unfold dropNode
  obtain ⟨F, hF, _⟩ := contentAt_total st.unplaced.openStart st.unplaced.content hwf
  rw [FM.bind_eq hF]
  split
  · obtain ⟨c, hc⟩ := dropFromFragment_total (st.unplaced.openStart - 1) st.unplaced.content 1 (by omega)
    rw [FM.bind_eq hc]
    exact ⟨_, rfl⟩
  · obtain ⟨c, hc⟩ := dropFromFragment_total st.unplaced.openStart st.unplaced.content 1 hwf
    rw [FM.bind_eq hc]
    exact ⟨_, rfl⟩

/-- **an iteration of the loop raises only inside `place_nodes`** -/
theorem fitStep_raises_in_place (S : Schema) (hdet : DetS S) (hf : FillersOK S) (st : FitState)
    (hfr : FrOK st.frontier) (hwf : st.unplaced.openStart ≤ spineL st.unplaced.content) (e : FitErr)
    (h : fitStep S st = .error e) : ∃ f, findFittable S st = .ok (some f) ∧ placeNodes S st f = .error e := by
  obtain ⟨r, hr⟩ := findFittable_total S hdet hf st hfr hwf
  unfold fitStep at h
  rw [FM.bind_eq hr] at h
  cases r with
  | some f => exact ⟨f, hr, h⟩
  | none =>
    simp only at h
    obtain ⟨o, ho⟩ := openMore_total st hwf
    rw [FM.bind_eq ho] at h
    cases o with
    | some st' => simp [pure, Except.pure] at h
    | none =>
      simp only at h
      obtain ⟨r', hr'⟩ := dropNode_total st hwf
      rw [hr'] at h
      simp at h

end PM
