/- Proofs/FitNoRaise.lean — towards `fit_no_raise`: an iteration of the loop of `fit` can only raise **inside `place_nodes`**.
   `find_fittable` (both passes), `open_more` and `drop_node` return whenever every frontier entry holds a match and the
   unplaced slice's `open_start` is covered by its first-child chain (`fitStep_raises_in_place`). -/
import Proofs.FitOpen
set_option linter.unusedVariables false
namespace PM

theorem ite_total {α : Type} {c : Prop} [Decidable c] {x y : FM α} (hx : ∃ r, x = .ok r) (hy : ∃ r, y = .ok r) :
    ∃ r, (if c then x else y) = .ok r := by
  split
  · exact hx
  · exact hy

theorem contentAt_total : ∀ (d : Nat) (c : List Node), d ≤ spineL c →
    ∃ F, contentAt c d = .ok F ∧ spineL c = d + spineL F
  | 0, c, _ => ⟨c, rfl, by omega⟩
  | d + 1, c, h => by
    cases c with
    | nil => simp [spineL] at h
    | cons n rest =>
      cases n with
      | text s m => simp [spineL] at h
      | leaf t a m => simp [spineL] at h
      | elem t a m k =>
        simp only [spineL_elem_cons] at h ⊢
        obtain ⟨F, hF, hs⟩ := contentAt_total d k (by omega)
        exact ⟨F, by unfold contentAt; simpa [Node.kids] using hF, by omega⟩

theorem fittableStart_total (S : Schema) (total : Nat) : ∀ (n d : Nat) (cur : List Node) (oe : Nat), n ≤ spineL cur →
    ∃ r, fittableStart S total n d cur oe = .ok r
  | 0, d, cur, oe, _ => ⟨total, rfl⟩
  | n + 1, d, cur, oe, h => by
    cases cur with
    | nil => simp [spineL] at h
    | cons node rest =>
      cases node with
      | text s m => simp [spineL] at h
      | leaf t a m => simp [spineL] at h
      | elem t a m k =>
        simp only [spineL_elem_cons] at h
        unfold fittableStart
        simp only
        exact ite_total ⟨d, rfl⟩ (fittableStart_total S total n (d + 1) k _ (by omega))

theorem dropFromFragment_total : ∀ (d : Nat) (c : List Node) (count : Nat), d ≤ spineL c →
    ∃ r, dropFromFragment c d count = .ok r
  | 0, c, count, _ => ⟨_, rfl⟩
  | d + 1, c, count, h => by
    cases c with
    | nil => simp [spineL] at h
    | cons n rest =>
      cases n with
      | text s m => simp [spineL] at h
      | leaf t a m => simp [spineL] at h
      | elem t a m k =>
        simp only [spineL_elem_cons] at h
        obtain ⟨r, hr⟩ := dropFromFragment_total d k count (by omega)
        unfold dropFromFragment
        simp only
        rw [FM.bind_eq hr]
        exact ⟨_, rfl⟩

theorem frontierHit_total (S : Schema) (hdet : DetS S) (hf : FillersOK S) (pass2 : Bool) (sd : Nat)
    (parent first : Option Node) (it : FItem) (fd : Nat) (q : Nat) (hq : it.st = some q) :
    ∃ r, frontierHit S pass2 sd parent first it fd = .ok r := by
  have hgs : getSt it = .ok q := by unfold getSt; rw [hq]; rfl
  unfold frontierHit
  cases pass2 with
  | false =>
    simp only [Bool.not_false, if_true]
    cases first with
    | none =>
      cases parent with
      | none => exact ⟨none, rfl⟩
      | some p =>
        simp only
        split <;> exact ⟨_, rfl⟩
    | some fst =>
      simp only
      rw [FM.bind_eq hgs]
      split
      · exact ⟨_, rfl⟩
      · obtain ⟨inj, hinj⟩ := fillOpt_ok S hdet hf it.ty q [S.tyOf fst] false
        rw [FM.bind_eq hinj]
        cases inj <;> exact ⟨_, rfl⟩
  | true =>
    simp only [Bool.not_true, Bool.false_eq_true, if_false]
    cases first with
    | none => exact ⟨none, rfl⟩
    | some fst =>
      simp only
      rw [FM.bind_eq hgs]
      split <;> exact ⟨_, rfl⟩

theorem scanFrontier_total (S : Schema) (hdet : DetS S) (hf : FillersOK S) (pass2 : Bool) (sd : Nat)
    (parent first : Option Node) (fr : List FItem) (hfr : FrOK fr) :
    ∀ n, n ≤ fr.length → ∃ r, scanFrontier S pass2 sd parent first fr n = .ok r
  | 0, _ => ⟨none, rfl⟩
  | n + 1, h => by
    unfold scanFrontier
    rw [FM.bind_eq (getItem_lt (by omega))]
    obtain ⟨q, hq⟩ := hfr fr[n] (List.getElem_mem _)
    obtain ⟨hit, hhit⟩ := frontierHit_total S hdet hf pass2 sd parent first fr[n] n q hq
    rw [FM.bind_eq hhit]
    cases hit with
    | some g => exact ⟨_, rfl⟩
    | none =>
      simp only
      have hb : ∃ b, frontierBreak S parent fr[n] = .ok b := by
        unfold frontierBreak
        cases parent with
        | none => exact ⟨false, rfl⟩
        | some p =>
          simp only
          have hgs : getSt fr[n] = .ok q := by unfold getSt; rw [hq]; rfl
          rw [FM.bind_eq hgs]
          exact ⟨_, rfl⟩
      obtain ⟨b, hb⟩ := hb
      rw [FM.bind_eq hb]
      cases b with
      | true => exact ⟨none, rfl⟩
      | false =>
        simp only [Bool.false_eq_true, if_false]
        exact scanFrontier_total S hdet hf pass2 sd parent first fr hfr n (by omega)

theorem sliceLevel_total (u : Slice) (sd : Nat) (h : sd ≤ spineL u.content) : ∃ lvl, sliceLevel u sd = .ok lvl := by
  unfold sliceLevel
  split
  · exact ⟨_, rfl⟩
  · rename_i hsd
    obtain ⟨F, hF, hs⟩ := contentAt_total (sd - 1) u.content (by omega)
    rw [FM.bind_eq hF]
    cases F with
    | nil => simp [spineL] at hs; omega
    | cons p rest => exact ⟨_, rfl⟩

theorem scanSlice_total (S : Schema) (hdet : DetS S) (hf : FillersOK S) (pass2 : Bool) (u : Slice)
    (fr : List FItem) (hfr : FrOK fr) : ∀ n, n ≤ spineL u.content + 1 → ∃ r, scanSlice S pass2 u fr n = .ok r
  | 0, _ => ⟨none, rfl⟩
  | sd + 1, h => by
    unfold scanSlice
    obtain ⟨lvl, hl⟩ := sliceLevel_total u sd (by omega)
    rw [FM.bind_eq hl]
    obtain ⟨r, hr⟩ := scanFrontier_total S hdet hf pass2 sd lvl.1 lvl.2.head? fr hfr fr.length (Nat.le_refl _)
    rw [FM.bind_eq hr]
    cases r with
    | some g => exact ⟨_, rfl⟩
    | none => exact scanSlice_total S hdet hf pass2 u fr hfr sd (by omega)

/-- **`find_fittable` returns** -/
theorem findFittable_total (S : Schema) (hdet : DetS S) (hf : FillersOK S) (st : FitState) (hfr : FrOK st.frontier)
    (hwf : st.unplaced.openStart ≤ spineL st.unplaced.content) : ∃ r, findFittable S st = .ok r := by
  unfold findFittable
  simp only
  obtain ⟨sdp, hs⟩ := fittableStart_total S st.unplaced.openStart st.unplaced.openStart 0 st.unplaced.content
    st.unplaced.openEnd hwf
  have hle := fittableStart_le S _ _ 0 _ _ sdp (by omega) hs
  rw [FM.bind_eq hs]
  obtain ⟨r, hr⟩ := scanSlice_total S hdet hf false st.unplaced st.frontier hfr (sdp + 1) (by omega)
  rw [FM.bind_eq hr]
  cases r with
  | some g => exact ⟨_, rfl⟩
  | none => exact scanSlice_total S hdet hf true st.unplaced st.frontier hfr _ (by omega)

theorem openMore_total (st : FitState) (hwf : st.unplaced.openStart ≤ spineL st.unplaced.content) :
    ∃ r, openMore st = .ok r := by
  unfold openMore
  simp only
  obtain ⟨F, hF, _⟩ := contentAt_total st.unplaced.openStart st.unplaced.content hwf
  rw [FM.bind_eq hF]
  cases F with
  | nil => exact ⟨_, rfl⟩
  | cons first rest =>
    simp only
    split <;> exact ⟨_, rfl⟩

theorem dropNode_total (st : FitState) (hwf : st.unplaced.openStart ≤ spineL st.unplaced.content) :
    ∃ r, dropNode st = .ok r := by
  unfold dropNode
  obtain ⟨F, hF, _⟩ := contentAt_total st.unplaced.openStart st.unplaced.content hwf
  rw [FM.bind_eq hF]
  split
  · obtain ⟨c, hc⟩ := dropFromFragment_total (st.unplaced.openStart - 1) st.unplaced.content 1 (by omega)
    rw [FM.bind_eq hc]
    exact ⟨_, rfl⟩
  · obtain ⟨c, hc⟩ := dropFromFragment_total st.unplaced.openStart st.unplaced.content 1 hwf
    rw [FM.bind_eq hc]
    exact ⟨_, rfl⟩

/-- **an iteration of the loop raises only inside `place_nodes`** -/
theorem fitStep_raises_in_place (S : Schema) (hdet : DetS S) (hf : FillersOK S) (st : FitState)
    (hfr : FrOK st.frontier) (hwf : st.unplaced.openStart ≤ spineL st.unplaced.content) (e : FitErr)
    (h : fitStep S st = .error e) : ∃ f, findFittable S st = .ok (some f) ∧ placeNodes S st f = .error e := by
  obtain ⟨r, hr⟩ := findFittable_total S hdet hf st hfr hwf
  unfold fitStep at h
  rw [FM.bind_eq hr] at h
  cases r with
  | some f => exact ⟨f, hr, h⟩
  | none =>
    simp only at h
    obtain ⟨o, ho⟩ := openMore_total st hwf
    rw [FM.bind_eq ho] at h
    cases o with
    | some st' => simp [pure, Except.pure] at h
    | none =>
      simp only at h
      obtain ⟨r', hr'⟩ := dropNode_total st hwf
      rw [hr'] at h
      simp at h

/-! ### inside `place_nodes`: only the take loop (`close_node_start`) and the pushing of the open end can raise -/

theorem FM.bind_error_cases {α β : Type} {x : FM α} {f : α → FM β} {e : FitErr} (h : (x >>= f) = .error e) :
    x = .error e ∨ ∃ a, x = .ok a ∧ f a = .error e := by
  cases x with
  | error e' =>
    simp only [bind, Except.bind, Except.error.injEq] at h
    subst h
    exact .inl rfl
  | ok a => exact .inr ⟨a, rfl, h⟩

theorem ite_error_cases {α : Type} {b : Bool} {x y : FM α} {e : FitErr} (h : (if b = true then x else y) = .error e) :
    (b = true ∧ x = .error e) ∨ (b = false ∧ y = .error e) := by
  cases b with
  | true => exact .inl ⟨rfl, by simpa using h⟩
  | false => exact .inr ⟨rfl, by simpa using h⟩

theorem placeRest_total (slice : Slice) (sd taken : Nat) (toEnd : Bool) (oec : Int)
    (hsd : sd ≤ spineL slice.content) : ∃ u, placeRest slice sd taken toEnd oec = .ok u := by
  unfold placeRest
  cases toEnd with
  | false =>
    simp only [Bool.not_false, if_true]
    obtain ⟨c, hc⟩ := dropFromFragment_total sd slice.content taken hsd
    rw [FM.bind_eq hc]
    exact ⟨_, rfl⟩
  | true =>
    simp only [Bool.not_true, Bool.false_eq_true, if_false]
    split
    · exact ⟨_, rfl⟩
    · obtain ⟨c, hc⟩ := dropFromFragment_total (sd - 1) slice.content 1 (by omega)
      rw [FM.bind_eq hc]
      exact ⟨_, rfl⟩

/-- **`place_nodes` raises only in the take loop or while pushing the open end** -/
theorem placeNodes_raise_sites (S : Schema) (hdet : DetS S) (hf : FillersOK S) (hw : WrapOK S) (hlab : LabelsOK S)
    (st : FitState) (inv : InStep st) (hU2 : st.unplaced.openStart ≤ spineL st.unplaced.content)
    (f : Fittable) (hfit : findFittable S st = .ok (some f)) (e : FitErr) (h : placeNodes S st f = .error e) :
    (∃ d fty os oec total q add, takeLoop S d fty os oec total (f.fragment st.unplaced) 0 q add = .error e) ∨
    (∃ n fr, pushOpenEnd S n (f.fragment st.unplaced) fr = .error e) := by
  obtain ⟨lvl, it, hsd, hlvl, hpar, hit, kind, _⟩ := findFittable_kind S st f hfit
  have hfragment := fragment_eq_lvl hlvl hpar
  have hfdlt : f.frontierDepth < st.frontier.length := by
    rcases Nat.lt_or_ge f.frontierDepth st.frontier.length with h1 | h1
    · exact h1
    · rw [List.getElem?_eq_none h1] at hit; simp at hit
  obtain ⟨q, hq⟩ := inv.frok it (List.mem_of_getElem? hit)
  obtain ⟨c1, hc1, hc1f, hc1s⟩ := closeMany_ok S hdet hf (st.frontier.length - 1 - f.frontierDepth)
    st.frontier st.placed inv.frok (by omega) inv.sp
  have hc1f' : c1.1 = st.frontier.take (f.frontierDepth + 1) := by
    rw [hc1f]; congr 1; omega
  have hc1len : c1.1.length = f.frontierDepth + 1 := by
    rw [hc1f', List.length_take]; omega
  have hc1ok : FrOK c1.1 := by rw [hc1f']; exact inv.frok.take _
  have hc1it : c1.1[f.frontierDepth]? = some it := by
    rw [hc1f', List.getElem?_take_of_lt (by omega)]; exact hit
  have hc1last : c1.1.getLast? = some it := by
    rw [List.getLast?_eq_getElem?, hc1len, Nat.add_sub_cancel]; exact hc1it
  have hchain : ChainFrom S (S.dfa it.ty) q (f.wrap.getD []) := by
    cases kind with
    | direct _ _ _ _ _ _ hwn => rw [hwn]; trivial
    | inject _ _ _ _ _ _ _ hwn => rw [hwn]; trivial
    | empty _ _ _ _ hwn => rw [hwn]; trivial
    | wrap fst q' w hfst hq' hfw _ hwn =>
      rw [hwn]
      rw [hq] at hq'
      simp only [Option.some.injEq] at hq'
      subst hq'
      exact findWrappingTypes_chain S _ _ _ w hfw
  obtain ⟨c2, hc2, hc2ok, hc2len, hc2s, hc2sz, hc2pre, hc2top⟩ :=
    openMany_ok S hw (f.wrap.getD []) c1.1 c1.2 it q hc1last hq hchain hc1ok hc1s
  rw [hc1len] at hc2len hc2top
  simp only [Nat.add_sub_cancel] at hc2top
  have hitem : ∃ item q0, c2.1[f.frontierDepth]? = some item ∧ item.st = some q0 ∧ item.ty = it.ty ∧
      (f.wrap.getD [] = [] → q0 = q) ∧
      (∀ w0 rest, f.wrap.getD [] = w0 :: rest → (S.dfa it.ty).matchType q w0 = some q0) := by
    cases hws : f.wrap.getD [] with
    | nil =>
      rw [hws] at hc2
      have := pure_ok hc2
      subst this
      exact ⟨it, q, hc1it, hq, rfl, fun _ => rfl, fun _ _ h => by simp at h⟩
    | cons w0 rest =>
      have htop := hc2top w0 rest hws
      rw [hws] at hchain
      obtain ⟨q', hq'⟩ := Option.isSome_iff_exists.1 hchain.2.1
      refine ⟨_, q', htop, by simp [hq'], rfl, fun h => by simp at h, ?_⟩
      intro w0' rest' h
      simp only [List.cons.injEq] at h
      rw [← h.1]; exact hq'
  obtain ⟨item, q0, hitem, hitq, hitty, hq0nil, hq0cons⟩ := hitem
  have hfdlt2 : f.frontierDepth < c2.1.length := by rw [hc2len]; omega
  have hrun : ∃ q1, (S.dfa item.ty).run q0 (S.types (f.inject.getD [])) = some q1 := by
    cases kind with
    | direct _ _ _ _ _ hinj _ => rw [hinj]; exact ⟨q0, rfl⟩
    | empty _ _ _ hinj _ => rw [hinj]; exact ⟨q0, rfl⟩
    | wrap _ _ _ _ _ _ hinj _ => rw [hinj]; exact ⟨q0, rfl⟩
    | inject fst q' inj hfst hq' hfill hinj hwn =>
      rw [hinj, hitty]
      have hq0 : q0 = q := hq0nil (by rw [hwn]; rfl)
      rw [hq] at hq'
      simp only [Option.some.injEq] at hq'
      subst hq'; subst hq0
      have htys := fillBeforeNodes_types S _ _ _ _ inj (liftRaise_ok hfill)
      obtain ⟨q1, hr, _⟩ := fillBeforeTypes_one S _ (hdet it.ty) q0 (S.tyOf fst) _ htys
      exact ⟨q1, hr⟩
  obtain ⟨q1, hq1⟩ := hrun
  -- peel the binds of `place_nodes`
  unfold placeNodes at h
  rw [FM.bind_eq hc1, FM.bind_eq hc2] at h
  simp only at h
  rw [FM.bind_eq (show getItem c2.1 f.frontierDepth = .ok item by unfold getItem; rw [hitem]; rfl)] at h
  rw [FM.bind_eq (show getSt item = .ok q0 by unfold getSt; rw [hitq]; rfl)] at h
  rw [FM.bind_eq (show liftRaise ((S.dfa item.ty).run q0 (S.types (f.inject.getD []))) = .ok q1 by rw [hq1]; rfl)] at h
  rcases FM.bind_error_cases h with h1 | ⟨tk, htk, h⟩
  · exact .inl ⟨_, _, _, _, _, _, _, h1⟩
  -- with wrappers opened nothing is taken
  have hwrap_nothing : ∀ w0 rest, f.wrap.getD [] = w0 :: rest → tk.2.2 = [] := by
    intro w0 rest hws
    cases kind with
    | direct _ _ _ _ _ _ hwn => rw [hwn] at hws; simp at hws
    | inject _ _ _ _ _ _ _ hwn => rw [hwn] at hws; simp at hws
    | empty _ _ _ _ hwn => rw [hwn] at hws; simp at hws
    | wrap fst q' w hfst hq' hfw hinj hwn =>
      rw [hwn] at hws
      simp only [Option.getD_some] at hws
      subst hws
      rw [hq] at hq'
      simp only [Option.some.injEq] at hq'
      subst hq'
      obtain ⟨rest', hl2⟩ : ∃ rest', lvl.2 = fst :: rest' := by
        cases hl : lvl.2 with
        | nil => rw [hl] at hfst; simp at hfst
        | cons a l => rw [hl] at hfst; simp at hfst; subst hfst; exact ⟨l, rfl⟩
      have hm0 := hq0cons w0 rest (by rw [hwn]; rfl)
      have hnm : (S.dfa it.ty).matchType q0 (S.tyOf fst) = none := by
        by_cases hx : S.tyOf fst < S.nodes.size
        · exact hw.2 it.ty q (S.tyOf fst) w0 rest q0 hx hfw hm0
        · cases hmm : (S.dfa it.ty).matchType q0 (S.tyOf fst) with
          | none => rfl
          | some y => exact absurd (hlab it.ty q0 _ (Dfa.mem_of_matchType hmm)) hx
      have hq1' : q1 = q0 := by
        rw [hinj] at hq1
        simpa [Schema.types, Dfa.run] using hq1.symm
      rw [hfragment, hl2, hinj, hq1', hitty, takeLoop_nomatch S _ _ _ _ _ fst rest' 0 q0 _ hnm] at htk
      have := pure_ok htk
      rw [← this]
      rfl
  have hadd : ∃ p, addToFragment c2.2 f.frontierDepth (fromArray tk.2.2) = .ok p ∧ rspineOK (c2.1.length - 1) p := by
    cases hws : f.wrap.getD [] with
    | nil =>
      have hl : c2.1.length - 1 = f.frontierDepth := by rw [hc2len, hws]; simp
      rw [hl] at hc2s ⊢
      obtain ⟨p, hp, hps, _⟩ := addToFragment_ok f.frontierDepth c2.2 (fromArray tk.2.2) hc2s
      exact ⟨p, hp, hps⟩
    | cons w0 rest =>
      rw [hwrap_nothing w0 rest hws]
      have hsp' : rspineOK f.frontierDepth c2.2 := rspineOK_le _ _ _ (by omega) hc2s
      exact ⟨c2.2, addToFragment_nil _ _ hsp', hc2s⟩
  obtain ⟨p, hp, hps⟩ := hadd
  rw [FM.bind_eq hp] at h
  have hset_len : (c2.1.set f.frontierDepth ⟨item.ty, some tk.2.1⟩).length = c2.1.length := List.length_set
  have hset_ok : FrOK (c2.1.set f.frontierDepth ⟨item.ty, some tk.2.1⟩) := FrOK_set hc2ok _ _ ⟨_, rfl⟩
  have hlast_lt : (c2.1.set f.frontierDepth ⟨item.ty, some tk.2.1⟩).length - 1 <
      (c2.1.set f.frontierDepth ⟨item.ty, some tk.2.1⟩).length := by
    rw [hset_len]; omega
  rw [FM.bind_eq (getItem_lt hlast_lt)] at h
  rcases FM.bind_error_cases h with h1 | ⟨c3, hc3, h⟩
  · exfalso
    rcases ite_error_cases h1 with ⟨_, h2⟩ | ⟨_, h2⟩
    · obtain ⟨x, hx, _⟩ := closeFrontierNode_ok S hdet hf _ p hset_ok (by
        intro h0
        have : (c2.1.set f.frontierDepth ⟨item.ty, some tk.2.1⟩).length = 0 := by rw [h0]; rfl
        rw [hset_len, hc2len] at this
        omega) (by rw [hset_len]; exact hps)
      rw [hx] at h2
      cases h2
    · simp [pure, Except.pure] at h2
  rcases FM.bind_error_cases h with h1 | ⟨fr4, hpush, h⟩
  · exact .inr ⟨_, _, h1⟩
  rcases FM.bind_error_cases h with h1 | ⟨u', hu', h⟩
  · exfalso
    obtain ⟨u, hu⟩ := placeRest_total st.unplaced f.sliceDepth tk.1 (tk.1 == (f.fragment st.unplaced).length)
      (if (tk.1 == (f.fragment st.unplaced).length) = true then
        ((fsize (f.fragment st.unplaced) : Int) + f.sliceDepth) -
          ((fsize st.unplaced.content : Int) - st.unplaced.openEnd) else -1) (by omega)
    rw [hu] at h1
    cases h1
  · simp [pure, Except.pure] at h

end PM
