/- Proofs/FitScan.lean — what `find_fittable` (PM/Fitter.lean `findFittable`) returns, in the detail the
   termination argument needs: which test made the hit (`HitKind`), at which frontier item, and — for
   a wrapper hit of pass 2 — that the top of the frontier matched the first node of no slice level
   scanned before (`findFittable_kind`). -/
import PM.Fitter
import Proofs.Fitter
import Proofs.FitterText
import Proofs.FillOrder
namespace PM

/-- which of the four tests of `find_fittable` produced the fittable `f` at frontier item `it` -/
inductive HitKind (S : Schema) (parent first : Option Node) (it : FItem) (f : Fittable) : Prop
  /-- pass 1: the first node matches at the frontier item -/
  | direct (fst : Node) (q : Nat) : first = some fst → it.st = some q →
      ((S.dfa it.ty).matchType q (S.tyOf fst)).isSome = true → f.inject = none → f.wrap = none →
      HitKind S parent first it f
  /-- pass 1: it matches after a filling -/
  | inject (fst : Node) (q : Nat) (inj : List Node) : first = some fst → it.st = some q →
      fillOpt S (S.dfa it.ty) q [S.tyOf fst] false = .ok (some inj) → f.inject = some inj → f.wrap = none →
      HitKind S parent first it f
  /-- pass 1: the level is empty and its parent's type is compatible -/
  | empty (p : Node) : first = none → parent = some p → f.inject = none → f.wrap = none →
      HitKind S parent first it f
  /-- pass 2: it fits inside wrappers -/
  | wrap (fst : Node) (q : Nat) (w : List TypeId) : first = some fst → it.st = some q →
      findWrappingTypes S (S.dfa it.ty) q (S.tyOf fst) = some w → f.inject = none → f.wrap = some w →
      HitKind S parent first it f

theorem getSt_ok {it : FItem} {q : Nat} (h : getSt it = .ok q) : it.st = some q := by
  unfold getSt at h
  split at h
  · rename_i q' hq
    have := pure_ok h
    rw [hq, this]
  · simp [throw, throwThe, MonadExceptOf.throw] at h

theorem getItem_ok {fr : List FItem} {i : Nat} {it : FItem} (h : getItem fr i = .ok it) : fr[i]? = some it := by
  unfold getItem at h
  split at h
  · rename_i it' hi
    have := pure_ok h
    rw [hi, this]
  · simp [throw, throwThe, MonadExceptOf.throw] at h

theorem frontierHit_kind (S : Schema) (pass2 : Bool) (sd : Nat) (parent first : Option Node)
    (it : FItem) (fd : Nat) (f : Fittable) (h : frontierHit S pass2 sd parent first it fd = .ok (some f)) :
    f.sliceDepth = sd ∧ f.frontierDepth = fd ∧ f.parent = parent ∧ HitKind S parent first it f := by
  unfold frontierHit at h
  simp only at h
  split at h
  · split at h
    · rename_i fst
      obtain ⟨q, hq, h⟩ := FM.bind_ok h
      split at h
      · rename_i hm
        have := pure_ok h
        simp only [Option.some.injEq] at this
        subst this
        exact ⟨rfl, rfl, rfl, .direct fst q rfl (getSt_ok hq) hm rfl rfl⟩
      · obtain ⟨inj, hinj, h⟩ := FM.bind_ok h
        cases inj with
        | none => simp [pure, Except.pure] at h
        | some inj =>
          have := pure_ok h
          simp only [Option.some.injEq] at this
          subst this
          exact ⟨rfl, rfl, rfl, .inject fst q inj rfl (getSt_ok hq) hinj rfl rfl⟩
    · split at h
      · rename_i p
        split at h
        · have := pure_ok h
          simp only [Option.some.injEq] at this
          subst this
          exact ⟨rfl, rfl, rfl, .empty p rfl rfl rfl rfl⟩
        · simp [pure, Except.pure] at h
      · simp [pure, Except.pure] at h
  · split at h
    · rename_i fst
      obtain ⟨q, hq, h⟩ := FM.bind_ok h
      split at h
      · rename_i w hw
        have := pure_ok h
        simp only [Option.some.injEq] at this
        subst this
        exact ⟨rfl, rfl, rfl, .wrap fst q w rfl (getSt_ok hq) hw rfl rfl⟩
      · simp [pure, Except.pure] at h
    · simp [pure, Except.pure] at h

/-- pass 2 finds nothing at an item only if the first node does not match there -/
theorem frontierHit_pass2_none (S : Schema) (sd : Nat) (parent : Option Node) (fst : Node)
    (it : FItem) (fd : Nat) (q : Nat) (hq : it.st = some q)
    (h : frontierHit S true sd parent (some fst) it fd = .ok none) :
    ((S.dfa it.ty).matchType q (S.tyOf fst)).isSome = false := by
  unfold frontierHit at h
  simp only [Bool.not_true, Bool.false_eq_true, if_false] at h
  obtain ⟨q', hq', h⟩ := FM.bind_ok h
  have := getSt_ok hq'
  rw [hq] at this
  simp only [Option.some.injEq] at this
  subst this
  split at h
  · simp [pure, Except.pure] at h
  · rename_i hw
    cases hm : ((S.dfa it.ty).matchType q (S.tyOf fst)).isSome with
    | false => rfl
    | true => rw [findWrappingTypes_of_match S _ q _ hm] at hw; simp at hw

/-! ### the frontier loop -/

theorem scanFrontier_hit (S : Schema) (pass2 : Bool) (sd : Nat) (parent first : Option Node)
    (fr : List FItem) : ∀ (n : Nat) (f : Fittable),
    scanFrontier S pass2 sd parent first fr n = .ok (some f) →
    ∃ fd it, fd < n ∧ fr[fd]? = some it ∧ frontierHit S pass2 sd parent first it fd = .ok (some f)
  | 0, f, h => by simp [scanFrontier, pure, Except.pure] at h
  | fd + 1, f, h => by
    unfold scanFrontier at h
    obtain ⟨it, hit, h⟩ := FM.bind_ok h
    obtain ⟨hit', hhit, h⟩ := FM.bind_ok h
    cases hit' with
    | some g =>
      have := pure_ok h
      simp only [Option.some.injEq] at this
      subst this
      exact ⟨fd, it, by omega, getItem_ok hit, hhit⟩
    | none =>
      simp only at h
      obtain ⟨brk, _, h⟩ := FM.bind_ok h
      cases brk with
      | true => simp [pure, Except.pure] at h
      | false =>
        obtain ⟨fd', it', h1, h2, h3⟩ := scanFrontier_hit S pass2 sd parent first fr fd f h
        exact ⟨fd', it', by omega, h2, h3⟩

/-- the item on top of the frontier is tried first: whatever it yields is the answer -/
theorem scanFrontier_top (S : Schema) (pass2 : Bool) (sd : Nat) (parent first : Option Node)
    (fr : List FItem) (n : Nat) (r : Option Fittable)
    (h : scanFrontier S pass2 sd parent first fr (n + 1) = .ok r) :
    ∃ it hit, fr[n]? = some it ∧ frontierHit S pass2 sd parent first it n = .ok hit ∧
      ∀ g, hit = some g → r = some g := by
  unfold scanFrontier at h
  obtain ⟨it, hit, h⟩ := FM.bind_ok h
  obtain ⟨hit', hhit, h⟩ := FM.bind_ok h
  refine ⟨it, hit', getItem_ok hit, hhit, ?_⟩
  intro g hg
  subst hg
  exact (pure_ok h).symm

/-! ### the slice loop -/

theorem scanSlice_hit (S : Schema) (pass2 : Bool) (u : Slice) (fr : List FItem) :
    ∀ (n : Nat) (f : Fittable), scanSlice S pass2 u fr n = .ok (some f) →
    ∃ sd lvl, sd < n ∧ sliceLevel u sd = .ok lvl ∧
      scanFrontier S pass2 sd lvl.1 lvl.2.head? fr fr.length = .ok (some f) ∧
      ∀ sd', sd < sd' → sd' < n → ∃ lvl', sliceLevel u sd' = .ok lvl' ∧
        scanFrontier S pass2 sd' lvl'.1 lvl'.2.head? fr fr.length = .ok none
  | 0, f, h => by simp [scanSlice, pure, Except.pure] at h
  | sd + 1, f, h => by
    unfold scanSlice at h
    obtain ⟨lvl, hlvl, h⟩ := FM.bind_ok h
    obtain ⟨r, hr, h⟩ := FM.bind_ok h
    cases r with
    | some g =>
      have := pure_ok h
      simp only [Option.some.injEq] at this
      subst this
      exact ⟨sd, lvl, by omega, hlvl, hr, fun sd' h1 h2 => by omega⟩
    | none =>
      obtain ⟨sd0, lvl0, h1, h2, h3, h4⟩ := scanSlice_hit S pass2 u fr sd f h
      refine ⟨sd0, lvl0, by omega, h2, h3, ?_⟩
      intro sd' h5 h6
      rcases Nat.lt_or_ge sd' sd with hlt | hge
      · exact h4 sd' h5 hlt
      · have : sd' = sd := by omega
        subst this
        exact ⟨lvl, hlvl, hr⟩

/-- a level of the unplaced slice: its parent node and its children -/
theorem sliceLevel_ok {u : Slice} {sd : Nat} {lvl : Option Node × List Node} (h : sliceLevel u sd = .ok lvl) :
    (sd = 0 ∧ lvl = (none, u.content)) ∨
    (0 < sd ∧ ∃ p rest, contentAt u.content (sd - 1) = .ok (p :: rest) ∧ lvl = (some p, p.kids)) := by
  unfold sliceLevel at h
  split at h
  · rename_i h0
    exact .inl ⟨h0, (pure_ok h).symm⟩
  · rename_i h0
    obtain ⟨c, hc, h⟩ := FM.bind_ok h
    split at h
    · simp [throw, throwThe, MonadExceptOf.throw] at h
    · rename_i p rest
      exact .inr ⟨by omega, p, rest, hc, (pure_ok h).symm⟩

theorem sliceLevel_contentAt {u : Slice} {sd : Nat} {lvl : Option Node × List Node}
    (h : sliceLevel u sd = .ok lvl) : contentAt u.content sd = .ok lvl.2 := by
  rcases sliceLevel_ok h with ⟨rfl, rfl⟩ | ⟨hpos, p, rest, hp, rfl⟩
  · rfl
  · have := contentAt_succ (sd - 1) _ p rest hp
    rwa [show sd - 1 + 1 = sd by omega] at this

/-! ### does the top of the frontier accept the first node of a slice level? -/

/-- the item on top of the frontier accepts the first node of level `sd` of the unplaced slice
    (false whenever one of them does not exist) -/
def topMatches (S : Schema) (st : FitState) (sd : Nat) : Bool :=
  match st.frontier.getLast? with
  | some it =>
    match it.st with
    | some q =>
      match sliceLevel st.unplaced sd with
      | .ok lvl =>
        match lvl.2.head? with
        | some fst => ((S.dfa it.ty).matchType q (S.tyOf fst)).isSome
        | none => false
      | .error _ => false
    | none => false
  | none => false

theorem getLast?_eq_getElem? {α : Type} (l : List α) : l.getLast? = l[l.length - 1]? := by
  rw [List.getLast?_eq_getElem?]

/-- where pass 2 finds nothing for a level, the top of the frontier does not accept its first node -/
theorem topMatches_false_of_scan_none (S : Schema) (st : FitState) (sd : Nat)
    (lvl : Option Node × List Node) (hlvl : sliceLevel st.unplaced sd = .ok lvl)
    (h : scanFrontier S true sd lvl.1 lvl.2.head? st.frontier st.frontier.length = .ok none) :
    topMatches S st sd = false := by
  unfold topMatches
  cases hl : st.frontier.getLast? with
  | none => rfl
  | some it =>
    simp only
    cases hq : it.st with
    | none => rfl
    | some q =>
      simp only [hlvl]
      cases hf : lvl.2.head? with
      | none => rfl
      | some fst =>
        simp only
        have hne : st.frontier.length ≠ 0 := by
          intro h0
          have : st.frontier = [] := List.eq_nil_of_length_eq_zero h0
          rw [this] at hl
          simp at hl
        obtain ⟨n, hn⟩ : ∃ n, st.frontier.length = n + 1 := ⟨st.frontier.length - 1, by omega⟩
        rw [hn, hf] at h
        obtain ⟨it', hit', h1, h2, h3⟩ := scanFrontier_top S true sd lvl.1 (some fst) st.frontier n none h
        have hit_eq : it' = it := by
          rw [getLast?_eq_getElem?, hn, Nat.add_sub_cancel, h1] at hl
          simpa using hl
        subst hit_eq
        cases hit' with
        | some g => have := h3 g rfl; simp at this
        | none => exact frontierHit_pass2_none S sd lvl.1 fst it' n q hq h2

/-! ### find_fittable -/

/-- `start_depth` never exceeds `open_start` -/
theorem fittableStart_le (S : Schema) (total : Nat) : ∀ (n d : Nat) (cur : List Node) (oe r : Nat),
    d + n = total → fittableStart S total n d cur oe = .ok r → r ≤ total
  | 0, d, cur, oe, r, hd, h => by
    have := pure_ok h
    omega
  | n + 1, d, cur, oe, r, hd, h => by
    unfold fittableStart at h
    split at h
    · simp [throw, throwThe, MonadExceptOf.throw] at h
    · simp only at h
      split at h <;>
      · split at h
        · have := pure_ok h
          omega
        · exact fittableStart_le S total n (d + 1) _ _ r (by omega) h

/-- **what `find_fittable` returns**: the level `sd ≤ open_start` of the unplaced slice and the
    frontier item it was found for, the test that succeeded, and — when it is a non-empty wrapping —
    that the top of the frontier accepts the first node of no level from `sd` to `open_start` -/
theorem findFittable_kind (S : Schema) (st : FitState) (f : Fittable)
    (h : findFittable S st = .ok (some f)) :
    ∃ lvl it, f.sliceDepth ≤ st.unplaced.openStart ∧ sliceLevel st.unplaced f.sliceDepth = .ok lvl ∧
      f.parent = lvl.1 ∧ st.frontier[f.frontierDepth]? = some it ∧ HitKind S lvl.1 lvl.2.head? it f ∧
      (∀ w, f.wrap = some w → w ≠ [] →
        ∀ sd', f.sliceDepth ≤ sd' → sd' ≤ st.unplaced.openStart → topMatches S st sd' = false) := by
  unfold findFittable at h
  simp only at h
  obtain ⟨start, hstart, h⟩ := FM.bind_ok h
  have hsle := fittableStart_le S _ _ 0 _ _ start (by omega) hstart
  obtain ⟨r, hr, h⟩ := FM.bind_ok h
  cases r with
  | some g =>
    have := pure_ok h
    simp only [Option.some.injEq] at this
    subst this
    obtain ⟨sd, lvl, h1, h2, h3, _⟩ := scanSlice_hit S false _ _ _ g hr
    obtain ⟨fd, it, h5, h6, h7⟩ := scanFrontier_hit S false sd lvl.1 lvl.2.head? _ _ g h3
    obtain ⟨k1, k2, k3, k4⟩ := frontierHit_kind S false sd lvl.1 lvl.2.head? it fd g h7
    refine ⟨lvl, it, by omega, by rw [k1]; exact h2, k3, by rw [k2]; exact h6, k4, ?_⟩
    intro w hw _
    -- pass 1 never produces a wrapping
    cases k4 with
    | direct _ _ _ _ _ _ hwn => rw [hwn] at hw; simp at hw
    | inject _ _ _ _ _ _ _ hwn => rw [hwn] at hw; simp at hw
    | empty _ _ _ _ hwn => rw [hwn] at hw; simp at hw
    | wrap _ _ _ _ _ hfw _ _ =>
      exfalso
      unfold frontierHit at h7
      simp only [Bool.not_false, if_true] at h7
      split at h7
      · obtain ⟨q, _, h7⟩ := FM.bind_ok h7
        split at h7
        · have := pure_ok h7
          simp only [Option.some.injEq] at this
          subst this
          simp at hw
        · obtain ⟨inj, _, h7⟩ := FM.bind_ok h7
          cases inj with
          | none => simp [pure, Except.pure] at h7
          | some inj =>
            have := pure_ok h7
            simp only [Option.some.injEq] at this
            subst this
            simp at hw
      · split at h7
        · split at h7
          · have := pure_ok h7
            simp only [Option.some.injEq] at this
            subst this
            simp at hw
          · simp [pure, Except.pure] at h7
        · simp [pure, Except.pure] at h7
  | none =>
    obtain ⟨sd, lvl, h1, h2, h3, h4⟩ := scanSlice_hit S true _ _ _ f h
    obtain ⟨fd, it, h5, h6, h7⟩ := scanFrontier_hit S true sd lvl.1 lvl.2.head? _ _ f h3
    obtain ⟨k1, k2, k3, k4⟩ := frontierHit_kind S true sd lvl.1 lvl.2.head? it fd f h7
    refine ⟨lvl, it, by omega, by rw [k1]; exact h2, k3, by rw [k2]; exact h6, k4, ?_⟩
    intro w hw hne sd' hs1 hs2
    rw [k1] at hs1
    rcases Nat.lt_or_ge sd sd' with hlt | hge
    · obtain ⟨lvl', hl1, hl2⟩ := h4 sd' hlt (by omega)
      exact topMatches_false_of_scan_none S st sd' lvl' hl1 hl2
    · have : sd' = sd := by omega
      subst this
      -- at the level of the hit itself: the top of the frontier did not accept the node either
      cases k4 with
      | direct _ _ _ _ _ _ hwn => rw [hwn] at hw; simp at hw
      | inject _ _ _ _ _ _ _ hwn => rw [hwn] at hw; simp at hw
      | empty _ _ _ _ hwn => rw [hwn] at hw; simp at hw
      | wrap fst q w' hfst hq hfw _ hwn =>
        rw [hwn] at hw
        simp only [Option.some.injEq] at hw
        subst hw
        have hnm : ((S.dfa it.ty).matchType q (S.tyOf fst)).isSome = false := by
          cases hm : ((S.dfa it.ty).matchType q (S.tyOf fst)).isSome with
          | false => rfl
          | true =>
            rw [findWrappingTypes_of_match S _ q _ hm] at hfw
            simp only [Option.some.injEq] at hfw
            exact absurd hfw.symm hne
        unfold topMatches
        cases hl : st.frontier.getLast? with
        | none => rfl
        | some top =>
          simp only
          cases hqt : top.st with
          | none => rfl
          | some qt =>
            simp only [h2, hfst]
            have hne0 : st.frontier.length ≠ 0 := by
              intro h0
              have : st.frontier = [] := List.eq_nil_of_length_eq_zero h0
              rw [this] at hl
              simp at hl
            obtain ⟨n, hn⟩ : ∃ n, st.frontier.length = n + 1 := ⟨st.frontier.length - 1, by omega⟩
            have htop : st.frontier[n]? = some top := by
              rw [getLast?_eq_getElem?, hn, Nat.add_sub_cancel] at hl
              exact hl
            rw [hn, hfst] at h3
            obtain ⟨it', hit', t1, t2, t3⟩ := scanFrontier_top S true sd' lvl.1 (some fst) st.frontier n (some f) h3
            rw [htop] at t1
            simp only [Option.some.injEq] at t1
            subst t1
            cases hit' with
            | none => exact frontierHit_pass2_none S sd' lvl.1 fst top n qt hqt t2
            | some g =>
              -- the hit is at the top item itself
              have hg := t3 g rfl
              simp only [Option.some.injEq] at hg
              subst hg
              obtain ⟨_, g2, _, _⟩ := frontierHit_kind S true sd' lvl.1 (some fst) top n f t2
              have hfd : fd = n := by omega
              subst hfd
              rw [htop] at h6
              simp only [Option.some.injEq] at h6
              subst h6
              rw [hq] at hqt
              simp only [Option.some.injEq] at hqt
              subst hqt
              exact hnm

end PM
