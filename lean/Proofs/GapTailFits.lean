/- Proofs/GapTailFits.lean — the fit guard `gapFitsBack` of a replace-around step whose gap ends in front of a
   closing token (the gap runs to the end of its parent node): the gap may start inside a text child. -/
import Proofs.GapTailInsert
import Proofs.GapTailPath
import Proofs.GapBack
import Proofs.MarkMerge
namespace PM
open PM

theorem getElem?_of_drop_take_one {α} (l : List α) (n : Nat) (x : α) (h : (l.drop n).take 1 = [x]) :
    l[n]? = some x := by
  cases hd : l.drop n with
  | nil => rw [hd] at h; simp at h
  | cons y ys =>
    rw [hd] at h
    simp only [List.take_succ_cons, List.take_zero, List.cons.injEq, and_true] at h
    subst h
    have := congrArg List.head? hd
    simpa [List.head?_drop] using this

theorem tokAligned_of_cl (l : List Tok) (p : Nat) (h : l[p]? = some Tok.cl) : tokAligned l p = true := by
  cases p with
  | zero => rfl
  | succ p =>
    simp only [tokAligned, h]
    split <;> simp_all

/-- **the gap of a replace-around step that ends in front of a closing token fits back** (no schema condition: since
    `insert_into` validates the content it built, `gapFitsBack_of_valid` needs none — `TextLoop S` was a hypothesis
    here; the cut in the remainder is pair-aligned because a closing token follows it):
    `gf … gt` removed from `doc.slice(f, t)` can be re-inserted by `insert_at`, also when `gf` lies inside a text
    child -/
theorem gapFitsBack_of_tail (S : Schema) (doc : Node) (f t gf gt : Nat) (old rem gap : Slice)
    (hd : S.checkNode doc = true) (hn : fnorm doc.kids = true)
    (hg : f ≤ gf ∧ gf ≤ gt ∧ gt < t) (ht : t ≤ fsize doc.kids)
    (hsl : doc.slice f t = .ok old) (hgap : doc.slice gf gt = .ok gap)
    (hgc : gap.openStart = 0 ∧ gap.openEnd = 0)
    (hrm : old.removeBetween (gf - f) (gt - f) = .ok rem)
    (hcl : (ftoks doc.kids)[gt]? = some Tok.cl) :
    gapFitsBack S doc f t gf gt = true := by
  have hsl' : sliceKids doc.kids f t = .ok old := hsl
  have hgap' : sliceKids doc.kids gf gt = .ok gap := hgap
  have hon := sliceKids_norm doc.kids f t old hn hsl'
  have hgn := sliceKids_norm doc.kids gf gt gap hn hgap'
  have hov := sliceKids_openValid S doc.kids f t old (checkNode_kids hd) hsl'
  have hosz := sliceKids_size doc.kids f t old (by omega) ht hsl'
  have hgclosed : gap = ⟨gap.content, 0, 0⟩ := by
    cases gap; simp at hgc; simp [hgc.1, hgc.2]
  have hGt : ftoks gap.content = ((ftoks doc.kids).drop gf).take (gt - gf) := by
    rw [← Slice.toks_closed, ← hgclosed]
    exact sliceKids_toks doc.kids gf gt gap hg.2.1 (by omega) hgap'
  have hOt := sliceKids_toks doc.kids f t old (by omega) ht hsl'
  have hwin : ftoks gap.content
      = ((ftoks old.content).drop (gf - f + old.openStart)).take (gt - gf) := by
    rw [← slice_window old (gf - f) (gt - gf) (by rw [hosz]; omega), hOt, hGt, List.drop_take,
      List.drop_drop, List.take_take, show f + (gf - f) = gf by omega]
    congr 1
    omega
  -- the token behind the gap, in the old slice's content
  have hclo : (ftoks old.content)[gt - f + old.openStart]? = some Tok.cl := by
    apply getElem?_of_drop_take_one
    rw [← slice_window old (gt - f) 1 (by rw [hosz]; omega), hOt, List.drop_take, List.drop_drop, List.take_take,
      show f + (gt - f) = gt by omega, show min 1 (t - f - (gt - f)) = 1 by omega]
    have hlt : gt < (ftoks doc.kids).length := by
      rcases Nat.lt_or_ge gt (ftoks doc.kids).length with h | h
      · exact h
      · rw [List.getElem?_eq_none h] at hcl; cases hcl
    rw [List.drop_eq_getElem_cons hlt]
    simp only [List.take_succ_cons, List.take_zero]
    rw [List.getElem?_eq_getElem hlt] at hcl
    simp only [Option.some.injEq] at hcl
    rw [hcl]
  -- the cut in the remainder is in front of that closing token
  refine (gapFitsBack_of_valid S doc f t gf gt old rem gap hd hn ⟨hg.1, hg.2.1, by omega⟩ ht hsl hgap hgc hrm ?_).1
  have hrn := removeBetween_norm old rem (gf - f) (gt - f) hon.1 hrm
  unfold Slice.removeBetween at hrm
  simp only at hrm
  split at hrm
  · simp at hrm
  · split at hrm
    · rename_i c1 hc1
      simp at hrm; subst hrm
      simp only at hrn ⊢
      obtain ⟨htk1, hT1⟩ := removeRange_toks old.content old.content _ _ 0 _ _ [] c1 rfl rfl (by simp)
        (by simp) (by omega) hc1
      rw [alignedAt_toks c1 _ hrn]
      apply tokAligned_of_cl
      have hlen : ((ftoks old.content).take (gf - f + old.openStart)).length = gf - f + old.openStart := by
        rw [List.length_take, ftoks_length]; omega
      rw [htk1, List.getElem?_append_right (by omega), hlen, Nat.sub_self, List.getElem?_drop, Nat.add_zero]
      exact hclo
    · simp at hrm

end PM
