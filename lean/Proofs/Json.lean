/- Proofs/Json.lean — helper lemmas for Props/C05.lean -/
import PM.Json
namespace PM
end PM
