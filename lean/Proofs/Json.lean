/- Proofs/Json.lean — helper lemmas for Props/C05.lean -/
import PM.Json
namespace PM

/-! ### `J.get` on association lists -/

theorem J.get_nil (k : String) : J.get (.obj []) k = none := by
  simp [J.get]

theorem J.get_cons_eq (k : String) (v : J) (rest : List (String × J)) :
    J.get (.obj ((k, v) :: rest)) k = some v := by
  simp [J.get, List.find?]

theorem J.get_cons_ne {k k' : String} (h : k' ≠ k) (v : J) (rest : List (String × J)) :
    J.get (.obj ((k', v) :: rest)) k = J.get (.obj rest) k := by
  have hb : (k' == k) = false := by simp [h]
  simp only [J.get, List.find?_cons, hb]

theorem J.get_append_skip {k : String} (l₁ l₂ : List (String × J))
    (h : ∀ p, p ∈ l₁ → p.1 ≠ k) : J.get (.obj (l₁ ++ l₂)) k = J.get (.obj l₂) k := by
  induction l₁ with
  | nil => rfl
  | cons p l ih =>
    obtain ⟨k', v⟩ := p
    have hk : k' ≠ k := h (k', v) (by simp)
    rw [List.cons_append, J.get_cons_ne hk]
    exact ih (fun q hq => h q (by simp [hq]))

/-! ### attributes -/

theorem attrsOfJ_attrsToJ (a : Attrs) : attrsOfJ (some (attrsToJ a)) = a := by
  simp only [attrsOfJ, attrsToJ]
  induction a with
  | nil => rfl
  | cons p l ih => obtain ⟨k, v⟩ := p; simp [ih]

theorem computeAttrs_nil (given : Attrs) : computeAttrs [] given = .ok [] := rfl

theorem computeAttrs_cons (d : AttrDecl) (ds : List AttrDecl) (given : Attrs) :
    computeAttrs (d :: ds) given =
      match computeAttrs ds given with
      | .error e => .error e
      | .ok rest =>
        match (given.find? (·.1 == d.name)).map (·.2) with
        | some v => if v != "null" then .ok ((d.name, v) :: rest)
                    else if d.hasDefault then .ok ((d.name, d.default) :: rest) else .error .valueError
        | none => if d.hasDefault then .ok ((d.name, d.default) :: rest) else .error .valueError := by
  rfl

theorem computeAttrs_ok_aux (given : Attrs) : ∀ (decls : List AttrDecl) (a : Attrs),
    a.map (·.1) = decls.map (·.name) →
    (∀ p, p ∈ a → given.find? (·.1 == p.1) = some p) →
    (∀ d, d ∈ decls → ∀ v, (d.name, v) ∈ a → v = "null" → d.hasDefault = true ∧ d.default = "null") →
    computeAttrs decls given = .ok a
  | [], a, hm, _, _ => by
    cases a with
    | nil => rfl
    | cons p l => simp at hm
  | d :: ds, a, hm, hf, hn => by
    cases a with
    | nil => simp at hm
    | cons p l =>
      obtain ⟨k, v⟩ := p
      simp only [List.map_cons, List.cons.injEq] at hm
      obtain ⟨hk, hm'⟩ := hm
      subst hk
      have ih := computeAttrs_ok_aux given ds l hm' (fun p hp => hf p (by simp [hp]))
        (fun d' hd' v' hv' => hn d' (by simp [hd']) v' (by simp [hv']))
      have hfind := hf (d.name, v) (by simp)
      simp only at hfind
      rw [computeAttrs_cons, ih]
      simp only [hfind, Option.map_some]
      by_cases hv : v = "null"
      · obtain ⟨h1, h2⟩ := hn d (by simp) v (by simp) hv
        simp [hv, h1, h2]
      · simp [hv]

theorem find?_key_of_nodup : ∀ (a : Attrs), (a.map (·.1)).Nodup →
    ∀ p, p ∈ a → a.find? (·.1 == p.1) = some p
  | [], _, p, hp => by simp at hp
  | q :: l, hnd, p, hp => by
    simp only [List.map_cons, List.nodup_cons] at hnd
    rcases List.mem_cons.mp hp with rfl | hp'
    · simp [List.find?]
    · have hne : q.1 ≠ p.1 := by
        intro e
        exact hnd.1 (e ▸ List.mem_map_of_mem hp')
      have hb : (q.1 == p.1) = false := by simp [hne]
      rw [List.find?_cons, hb]
      exact find?_key_of_nodup l hnd.2 p hp'

theorem computeAttrs_ok (decls : List AttrDecl) (a : Attrs)
    (hm : a.map (·.1) = decls.map (·.name)) (hnd : (decls.map (·.name)).Nodup)
    (hn : ∀ d, d ∈ decls → ∀ v, (d.name, v) ∈ a → v = "null" → d.hasDefault = true ∧ d.default = "null") :
    computeAttrs decls a = .ok a :=
  computeAttrs_ok_aux a decls a hm (find?_key_of_nodup a (hm ▸ hnd)) hn

/-! ### marks -/

theorem computeAttrsJ_attrsToJ (decls : List AttrDecl) (a : Attrs) :
    computeAttrsJ decls (some (attrsToJ a)) = computeAttrs decls a := by
  unfold computeAttrsJ
  cases a with
  | nil => simp [attrsToJ, J.truthy]
  | cons p l =>
    have : (attrsToJ (p :: l)).truthy = true := by simp [attrsToJ, J.truthy]
    simp only [this, Bool.not_true, Bool.false_eq_true, if_false]
    have h := attrsOfJ_attrsToJ (p :: l)
    simp only [attrsToJ] at h ⊢
    rw [h]

theorem computeAttrsJ_optField (decls : List AttrDecl) (a : Attrs) :
    computeAttrsJ decls (if a.isEmpty then none else some (attrsToJ a)) = computeAttrs decls a := by
  cases a with
  | nil => rfl
  | cons p l =>
    simp only [List.isEmpty_cons, Bool.false_eq_true, if_false]
    exact computeAttrsJ_attrsToJ decls (p :: l)

theorem markOfJ_markToJ (S : Schema) (m : Mark) (hfind : S.findMark (S.markName m.ty) = some m.ty)
    (hattrs : computeAttrs (S.markType m.ty).attrs m.attrs = .ok m.attrs) :
    S.markOfJ (S.markToJ m) = .ok m := by
  have h1 : (S.markToJ m).get "type" = some (.str (S.markName m.ty)) := by
    simp only [Schema.markToJ]; exact J.get_cons_eq _ _ _
  have h2 : (S.markToJ m).get "attrs" = some (attrsToJ m.attrs) := by
    simp only [Schema.markToJ]
    rw [J.get_cons_ne (by decide), J.get_cons_eq]
  have h3 : (S.markToJ m).truthy = true := by simp [Schema.markToJ, J.truthy]
  have h4 : computeAttrsJ (S.markType m.ty).attrs (some (attrsToJ m.attrs)) = .ok m.attrs := by
    rw [computeAttrsJ_attrsToJ, hattrs]
  unfold Schema.markOfJ
  rw [h3]
  simp only [Schema.markToJ] at h1 h2 ⊢
  simp only [h1, h2, hfind, h4]
  rfl

theorem mapM_markOfJ (S : Schema) : ∀ (ms : Marks), (∀ m, m ∈ ms → S.markOfJ (S.markToJ m) = .ok m) →
    (ms.map S.markToJ).mapM S.markOfJ = .ok ms
  | [], _ => rfl
  | m :: ms, h => by
    have ih := mapM_markOfJ S ms (fun m' hm' => h m' (by simp [hm']))
    simp only [List.map_cons, List.mapM_cons, h m (by simp), ih]
    rfl

theorem get_marksField_other (S : Schema) (ms : Marks) {k : String} (hk : k ≠ "marks")
    (rest : List (String × J)) :
    J.get (.obj (S.marksField ms ++ rest)) k = J.get (.obj rest) k := by
  apply J.get_append_skip
  intro p hp
  unfold Schema.marksField at hp
  split at hp
  · simp at hp
  · simp at hp; subst hp; exact fun e => hk e.symm

theorem marksOfJ_marksField (S : Schema) (ms : Marks) (rest : List (String × J))
    (hm : (ms.map S.markToJ).mapM S.markOfJ = .ok ms) (hs : setFrom ms = ms)
    (hrest : J.get (.obj rest) "marks" = none) :
    S.marksOfJ (J.get (.obj (S.marksField ms ++ rest)) "marks") = .ok ms := by
  unfold Schema.marksField
  cases ms with
  | nil => simp [hrest, Schema.marksOfJ]
  | cons m l =>
    simp only [List.isEmpty_cons, Bool.false_eq_true, if_false, List.cons_append, J.get_cons_eq]
    simp only [Schema.marksOfJ, J.truthy, List.map_cons, List.isEmpty_cons] 
    simp only [List.map_cons] at hm
    simp only [hm, Bool.not_false, Bool.not_true, Bool.false_eq_true, if_false, Except.map, hs]

/-! ### node decoding, by fields -/

theorem nodeOfJ_text (S : Schema) (fuel : Nat) (kv : List (String × J)) (marks : Marks) (u : List Nat)
    (hne : kv ≠ []) (hm : S.marksOfJ ((J.obj kv).get "marks") = .ok marks)
    (ht : (J.obj kv).get "type" = some (.str "text"))
    (hx : (J.obj kv).get "text" = some (.text u)) (hu : u ≠ []) :
    S.nodeOfJ (fuel + 1) (.obj kv) = .ok (.text u marks) := by
  have h1 : kv.isEmpty = false := by cases kv <;> simp_all
  have h2 : u.isEmpty = false := by cases u <;> simp_all
  simp only [Schema.nodeOfJ, h1, hm, ht, hx, pyStrUnits, h2]
  simp

theorem nodeOfJ_typed (S : Schema) (fuel : Nat) (kv : List (String × J)) (marks : Marks) (name : String)
    (t : TypeId) (a : Attrs) (kids : List Node)
    (hne : kv ≠ []) (hm : S.marksOfJ ((J.obj kv).get "marks") = .ok marks)
    (ht : (J.obj kv).get "type" = some (.str name)) (hname : name ≠ "text")
    (hfind : S.findNode name = some t)
    (hc : ((J.obj kv).get "content" = none ∧ kids = []) ∨
          ∃ l, (J.obj kv).get "content" = some (.arr l) ∧ S.kidsOfJ fuel l = .ok kids)
    (ha : computeAttrsJ (S.nodeType t).attrs ((J.obj kv).get "attrs") = .ok a) :
    S.nodeOfJ (fuel + 1) (.obj kv) =
      if (S.nodeType t).isLeaf then .ok (.leaf t a marks) else .ok (.elem t a marks kids) := by
  have h1 : kv.isEmpty = false := by cases kv <;> simp_all
  unfold Schema.nodeOfJ
  simp only [h1, Bool.false_eq_true, if_false, hm, ht]
  split
  · rename_i heq; simp at heq
  · rename_i heq
    simp only [Option.some.injEq, J.str.injEq] at heq
    exact (hname heq).elim
  · rename_i ty _ _ heq
    simp only [Option.some.injEq] at heq
    subst heq
    rcases hc with ⟨hc, rfl⟩ | ⟨l, hc, hk⟩
    · simp only [hc, hfind, ha]
    · cases l with
      | nil =>
        simp only [Schema.kidsOfJ, Except.ok.injEq] at hk
        subst hk
        simp [hc, J.truthy, hfind, ha]
      | cons x xs => simp [hc, J.truthy, hk, hfind, ha]


theorem get_optField_other {k k' : String} (hk : k' ≠ k) (c : Prop) [Decidable c] (v : J)
    (rest : List (String × J)) :
    J.get (.obj ((if c then [] else [(k', v)]) ++ rest)) k = J.get (.obj rest) k := by
  split
  · rfl
  · exact J.get_cons_ne hk v rest

theorem get_optField_same (k : String) (c : Prop) [Decidable c] (v : J) (rest : List (String × J)) :
    J.get (.obj ((if c then [] else [(k, v)]) ++ rest)) k = if c then J.get (.obj rest) k else some v := by
  split
  · rfl
  · exact J.get_cons_eq k v rest

theorem marksOfJ_marksField' (S : Schema) (ms : Marks)
    (hm : (ms.map S.markToJ).mapM S.markOfJ = .ok ms) (hs : setFrom ms = ms) :
    S.marksOfJ (J.get (.obj (S.marksField ms)) "marks") = .ok ms := by
  have := marksOfJ_marksField S ms [] hm hs (J.get_nil _)
  rwa [List.append_nil] at this

/-- shape of an encoded element -/
theorem nodeToJ_elem (S : Schema) (t : TypeId) (a : Attrs) (m : Marks) (kids : List Node) :
    S.nodeToJ (.elem t a m kids) = .obj (("type", .str (S.nodeName t)) ::
      ((if a.isEmpty then [] else [("attrs", attrsToJ a)]) ++
       ((if fsize kids = 0 then [] else [("content", .arr (S.kidsToJ kids))]) ++ S.marksField m))) := by
  simp only [Schema.nodeToJ, List.append_assoc, List.cons_append, List.nil_append]

theorem nodeToJ_leaf (S : Schema) (t : TypeId) (a : Attrs) (m : Marks) :
    S.nodeToJ (.leaf t a m) = .obj (("type", .str (S.nodeName t)) ::
      ((if a.isEmpty then [] else [("attrs", attrsToJ a)]) ++ S.marksField m)) := by
  simp only [Schema.nodeToJ, List.cons_append, List.nil_append]

theorem nodeToJ_text (S : Schema) (s : List Nat) (m : Marks) :
    S.nodeToJ (.text s m) = .obj (("type", .str "text") :: (S.marksField m ++ [("text", .text s)])) := by
  simp only [Schema.nodeToJ, List.cons_append, List.nil_append]

theorem get_marksField_nomarks (S : Schema) (ms : Marks) {k : String} (hk : k ≠ "marks") :
    J.get (.obj (S.marksField ms)) k = none := by
  have := get_marksField_other S ms hk []
  rwa [List.append_nil, J.get_nil] at this

theorem attrsOfJ_optField (a : Attrs) : attrsOfJ (if a.isEmpty then none else some (attrsToJ a)) = a := by
  cases a with
  | nil => rfl
  | cons p l => simp only [List.isEmpty_cons, Bool.false_eq_true, if_false, attrsOfJ_attrsToJ]


theorem nodeOfJ_nodeToJ_text (S : Schema) (fuel : Nat) (s : List Nat) (m : Marks) (hs : s ≠ [])
    (hm : (m.map S.markToJ).mapM S.markOfJ = .ok m) (hsf : setFrom m = m) :
    S.nodeOfJ (fuel + 1) (S.nodeToJ (.text s m)) = .ok (.text s m) := by
  rw [nodeToJ_text]
  apply nodeOfJ_text S fuel _ m s (by simp) _ _ _ hs
  · rw [J.get_cons_ne (by decide)]
    exact marksOfJ_marksField S m _ hm hsf (by rw [J.get_cons_ne (by decide), J.get_nil])
  · exact J.get_cons_eq _ _ _
  · rw [J.get_cons_ne (by decide), get_marksField_other S m (by decide), J.get_cons_eq]

theorem nodeOfJ_nodeToJ_leaf (S : Schema) (fuel : Nat) (t : TypeId) (a : Attrs) (m : Marks)
    (hname : S.nodeName t ≠ "text") (hfind : S.findNode (S.nodeName t) = some t)
    (hleaf : (S.nodeType t).isLeaf = true)
    (ha : computeAttrs (S.nodeType t).attrs a = .ok a)
    (hm : (m.map S.markToJ).mapM S.markOfJ = .ok m) (hsf : setFrom m = m) :
    S.nodeOfJ (fuel + 1) (S.nodeToJ (.leaf t a m)) = .ok (.leaf t a m) := by
  rw [nodeToJ_leaf]
  rw [nodeOfJ_typed S fuel _ m (S.nodeName t) t a [] (by simp) ?_ (J.get_cons_eq _ _ _) hname hfind
    (Or.inl ⟨?_, rfl⟩) ?_]
  · rw [hleaf]; rfl
  · rw [J.get_cons_ne (by decide), get_optField_other (by decide)]
    exact marksOfJ_marksField' S m hm hsf
  · rw [J.get_cons_ne (by decide), get_optField_other (by decide)]
    exact get_marksField_nomarks S m (by decide)
  · rw [J.get_cons_ne (by decide), get_optField_same, get_marksField_nomarks S m (by decide)]
    rw [computeAttrsJ_optField, ha]

theorem nodeOfJ_nodeToJ_elem (S : Schema) (fuel : Nat) (t : TypeId) (a : Attrs) (m : Marks)
    (kids : List Node)
    (hname : S.nodeName t ≠ "text") (hfind : S.findNode (S.nodeName t) = some t)
    (hleaf : (S.nodeType t).isLeaf = false)
    (ha : computeAttrs (S.nodeType t).attrs a = .ok a)
    (hm : (m.map S.markToJ).mapM S.markOfJ = .ok m) (hsf : setFrom m = m)
    (hk0 : fsize kids = 0 → kids = []) (hkids : S.kidsOfJ fuel (S.kidsToJ kids) = .ok kids) :
    S.nodeOfJ (fuel + 1) (S.nodeToJ (.elem t a m kids)) = .ok (.elem t a m kids) := by
  rw [nodeToJ_elem]
  rw [nodeOfJ_typed S fuel _ m (S.nodeName t) t a kids (by simp) ?_ (J.get_cons_eq _ _ _) hname hfind
    ?_ ?_]
  · rw [hleaf]; rfl
  · rw [J.get_cons_ne (by decide), get_optField_other (by decide), get_optField_other (by decide)]
    exact marksOfJ_marksField' S m hm hsf
  · rw [J.get_cons_ne (by decide), get_optField_other (by decide), get_optField_same,
      get_marksField_nomarks S m (by decide)]
    by_cases h0 : fsize kids = 0
    · left; rw [if_pos h0]; exact ⟨rfl, hk0 h0⟩
    · right; rw [if_neg h0]; exact ⟨_, rfl, hkids⟩
  · rw [J.get_cons_ne (by decide), get_optField_same, get_optField_other (by decide),
      get_marksField_nomarks S m (by decide), computeAttrsJ_optField, ha]


/-! ### fragments, slices -/

theorem kidsOfJ_cons_ok (S : Schema) (fuel : Nat) (j : J) (js : List J) (n : Node) (ns : List Node)
    (h1 : S.nodeOfJ fuel j = .ok n) (h2 : S.kidsOfJ fuel js = .ok ns) :
    S.kidsOfJ fuel (j :: js) = .ok (n :: ns) := by
  simp only [Schema.kidsOfJ, h1, h2]

theorem kidsOfJ_nil (S : Schema) (fuel : Nat) : S.kidsOfJ fuel [] = .ok [] := by
  simp only [Schema.kidsOfJ]

theorem kidsToJ_nil (S : Schema) : S.kidsToJ [] = [] := by simp only [Schema.kidsToJ]
theorem kidsToJ_cons (S : Schema) (n : Node) (ns : List Node) :
    S.kidsToJ (n :: ns) = S.nodeToJ n :: S.kidsToJ ns := by simp only [Schema.kidsToJ]

theorem fsize_nil : fsize [] = 0 := by simp only [fsize]
theorem fsize_cons (n : Node) (ns : List Node) : fsize (n :: ns) = n.size + fsize ns := by
  simp only [fsize]

theorem eq_nil_of_fsize_zero (kids : List Node) (h : ∀ k, k ∈ kids → 1 ≤ k.size)
    (h0 : fsize kids = 0) : kids = [] := by
  cases kids with
  | nil => rfl
  | cons k ks =>
    have := h k (by simp)
    rw [fsize_cons] at h0
    omega

theorem fragOfJ_fragToJ (S : Schema) (fuel : Nat) (l : List Node)
    (hk : S.kidsOfJ fuel (S.kidsToJ l) = .ok l) : S.fragOfJ fuel (some (S.fragToJ l)) = .ok l := by
  cases l with
  | nil => simp [Schema.fragToJ, Schema.fragOfJ, J.truthy]
  | cons n ns =>
    rw [kidsToJ_cons] at hk
    simp [Schema.fragToJ, Schema.fragOfJ, J.truthy, kidsToJ_cons, hk]

theorem sliceOfJ_sliceToJ (S : Schema) (fuel : Nat) (sl : Slice)
    (h0 : fsize sl.content = 0 → sl = Slice.empty)
    (hk : S.kidsOfJ fuel (S.kidsToJ sl.content) = .ok sl.content) :
    S.sliceOfJ fuel (some (S.sliceToJ sl)) = .ok sl := by
  unfold Schema.sliceToJ
  by_cases hz : fsize sl.content = 0
  · rw [if_pos hz, h0 hz]; simp [Schema.sliceOfJ, J.truthy]
  · rw [if_neg hz]
    obtain ⟨c, os, oe⟩ := sl
    simp only [List.cons_append, List.nil_append]
    have hc : ∀ rest, J.get (.obj (("content", S.fragToJ c) :: rest)) "content" = some (S.fragToJ c) :=
      fun rest => J.get_cons_eq _ _ _
    have hfr := fragOfJ_fragToJ S fuel c hk
    have e1 : (if os = 0 then some 0 else some os) = some os := by split <;> simp_all
    have e2 : (if oe = 0 then some 0 else some oe) = some oe := by split <;> simp_all
    by_cases h1 : os > 0 <;> by_cases h2 : oe > 0 <;>
      simp [Schema.sliceOfJ, J.truthy, h1, h2, J.get, List.find?, hfr, Except.map, openOfJ, e1, e2]
    all_goals omega


/-! ### steps -/

theorem intField_num (j : J) (k : String) (n : Nat) (cont : Nat → Res α)
    (h : j.get k = some (.num (n : Int))) : intField j k cont = cont n := by
  unfold intField
  rw [h]
  simp

theorem boolOfJ_structField (b : Bool) (k : String) (hk : k = "structure") :
    boolOfJ (J.get (.obj (structField b)) k) = b := by
  subst hk
  cases b <;> simp [structField, boolOfJ, J.get, J.truthy]

theorem get_structField_other (b : Bool) {k : String} (hk : k ≠ "structure") :
    J.get (.obj (structField b)) k = none := by
  cases b
  · simp [structField, J.get]
  · simp only [structField, if_true]; rw [J.get_cons_ne (fun e => hk e.symm), J.get_nil]

theorem sliceOfJ_sliceField (S : Schema) (fuel : Nat) (sl : Slice) (b : Bool)
    (h0 : fsize sl.content = 0 → sl = Slice.empty)
    (hk : S.kidsOfJ fuel (S.kidsToJ sl.content) = .ok sl.content) :
    S.sliceOfJ fuel (J.get (.obj ((if fsize sl.content ≠ 0 then [("slice", S.sliceToJ sl)] else []) ++ structField b)) "slice")
      = .ok sl := by
  by_cases hz : fsize sl.content = 0
  · simp only [hz, ne_eq, not_true_eq_false, if_false, List.nil_append]
    rw [get_structField_other b (by decide), h0 hz]; rfl
  · simp only [hz, ne_eq, not_false_eq_true, if_true, List.cons_append, J.get_cons_eq]
    exact sliceOfJ_sliceToJ S fuel sl h0 hk

theorem structure_sliceField (S : Schema) (sl : Slice) (b : Bool) :
    boolOfJ (J.get (.obj ((if fsize sl.content ≠ 0 then [("slice", S.sliceToJ sl)] else []) ++ structField b)) "structure")
      = b := by
  split
  · rw [List.cons_append, J.get_cons_ne (by decide), List.nil_append]; exact boolOfJ_structField b _ rfl
  · exact boolOfJ_structField b _ rfl

theorem J.get_cons (k k' : String) (v : J) (rest : List (String × J)) :
    J.get (.obj ((k', v) :: rest)) k = if k' = k then some v else J.get (.obj rest) k := by
  by_cases h : k' = k
  · subst h; rw [if_pos rfl, J.get_cons_eq]
  · rw [if_neg h, J.get_cons_ne h]

theorem stepOfJ_replace (S : Schema) (fuel : Nat) (f t : Nat) (sl : Slice) (b : Bool)
    (h0 : fsize sl.content = 0 → sl = Slice.empty)
    (hk : S.kidsOfJ fuel (S.kidsToJ sl.content) = .ok sl.content) :
    S.stepOfJ fuel (S.stepToJ (.replace f t sl b)) = .ok (.replace f t sl b) := by
  simp only [Schema.stepToJ, List.cons_append, List.nil_append]
  unfold Schema.stepOfJ
  simp only [J.get_cons, String.reduceEq, if_true, if_false, intField,
    sliceOfJ_sliceField S fuel sl b h0 hk, structure_sliceField]
  simp [stepIds, Except.map]

theorem stepOfJ_replaceAround (S : Schema) (fuel : Nat) (f t gf gt : Nat) (sl : Slice) (ins : Nat) (b : Bool)
    (h0 : fsize sl.content = 0 → sl = Slice.empty)
    (hk : S.kidsOfJ fuel (S.kidsToJ sl.content) = .ok sl.content) :
    S.stepOfJ fuel (S.stepToJ (.replaceAround f t gf gt sl ins b)) = .ok (.replaceAround f t gf gt sl ins b) := by
  simp only [Schema.stepToJ, List.cons_append, List.nil_append]
  unfold Schema.stepOfJ
  simp only [J.get_cons, String.reduceEq, if_true, if_false,
    intField, sliceOfJ_sliceField S fuel sl b h0 hk, structure_sliceField]
  simp [stepIds, Except.map]

theorem stepOfJ_addMark (S : Schema) (fuel : Nat) (f t : Nat) (m : Mark)
    (hm : S.markOfJ (S.markToJ m) = .ok m) :
    S.stepOfJ fuel (S.stepToJ (.addMark f t m)) = .ok (.addMark f t m) := by
  simp only [Schema.stepToJ]
  unfold Schema.stepOfJ
  simp only [J.get_cons, String.reduceEq, if_true, if_false, intField, Schema.markField, hm]
  simp [stepIds, Except.map]

theorem stepOfJ_removeMark (S : Schema) (fuel : Nat) (f t : Nat) (m : Mark)
    (hm : S.markOfJ (S.markToJ m) = .ok m) :
    S.stepOfJ fuel (S.stepToJ (.removeMark f t m)) = .ok (.removeMark f t m) := by
  simp only [Schema.stepToJ]
  unfold Schema.stepOfJ
  simp only [J.get_cons, String.reduceEq, if_true, if_false, intField, Schema.markField, hm]
  simp [stepIds, Except.map]

theorem stepOfJ_addNodeMark (S : Schema) (fuel : Nat) (p : Nat) (m : Mark)
    (hm : S.markOfJ (S.markToJ m) = .ok m) :
    S.stepOfJ fuel (S.stepToJ (.addNodeMark p m)) = .ok (.addNodeMark p m) := by
  simp only [Schema.stepToJ]
  unfold Schema.stepOfJ
  simp only [J.get_cons, String.reduceEq, if_true, if_false, intField, Schema.markField, hm]
  simp [stepIds, Except.map]

theorem stepOfJ_removeNodeMark (S : Schema) (fuel : Nat) (p : Nat) (m : Mark)
    (hm : S.markOfJ (S.markToJ m) = .ok m) :
    S.stepOfJ fuel (S.stepToJ (.removeNodeMark p m)) = .ok (.removeNodeMark p m) := by
  simp only [Schema.stepToJ]
  unfold Schema.stepOfJ
  simp only [J.get_cons, String.reduceEq, if_true, if_false, intField, Schema.markField, hm]
  simp [stepIds, Except.map]

theorem stepOfJ_attr (S : Schema) (fuel : Nat) (p : Nat) (n v : String) :
    S.stepOfJ fuel (S.stepToJ (.attr p n v)) = .ok (.attr p n v) := by
  simp only [Schema.stepToJ]
  unfold Schema.stepOfJ
  simp only [J.get_cons, String.reduceEq, if_true, if_false, intField]
  simp [stepIds]

theorem stepOfJ_docAttr (S : Schema) (fuel : Nat) (n v : String) :
    S.stepOfJ fuel (S.stepToJ (.docAttr n v)) = .ok (.docAttr n v) := by
  simp only [Schema.stepToJ]
  unfold Schema.stepOfJ
  simp only [J.get_cons, String.reduceEq, if_true, if_false]
  simp [stepIds]

theorem stepIds_nodup : stepIds.Nodup ∧ stepIds.length = 8 := by
  simp [stepIds]

theorem stepToJ_stepType (S : Schema) (st : Step) :
    ∃ name, (S.stepToJ st).get "stepType" = some (.str name) ∧ name ∈ stepIds := by
  cases st <;> simp only [Schema.stepToJ, List.cons_append, J.get_cons_eq] <;>
    exact ⟨_, rfl, by simp [stepIds]⟩

theorem stepOfJ_unknown_aux (S : Schema) (fuel : Nat) (kv : List (String × J)) (name : String)
    (h : (J.obj kv).get "stepType" = some (.str name)) (hn : name ∉ stepIds) :
    S.stepOfJ fuel (J.obj kv) = .error .valueError := by
  have hne : kv.isEmpty = false := by
    cases kv with
    | nil => simp [J.get] at h
    | cons _ _ => rfl
  have : stepIds.contains name = false := by simpa using hn
  simp only [Schema.stepOfJ, hne, h, this, Bool.not_false, if_true, Bool.false_eq_true, if_false]


end PM
