/-
  Proofs/LiftSplit.lean — **an approved lift applies, also when it splits ancestors of the range** (C12),
  given that the pieces the split leaves behind are valid (`liftGuardR`, PM/StructEdit.lean).

  `Transform.lift(NodeRange(from, to, depth), target)` builds
  `ReplaceAroundStep(gapStart - mL, gapEnd + mR, gapStart, gapEnd, Slice(before ++ after, oS, oE), oS, True)`:
  on the left the `mL` innermost levels at which the range starts at the first child are only stepped over, from
  the first level with a child before the range on, every ancestor up to `target + 1` is split (`before` = the nest
  of `oS` empty copies); same on the right.  The gap goes between `before` and `after`, and the replace at the
  level of `node(target)` joins the left nest with the part of `node(target + 1)` before the cut (`CutL`), the
  right nest with the part after the cut (`CutR`): `close` re-validates every piece, and the parent its new
  child list `before-part, left piece, lifted nodes, right piece, after-part`.
-/
import PM.Step
import PM.Structure
import PM.StructEdit
import Proofs.LiftSuccess
set_option linter.unusedSimpArgs false
namespace PM

/-! ### one-sided cuts of a child list, all the way down -/

/-- the part of the child list `L` (of a node of type `ty`) before offset `p`, which lies at a child boundary some
    levels down: `W` is the nest of empty copies of the nodes `p` is inside of, `XL` the left part, valid content
    for `ty`, and so on one level down -/
inductive CutL (S : Schema) : TypeId → List Node → Nat → List Node → List Node → Prop
  | edge {ty : TypeId} {pre post : List Node} :
      S.validContent ty pre = true → CutL S ty (pre ++ post) (fsize pre) [] pre
  | deep {ty tyC : TypeId} {a : Attrs} {m : Marks} {pre post kC W XL : List Node} {p : Nat} :
      CutL S tyC kC p W XL → S.validContent ty (pre ++ [.elem tyC a m XL]) = true →
      CutL S ty (pre ++ .elem tyC a m kC :: post) (fsize pre + 1 + p) [.elem tyC a m W] (pre ++ [.elem tyC a m XL])

/-- the part after offset `p` -/
inductive CutR (S : Schema) : TypeId → List Node → Nat → List Node → List Node → Prop
  | edge {ty : TypeId} {pre post : List Node} :
      S.validContent ty post = true → CutR S ty (pre ++ post) (fsize pre) [] post
  | deep {ty tyC : TypeId} {a : Attrs} {m : Marks} {pre post kC W XR : List Node} {p : Nat} :
      CutR S tyC kC p W XR → S.validContent ty (.elem tyC a m XR :: post) = true →
      CutR S ty (pre ++ .elem tyC a m kC :: post) (fsize pre + 1 + p) [.elem tyC a m W] (.elem tyC a m XR :: post)

namespace CutL
variable {S : Schema} {ty : TypeId} {L W XL : List Node} {p : Nat}

theorem valid (h : CutL S ty L p W XL) : S.validContent ty XL = true := by
  cases h with
  | edge h1 => exact h1
  | deep _ h1 => exact h1

theorem depth (h : CutL S ty L p W XL) :
    depthAt L p = spineL W ∧ p ≤ fsize L ∧ fsize W = 2 * spineL W ∧ spineR W = spineL W ∧ fnorm W = true := by
  induction h with
  | @edge ty pre post _ =>
    have := depthAt_append_pre pre post 0
    simp only [Nat.add_zero] at this
    refine ⟨by rw [this]; cases post <;> simp [spineL], by simp [fsize_append], by simp [spineL],
      by simp [spineL, spineR], rfl⟩
  | @deep ty tyC a m pre post kC W XL p _ _ ih =>
    obtain ⟨i1, i2, i3, i4, i5⟩ := ih
    refine ⟨?_, by simp [fsize_append]; omega, by simp; omega, by simp [spineL, spineR, i4], ?_⟩
    · rw [Nat.add_assoc, depthAt_append_pre, depthAt_elem_cons _ _ _ _ _ _ (by omega) (by omega)]
      simp [spineL, i1]
    · simp only [fnorm, Bool.and_eq_true] at i5
      simp [fnorm, fnormKids, chainOk, Node.norm_elem]
      exact i5

theorem norm (h : CutL S ty L p W XL) (hn : fnorm L = true) : fnorm XL = true := by
  induction h with
  | edge _ => exact fnorm_append_left hn
  | @deep ty tyC a m pre post kC W XL p _ _ ih =>
    have hk : fnorm kC = true := by
      have := (fnorm_cons (fnorm_append_right hn)).1
      rwa [Node.norm_elem] at this
    have h1 : fnorm (pre ++ .elem tyC a m XL :: post) = true :=
      fnorm_set_nontext (n := .elem tyC a m kC) rfl rfl (by rw [Node.norm_elem]; exact ih hk) hn
    have : pre ++ .elem tyC a m XL :: post = (pre ++ [.elem tyC a m XL]) ++ post := by simp
    rw [this] at h1
    exact fnorm_append_left h1

/-- **the left join**: the list up to the cut, joined with the empty nest, is the left part -/
theorem twoWayL (h : CutL S ty L p W XL) (hn : fnorm L = true) :
    twoWay S L p W (spineL W) = .ok XL := by
  induction h with
  | @edge ty pre post _ =>
    have hp := fnormKids_of_fnorm (fnorm_append_left hn)
    have := twoWay_skip_pre S pre post 0 [] (spineL []) hp
    simp only [Nat.add_zero] at this
    rw [this, twoWay_zero S post [] _ [] (by simp [spineL])]
    simp [Except.map]
  | @deep ty tyC a m pre post kC W XL p hin _ ih =>
    have hp := fnormKids_of_fnorm (fnorm_append_left hn)
    have hk : fnorm kC = true := by
      have := (fnorm_cons (fnorm_append_right hn)).1
      rwa [Node.norm_elem] at this
    obtain ⟨_, hple, hW, _, _⟩ := hin.depth
    have hs : splitRight [Node.elem tyC a m W] (spineL [Node.elem tyC a m W])
        = some (.deep (.elem tyC a m W) (spineL W) []) := by
      have := splitRight_elem tyC a m W [] (1 + spineL W) (by omega) (by omega)
      simpa [spineL] using this
    rw [Nat.add_assoc, twoWay_skip_pre S pre _ (1 + p) _ _ hp]
    unfold twoWay
    rw [if_neg (by omega), if_neg (by simp; omega)]
    simp only [hs, compatibleContent_self, if_true, Nat.add_sub_cancel_left, ih hk,
      fromArray_of_fnorm (hin.norm hk), close_ok_of_valid S tyC a m XL hin.valid]
    simp [Except.map]

end CutL

namespace CutR
variable {S : Schema} {ty : TypeId} {L W XR : List Node} {p : Nat}

theorem valid (h : CutR S ty L p W XR) : S.validContent ty XR = true := by
  cases h with
  | edge h1 => exact h1
  | deep _ h1 => exact h1

theorem depth (h : CutR S ty L p W XR) :
    depthAt L p = spineL W ∧ p ≤ fsize L ∧ fsize W = 2 * spineL W ∧ spineR W = spineL W ∧ fnorm W = true := by
  induction h with
  | @edge ty pre post _ =>
    have := depthAt_append_pre pre post 0
    simp only [Nat.add_zero] at this
    refine ⟨by rw [this]; cases post <;> simp [spineL], by simp [fsize_append], by simp [spineL],
      by simp [spineL, spineR], rfl⟩
  | @deep ty tyC a m pre post kC W XR p _ _ ih =>
    obtain ⟨i1, i2, i3, i4, i5⟩ := ih
    refine ⟨?_, by simp [fsize_append]; omega, by simp; omega, by simp [spineL, spineR, i4], ?_⟩
    · rw [Nat.add_assoc, depthAt_append_pre, depthAt_elem_cons _ _ _ _ _ _ (by omega) (by omega)]
      simp [spineL, i1]
    · simp only [fnorm, Bool.and_eq_true] at i5
      simp [fnorm, fnormKids, chainOk, Node.norm_elem]
      exact i5

theorem norm (h : CutR S ty L p W XR) (hn : fnorm L = true) : fnorm XR = true := by
  induction h with
  | edge _ => exact fnorm_append_right hn
  | @deep ty tyC a m pre post kC W XR p _ _ ih =>
    have hk : fnorm kC = true := by
      have := (fnorm_cons (fnorm_append_right hn)).1
      rwa [Node.norm_elem] at this
    have h2 : fnorm (pre ++ .elem tyC a m XR :: post) = true :=
      fnorm_set_nontext (n := .elem tyC a m kC) rfl rfl (by rw [Node.norm_elem]; exact ih hk) hn
    exact fnorm_append_right h2

/-- **the right join**: the empty nest joined with the list from the cut on is the right part -/
theorem twoWayR (h : CutR S ty L p W XR) (hn : fnorm L = true) :
    twoWay S W (spineL W) L p = .ok XR := by
  induction h with
  | @edge ty pre post _ =>
    have hp := fnormKids_of_fnorm (fnorm_append_left hn)
    have := splitRight_skip_pre pre post 0 hp
    simp only [Nat.add_zero] at this
    rw [show spineL ([] : List Node) = 0 by simp [spineL]]
    exact twoWay_zero S [] _ _ post (by rw [this]; simp)
  | @deep ty tyC a m pre post kC W XR p hin _ ih =>
    have hp := fnormKids_of_fnorm (fnorm_append_left hn)
    have hk : fnorm kC = true := by
      have := (fnorm_cons (fnorm_append_right hn)).1
      rwa [Node.norm_elem] at this
    obtain ⟨_, hple, hW, _, _⟩ := hin.depth
    have hs : splitRight (pre ++ Node.elem tyC a m kC :: post) (fsize pre + 1 + p)
        = some (.deep (.elem tyC a m kC) p post) := by
      rw [Nat.add_assoc, splitRight_skip_pre pre _ _ hp,
        splitRight_elem tyC a m kC post (1 + p) (by omega) (by omega)]
      simp
    unfold twoWay
    rw [if_neg (by simp [spineL]), if_neg (by simp [spineL]; omega)]
    simp only [hs, compatibleContent_self, if_true]
    have e : spineL [Node.elem tyC a m W] - 1 = spineL W := by simp [spineL]
    rw [e, ih hk]
    simp only [fromArray_of_fnorm (hin.norm hk), close_ok_of_valid S tyC a m XR hin.valid]

end CutR

/-! ### the level of `node(target)` -/

/-- the left side of a lift seen from `node(target)`, whose child `N = elem tyN aN mN kN` holds the range: either
    nothing is split (the replace starts in front of `N`) or `N` is cut at inner offset `p`.  Indices: the start of
    the replace relative to `N`, the left nest of the slice, its open depth, the piece left behind. -/
inductive LeftSide (S : Schema) (tyN : TypeId) (aN : Attrs) (mN : Marks) (kN : List Node) :
    Nat → List Node → Nat → List Node → Prop
  | whole : LeftSide S tyN aN mN kN 0 [] 0 []
  | cut {p : Nat} {W XL : List Node} : CutL S tyN kN p W XL →
      LeftSide S tyN aN mN kN (1 + p) [.elem tyN aN mN W] (1 + spineL W) [.elem tyN aN mN XL]

inductive RightSide (S : Schema) (tyN : TypeId) (aN : Attrs) (mN : Marks) (kN : List Node) :
    Nat → List Node → Nat → List Node → Prop
  | whole : RightSide S tyN aN mN kN (2 + fsize kN) [] 0 []
  | cut {p : Nat} {W XR : List Node} : CutR S tyN kN p W XR →
      RightSide S tyN aN mN kN (1 + p) [.elem tyN aN mN W] (1 + spineL W) [.elem tyN aN mN XR]

theorem middle_lift (x y : Node) (mid : List Node) :
    middle (mid ++ [y]) false true = mid ∧ middle (x :: mid) true false = mid ∧
    middle (x :: (mid ++ [y])) true true = mid ∧ middle mid false false = mid := by
  simp [middle]

/-- what the right side contributes: the split of the level at the end of the replace and the right join -/
theorem RightSide.part {S : Schema} {tyN : TypeId} {aN : Attrs} {mN : Marks} {kN : List Node}
    {tN b : Nat} {rc rp : List Node} (h : RightSide S tyN aN mN kN tN rc b rp) (hk : fnorm kN = true)
    (postT : List Node) :
    ∃ rs, splitRight (.elem tyN aN mN kN :: postT) tN = some rs ∧ rs.rest = postT ∧
      (∀ M0, rightJoin S (M0 ++ rc) b rs = .ok rp) ∧ threeWay.rightJoinCheck rs b = .ok () ∧
      (∀ x M0, middle (x :: (M0 ++ rc)) true (b != 0) = M0) ∧ (∀ M0, middle (M0 ++ rc) false (b != 0) = M0) ∧
      (b = 0 → ∃ r, rs = .flat r) := by
  cases h with
  | whole =>
    refine ⟨.flat postT, ?_, rfl, by simp [rightJoin], by simp [threeWay.rightJoinCheck], by simp [middle],
      by simp [middle], fun _ => ⟨_, rfl⟩⟩
    rw [splitRight_skip _ _ _ (by omega) (by simp)]
    simp [splitRight_zero]
  | @cut p W XR hc =>
    obtain ⟨_, hple, hW, _, _⟩ := hc.depth
    refine ⟨.deep (.elem tyN aN mN kN) p postT, ?_, rfl, fun M0 => ?_, by simp [threeWay.rightJoinCheck],
      by simp [middle], by simp [middle], fun h => by omega⟩
    · rw [splitRight_elem tyN aN mN kN postT (1 + p) (by omega) (by omega)]
      simp
    · unfold rightJoin
      have e : fsize W - spineL W = spineL W := by omega
      simp [compatibleContent_self, e, hc.twoWayR hk, fromArray_of_fnorm (hc.norm hk),
        close_ok_of_valid S tyN aN mN XR hc.valid]

/-- **the lift seen from `node(target)`**: the child `N` that holds the range is replaced by the left piece, the
    lifted nodes and the right piece; what remains is whether the parent accepts the new child list -/
theorem atLevel_lift (S : Schema) (hts : TextStableP S) (tyP : TypeId) (preT postT : List Node) (tyN : TypeId)
    (aN : Attrs) (mN : Marks) (kN mid : List Node) {fN a tN b : Nat} {lc lp rc rp : List Node}
    (hL : LeftSide S tyN aN mN kN fN lc a lp) (hR : RightSide S tyN aN mN kN tN rc b rp)
    (hsplit : a ≠ 0 ∨ b ≠ 0)
    (hn : fnorm (preT ++ .elem tyN aN mN kN :: postT) = true)
    (hv : S.validContent tyP (preT ++ (lp ++ mid ++ rp ++ postT)) = true) :
    atLevel S ⟨lc ++ mid ++ rc, a, b⟩ tyP (preT ++ .elem tyN aN mN kN :: postT)
      (fsize preT + fN) (fsize preT + tN) 0 = .ok (fromArray (preT ++ (lp ++ mid ++ rp ++ postT))) := by
  have hp := fnormKids_of_fnorm (fnorm_append_left hn)
  have hk : fnorm kN = true := by
    have := (fnorm_cons (fnorm_append_right hn)).1
    rwa [Node.norm_elem] at this
  obtain ⟨rs, hsr, hrest, hrj, hchk, hmidT, hmidF, hflat⟩ := hR.part hk postT
  have hsr' : splitRight (preT ++ .elem tyN aN mN kN :: postT) (fsize preT + tN) = some rs := by
    rw [splitRight_skip_pre preT _ _ hp, hsr]
  have hsize : fsize (lc ++ mid ++ rc) ≠ 0 := by
    rcases hsplit with h | h
    · cases hL with
      | whole => exact absurd rfl h
      | cut _ => simp [fsize_append]
    · cases hR with
      | whole => exact absurd rfl h
      | cut _ => simp [fsize_append]
  have h3 : threeWay S (preT ++ .elem tyN aN mN kN :: postT) (fsize preT + fN) 0 (lc ++ mid ++ rc) a b
      (preT ++ .elem tyN aN mN kN :: postT) (fsize preT + tN) = .ok (preT ++ (lp ++ mid ++ rp ++ postT)) := by
    rw [threeWay_skip_pre S _ _ _ _ _ _ _ _ _ hp]
    cases hL with
    | whole =>
      have hrj' := hrj mid
      have hm := hmidF mid
      unfold threeWay
      simp only [if_true, flatTail, ne_eq, not_true_eq_false, if_false, hsr', List.nil_append]
      simp [hrj', hm, hrest, Except.map]
    | @cut p W XL hc =>
      obtain ⟨_, hple, hW, _, _⟩ := hc.depth
      have hrj' := hrj (Node.elem tyN aN mN W :: mid)
      have hm := hmidT (Node.elem tyN aN mN W) mid
      have hl2 : twoWay S kN p W (spineL W) = .ok XL := hc.twoWayL hk
      unfold threeWay
      rw [if_neg (by omega), if_neg (by simp; omega)]
      simp only [hsr', ne_eq, not_true_eq_false, if_false]
      rw [if_neg (by omega)]
      simp only [List.cons_append, List.nil_append, compatibleContent_self, Bool.not_true, Bool.false_eq_true,
        if_false] at hrj' ⊢
      -- the slice has more than one child here or the right side is not open
      cases hR with
      | whole =>
        simp only [List.append_nil] at hrj' hm ⊢
        obtain ⟨r, rfl⟩ := hflat rfl
        simp only [RSplit.rest] at hrest
        subst hrest
        have hm' : middle (Node.elem tyN aN mN W :: mid) true false = mid := by simpa using hm
        simp [hchk, hl2, fromArray_of_fnorm (hc.norm hk), close_ok_of_valid S tyN aN mN XL hc.valid, hrj',
          hm', RSplit.rest, Except.map]
      | @cut p2 W2 XR hc2 =>
        obtain ⟨c, T, hT⟩ : ∃ c T, mid ++ [Node.elem tyN aN mN W2] = c :: T := by
          cases mid with
          | nil => exact ⟨_, _, rfl⟩
          | cons c T => exact ⟨c, T ++ [_], rfl⟩
        rw [hT] at hrj' hm ⊢
        simp [hchk, hl2, fromArray_of_fnorm (hc.norm hk), close_ok_of_valid S tyN aN mN XL hc.valid, hrj',
          hm, hrest, Except.map]
  unfold atLevel
  simp only []
  rw [if_neg hsize, if_neg (by
    simp only [Bool.and_eq_true, decide_eq_true_eq, beq_iff_eq]
    rintro ⟨⟨⟨ha, hb⟩, _⟩, _⟩
    rcases hsplit with h | h
    · exact absurd ha h
    · exact absurd hb h)]
  simp only [h3, Except.map, validContent_fromArray hts tyP _ hv, if_true]

theorem LeftSide.facts {S : Schema} {tyN : TypeId} {aN : Attrs} {mN : Marks} {kN : List Node}
    {fN a : Nat} {lc lp : List Node} (h : LeftSide S tyN aN mN kN fN lc a lp) (rest X : List Node) :
    depthAt (.elem tyN aN mN kN :: rest) fN = a ∧ fN ≤ 2 + fsize kN ∧ a ≤ spineL (lc ++ X) := by
  cases h with
  | whole => simp [depthAt]
  | @cut p W XL hc =>
    obtain ⟨hd, hple, _, _, _⟩ := hc.depth
    refine ⟨?_, by omega, by simp [spineL]⟩
    rw [depthAt_elem_cons _ _ _ _ _ _ (by omega) (by omega), Nat.add_sub_cancel_left, hd]

theorem RightSide.facts {S : Schema} {tyN : TypeId} {aN : Attrs} {mN : Marks} {kN : List Node}
    {tN b : Nat} {rc rp : List Node} (h : RightSide S tyN aN mN kN tN rc b rp) (rest X : List Node) :
    depthAt (.elem tyN aN mN kN :: rest) tN = b ∧ tN ≤ 2 + fsize kN ∧ b ≤ spineR (X ++ rc) := by
  cases h with
  | whole =>
    refine ⟨?_, by omega, by omega⟩
    rw [depthAt_skip _ _ _ (by simp)]
    simp [depthAt]
  | @cut p W XR hc =>
    obtain ⟨hd, hple, _, hs, _⟩ := hc.depth
    refine ⟨?_, by omega, by rw [spineR_concat_elem, hs]; omega⟩
    rw [depthAt_elem_cons _ _ _ _ _ _ (by omega) (by omega), Nat.add_sub_cancel_left, hd]

theorem LeftSide.zero {S : Schema} {tyN : TypeId} {aN : Attrs} {mN : Marks} {kN : List Node}
    {fN a : Nat} {lc lp : List Node} (h : LeftSide S tyN aN mN kN fN lc a lp) (ha : a = 0) :
    fN = 0 ∧ lc = [] ∧ lp = [] := by
  cases h with
  | whole => exact ⟨rfl, rfl, rfl⟩
  | cut _ => omega

theorem RightSide.zero {S : Schema} {tyN : TypeId} {aN : Attrs} {mN : Marks} {kN : List Node}
    {tN b : Nat} {rc rp : List Node} (h : RightSide S tyN aN mN kN tN rc b rp) (hb : b = 0) :
    tN = 2 + fsize kN ∧ rc = [] ∧ rp = [] := by
  cases h with
  | whole => exact ⟨rfl, rfl, rfl⟩
  | cut _ => omega

/-- **the whole replace of a lift** below the level of `node(target)` -/
theorem replaceKids_lift {S : Schema} (hts : TextStableP S) {ty tyP : TypeId} {K : List Node} {b nd : Nat}
    {ctx : List Node → List Node} {preT postT : List Node} {tyN : TypeId} {aN : Attrs} {mN : Marks}
    {kN mid : List Node} {fN a tN bb : Nat} {lc lp rc rp : List Node}
    (hl : Lvl ty K b nd tyP (preT ++ .elem tyN aN mN kN :: postT) ctx)
    (hL : LeftSide S tyN aN mN kN fN lc a lp) (hR : RightSide S tyN aN mN kN tN rc bb rp)
    (hsplit : a ≠ 0 ∨ bb ≠ 0) (hle : fN ≤ tN)
    (hn : fnorm (preT ++ .elem tyN aN mN kN :: postT) = true)
    (hv : S.validContent tyP (preT ++ (lp ++ mid ++ rp ++ postT)) = true) :
    replaceKids S ty K (b + (fsize preT + fN)) (b + (fsize preT + tN)) ⟨lc ++ mid ++ rc, a, bb⟩
      = .ok (ctx (fromArray (preT ++ (lp ++ mid ++ rp ++ postT)))) := by
  obtain ⟨dL, hfle, wL⟩ := hL.facts postT (mid ++ rc)
  obtain ⟨dR, htle, wR⟩ := hR.facts postT (lc ++ mid)
  have hr := hl.range
  have hsz : fsize (preT ++ Node.elem tyN aN mN kN :: postT) = fsize preT + (2 + fsize kN) + fsize postT := by
    simp [fsize_append]; omega
  have hq1 : fsize preT + fN ≤ fsize (preT ++ Node.elem tyN aN mN kN :: postT) := by omega
  have hq2 : fsize preT + tN ≤ fsize (preT ++ Node.elem tyN aN mN kN :: postT) := by omega
  obtain ⟨d1, _⟩ := hl.depth (fsize preT + fN) hq1
  obtain ⟨d2, _⟩ := hl.depth (fsize preT + tN) hq2
  rw [depthAt_append_pre, dL] at d1
  rw [depthAt_append_pre, dR] at d2
  unfold replaceKids
  rw [if_neg (by simp [inRange]; omega)]
  simp only []
  rw [if_neg (by rw [d1]; omega), if_neg (by rw [d1, d2]; simp),
    if_neg (by
      rw [List.append_assoc] at wR
      simp [Slice.wf, wL, wR]), d1,
    show nd + a - a = nd by omega,
    hl.outer _ (fsize preT + fN) (fsize preT + tN) (by omega) hq2,
    atLevel_lift S hts tyP preT postT tyN aN mN kN mid hL hR hsplit hn hv]
  rfl

/-! ### tokens at the two ends of the ancestors of a position -/

theorem tok_open_at {doc : Node} {pos : Nat} {r : RPos} (h : doc.resolve pos = some r) (d : Nat)
    (hd : d < r.depth) : ∃ ty a m, (ftoks doc.kids)[(r.entry d).pos]? = some (Tok.op ty a m) := by
  have R := resolve_resolved h
  obtain ⟨hc, _⟩ := R.chain d hd
  obtain ⟨ty, a, m, k, e⟩ := resolve_node_elem h d hd
  have hw := window_child _ _ _ _ _ (R.window_kids d (by omega)) hc
  have hp : (r.entry d).pos = r.start d + fsize ((r.node d).kids.take (r.index d)) :=
    (R.entry d (by omega)).pos_eq
  rw [← hp, e] at hw
  have := getElem?_of_window _ _ _ _ hw 0 (by simp [Node.toks])
  simp only [Nat.add_zero, Node.toks, List.getElem?_cons_zero] at this
  exact ⟨ty, a, m, this⟩

theorem tok_close_at {doc : Node} {pos : Nat} {r : RPos} (h : doc.resolve pos = some r) (d : Nat)
    (hd : d < r.depth) :
    (ftoks doc.kids)[(r.entry d).pos + (fsize (r.node (d + 1)).kids + 1)]? = some Tok.cl := by
  have R := resolve_resolved h
  obtain ⟨hc, _⟩ := R.chain d hd
  obtain ⟨ty, a, m, k, e⟩ := resolve_node_elem h d hd
  have hw := window_child _ _ _ _ _ (R.window_kids d (by omega)) hc
  have hp : (r.entry d).pos = r.start d + fsize ((r.node d).kids.take (r.index d)) :=
    (R.entry d (by omega)).pos_eq
  rw [← hp, e] at hw
  have := getElem?_of_window _ _ _ _ hw (fsize k + 1) (by simp [Node.toks, ftoks_length])
  have ek : (r.node (d + 1)).kids = k := by rw [e]; rfl
  rw [ek, this]
  simp [Node.toks, ftoks_length]

/-- every token in `[lo, hi)` is an open token / a close token -/
def OpsWin (G : List Tok) (lo hi : Nat) : Prop :=
  ∀ i, lo ≤ i → i < hi → ∃ ty a m, G[i]? = some (Tok.op ty a m)
def ClsWin (G : List Tok) (lo hi : Nat) : Prop :=
  ∀ i, lo ≤ i → i < hi → G[i]? = some Tok.cl

theorem closesOpens_of_cls : ∀ (l : List Tok), (∀ x ∈ l, x = Tok.cl) → closesOpens l = true
  | [], _ => rfl
  | x :: r, h => by
    have := h x List.mem_cons_self
    subst this
    simp only [closesOpens]
    exact closesOpens_of_cls r (fun y hy => h y (List.mem_cons_of_mem _ hy))

theorem mem_window {G : List Tok} {lo n : Nat} {x : Tok} (hx : x ∈ (G.drop lo).take n) :
    ∃ i, lo ≤ i ∧ i < lo + n ∧ G[i]? = some x := by
  obtain ⟨j, hj, e⟩ := List.getElem_of_mem hx
  have hj' : j < n := by
    rw [List.length_take] at hj; omega
  refine ⟨lo + j, by omega, by omega, ?_⟩
  have := List.getElem?_eq_getElem hj
  rw [e, List.getElem?_take_of_lt hj', List.getElem?_drop] at this
  exact this

theorem OpsWin.closesOpens {G : List Tok} {lo hi : Nat} (h : OpsWin G lo hi) (hle : lo ≤ hi) :
    closesOpens ((G.drop lo).take (hi - lo)) = true := by
  apply closesOpens_of_ops
  simp only [List.all_eq_true]
  intro x hx
  obtain ⟨i, h1, h2, h3⟩ := mem_window hx
  obtain ⟨ty, a, m, e⟩ := h i h1 (by omega)
  rw [e] at h3
  simp only [Option.some.injEq] at h3
  subst h3
  rfl

theorem ClsWin.closesOpens {G : List Tok} {lo hi : Nat} (h : ClsWin G lo hi) (hle : lo ≤ hi) :
    closesOpens ((G.drop lo).take (hi - lo)) = true := by
  apply closesOpens_of_cls
  intro x hx
  obtain ⟨i, h1, h2, h3⟩ := mem_window hx
  have e := h i h1 (by omega)
  rw [e] at h3
  simp only [Option.some.injEq] at h3
  exact h3.symm

/-! ### the left loop of `lift` and of the guard, together -/

/-- state of the left loops with `n` levels to go (the levels above `target + n` are done): either nothing is
    split yet — the outer position `gs - moved` is the boundary in front of the path's child at level `target + n` —
    or the node at level `target + n + 1` is cut at `gs - moved` (`CutL`, as far as the guard's tests passed) -/
def LiftLInv (S : Schema) (doc : Node) (f : RPos) (gs depth target n : Nat) (frag : List Node) (opened moved : Nat)
    (sp : Bool) (acc : Option Node) (ok : Bool) : Prop :=
  moved ≤ gs ∧ OpsWin (ftoks doc.kids) (gs - moved) gs ∧
  ((sp = false ∧ acc = none ∧ frag = [] ∧ opened = 0 ∧
      gs - moved = f.start (target + n) + fsize ((f.node (target + n)).kids.take (f.index (target + n))))
   ∨ (sp = true ∧ target + n + 1 ≤ depth ∧ ∃ ty a m kids W XL, f.node (target + n + 1) = .elem ty a m kids ∧
        frag = [.elem ty a m W] ∧ acc = some (.elem ty a m XL) ∧ opened = 1 + spineL W ∧
        f.start (target + n + 1) ≤ gs - moved ∧
        (ok = true → CutL S ty kids (gs - moved - f.start (target + n + 1)) W XL)))

theorem left_loop (S : Schema) {doc : Node} {a : Nat} {f : RPos} (hf : doc.resolve a = some f)
    (gs depth target : Nat) (hdf : depth ≤ f.depth) :
    ∀ (n : Nat) (frag : List Node) (opened moved : Nat) (sp : Bool) (acc : Option Node) (ok : Bool),
      target + n ≤ depth → LiftLInv S doc f gs depth target n frag opened moved sp acc ok →
      ∃ frag' opened' moved' acc' ok',
        liftSide f.node (fun d => decide (0 < f.index d)) target n frag opened moved sp = (frag', opened', moved') ∧
        liftPieces S f.node (fun d => decide (0 < f.index d)) (fun d => (f.node d).kids.take (f.index d))
          (fun k c => k ++ c) target n acc ok = (acc', ok') ∧
        LiftLInv S doc f gs depth target 0 frag' opened' moved' acc'.isSome acc' ok'
  | 0, frag, opened, moved, sp, acc, ok, _, h => by
    refine ⟨frag, opened, moved, acc, ok, rfl, rfl, ?_⟩
    obtain ⟨h1, h2, h3⟩ := h
    refine ⟨h1, h2, ?_⟩
    rcases h3 with ⟨_, e, h3⟩ | ⟨_, hd, ty, a', m, kids, W, XL, e1, e2, e3, h3⟩
    · exact .inl ⟨by simp [e], e, h3⟩
    · exact .inr ⟨by simp [e3], hd, ty, a', m, kids, W, XL, e1, e2, e3, h3⟩
  | n + 1, frag, opened, moved, sp, acc, ok, hn, h => by
    have R := resolve_resolved hf
    obtain ⟨h1, h2, h3⟩ := h
    -- the level this iteration looks at
    obtain ⟨d, hd⟩ : ∃ d, target + n + 1 = d := ⟨_, rfl⟩
    have hd1 : 1 ≤ d := by omega
    obtain ⟨tyD, aD, mD, kD, eD⟩ := resolve_node_elem hf (d - 1) (by omega)
    rw [show d - 1 + 1 = d by omega] at eD
    have hkD : (f.node d).kids = kD := by rw [eD]; rfl
    have hpos : (f.entry (d - 1)).pos = f.start (d - 1) + fsize ((f.node (d - 1)).kids.take (f.index (d - 1))) :=
      (R.entry (d - 1) (by omega)).pos_eq
    have hstart : f.start d = (f.entry (d - 1)).pos + 1 := by
      have := Resolved.start_succ f (d - 1)
      rwa [show d - 1 + 1 = d by omega] at this
    unfold liftSide liftPieces
    simp only [show target + n + 1 = d from hd, show target + (n + 1) = d by omega,
      show target + (n + 1) + 1 = d + 1 by omega] at h3 ⊢
    rcases h3 with ⟨rfl, rfl, rfl, rfl, hb⟩ | ⟨rfl, hdd, ty, a', m, kids, W, XL, e1, rfl, rfl, rfl, hst, hcut⟩
    · by_cases hidx : 0 < f.index d
      · -- the split starts here
        simp only [Bool.false_or, hidx, decide_true, if_true, Option.isSome_none, Option.toList_none,
          List.append_nil, Bool.or_true]
        apply left_loop S hf gs depth target hdf n _ _ _ _ _ _ (by omega)
        refine ⟨h1, h2, .inr ⟨rfl, by omega, tyD, aD, mD, kD, [], kD.take (f.index d), ?_, ?_, ?_, by simp [spineL],
          ?_, ?_⟩⟩
        · rw [hd]; exact eD
        · simp [eD, Node.withKids]
        · simp [eD, Node.withKids, Node.kids]
        · rw [hd, hb]; omega
        · intro hok
          simp only [Bool.and_eq_true] at hok
          have hv := hok.2
          rw [eD] at hv
          simp only [Node.kids] at hv
          have hvv : S.validContent tyD (kD.take (f.index d)) = true := hv
          have := CutL.edge (S := S) (post := kD.drop (f.index d)) hvv
          rw [List.take_append_drop] at this
          rw [hd, hb, hkD, Nat.add_sub_cancel_left]
          exact this
      · -- nothing split: step over the open token of the node at `d`
        have hi0 : f.index d = 0 := by omega
        simp only [Bool.false_or, hidx, decide_false, Bool.false_eq_true, if_false, Option.isSome_none]
        apply left_loop S hf gs depth target hdf n _ _ _ _ _ _ (by omega)
        rw [hi0] at hb
        simp only [List.take_zero, fsize_nil, Nat.add_zero] at hb
        obtain ⟨ty, a', m, ht⟩ := tok_open_at hf (d - 1) (by omega)
        refine ⟨by omega, ?_, .inl ⟨rfl, rfl, rfl, rfl, ?_⟩⟩
        · intro i hi1 hi2
          by_cases hi : gs - moved ≤ i
          · exact h2 i hi hi2
          · have : i = (f.entry (d - 1)).pos := by omega
            rw [this]; exact ⟨ty, a', m, ht⟩
        · rw [show target + n = d - 1 by omega, ← hpos]; omega
    · -- already splitting: one more level is split
      simp only [Bool.true_or, if_true, Option.isSome_some, Option.toList_some]
      apply left_loop S hf gs depth target hdf n _ _ _ _ _ _ (by omega)
      obtain ⟨tyC, aC, mC, kC, eC, hsp, hstC, _, _⟩ := Resolved.level_deep hf d (by omega)
      rw [e1] at eC
      simp only [Node.elem.injEq] at eC
      obtain ⟨rfl, rfl, rfl, rfl⟩ := eC
      refine ⟨h1, h2, .inr ⟨rfl, by omega, tyD, aD, mD, kD, [.elem ty a' m W],
        kD.take (f.index d) ++ [.elem ty a' m XL], ?_, ?_, ?_, by simp [spineL]; omega, ?_, ?_⟩⟩
      · rw [hd]; exact eD
      · simp [eD, Node.withKids]
      · simp [eD, Node.withKids, Node.kids]
      · rw [hd]; omega
      · intro hok
        simp only [Bool.and_eq_true] at hok
        have hv := hok.2
        rw [eD] at hv
        simp only [Node.kids] at hv
        have hvv : S.validContent tyD (kD.take (f.index d) ++ [.elem ty a' m XL]) = true := hv
        have := CutL.deep (S := S) (a := a') (m := m) (pre := kD.take (f.index d))
          (post := kD.drop (f.index d + 1)) (hcut hok.1) hvv
        rw [hkD] at hsp hstC
        rw [← hsp] at this
        rw [hd]
        have e : gs - moved - f.start d
            = fsize (kD.take (f.index d)) + 1 + (gs - moved - f.start (d + 1)) := by omega
        rw [e]
        exact this

/-! ### the right loop of `lift` and of the guard, together -/

/-- state of the right loops with `n` levels to go: either nothing is split yet — the outer position `ge + moved`
    is the boundary behind the range's last child (at the range's depth) or behind the path's child at level
    `target + n` — or the node at level `target + n + 1` is cut at `ge + moved` (`CutR`) -/
def RInv (S : Schema) (doc : Node) (t : RPos) (ge depth target n : Nat) (frag : List Node) (opened moved : Nat)
    (sp : Bool) (acc : Option Node) (ok : Bool) : Prop :=
  ClsWin (ftoks doc.kids) ge (ge + moved) ∧
  ((sp = false ∧ acc = none ∧ frag = [] ∧ opened = 0 ∧
      ge + moved = t.start (target + n) + fsize ((t.node (target + n)).kids.take (t.indexAfter (target + n))))
   ∨ (sp = true ∧ target + n + 1 ≤ depth ∧ ∃ ty a m kids W XR, t.node (target + n + 1) = .elem ty a m kids ∧
        frag = [.elem ty a m W] ∧ acc = some (.elem ty a m XR) ∧ opened = 1 + spineL W ∧
        t.start (target + n + 1) ≤ ge + moved ∧
        (ok = true → CutR S ty kids (ge + moved - t.start (target + n + 1)) W XR)))

theorem right_loop (S : Schema) {doc : Node} {b : Nat} {t : RPos} (ht : doc.resolve b = some t)
    (ge depth target : Nat) (hdt : depth ≤ t.depth)
    (hbR : ∀ d, target < d → d ≤ depth →
      t.afterT (d + 1) = t.start d + fsize ((t.node d).kids.take (t.indexAfter d))) :
    ∀ (n : Nat) (frag : List Node) (opened moved : Nat) (sp : Bool) (acc : Option Node) (ok : Bool),
      target + n ≤ depth → RInv S doc t ge depth target n frag opened moved sp acc ok →
      ∃ frag' opened' moved' acc' ok',
        liftSide t.node (fun d => decide (t.afterT (d + 1) < t.end_ d)) target n frag opened moved sp
          = (frag', opened', moved') ∧
        liftPieces S t.node (fun d => decide (t.afterT (d + 1) < t.end_ d))
          (fun d => (t.node d).kids.drop (t.indexAfter d)) (fun k c => c ++ k) target n acc ok = (acc', ok') ∧
        RInv S doc t ge depth target 0 frag' opened' moved' acc'.isSome acc' ok'
  | 0, frag, opened, moved, sp, acc, ok, _, h => by
    refine ⟨frag, opened, moved, acc, ok, rfl, rfl, ?_⟩
    obtain ⟨h2, h3⟩ := h
    refine ⟨h2, ?_⟩
    rcases h3 with ⟨_, e, h3⟩ | ⟨_, hd, ty, a', m, kids, W, XR, e1, e2, e3, h3⟩
    · exact .inl ⟨by simp [e], e, h3⟩
    · exact .inr ⟨by simp [e3], hd, ty, a', m, kids, W, XR, e1, e2, e3, h3⟩
  | n + 1, frag, opened, moved, sp, acc, ok, hn, h => by
    have R := resolve_resolved ht
    obtain ⟨h2, h3⟩ := h
    obtain ⟨d, hd⟩ : ∃ d, target + n + 1 = d := ⟨_, rfl⟩
    have hd1 : 1 ≤ d := by omega
    obtain ⟨tyD, aD, mD, kD, eD⟩ := resolve_node_elem ht (d - 1) (by omega)
    rw [show d - 1 + 1 = d by omega] at eD
    have hkD : (t.node d).kids = kD := by rw [eD]; rfl
    have hpos : (t.entry (d - 1)).pos = t.start (d - 1) + fsize ((t.node (d - 1)).kids.take (t.index (d - 1))) :=
      (R.entry (d - 1) (by omega)).pos_eq
    have hstart : t.start d = (t.entry (d - 1)).pos + 1 := by
      have := Resolved.start_succ t (d - 1)
      rwa [show d - 1 + 1 = d by omega] at this
    have hia : ∀ e, e < depth → t.indexAfter e = t.index e + 1 := by
      intro e he
      unfold RPos.indexAfter
      rw [if_neg (by simp; omega)]
    have hbd := hbR d (by omega) (by omega)
    rw [hkD] at hbd
    unfold liftSide liftPieces
    simp only [show target + n + 1 = d from hd, show target + (n + 1) = d by omega,
      show target + (n + 1) + 1 = d + 1 by omega] at h3 ⊢
    rcases h3 with ⟨rfl, rfl, rfl, rfl, hb⟩ | ⟨rfl, hdd, ty, a', m, kids, W, XR, e1, rfl, rfl, rfl, hst, hcut⟩
    · rw [hkD] at hb
      by_cases hlt : t.afterT (d + 1) < t.end_ d
      · -- the split starts here
        simp only [Bool.false_or, hlt, decide_true, if_true, Option.isSome_none, Option.toList_none,
          List.nil_append, Bool.or_true]
        apply right_loop S ht ge depth target hdt hbR n _ _ _ _ _ _ (by omega)
        refine ⟨h2, .inr ⟨rfl, by omega, tyD, aD, mD, kD, [], kD.drop (t.indexAfter d), ?_, ?_, ?_,
          by simp [spineL], ?_, ?_⟩⟩
        · rw [hd]; exact eD
        · simp [eD, Node.withKids]
        · simp [eD, Node.withKids, Node.kids]
        · rw [hd, hb]; omega
        · intro hok
          simp only [Bool.and_eq_true] at hok
          have hv := hok.2
          rw [eD] at hv
          simp only [Node.kids] at hv
          have hvv : S.validContent tyD (kD.drop (t.indexAfter d)) = true := hv
          have := CutR.edge (S := S) (pre := kD.take (t.indexAfter d)) hvv
          rw [List.take_append_drop] at this
          rw [hd, hb, Nat.add_sub_cancel_left]
          exact this
      · -- nothing split: step over the close token of the node at `d`
        simp only [Bool.false_or, hlt, decide_false, Bool.false_eq_true, if_false, Option.isSome_none]
        apply right_loop S ht ge depth target hdt hbR n _ _ _ _ _ _ (by omega)
        have hle := fsize_take_le kD (t.indexAfter d)
        have hend : t.end_ d = t.start d + fsize kD := by rw [RPos.end_, hkD]
        have hfull : fsize (kD.take (t.indexAfter d)) = fsize kD := by omega
        have hcl := tok_close_at ht (d - 1) (by omega)
        rw [show d - 1 + 1 = d by omega, hkD] at hcl
        obtain ⟨hc, _⟩ := R.chain (d - 1) (by omega)
        rw [show d - 1 + 1 = d by omega] at hc
        have hts := fsize_take_succ _ _ _ hc
        have hsz : (t.node d).size = 2 + fsize kD := by rw [eD]; simp
        refine ⟨?_, .inl ⟨rfl, rfl, rfl, rfl, ?_⟩⟩
        · intro i hi1 hi2
          by_cases hi : i < ge + moved
          · exact h2 i hi1 hi
          · have : i = (t.entry (d - 1)).pos + (fsize kD + 1) := by omega
            rw [this]; exact hcl
        · rw [show target + n = d - 1 by omega, hia (d - 1) (by omega), hts, hsz]; omega
    · -- already splitting: one more level is split
      simp only [Bool.true_or, if_true, Option.isSome_some, Option.toList_some]
      apply right_loop S ht ge depth target hdt hbR n _ _ _ _ _ _ (by omega)
      obtain ⟨tyC, aC, mC, kC, eC, hsp, hstC, _, _⟩ := Resolved.level_deep ht d (by omega)
      rw [e1] at eC
      simp only [Node.elem.injEq] at eC
      obtain ⟨rfl, rfl, rfl, rfl⟩ := eC
      rw [hkD] at hsp hstC
      refine ⟨h2, .inr ⟨rfl, by omega, tyD, aD, mD, kD, [.elem ty a' m W],
        .elem ty a' m XR :: kD.drop (t.index d + 1), ?_, ?_, ?_, by simp [spineL]; omega, ?_, ?_⟩⟩
      · rw [hd]; exact eD
      · simp [eD, Node.withKids]
      · simp [eD, Node.withKids, Node.kids, hia d (by omega)]
      · rw [hd]; omega
      · intro hok
        simp only [Bool.and_eq_true] at hok
        have hv := hok.2
        rw [eD, hia d (by omega)] at hv
        simp only [Node.kids] at hv
        have hvv : S.validContent tyD (.elem ty a' m XR :: kD.drop (t.index d + 1)) = true := hv
        have := CutR.deep (S := S) (a := a') (m := m) (pre := kD.take (t.index d))
          (post := kD.drop (t.index d + 1)) (hcut hok.1) hvv
        rw [← hsp] at this
        rw [hd]
        have e : ge + moved - t.start d
            = fsize (kD.take (t.index d)) + 1 + (ge + moved - t.start (d + 1)) := by omega
        rw [e]
        exact this

/-! ### the gap goes between the two nests -/

theorem fcut_prefix (pre post : List Node) (hn : fnorm (pre ++ post) = true) :
    fcut (pre ++ post) 0 (fsize pre) = .ok pre := by
  have hle : fsize pre ≤ fsize (pre ++ post) := by simp [fsize_append]
  obtain ⟨c, hc⟩ := fcut_total (pre ++ post) 0 (fsize pre) (by omega) hle (alignedAt_zero _)
    (alignedAt_boundary pre post) hn
  have ht := fcut_prefix_toks hc hle (depthAt_boundary pre post)
  rw [hc]
  congr 1
  apply ftoks_inj _ _ (fcut_norm _ _ _ _ hn hc) (fnorm_append_left hn)
  rw [ht, ftoks_append, List.take_append_of_le_length (by simp [ftoks_length]),
    List.take_of_length_le (by simp [ftoks_length])]

theorem fcut_suffix (pre post : List Node) (hn : fnorm (pre ++ post) = true) :
    fcut (pre ++ post) (fsize pre) (fsize (pre ++ post)) = .ok post := by
  have hle : fsize pre ≤ fsize (pre ++ post) := by simp [fsize_append]
  obtain ⟨c, hc⟩ := fcut_total (pre ++ post) (fsize pre) (fsize (pre ++ post)) hle (Nat.le_refl _)
    (alignedAt_boundary pre post) (alignedAt_fsize _) hn
  have ht := fcut_suffix_toks hc (depthAt_boundary pre post)
  rw [hc]
  congr 1
  apply ftoks_inj _ _ (fcut_norm _ _ _ _ hn hc) (fnorm_append_right hn)
  rw [ht, ftoks_append, List.drop_append, List.drop_of_length_le (by simp [ftoks_length])]
  simp [ftoks_length]

theorem insertInto_skip (S : Schema) (ins : List Node) (parent : Option TypeId) (level : List Node) (d0 : Nat) :
    ∀ (pre rest : List Node) (idx oa ob : Nat), fnormKids pre = true →
      insertInto S ins parent level d0 idx (pre ++ rest) (fsize pre) oa ob
        = flatInsert S ins parent level d0 (idx + pre.length)
  | [], rest, idx, oa, ob, _ => by
    cases rest with
    | nil => simp [insertInto]
    | cons r rs => unfold insertInto; simp
  | p :: ps, rest, idx, oa, ob, hn => by
    simp only [fnormKids_cons, Bool.and_eq_true] at hn
    have hpos := Node.size_pos_of_norm p hn.1
    rw [List.cons_append]
    unfold insertInto
    rw [if_neg (by simp; omega), if_pos (by simp)]
    have e : fsize (p :: ps) - p.size = fsize ps := by simp
    rw [e, insertInto_skip S ins parent level d0 ps rest (idx + 1) oa ob hn.2]
    congr 1
    simp; omega

theorem addNode_elem (X : List Node) (ty : TypeId) (a : Attrs) (m : Marks) (k : List Node) :
    addNode X (.elem ty a m k) = X ++ [.elem ty a m k] := by
  unfold addNode
  split <;> simp_all

/-- a nest of at most one element node: nothing, or an element node in normal form -/
def IsCopy (l : List Node) : Prop := l = [] ∨ ∃ ty a m W, l = [Node.elem ty a m W] ∧ fnorm W = true

theorem fappend_copies {lc rc : List Node} (mid : List Node) (hl : IsCopy lc) (hr : IsCopy rc) :
    fappend lc rc = lc ++ rc ∧ fappend (fappend lc mid) rc = lc ++ mid ++ rc := by
  have h1 : ∀ X : List Node, fappend X rc = X ++ rc := by
    intro X
    rcases hr with rfl | ⟨ty, a, m, W, rfl, _⟩
    · simp [fappend]
    · cases X with
      | nil => simp [fappend]
      | cons x xs => simp [fappend, addNode_elem]
  have h2 : fappend lc mid = lc ++ mid := by
    rcases hl with rfl | ⟨ty, a, m, W, rfl, _⟩
    · cases mid <;> simp [fappend]
    · cases mid with
      | nil => simp [fappend]
      | cons c cs => simp [fappend, addNode]
  exact ⟨h1 lc, by rw [h2, h1]⟩

theorem fnorm_copies {lc rc : List Node} (hl : IsCopy lc) (hr : IsCopy rc) : fnorm (lc ++ rc) = true := by
  rcases hl with rfl | ⟨ty, a, m, W, rfl, hW⟩
  · rcases hr with rfl | ⟨ty', a', m', W', rfl, hW'⟩
    · rfl
    · simp only [fnorm, Bool.and_eq_true] at hW'
      simp [fnorm, fnormKids, chainOk, Node.norm_elem, hW'.1, hW'.2]
  · simp only [fnorm, Bool.and_eq_true] at hW
    rcases hr with rfl | ⟨ty', a', m', W', rfl, hW'⟩
    · simp [fnorm, fnormKids, chainOk, Node.norm_elem, hW.1, hW.2]
    · simp only [fnorm, Bool.and_eq_true] at hW'
      simp [fnorm, fnormKids, chainOk, adjOk, Node.norm_elem, hW.1, hW.2, hW'.1, hW'.2]

/-- **`Slice(before ++ after, oS, oE).insert_at(|before| - oS, gap)`**: the gap's content goes between the two nests -/
theorem insertAt_lift (S : Schema) {lc rc : List Node} (mid : List Node) (a b : Nat) (hl : IsCopy lc)
    (hr : IsCopy rc) (ha : a ≤ fsize lc) (hb : b ≤ fsize rc) :
    Slice.insertAt S ⟨fappend lc rc, a, b⟩ (fsize lc - a) mid = .ok (some ⟨lc ++ mid ++ rc, a, b⟩) := by
  obtain ⟨e1, e2⟩ := fappend_copies mid hl hr
  have hn := fnorm_copies hl hr
  rw [insertAt_of_le (by simp only [Slice.size, e1, fsize_append]; omega)]
  unfold Slice.insertAtIn
  simp only [e1, show fsize lc - a + a = fsize lc by omega]
  have := insertInto_skip S mid none (lc ++ rc) (fsize lc) lc rc 0 a b
    (fnormKids_of_fnorm (fnorm_append_left hn))
  rw [this]
  simp only [flatInsert, fcut_prefix lc rc hn, fcut_suffix lc rc hn, e2]

/-! ### the payload of the step is valid -/

theorem CutL.openValid {S : Schema} {ty : TypeId} {L W XL : List Node} {p : Nat} (h : CutL S ty L p W XL)
    (hv : S.checkKids L = true) :
    leftOpenValid S (spineL W) W = true ∧ rightOpenValid S (spineL W) W = true := by
  induction h with
  | edge _ => simp [spineL, leftOpenValid, rightOpenValid]
  | @deep ty tyC a m pre post kC W XL p _ _ ih =>
    rw [checkKids_append, checkKids_cons, checkNode_elem] at hv
    simp only [Bool.and_eq_true] at hv
    obtain ⟨i1, i2⟩ := ih hv.2.1.2
    rw [show spineL [Node.elem tyC a m W] = spineL W + 1 by simp [spineL]; omega]
    simp [leftOpenValid, rightOpenValid, hv.2.1.1.2, i1, i2]

theorem CutR.openValid {S : Schema} {ty : TypeId} {L W XR : List Node} {p : Nat} (h : CutR S ty L p W XR)
    (hv : S.checkKids L = true) :
    leftOpenValid S (spineL W) W = true ∧ rightOpenValid S (spineL W) W = true := by
  induction h with
  | edge _ => simp [spineL, leftOpenValid, rightOpenValid]
  | @deep ty tyC a m pre post kC W XR p _ _ ih =>
    rw [checkKids_append, checkKids_cons, checkNode_elem] at hv
    simp only [Bool.and_eq_true] at hv
    obtain ⟨i1, i2⟩ := ih hv.2.1.2
    rw [show spineL [Node.elem tyC a m W] = spineL W + 1 by simp [spineL]; omega]
    simp [leftOpenValid, rightOpenValid, hv.2.1.1.2, i1, i2]

theorem rightOpenValid_append (S : Schema) (b : Nat) (y : Node) : ∀ (mid : List Node), S.checkKids mid = true →
    rightOpenValid S (b + 1) [y] = true → rightOpenValid S (b + 1) (mid ++ [y]) = true
  | [], _, h => h
  | n :: rest, hv, h => by
    rw [checkKids_cons, Bool.and_eq_true] at hv
    have ih := rightOpenValid_append S b y rest hv.2 h
    cases hr : rest ++ [y] with
    | nil => simp at hr
    | cons n' rest' =>
      rw [List.cons_append, hr, rightOpenValid, hv.1, ← hr]
      simpa using ih

/-- the slice with the gap's content in place is a valid payload -/
theorem lift_payload (S : Schema) {tyN : TypeId} {aN : Attrs} {mN : Marks} {kN mid : List Node}
    {fN a tN b : Nat} {lc lp rc rp : List Node}
    (hL : LeftSide S tyN aN mN kN fN lc a lp) (hR : RightSide S tyN aN mN kN tN rc b rp)
    (hvN : S.checkNode (.elem tyN aN mN kN) = true) (hvm : S.checkKids mid = true) :
    openValid S a b (lc ++ mid ++ rc) = true := by
  rw [checkNode_elem] at hvN
  simp only [Bool.and_eq_true] at hvN
  obtain ⟨⟨_, hm⟩, hk⟩ := hvN
  cases hL with
  | whole =>
    cases hR with
    | whole => simpa [openValid, rightOpenValid] using hvm
    | @cut p W XR hc =>
      obtain ⟨_, i2⟩ := hc.openValid hk
      rw [Nat.add_comm 1]
      simp only [openValid, List.nil_append]
      exact rightOpenValid_append S _ _ mid hvm (by simp [rightOpenValid, hm, i2])
  | @cut p W XL hc =>
    obtain ⟨i1, _⟩ := hc.openValid hk
    cases hR with
    | whole =>
      rw [Nat.add_comm 1]
      simp [openValid, leftOpenValid, hm, i1, hvm]
    | @cut p2 W2 XR hc2 =>
      obtain ⟨_, j2⟩ := hc2.openValid hk
      have hr := rightOpenValid_append S (spineL W2) (.elem tyN aN mN W2) mid hvm
        (by simp [rightOpenValid, hm, j2])
      rw [Nat.add_comm 1, Nat.add_comm 1]
      cases hmr : mid ++ [Node.elem tyN aN mN W2] with
      | nil => simp at hmr
      | cons n rest =>
        rw [hmr] at hr
        simp only [List.cons_append, List.nil_append, List.append_assoc, hmr, openValid, hm, i1, hr, Bool.and_self]

/-! ### from the final loop states to the two sides -/

theorem LiftLInv.side {S : Schema} {doc : Node} {f : RPos} {gs depth target : Nat} {frag : List Node}
    {opened moved : Nat} {acc : Option Node} {ok : Bool}
    (h : LiftLInv S doc f gs depth target 0 frag opened moved acc.isSome acc ok) (hok : ok = true)
    {tyN : TypeId} {aN : Attrs} {mN : Marks} {kN : List Node}
    (eN : f.node (target + 1) = .elem tyN aN mN kN) (preT : List Node)
    (hpre : preT = (f.node target).kids.take (f.index target))
    (hst : f.start (target + 1) = f.start target + fsize preT + 1) :
    ∃ fN, LeftSide S tyN aN mN kN fN frag opened acc.toList ∧
      gs - moved = f.start target + (fsize preT + fN) ∧ IsCopy frag ∧ opened ≤ fsize frag := by
  obtain ⟨_, _, h3⟩ := h
  simp only [Nat.add_zero] at h3
  rcases h3 with ⟨_, rfl, rfl, rfl, hb⟩ | ⟨_, _, ty, a, m, kids, W, XL, e1, rfl, rfl, rfl, hst', hcut⟩
  · exact ⟨0, .whole, by rw [hb, ← hpre]; omega, .inl rfl, by simp⟩
  · rw [eN] at e1
    simp only [Node.elem.injEq] at e1
    obtain ⟨rfl, rfl, rfl, rfl⟩ := e1
    have hc := hcut hok
    obtain ⟨_, _, hW, _, hnW⟩ := hc.depth
    exact ⟨1 + (gs - moved - f.start (target + 1)), .cut hc, by omega, .inr ⟨_, _, _, _, rfl, hnW⟩,
      by simp; omega⟩

theorem RInv.side {S : Schema} {doc : Node} {t : RPos} {ge depth target : Nat} {frag : List Node}
    {opened moved : Nat} {acc : Option Node} {ok : Bool}
    (h : RInv S doc t ge depth target 0 frag opened moved acc.isSome acc ok) (hok : ok = true)
    {tyN : TypeId} {aN : Attrs} {mN : Marks} {kN : List Node}
    (eN : t.node (target + 1) = .elem tyN aN mN kN) (preT : List Node)
    (hst : t.start (target + 1) = t.start target + fsize preT + 1)
    (hwhole : fsize ((t.node target).kids.take (t.indexAfter target)) = fsize preT + (2 + fsize kN)) :
    ∃ tN, RightSide S tyN aN mN kN tN frag opened acc.toList ∧
      ge + moved = t.start target + (fsize preT + tN) ∧ IsCopy frag ∧ opened ≤ fsize frag := by
  obtain ⟨_, h3⟩ := h
  simp only [Nat.add_zero] at h3
  rcases h3 with ⟨_, rfl, rfl, rfl, hb⟩ | ⟨_, _, ty, a, m, kids, W, XR, e1, rfl, rfl, rfl, hst', hcut⟩
  · exact ⟨2 + fsize kN, .whole, by rw [hb, hwhole], .inl rfl, by simp⟩
  · rw [eN] at e1
    simp only [Node.elem.injEq] at e1
    obtain ⟨rfl, rfl, rfl, rfl⟩ := e1
    have hc := hcut hok
    obtain ⟨_, _, hW, _, hnW⟩ := hc.depth
    exact ⟨1 + (ge + moved - t.start (target + 1)), .cut hc, by omega, .inr ⟨_, _, _, _, rfl, hnW⟩,
      by simp; omega⟩

/-! ### an approved lift applies -/

/-- **`lift_target` approves ∧ the pieces the split leaves are valid (`liftGuardR`) ∧ `TextStable` ⇒ the lift step
    applies**, and its payload (the gap's content placed between the two nests) is valid -/
theorem lift_applies (S : Schema) (hts : TextStableP S) (ty0 : TypeId) (a0 : Attrs) (m0 : Marks)
    (K : List Node) (a b depth target : Nat) (f t : RPos) (st : Step)
    (hf : (Node.elem ty0 a0 m0 K).resolve a = some f) (ht : (Node.elem ty0 a0 m0 K).resolve b = some t)
    (hv : S.checkNode (.elem ty0 a0 m0 K) = true) (hn : fnorm K = true)
    (hab : a ≤ b) (hend : b ≤ f.end_ depth)
    (hfb : depth < f.depth ∨ f.textOffset = 0) (htb : depth < t.depth ∨ t.textOffset = 0)
    (hg : liftGuardR S f t depth target = true)
    (hc : liftTargetR S f t depth = some (some target))
    (hb : liftStepR f t depth target = .ok st) :
    (∃ doc', S.apply st (.elem ty0 a0 m0 K) = .ok doc') ∧
    ∃ f' t' gs ge sl i, st = .replaceAround f' t' gs ge sl i true ∧
      ∀ gap ins, (Node.elem ty0 a0 m0 K).slice gs ge = .ok gap →
        Slice.insertAt S sl i gap.content = .ok (some ins) →
        openValid S ins.openStart ins.openEnd ins.content = true := by
  have Rf := resolve_resolved hf
  have Rt := resolve_resolved ht
  -- the approval
  unfold liftTargetR at hc
  split at hc
  · simp at hc
  rename_i hdd
  simp only [Bool.or_eq_true, decide_eq_true_eq, not_or, Nat.not_lt] at hdd
  obtain ⟨hdf, hdt⟩ := hdd
  obtain ⟨_, htd, _, _⟩ := liftLoop_spec S f t depth _ depth target hc
  -- the range
  unfold liftStepR at hb
  cases hgs : f.before (depth + 1) with
  | none => simp [hgs] at hb
  | some gs =>
  cases hge : t.after (depth + 1) with
  | none => simp [hgs, hge] at hb
  | some ge =>
  simp only [hgs, hge] at hb
  obtain ⟨pre, mid, post, hkD, hnodeD, hpre, hmid, hpost, hij, hial, hgs', hge'⟩ :=
    range_level hf ht hn depth hab hdf hdt hend hfb htb gs ge hgs hge
  have pf := Rf.pos_in depth hdf
  have pt := Rt.pos_in depth hdt
  have same := same_ancestors Rf Rt depth b hdf hdt (by omega) hend pt.1 pt.2
  have hnD := path_fnorm Rf hn depth hdf
  -- the left loops
  have hLinit : LiftLInv S (Node.elem ty0 a0 m0 K) f gs depth target (depth - target) [] 0 0 false none true :=
    ⟨Nat.zero_le _, fun i h1 h2 => by omega,
      .inl ⟨rfl, rfl, rfl, rfl, by rw [show target + (depth - target) = depth by omega, ← hpre]; omega⟩⟩
  obtain ⟨before, oS, mL, accL, okL, hsideL, hpiecesL, hfinL⟩ :=
    left_loop S hf gs depth target hdf (depth - target) [] 0 0 false none true (by omega) hLinit
  -- the right loops
  have htake : (f.node depth).kids.take (t.indexAfter depth) = pre ++ mid := by
    rw [hpre, hmid]
    unfold cutByIndex
    have : (f.node depth).kids.take (f.index depth)
        = ((f.node depth).kids.take (t.indexAfter depth)).take (f.index depth) := by
      rw [List.take_take, Nat.min_eq_left hij]
    rw [this, List.take_append_drop]
  have hbR : ∀ d, target < d → d ≤ depth →
      t.afterT (d + 1) = t.start d + fsize ((t.node d).kids.take (t.indexAfter d)) := by
    intro d h1 h2
    rcases Nat.lt_or_ge d depth with hlt | hge2
    · obtain ⟨hc', _⟩ := Rt.chain d (by omega)
      have hp : (t.entry d).pos = t.start d + fsize ((t.node d).kids.take (t.index d)) :=
        (Rt.entry d (by omega)).pos_eq
      have hia : t.indexAfter d = t.index d + 1 := by
        unfold RPos.indexAfter
        rw [if_neg (by simp; omega)]
      unfold RPos.afterT
      rw [if_neg (by omega), hia, fsize_take_succ _ _ _ hc']
      simp only [Nat.add_sub_cancel]
      omega
    · have : d = depth := by omega
      subst this
      rw [afterT_of_after hge, hnodeD, htake, fsize_append, ← (same d (Nat.le_refl _)).2.1]
      omega
  have hRinit : RInv S (Node.elem ty0 a0 m0 K) t ge depth target (depth - target) [] 0 0 false none true :=
    ⟨fun i h1 h2 => by omega,
      .inl ⟨rfl, rfl, rfl, rfl, by
        rw [show target + (depth - target) = depth by omega, hnodeD, htake, fsize_append,
          ← (same depth (Nat.le_refl _)).2.1]
        omega⟩⟩
  obtain ⟨after, oE, mR, accR, okR, hsideR, hpiecesR, hfinR⟩ :=
    right_loop S ht ge depth target hdt hbR (depth - target) [] 0 0 false none true (by omega) hRinit
  -- the step and the guard
  rw [hsideL, hsideR] at hb
  simp only [Except.ok.injEq] at hb
  subst hb
  unfold liftGuardR at hg
  rw [hpiecesL, hpiecesR] at hg
  simp only [Bool.and_eq_true] at hg
  obtain ⟨⟨hokL, hokR⟩, hvT⟩ := hg
  -- the level of `node(target)`
  obtain ⟨tyN, aN, mN, kN, eN, hspT, hstT, _, _⟩ := Resolved.level_deep hf target (by omega)
  have hiaT : t.indexAfter target = f.index target + 1 := by
    unfold RPos.indexAfter
    rw [if_neg (by simp; omega), (same target (by omega)).2.2.2 htd]
  rw [hiaT, ← hmid] at hvT
  generalize hpreT : (f.node target).kids.take (f.index target) = preT at hspT hstT hvT
  generalize hpostT : (f.node target).kids.drop (f.index target + 1) = postT at hspT hvT
  have hprelen : preT.length = f.index target := by
    rw [← hpreT, List.length_take]
    have := Rf.index_le target (by omega)
    omega
  have eNt : t.node (target + 1) = .elem tyN aN mN kN := by rw [← (same (target + 1) (by omega)).1]; exact eN
  have hsT := (same target (by omega)).2.1
  have hsT1 := (same (target + 1) (by omega)).2.1
  have hwhole : fsize ((t.node target).kids.take (t.indexAfter target)) = fsize preT + (2 + fsize kN) := by
    rw [← (same target (by omega)).1, hiaT, hspT, ← hprelen, take_mid, fsize_append]
    simp
  obtain ⟨fN, hL, hposL, hcL, hoS⟩ := hfinL.side hokL eN preT hpreT.symm hstT
  obtain ⟨tN, hR, hposR, hcR, hoE⟩ := hfinR.side hokR eNt preT (by rw [← hsT, ← hsT1]; exact hstT) hwhole
  rw [← hsT] at hposR
  obtain ⟨_, hfle, _⟩ := hL.facts postT []
  obtain ⟨_, htle, _⟩ := hR.facts postT []
  -- the two levels
  obtain ⟨tyP, aP, mP, ctx, eP, hlT⟩ := Resolved.lvl hf hn target (by omega)
  obtain ⟨tyD, aD, mD, ctxD, eD, hlD⟩ := Resolved.lvl hf hn depth hdf
  have hnT := hlT.norm hn
  rw [hspT] at hlT hnT
  rw [hkD] at hlD hnD
  have hrT := hlT.range
  have hszT : fsize (preT ++ Node.elem tyN aN mN kN :: postT) = fsize preT + (2 + fsize kN) + fsize postT := by
    simp [fsize_append]; omega
  have hnmid : fnorm mid = true := fnorm_append_right (fnorm_append_left hnD)
  have htyP : S.tyOf (f.node target) = tyP := by rw [eP]; rfl
  rw [htyP] at hvT
  -- the gap
  have hslice := sliceKids_children hlD hnD
  rw [← hgs', ← hge'] at hslice
  -- the structure flag's guard
  have hcb1 : contentBetween (Node.elem ty0 a0 m0 K) (gs - mL) gs = some false :=
    contentBetween_closesOpens (Node.elem ty0 a0 m0 K) _ _ hn (by omega) (by show _ ≤ fsize K; omega)
      (hfinL.2.1.closesOpens (by omega))
  have hcb2 : contentBetween (Node.elem ty0 a0 m0 K) ge (ge + mR) = some false := by
    have := hfinR.1.closesOpens (Nat.le_add_right ge mR)
    rw [Nat.add_sub_cancel_left] at this
    refine contentBetween_closesOpens (Node.elem ty0 a0 m0 K) _ _ hn (by omega) (by show _ ≤ fsize K; omega) ?_
    rw [Nat.add_sub_cancel_left]
    exact this
  -- the gap's content between the two nests
  have hins := insertAt_lift S mid oS oE hcL hcR hoS hoE
  -- the replace
  have hvT' : S.validContent tyP (preT ++ (accL.toList ++ mid ++ accR.toList ++ postT)) = true := by
    simpa only [List.append_assoc] using hvT
  have hrep : replaceKids S ty0 K (gs - mL) (ge + mR) ⟨before ++ mid ++ after, oS, oE⟩
      = .ok (ctx (fromArray (preT ++ (accL.toList ++ mid ++ accR.toList ++ postT)))) := by
    rw [hposL, hposR]
    by_cases hsplit : oS ≠ 0 ∨ oE ≠ 0
    · exact replaceKids_lift hts hlT hL hR hsplit (by omega) hnT hvT'
    · have h0 : oS = 0 ∧ oE = 0 := by omega
      obtain ⟨e1, e2, e3⟩ := hL.zero h0.1
      obtain ⟨e4, e5, e6⟩ := hR.zero h0.2
      rw [e3, e6] at hvT'
      rw [e1, e2, e3, e4, e5, e6, h0.1, h0.2]
      have hlT' : Lvl ty0 K (f.start target) target tyP (preT ++ [Node.elem tyN aN mN kN] ++ postT) ctx := by
        simpa using hlT
      have := replaceKids_children hts hlT' mid hnmid (by simpa using hnT)
        (by simpa [List.append_assoc] using hvT')
      simpa [List.append_assoc] using this
  have hpay : openValid S oS oE (before ++ mid ++ after) = true := by
    have hvN : S.checkNode (Node.elem tyN aN mN kN) = true := by
      rw [← eN]; exact path_valid S Rf hv (target + 1) (by omega)
    have hvc : S.validContent ty0 K = true ∧ S.checkKids K = true := by
      rw [checkNode_elem] at hv
      simp only [Bool.and_eq_true] at hv
      exact ⟨hv.1.1, hv.2⟩
    obtain ⟨_, ck, _⟩ := hlD.valid hvc.1 hvc.2 hn
    rw [checkKids_append, checkKids_append] at ck
    simp only [Bool.and_eq_true] at ck
    exact lift_payload S hL hR hvN ck.1.2
  constructor
  · simp only [Schema.apply, if_true, hcb1, hcb2, Node.slice, Node.kids, hslice, hins, Schema.fromReplace,
      Schema.replace, hrep]
    exact ⟨_, rfl⟩
  · refine ⟨_, _, _, _, _, _, rfl, ?_⟩
    intro gap ins h1 h2
    simp only [Node.slice, Node.kids, hslice, Except.ok.injEq] at h1
    subst h1
    rw [hins] at h2
    simp only [Except.ok.injEq, Option.some.injEq] at h2
    subst h2
    exact hpay

/-! ### when nothing is split the guard is the approval -/

theorem liftPieces_flat (S : Schema) (nodeAt : Nat → Node) (splitsAt : Nat → Bool) (keep : Nat → List Node)
    (put : List Node → List Node → List Node) (target : Nat) :
    ∀ (n : Nat) (ok : Bool), (∀ i, i < n → splitsAt (target + i + 1) = false) →
      liftPieces S nodeAt splitsAt keep put target n none ok = (none, ok)
  | 0, _, _ => rfl
  | n + 1, ok, h => by
    unfold liftPieces
    simp only [Option.isSome_none, Bool.false_or, h n (Nat.lt_succ_self n), Bool.false_eq_true, if_false]
    exact liftPieces_flat S nodeAt splitsAt keep put target n ok (fun i hi => h i (by omega))

/-- **nothing is split ∧ `lift_target` approves ⇒ `liftGuardR`**: the general guard asks nothing more than
    `lift_target`'s `can_replace(index, end_index, content)` then -/
theorem liftGuardR_of_flat (S : Schema) {doc : Node} {a b : Nat} (depth target : Nat) {f t : RPos}
    (hf : doc.resolve a = some f) (ht : doc.resolve b = some t) (hv : S.checkNode doc = true)
    (hab : a ≤ b) (hend : b ≤ f.end_ depth)
    (hg : liftFlatGuardR f t depth target = true)
    (hc : liftTargetR S f t depth = some (some target)) : liftGuardR S f t depth target = true := by
  have Rf := resolve_resolved hf
  have Rt := resolve_resolved ht
  unfold liftTargetR at hc
  split at hc
  · simp at hc
  rename_i hdd
  simp only [Bool.or_eq_true, decide_eq_true_eq, not_or, Nat.not_lt] at hdd
  obtain ⟨hdf, hdt⟩ := hdd
  obtain ⟨_, htd, hcr, _⟩ := liftLoop_spec S f t depth _ depth target hc
  have G := liftFlatGuardR_spec hg
  have pf := Rf.pos_in depth hdf
  have pt := Rt.pos_in depth hdt
  have same := same_ancestors Rf Rt depth b hdf hdt (by omega) hend pt.1 pt.2
  obtain ⟨tyC, aC, mC, kC, eC, hspT, _, _, _⟩ := Resolved.level_deep hf target (by omega)
  obtain ⟨tyP, aP, mP, kP, eP⟩ : ∃ ty a m k, f.node target = .elem ty a m k := by
    rcases Nat.eq_zero_or_pos target with h0 | hpos
    · subst h0
      have hd := Rf.depth_eq
      rw [Rf.node_zero]
      cases doc with
      | elem ty a m k => exact ⟨_, _, _, _, rfl⟩
      | text s m => simp [Node.kids, depthAt] at hd; omega
      | leaf ty a m => simp [Node.kids, depthAt] at hd; omega
    · obtain ⟨ty, a', m, k, e⟩ := resolve_node_elem hf (target - 1) (by omega)
      rw [show target - 1 + 1 = target by omega] at e
      exact ⟨_, _, _, _, e⟩
  have hvnP : S.validContent (S.tyOf (f.node target)) (f.node target).kids = true :=
    validContent_of_checkNode S _ tyP aP mP (by rw [eP]; rfl) (path_valid S Rf hv target (by omega))
  have hia : t.indexAfter target = f.index target + 1 := by
    unfold RPos.indexAfter
    rw [if_neg (by simp; omega), (same target (by omega)).2.2.2 htd]
  have hprelen : ((f.node target).kids.take (f.index target)).length = f.index target := by
    rw [List.length_take]
    have := Rf.index_le target (by omega)
    omega
  have hvnew := nodeCanReplace_valid S (f.node target) _ _
    (cutByIndex (f.node depth).kids (f.index depth) (t.indexAfter depth)) _ hspT hvnP
    (by rw [hprelen, ← hia]; exact hcr)
  unfold liftGuardR
  rw [liftPieces_flat _ _ _ _ _ _ _ _ (fun i hi => by simp [(G i hi).1]),
    liftPieces_flat _ _ _ _ _ _ _ _ (fun i hi => by simpa using (G i hi).2)]
  simpa [hia] using hvnew

end PM
