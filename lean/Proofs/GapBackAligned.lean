/-
  Proofs/GapBackAligned.lean — the one proviso left of the fit guard of `replaceAround_undo` after the repair of
  `insert_into`: the cut the inverse makes in its own slice (the remainder of the old slice, at the point the gap was
  taken from) does not separate a surrogate pair.
  * `Step.gapBackAligned s d` — the proviso, stated on the step and the document it was applied to;
  * `gapBackAligned_of_fits` — it follows from the old fit guard `gapFitsBack` (a successful `insert_at` made the cut);
  * `gapBackAligned_of_bmp` — it is void where the document has no text outside the Basic Multilingual Plane;
  * `gapFitsBack_iff_aligned` — on a valid normal-form document the fit guard *is* this proviso.
-/
import Proofs.GapBack
import Proofs.MarkHistory
import Proofs.MergeOpen
import Proofs.InvertOkAround
import Proofs.FlatInsertCore
namespace PM

/-- the pair-alignment proviso of the inverse of a replace-around step, in the old document: where the gap `gf … gt`
    was taken out of `d.slice(f, t)`, the remainder can be cut again (Python strings cannot be cut inside a surrogate
    pair; the model's unit lists can — where `remove_range` joined two text nodes around the gap, a lone high surrogate
    before the gap and a lone low one behind it would meet at the seam) -/
def Step.gapBackAligned (s : Step) (d : Node) : Prop :=
  match s with
  | .replaceAround f t gf gt _ _ _ =>
    ∀ old rem, d.slice f t = .ok old → old.removeBetween (gf - f) (gt - f) = .ok rem →
      alignedAt rem.content (gf - f + rem.openStart) = true
  | _ => True

/-- the cut `insert_at` makes in the slice of a replace-around step, at its insertion point, does not separate a
    surrogate pair -/
def Step.gapCutAligned : Step → Prop
  | .replaceAround _ _ _ _ sl ins _ => alignedAt sl.content (ins + sl.openStart) = true
  | _ => True

/-- **the pair-alignment proviso of the inverse of a replace-around step that is checked in the old document**:
    `Step.invert` does not raise (it cuts the old slice at the two ends of the gap: `remove_between`) and the inverse it
    builds can cut its own slice at its insertion point (`Step.gapCutAligned`).  This is all that is left of the fit guard
    `gapFitsBack` since `insert_into` validates the content it built: it follows from `gapFitsBack`
    (`undoCutAligned_of_fits`) and is void where the old document has no text outside the BMP
    (`undoCutAligned_of_bmp`). -/
def Step.undoCutAligned (S : Schema) (s : Step) (d : Node) : Prop :=
  match s with
  | .replaceAround .. => ∃ inv, S.invert s d = .ok inv ∧ inv.gapCutAligned
  | _ => True

/-- the inverse's own cut, seen from the old document -/
theorem gapCutAligned_iff_back (S : Schema) (d : Node) (f t gf gt : Nat) (sl : Slice) (ins : Nat) (b : Bool)
    (inv : Step) (hi : S.invert (.replaceAround f t gf gt sl ins b) d = .ok inv) :
    inv.gapCutAligned ↔ (Step.replaceAround f t gf gt sl ins b).gapBackAligned d := by
  simp only [Schema.invert] at hi
  cases hsl : d.slice f t with
  | error e => simp [hsl] at hi
  | ok old =>
    simp only [hsl] at hi
    cases hrm : old.removeBetween (gf - f) (gt - f) with
    | error e => simp [hrm] at hi
    | ok rem =>
      simp only [hrm, Except.ok.injEq] at hi
      subst hi
      simp only [Step.gapCutAligned, Step.gapBackAligned]
      constructor
      · intro h old' rem' h1 h2
        have e1 : old = old' := Except.ok.inj (hsl.symm.trans h1)
        subst e1
        have e2 : rem = rem' := Except.ok.inj (hrm.symm.trans h2)
        subst e2
        exact h
      · intro h
        exact h old rem hsl hrm

/-! ### a successful `insert_into` made an aligned cut -/

theorem insertInto_ok_aligned_aux (S : Schema) (ins : List Node) :
    ∀ (rest : List Node) (parent : Option TypeId) (level : List Node) (d0 idx d oa ob : Nat) (pre c : List Node),
      level = pre ++ rest → d0 = fsize pre + d →
      insertInto S ins parent level d0 idx rest d oa ob = .ok (some c) → alignedAt level d0 = true
  | [], parent, level, d0, idx, d, oa, ob, pre, c, hl, hd0, h => by
    unfold insertInto at h
    split at h
    · rename_i h0
      subst h0; subst hl; subst hd0
      simp only [List.append_nil, Nat.add_zero]
      exact alignedAt_fsize _
    · simp at h
  | n :: ns, parent, level, d0, idx, d, oa, ob, pre, c, hl, hd0, h => by
    unfold insertInto at h
    split at h
    · rename_i h0
      subst h0; subst hl; subst hd0
      rw [alignedAt_append_pre]; simp
    · rename_i h0
      split at h
      · rename_i hsz
        exact insertInto_ok_aligned_aux S ins ns parent level d0 (idx + 1) (d - n.size) oa ob (pre ++ [n]) c
          (by rw [hl]; simp) (by rw [hd0, fsize_append]; simp only [fsize_cons, fsize_nil]; omega) h
      · rename_i hsz
        cases n with
        | text s m =>
          simp only at h
          obtain ⟨l, r, hcl, _, _⟩ := flatInsert_ok_cuts h
          simp only [Node.size_text] at hsz
          have hle : d0 ≤ fsize level := by
            rw [hl, hd0, fsize_append]; simp only [fsize_cons, Node.size_text]; omega
          exact (fcut_aligned (by omega) hle hcl).2
        | leaf t a m =>
          exfalso
          simp only [Node.size] at hsz
          omega
        | elem ty a m kids =>
          simp only at h
          split at h
          · rename_i inner hin
            have ih := insertInto_ok_aligned_aux S ins kids _ kids (d - 1) 0 (d - 1) _ _ [] inner (by simp) (by simp) hin
            subst hl; subst hd0
            simp only [Node.size_elem] at hsz
            rw [alignedAt_append_pre, alignedAt_cons, if_neg h0, if_neg (by simp only [Node.size_elem]; omega)]
            exact ih
          · simp at h
          · simp at h

theorem insertAt_ok_aligned (S : Schema) (sl x : Slice) (pos : Nat) (frag : List Node)
    (h : sl.insertAt S pos frag = .ok (some x)) : alignedAt sl.content (pos + sl.openStart) = true := by
  rw [insertAt_of_le (insertAt_ok h).1] at h
  unfold Slice.insertAtIn at h
  split at h
  · rename_i c hc
    exact insertInto_ok_aligned_aux S frag sl.content none sl.content _ 0 _ _ _ [] c (by simp) (by simp) hc
  · simp at h
  · simp at h

/-- the old fit guard gives the proviso: `insert_at` succeeded, so its cut was aligned -/
theorem gapBackAligned_of_fits (S : Schema) (d : Node) (f t gf gt : Nat) (sl : Slice) (ins : Nat) (b : Bool)
    (h : gapFitsBack S d f t gf gt = true) : (Step.replaceAround f t gf gt sl ins b).gapBackAligned d := by
  intro old rem hsl hrm
  unfold gapFitsBack at h
  cases hgap : d.slice gf gt with
  | error e => simp [hsl, hgap] at h
  | ok gap =>
    simp only [hsl, hgap, hrm] at h
    cases hx : rem.insertAt S (gf - f) gap.content with
    | error e => simp [hx] at h
    | ok o =>
      cases o with
      | none => simp [hx] at h
      | some x => exact insertAt_ok_aligned S rem x (gf - f) gap.content hx

/-- the old fit guard gives the whole proviso -/
theorem undoCutAligned_of_fits (S : Schema) (d : Node) (f t gf gt : Nat) (sl : Slice) (ins : Nat) (b : Bool)
    (h : gapFitsBack S d f t gf gt = true) : (Step.replaceAround f t gf gt sl ins b).undoCutAligned S d := by
  have hb := gapBackAligned_of_fits S d f t gf gt sl ins b h
  have hinv : ∃ inv, S.invert (.replaceAround f t gf gt sl ins b) d = .ok inv := by
    unfold gapFitsBack at h
    simp only [Schema.invert]
    cases h1 : d.slice f t with
    | error e => simp [h1] at h
    | ok old =>
      cases h2 : d.slice gf gt with
      | error e => simp [h1, h2] at h
      | ok gap =>
        cases h3 : old.removeBetween (gf - f) (gt - f) with
        | error e => simp [h1, h2, h3] at h
        | ok rem => simp only [h3]; exact ⟨_, rfl⟩
  obtain ⟨inv, hi⟩ := hinv
  exact ⟨inv, hi, (gapCutAligned_iff_back S d f t gf gt sl ins b inv hi).2 hb⟩

/-! ### no text outside the BMP: nothing to align -/

theorem all_noHigh_take {l : List Tok} (h : l.all Tok.noHigh = true) (n : Nat) : (l.take n).all Tok.noHigh = true := by
  rw [List.all_eq_true] at h ⊢
  exact fun x hx => h x (List.mem_of_mem_take hx)

theorem all_noHigh_drop {l : List Tok} (h : l.all Tok.noHigh = true) (n : Nat) : (l.drop n).all Tok.noHigh = true := by
  rw [List.all_eq_true] at h ⊢
  exact fun x hx => h x (List.mem_of_mem_drop hx)

/-- the first `a` tokens of content open `a` levels on the left are open tokens -/
theorem take_spineL_noHigh : ∀ (a : Nat) (M : List Node), a ≤ spineL M → ((ftoks M).take a).all Tok.noHigh = true
  | 0, M, _ => by simp
  | a + 1, M, h => by
    obtain ⟨ty, at_, m, k, rest, rfl, hak, hk⟩ := spineL_pos_decomp h
    rw [ftoks_cons, take_elem_toks _ _ _ _ _ _ (by omega) (by omega)]
    simp only [List.all_cons, Tok.noHigh, Bool.true_and, Nat.add_sub_cancel]
    exact take_spineL_noHigh a k hak

/-- the content of a slice cut from a BMP child list is BMP (the open sides add open and close tokens only) -/
theorem sliceKids_content_noHigh (kids : List Node) (f t : Nat) (s : Slice) (hn : fnorm kids = true)
    (hb : (ftoks kids).all Tok.noHigh = true) (ht : t ≤ fsize kids) (h : sliceKids kids f t = .ok s) :
    (ftoks s.content).all Tok.noHigh = true := by
  have hft : f ≤ t := by
    unfold sliceKids at h
    split at h
    · omega
    · split at h
      · simp at h
      · rename_i hc
        simp only [Bool.or_eq_true, Bool.not_eq_true', decide_eq_true_eq, not_or, Nat.not_lt] at hc
        exact hc.2
  by_cases he : f = t
  · subst he
    simp [sliceKids] at h
    subst h
    simp [Slice.empty]
  · have spec := sliceKids_spec kids f t s (by omega) ht h
    have hwf := (spec.norm hn).2
    have ho := wf_opens_le hwf
    simp only [Slice.wf, Bool.and_eq_true, decide_eq_true_eq] at hwf
    have hsplit : ftoks s.content = (ftoks s.content).take s.openStart ++ s.toks ++
        (ftoks s.content).drop (fsize s.content - s.openEnd) := by
      simp only [Slice.toks]
      have h1 := (List.take_append_drop s.openStart (ftoks s.content)).symm
      have h2 := (List.take_append_drop (fsize s.content - s.openStart - s.openEnd)
        ((ftoks s.content).drop s.openStart)).symm
      rw [List.drop_drop] at h2
      have e : s.openStart + (fsize s.content - s.openStart - s.openEnd) = fsize s.content - s.openEnd := by omega
      rw [e] at h2
      rw [List.append_assoc, ← h2]
      exact h1
    rw [hsplit, List.all_append, List.all_append, Bool.and_eq_true, Bool.and_eq_true]
    refine ⟨⟨take_spineL_noHigh _ _ hwf.1, ?_⟩, ?_⟩
    · rw [spec.toks]
      exact all_noHigh_take (all_noHigh_drop hb _) _
    · rw [drop_spineR _ _ hwf.2]
      simp [Tok.noHigh]

/-- **in a document without text outside the BMP the proviso is void** -/
theorem gapBackAligned_of_bmp (s : Step) (d : Node) (hn : fnorm d.kids = true) (hb : bmpDoc d = true) :
    s.gapBackAligned d := by
  cases s with
  | replaceAround f t gf gt sl ins b =>
    intro old rem hsl hrm
    apply alignedAt_of_bmp
    have hsl' : sliceKids d.kids f t = .ok old := hsl
    have hold : (ftoks old.content).all Tok.noHigh = true := by
      by_cases he : f = t
      · subst he
        simp [sliceKids] at hsl'
        subst hsl'
        simp [Slice.empty]
      · have htle : t ≤ fsize d.kids := by
          unfold sliceKids at hsl'
          rw [if_neg he] at hsl'
          split at hsl'
          · simp at hsl'
          · rename_i hc
            simp only [Bool.or_eq_true, Bool.not_eq_true', decide_eq_true_eq, not_or, Bool.not_eq_false,
              Nat.not_lt, inRange] at hc
            simpa using hc.1.2
        exact sliceKids_content_noHigh d.kids f t old hn hb htle hsl'
    unfold Slice.removeBetween at hrm
    simp only at hrm
    split at hrm
    · simp at hrm
    · rename_i hord
      split at hrm
      · rename_i c1 hc1
        simp at hrm; subst hrm
        obtain ⟨htk1, _⟩ := removeRange_toks old.content old.content _ _ 0 _ _ [] c1 rfl rfl (by simp)
          (by simp) (by omega) hc1
        simp only
        rw [htk1, List.all_append, Bool.and_eq_true]
        exact ⟨all_noHigh_take hold _, all_noHigh_drop hold _⟩
      · simp at hrm
  | _ => trivial

/-- **in a document without text outside the BMP the whole proviso is void** for a replace-around step with an ordered
    gap that applied -/
theorem undoCutAligned_of_bmp (S : Schema) (s : Step) (d d' : Node) (hn : fnorm d.kids = true)
    (hb : bmpDoc d = true) (h : S.apply s d = .ok d')
    (hg : ∀ f t gf gt sl ins b, s = .replaceAround f t gf gt sl ins b → f ≤ gf ∧ gf ≤ gt ∧ gt ≤ t) :
    s.undoCutAligned S d := by
  cases s with
  | replaceAround f t gf gt sl ins b =>
    obtain ⟨inv, hi⟩ := invert_ok_replaceAround_full S d d' f t gf gt sl ins b hn (hg _ _ _ _ _ _ _ rfl)
      (.inr (alignedAt_of_bmp d.kids gf hb)) h
    exact ⟨inv, hi, (gapCutAligned_iff_back S d f t gf gt sl ins b inv hi).2
      (gapBackAligned_of_bmp (.replaceAround f t gf gt sl ins b) d hn hb)⟩
  | _ => trivial

/-- **on a valid normal-form document the fit guard of `replaceAround_undo` is nothing but this proviso** (given that
    the two slices and the remainder exist, as they do when the step applied and its inverse was built) -/
theorem gapFitsBack_iff_aligned (S : Schema) (doc : Node) (f t gf gt : Nat) (sl : Slice) (ins : Nat) (b : Bool)
    (old rem gap : Slice)
    (hd : S.checkNode doc = true) (hn : fnorm doc.kids = true)
    (hg : f ≤ gf ∧ gf ≤ gt ∧ gt ≤ t) (ht : t ≤ fsize doc.kids)
    (hsl : doc.slice f t = .ok old) (hgap : doc.slice gf gt = .ok gap)
    (hgc : gap.openStart = 0 ∧ gap.openEnd = 0)
    (hrm : old.removeBetween (gf - f) (gt - f) = .ok rem) :
    gapFitsBack S doc f t gf gt = true ↔ (Step.replaceAround f t gf gt sl ins b).gapBackAligned doc := by
  constructor
  · exact gapBackAligned_of_fits S doc f t gf gt sl ins b
  · intro h
    exact (gapFitsBack_of_valid S doc f t gf gt old rem gap hd hn hg ht hsl hgap hgc hrm (h old rem hsl hrm)).1

end PM
