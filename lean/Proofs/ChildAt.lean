/-
  Proofs/ChildAt.lean — `Fragment.find_index` (round = -1) characterised: helper lemmas for
  `childAfter_spec` / `childBefore_spec` / `indexAfter_spec` of Props/C09.lean.
-/
import PM.Resolve
import Proofs.Toks
import Proofs.Resolve
import Proofs.ResolveNodes
namespace PM

/-- what `find_index(pos)` returns as index: child `j` starts at or before `pos`, every earlier child
    starts strictly before `pos`, and either `j` starts exactly at `pos` (a boundary, possibly the
    end of the list) or `pos` lies strictly inside child `j` -/
def FoundIndex (kids : List Node) (pos j : Nat) : Prop :=
  j ≤ kids.length ∧ fsize (kids.take j) ≤ pos ∧ (∀ k, k < j → fsize (kids.take k) < pos) ∧
  (fsize (kids.take j) = pos ∨ ∃ c, kids[j]? = some c ∧ pos < fsize (kids.take j) + c.size)

theorem fsize_take_mono (kids : List Node) : ∀ (a b : Nat), a ≤ b → fsize (kids.take a) ≤ fsize (kids.take b) := by
  induction kids with
  | nil => intro a b _; simp
  | cons n ns ih =>
    intro a b hab
    cases a with
    | zero => simp
    | succ a =>
      cases b with
      | zero => omega
      | succ b =>
        have := ih a b (by omega)
        simp only [List.take_succ_cons, fsize_cons]; omega

/-- `FoundIndex` determines the index -/
theorem FoundIndex.unique {kids : List Node} {pos j j' : Nat}
    (h : FoundIndex kids pos j) (h' : FoundIndex kids pos j') : j = j' := by
  have key : ∀ a b, FoundIndex kids pos a → FoundIndex kids pos b → a < b → False := by
    intro a b ha hb hab
    have h1 := hb.2.2.1 a hab
    rcases ha.2.2.2 with h2 | ⟨c, hc, h2⟩
    · omega
    · have h3 := fsize_take_succ kids a c hc
      have h4 := fsize_take_mono kids (a + 1) b (by omega)
      have h5 := hb.2.1
      omega
  rcases Nat.lt_trichotomy j j' with hlt | heq | hgt
  · exact (key _ _ h h' hlt).elim
  · exact heq
  · exact (key _ _ h' h hgt).elim

theorem findIndexAux_spec : ∀ (kids : List Node) (pos i cur : Nat),
    (findIndexAux kids pos i cur = none ↔ fsize kids < pos) ∧
    ∀ j off, findIndexAux kids pos i cur = some (j, off) →
      ∃ j', j = i + j' ∧ off = cur + fsize (kids.take j') ∧ FoundIndex kids pos j'
  | [], pos, i, cur => by
    unfold findIndexAux
    by_cases hp : pos = 0
    · subst hp
      refine ⟨by simp, fun j off h => ?_⟩
      simp only [if_true, Option.some.injEq, Prod.mk.injEq] at h
      exact ⟨0, by omega, by simp [h.2], by simp [FoundIndex]⟩
    · simp only [hp, if_false, fsize_nil, true_iff]
      exact ⟨by omega, fun j off h => by simp at h⟩
  | n :: ns, pos, i, cur => by
    unfold findIndexAux
    by_cases hp : pos = 0
    · subst hp
      refine ⟨by simp, fun j off h => ?_⟩
      simp only [if_true, Option.some.injEq, Prod.mk.injEq] at h
      exact ⟨0, by omega, by simp [h.2], by simp [FoundIndex]⟩
    · simp only [hp, if_false]
      by_cases hs : n.size ≤ pos
      · simp only [hs, if_true]
        obtain ⟨ih1, ih2⟩ := findIndexAux_spec ns (pos - n.size) (i + 1) (cur + n.size)
        refine ⟨by rw [ih1, fsize_cons]; omega, fun j off h => ?_⟩
        obtain ⟨j', hj, hoff, f1, f2, f3, f4⟩ := ih2 j off h
        refine ⟨j' + 1, by omega, by simp only [List.take_succ_cons, fsize_cons]; omega,
          by simp only [List.length_cons]; omega,
          by simp only [List.take_succ_cons, fsize_cons]; omega, fun k hk => ?_, ?_⟩
        · cases k with
          | zero => simp; omega
          | succ k =>
            have := f3 k (by omega)
            simp only [List.take_succ_cons, fsize_cons]; omega
        · simp only [List.take_succ_cons, fsize_cons, List.getElem?_cons_succ]
          rcases f4 with f4 | ⟨c, hc, f4⟩
          · left; omega
          · right; exact ⟨c, hc, by omega⟩
      · simp only [hs, if_false]
        refine ⟨by simp only [fsize_cons, reduceCtorEq, false_iff]; omega, fun j off h => ?_⟩
        simp only [Option.some.injEq, Prod.mk.injEq] at h
        refine ⟨0, by omega, by simp [h.2], by simp, by simp, fun k hk => by omega, ?_⟩
        right
        exact ⟨n, by simp, by simp; omega⟩

theorem findIndex_spec (kids : List Node) (pos : Nat) :
    (findIndex kids pos = none ↔ fsize kids < pos) ∧
    ∀ j off, findIndex kids pos = some (j, off) →
      off = fsize (kids.take j) ∧ FoundIndex kids pos j := by
  obtain ⟨h1, h2⟩ := findIndexAux_spec kids pos 0 0
  refine ⟨h1, fun j off h => ?_⟩
  obtain ⟨j', hj, hoff, hf⟩ := h2 j off h
  have : j = j' := by omega
  subst this
  exact ⟨by omega, hf⟩

/-- the tokens of child `i` inside the tokens of the list -/
theorem window_child0 (kids : List Node) (i : Nat) (c : Node) (hc : kids[i]? = some c) :
    ((ftoks kids).drop (fsize (kids.take i))).take c.size = c.toks := by
  have := window_child (ftoks kids) 0 kids i c (by simp [← ftoks_length]) hc
  simpa using this

/-! ### `resolve` stops at the first boundary: the children before `index(k)` start strictly before
    the position (the scan passes a child only while the remaining offset is non-zero) -/

def PathMin (target : Nat) : Nat → Path → Prop
  | _, [] => True
  | st, e :: tl => (∀ j, j < e.index → st + fsize (e.node.kids.take j) < target) ∧
      PathMin target (e.pos + 1) tl

theorem take_append_le {α : Type} (pre rest : List α) (j : Nat) (h : j ≤ pre.length) :
    (pre ++ rest).take j = pre.take j := by
  rw [List.take_append]; simp [Nat.sub_eq_zero_of_le h]

theorem resolveScan_min (node : Node) (start : Nat) (rest : List Node) (idx cur po : Nat)
    (path : Path) (pre : List Node) (hk : node.kids = pre ++ rest) (hi : idx = pre.length)
    (hc : cur = fsize pre) (hm : ∀ j, j < idx → fsize (node.kids.take j) < cur + po)
    (h : resolveScan node start rest idx cur po = some path) :
    PathMin (start + cur + po) start path := by
  fun_induction resolveScan node start rest idx cur po generalizing path pre
  case case1 node start idx cur =>
    simp only [Option.some.injEq] at h; subst h
    exact ⟨fun j hj => by have := hm j hj; simp only at this ⊢; omega, trivial⟩
  case case2 => simp at h
  case case3 node start n ns idx cur =>
    simp only [Option.some.injEq] at h; subst h
    exact ⟨fun j hj => by have := hm j hj; simp only at this ⊢; omega, trivial⟩
  case case4 node start n ns idx cur po h0 h1 ih =>
    have := ih path (pre ++ [n]) (by simp [hk]) (by simp [hi]) (by simp [hc, fsize_append])
      (fun j hj => by
        rcases Nat.lt_or_ge j idx with hlt | hge
        · have := hm j hlt; omega
        · have hj' : j = pre.length := by omega
          rw [hk, hj', take_append_le _ _ _ (Nat.le_refl _), List.take_length]; omega) h
    have e : start + (cur + n.size) + (po - n.size) = start + cur + po := by omega
    rwa [e] at this
  case case5 node start ns idx cur po h0 ty ats mk kids h1 ih =>
    cases hr : resolveScan (Node.elem ty ats mk kids) (start + cur + 1) kids 0 0 (po - 1) with
    | none => simp [hr] at h
    | some p' =>
      simp only [hr, Option.map_some, Option.some.injEq] at h
      have hp := ih p' [] (by simp [Node.kids]) rfl (by simp) (fun j hj => by omega) hr
      have e : start + cur + 1 + 0 + (po - 1) = start + cur + po := by omega
      rw [e] at hp
      subst h
      exact ⟨fun j hj => by have := hm j hj; simp only at this ⊢; omega, hp⟩
  case case6 node start n ns idx cur po h0 h1 hne =>
    simp only [Option.some.injEq] at h; subst h
    exact ⟨fun j hj => by have := hm j hj; simp only at this ⊢; omega, trivial⟩

theorem PathMin.entry {target : Nat} : ∀ (path : Path) (st k : Nat), PathMin target st path →
    k < path.length →
    ∀ j, j < path[k]!.index → pstart st path k + fsize (path[k]!.node.kids.take j) < target
  | [], _, _, _, hk => by simp at hk
  | e :: tl, st, 0, h, _ => by simpa [pstart] using h.1
  | e :: tl, st, k + 1, h, hk => by
    rw [pstart_succ]
    simpa using PathMin.entry tl (e.pos + 1) k h.2 (by simpa using hk)

/-- the children before `index(k)` start strictly before the resolved position -/
theorem resolve_min {doc : Node} {pos : Nat} {r : RPos} (h : doc.resolve pos = some r)
    (k : Nat) (hk : k ≤ r.depth) (j : Nat) (hj : j < r.index k) :
    r.start k + fsize ((r.node k).kids.take j) < pos := by
  have R := resolve_resolved h
  unfold Node.resolve at h
  split at h
  · cases hr : resolveScan doc 0 doc.kids 0 0 pos with
    | none => simp [hr] at h
    | some p =>
      simp only [hr, Option.map_some, Option.some.injEq] at h
      subst h
      have hm := resolveScan_min doc 0 doc.kids 0 0 pos p [] (by simp) rfl (by simp)
        (fun j hj => by omega) hr
      simp only [Nat.zero_add] at hm
      have := PathMin.entry p 0 k hm (by have := R.length_eq; simp only at this; omega) j hj
      rw [Resolved.start_eq]
      exact this
  · simp at h

/-- `index(k)` of a resolved position is what `find_index` returns for the offset into node `k` -/
theorem resolve_foundIndex {doc : Node} {pos : Nat} {r : RPos} (h : doc.resolve pos = some r)
    (k : Nat) (hk : k ≤ r.depth) :
    FoundIndex (r.node k).kids (pos - r.start k) (r.index k) := by
  have R := resolve_resolved h
  have E := R.entry k hk
  have h1 := E.pos_eq; have h2 := E.pos_le
  have hidx : (r.entry k).index = r.index k := rfl
  have hnode : (r.entry k).node = r.node k := rfl
  rw [hidx, hnode] at h1
  refine ⟨E.idx_le, by omega, fun j hj => ?_, ?_⟩
  · have := resolve_min h k hk j hj; omega
  · rcases Nat.lt_or_ge k r.depth with hlt | hge
    · right
      obtain ⟨c1, c2⟩ := R.chain k hlt
      refine ⟨_, c1, ?_⟩
      have E' := R.entry (k + 1) (by omega)
      have := E'.le_end
      rw [Resolved.start_succ] at this
      have hn : (r.entry (k + 1)).node = r.node (k + 1) := rfl
      rw [hn] at this
      omega
    · have hkd : k = r.depth := by omega
      subst hkd
      rcases R.last with hl | ⟨s, m, hs, hlt⟩
      · left; omega
      · right
        exact ⟨_, hs, by simp only [Node.size_text]; omega⟩

/-- unless the position is at a child boundary of its own parent, child `index(k)` is entered: it
    starts strictly before the position and ends strictly after it -/
theorem resolve_entered {doc : Node} {pos : Nat} {r : RPos} (h : doc.resolve pos = some r)
    (k : Nat) (hk : k ≤ r.depth) (hne : ¬ (k = r.depth ∧ r.textOffset = 0)) :
    ∃ c, (r.node k).kids[r.index k]? = some c ∧ (r.entry k).pos < pos ∧ pos < (r.entry k).pos + c.size := by
  have R := resolve_resolved h
  rcases Nat.lt_or_ge k r.depth with hlt | hge
  · obtain ⟨c1, c2⟩ := R.chain k hlt
    refine ⟨_, c1, ?_, ?_⟩
    · have E' := R.entry (k + 1) (by omega)
      have h1 := E'.pos_eq; have h2 := E'.pos_le
      rw [Resolved.start_succ] at h1
      omega
    · have E' := R.entry (k + 1) (by omega)
      have := E'.le_end
      rw [Resolved.start_succ] at this
      have hn : (r.entry (k + 1)).node = r.node (k + 1) := rfl
      rw [hn] at this
      omega
  · have hkd : k = r.depth := by omega
    subst hkd
    have hto : r.textOffset ≠ 0 := fun h0 => hne ⟨rfl, h0⟩
    simp only [RPos.textOffset, R.pos_eq] at hto
    rcases R.last with hl | ⟨s, m, hs, hlt⟩
    · omega
    · exact ⟨_, hs, by omega, by simp only [Node.size_text]; omega⟩

theorem countP_range_threshold (P : Nat → Bool) : ∀ (n a : Nat), a ≤ n →
    (∀ j, j < a → P j = true) → (∀ j, a ≤ j → j < n → P j = false) →
    (List.range n).countP P = a
  | 0, a, han, _, _ => by simp; omega
  | n + 1, a, han, h1, h2 => by
    rw [List.range_succ, List.countP_append]
    rcases Nat.lt_or_ge n a with hlt | hge
    · have ha : a = n + 1 := by omega
      subst ha
      have := countP_range_threshold P n n (Nat.le_refl _) (fun j hj => h1 j (by omega))
        (fun j hj hj' => by omega)
      rw [this]; simp [h1 n (by omega)]
    · have := countP_range_threshold P n a hge h1 (fun j hj hj' => h2 j hj (by omega))
      rw [this]; simp [h2 n hge (by omega)]

end PM
