/-
  Proofs/SepSpec.lean — `text_between` with a block separator and leaf text, exactly:
  `sepSpec` is a specification by recursion on the child list (relative offsets, like
  `textBetween`; no visited-node list, no callback fold), and `tbFold_exact` shows the model's
  fold of `tbStep` over `nodesBetween` computes it.  Helper for Props/C09.lean.
-/
import PM.Resolve
import Proofs.Toks
import Proofs.Resolve
import Proofs.Range
namespace PM

/-- **specification of `text_between(from, to, sep, leaf_text)`** below a child list, offsets relative
    to the list.  `b` = "separated": no text or leaf has contributed since the last separator (or
    since the start).  Result: the units contributed by the list and the flag after it.
    * a text child overlapping the range contributes its units inside the range; a leaf child its
      leaf text; either clears the flag (unless the separator is empty: then the flag stays set and
      no separator is ever due);
    * an element child overlapping the range contributes the separator — only if it is a block
      (not inline) and the flag is clear, which sets the flag — followed by what its own children
      contribute in the range clipped to its content. -/
def sepSpec (S : Schema) (sep : List Nat) (leafText : Node → List Nat) :
    List Node → Nat → Nat → Bool → List Nat × Bool
  | [], _, _, b => ([], b)
  | n :: ns, f, t, b =>
    if t = 0 then ([], b)
    else
      let here : List Nat × Bool :=
        if f < n.size then
          match n with
          | .text s _ => ((s.take t).drop f, sep.isEmpty)
          | .leaf .. => (leafText n, sep.isEmpty)
          | .elem ty _ _ kids =>
            let emit := !b && !(S.nodeType ty).isInline
            let inner := sepSpec S sep leafText kids (f - 1) (min (fsize kids) (t - 1)) (b || emit)
            ((if emit then sep else []) ++ inner.1, inner.2)
        else ([], b)
      let rest := sepSpec S sep leafText ns (f - n.size) (t - n.size) here.2
      (here.1 ++ rest.1, rest.2)

theorem sepSpec_zero (S : Schema) (sep : List Nat) (lt : Node → List Nat) (kids : List Node) (f : Nat) (b : Bool) :
    sepSpec S sep lt kids f 0 b = ([], b) := by
  cases kids with
  | nil => unfold sepSpec; rfl
  | cons n ns => unfold sepSpec; simp

theorem sepSpec_cons (S : Schema) (sep : List Nat) (lt : Node → List Nat) (n : Node) (ns : List Node)
    (f t : Nat) (b : Bool) (ht0 : t ≠ 0) :
    sepSpec S sep lt (n :: ns) f t b =
      let here : List Nat × Bool :=
        if f < n.size then
          match n with
          | .text s _ => ((s.take t).drop f, sep.isEmpty)
          | .leaf .. => (lt n, sep.isEmpty)
          | .elem ty _ _ kids =>
            let emit := !b && !(S.nodeType ty).isInline
            let inner := sepSpec S sep lt kids (f - 1) (min (fsize kids) (t - 1)) (b || emit)
            ((if emit then sep else []) ++ inner.1, inner.2)
        else ([], b)
      let rest := sepSpec S sep lt ns (f - n.size) (t - n.size) here.2
      (here.1 ++ rest.1, rest.2) := by
  conv => lhs; unfold sepSpec
  rw [if_neg ht0]

theorem tbStep_elem (S : Schema) (F T : Nat) (sep : List Nat) (lt : Node → List Nat) (acc : List Nat)
    (b : Bool) (ty : TypeId) (a : Attrs) (m : Marks) (k : List Node) (p i : Nat) :
    tbStep S F T sep lt (acc, b) (.elem ty a m k, p, i) =
      (acc ++ (if (!b && !(S.nodeType ty).isInline) then sep else []),
        b || (!b && !(S.nodeType ty).isInline)) := by
  simp only [tbStep]
  cases b <;> cases (S.nodeType ty).isInline <;> simp

/-- the fold of the callback over the visited nodes computes `sepSpec`; `F`, `T` are the arguments
    of the outer call, `f`, `t`, `start` those of the current level -/
theorem tbFold_exact (S : Schema) (F T : Nat) (sep : List Nat) (lt : Node → List Nat) :
    ∀ (kids : List Node) (f t start i : Nat) (acc : List Nat) (b : Bool),
    f = F - start → min (T - start) (fsize kids) = min t (fsize kids) →
    (nodesBetween kids f t start i).foldl (tbStep S F T sep lt) (acc, b) =
      (acc ++ (sepSpec S sep lt kids f t b).1, (sepSpec S sep lt kids f t b).2)
  | [], f, t, start, i, acc, b, _, _ => by simp [nodesBetween, sepSpec]
  | .text s m :: ns, f, t, start, i, acc, b, hf, ht => by
    rcases Nat.eq_zero_or_pos t with h0 | h0
    · subst h0; simp [nodesBetween_cons, sepSpec_zero]
    · have ht0 : t ≠ 0 := by omega
      rw [nodesBetween_cons, if_neg ht0, sepSpec_cons _ _ _ _ _ _ _ _ ht0, List.foldl_append]
      simp only [fsize_cons, Node.size_text] at ht
      have ih := fun acc' b' => tbFold_exact S F T sep lt ns (f - s.length) (t - s.length)
        (start + s.length) (i + 1) acc' b' (by omega) (by omega)
      simp only [Node.size_text]
      split
      · simp only [List.foldl_cons, List.foldl_nil, tbStep]
        rw [ih, List.append_assoc, show max F start - start = f by omega,
          take_agree s (T - start) t (s.length + fsize ns) ht (by omega)]
      · simp only [List.foldl_nil]
        rw [ih]; simp
  | .leaf ty a m :: ns, f, t, start, i, acc, b, hf, ht => by
    rcases Nat.eq_zero_or_pos t with h0 | h0
    · subst h0; simp [nodesBetween_cons, sepSpec_zero]
    · have ht0 : t ≠ 0 := by omega
      rw [nodesBetween_cons, if_neg ht0, sepSpec_cons _ _ _ _ _ _ _ _ ht0, List.foldl_append]
      simp only [fsize_cons, Node.size_leaf] at ht
      have ih := fun acc' b' => tbFold_exact S F T sep lt ns (f - 1) (t - 1) (start + 1) (i + 1) acc' b'
        (by omega) (by omega)
      simp only [Node.size_leaf]
      split
      · simp only [List.foldl_cons, List.foldl_nil, tbStep]
        rw [ih, List.append_assoc]
      · simp only [List.foldl_nil]
        rw [ih]; simp
  | .elem ty a m kids :: ns, f, t, start, i, acc, b, hf, ht => by
    rcases Nat.eq_zero_or_pos t with h0 | h0
    · subst h0; simp [nodesBetween_cons, sepSpec_zero]
    · have ht0 : t ≠ 0 := by omega
      rw [nodesBetween_cons, if_neg ht0, sepSpec_cons _ _ _ _ _ _ _ _ ht0, List.foldl_append]
      simp only [fsize_cons, Node.size_elem] at ht
      have ih := fun acc' b' => tbFold_exact S F T sep lt ns (f - (2 + fsize kids)) (t - (2 + fsize kids))
        (start + (2 + fsize kids)) (i + 1) acc' b' (by omega) (by omega)
      simp only [Node.size_elem]
      split
      · simp only [List.foldl_cons, tbStep_elem]
        by_cases hk : fsize kids = 0
        · rw [if_pos hk, List.foldl_nil, ih]
          have hz : min (fsize kids) (t - 1) = 0 := by omega
          rw [hz, sepSpec_zero]; simp
        · have ihk := fun acc' b' => tbFold_exact S F T sep lt kids (f - 1) (min (fsize kids) (t - 1))
            (start + 1) 0 acc' b' (by omega) (by omega)
          rw [if_neg hk, ihk, ih]; simp
      · simp only [List.foldl_nil]
        rw [ih]; simp

/-! ### closed form for a list of blocks that hold only text, whole range -/

/-- the units of the text children of a child list -/
def textUnits : List Node → List Nat
  | [] => []
  | .text s _ :: r => s ++ textUnits r
  | _ :: r => textUnits r

/-- the text of the blocks, each non-empty block except the last block followed by one separator -/
def joinBlocks (sep : List Nat) : List Node → List Nat
  | [] => []
  | [b] => textUnits b.kids
  | b :: b' :: r =>
    textUnits b.kids ++ (if textUnits b.kids = [] then [] else sep) ++ joinBlocks sep (b' :: r)

/-- every node of the list is a block element whose children are non-empty text nodes -/
def TextBlocks (S : Schema) (blocks : List Node) : Prop :=
  ∀ n ∈ blocks, ∃ ty a m ks, n = .elem ty a m ks ∧ (S.nodeType ty).isInline = false ∧
    ∀ c ∈ ks, ∃ s mk, c = Node.text s mk ∧ s ≠ []

theorem sepSpec_texts (S : Schema) (sep : List Nat) (lt : Node → List Nat) :
    ∀ (ks : List Node), (∀ c ∈ ks, ∃ s mk, c = Node.text s mk ∧ s ≠ []) →
    ∀ (t : Nat) (b : Bool), fsize ks ≤ t →
    sepSpec S sep lt ks 0 t b = (textUnits ks, if ks = [] then b else sep.isEmpty)
  | [], _, t, b, _ => by simp [sepSpec, textUnits]
  | c :: r, hks, t, b, ht => by
    obtain ⟨s, mk, rfl, hs⟩ := hks c (by simp)
    have hl : 0 < s.length := List.length_pos_iff.mpr hs
    simp only [fsize_cons, Node.size_text] at ht
    rw [sepSpec_cons _ _ _ _ _ _ _ _ (by omega)]
    have ih := sepSpec_texts S sep lt r (fun c hc => hks c (by simp [hc])) (t - s.length) sep.isEmpty (by omega)
    simp only [Node.size_text, hl, if_true, Nat.zero_sub, List.drop_zero, ih, textUnits]
    rw [List.take_of_length_le (by omega)]
    simp

theorem textUnits_ne_nil (ks : List Node) (hks : ∀ c ∈ ks, ∃ s mk, c = Node.text s mk ∧ s ≠ [])
    (h : ks ≠ []) : textUnits ks ≠ [] := by
  cases ks with
  | nil => exact (h rfl).elim
  | cons c r =>
    obtain ⟨s, mk, rfl, hs⟩ := hks c (by simp)
    simp [textUnits, hs]

theorem sepSpec_blocks (S : Schema) (sep : List Nat) (lt : Node → List Nat) :
    ∀ (blocks : List Node), TextBlocks S blocks → ∀ (t : Nat) (b : Bool), fsize blocks ≤ t →
    (sepSpec S sep lt blocks 0 t b).1 =
      (if !b && !blocks.isEmpty then sep else []) ++ joinBlocks sep blocks
  | [], _, t, b, _ => by simp [sepSpec, joinBlocks]
  | n :: rest, hB, t, b, ht => by
    obtain ⟨ty, a, m, ks, rfl, hblk, hks⟩ := hB n (by simp)
    simp only [fsize_cons, Node.size_elem] at ht
    rw [sepSpec_cons _ _ _ _ _ _ _ _ (by omega)]
    have hin := sepSpec_texts S sep lt ks hks (min (fsize ks) (t - 1)) true (by omega)
    have ih := fun b' => sepSpec_blocks S sep lt rest (fun n hn => hB n (by simp [hn]))
      (t - (2 + fsize ks)) b' (by omega)
    have hflag : (b || !b) = true := by cases b <;> rfl
    simp only [Node.size_elem, show 0 < 2 + fsize ks by omega, if_true, hblk, Nat.zero_sub,
      Bool.not_false, Bool.and_true, hflag, hin, ih, List.isEmpty_cons]
    cases rest with
    | nil => simp [joinBlocks, Node.kids]
    | cons b' r =>
      simp only [joinBlocks, Node.kids, List.isEmpty_cons, Bool.not_false, Bool.and_true,
        List.append_assoc, List.append_cancel_left_eq]
      by_cases hk : ks = []
      · subst hk; cases b <;> simp [textUnits]
      · have := textUnits_ne_nil ks hks hk
        simp only [hk, if_false, this]
        cases hse : sep.isEmpty with
        | true => simp [List.isEmpty_iff.mp hse]
        | false => simp

end PM
