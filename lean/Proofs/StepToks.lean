/-
  Proofs/StepToks.lean — token-level semantics of the step kinds: what each step does to the flat
  token sequence when it applies (shared by C03, C04, C13, C16, C17).
-/
import PM.Step
import Proofs.Toks
import Proofs.TokCore
import Proofs.ReplaceToks
import Proofs.Resolve
import Proofs.StepValid
import Proofs.FlatInsertCore
namespace PM

/-! ### specification vocabulary -/

def Tok.marks : Tok → Marks
  | .op _ _ m => m
  | .cl => []
  | .leaf _ _ m => m
  | .unit _ m => m

def Tok.withMarks (m : Marks) : Tok → Tok
  | .op t a _ => .op t a m
  | .cl => .cl
  | .leaf t a _ => .leaf t a m
  | .unit u _ => .unit u m

/-- a token with marks and attributes erased: the *structure and text* of the document -/
inductive Shape where
  | op (ty : TypeId) | cl | leaf (ty : TypeId) | unit (cu : Nat)
deriving DecidableEq, Repr

def Tok.shape : Tok → Shape
  | .op t _ _ => .op t
  | .cl => .cl
  | .leaf t _ _ => .leaf t
  | .unit u _ => .unit u

/-- for every token, the type of the element it lies directly in (`top` at the top level);
    for an open token: the type of the parent of the node it opens -/
def ctxAux : List TypeId → List Tok → List TypeId
  | _, [] => []
  | st, .op t _ _ :: r => st.headD 0 :: ctxAux (t :: st) r
  | st, .cl :: r => st.headD 0 :: ctxAux st.tail r
  | st, _ :: r => st.headD 0 :: ctxAux st r

def ctxOf (top : TypeId) (l : List Tok) : List TypeId := ctxAux [top] l

/-- the token starts an inline atom (text unit, inline leaf, inline atom element): what AddMarkStep marks -/
def isAtomTok (S : Schema) : Tok → Bool
  | .unit .. => true
  | .leaf t _ _ => (S.nodeType t).isInline
  | .op t _ _ => (S.nodeType t).isInline && (S.nodeType t).isAtom
  | .cl => false

/-- the token starts an inline node: what RemoveMarkStep touches -/
def isInlineTok (S : Schema) : Tok → Bool
  | .unit .. => true
  | .leaf t _ _ => (S.nodeType t).isInline
  | .op t _ _ => (S.nodeType t).isInline
  | .cl => false

/-- pointwise map over tokens with their index and context -/
def mapIdxCtx (g : Nat → TypeId → Tok → Tok) (top : TypeId) (l : List Tok) : List Tok :=
  (List.range l.length).map (fun i => g i ((ctxOf top l).getD i 0) (l.getD i Tok.cl))

/-- AddMarkStep on tokens: inline atoms in `[f, t)` whose enclosing node allows the mark type get
    `addToSet`; nothing else changes -/
def addMarkToks (S : Schema) (m : Mark) (f t : Nat) (top : TypeId) (l : List Tok) : List Tok :=
  mapIdxCtx (fun i p tok =>
    if f ≤ i ∧ i < t ∧ isAtomTok S tok = true ∧ (S.nodeType p).allowsMarkType m.ty = true
    then tok.withMarks (m.addToSet S tok.marks) else tok) top l

/-- RemoveMarkStep on tokens: inline nodes starting in `[f, t)` lose the mark; nothing else changes -/
def removeMarkToks (S : Schema) (m : Mark) (f t : Nat) (top : TypeId) (l : List Tok) : List Tok :=
  mapIdxCtx (fun i _ tok =>
    if f ≤ i ∧ i < t ∧ isInlineTok S tok = true then tok.withMarks (m.removeFromSet tok.marks) else tok) top l

/-! ### shape of the mark maps, doc-attr step -/

theorem range_map_getD {α β} (l : List α) (d : α) (f : α → β) :
    (List.range l.length).map (fun i => f (l.getD i d)) = l.map f := by
  apply List.ext_getElem
  · simp
  · intro i h1 h2
    simp at h1
    simp [List.getD_eq_getElem?_getD, h1]

theorem mapIdxCtx_shape (g : Nat → TypeId → Tok → Tok) (top : TypeId) (l : List Tok)
    (hg : ∀ i p tok, (g i p tok).shape = tok.shape) :
    (mapIdxCtx g top l).map Tok.shape = l.map Tok.shape := by
  unfold mapIdxCtx
  rw [List.map_map]
  rw [← range_map_getD l Tok.cl Tok.shape]
  apply List.map_congr_left
  intro i _
  simp [hg]

theorem Tok.withMarks_shape (m : Marks) (tok : Tok) : (tok.withMarks m).shape = tok.shape := by
  cases tok <;> rfl

/-- mark steps keep the structure and text -/
theorem addMarkToks_shape (S : Schema) (m : Mark) (f t : Nat) (top : TypeId) (l : List Tok) :
    (addMarkToks S m f t top l).map Tok.shape = l.map Tok.shape := by
  unfold addMarkToks
  apply mapIdxCtx_shape
  intro i p tok
  split
  · exact Tok.withMarks_shape _ _
  · rfl

theorem removeMarkToks_shape (S : Schema) (m : Mark) (f t : Nat) (top : TypeId) (l : List Tok) :
    (removeMarkToks S m f t top l).map Tok.shape = l.map Tok.shape := by
  unfold removeMarkToks
  apply mapIdxCtx_shape
  intro i p tok
  split
  · exact Tok.withMarks_shape _ _
  · rfl

/-- **doc-attribute step**: content untouched -/
theorem apply_docAttr_toks (S : Schema) (doc doc' : Node) (n v : String)
    (h : S.apply (.docAttr n v) doc = .ok doc') : doc'.kids = doc.kids := by
  unfold Schema.apply at h
  cases doc with
  | text s m => simp at h
  | leaf t a m => simp at h
  | elem t a m kids =>
    simp only at h
    cases hc : computeAttrs (S.nodeType t).attrs (List.filter (fun x => x.fst != n) a ++ [(n, v)]) with
    | error e => rw [hc] at h; simp [Except.map] at h
    | ok a' => rw [hc] at h; simp [Except.map] at h; subst h; rfl

/-! ### insert_into / remove_range on tokens -/

theorem flatInsert_toks (S : Schema) (ins : List Node) (parent : Option TypeId) (level : List Node)
    (d idx : Nat) (c : List Node) (hd : d ≤ fsize level) (h0 : depthAt level d = 0)
    (h : flatInsert S ins parent level d idx = .ok (some c)) :
    ftoks c = (ftoks level).take d ++ ftoks ins ++ (ftoks level).drop d := by
  obtain ⟨l, r, hl, hr, rfl⟩ := flatInsert_ok_cuts h
  rw [fappend_toks, fappend_toks, fcut_prefix_toks hl hd h0, fcut_suffix_toks hr h0]

theorem insertInto_toks_aux (S : Schema) (ins : List Node) :
    ∀ (rest : List Node) (parent : Option TypeId) (level : List Node) (d0 idx d oa ob : Nat)
      (pre c : List Node), level = pre ++ rest → idx = pre.length → d0 = fsize pre + d →
      insertInto S ins parent level d0 idx rest d oa ob = .ok (some c) →
      ftoks c = (ftoks level).take d0 ++ ftoks ins ++ (ftoks level).drop d0 ∧ d0 ≤ fsize level
  | [], parent, level, d0, idx, d, oa, ob, pre, c, hl, hi, hd0, h => by
    unfold insertInto at h
    split at h
    · rename_i hd; subst hd
      have hle : d0 ≤ fsize level := by rw [hl, fsize_append]; simp; omega
      have h0 : depthAt level d0 = 0 := by rw [hl, hd0, depthAt_append_pre]; simp
      exact ⟨flatInsert_toks S ins parent level d0 idx c hle h0 h, hle⟩
    · simp at h
  | n :: ns, parent, level, d0, idx, d, oa, ob, pre, c, hl, hi, hd0, h => by
    have hlsz : fsize level = fsize pre + (n.size + fsize ns) := by rw [hl, fsize_append]; simp
    unfold insertInto at h
    split at h
    · rename_i hd; subst hd
      have hle : d0 ≤ fsize level := by omega
      have h0 : depthAt level d0 = 0 := by rw [hl, hd0, depthAt_append_pre]; simp
      exact ⟨flatInsert_toks S ins parent level d0 idx c hle h0 h, hle⟩
    · rename_i hd
      split at h
      · rename_i hle
        refine insertInto_toks_aux S ins ns parent level d0 (idx + 1) (d - n.size) oa ob (pre ++ [n]) c
          ?_ ?_ ?_ h
        · simp [hl]
        · simp [hi]
        · rw [fsize_append]; simp; omega
      · rename_i hlt
        have hflat : (∀ ty a m k, n ≠ .elem ty a m k) →
            flatInsert S ins parent level d0 idx = .ok (some c) →
            ftoks c = (ftoks level).take d0 ++ ftoks ins ++ (ftoks level).drop d0 ∧ d0 ≤ fsize level := by
          intro hne hf
          have hle : d0 ≤ fsize level := by omega
          have h0 : depthAt level d0 = 0 := by
            rw [hl, hd0, depthAt_append_pre]
            exact depthAt_nonelem_cons n ns d (by omega) hne
          exact ⟨flatInsert_toks S ins parent level d0 idx c hle h0 hf, hle⟩
        split at h
        · rename_i ty a m kids
          simp only [Node.size_elem, Nat.not_le] at hlt
          simp only [Node.size_elem] at hlsz
          simp only at h
          split at h
          · rename_i inner hin
            simp at h; subst h
            have ih := insertInto_toks_aux S ins kids _ kids (d - 1) 0 (d - 1) _ _ [] inner rfl rfl
              (by simp) hin
            subst hl; subst hi; subst hd0
            refine ⟨?_, by omega⟩
            rw [set_mid, ftoks_append, ftoks_append, ftoks_cons, ftoks_cons,
              take_app_ge _ _ _ (by rw [ftoks_length]; omega),
              drop_app_ge _ _ _ (by rw [ftoks_length]; omega), ftoks_length,
              Nat.add_sub_cancel_left,
              take_elem_toks _ _ _ _ _ _ hd hlt,
              drop_elem_toks _ _ _ _ _ _ (by omega) (by omega)]
            simp [ih.1]
          · simp at h
          · simp at h
        · rename_i hne
          exact hflat (by intro ty a m k he; exact hne ty a m k he) h

/-- inserting at distance `d` (descending to the innermost node containing it) is a token insertion -/
theorem insertInto_toks (S : Schema) (ins : List Node) (parent : Option TypeId) (level : List Node)
    (d oa ob : Nat) (c : List Node)
    (h : insertInto S ins parent level d 0 level d oa ob = .ok (some c)) :
    ftoks c = (ftoks level).take d ++ ftoks ins ++ (ftoks level).drop d ∧ d ≤ fsize level :=
  insertInto_toks_aux S ins level parent level d 0 d oa ob [] c rfl rfl (by simp) h

theorem split3 {α} (L : List α) (a e : Nat) (h : a + e ≤ L.length) :
    ∃ A M D, L = A ++ M ++ D ∧ A.length = a ∧ D.length = e := by
  refine ⟨L.take a, (L.drop a).take (L.length - a - e), (L.drop a).drop (L.length - a - e), ?_, ?_, ?_⟩
  · rw [List.append_assoc, List.take_append_drop, List.take_append_drop]
  · simp; omega
  · simp; omega

theorem split2 {α} (L : List α) (a : Nat) (h : a ≤ L.length) :
    ∃ A B, L = A ++ B ∧ A.length = a :=
  ⟨L.take a, L.drop a, by simp, by simp; omega⟩

/-- inserting into the content at `p + a` is inserting into the window at `p` -/
theorem insert_window {α} (L F : List α) (a p e : Nat) (h : a + p + e ≤ L.length) :
    ((L.take (p + a) ++ F ++ L.drop (p + a)).drop a).take (L.length + F.length - a - e) =
    ((L.drop a).take (L.length - a - e)).take p ++ F ++ ((L.drop a).take (L.length - a - e)).drop p := by
  obtain ⟨A, M, D, rfl, ha, he⟩ := split3 L a e (by omega)
  obtain ⟨B, C, rfl, hb⟩ := split2 M p (by simp at h; omega)
  have e1 : (A ++ (B ++ C) ++ D).take (p + a) = A ++ B := by
    rw [show A ++ (B ++ C) ++ D = (A ++ B) ++ (C ++ D) by simp]
    exact List.take_left' (by simp; omega)
  have e2 : (A ++ (B ++ C) ++ D).drop (p + a) = C ++ D := by
    rw [show A ++ (B ++ C) ++ D = (A ++ B) ++ (C ++ D) by simp]
    exact List.drop_left' (by simp; omega)
  have e3 : (A ++ (B ++ C) ++ D).drop a = B ++ C ++ D := by
    rw [show A ++ (B ++ C) ++ D = A ++ (B ++ C ++ D) by simp]
    exact List.drop_left' ha
  rw [e1, e2, e3]
  rw [show A ++ B ++ F ++ (C ++ D) = A ++ (B ++ F ++ C ++ D) by simp, List.drop_left' ha]
  rw [show B ++ F ++ C ++ D = (B ++ F ++ C) ++ D by simp, List.take_left' (by simp; omega)]
  rw [List.take_left' (by simp; omega), List.take_left' hb, List.drop_left' hb]

theorem remove_window {α} (L : List α) (a f t e : Nat) (hft : f ≤ t) (h : a + t + e ≤ L.length) :
    ((L.take (f + a) ++ L.drop (t + a)).drop a).take (L.length - (t - f) - a - e) =
    ((L.drop a).take (L.length - a - e)).take f ++ ((L.drop a).take (L.length - a - e)).drop t := by
  obtain ⟨A, M, D, rfl, ha, he⟩ := split3 L a e (by omega)
  obtain ⟨B, C', rfl, hb⟩ := split2 M f (by simp at h; omega)
  obtain ⟨X, C, rfl, hx⟩ := split2 C' (t - f) (by simp at h; omega)
  have e1 : (A ++ (B ++ (X ++ C)) ++ D).take (f + a) = A ++ B := by
    rw [show A ++ (B ++ (X ++ C)) ++ D = (A ++ B) ++ (X ++ C ++ D) by simp]
    exact List.take_left' (by simp; omega)
  have e2 : (A ++ (B ++ (X ++ C)) ++ D).drop (t + a) = C ++ D := by
    rw [show A ++ (B ++ (X ++ C)) ++ D = (A ++ B ++ X) ++ (C ++ D) by simp]
    exact List.drop_left' (by simp; omega)
  have e3 : (A ++ (B ++ (X ++ C)) ++ D).drop a = B ++ (X ++ C) ++ D := by
    rw [show A ++ (B ++ (X ++ C)) ++ D = A ++ (B ++ (X ++ C) ++ D) by simp]
    exact List.drop_left' ha
  rw [e1, e2, e3]
  rw [show A ++ B ++ (C ++ D) = A ++ (B ++ C ++ D) by simp, List.drop_left' ha]
  rw [show B ++ C ++ D = (B ++ C) ++ D by simp, List.take_left' (by simp; omega)]
  rw [List.take_left' (by simp; omega), List.take_left' hb]
  rw [show B ++ (X ++ C) = (B ++ X) ++ C by simp, List.drop_left' (by simp; omega)]

theorem wf_opens_le {sl : Slice} (hwf : sl.wf = true) : sl.openStart + sl.openEnd ≤ fsize sl.content := by
  simp only [Slice.wf, Bool.and_eq_true, decide_eq_true_eq] at hwf
  have := spine_sum_le sl.content
  omega

/-- `Slice.insert_at(pos, fragment)` inserts the fragment's tokens at offset `pos` of the slice's tokens -/
theorem insertAt_toks (S : Schema) (sl ins : Slice) (pos : Nat) (frag : List Node)
    (hwf : sl.wf = true) (hp : (pos : Int) ≤ sl.size)
    (h : sl.insertAt S pos frag = .ok (some ins)) :
    ins.toks = sl.toks.take pos ++ ftoks frag ++ sl.toks.drop pos ∧
    ins.openStart = sl.openStart ∧ ins.openEnd = sl.openEnd := by
  rw [insertAt_of_le (insertAt_ok h).1] at h
  unfold Slice.insertAtIn at h
  split at h
  · rename_i c hc
    simp at h; subst h
    obtain ⟨htk, hle⟩ := insertInto_toks S frag none sl.content _ _ _ c hc
    refine ⟨?_, rfl, rfl⟩
    have hw := wf_opens_le hwf
    simp only [Slice.size] at hp
    have hsz : fsize c = fsize sl.content + fsize frag := by
      have := congrArg List.length htk
      simp only [List.length_append, List.length_take, List.length_drop, ftoks_length] at this
      omega
    simp only [Slice.toks, htk, hsz]
    have := insert_window (ftoks sl.content) (ftoks frag) sl.openStart pos sl.openEnd
      (by rw [ftoks_length]; omega)
    simpa only [ftoks_length] using this
  · simp at h
  · simp at h

theorem flatAt_depth : ∀ (level : List Node) (t : Nat), flatAt level t = true → depthAt level t = 0
  | [], t, _ => by simp [depthAt]
  | n :: ns, t, h => by
    unfold flatAt at h
    rw [depthAt_cons]
    split
    · rfl
    · rename_i h0
      rw [if_neg h0] at h
      split
      · rename_i hle; rw [if_pos hle] at h; exact flatAt_depth ns _ h
      · rename_i hle; rw [if_neg hle] at h
        cases n with
        | elem ty a m k => simp [Node.isText] at h
        | text s m => rfl
        | leaf ty a m => rfl

theorem removeFlat_toks (level : List Node) (f t : Nat) (c : List Node) (hf : f ≤ fsize level)
    (h0 : depthAt level f = 0) (h : removeRange.removeFlat level f t = .ok c) :
    ftoks c = (ftoks level).take f ++ (ftoks level).drop t ∧ t ≤ fsize level := by
  unfold removeRange.removeFlat at h
  split at h
  · simp at h
  · rename_i hin
    simp only [inRange, Bool.not_eq_true', decide_eq_false_iff_not, Nat.not_le, Nat.not_lt] at hin
    split at h
    · simp at h
    · rename_i hfl
      simp only [Bool.not_eq_true', Bool.not_eq_false] at hfl
      split at h
      · rename_i l r hl hr
        simp at h; subst h
        rw [fappend_toks, fcut_prefix_toks hl hf h0, fcut_suffix_toks hr (flatAt_depth _ _ hfl)]
        exact ⟨rfl, hin⟩
      · simp at h
      · simp at h

theorem removeRange_toks :
    ∀ (rest : List Node) (level : List Node) (f0 t0 idx f t : Nat) (pre c : List Node),
      level = pre ++ rest → idx = pre.length → f0 = fsize pre + f → t0 = fsize pre + t → f ≤ t →
      removeRange level f0 t0 idx rest f t = .ok c →
      ftoks c = (ftoks level).take f0 ++ (ftoks level).drop t0 ∧ t0 ≤ fsize level
  | [], level, f0, t0, idx, f, t, pre, c, hl, hi, hf0, ht0, hft, h => by
    unfold removeRange at h
    split at h
    · rename_i hd; subst hd
      have hle : f0 ≤ fsize level := by rw [hl, fsize_append]; simp; omega
      have h0 : depthAt level f0 = 0 := by rw [hl, hf0, depthAt_append_pre]; simp
      exact removeFlat_toks level f0 t0 c hle h0 h
    · simp at h
  | n :: ns, level, f0, t0, idx, f, t, pre, c, hl, hi, hf0, ht0, hft, h => by
    have hlsz : fsize level = fsize pre + (n.size + fsize ns) := by rw [hl, fsize_append]; simp
    unfold removeRange at h
    split at h
    · rename_i hd; subst hd
      have hle : f0 ≤ fsize level := by omega
      have h0 : depthAt level f0 = 0 := by rw [hl, hf0, depthAt_append_pre]; simp
      exact removeFlat_toks level f0 t0 c hle h0 h
    · rename_i hd
      split at h
      · rename_i hle
        refine removeRange_toks ns level f0 t0 (idx + 1) (f - n.size) (t - n.size) (pre ++ [n]) c
          ?_ ?_ ?_ ?_ (by omega) h
        · simp [hl]
        · simp [hi]
        · rw [fsize_append]; simp; omega
        · rw [fsize_append]; simp; omega
      · rename_i hlt
        have hflat : (∀ ty a m k, n ≠ .elem ty a m k) →
            removeRange.removeFlat level f0 t0 = .ok c →
            ftoks c = (ftoks level).take f0 ++ (ftoks level).drop t0 ∧ t0 ≤ fsize level := by
          intro hne hf
          have hle : f0 ≤ fsize level := by omega
          have h0 : depthAt level f0 = 0 := by
            rw [hl, hf0, depthAt_append_pre]
            exact depthAt_nonelem_cons n ns f (by omega) hne
          exact removeFlat_toks level f0 t0 c hle h0 hf
        split at h
        · rename_i ty a m kids
          simp only [Node.size_elem, Nat.not_le] at hlt
          simp only [Node.size_elem] at hlsz
          split at h
          · rename_i htlt
            simp only [Node.size_elem] at htlt
            split at h
            · rename_i inner hin
              simp at h; subst h
              have ih := removeRange_toks kids kids (f - 1) (t - 1) 0 (f - 1) (t - 1) [] inner rfl rfl
                (by simp) (by simp) (by omega) hin
              subst hl; subst hi; subst hf0; subst ht0
              refine ⟨?_, by omega⟩
              rw [set_mid, ftoks_append, ftoks_append, ftoks_cons, ftoks_cons,
                take_app_ge _ _ _ (by rw [ftoks_length]; omega),
                drop_app_ge _ _ _ (by rw [ftoks_length]; omega), ftoks_length,
                Nat.add_sub_cancel_left, Nat.add_sub_cancel_left,
                take_elem_toks _ _ _ _ _ _ hd hlt,
                drop_elem_toks _ _ _ _ _ _ (by omega) (by omega)]
              simp [ih.1]
            · simp at h
          · simp at h
        · rename_i hne
          exact hflat (by intro ty a m k he; exact hne ty a m k he) h

/-- `Slice.remove_between(from, to)` removes the tokens in between -/
theorem removeBetween_toks (sl out : Slice) (f t : Nat) (hwf : sl.wf = true)
    (hft : f ≤ t) (ht : (t : Int) ≤ sl.size)
    (h : sl.removeBetween f t = .ok out) :
    out.toks = sl.toks.take f ++ sl.toks.drop t ∧
    out.openStart = sl.openStart ∧ out.openEnd = sl.openEnd := by
  unfold Slice.removeBetween at h
  simp only at h
  split at h
  · simp at h
  · split at h
    · rename_i c hc
      simp at h; subst h
      obtain ⟨htk, hle⟩ := removeRange_toks sl.content sl.content _ _ 0 _ _ [] c rfl rfl (by simp) (by simp)
        (by omega) hc
      refine ⟨?_, rfl, rfl⟩
      have hw := wf_opens_le hwf
      simp only [Slice.size] at ht
      have hsz : fsize c = fsize sl.content - (t - f) := by
        have := congrArg List.length htk
        simp only [List.length_append, List.length_take, List.length_drop, ftoks_length] at this
        omega
      simp only [Slice.toks, htk, hsz]
      have := remove_window (ftoks sl.content) sl.openStart f t sl.openEnd hft
        (by rw [ftoks_length]; omega)
      simpa only [ftoks_length] using this
    · simp at h

/-! ### apply on tokens -/

theorem fromReplace_toks (S : Schema) (doc doc' : Node) (f t : Nat) (sl : Slice)
    (h : S.fromReplace doc f t sl = .ok doc') :
    ftoks doc'.kids = (ftoks doc.kids).take f ++ sl.toks ++ (ftoks doc.kids).drop t ∧
    f ≤ t ∧ t ≤ fsize doc.kids ∧ sl.wf = true ∧ doc'.sameMarkup doc = true := by
  unfold Schema.fromReplace Schema.replace at h
  cases doc with
  | text s m => simp at h
  | leaf ty a m => simp at h
  | elem ty a m kids =>
    simp only at h
    cases hr : replaceKids S ty kids f t sl with
    | error e => rw [hr] at h; simp [Except.map] at h
    | ok k' =>
      rw [hr] at h; simp [Except.map] at h; subst h
      obtain ⟨h1, h2, h3⟩ := replaceKids_guards S ty kids f t sl k' hr
      exact ⟨replaceKids_toks S ty kids f t sl k' hr, h1, h2, h3, by simp [Node.sameMarkup]⟩

/-- **replace step** -/
theorem apply_replace_toks (S : Schema) (doc doc' : Node) (f t : Nat) (sl : Slice) (st : Bool)
    (h : S.apply (.replace f t sl st) doc = .ok doc') :
    ftoks doc'.kids = (ftoks doc.kids).take f ++ sl.toks ++ (ftoks doc.kids).drop t ∧
    f ≤ t ∧ t ≤ fsize doc.kids ∧ doc'.sameMarkup doc = true := by
  have key : S.fromReplace doc f t sl = .ok doc' := by
    unfold Schema.apply at h
    simp only at h
    split at h
    · split at h
      · simp at h
      · simp at h
      · exact h
    · exact h
  obtain ⟨h1, h2, h3, _, h5⟩ := fromReplace_toks S doc doc' f t sl key
  exact ⟨h1, h2, h3, h5⟩

theorem Slice.toks_closed (c : List Node) : (Slice.mk c 0 0).toks = ftoks c := by
  simp [Slice.toks, ← ftoks_length]

/-- **replace-around step**: the gap is kept, the slice is placed around it -/
theorem apply_replaceAround_toks (S : Schema) (doc doc' : Node) (f t gf gt : Nat) (sl : Slice)
    (ins : Nat) (st : Bool) (hwf : sl.wf = true) (hins : (ins : Int) ≤ sl.size)
    (hg : f ≤ gf ∧ gf ≤ gt ∧ gt ≤ t)
    (h : S.apply (.replaceAround f t gf gt sl ins st) doc = .ok doc') :
    ftoks doc'.kids = (ftoks doc.kids).take f ++ sl.toks.take ins
        ++ ((ftoks doc.kids).drop gf).take (gt - gf) ++ sl.toks.drop ins ++ (ftoks doc.kids).drop t ∧
    t ≤ fsize doc.kids ∧ doc'.sameMarkup doc = true := by
  unfold Schema.apply at h
  simp only at h
  split at h
  · simp at h
  · split at h
    · simp at h
    · rename_i gap hgap
      split at h
      · simp at h
      · rename_i hopen
        simp only [ne_eq, Bool.or_eq_true, decide_eq_true_eq, not_or, Decidable.not_not] at hopen
        split at h
        · simp at h
        · simp at h
        · rename_i inserted hinst
          obtain ⟨h1, h2, h3, _, h5⟩ := fromReplace_toks S doc doc' f t inserted h
          obtain ⟨i1, _, _⟩ := insertAt_toks S sl inserted ins gap.content hwf hins hinst
          have hgt : ftoks gap.content = ((ftoks doc.kids).drop gf).take (gt - gf) := by
            have : gap = ⟨gap.content, 0, 0⟩ := by
              cases gap; simp at hopen; simp [hopen.1, hopen.2]
            rw [← Slice.toks_closed, ← this]
            exact sliceKids_toks doc.kids gf gt gap hg.2.1 (by omega) hgap
          refine ⟨?_, h3, h5⟩
          rw [h1, i1, hgt]; simp

/-! ### mark steps -/

/-! ### contexts: the stack of enclosing types -/

/-- the stack of enclosing element types after reading a token list -/
def stackAfter : List TypeId → List Tok → List TypeId
  | st, [] => st
  | st, .op t _ _ :: r => stackAfter (t :: st) r
  | st, .cl :: r => stackAfter st.tail r
  | st, .leaf .. :: r => stackAfter st r
  | st, .unit .. :: r => stackAfter st r

theorem ctxAux_length : ∀ (l : List Tok) (st : List TypeId), (ctxAux st l).length = l.length
  | [], st => by simp [ctxAux]
  | .op .. :: r, st => by simp [ctxAux, ctxAux_length r]
  | .cl :: r, st => by simp [ctxAux, ctxAux_length r]
  | .leaf .. :: r, st => by simp [ctxAux, ctxAux_length r]
  | .unit .. :: r, st => by simp [ctxAux, ctxAux_length r]

theorem ctxAux_append : ∀ (a b : List Tok) (st : List TypeId),
    ctxAux st (a ++ b) = ctxAux st a ++ ctxAux (stackAfter st a) b
  | [], b, st => by simp [ctxAux, stackAfter]
  | .op .. :: r, b, st => by simp [ctxAux, stackAfter, ctxAux_append r]
  | .cl :: r, b, st => by simp [ctxAux, stackAfter, ctxAux_append r]
  | .leaf .. :: r, b, st => by simp [ctxAux, stackAfter, ctxAux_append r]
  | .unit .. :: r, b, st => by simp [ctxAux, stackAfter, ctxAux_append r]

theorem stackAfter_append : ∀ (a b : List Tok) (st : List TypeId),
    stackAfter st (a ++ b) = stackAfter (stackAfter st a) b
  | [], b, st => by simp [stackAfter]
  | .op .. :: r, b, st => by simp [stackAfter, stackAfter_append r]
  | .cl :: r, b, st => by simp [stackAfter, stackAfter_append r]
  | .leaf .. :: r, b, st => by simp [stackAfter, stackAfter_append r]
  | .unit .. :: r, b, st => by simp [stackAfter, stackAfter_append r]

theorem stackAfter_units (s : List Nat) (m : Marks) (st : List TypeId) :
    stackAfter st (s.map (Tok.unit · m)) = st := by
  induction s with
  | nil => simp [stackAfter]
  | cons c s ih => simp [stackAfter, ih]

mutual
theorem Node.stackAfter_toks : ∀ (n : Node) (st : List TypeId), stackAfter st n.toks = st
  | .text s m, st => by rw [Node.toks_text]; exact stackAfter_units s m st
  | .leaf t a m, st => by simp [stackAfter]
  | .elem t a m kids, st => by
    rw [Node.toks_elem]
    simp only [stackAfter]
    rw [stackAfter_append, stackAfter_ftoks kids]
    simp [stackAfter]
theorem stackAfter_ftoks : ∀ (l : List Node) (st : List TypeId), stackAfter st (ftoks l) = st
  | [], st => by simp [stackAfter]
  | n :: ns, st => by
    rw [ftoks_cons, stackAfter_append, Node.stackAfter_toks n, stackAfter_ftoks ns]
end

/-- the prefix of a node list's tokens leaves on the stack exactly the ancestors of the position -/
theorem stackAfter_take : ∀ (l : List Node) (f : Nat) (st : List TypeId), f ≤ fsize l →
    stackAfter st ((ftoks l).take f) = stackAfter st (ancestorOpens l f)
  | [], f, st, h => by simp [ancestorOpens]
  | n :: ns, f, st, h => by
    rw [ancestorOpens_cons]
    split
    · rename_i h0; subst h0; simp
    · rename_i h0
      split
      · rename_i hle
        rw [ftoks_cons, take_app_ge _ _ _ (by rw [Node.toks_length]; exact hle), stackAfter_append,
          Node.stackAfter_toks, Node.toks_length]
        exact stackAfter_take ns _ st (by simp at h; omega)
      · rename_i hlt
        cases n with
        | text s m =>
          simp only [Node.size_text, Nat.not_le] at hlt
          rw [ftoks_cons, take_app_le _ _ _ (by simp; omega), Node.toks_text, ← List.map_take,
            stackAfter_units]
          simp [stackAfter]
        | leaf t a m => simp at hlt; omega
        | elem t a m kids =>
          simp only [Node.size_elem, Nat.not_le] at hlt
          rw [ftoks_cons, take_elem_toks _ _ _ _ _ _ h0 hlt]
          simp only [stackAfter]
          exact stackAfter_take kids (f - 1) (t :: st) (by omega)

/-- a list of open tokens pushes a fixed list of types -/
theorem stackAfter_ancestorOpens : ∀ (l : List Node) (f : Nat),
    ∃ σ : List TypeId, σ.length = depthAt l f ∧ ∀ st, stackAfter st (ancestorOpens l f) = σ ++ st
  | [], f => ⟨[], by simp [depthAt], by simp [ancestorOpens, stackAfter]⟩
  | n :: ns, f => by
    rw [ancestorOpens_cons, depthAt_cons]
    split
    · exact ⟨[], rfl, by simp [stackAfter]⟩
    · split
      · exact stackAfter_ancestorOpens ns _
      · cases n with
        | text s m => exact ⟨[], rfl, by simp [stackAfter]⟩
        | leaf t a m => exact ⟨[], rfl, by simp [stackAfter]⟩
        | elem t a m kids =>
          obtain ⟨σ, h1, h2⟩ := stackAfter_ancestorOpens kids (f - 1)
          refine ⟨σ ++ [t], by simp [h1]; omega, ?_⟩
          intro st
          simp only [stackAfter, h2]
          simp

/-- contexts only depend on the part of the stack that the tokens can reach -/
theorem ctxAux_stack_ext (top : TypeId) (st : List TypeId) : ∀ (W : List Tok) (σ : List TypeId),
    (∀ k, -(σ.length : Int) ≤ balance (W.take k)) →
    ctxAux (σ ++ [top]) W = ctxAux (σ ++ top :: st) W
  | [], σ, _ => by simp [ctxAux]
  | .op t a m :: r, σ, h => by
    simp only [ctxAux]
    have ih := ctxAux_stack_ext top st r (t :: σ) (by
      intro k
      have := h (k + 1)
      simp [Tok.delta] at this ⊢; omega)
    simp only [List.cons_append] at ih
    rw [ih]
    cases σ <;> simp
  | .cl :: r, σ, h => by
    cases σ with
    | nil =>
      have := h 1
      simp [Tok.delta] at this
    | cons x σ' =>
      simp only [ctxAux, List.cons_append, List.tail_cons, List.headD_cons]
      rw [ctxAux_stack_ext top st r σ' (by
        intro k
        have := h (k + 1)
        simp [Tok.delta] at this ⊢; omega)]
  | .leaf t a m :: r, σ, h => by
    simp only [ctxAux]
    rw [ctxAux_stack_ext top st r σ (by
      intro k
      have := h (k + 1)
      simp [Tok.delta] at this ⊢; omega)]
    cases σ <;> simp
  | .unit u m :: r, σ, h => by
    simp only [ctxAux]
    rw [ctxAux_stack_ext top st r σ (by
      intro k
      have := h (k + 1)
      simp [Tok.delta] at this ⊢; omega)]
    cases σ <;> simp

/-! ### the slice of a range and the contexts of its tokens -/

/-- type of the node `sliceScan` stops at (the node at the shared depth of the two offsets) -/
def sharedTy : (ty : TypeId) → (rest : List Node) → (f t : Nat) → TypeId
  | ty, [], _, _ => ty
  | ty, n :: ns, f, t =>
    if f = 0 then ty
    else if n.size ≤ f then sharedTy ty ns (f - n.size) (t - n.size)
    else match n with
      | .elem ty' _ _ kids => if t < n.size then sharedTy ty' kids (f - 1) (t - 1) else ty
      | _ => ty

theorem sharedTy_cons (ty : TypeId) (n : Node) (ns : List Node) (f t : Nat) :
    sharedTy ty (n :: ns) f t =
      if f = 0 then ty
      else if n.size ≤ f then sharedTy ty ns (f - n.size) (t - n.size)
      else match n with
        | .elem ty' _ _ kids => if t < n.size then sharedTy ty' kids (f - 1) (t - 1) else ty
        | _ => ty := by
  conv => lhs; unfold sharedTy

/-- what the mark steps need to know about `doc.slice f t`: the content's tokens are the range's
    tokens between `openStart` opens and `openEnd` closes, and the contexts of the range's tokens
    computed inside the slice content (top type = the shared parent) are those in the document -/
def SliceCtx (top : TypeId) (level : List Node) (f0 t0 : Nat) (p : TypeId) (s : Slice) : Prop :=
  ∃ A : List Tok,
    ftoks s.content = A ++ ((ftoks level).drop f0).take (t0 - f0) ++ List.replicate s.openEnd Tok.cl ∧
    A.length = s.openStart ∧
    ∀ st, ctxAux (stackAfter [p] A) (((ftoks level).drop f0).take (t0 - f0)) =
      ctxAux (stackAfter (top :: st) ((ftoks level).take f0)) (((ftoks level).drop f0).take (t0 - f0))

theorem balance_window (L : List Tok) (f n k : Nat) :
    balance (((L.drop f).take n).take k) = balance (L.take (f + min k n)) - balance (L.take f) := by
  rw [List.take_take]
  have : L.take (f + min k n) = L.take f ++ (L.drop f).take (min k n) := by
    rw [List.take_add]
  rw [this, balance_append]; omega

theorem sliceHere_ctx (top : TypeId) (level : List Node) (f0 t0 : Nat) (s : Slice) (hft : f0 < t0)
    (ht : t0 ≤ fsize level) (h : sliceHere level f0 t0 = .ok s) : SliceCtx top level f0 t0 top s := by
  unfold sliceHere at h
  cases hc : fcut level f0 t0 with
  | error e => simp [hc] at h
  | ok c =>
    simp [hc] at h
    subst h
    have htk := fcut_toks level c f0 t0 hft ht hc
    refine ⟨ancestorOpens level f0, htk, ancestorOpens_length level f0, ?_⟩
    intro st
    obtain ⟨σ, hσ1, hσ2⟩ := stackAfter_ancestorOpens level f0
    rw [stackAfter_take level f0 _ (by omega), hσ2, hσ2]
    apply ctxAux_stack_ext
    intro k
    rw [balance_window, hσ1, depthAt_balance level f0 (by omega)]
    have := balance_prefix_nonneg level (f0 + min k (t0 - f0))
    omega

theorem sliceCtx_lift (top : TypeId) (pre : List Node) (ty : TypeId) (a : Attrs) (m : Marks)
    (kids ns : List Node) (f t : Nat) (p : TypeId) (s : Slice) (hf : 0 < f) (hft : f < t)
    (ht : t < 2 + fsize kids)
    (hW : ((ftoks (pre ++ .elem ty a m kids :: ns)).drop (fsize pre + f)).take (fsize pre + t - (fsize pre + f))
      = ((ftoks kids).drop (f - 1)).take (t - 1 - (f - 1)))
    (h : SliceCtx ty kids (f - 1) (t - 1) p s) :
    SliceCtx top (pre ++ .elem ty a m kids :: ns) (fsize pre + f) (fsize pre + t) p s := by
  obtain ⟨A, h1, h2, h3⟩ := h
  refine ⟨A, by rw [hW]; exact h1, h2, ?_⟩
  intro st
  rw [hW, h3 (top :: st)]
  congr 1
  rw [ftoks_append, take_app_ge _ _ _ (by rw [ftoks_length]; omega), ftoks_length,
    Nat.add_sub_cancel_left, ftoks_cons, take_elem_toks _ _ _ _ _ _ (by omega) (by omega),
    stackAfter_append, stackAfter_ftoks]
  simp [stackAfter]

theorem sliceScan_ctx (top : TypeId) : ∀ (rest level : List Node) (f0 t0 f t : Nat) (pre : List Node) (s : Slice),
    level = pre ++ rest → f0 = fsize pre + f → t0 = fsize pre + t → f < t → t ≤ fsize rest →
    sliceScan level f0 t0 rest f t = .ok s → SliceCtx top level f0 t0 (sharedTy top rest f t) s
  | [], level, f0, t0, f, t, pre, s, _, _, _, hft, ht, _ => by simp at ht; omega
  | n :: ns, level, f0, t0, f, t, pre, s, hl, hf0, ht0, hft, ht, h => by
    simp only [fsize_cons] at ht
    have hlsz : fsize level = fsize pre + (n.size + fsize ns) := by rw [hl, fsize_append]; simp
    have here : sliceHere level f0 t0 = .ok s → SliceCtx top level f0 t0 top s :=
      fun hh => sliceHere_ctx top level f0 t0 s (by omega) (by omega) hh
    have hspec := sliceScan_spec (n :: ns) level f0 t0 f t pre s hl hf0 ht0 hft (by simpa using ht) h
    rw [sliceScan_cons] at h
    rw [sharedTy_cons]
    split at h
    · rename_i hfz
      rw [if_pos hfz]; exact here h
    · rename_i hfz
      rw [if_neg hfz]
      split at h
      · rename_i hsz
        rw [if_pos hsz]
        refine sliceScan_ctx top ns level f0 t0 (f - n.size) (t - n.size) (pre ++ [n]) s ?_ ?_ ?_
          (by omega) (by omega) h
        · rw [hl]; simp
        · rw [fsize_append]; simp; omega
        · rw [fsize_append]; simp; omega
      · rename_i hsz
        rw [if_neg hsz]
        cases n with
        | text s' m => exact here h
        | leaf ty a m => exact here h
        | elem ty a m kids =>
          simp only at h ⊢
          simp at hsz
          split at h
          · rename_i htsz
            rw [if_pos htsz]
            simp at htsz
            have hk := sliceScan_ctx ty kids kids (f - 1) (t - 1) (f - 1) (t - 1) [] s (by simp) (by simp)
              (by simp) (by omega) (by omega) h
            have hks := sliceScan_spec kids kids (f - 1) (t - 1) (f - 1) (t - 1) [] s (by simp) (by simp)
              (by simp) (by omega) (by omega) h
            subst hl; subst hf0; subst ht0
            exact sliceCtx_lift top pre ty a m kids ns f t _ s (by omega) hft htsz
              (by rw [← hspec.toks, hks.toks]) hk
          · rename_i htsz
            rw [if_neg htsz]
            exact here h

theorem sliceKids_ctx (top : TypeId) (kids : List Node) (f t : Nat) (s : Slice) (hft : f < t)
    (ht : t ≤ fsize kids) (h : sliceKids kids f t = .ok s) :
    SliceCtx top kids f t (sharedTy top kids f t) s := by
  unfold sliceKids at h
  rw [if_neg (by omega)] at h
  split at h
  · simp at h
  · exact sliceScan_ctx top kids kids f t f t [] s (by simp) (by simp) (by simp) hft ht h

/-! ### `sharedParentTy` is the type `sliceScan` stops at -/

/-- descend along a resolved path while the next node's content still contains `t` -/
def pathShared (t : Nat) : Path → Node
  | [] => default
  | [e] => e.node
  | e :: e' :: tl =>
    if e.pos + 1 ≤ t ∧ t ≤ e.pos + 1 + fsize e'.node.kids then pathShared t (e' :: tl) else e.node

theorem pathShared_resolveScan (S : Schema) (node : Node) (start : Nat) (rest : List Node)
    (idx cur po : Nat) (path : Path) (trel : Nat) (hle : po ≤ trel)
    (h : resolveScan node start rest idx cur po = some path) :
    S.tyOf (pathShared (start + cur + trel) path) = sharedTy (S.tyOf node) rest po trel := by
  fun_induction resolveScan node start rest idx cur po generalizing path trel
  case case1 => simp at h; subst h; simp [pathShared, sharedTy]
  case case2 => simp at h
  case case3 => simp at h; subst h; simp [pathShared, sharedTy_cons]
  case case4 node start n ns idx cur po h0 h1 ih =>
    rw [sharedTy_cons, if_neg h0, if_pos h1]
    have := ih path (trel - n.size) (by omega) h
    rwa [show start + (cur + n.size) + (trel - n.size) = start + cur + trel by omega] at this
  case case5 node start ns idx cur po h0 ty ats mk kids h1 ih =>
    rw [sharedTy_cons, if_neg h0, if_neg h1]
    cases hr : resolveScan (Node.elem ty ats mk kids) (start + cur + 1) kids 0 0 (po - 1) with
    | none => simp [hr] at h
    | some p' =>
      simp only [hr, Option.map_some, Option.some.injEq] at h
      obtain ⟨_, ⟨e', tl, rfl, he'⟩, _⟩ :=
        resolveScan_ok (Node.elem ty ats mk kids) (start + cur + 1) kids 0 0 (po - 1) p' []
          (by simp [Node.kids]) rfl (by simp) hr
      subst h
      have := ih (e' :: tl) (trel - 1) (by omega) hr
      rw [show start + cur + 1 + 0 + (trel - 1) = start + cur + trel by omega] at this
      simp only [pathShared, he', Node.kids, Node.size_elem]
      by_cases hc : trel < 2 + fsize kids
      · rw [if_pos (by omega), if_pos hc]
        exact this
      · rw [if_neg (by omega), if_neg hc]
  case case6 node start n ns idx cur po h0 h1 hne =>
    simp at h; subst h
    rw [sharedTy_cons, if_neg h0, if_neg h1]
    cases n with
    | elem t a m k => exact (hne t a m k rfl).elim
    | text s m => simp [pathShared]
    | leaf t a m => simp [pathShared]

/-- `pathShared` by index: the first depth whose successor's content does not contain `t` -/
theorem pathShared_at (t : Nat) : ∀ (path : Path) (D : Nat), D < path.length →
    (∀ k, k < D → path[k]!.pos + 1 ≤ t ∧ t ≤ path[k]!.pos + 1 + fsize path[k + 1]!.node.kids) →
    (D + 1 < path.length →
      ¬ (path[D]!.pos + 1 ≤ t ∧ t ≤ path[D]!.pos + 1 + fsize path[D + 1]!.node.kids)) →
    pathShared t path = path[D]!.node
  | [], D, h, _, _ => by simp at h
  | [e], D, h, _, _ => by
    have : D = 0 := by simpa using h
    subst this; simp [pathShared]
  | e :: e' :: tl, 0, _, _, h2 => by
    have := h2 (by simp)
    simp only [pathShared]
    rw [if_neg (by simpa using this)]
    simp
  | e :: e' :: tl, D + 1, h, h1, h2 => by
    have h0 := h1 0 (by omega)
    simp only [pathShared]
    rw [if_pos (by simpa using h0)]
    rw [pathShared_at t (e' :: tl) D (by simpa using h)
      (fun k hk => by simpa using h1 (k + 1) (by omega))
      (fun hlt => by simpa using h2 (by simpa using hlt))]
    simp

theorem sharedParentTy_eq (S : Schema) (doc : Node) (f t : Nat) (p : TypeId) (hft : f ≤ t)
    (h : sharedParentTy S doc f t = some p) : p = sharedTy (S.tyOf doc) doc.kids f t := by
  unfold sharedParentTy at h
  cases hr : doc.resolve f with
  | none => simp [hr] at h
  | some r =>
    simp only [hr, Option.some.injEq] at h
    subst h
    have R := resolve_resolved hr
    -- the path is the scan's
    have hpath : resolveScan doc 0 doc.kids 0 0 f = some r.path := by
      unfold Node.resolve at hr
      split at hr
      · cases hs : resolveScan doc 0 doc.kids 0 0 f with
        | none => simp [hs] at hr
        | some p' => simp [hs] at hr; subst hr; rfl
      · simp at hr
    have key := pathShared_resolveScan S doc 0 doc.kids 0 0 f r.path t hft hpath
    rw [← key]
    simp only [Nat.zero_add]
    congr 1
    -- the shared depth by index
    obtain ⟨g1, g2, g3⟩ := sharedDepth_go r t r.depth
    have hD : r.sharedDepth t = RPos.sharedDepth.go r t r.depth := rfl
    generalize RPos.sharedDepth.go r t r.depth = D at g1 g2 g3 hD
    rw [hD]
    have hwin : ∀ k, r.start (k + 1) = r.path[k]!.pos + 1 ∧
        r.end_ (k + 1) = r.path[k]!.pos + 1 + fsize r.path[k + 1]!.node.kids := by
      intro k; simp [RPos.start, RPos.end_, RPos.entry, RPos.node]
    -- windows are nested
    have nested : ∀ k, k < r.depth → r.start (k + 1) ≤ t ∧ t ≤ r.end_ (k + 1) →
        k = 0 ∨ (r.start k ≤ t ∧ t ≤ r.end_ k) := by
      intro k hk hw
      rcases Nat.eq_zero_or_pos k with h0 | h0
      · exact .inl h0
      · right
        obtain ⟨k', rfl⟩ : ∃ k', k = k' + 1 := ⟨k - 1, by omega⟩
        have he := R.entry (k' + 1) (by omega)
        have hc := R.chain (k' + 1) hk
        have hsz := child_size_le _ _ _ hc.1
        have hpe := he.pos_eq
        have hs : r.start (k' + 1 + 1) = (r.entry (k' + 1)).pos + 1 := Resolved.start_succ r (k' + 1)
        have hend : r.end_ (k' + 1 + 1) = r.start (k' + 1 + 1) + fsize (r.node (k' + 1 + 1)).kids := rfl
        have hend' : r.end_ (k' + 1) = r.start (k' + 1) + fsize (r.node (k' + 1)).kids := rfl
        have hidx : r.index (k' + 1) = (r.entry (k' + 1)).index := rfl
        have hnode : r.node (k' + 1) = (r.entry (k' + 1)).node := rfl
        rw [hidx, hnode] at hsz
        rw [hnode] at hend'
        omega
    have down : ∀ j k, k + j = D → k ≠ 0 → r.start k ≤ t ∧ t ≤ r.end_ k := by
      intro j
      induction j with
      | zero =>
        intro k hk hk0
        rcases g2 with g | g
        · omega
        · have : k = D := by omega
          subst this; exact g
      | succ j ih =>
        intro k hk hk0
        have := ih (k + 1) (by omega) (by omega)
        rcases nested k (by omega) this with h0 | h0
        · exact absurd h0 hk0
        · exact h0
    rw [show r.node D = r.path[D]!.node from rfl]
    symm
    apply pathShared_at t r.path D (by rw [R.length_eq]; omega)
    · intro k hk
      have := down (D - (k + 1)) (k + 1) (by omega) (by omega)
      rw [(hwin k).1, (hwin k).2] at this
      exact this
    · intro hlt
      rw [R.length_eq] at hlt
      have := g3 (D + 1) (by omega) (by omega)
      rw [(hwin D).1, (hwin D).2] at this
      exact this

theorem mapIdxCtx_getElem? (g : Nat → TypeId → Tok → Tok) (top : TypeId) (l : List Tok) (i : Nat) :
    (mapIdxCtx g top l)[i]? =
      if i < l.length then some (g i ((ctxOf top l).getD i 0) (l.getD i Tok.cl)) else none := by
  unfold mapIdxCtx
  by_cases hi : i < l.length
  · rw [if_pos hi, List.getElem?_map, List.getElem?_range hi]; rfl
  · rw [if_neg hi]
    apply List.getElem?_eq_none
    simp; omega

/-- a map that only acts inside `[f, t)` -/
theorem mapIdxCtx_window (g : Nat → TypeId → Tok → Tok) (h : TypeId → Tok → Tok) (top : TypeId)
    (l : List Tok) (f t : Nat) (hft : f ≤ t) (ht : t ≤ l.length)
    (hout : ∀ i p tok, ¬ (f ≤ i ∧ i < t) → g i p tok = tok)
    (hin : ∀ i p tok, f ≤ i → i < t → g i p tok = h p tok) :
    mapIdxCtx g top l = l.take f ++
      List.zipWith h (((ctxOf top l).drop f).take (t - f)) ((l.drop f).take (t - f)) ++ l.drop t := by
  have hcl : (ctxOf top l).length = l.length := ctxAux_length l [top]
  have hm1 : min f l.length = f := by omega
  have hm2 : min (t - f) (l.length - f) = t - f := by omega
  apply List.ext_getElem?
  intro i
  rw [mapIdxCtx_getElem?]
  by_cases hi : i < l.length
  · rw [if_pos hi]
    by_cases h1 : i < f
    · rw [hout i _ _ (by omega), List.append_assoc, List.getElem?_append_left (by simp; omega)]
      simp [h1, List.getD_eq_getElem?_getD, hi]
    · by_cases h2 : i < t
      · rw [hin i _ _ (by omega) h2, List.append_assoc, List.getElem?_append_right (by simp; omega),
          List.getElem?_append_left (by simp; omega)]
        have e : f + (i - f) = i := by omega
        simp [List.getElem?_zipWith, List.getElem?_drop, List.getD_eq_getElem?_getD,
          hi, hcl, hm1, e, show i - f < t - f by omega]
      · rw [hout i _ _ (by omega), List.getElem?_append_right (by simp; omega)]
        have e : t + (i - (f + (t - f))) = i := by omega
        simp [List.getElem?_drop, List.getD_eq_getElem?_getD, hi, hcl, hm1, hm2, e]
  · rw [if_neg hi]
    symm
    apply List.getElem?_eq_none
    simp [hcl]; omega

/-- pointwise map with contexts -/
def mapCtx (g : TypeId → Tok → Tok) (st : List TypeId) (l : List Tok) : List Tok :=
  List.zipWith g (ctxAux st l) l

theorem mapCtx_append (g : TypeId → Tok → Tok) (st : List TypeId) (a b : List Tok) :
    mapCtx g st (a ++ b) = mapCtx g st a ++ mapCtx g (stackAfter st a) b := by
  unfold mapCtx
  rw [ctxAux_append, List.zipWith_append (ctxAux_length a st)]

/-- what AddMarkStep does to one token in context `p` -/
def addTok (S : Schema) (mrk : Mark) (p : TypeId) (tok : Tok) : Tok :=
  if isAtomTok S tok = true ∧ (S.nodeType p).allowsMarkType mrk.ty = true
  then tok.withMarks (mrk.addToSet S tok.marks) else tok

theorem mapCtx_units (g : TypeId → Tok → Tok) (p : TypeId) (st : List TypeId) (s : List Nat) (m : Marks) :
    mapCtx g (p :: st) (s.map (Tok.unit · m)) = s.map (fun c => g p (Tok.unit c m)) := by
  induction s with
  | nil => simp [mapCtx, ctxAux]
  | cons c s ih =>
    unfold mapCtx at ih ⊢
    simp [ctxAux, ih]

mutual
theorem addMarkNode_toks (S : Schema) (mrk : Mark) : ∀ (n : Node) (p : TypeId) (st : List TypeId),
    mapCtx (addTok S mrk) (p :: st) n.toks = (addMarkNode S mrk p n).toks
  | .text s m, p, st => by
    rw [Node.toks_text, mapCtx_units]
    unfold addMarkNode
    by_cases h : (S.nodeType p).allowsMarkType mrk.ty = true
    · simp [addTok, isAtomTok, h, Tok.withMarks, Tok.marks]
    · simp [addTok, isAtomTok, h]
  | .leaf t a m, p, st => by
    unfold addMarkNode
    by_cases h : ((S.nodeType t).isInline && (S.nodeType p).allowsMarkType mrk.ty) = true
    · rw [if_pos h]
      simp only [Bool.and_eq_true] at h
      simp [mapCtx, ctxAux, addTok, isAtomTok, h, Tok.withMarks, Tok.marks]
    · rw [if_neg h]
      simp only [Bool.and_eq_true] at h
      simp [mapCtx, ctxAux, addTok, isAtomTok, h]
  | .elem t a m kids, p, st => by
    have ih := addMarkKids_toks S mrk kids t (p :: st)
    unfold addMarkNode
    simp only
    have hstep : mapCtx (addTok S mrk) (p :: st) (Node.elem t a m kids).toks =
        addTok S mrk p (Tok.op t a m) :: (ftoks (addMarkKids S mrk t kids) ++ [Tok.cl]) := by
      rw [Node.toks_elem]
      have : mapCtx (addTok S mrk) (p :: st) (Tok.op t a m :: (ftoks kids ++ [Tok.cl])) =
          addTok S mrk p (Tok.op t a m) :: mapCtx (addTok S mrk) (t :: p :: st) (ftoks kids ++ [Tok.cl]) := by
        simp [mapCtx, ctxAux]
      rw [this, mapCtx_append, ih, stackAfter_ftoks]
      simp [mapCtx, ctxAux, addTok, isAtomTok]
    rw [hstep]
    by_cases h : ((S.nodeType t).isInline && (S.nodeType t).isAtom && (S.nodeType p).allowsMarkType mrk.ty) = true
    · rw [if_pos h]
      simp only [Bool.and_eq_true] at h
      simp [addTok, isAtomTok, h, Tok.withMarks, Tok.marks, fromArray_toks]
    · rw [if_neg h]
      simp only [Bool.and_eq_true] at h
      simp [addTok, isAtomTok, h, fromArray_toks]
theorem addMarkKids_toks (S : Schema) (mrk : Mark) : ∀ (l : List Node) (p : TypeId) (st : List TypeId),
    mapCtx (addTok S mrk) (p :: st) (ftoks l) = ftoks (addMarkKids S mrk p l)
  | [], p, st => by simp [mapCtx, ctxAux, addMarkKids]
  | n :: ns, p, st => by
    rw [ftoks_cons, mapCtx_append, Node.stackAfter_toks, addMarkNode_toks S mrk n p st,
      addMarkKids_toks S mrk ns p st]
    simp [addMarkKids]
end

theorem mapCtx_length (g : TypeId → Tok → Tok) (st : List TypeId) (l : List Tok) :
    (mapCtx g st l).length = l.length := by
  simp [mapCtx, ctxAux_length]

/-- contexts of a window -/
theorem ctxAux_window (st : List TypeId) (L : List Tok) (f n : Nat) (h : f + n ≤ L.length) :
    ((ctxAux st L).drop f).take n = ctxAux (stackAfter st (L.take f)) ((L.drop f).take n) := by
  have e : L = L.take f ++ ((L.drop f).take n ++ (L.drop f).drop n) := by
    rw [List.take_append_drop, List.take_append_drop]
  conv => lhs; rw [e]
  rw [ctxAux_append, ctxAux_append,
    List.drop_left' (by rw [ctxAux_length]; simp; omega),
    List.take_left' (by rw [ctxAux_length]; simp; omega)]

theorem zipWith_ignore_left {α β γ} (k : β → γ) : ∀ (l1 : List α) (l2 : List β), l1.length = l2.length →
    List.zipWith (fun _ b => k b) l1 l2 = l2.map k
  | [], [], _ => rfl
  | [], _ :: _, h => by simp at h
  | _ :: _, [], h => by simp at h
  | _ :: l1, _ :: l2, h => by simp [zipWith_ignore_left k l1 l2 (by simpa using h)]

/-- the slice of a list flanked by `a` and `e` extra elements -/
theorem window_of_flanked {α} (A W R : List α) (a e : Nat) (ha : A.length = a) (he : R.length = e) :
    ((A ++ W ++ R).drop a).take ((A ++ W ++ R).length - a - e) = W := by
  rw [List.append_assoc, List.drop_left' ha, List.take_left' (by simp; omega)]

/-- **add-mark step** -/
theorem apply_addMark_toks (S : Schema) (doc doc' : Node) (f t : Nat) (m : Mark)
    (h : S.apply (.addMark f t m) doc = .ok doc') :
    ftoks doc'.kids = addMarkToks S m f t (S.tyOf doc) (ftoks doc.kids) ∧ doc'.sameMarkup doc = true := by
  unfold Schema.apply at h
  simp only at h
  split at h
  · simp at h
  · rename_i old hold
    split at h
    · simp at h
    · rename_i p hp
      obtain ⟨h1, hft, htl, _, h5⟩ := fromReplace_toks S doc doc' f t _ h
      refine ⟨?_, h5⟩
      have hlen := ftoks_length doc.kids
      unfold addMarkToks
      rw [mapIdxCtx_window _ (addTok S m) (S.tyOf doc) (ftoks doc.kids) f t hft (by omega)
        (fun i p tok hn => by rw [if_neg (fun hc => hn ⟨hc.1, hc.2.1⟩)])
        (fun i p tok h1 h2 => by simp [addTok, h1, h2])]
      rw [h1]
      congr 2
      -- the new slice's tokens are the mapped window
      unfold ctxOf
      rw [ctxAux_window _ _ _ _ (by omega)]
      by_cases he : f = t
      · subst he
        simp [Node.slice, sliceKids] at hold
        subst hold
        simp [Slice.toks, Slice.empty, addMarkKids, fromArray, addNodes, ctxAux]
      · have hlt : f < t := by omega
        have hp' := sharedParentTy_eq S doc f t p hft hp
        obtain ⟨A, hC, hA, hctx⟩ := sliceKids_ctx (S.tyOf doc) doc.kids f t old hlt htl hold
        rw [← hp'] at hctx
        rw [← hctx []]
        simp only [Slice.toks, fromArray_toks, fromArray_size]
        rw [← ftoks_length, ← addMarkKids_toks S m old.content p [], hC, mapCtx_append, mapCtx_append]
        rw [window_of_flanked _ _ _ _ _ (by rw [mapCtx_length]; exact hA)
          (by rw [mapCtx_length]; simp)]
        rfl

/-- what RemoveMarkStep does to one token -/
def remTok (S : Schema) (mrk : Mark) (tok : Tok) : Tok :=
  if isInlineTok S tok = true then tok.withMarks (mrk.removeFromSet tok.marks) else tok

mutual
theorem removeMarkNode_toks (S : Schema) (mrk : Mark) : ∀ (n : Node),
    (removeMarkNode S mrk n).toks = n.toks.map (remTok S mrk)
  | .text s m => by
    unfold removeMarkNode
    simp [remTok, isInlineTok, Tok.withMarks, Tok.marks, Function.comp_def]
  | .leaf t a m => by
    unfold removeMarkNode
    by_cases h : (S.nodeType t).isInline = true
    · simp [remTok, isInlineTok, h, Tok.withMarks, Tok.marks]
    · simp [remTok, isInlineTok, h]
  | .elem t a m kids => by
    have ih := removeMarkKids_toks S mrk kids
    unfold removeMarkNode
    by_cases h : (S.nodeType t).isInline = true
    · simp [remTok, isInlineTok, h, Tok.withMarks, Tok.marks, fromArray_toks, ih]
    · simp [remTok, isInlineTok, h, fromArray_toks, ih]
theorem removeMarkKids_toks (S : Schema) (mrk : Mark) : ∀ (l : List Node),
    ftoks (removeMarkKids S mrk l) = (ftoks l).map (remTok S mrk)
  | [] => by simp [removeMarkKids]
  | n :: ns => by
    simp [removeMarkKids, removeMarkNode_toks S mrk n, removeMarkKids_toks S mrk ns]
end

/-- **remove-mark step** -/
theorem apply_removeMark_toks (S : Schema) (doc doc' : Node) (f t : Nat) (m : Mark)
    (h : S.apply (.removeMark f t m) doc = .ok doc') :
    ftoks doc'.kids = removeMarkToks S m f t (S.tyOf doc) (ftoks doc.kids) ∧ doc'.sameMarkup doc = true := by
  unfold Schema.apply at h
  simp only at h
  split at h
  · simp at h
  · rename_i old hold
    obtain ⟨h1, hft, htl, _, h5⟩ := fromReplace_toks S doc doc' f t _ h
    refine ⟨?_, h5⟩
    have hlen := ftoks_length doc.kids
    unfold removeMarkToks
    rw [mapIdxCtx_window _ (fun _ => remTok S m) (S.tyOf doc) (ftoks doc.kids) f t hft (by omega)
      (fun i p tok hn => by rw [if_neg (fun hc => hn ⟨hc.1, hc.2.1⟩)])
      (fun i p tok h1 h2 => by simp [remTok, h1, h2])]
    rw [h1]
    congr 2
    rw [zipWith_ignore_left _ _ _ (by simp [ctxOf, ctxAux_length])]
    have hs := sliceKids_toks doc.kids f t old hft htl hold
    rw [← hs]
    simp only [Slice.toks, fromArray_toks, fromArray_size, removeMarkKids_toks, List.map_take, List.map_drop]
    rw [← ftoks_length, ← ftoks_length, removeMarkKids_toks, List.length_map]

/-! ### node-markup steps -/

/-- the token a non-text node starts with -/
def Node.headTok : Node → Tok
  | .text _ _ => Tok.cl
  | .leaf t a m => .leaf t a m
  | .elem t a m _ => .op t a m

/-- what a successful node-markup replacement does: `n` (non-text) starts at token `pos`, and the
    token is replaced by the head token of `u` -/
theorem nodeRepl_toks (S : Schema) (doc doc' n u : Node) (pos : Nat) (attrs : Attrs) (marks : Marks)
    (hn : doc.nodeAt pos = .ok (some n)) (hu : S.recreate n attrs marks = .ok u)
    (h : S.fromReplace doc pos (pos + 1) ⟨[u], 0, if n.isLeaf then 0 else 1⟩ = .ok doc') :
    pos < fsize doc.kids ∧
    ftoks doc'.kids = (ftoks doc.kids).take pos ++ [u.headTok] ++ (ftoks doc.kids).drop (pos + 1) ∧
    (ftoks doc.kids).getD pos Tok.cl = n.headTok ∧
    u.headTok.shape = n.headTok.shape ∧ u.headTok.marks = setFrom marks ∧ n.headTok.marks = n.marks ∧
    doc'.sameMarkup doc = true := by
  obtain ⟨h1, _, h3, _, h5⟩ := fromReplace_toks S doc doc' pos (pos + 1) _ h
  obtain ⟨p, hp1, hp2, hp3, hp4⟩ := nodeAtKids_some doc.kids pos n hn
  have hnt : n.isText = false := by
    cases n with
    | text s m => simp [Schema.recreate] at hu
    | leaf => rfl
    | elem => rfl
  have hpp : p = pos := by
    rcases hp4 with h | h
    · exact h
    · rw [hnt] at h; simp at h
  subst hpp
  have hget : (ftoks doc.kids).getD p Tok.cl = n.headTok := by
    have hd := congrArg List.head? hp3
    rw [List.head?_take, List.head?_drop] at hd
    rw [List.getD_eq_getElem?_getD]
    cases n with
    | text s m => simp [Node.isText] at hnt
    | leaf t a m => simp at hd; simp [hd, Node.headTok]
    | elem t a m k => simp at hd; simp [hd, Node.headTok]
  have hsl : (Slice.mk [u] 0 (if n.isLeaf then 0 else 1)).toks = [u.headTok] ∧
      u.headTok.shape = n.headTok.shape ∧ u.headTok.marks = setFrom marks ∧ n.headTok.marks = n.marks := by
    unfold Schema.recreate at hu
    cases n with
    | text s m => simp [Node.isText] at hnt
    | leaf t a m =>
      simp only at hu
      cases hc : computeAttrs (S.nodeType t).attrs attrs with
      | error e => rw [hc] at hu; simp [Except.map] at hu
      | ok a' =>
        rw [hc] at hu; simp [Except.map] at hu; subst hu
        simp [Slice.toks, Node.isLeaf, Node.headTok, Tok.shape, Tok.marks, Node.marks]
    | elem t a m k =>
      simp only at hu
      cases hc : computeAttrs (S.nodeType t).attrs attrs with
      | error e => rw [hc] at hu; simp [Except.map] at hu
      | ok a' =>
        rw [hc] at hu; simp [Except.map] at hu; subst hu
        simp [Slice.toks, Node.isLeaf, Node.headTok, Tok.shape, Tok.marks, Node.marks]
  refine ⟨by omega, ?_, hget, hsl.2.1, hsl.2.2.1, hsl.2.2.2, h5⟩
  rw [h1, hsl.1]

/-- the common form of the three node-markup steps -/
theorem nodeStep_cases (S : Schema) (doc doc' : Node) (pos : Nat) (st : Step)
    (hst : (∃ m, st = .addNodeMark pos m) ∨ (∃ m, st = .removeNodeMark pos m) ∨ (∃ n v, st = .attr pos n v))
    (h : S.apply st doc = .ok doc') :
    ∃ n u attrs marks, doc.nodeAt pos = .ok (some n) ∧ S.recreate n attrs marks = .ok u ∧
      S.fromReplace doc pos (pos + 1) ⟨[u], 0, if n.isLeaf then 0 else 1⟩ = .ok doc' ∧
      ((∃ m, st = .addNodeMark pos m ∧ marks = m.addToSet S n.marks) ∨
       (∃ m, st = .removeNodeMark pos m ∧ marks = m.removeFromSet n.marks) ∨
       (∃ nm v, st = .attr pos nm v)) := by
  rcases hst with ⟨m, rfl⟩ | ⟨m, rfl⟩ | ⟨nm, v, rfl⟩
  · unfold Schema.apply at h
    simp only at h
    split at h
    · simp at h
    · simp at h
    · rename_i n hn
      split at h
      · simp at h
      · rename_i u hu
        exact ⟨n, u, _, _, hn, hu, h, .inl ⟨m, rfl, rfl⟩⟩
  · unfold Schema.apply at h
    simp only at h
    split at h
    · simp at h
    · simp at h
    · rename_i n hn
      split at h
      · simp at h
      · rename_i u hu
        exact ⟨n, u, _, _, hn, hu, h, .inr (.inl ⟨m, rfl, rfl⟩)⟩
  · unfold Schema.apply at h
    simp only at h
    split at h
    · simp at h
    · simp at h
    · rename_i n hn
      split at h
      · simp at h
      · rename_i u hu
        exact ⟨n, u, _, _, hn, hu, h, .inr (.inr ⟨nm, v, rfl⟩)⟩

theorem getD_splice (A B : List Tok) (x : Tok) (pos : Nat) (h : pos < A.length) :
    (A.take pos ++ [x] ++ B).getD pos Tok.cl = x := by
  rw [List.getD_eq_getElem?_getD, List.append_assoc, List.getElem?_append_right (by simp; omega)]
  simp [Nat.min_eq_left (Nat.le_of_lt h)]

/-- **node-mark and attribute steps change only the addressed token** (its marks resp. attributes;
    type kept), every other token is untouched -/
theorem apply_nodeStep_toks (S : Schema) (doc doc' : Node) (pos : Nat) (st : Step)
    (hst : (∃ m, st = .addNodeMark pos m) ∨ (∃ m, st = .removeNodeMark pos m) ∨ (∃ n v, st = .attr pos n v))
    (h : S.apply st doc = .ok doc') :
    pos < fsize doc.kids ∧
    (ftoks doc'.kids).take pos = (ftoks doc.kids).take pos ∧
    (ftoks doc'.kids).drop (pos + 1) = (ftoks doc.kids).drop (pos + 1) ∧
    ((ftoks doc'.kids).getD pos Tok.cl).shape = ((ftoks doc.kids).getD pos Tok.cl).shape ∧
    doc'.sameMarkup doc = true := by
  obtain ⟨n, u, attrs, marks, hn, hu, hr, _⟩ := nodeStep_cases S doc doc' pos st hst h
  obtain ⟨h1, h2, h3, h4, _, _, h7⟩ := nodeRepl_toks S doc doc' n u pos attrs marks hn hu hr
  have hlen : pos < (ftoks doc.kids).length := by rw [ftoks_length]; exact h1
  refine ⟨h1, ?_, ?_, ?_, h7⟩
  · rw [h2, List.append_assoc]
    exact List.take_left' (by simp; omega)
  · rw [h2]
    exact List.drop_left' (by simp; omega)
  · rw [h2, getD_splice _ _ _ _ hlen, h3, h4]

/-- the marks the node-mark steps leave on the addressed token -/
theorem apply_addNodeMark_marks (S : Schema) (doc doc' : Node) (pos : Nat) (m : Mark)
    (hc : canonicalMarks S ((ftoks doc.kids).getD pos Tok.cl).marks = true)
    (h : S.apply (.addNodeMark pos m) doc = .ok doc') :
    ((ftoks doc'.kids).getD pos Tok.cl).marks = m.addToSet S ((ftoks doc.kids).getD pos Tok.cl).marks := by
  obtain ⟨n, u, attrs, marks, hn, hu, hr, hk⟩ :=
    nodeStep_cases S doc doc' pos _ (.inl ⟨m, rfl⟩) h
  obtain ⟨h1, h2, h3, _, h5, h6, _⟩ := nodeRepl_toks S doc doc' n u pos attrs marks hn hu hr
  have hlen : pos < (ftoks doc.kids).length := by rw [ftoks_length]; exact h1
  have hm : marks = m.addToSet S n.marks := by
    rcases hk with ⟨m', he, hm⟩ | ⟨m', he, _⟩ | ⟨nm, v, he⟩
    · cases he; exact hm
    · cases he
    · cases he
  rw [h3, h6] at hc ⊢
  rw [h2, getD_splice _ _ _ _ hlen, h5, hm]
  exact setFrom_of_sorted _ ((canonicalMarks_iff_canonP S _).1 (addToSet_canonical S m _ hc)).sorted

theorem apply_removeNodeMark_marks (S : Schema) (doc doc' : Node) (pos : Nat) (m : Mark)
    (hc : canonicalMarks S ((ftoks doc.kids).getD pos Tok.cl).marks = true)
    (h : S.apply (.removeNodeMark pos m) doc = .ok doc') :
    ((ftoks doc'.kids).getD pos Tok.cl).marks = m.removeFromSet ((ftoks doc.kids).getD pos Tok.cl).marks := by
  obtain ⟨n, u, attrs, marks, hn, hu, hr, hk⟩ :=
    nodeStep_cases S doc doc' pos _ (.inr (.inl ⟨m, rfl⟩)) h
  obtain ⟨h1, h2, h3, _, h5, h6, _⟩ := nodeRepl_toks S doc doc' n u pos attrs marks hn hu hr
  have hlen : pos < (ftoks doc.kids).length := by rw [ftoks_length]; exact h1
  have hm : marks = m.removeFromSet n.marks := by
    rcases hk with ⟨m', he, _⟩ | ⟨m', he, hm⟩ | ⟨nm, v, he⟩
    · cases he
    · cases he; exact hm
    · cases he
  rw [h3, h6] at hc ⊢
  rw [h2, getD_splice _ _ _ _ hlen, h5, hm]
  exact setFrom_of_sorted _ ((canonicalMarks_iff_canonP S _).1 (removeFromSet_canonical S m _ hc)).sorted

end PM
