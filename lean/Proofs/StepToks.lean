/-
  Proofs/StepToks.lean — token-level semantics of the step kinds: what each step does to the flat
  token sequence when it applies (shared by C03, C04, C13, C16, C17).
-/
import PM.Step
import Proofs.Toks
import Proofs.TokCore
import Proofs.ReplaceToks
namespace PM

/-! ### specification vocabulary -/

def Tok.marks : Tok → Marks
  | .op _ _ m => m
  | .cl => []
  | .leaf _ _ m => m
  | .unit _ m => m

def Tok.withMarks (m : Marks) : Tok → Tok
  | .op t a _ => .op t a m
  | .cl => .cl
  | .leaf t a _ => .leaf t a m
  | .unit u _ => .unit u m

/-- a token with marks and attributes erased: the *structure and text* of the document -/
inductive Shape where
  | op (ty : TypeId) | cl | leaf (ty : TypeId) | unit (cu : Nat)
deriving DecidableEq, Repr

def Tok.shape : Tok → Shape
  | .op t _ _ => .op t
  | .cl => .cl
  | .leaf t _ _ => .leaf t
  | .unit u _ => .unit u

/-- for every token, the type of the element it lies directly in (`top` at the top level);
    for an open token: the type of the parent of the node it opens -/
def ctxAux : List TypeId → List Tok → List TypeId
  | _, [] => []
  | st, .op t _ _ :: r => st.headD 0 :: ctxAux (t :: st) r
  | st, .cl :: r => st.headD 0 :: ctxAux st.tail r
  | st, _ :: r => st.headD 0 :: ctxAux st r

def ctxOf (top : TypeId) (l : List Tok) : List TypeId := ctxAux [top] l

/-- the token starts an inline atom (text unit, inline leaf, inline atom element): what AddMarkStep marks -/
def isAtomTok (S : Schema) : Tok → Bool
  | .unit .. => true
  | .leaf t _ _ => (S.nodeType t).isInline
  | .op t _ _ => (S.nodeType t).isInline && (S.nodeType t).isAtom
  | .cl => false

/-- the token starts an inline node: what RemoveMarkStep touches -/
def isInlineTok (S : Schema) : Tok → Bool
  | .unit .. => true
  | .leaf t _ _ => (S.nodeType t).isInline
  | .op t _ _ => (S.nodeType t).isInline
  | .cl => false

/-- pointwise map over tokens with their index and context -/
def mapIdxCtx (g : Nat → TypeId → Tok → Tok) (top : TypeId) (l : List Tok) : List Tok :=
  (List.range l.length).map (fun i => g i ((ctxOf top l).getD i 0) (l.getD i Tok.cl))

/-- AddMarkStep on tokens: inline atoms in `[f, t)` whose enclosing node allows the mark type get
    `addToSet`; nothing else changes -/
def addMarkToks (S : Schema) (m : Mark) (f t : Nat) (top : TypeId) (l : List Tok) : List Tok :=
  mapIdxCtx (fun i p tok =>
    if f ≤ i ∧ i < t ∧ isAtomTok S tok = true ∧ (S.nodeType p).allowsMarkType m.ty = true
    then tok.withMarks (m.addToSet S tok.marks) else tok) top l

/-- RemoveMarkStep on tokens: inline nodes starting in `[f, t)` lose the mark; nothing else changes -/
def removeMarkToks (S : Schema) (m : Mark) (f t : Nat) (top : TypeId) (l : List Tok) : List Tok :=
  mapIdxCtx (fun i _ tok =>
    if f ≤ i ∧ i < t ∧ isInlineTok S tok = true then tok.withMarks (m.removeFromSet tok.marks) else tok) top l

/-! ### insert_into / remove_range on tokens -/

/-- inserting at distance `d` (descending to the innermost node containing it) is a token insertion -/
theorem insertInto_toks (S : Schema) (ins : List Node) (parent : Option TypeId) (level : List Node)
    (d oa ob : Nat) (c : List Node)
    (h : insertInto S ins parent level d 0 level d oa ob = .ok (some c)) :
    ftoks c = (ftoks level).take d ++ ftoks ins ++ (ftoks level).drop d ∧ d ≤ fsize level := by
  sorry

/-- `Slice.insert_at(pos, fragment)` inserts the fragment's tokens at offset `pos` of the slice's tokens -/
theorem insertAt_toks (S : Schema) (sl ins : Slice) (pos : Nat) (frag : List Node)
    (hwf : sl.wf = true) (hp : (pos : Int) ≤ sl.size)
    (h : sl.insertAt S pos frag = .ok (some ins)) :
    ins.toks = sl.toks.take pos ++ ftoks frag ++ sl.toks.drop pos ∧
    ins.openStart = sl.openStart ∧ ins.openEnd = sl.openEnd := by
  sorry

/-- `Slice.remove_between(from, to)` removes the tokens in between -/
theorem removeBetween_toks (sl out : Slice) (f t : Nat) (hwf : sl.wf = true)
    (hft : f ≤ t) (ht : (t : Int) ≤ sl.size)
    (h : sl.removeBetween f t = .ok out) :
    out.toks = sl.toks.take f ++ sl.toks.drop t ∧
    out.openStart = sl.openStart ∧ out.openEnd = sl.openEnd := by
  sorry

/-! ### apply on tokens -/

/-- **replace step** -/
theorem apply_replace_toks (S : Schema) (doc doc' : Node) (f t : Nat) (sl : Slice) (st : Bool)
    (h : S.apply (.replace f t sl st) doc = .ok doc') :
    ftoks doc'.kids = (ftoks doc.kids).take f ++ sl.toks ++ (ftoks doc.kids).drop t ∧
    f ≤ t ∧ t ≤ fsize doc.kids ∧ doc'.sameMarkup doc = true := by
  sorry

/-- **replace-around step**: the gap is kept, the slice is placed around it -/
theorem apply_replaceAround_toks (S : Schema) (doc doc' : Node) (f t gf gt : Nat) (sl : Slice)
    (ins : Nat) (st : Bool) (hwf : sl.wf = true) (hins : (ins : Int) ≤ sl.size)
    (hg : f ≤ gf ∧ gf ≤ gt ∧ gt ≤ t)
    (h : S.apply (.replaceAround f t gf gt sl ins st) doc = .ok doc') :
    ftoks doc'.kids = (ftoks doc.kids).take f ++ sl.toks.take ins
        ++ ((ftoks doc.kids).drop gf).take (gt - gf) ++ sl.toks.drop ins ++ (ftoks doc.kids).drop t ∧
    t ≤ fsize doc.kids ∧ doc'.sameMarkup doc = true := by
  sorry

/-- **add-mark step** -/
theorem apply_addMark_toks (S : Schema) (doc doc' : Node) (f t : Nat) (m : Mark)
    (h : S.apply (.addMark f t m) doc = .ok doc') :
    ftoks doc'.kids = addMarkToks S m f t (S.tyOf doc) (ftoks doc.kids) ∧ doc'.sameMarkup doc = true := by
  sorry

/-- **remove-mark step** -/
theorem apply_removeMark_toks (S : Schema) (doc doc' : Node) (f t : Nat) (m : Mark)
    (h : S.apply (.removeMark f t m) doc = .ok doc') :
    ftoks doc'.kids = removeMarkToks S m f t (S.tyOf doc) (ftoks doc.kids) ∧ doc'.sameMarkup doc = true := by
  sorry

/-- **node-mark and attribute steps change only the addressed token** (its marks resp. attributes;
    type kept), every other token is untouched -/
theorem apply_nodeStep_toks (S : Schema) (doc doc' : Node) (pos : Nat) (st : Step)
    (hst : (∃ m, st = .addNodeMark pos m) ∨ (∃ m, st = .removeNodeMark pos m) ∨ (∃ n v, st = .attr pos n v))
    (h : S.apply st doc = .ok doc') :
    pos < fsize doc.kids ∧
    (ftoks doc'.kids).take pos = (ftoks doc.kids).take pos ∧
    (ftoks doc'.kids).drop (pos + 1) = (ftoks doc.kids).drop (pos + 1) ∧
    ((ftoks doc'.kids).getD pos Tok.cl).shape = ((ftoks doc.kids).getD pos Tok.cl).shape ∧
    doc'.sameMarkup doc = true := by
  sorry

/-- the marks the node-mark steps leave on the addressed token -/
theorem apply_addNodeMark_marks (S : Schema) (doc doc' : Node) (pos : Nat) (m : Mark)
    (hc : canonicalMarks S ((ftoks doc.kids).getD pos Tok.cl).marks = true)
    (h : S.apply (.addNodeMark pos m) doc = .ok doc') :
    ((ftoks doc'.kids).getD pos Tok.cl).marks = m.addToSet S ((ftoks doc.kids).getD pos Tok.cl).marks := by
  sorry

theorem apply_removeNodeMark_marks (S : Schema) (doc doc' : Node) (pos : Nat) (m : Mark)
    (hc : canonicalMarks S ((ftoks doc.kids).getD pos Tok.cl).marks = true)
    (h : S.apply (.removeNodeMark pos m) doc = .ok doc') :
    ((ftoks doc'.kids).getD pos Tok.cl).marks = m.removeFromSet ((ftoks doc.kids).getD pos Tok.cl).marks := by
  sorry

/-- **doc-attribute step**: content untouched -/
theorem apply_docAttr_toks (S : Schema) (doc doc' : Node) (n v : String)
    (h : S.apply (.docAttr n v) doc = .ok doc') : doc'.kids = doc.kids := by
  sorry

/-- mark steps keep the structure and text -/
theorem addMarkToks_shape (S : Schema) (m : Mark) (f t : Nat) (top : TypeId) (l : List Tok) :
    (addMarkToks S m f t top l).map Tok.shape = l.map Tok.shape := by
  sorry

theorem removeMarkToks_shape (S : Schema) (m : Mark) (f t : Nat) (top : TypeId) (l : List Tok) :
    (removeMarkToks S m f t top l).map Tok.shape = l.map Tok.shape := by
  sorry

end PM
