/- Proofs/Structure.lean — helper lemmas for the `covered_depths` / `lift_target` / `can_split`
   theorems of Props/C18.lean (model: PM/Structure.lean). -/
import PM.Structure
import Proofs.Resolve
import Proofs.Range
namespace PM

/-! ### Ancestor windows nestW -/

/-- children at different indices occupy disjoint stretches of the content -/
theorem child_before (l : List Node) {i j : Nat} (c : Node) (hij : i < j) (h : l[i]? = some c) :
    fsize (l.take i) + c.size ≤ fsize (l.take j) := by
  rw [← fsize_take_succ l i c h]; exact fsize_take_mono l hij

namespace Resolved
variable {doc : Node} {pos : Nat} {r : RPos}

/-- the window of the node at depth `j+1` lies strictly inside the window at depth `j` -/
theorem nest_step (R : Resolved doc pos r) (j : Nat) (hj : j < r.depth) :
    r.start j + 1 ≤ r.start (j + 1) ∧ r.end_ (j + 1) + 1 ≤ r.end_ j := by
  have E := R.entry j (by omega)
  obtain ⟨hc, hs⟩ := R.chain j hj
  have hle := child_size_le _ _ _ hc
  have hp : (r.entry j).pos = r.start j + fsize ((r.node j).kids.take (r.index j)) := E.pos_eq
  rw [start_succ, end_eq, end_eq, start_succ]
  omega

theorem nestW (R : Resolved doc pos r) (k : Nat) : ∀ d, k ≤ d → d ≤ r.depth →
    r.start k + (d - k) ≤ r.start d ∧ r.end_ d + (d - k) ≤ r.end_ k
  | 0, hk, _ => by
    have : k = 0 := by omega
    subst this; simp
  | d + 1, hk, hd => by
    rcases Nat.lt_or_ge k (d + 1) with h | h
    · have ih := R.nestW k d (by omega) (by omega)
      have st := R.nest_step d (by omega)
      omega
    · have : k = d + 1 := by omega
      subst this; simp

/-- the position lies in every ancestor window -/
theorem pos_in (R : Resolved doc pos r) (k : Nat) (hk : k ≤ r.depth) :
    r.start k ≤ pos ∧ pos ≤ r.end_ k := by
  have E := R.entry k hk
  have h1 : (r.entry k).pos = r.start k + _ := E.pos_eq
  have h2 := E.pos_le
  have h3 : pos ≤ r.start k + fsize (r.node k).kids := E.le_end
  rw [end_eq]; omega

theorem before_eq (_R : Resolved doc pos r) (d : Nat) (h1 : 1 ≤ d) (hd : d ≤ r.depth) :
    r.before d = some (r.start d - 1) := by
  obtain ⟨j, rfl⟩ : ∃ j, d = j + 1 := ⟨d - 1, by omega⟩
  simp [RPos.before, RPos.start, show j ≠ r.depth by omega, hd]

theorem after_eq (R : Resolved doc pos r) (d : Nat) (h1 : 1 ≤ d) (hd : d ≤ r.depth) :
    r.after d = some (r.end_ d + 1) := by
  obtain ⟨j, rfl⟩ : ∃ j, d = j + 1 := ⟨d - 1, by omega⟩
  have hc := (R.chain j (by omega)).2
  simp [RPos.after, RPos.end_, RPos.start, show j ≠ r.depth by omega, hd, hc]; omega

end Resolved

/-! ### Two positions of one document: windows at the same depth that meet belong to the same node -/

theorem pe_ext (a b : PE) (h1 : a.node = b.node) (h2 : a.index = b.index) (h3 : a.pos = b.pos) :
    a = b := by
  cases a; cases b; simp_all

/-- if some position `p` lies in the depth-`j` window of both resolved positions, the two paths
    are identical down to depth `j` (same nodes, same indices, same starts) -/
theorem same_entries {doc : Node} {pf pt : Nat} {f t : RPos}
    (Rf : Resolved doc pf f) (Rt : Resolved doc pt t) : ∀ (j p : Nat),
    j ≤ f.depth → j ≤ t.depth → f.start j ≤ p → p ≤ f.end_ j → t.start j ≤ p → p ≤ t.end_ j →
    f.node j = t.node j ∧ f.start j = t.start j ∧ ∀ i, i < j → f.entry i = t.entry i
  | 0, p, _, _, _, _, _, _ => by
    refine ⟨by rw [Rf.node_zero, Rt.node_zero], by simp [RPos.start], fun i hi => by omega⟩
  | j + 1, p, hjf, hjt, h1, h2, h3, h4 => by
    have nf := Rf.nest_step j (by omega)
    have nt := Rt.nest_step j (by omega)
    obtain ⟨hn, hs, he⟩ := same_entries Rf Rt j p (by omega) (by omega) (by omega) (by omega)
      (by omega) (by omega)
    have Ef := Rf.entry j (by omega)
    have Et := Rt.entry j (by omega)
    obtain ⟨hcf, hsf⟩ := Rf.chain j (by omega)
    obtain ⟨hct, hst⟩ := Rt.chain j (by omega)
    have hpf : (f.entry j).pos = f.start j + fsize ((f.node j).kids.take (f.index j)) := Ef.pos_eq
    have hpt : (t.entry j).pos = t.start j + fsize ((t.node j).kids.take (t.index j)) := Et.pos_eq
    rw [Resolved.start_succ] at h1 h3
    rw [Resolved.end_eq, Resolved.start_succ] at h2 h4
    rw [← hn] at hct hpt
    rw [← hs] at hpt
    -- the two child indices agree: otherwise the two children are disjoint
    have hidx : f.index j = t.index j := by
      rcases Nat.lt_trichotomy (f.index j) (t.index j) with h | h | h
      · have := child_before _ _ h hcf; omega
      · exact h
      · have := child_before _ _ h hct; omega
    have hent : f.entry j = t.entry j := by
      refine pe_ext _ _ hn hidx ?_
      rw [hpf, hpt, hidx]
    refine ⟨?_, ?_, ?_⟩
    · rw [← hidx, hcf] at hct
      exact Option.some.inj hct
    · rw [Resolved.start_succ, Resolved.start_succ, hent]
    · intro i hi
      rcases Nat.lt_or_ge i j with h | h
      · exact he i h
      · have : i = j := by omega
        subst this; exact hent

/-- … in the vocabulary of the accessors: same node, same index, same start and end at every
    depth up to `j` -/
theorem same_ancestors {doc : Node} {pf pt : Nat} {f t : RPos}
    (Rf : Resolved doc pf f) (Rt : Resolved doc pt t) (j p : Nat)
    (hjf : j ≤ f.depth) (hjt : j ≤ t.depth) (h1 : f.start j ≤ p) (h2 : p ≤ f.end_ j)
    (h3 : t.start j ≤ p) (h4 : p ≤ t.end_ j) (i : Nat) (hi : i ≤ j) :
    f.node i = t.node i ∧ f.start i = t.start i ∧ f.end_ i = t.end_ i ∧
      (i < j → f.index i = t.index i) := by
  obtain ⟨hn, hs, he⟩ := same_entries Rf Rt j p hjf hjt h1 h2 h3 h4
  have hnode : f.node i = t.node i := by
    rcases Nat.lt_or_ge i j with h | h
    · simp only [RPos.node, he i h]
    · have : i = j := by omega
      subst this; exact hn
  have hstart : f.start i = t.start i := by
    cases i with
    | zero => simp [RPos.start]
    | succ i => rw [Resolved.start_succ, Resolved.start_succ, he i (by omega)]
  refine ⟨hnode, hstart, ?_, fun h => ?_⟩
  · rw [Resolved.end_eq, Resolved.end_eq, hnode, hstart]
  · simp only [RPos.index, he i h]

/-! ### covered_depths -/

theorem coveredLoop_mem (S : Schema) (f t : RPos) : ∀ (n d : Nat), d ∈ coveredLoop S f t n →
    d < n ∧ coveredHit S f t d = true ∧ ∀ j, d ≤ j → j < n → coveredBreak S f t j = false
  | 0, d, h => by simp [coveredLoop] at h
  | n + 1, d, h => by
    unfold coveredLoop at h
    split at h
    · simp at h
    · rename_i hb
      have hb' : coveredBreak S f t n = false := by simpa using hb
      have rec_ : d ∈ coveredLoop S f t n →
          d < n + 1 ∧ coveredHit S f t d = true ∧
            ∀ j, d ≤ j → j < n + 1 → coveredBreak S f t j = false := by
        intro hm
        obtain ⟨h1, h2, h3⟩ := coveredLoop_mem S f t n d hm
        refine ⟨by omega, h2, fun j hj1 hj2 => ?_⟩
        rcases Nat.lt_or_ge j n with hlt | hge
        · exact h3 j hj1 hlt
        · have : j = n := by omega
          subst this; exact hb'
      split at h
      · rename_i hh
        rcases List.mem_cons.mp h with rfl | hm
        · refine ⟨by omega, hh, fun j hj1 hj2 => ?_⟩
          have : j = d := by omega
          subst this; exact hb'
        · exact rec_ hm
      · exact rec_ h

theorem coveredLoop_pairwise (S : Schema) (f t : RPos) : ∀ n : Nat,
    (coveredLoop S f t n).Pairwise (· > ·)
  | 0 => by simp [coveredLoop]
  | n + 1 => by
    unfold coveredLoop
    split
    · exact List.Pairwise.nil
    · split
      · refine List.Pairwise.cons (fun d hd => ?_) (coveredLoop_pairwise S f t n)
        exact (coveredLoop_mem S f t n d hd).1
      · exact coveredLoop_pairwise S f t n

theorem coveredBreak_of_isolating (S : Schema) (f t : RPos) (k : Nat)
    (h : S.isolating (f.node k) = true ∨ S.isolating (t.node k) = true) :
    coveredBreak S f t k = true := by
  unfold coveredBreak
  rcases h with h | h <;> simp [h]

/-- a depth that `covered_depths` reports: the two positions share all their ancestors strictly
    above it (same nodes, same windows) -/
theorem coveredHit_shared {doc : Node} {pf pt : Nat} {f t : RPos} (S : Schema)
    (Rf : Resolved doc pf f) (Rt : Resolved doc pt t) (d : Nat) (hdf : d ≤ f.depth)
    (hdt : d ≤ t.depth) (h : coveredHit S f t d = true) (i : Nat) (hi : i < d) :
    f.node i = t.node i ∧ f.start i = t.start i ∧ f.end_ i = t.end_ i := by
  unfold coveredHit at h
  simp only [Bool.or_eq_true, Bool.and_eq_true, beq_iff_eq, bne_iff_ne, ne_eq] at h
  rcases h with h | ⟨⟨_, hd0⟩, h⟩
  · -- the two depth-`d` nodes start at the same place
    have hf := Rf.pos_in d hdf
    have ht := Rt.pos_in d hdt
    have := same_ancestors Rf Rt d (f.start d) hdf hdt (Nat.le_refl _) (by omega) (by omega)
      (by rw [h]; omega) i (by omega)
    exact ⟨this.1, this.2.1, this.2.2.1⟩
  · -- `from`'s textblock is the first thing inside `to`'s depth-(d-1) ancestor
    obtain ⟨j, rfl⟩ : ∃ j, d = j + 1 := ⟨d - 1, by omega⟩
    simp only [Nat.add_sub_cancel] at h
    have Ef := Rf.entry j (by omega)
    have hp : (f.entry j).pos = f.start j + _ := Ef.pos_eq
    have hle : pf ≤ f.start j + fsize (f.node j).kids := Ef.le_end
    have hpl := Ef.pos_le
    rw [Resolved.start_succ] at h
    have ht := Rt.pos_in j (by omega)
    have := same_ancestors Rf Rt j (t.start j) (by omega) (by omega) (by omega)
      (by rw [Resolved.end_eq]; omega) (Nat.le_refl _) (by omega) i (by omega)
    exact ⟨this.1, this.2.1, this.2.2.1⟩

/-! ### lift_target -/

theorem liftHit_true {S : Schema} {f t : RPos} {rd : Nat} {content : List Node} {n : Nat}
    (h : liftHit S f t rd content n = some true) :
    n < rd ∧ S.nodeCanReplace (f.node n) (f.index n) (t.indexAfter n) content = some true := by
  unfold liftHit at h
  split at h
  · exact ⟨by assumption, h⟩
  · simp at h

theorem liftLoop_spec (S : Schema) (f t : RPos) (rd : Nat) (content : List Node) :
    ∀ (n d : Nat), liftLoop S f t rd content n = some (some d) →
      d ≤ n ∧ d < rd ∧
      S.nodeCanReplace (f.node d) (f.index d) (t.indexAfter d) content = some true ∧
      ∀ j, d < j → j ≤ n →
        S.isolating (f.node j) = false ∧
        S.canCut (f.node j) (f.index j) (t.indexAfter j) = some true
  | 0, d, h => by
    unfold liftLoop at h
    split at h
    · simp at h
    · rename_i hh
      simp only [Option.some.injEq] at h
      subst h
      obtain ⟨h1, h2⟩ := liftHit_true hh
      exact ⟨Nat.le_refl _, h1, h2, fun j hj1 hj2 => by omega⟩
    · simp at h
  | n + 1, d, h => by
    unfold liftLoop at h
    split at h
    · simp at h
    · rename_i hh
      simp only [Option.some.injEq] at h
      subst h
      obtain ⟨h1, h2⟩ := liftHit_true hh
      exact ⟨Nat.le_refl _, h1, h2, fun j hj1 hj2 => by omega⟩
    · split at h
      · simp at h
      · rename_i hiso
        have hiso' : S.isolating (f.node (n + 1)) = false := by simpa using hiso
        split at h
        · simp at h
        · simp at h
        · rename_i hcut
          obtain ⟨h1, h2, h3, h4⟩ := liftLoop_spec S f t rd content n d h
          refine ⟨by omega, h2, h3, fun j hj1 hj2 => ?_⟩
          rcases Nat.lt_or_ge j (n + 1) with hlt | hge
          · exact h4 j hj1 (by omega)
          · have : j = n + 1 := by omega
            subst this; exact ⟨hiso', hcut⟩

/-! ### can_split -/

theorem splitLoop_true (S : Schema) (r : RPos) (base : Nat) : ∀ n : Nat,
    splitLoop S r base n = some true →
      base + 1 ≤ r.depth ∧ ∀ j, base < j → j ≤ base + n → S.isolating (r.node j) = false
  | 0, h => by
    unfold splitLoop at h
    split at h
    · simp at h
    · exact ⟨by omega, fun j h1 h2 => by omega⟩
  | n + 1, h => by
    unfold splitLoop at h
    simp only at h
    split at h
    · simp at h
    · rename_i hiso
      have hiso' : S.isolating (r.node (base + n + 1)) = false := by simpa using hiso
      split at h
      · simp at h
      · simp at h
      · split at h
        · simp at h
        · obtain ⟨h1, h2⟩ := splitLoop_true S r base n h
          refine ⟨h1, fun j hj1 hj2 => ?_⟩
          rcases Nat.lt_or_ge j (base + n + 1) with hlt | hge
          · exact h2 j hj1 (by omega)
          · have : j = base + n + 1 := by omega
            subst this; exact hiso'

theorem canSplitR_true (S : Schema) (r : RPos) (depth : Nat) (h : canSplitR S r depth = some true) :
    1 ≤ depth ∧ depth ≤ r.depth ∧
      ∀ j, r.depth - depth + 1 ≤ j → j ≤ r.depth → S.isolating (r.node j) = false := by
  unfold canSplitR at h
  split at h
  · simp at h
  · rename_i hd
    simp only at h
    split at h
    · simp at h
    · rename_i hiso
      have hiso' : S.isolating (r.node r.depth) = false := by simpa [RPos.parent] using hiso
      split at h
      · simp at h
      · simp at h
      · split at h
        · simp at h
        · obtain ⟨h1, h2⟩ := splitLoop_true S r (r.depth - depth) (depth - 1) h
          refine ⟨by omega, by omega, fun j hj1 hj2 => ?_⟩
          rcases Nat.lt_or_ge j r.depth with hlt | hge
          · exact h2 j (by omega) (by omega)
          · have : j = r.depth := by omega
            subst this; exact hiso'

end PM
