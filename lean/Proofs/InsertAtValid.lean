/- Proofs/InsertAtValid.lean — `Slice.insert_at(pos, gap)` at a general position keeps payload validity:
   `insertAt_openValid` (any open depths; via `insertInto_open_valid`), closed levels `insertInto_closed_valid`,
   closed slices `insertAt_closed_openValid`.  Since the repair of `insert_into` (it validates the content it built:
   the two halves of a split text around the inserted content, adjacent texts joined) no condition on the schema is
   needed (`TextStable` was, while the test `can_replace(index, index, insert)` was not about the built content); a
   complete node that receives the gap is valid because its built content was validated.  Closed slices need nothing
   but valid nodes; slices with open sides: normal form of the slice content (for the cuts beside the spine). -/
import Proofs.FitAround
import Proofs.InsertSuccess
import Proofs.PlacementValid
import Proofs.MarkupSuccess
import Proofs.CommuteSuccessR
import Proofs.FlatInsertCore
set_option linter.unusedVariables false
namespace PM
open PM.FromDom (TextStable StEq)

/-! ### automaton: a text child may be put in where a text child is accepted -/

theorem textStable_P {S : Schema} (h : TextStable S) : TextStableP S := by
  intro t q q1 q2 h1 h2
  have e := (h t q q1 h1).matchType S.textTy
  rw [h2, h1] at e
  exact Option.some.inj e

/-- acceptance from a state -/
def accFrom (d : Dfa) (q : Nat) (ts : List TypeId) : Bool :=
  match d.run q ts with
  | some r => d.validEnd r
  | none => false

theorem accFrom_StEq {d : Dfa} {a b : Nat} (h : StEq d a b) (ts : List TypeId) : accFrom d a ts = accFrom d b ts := by
  cases ts with
  | nil => simp [accFrom, Dfa.run, h.2]
  | cons t ts => simp only [accFrom, Dfa.run, h.matchType t]

theorem accepts_append (d : Dfa) (xs ys : List TypeId) :
    d.accepts (xs ++ ys) = match d.run 0 xs with | some q => accFrom d q ys | none => false := by
  unfold Dfa.accepts accFrom
  rw [Dfa.run_append]
  cases d.run 0 xs <;> rfl

/-- where a text child stands, another one may be put in front of whatever else is accepted there -/
theorem validContent_text_front (S : Schema) (hst : TextStable S) (p : TypeId) (pre post X : List Node)
    (s s' : List Nat) (m : Marks)
    (h1 : S.validContent p (pre ++ .text s m :: post) = true) (h2 : S.validContent p (pre ++ X) = true) :
    S.validContent p (pre ++ .text s' m :: X) = true := by
  have hm := allowsMarks_of_valid S _ _ h1 (.text s m) (by simp)
  simp only [Schema.validContent, Bool.and_eq_true] at h1 h2 ⊢
  constructor
  · have a1 := h1.1
    have a2 := h2.1
    rw [types_append, accepts_append] at a1 a2 ⊢
    cases hq : (S.dfa p).run 0 (S.types pre) with
    | none => rw [hq] at a1; simp at a1
    | some q =>
      rw [hq] at a1 a2
      simp only at a1 a2 ⊢
      have e1 : S.types (Node.text s m :: post) = S.textTy :: S.types post := rfl
      have e2 : S.types (Node.text s' m :: X) = S.textTy :: S.types X := rfl
      rw [e1] at a1
      rw [e2]
      cases hq1 : (S.dfa p).matchType q S.textTy with
      | none => simp [accFrom, Dfa.run, hq1] at a1
      | some q1 =>
        have hs := hst p q q1 hq1
        have : accFrom (S.dfa p) q (S.textTy :: S.types X) = accFrom (S.dfa p) q1 (S.types X) := by
          simp only [accFrom, Dfa.run, hq1]
        rw [this, accFrom_StEq hs]
        exact a2
  · simp only [List.all_append, List.all_cons, Bool.and_eq_true] at h2 ⊢
    exact ⟨h2.2.1, by simpa [Node.marks] using hm, h2.2.2⟩

/-! ### the flat case at a closed level -/

/-- the new child list is the merged form of any list of non-empty nodes with the same tokens -/
theorem flat_result_eq (level gap Z l r : List Node) (d0 : Nat) (hn : fnorm level = true) (hgn : fnorm gap = true)
    (hl : fcut level 0 d0 = .ok l) (hr : fcut level d0 (fsize level) = .ok r) (hd : depthAt level d0 = 0)
    (hle : d0 ≤ fsize level) (hZn : fnormKids Z = true)
    (hZ : ftoks Z = (ftoks level).take d0 ++ ftoks gap ++ (ftoks level).drop d0) :
    fappend (fappend l gap) r = fromArray Z := by
  apply ftoks_inj _ _ (fappend_norm _ _ (fappend_norm _ _ (fcut_norm _ _ _ _ hn hl) hgn) (fcut_norm _ _ _ _ hn hr))
    (fromArray_norm _ hZn)
  rw [fappend_toks, fappend_toks, fromArray_toks, hZ, fcut_prefix_toks hl hle hd, fcut_suffix_toks hr hd]

theorem flatInsert_cuts {S : Schema} {gap : List Node} {parent : Option TypeId} {level : List Node} {d idx : Nat}
    {c : List Node} (h : flatInsert S gap parent level d idx = .ok (some c)) :
    ∃ l r, fcut level 0 d = .ok l ∧ fcut level d (fsize level) = .ok r ∧ c = fappend (fappend l gap) r ∧
      ∀ p, parent = some p → S.validContent p c = true :=
  flatInsert_ok_iff.1 h

/-- the flat case at a closed level: the result consists of valid nodes, and the receiving node accepts it (that was
    tested on the built content itself) -/
theorem flatInsert_closed (S : Schema) (gap : List Node) (hg : S.checkKids gap = true)
    (pre rest : List Node) (parent : Option TypeId) (d : Nat) (c : List Node)
    (hk : S.checkKids (pre ++ rest) = true)
    (hcase : d = 0 ∨ ∃ s m post, rest = .text s m :: post ∧ 0 < d ∧ d < s.length)
    (h : flatInsert S gap parent (pre ++ rest) (fsize pre + d) pre.length = .ok (some c)) :
    S.checkKids c = true ∧ ∀ p, parent = some p → S.validContent p c = true := by
  obtain ⟨l, r, hl, hr, hc, hcr⟩ := flatInsert_cuts h
  have hd : depthAt (pre ++ rest) (fsize pre + d) = 0 := by
    rw [depthAt_append_pre]
    rcases hcase with h0 | ⟨s, m, post, e, h1, h2⟩
    · subst h0; simp
    · subst e
      exact depthAt_nonelem_cons _ _ _ (by simpa using h2) (by intro ty a m' k hh; cases hh)
  refine ⟨?_, hcr⟩
  subst hc
  have h1 := fcut_checkKids_flat S _ l 0 _ hk (depthAt_zero _) hd hl
  have h2 := fcut_checkKids_flat S _ r _ _ hk hd (depthAt_fsize _) hr
  exact fappend_checkKids S _ _ (fappend_checkKids S _ _ h1 hg) h2

/-! ### closed levels -/

theorem insertInto_closed_valid (S : Schema) (gap : List Node) (hg : S.checkKids gap = true) :
    ∀ (rest pre : List Node) (parent : Option TypeId) (d : Nat) (c : List Node),
    S.checkKids (pre ++ rest) = true →
    insertInto S gap parent (pre ++ rest) (fsize pre + d) pre.length rest d 0 0 = .ok (some c) →
    S.checkKids c = true ∧
      ∀ p, parent = some p → S.validContent p (pre ++ rest) = true → S.validContent p c = true
  | [], pre, parent, d, c, hk, h => by
    unfold insertInto at h
    split at h
    · rename_i hd
      have := flatInsert_closed S gap hg pre [] parent d c hk (Or.inl hd) h
      exact ⟨this.1, fun p hp _ => this.2 p hp⟩
    · simp at h
  | n :: ns, pre, parent, d, c, hk, h => by
    unfold insertInto at h
    split at h
    · rename_i hd
      have := flatInsert_closed S gap hg pre (n :: ns) parent d c hk (Or.inl hd) h
      exact ⟨this.1, fun p hp _ => this.2 p hp⟩
    · rename_i hd
      split at h
      · rename_i hsz
        have e1 : pre ++ n :: ns = (pre ++ [n]) ++ ns := by simp
        have e2 : fsize pre + d = fsize (pre ++ [n]) + (d - n.size) := by
          rw [fsize_append]; simp only [fsize_cons, fsize_nil]; omega
        have e3 : pre.length + 1 = (pre ++ [n]).length := by simp
        rw [e1, e2, e3] at h
        have := insertInto_closed_valid S gap hg ns (pre ++ [n]) parent (d - n.size) c
          (by rw [← e1]; exact hk) h
        rw [← e1] at this
        exact this
      · rename_i hsz
        cases n with
        | text s m =>
          simp only at h
          have := flatInsert_closed S gap hg pre (.text s m :: ns) parent d c hk
            (Or.inr ⟨s, m, ns, rfl, by omega, by simpa using hsz⟩) h
          exact ⟨this.1, fun p hp _ => this.2 p hp⟩
        | leaf t a m =>
          exfalso
          simp only [Node.size] at hsz
          omega
        | elem ty a m kids =>
          simp only [Nat.lt_irrefl, decide_false, Bool.false_and, Bool.or_self, Bool.false_eq_true, if_false] at h
          have hkk := hk
          simp only [checkKids_append, checkKids_cons, checkNode_elem, Bool.and_eq_true] at hkk
          split at h
          · rename_i inner hin
            simp only [Except.ok.injEq, Option.some.injEq] at h
            have ih := insertInto_closed_valid S gap hg kids [] (some ty) (d - 1) inner
              (by simpa using hkk.2.1.2) (by simpa using hin)
            have hset : (pre ++ Node.elem ty a m kids :: ns).set pre.length (.elem ty a m inner) =
                pre ++ Node.elem ty a m inner :: ns := by simp
            rw [hset] at h
            subst h
            constructor
            · simp only [checkKids_append, checkKids_cons, checkNode_elem, Bool.and_eq_true]
              exact ⟨hkk.1, ⟨⟨ih.2 ty rfl (by simpa using hkk.2.1.1.1), hkk.2.1.1.2⟩, ih.1⟩, hkk.2.2⟩
            · intro p hp hv
              rw [← hv]
              apply validContent_congr
              simp [Schema.tyOf, Node.tyOr, Node.marks]
          · simp at h
          · simp at h
termination_by rest => sizeOf rest

/-- `insert_into` on a closed child list (no open side): the result consists of valid nodes -/
theorem insertInto_closed_top (S : Schema) (gap : List Node) (hg : S.checkKids gap = true)
    (parent : Option TypeId) (level c : List Node) (d : Nat)
    (hk : S.checkKids level = true) (h : insertInto S gap parent level d 0 level d 0 0 = .ok (some c)) :
    S.checkKids c = true ∧ ∀ p, parent = some p → S.validContent p level = true → S.validContent p c = true := by
  have := insertInto_closed_valid S gap hg level [] parent d c (by simpa using hk)
    (by simpa using h)
  simpa using this

/-- **`Slice.insert_at(pos, gap)` keeps payload validity, closed slices** (`openStart = openEnd = 0`): any position,
    including positions strictly inside text children and arbitrarily deep inside the slice's nodes; no condition on
    the schema, none on normal forms -/
theorem insertAt_closed_openValid (S : Schema) (sl ins : Slice) (pos : Nat) (gap : List Node)
    (hg : S.checkKids gap = true)
    (h0 : sl.openStart = 0) (h1 : sl.openEnd = 0)
    (hv : openValid S sl.openStart sl.openEnd sl.content = true)
    (h : sl.insertAt S pos gap = .ok (some ins)) :
    openValid S ins.openStart ins.openEnd ins.content = true := by
  rw [insertAt_of_le (insertAt_ok h).1] at h
  unfold Slice.insertAtIn at h
  rw [h0, h1] at h hv
  simp only [Nat.add_zero] at h
  split at h
  · rename_i c hc
    simp only [Except.ok.injEq, Option.some.injEq] at h
    subst h
    simp only [openValid, rightOpenValid] at hv ⊢
    exact (insertInto_closed_top S gap hg none sl.content c pos hv hc).1
  · simp at h
  · simp at h

/-! ### flat insertion at a level with open sides -/

/-- the result of a flat insertion at offset `d0` of `level` -/
def FlatRes (gap level : List Node) (d0 : Nat) (c : List Node) : Prop :=
  ∃ l r, fcut level 0 d0 = .ok l ∧ fcut level d0 (fsize level) = .ok r ∧ c = fappend (fappend l gap) r

theorem flat_checkKids (S : Schema) (gap : List Node) (hg : S.checkKids gap = true) (level : List Node) (d0 : Nat)
    (c : List Node) (hk : S.checkKids level = true) (hd : depthAt level d0 = 0) (h : FlatRes gap level d0 c) :
    S.checkKids c = true := by
  obtain ⟨l, r, hl, hr, hc⟩ := h
  subst hc
  have h1 := fcut_checkKids_flat S _ l 0 _ hk (depthAt_zero _) hd hl
  have h2 := fcut_checkKids_flat S _ r _ _ hk hd (depthAt_fsize _) hr
  exact fappend_checkKids S _ _ (fappend_checkKids S _ _ h1 hg) h2

theorem flat_right (S : Schema) (gap : List Node) (hg : S.checkKids gap = true) (ob : Nat) (level : List Node)
    (d0 : Nat) (c : List Node) (hn : fnormKids level = true) (hv : rightOpenValid S ob level = true)
    (hd : depthAt level d0 = 0) (hb : d0 + ob ≤ fsize level) (h : FlatRes gap level d0 c) :
    rightOpenValid S ob c = true := by
  cases ob with
  | zero =>
    simp only [rightOpenValid] at hv ⊢
    exact flat_checkKids S gap hg level d0 c hv hd h
  | succ b =>
    obtain ⟨init, t, a, m, k, e, h1, h2, h3⟩ := rightOpenValid_succ_last S b level hv
    subst e
    have hsz : fsize [Node.elem t a m k] = 2 + fsize k := by simp
    rw [fsize_append, hsz] at hb
    have hle : d0 ≤ fsize init := by
      apply Classical.byContradiction
      intro hlt
      have e : d0 = fsize init + (d0 - fsize init) := by omega
      rw [e, depthAt_append_pre, depthAt_cons, if_neg (by omega),
        if_neg (by simp only [Node.size_elem]; omega)] at hd
      simp only at hd
      omega
    obtain ⟨l, r, hl, hr, hc⟩ := h
    simp only [fnormKids_append, Bool.and_eq_true] at hn
    rw [fcut_left_sfx init _ d0 hn.1 (by rw [hsz]; omega) hle] at hl
    rw [fcut_right_sfx init _ d0 hn.1 hn.2 (by rw [hsz]; omega) hle] at hr
    cases hr' : fcut init d0 (fsize init) with
    | error e => rw [hr'] at hr; simp [Except.map] at hr
    | ok r' =>
      rw [hr'] at hr
      simp only [Except.map, Except.ok.injEq] at hr
      subst hr; subst hc
      have hd' : depthAt init d0 = 0 := by rw [← depthAt_append_sfx init _ d0 hle]; exact hd
      rw [fappend_sfx, rightOpenValid_snoc]
      have := flat_checkKids S gap hg init d0 _ h1 hd' ⟨l, r', hl, hr', rfl⟩
      simp [this, h2, h3]

/-- the first node of a left-open level, when the level continues to the right or the right side is closed -/
theorem openValid_succ_head (S : Schema) (a ob : Nat) (x : Node) (Rf : List Node) (hne : Rf ≠ [] ∨ ob = 0)
    (h : openValid S (a + 1) ob (x :: Rf) = true) :
    ∃ ty at_ m k, x = .elem ty at_ m k ∧ canonicalMarks S m = true ∧ leftOpenValid S a k = true ∧
      rightOpenValid S ob Rf = true := by
  cases ob with
  | zero =>
    cases x with
    | elem ty at_ m k =>
      simp only [openValid, leftOpenValid, Bool.and_eq_true] at h
      exact ⟨ty, at_, m, k, rfl, h.1.1, h.1.2, by simpa [rightOpenValid] using h.2⟩
    | text s m => simp [openValid, leftOpenValid] at h
    | leaf t a' m => simp [openValid, leftOpenValid] at h
  | succ b =>
    cases Rf with
    | nil => simp at hne
    | cons n rest =>
      cases x with
      | elem ty at_ m k =>
        simp only [openValid, Bool.and_eq_true] at h
        exact ⟨ty, at_, m, k, rfl, h.1.1, h.1.2, h.2⟩
      | text s m => simp [openValid] at h
      | leaf t a' m => simp [openValid] at h

theorem flat_open (S : Schema) (gap : List Node) (hg : S.checkKids gap = true) (oa ob : Nat) (level : List Node)
    (d0 : Nat) (c : List Node) (hn : fnormKids level = true) (hv : openValid S oa ob level = true)
    (hd : depthAt level d0 = 0) (ha : oa ≤ d0) (hb : d0 + ob ≤ fsize level) (h : FlatRes gap level d0 c) :
    openValid S oa ob c = true := by
  cases oa with
  | zero =>
    rw [openValid_zero_left] at hv ⊢
    exact flat_right S gap hg ob level d0 c hn hv hd hb h
  | succ a =>
    cases level with
    | nil => simp at hb; omega
    | cons x Rf =>
      have hxe : ∃ ty at_ m k, x = Node.elem ty at_ m k := by
        cases x with
        | elem ty at_ m k => exact ⟨ty, at_, m, k, rfl⟩
        | text s m => cases ob <;> simp [openValid, leftOpenValid] at hv
        | leaf t a' m => cases ob <;> simp [openValid, leftOpenValid] at hv
      obtain ⟨ty, at_, m, k, rfl⟩ := hxe
      have hsz : (Node.elem ty at_ m k).size ≤ d0 := by
        apply Classical.byContradiction
        intro hlt
        rw [depthAt_cons, if_neg (by omega), if_neg hlt] at hd
        simp only at hd
        omega
      simp only [fsize_cons] at hb
      have hne : Rf ≠ [] ∨ ob = 0 := by
        cases Rf with
        | nil => right; simp only [fsize_nil] at hb; omega
        | cons y ys => left; simp
      obtain ⟨ty', at', m', k', e, hm, hk, hr⟩ := openValid_succ_head S a ob _ Rf hne hv
      cases e
      simp only [fnormKids_cons, Bool.and_eq_true] at hn
      obtain ⟨l, r, hl, hr', hc⟩ := h
      have hQ : fnormKids [Node.elem ty at_ m k] = true := by simp [fnormKids, hn.1]
      have e0 : d0 = fsize [Node.elem ty at_ m k] + (d0 - (Node.elem ty at_ m k).size) := by simp at hsz ⊢; omega
      have hl2 := fcut_left_pre [Node.elem ty at_ m k] Rf (d0 - (Node.elem ty at_ m k).size) hQ (by simp)
        (by omega)
      have hr2 := fcut_right_pre [Node.elem ty at_ m k] Rf (d0 - (Node.elem ty at_ m k).size) hQ (by simp) hn.2
      rw [← e0] at hl2 hr2
      simp only [List.singleton_append] at hl2 hr2
      rw [hl2] at hl
      rw [hr2] at hr'
      cases hl' : fcut Rf 0 (d0 - (Node.elem ty at_ m k).size) with
      | error e => rw [hl'] at hl; simp [Except.map] at hl
      | ok l' =>
        rw [hl'] at hl
        simp only [Except.map, Except.ok.injEq] at hl
        subst hl; subst hc
        obtain ⟨_, e1, rfl⟩ := fappend_cons_elem_fit ty at_ m k l' gap
        rw [e1]
        obtain ⟨_, e2, rfl⟩ := fappend_cons_elem_fit ty at_ m k (fappend l' gap) r
        rw [e2]
        have hd' : depthAt Rf (d0 - (Node.elem ty at_ m k).size) = 0 := by
          rw [depthAt_cons, if_neg (by simp at hsz; omega), if_pos hsz] at hd
          exact hd
        have := flat_right S gap hg ob Rf (d0 - (Node.elem ty at_ m k).size) _ hn.2 hr hd' (by omega)
          ⟨l', r, hl', hr', rfl⟩
        exact openValid_cons_elem hm hk this

/-! ### replacing the content of one child of a level with open sides -/

theorem rightOpenValid_cons_ne (S : Schema) (b : Nat) (x : Node) (l : List Node) (hl : l ≠ []) :
    rightOpenValid S (b + 1) (x :: l) = (S.checkNode x && rightOpenValid S (b + 1) l) := by
  cases l with
  | nil => exact absurd rfl hl
  | cons y r => simp [rightOpenValid]

/-- a child that is not on the open end spine is a valid node and may be replaced by any valid node -/
theorem rightOpenValid_off (S : Schema) (ob : Nat) (n : Node) (ns : List Node) (hoff : ob = 0 ∨ ns ≠ []) :
    ∀ pre : List Node, rightOpenValid S ob (pre ++ n :: ns) = true →
      S.checkNode n = true ∧ ∀ n', S.checkNode n' = true → rightOpenValid S ob (pre ++ n' :: ns) = true := by
  cases ob with
  | zero =>
    intro pre hv
    simp only [rightOpenValid, checkKids_append, checkKids_cons, Bool.and_eq_true] at hv ⊢
    exact ⟨hv.2.1, fun n' hn' => ⟨hv.1, hn', hv.2.2⟩⟩
  | succ b =>
    have hne : ns ≠ [] := by rcases hoff with h | h; · omega
                             · exact h
    intro pre
    induction pre with
    | nil =>
      intro hv
      simp only [List.nil_append] at hv ⊢
      rw [rightOpenValid_cons_ne S b n ns hne, Bool.and_eq_true] at hv
      refine ⟨hv.1, fun n' hn' => ?_⟩
      rw [rightOpenValid_cons_ne S b n' ns hne, hn', hv.2]; rfl
    | cons x pre' ih =>
      intro hv
      simp only [List.cons_append] at hv ⊢
      rw [rightOpenValid_cons_ne S b x _ (by simp), Bool.and_eq_true] at hv
      obtain ⟨h1, h2⟩ := ih hv.2
      refine ⟨h1, fun n' hn' => ?_⟩
      rw [rightOpenValid_cons_ne S b x _ (by simp), hv.1, h2 n' hn']; rfl

theorem set_right (S : Schema) (ob : Nat) (pre ns : List Node) (ty : TypeId) (a : Attrs) (m : Marks)
    (kids : List Node) (hv : rightOpenValid S ob (pre ++ .elem ty a m kids :: ns) = true) :
    if (decide (0 < ob) && ns.isEmpty) = true then
      rightOpenValid S (ob - 1) kids = true ∧ ∀ inner, rightOpenValid S (ob - 1) inner = true →
        rightOpenValid S ob (pre ++ .elem ty a m inner :: ns) = true
    else
      S.checkNode (.elem ty a m kids) = true ∧ ∀ inner, S.checkNode (.elem ty a m inner) = true →
        rightOpenValid S ob (pre ++ .elem ty a m inner :: ns) = true := by
  split
  · rename_i hc
    simp only [Bool.and_eq_true, decide_eq_true_eq, List.isEmpty_iff] at hc
    obtain ⟨hpos, rfl⟩ := hc
    obtain ⟨b, rfl⟩ : ∃ b, ob = b + 1 := ⟨ob - 1, by omega⟩
    simp only [Nat.add_sub_cancel]
    rw [rightOpenValid_snoc, Bool.and_eq_true, Bool.and_eq_true] at hv
    refine ⟨hv.2.2, fun inner hi => ?_⟩
    rw [rightOpenValid_snoc, hv.1, hv.2.1, hi]; rfl
  · rename_i hc
    have hoff : ob = 0 ∨ ns ≠ [] := by
      simp only [Bool.and_eq_true, decide_eq_true_eq, List.isEmpty_iff, not_and] at hc
      rcases Nat.eq_zero_or_pos ob with h | h
      · exact Or.inl h
      · exact Or.inr (hc h)
    obtain ⟨h1, h2⟩ := rightOpenValid_off S ob _ ns hoff pre hv
    exact ⟨h1, fun inner hi => h2 _ hi⟩

theorem set_open (S : Schema) (oa ob : Nat) (pre ns : List Node) (ty : TypeId) (a : Attrs) (m : Marks)
    (kids : List Node) (hv : openValid S oa ob (pre ++ .elem ty a m kids :: ns) = true) :
    if ((decide (0 < oa) && pre.isEmpty) || (decide (0 < ob) && ns.isEmpty)) = true then
      openValid S (if (decide (0 < oa) && pre.isEmpty) = true then oa - 1 else 0)
          (if (decide (0 < ob) && ns.isEmpty) = true then ob - 1 else 0) kids = true ∧
        ∀ inner, openValid S (if (decide (0 < oa) && pre.isEmpty) = true then oa - 1 else 0)
          (if (decide (0 < ob) && ns.isEmpty) = true then ob - 1 else 0) inner = true →
          openValid S oa ob (pre ++ .elem ty a m inner :: ns) = true
    else
      S.checkNode (.elem ty a m kids) = true ∧ ∀ inner, S.checkNode (.elem ty a m inner) = true →
        openValid S oa ob (pre ++ .elem ty a m inner :: ns) = true := by
  cases oa with
  | zero =>
    have hr := set_right S ob pre ns ty a m kids (by rw [openValid_zero_left] at hv; exact hv)
    simp only [Nat.lt_irrefl, decide_false, Bool.false_and, Bool.false_or, Bool.false_eq_true, if_false,
      openValid_zero_left]
    split
    · rename_i hc
      rw [if_pos hc] at hr
      exact hr
    · rename_i hc
      rw [if_neg hc] at hr
      exact hr
  | succ a' =>
    cases pre with
    | nil =>
      simp only [List.nil_append, Nat.zero_lt_succ, decide_true, List.isEmpty_nil, Bool.and_self, Bool.true_or,
        if_true, Nat.add_sub_cancel] at hv ⊢
      cases ns with
      | nil =>
        cases ob with
        | zero =>
          simp only [Nat.lt_irrefl, decide_false, Bool.false_and, Bool.false_eq_true, if_false,
            openValid_zero_right]
          simp only [openValid, leftOpenValid, Bool.and_eq_true] at hv ⊢
          exact ⟨hv.1.2, fun inner hi => ⟨⟨hv.1.1, hi⟩, hv.2⟩⟩
        | succ b =>
          simp only [Nat.zero_lt_succ, decide_true, List.isEmpty_nil, Bool.and_self, if_true, Nat.add_sub_cancel]
          simp only [openValid, Bool.and_eq_true] at hv ⊢
          exact ⟨hv.2, fun inner hi => ⟨hv.1, hi⟩⟩
      | cons y ys =>
        simp only [List.isEmpty_cons, Bool.and_false, Bool.false_eq_true, if_false, openValid_zero_right]
        obtain ⟨ty', at', m', k', e, hm, hk, hr⟩ := openValid_succ_head S a' ob _ (y :: ys) (Or.inl (by simp)) hv
        cases e
        exact ⟨hk, fun inner hi => openValid_cons_elem hm hi hr⟩
    | cons x pre' =>
      simp only [List.cons_append, List.isEmpty_cons, Bool.and_false, Bool.false_or, Bool.false_eq_true, if_false,
        openValid_zero_left] at hv ⊢
      obtain ⟨ty', at', m', k', e, hm, hk, hr⟩ := openValid_succ_head S a' ob x _ (Or.inl (by simp)) hv
      subst e
      have hs := set_right S ob pre' ns ty a m kids hr
      split
      · rename_i hc
        rw [if_pos hc] at hs
        exact ⟨hs.1, fun inner hi => openValid_cons_elem hm hk (hs.2 inner hi)⟩
      · rename_i hc
        rw [if_neg hc] at hs
        exact ⟨hs.1, fun inner hi => openValid_cons_elem hm hk (hs.2 inner hi)⟩

/-! ### the general descent -/

theorem insertInto_open_valid (S : Schema) (gap : List Node) (hg : S.checkKids gap = true) :
    ∀ (rest pre : List Node) (d oa ob : Nat) (c : List Node),
    fnorm (pre ++ rest) = true → openValid S oa ob (pre ++ rest) = true →
    oa ≤ fsize pre + d → fsize pre + d + ob ≤ fsize (pre ++ rest) →
    insertInto S gap none (pre ++ rest) (fsize pre + d) pre.length rest d oa ob = .ok (some c) →
    openValid S oa ob c = true
  | [], pre, d, oa, ob, c, hn, hv, ha, hb, h => by
    unfold insertInto at h
    split at h
    · rename_i hd0
      obtain ⟨l, r, hl, hr, hc, _⟩ := flatInsert_cuts h
      exact flat_open S gap hg oa ob _ _ c (fnormKids_of_fnorm hn) hv
        (by rw [depthAt_append_pre]; subst hd0; simp) ha hb ⟨l, r, hl, hr, hc⟩
    · simp at h
  | n :: ns, pre, d, oa, ob, c, hn, hv, ha, hb, h => by
    unfold insertInto at h
    split at h
    · rename_i hd0
      obtain ⟨l, r, hl, hr, hc, _⟩ := flatInsert_cuts h
      exact flat_open S gap hg oa ob _ _ c (fnormKids_of_fnorm hn) hv
        (by rw [depthAt_append_pre]; subst hd0; simp) ha hb ⟨l, r, hl, hr, hc⟩
    · rename_i hd0
      split at h
      · rename_i hsz
        have e1 : pre ++ n :: ns = (pre ++ [n]) ++ ns := by simp
        have e2 : fsize pre + d = fsize (pre ++ [n]) + (d - n.size) := by
          rw [fsize_append]; simp only [fsize_cons, fsize_nil]; omega
        have e3 : pre.length + 1 = (pre ++ [n]).length := by simp
        rw [e1, e2, e3] at h
        have := insertInto_open_valid S gap hg ns (pre ++ [n]) (d - n.size) oa ob c
          (by rw [← e1]; exact hn) (by rw [← e1]; exact hv) (by rw [← e2]; exact ha)
          (by rw [← e1, ← e2]; exact hb) h
        exact this
      · rename_i hsz
        cases n with
        | text s m =>
          simp only at h
          obtain ⟨l, r, hl, hr, hc, _⟩ := flatInsert_cuts h
          exact flat_open S gap hg oa ob _ _ c (fnormKids_of_fnorm hn) hv
            (by rw [depthAt_append_pre]
                exact depthAt_nonelem_cons _ _ _ (by omega) (by intro ty a m' k hh; cases hh))
            ha hb ⟨l, r, hl, hr, hc⟩
        | leaf t a m =>
          exfalso
          simp only [Node.size] at hsz
          omega
        | elem ty a m kids =>
          have eS : (pre.length == 0) = pre.isEmpty := by cases pre <;> simp
          have eE : (pre.length == (pre ++ Node.elem ty a m kids :: ns).length - 1) = ns.isEmpty := by
            cases ns with
            | nil => simp
            | cons y ys => simp
          simp only [eS, eE] at h
          have hset := set_open S oa ob pre ns ty a m kids hv
          have hnk := fnormKids_of_fnorm hn
          simp only [fnormKids_append, fnormKids_cons, Bool.and_eq_true] at hnk
          have hkn : fnorm kids = true := by
            have := hnk.2.1
            simpa [Node.norm, fnorm] using this
          simp only [Node.size_elem] at hsz
          rw [fsize_append] at hb
          simp only [fsize_cons, Node.size_elem] at hb
          by_cases hsp : ((decide (0 < oa) && pre.isEmpty) || (decide (0 < ob) && ns.isEmpty)) = true
          · rw [if_pos hsp] at hset h
            split at h
            · rename_i inner hin
              simp only [Except.ok.injEq, Option.some.injEq] at h
              have hs2 : (pre ++ Node.elem ty a m kids :: ns).set pre.length (.elem ty a m inner) =
                  pre ++ Node.elem ty a m inner :: ns := by simp
              rw [hs2] at h
              subst h
              apply hset.2
              have ha' : (if (decide (0 < oa) && pre.isEmpty) = true then oa - 1 else 0) ≤ fsize ([] : List Node) + (d - 1) := by
                split
                · rename_i hc
                  simp only [Bool.and_eq_true, decide_eq_true_eq, List.isEmpty_iff] at hc
                  obtain ⟨_, rfl⟩ := hc
                  simp only [fsize_nil] at ha ⊢
                  omega
                · omega
              have hb' : fsize ([] : List Node) + (d - 1) +
                  (if (decide (0 < ob) && ns.isEmpty) = true then ob - 1 else 0) ≤ fsize ([] ++ kids) := by
                simp only [fsize_nil, List.nil_append, Nat.zero_add]
                split
                · rename_i hc
                  simp only [Bool.and_eq_true, decide_eq_true_eq, List.isEmpty_iff] at hc
                  obtain ⟨_, rfl⟩ := hc
                  simp only [fsize_nil] at hb
                  omega
                · omega
              exact insertInto_open_valid S gap hg kids [] (d - 1) _ _ inner (by simpa using hkn)
                (by simpa using hset.1) ha' hb' (by simpa using hin)
            · simp at h
            · simp at h
          · rw [if_neg hsp] at hset h
            have hsp' : (decide (0 < oa) && pre.isEmpty) = false ∧ (decide (0 < ob) && ns.isEmpty) = false := by
              simpa using hsp
            rw [hsp'.1, hsp'.2] at h
            simp only [Bool.false_eq_true, if_false] at h
            split at h
            · rename_i inner hin
              simp only [Except.ok.injEq, Option.some.injEq] at h
              have hs2 : (pre ++ Node.elem ty a m kids :: ns).set pre.length (.elem ty a m inner) =
                  pre ++ Node.elem ty a m inner :: ns := by simp
              rw [hs2] at h
              subst h
              apply hset.2
              have hck := hset.1
              simp only [checkNode_elem, Bool.and_eq_true] at hck ⊢
              have ih := insertInto_closed_top S gap hg (some ty) kids inner (d - 1) hck.2 hin
              exact ⟨⟨ih.2 ty rfl hck.1.1, hck.1.2⟩, ih.1⟩
            · simp at h
            · simp at h
termination_by rest => sizeOf rest

/-- **`Slice.insert_at(pos, gap)` keeps payload validity** (any open depths, any position; no condition on the schema;
    a position beyond the slice's size is refused by `insert_at` itself) -/
theorem insertAt_openValid (S : Schema) (sl ins : Slice) (pos : Nat) (gap : List Node)
    (hg : S.checkKids gap = true) (hn : fnorm sl.content = true)
    (hv : openValid S sl.openStart sl.openEnd sl.content = true)
    (h : sl.insertAt S pos gap = .ok (some ins)) :
    openValid S ins.openStart ins.openEnd ins.content = true := by
  have hpos := (insertAt_ok h).1
  rw [insertAt_of_le (insertAt_ok h).1] at h
  unfold Slice.insertAtIn at h
  unfold Slice.size at hpos
  split at h
  · rename_i c hc
    simp only [Except.ok.injEq, Option.some.injEq] at h
    subst h
    exact insertInto_open_valid S gap hg sl.content [] (pos + sl.openStart) _ _ c (by simpa using hn)
      (by simpa using hv) (by simp) (by simp only [fsize_nil, List.nil_append]; omega) (by simpa using hc)
  · simp at h
  · simp at h

/-
  NOTES.  `insertAt_openValid` needs no `Slice.wf` hypothesis: `openValid` already forces the spine shape.

  History: while `insert_into` tested `parent.can_replace(index, index, insert)` with `index` = the text child's index,
  i.e. `pre ++ insert ++ [text] ++ post`, but built `pre ++ [text₁] ++ insert ++ [text₂] ++ post`, this theorem needed
  the schema condition `TextStable` (reading a text child leads to a state with the same continuations): with content
  expression `image* text*`, level `[text "ab"]`, `insert = [image]` at offset 1 the test passed (`image text`) and the
  result `text image text` was not valid content (finding C01-insert-inside-text, repaired in /repo: `insert_into`
  validates the content it built).
-/

end PM
