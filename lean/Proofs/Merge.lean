/- Proofs/Merge.lean — helper lemmas for Props/C16.lean -/
import PM.Step
import Proofs.StepToks
import Proofs.Marks
namespace PM
end PM
