/- Proofs/Merge.lean — helper lemmas for Props/C16.lean -/
import PM.Step
import Proofs.StepToks
import Proofs.Marks
namespace PM

/-! ### markup bookkeeping -/

theorem sameMarkup_tyOf (S : Schema) {a b : Node} (h : a.sameMarkup b = true) : S.tyOf a = S.tyOf b := by
  cases a <;> cases b <;> simp_all [Node.sameMarkup, Schema.tyOf, Node.tyOr]

theorem sameMarkup_join {a b c : Node} (h1 : a.sameMarkup c = true) (h2 : b.sameMarkup c = true) :
    a.sameMarkup b = true := by
  cases a <;> cases b <;> cases c <;> simp_all [Node.sameMarkup]

theorem sameMarkup_symm {a b : Node} (h : a.sameMarkup b = true) : b.sameMarkup a = true := by
  cases a <;> cases b <;> simp_all [Node.sameMarkup]

theorem sameMarkup_trans {a b c : Node} (h1 : a.sameMarkup b = true) (h2 : b.sameMarkup c = true) :
    a.sameMarkup c = true := by
  cases a <;> cases b <;> cases c <;> simp_all [Node.sameMarkup]

theorem sameMarkup_elem_eq {a b : Node} {t : TypeId} {at' : Attrs} {m : Marks} {k : List Node}
    (hb : b = .elem t at' m k) (h : a.sameMarkup b = true) : a = .elem t at' m a.kids := by
  subst hb
  cases a <;> simp_all [Node.sameMarkup, Node.kids]

/-- a replace only succeeds on an element node -/
theorem fromReplace_isElem (S : Schema) (doc doc' : Node) (f t : Nat) (sl : Slice)
    (h : S.fromReplace doc f t sl = .ok doc') : ∃ ty a m k, doc = .elem ty a m k := by
  unfold Schema.fromReplace Schema.replace at h
  cases doc with
  | text s m => simp at h
  | leaf ty a m => simp at h
  | elem ty a m kids => exact ⟨ty, a, m, kids, rfl⟩

theorem apply_replace_from (S : Schema) (doc doc' : Node) (f t : Nat) (sl : Slice) (st : Bool)
    (h : S.apply (.replace f t sl st) doc = .ok doc') : S.fromReplace doc f t sl = .ok doc' := by
  unfold Schema.apply at h
  simp only at h
  split at h
  · split at h
    · simp at h
    · simp at h
    · exact h
  · exact h

theorem apply_addMark_elem (S : Schema) (doc doc' : Node) (f t : Nat) (m : Mark)
    (h : S.apply (.addMark f t m) doc = .ok doc') : ∃ ty a mk k, doc = .elem ty a mk k := by
  unfold Schema.apply at h
  simp only at h
  split at h
  · simp at h
  · split at h
    · simp at h
    · exact fromReplace_isElem S doc doc' f t _ h

theorem apply_removeMark_elem (S : Schema) (doc doc' : Node) (f t : Nat) (m : Mark)
    (h : S.apply (.removeMark f t m) doc = .ok doc') : ∃ ty a mk k, doc = .elem ty a mk k := by
  unfold Schema.apply at h
  simp only at h
  split at h
  · simp at h
  · exact fromReplace_isElem S doc doc' f t _ h

/-! ### slices -/

private theorem Slice.toks_length_of_wf {sl : Slice} (hwf : sl.wf = true) : (sl.toks.length : Int) = sl.size := by
  have := wf_opens_le hwf
  simp only [Slice.toks, List.length_take, List.length_drop, ftoks_length, Slice.size]
  omega

theorem merged_toks (c c' : List Node) (a b' : Nat) (ha : a ≤ fsize c) (hb : b' ≤ fsize c') :
    (Slice.mk (fappend c c') a b').toks = (Slice.mk c a 0).toks ++ (Slice.mk c' 0 b').toks := by
  simp only [Slice.toks, fappend_toks, fappend_size]
  rw [← ftoks_length c, ← ftoks_length c'] at *
  generalize ftoks c = T at *
  generalize ftoks c' = T' at *
  rw [List.drop_append_of_le_length ha]
  have e1 : T.length + T'.length - a - b' = (T.drop a).length + (T'.length - b') := by
    simp; omega
  rw [e1, List.take_length_add_append]
  have e2 : (T.drop a).take (T.length - a) = T.drop a := List.take_of_length_le (by simp)
  simp [e2]

theorem splice_splice_right {α} (L A B : List α) (f t t' : Nat) (hf : f ≤ L.length)
    (ht' : f + A.length ≤ t') :
    (L.take f ++ A ++ L.drop t).take (f + A.length) ++ B ++ (L.take f ++ A ++ L.drop t).drop t' =
      L.take f ++ (A ++ B) ++ L.drop (t + (t' - (f + A.length))) := by
  have hl : (L.take f ++ A).length = f + A.length := by simp; omega
  rw [List.take_left' hl]
  obtain ⟨k, rfl⟩ : ∃ k, t' = (L.take f ++ A).length + k := ⟨t' - (f + A.length), by omega⟩
  rw [List.drop_append, List.drop_drop, hl]
  simp
  omega

theorem splice_splice_left {α} (L A B : List α) (f f' t : Nat) (hf : f ≤ L.length) (hf' : f' ≤ f) :
    (L.take f ++ A ++ L.drop t).take f' ++ B ++ (L.take f ++ A ++ L.drop t).drop f =
      L.take f' ++ (B ++ A) ++ L.drop t := by
  have hl : (L.take f).length = f := by simp; omega
  rw [List.append_assoc (L.take f), List.drop_left' hl, List.take_append_of_le_length (by omega),
    List.take_take, Nat.min_eq_left hf']
  simp

/-! ### replace / replace -/

theorem merge_replace_toks (S : Schema) (d d1 d2 d' : Node) (f t f' t' : Nat) (sl sl' : Slice) (m : Step)
    (h1 : S.apply (.replace f t sl false) d = .ok d1)
    (h2 : S.apply (.replace f' t' sl' false) d1 = .ok d2)
    (hm : (Step.replace f t sl false).merge (.replace f' t' sl' false) = some m)
    (h' : S.apply m d = .ok d') :
    ftoks d'.kids = ftoks d2.kids ∧ d'.sameMarkup d2 = true := by
  obtain ⟨e1, hft, htl, hwf, hs1⟩ := fromReplace_toks S d d1 f t sl (apply_replace_from _ _ _ _ _ _ _ h1)
  obtain ⟨e2, hft', htl', hwf', hs2⟩ := fromReplace_toks S d1 d2 f' t' sl' (apply_replace_from _ _ _ _ _ _ _ h2)
  have hlen := ftoks_length d.kids
  have hlen1 := ftoks_length d1.kids
  have hsz := Slice.toks_length_of_wf hwf
  have hsz' := Slice.toks_length_of_wf hwf'
  have ho := wf_opens_le hwf
  have ho' := wf_opens_le hwf'
  simp only [Step.merge, Bool.or_self, Bool.false_eq_true, if_false] at hm
  split at hm
  · rename_i hc
    simp only [Bool.and_eq_true, decide_eq_true_eq] at hc
    obtain ⟨⟨hc1, hc2⟩, hc3⟩ := hc
    simp only [Option.some.injEq] at hm; subst hm
    obtain ⟨e', _, _, _, hs'⟩ := fromReplace_toks _ _ _ _ _ _ (apply_replace_from _ _ _ _ _ _ _ h')
    refine ⟨?_, sameMarkup_join hs' (sameMarkup_trans hs2 hs1)⟩
    rw [e', e2, e1]
    have hf' : f' = f + sl.toks.length := by omega
    subst hf'
    rw [splice_splice_right _ _ _ _ _ _ (by omega) (by omega)]
    congr 2
    split
    · have z1 : sl.toks = [] := List.eq_nil_of_length_eq_zero (by omega)
      have z2 : sl'.toks = [] := List.eq_nil_of_length_eq_zero (by omega)
      rw [z1, z2]; rfl
    · obtain ⟨c, a, b⟩ := sl
      obtain ⟨c', a', b'⟩ := sl'
      simp only at hc2 hc3 ho ho'
      subst hc2 hc3
      exact merged_toks c c' a b' (by omega) (by omega)
  · split at hm
    · rename_i hc
      simp only [Bool.and_eq_true, decide_eq_true_eq] at hc
      obtain ⟨⟨hc1, hc2⟩, hc3⟩ := hc
      simp only [Option.some.injEq] at hm; subst hm
      obtain ⟨e', _, _, _, hs'⟩ := fromReplace_toks _ _ _ _ _ _ (apply_replace_from _ _ _ _ _ _ _ h')
      refine ⟨?_, sameMarkup_join hs' (sameMarkup_trans hs2 hs1)⟩
      rw [e', e2, e1]
      subst hc1
      rw [splice_splice_left _ _ _ _ _ _ (by omega) hft']
      congr 2
      split
      · have z1 : sl.toks = [] := List.eq_nil_of_length_eq_zero (by omega)
        have z2 : sl'.toks = [] := List.eq_nil_of_length_eq_zero (by omega)
        rw [z1, z2]; rfl
      · obtain ⟨c, a, b⟩ := sl
        obtain ⟨c', a', b'⟩ := sl'
        simp only at hc2 hc3 ho ho'
        subst hc2 hc3
        exact merged_toks c' c a' b (by omega) (by omega)
    · simp at hm

/-! ### mark / mark -/

theorem ctxAux_shape : ∀ (l l' : List Tok) (st : List TypeId),
    l.map Tok.shape = l'.map Tok.shape → ctxAux st l = ctxAux st l'
  | [], [], _, _ => rfl
  | [], _ :: _, _, h => by simp at h
  | _ :: _, [], _, h => by simp at h
  | a :: r, b :: r', st, h => by
    simp only [List.map_cons, List.cons.injEq] at h
    obtain ⟨hab, hr⟩ := h
    cases a <;> cases b <;> simp [Tok.shape] at hab <;>
      simp [ctxAux, hab, ctxAux_shape r r' _ hr]

theorem mapIdxCtx_length (g : Nat → TypeId → Tok → Tok) (top : TypeId) (l : List Tok) :
    (mapIdxCtx g top l).length = l.length := by
  simp [mapIdxCtx]

/-- two index/context-wise maps that keep the shapes compose pointwise -/
theorem mapIdxCtx_comp (g1 g2 g : Nat → TypeId → Tok → Tok) (top : TypeId) (l : List Tok)
    (hshape : ∀ i p tok, (g1 i p tok).shape = tok.shape)
    (h : ∀ i p tok, g2 i p (g1 i p tok) = g i p tok) :
    mapIdxCtx g2 top (mapIdxCtx g1 top l) = mapIdxCtx g top l := by
  have hctx : ctxOf top (mapIdxCtx g1 top l) = ctxOf top l :=
    ctxAux_shape _ _ _ (mapIdxCtx_shape g1 top l hshape)
  apply List.ext_getElem?
  intro i
  rw [mapIdxCtx_getElem?, mapIdxCtx_getElem?, mapIdxCtx_length, hctx]
  by_cases hi : i < l.length
  · rw [if_pos hi]
    have : (mapIdxCtx g1 top l).getD i Tok.cl = g1 i ((ctxOf top l).getD i 0) (l.getD i Tok.cl) := by
      rw [List.getD_eq_getElem?_getD, mapIdxCtx_getElem?, if_pos hi]; rfl
    rw [this, h, if_pos hi]
  · rw [if_neg hi, if_neg hi]

theorem isAtomTok_withMarks (S : Schema) (m : Marks) (tok : Tok) :
    isAtomTok S (tok.withMarks m) = isAtomTok S tok := by cases tok <;> rfl

theorem isInlineTok_withMarks (S : Schema) (m : Marks) (tok : Tok) :
    isInlineTok S (tok.withMarks m) = isInlineTok S tok := by cases tok <;> rfl

theorem marks_withMarks_atom (S : Schema) (m : Marks) (tok : Tok) (h : isAtomTok S tok = true) :
    (tok.withMarks m).marks = m := by
  cases tok <;> simp_all [isAtomTok, Tok.withMarks, Tok.marks]

theorem marks_withMarks_inline (S : Schema) (m : Marks) (tok : Tok) (h : isInlineTok S tok = true) :
    (tok.withMarks m).marks = m := by
  cases tok <;> simp_all [isInlineTok, Tok.withMarks, Tok.marks]

theorem withMarks_withMarks (m m' : Marks) (tok : Tok) :
    (tok.withMarks m).withMarks m' = tok.withMarks m' := by cases tok <;> rfl

/-- adding the same mark twice is adding it once -/
theorem addToSet_idem (S : Schema) (m : Mark) (s : Marks) :
    m.addToSet S (m.addToSet S s) = m.addToSet S s := by
  rw [addToSet_eq S m s]
  split
  · rename_i hc
    rw [addToSet_eq, if_pos hc]
  · rw [addToSet_eq, if_pos]
    have : m ∈ insertByRank m (s.filter (fun o => !S.excludes m.ty o.ty)) :=
      (mem_insertByRank m m _).mpr (Or.inl rfl)
    simp only [Bool.or_eq_true, List.any_eq_true, beq_iff_eq]
    exact Or.inl ⟨m, this, rfl⟩

theorem removeFromSet_idem (m : Mark) (s : Marks) :
    m.removeFromSet (m.removeFromSet s) = m.removeFromSet s := by
  simp [Mark.removeFromSet]

/-- composing two "apply `F` on a window, where the guard `A` holds" maps -/
theorem window_comp {α} (F : α → α) (A : α → Prop) (f t f' t' i : Nat) (x : α)
    [∀ y, Decidable (A y)]
    (hA : ∀ y, A (F y) ↔ A y) (hF : ∀ y, A y → F (F y) = F y) (h1 : f ≤ t') (h2 : f' ≤ t) :
    (if f' ≤ i ∧ i < t' ∧ A (if f ≤ i ∧ i < t ∧ A x then F x else x)
      then F (if f ≤ i ∧ i < t ∧ A x then F x else x) else (if f ≤ i ∧ i < t ∧ A x then F x else x)) =
    if min f f' ≤ i ∧ i < max t t' ∧ A x then F x else x := by
  by_cases ha : A x
  · have haF : A (F x) := (hA x).mpr ha
    by_cases c1 : f ≤ i ∧ i < t
    · have e : (if f ≤ i ∧ i < t ∧ A x then F x else x) = F x := if_pos ⟨c1.1, c1.2, ha⟩
      rw [e, hF x ha]
      have e3 : (if min f f' ≤ i ∧ i < max t t' ∧ A x then F x else x) = F x :=
        if_pos ⟨by omega, by omega, ha⟩
      rw [e3]
      split <;> rfl
    · have e : (if f ≤ i ∧ i < t ∧ A x then F x else x) = x := if_neg (fun h => c1 ⟨h.1, h.2.1⟩)
      rw [e]
      by_cases c2 : f' ≤ i ∧ i < t'
      · rw [if_pos ⟨c2.1, c2.2, ha⟩, if_pos ⟨by omega, by omega, ha⟩]
      · rw [if_neg (fun h => c2 ⟨h.1, h.2.1⟩), if_neg (fun h => by omega)]
  · have e : (if f ≤ i ∧ i < t ∧ A x then F x else x) = x := if_neg (fun h => ha h.2.2)
    rw [e, if_neg (fun h => ha h.2.2), if_neg (fun h => ha h.2.2)]

theorem addMarkToks_merge (S : Schema) (m : Mark) (f t f' t' : Nat) (top : TypeId) (l : List Tok)
    (h1 : f ≤ t') (h2 : f' ≤ t) :
    addMarkToks S m f' t' top (addMarkToks S m f t top l) =
      addMarkToks S m (min f f') (max t t') top l := by
  unfold addMarkToks
  apply mapIdxCtx_comp
  · intro i p tok
    split
    · exact Tok.withMarks_shape _ _
    · rfl
  · intro i p tok
    exact window_comp (fun tok => tok.withMarks (m.addToSet S tok.marks))
      (fun tok => isAtomTok S tok = true ∧ (S.nodeType p).allowsMarkType m.ty = true) f t f' t' i tok
      (fun y => by simp only [isAtomTok_withMarks])
      (fun y hy => by
        simp only [marks_withMarks_atom S _ y hy.1, withMarks_withMarks, addToSet_idem]) h1 h2

theorem removeMarkToks_merge (S : Schema) (m : Mark) (f t f' t' : Nat) (top : TypeId) (l : List Tok)
    (h1 : f ≤ t') (h2 : f' ≤ t) :
    removeMarkToks S m f' t' top (removeMarkToks S m f t top l) =
      removeMarkToks S m (min f f') (max t t') top l := by
  unfold removeMarkToks
  apply mapIdxCtx_comp
  · intro i p tok
    split
    · exact Tok.withMarks_shape _ _
    · rfl
  · intro i p tok
    exact window_comp (fun tok => tok.withMarks (m.removeFromSet tok.marks))
      (fun tok => isInlineTok S tok = true) f t f' t' i tok
      (fun y => by simp only [isInlineTok_withMarks])
      (fun y hy => by
        simp only [marks_withMarks_inline S _ y hy, withMarks_withMarks, removeFromSet_idem]) h1 h2

end PM
