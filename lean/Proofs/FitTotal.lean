/- Proofs/FitTotal.lean — which failures `Fitter.fit` / `replace_step` (PM/Fitter.lean `fitterFit`,
   `replaceStep`) can end in, and where each comes from: `outOfFuel` only from the loop (and then the
   loop really does not end, Proofs/FitLoop.lean), `negInsert` only from the final step choice. -/
import Proofs.FitLoop
namespace PM

theorem fitInit_unplaced (S : Schema) (rf : RPos) (sl : Slice) (st0 : FitState)
    (h : fitInit S rf sl = .ok st0) : st0.unplaced = sl := by
  unfold fitInit at h
  obtain ⟨fr, _, h⟩ := FM.bind_ok h
  have := pure_ok h
  subst this
  rfl

theorem fitEmit_err (rf rt : RPos) (mi : Option Nat) (ps : Int) (to_ : RPos) (placed : List Node) (e : FitErr)
    (h : fitEmit rf rt mi ps to_ placed = .error e) : e = .negInsert ∧ mi.isSome = true ∧ ps < 0 := by
  unfold fitEmit at h
  cases mi with
  | none =>
    simp only at h
    split at h <;> simp [pure, Except.pure] at h
  | some p =>
    simp only at h
    split at h
    · rename_i hlt
      simp only [throw, throwThe, MonadExceptOf.throw, Except.error.injEq] at h
      exact ⟨h.symm, rfl, hlt⟩
    · simp [pure, Except.pure] at h

/-- **the failures of `Fitter.fit`**: it raises, or the loop ran out of fuel, or the step would need
    a negative `insert` -/
theorem fitterFit_err (S : Schema) (doc : Node) (rf rt : RPos) (sl : Slice) (fuel : Nat) (e : FitErr)
    (h : fitterFit S doc rf rt sl fuel = .error e) :
    e = .raises ∨
    (e = .outOfFuel ∧ ∃ st0, fitInit S rf sl = .ok st0 ∧ fitLoop S fuel st0 = .error .outOfFuel) ∨
    (e = .negInsert ∧ ∃ st0 st, fitInit S rf sl = .ok st0 ∧ fitLoop S fuel st0 = .ok st ∧
      (fsize st.placed : Int) - (st.frontier.length - 1 : Nat) - rf.depth < 0) := by
  unfold fitterFit at h
  cases h0 : fitInit S rf sl with
  | error e0 =>
    rw [h0] at h
    simp only [bind, Except.bind, Except.error.injEq] at h
    subst h
    exact .inl ((fitInit_or S rf sl).err h0)
  | ok st0 =>
    rw [h0] at h
    simp only [bind, Except.bind] at h
    cases h1 : fitLoop S fuel st0 with
    | error e1 =>
      rw [h1] at h
      simp only [Except.error.injEq] at h
      subst h
      rcases fitLoop_err S fuel st0 _ h1 with he | he
      · exact .inl he
      · subst he
        exact .inr (.inl ⟨rfl, st0, rfl, h1⟩)
    | ok st =>
      rw [h1] at h
      simp only at h
      cases h2 : mustMoveInline S doc rt st.frontier with
      | error e2 =>
        rw [h2] at h
        simp only [Except.error.injEq] at h
        subst h
        exact .inl ((mustMoveInline_or S doc rt st.frontier).err h2)
      | ok mi =>
        rw [h2] at h
        simp only at h
        cases h3 : closeTarget doc rt mi with
        | error e3 =>
          rw [h3] at h
          simp only [Except.error.injEq] at h
          subst h
          exact .inl ((closeTarget_or doc rt mi).err h3)
        | ok target =>
          rw [h3] at h
          simp only at h
          cases h4 : closeFit S doc target st.frontier st.placed with
          | error e4 =>
            rw [h4] at h
            simp only [Except.error.injEq] at h
            subst h
            exact .inl ((closeFit_or S doc target st.frontier st.placed).err h4)
          | ok c =>
            rw [h4] at h
            simp only at h
            cases c with
            | none => simp [pure, Except.pure] at h
            | some c =>
              simp only at h
              obtain ⟨he, _, hneg⟩ := fitEmit_err rf rt mi _ c.1 c.2 e h
              exact .inr (.inr ⟨he, st0, st, rfl, h1, hneg⟩)

/-- `replace_step` as a whole: the same three classes -/
theorem replaceStep_err (S : Schema) (doc : Node) (f t : Nat) (sl : Slice) (e : FitErr)
    (h : replaceStep S doc f t sl = .error e) :
    e = .raises ∨
    (e = .outOfFuel ∧ ∃ rf st0, doc.resolve f = some rf ∧ fitInit S rf sl = .ok st0 ∧
      fitLoop S (fitFuel S sl) st0 = .error .outOfFuel) ∨
    (e = .negInsert ∧ ∃ rf st0 st, doc.resolve f = some rf ∧ fitInit S rf sl = .ok st0 ∧
      fitLoop S (fitFuel S sl) st0 = .ok st ∧
      (fsize st.placed : Int) - (st.frontier.length - 1 : Nat) - rf.depth < 0) := by
  unfold replaceStep at h
  split at h
  · simp [pure, Except.pure] at h
  · split at h
    · rename_i rf rt hrf hrt
      split at h
      · simp only [throw, throwThe, MonadExceptOf.throw, Except.error.injEq] at h
        exact .inl h.symm
      · simp [pure, Except.pure] at h
      · rcases fitterFit_err S doc rf rt sl _ e h with he | ⟨he, st0, h1, h2⟩ | ⟨he, st0, st, h1, h2, h3⟩
        · exact .inl he
        · exact .inr (.inl ⟨he, rf, st0, hrf, h1, h2⟩)
        · exact .inr (.inr ⟨he, rf, st0, st, hrf, h1, h2, h3⟩)
    · simp only [throw, throwThe, MonadExceptOf.throw, Except.error.injEq] at h
      exact .inl h.symm

/-- **`replace_step` runs out of fuel only when the loop of `fit` does not end** (it reaches the
    state it maps to itself) -/
theorem replaceStep_outOfFuel_stuck (S : Schema) (hdet : DetS S) (doc : Node) (f t : Nat) (sl : Slice)
    (h : replaceStep S doc f t sl = .error .outOfFuel) :
    ∃ rf st0 st', doc.resolve f = some rf ∧ fitInit S rf sl = .ok st0 ∧ FitReach S st0 st' ∧ st'.stuck := by
  rcases replaceStep_err S doc f t sl _ h with he | ⟨_, rf, st0, h1, h2, h3⟩ | ⟨he, _⟩
  · simp at he
  · have hu := fitInit_unplaced S rf sl st0 h2
    have hfuel := fitFuel_enough S st0
    rw [hu] at hfuel
    obtain ⟨st', hr, hs⟩ := fitLoop_outOfFuel_reach S hdet _ st0 (by rw [hu]; exact hfuel) h3
    exact ⟨rf, st0, st', h1, h2, hr, hs⟩
  · simp at he

/-- … which a slice satisfying the guard never does -/
theorem replaceStep_not_outOfFuel (S : Schema) (hdet : DetS S) (doc : Node) (f t : Nat) (sl : Slice)
    (hg : sl.termGuard = true) : replaceStep S doc f t sl ≠ .error .outOfFuel := by
  intro h
  obtain ⟨rf, st0, st', _, h2, hr, hs⟩ := replaceStep_outOfFuel_stuck S hdet doc f t sl h
  have hu := fitInit_unplaced S rf sl st0 h2
  exact (reach_termInv S hr (TermInv.of_guard (by rw [hu]; exact hg))).not_stuck hs

end PM
