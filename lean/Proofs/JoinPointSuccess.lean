/-
  Proofs/JoinPointSuccess.lean — a join point is a position `can_join` approves (property C12): `join_point` runs the
  test of `can_join` (plus "the node before is not a textblock") at the boundaries of the ancestors of `pos`.
-/
import Proofs.InsertSuccess
namespace PM

theorem joinTest_true (S : Schema) (node : Node) (before after : Option Node) (idx : Nat)
    (h : joinTest S node before after idx = some true) :
    ∃ b, before = some b ∧ S.joinable before after = some true ∧
      S.nodeCanReplace node idx (idx + 1) [] = some true := by
  unfold joinTest at h
  split at h
  · simp at h
  · rename_i b
    split at h
    · simp at h
    · split at h
      · simp at h
      · simp at h
      · rename_i hj
        exact ⟨b, rfl, hj, h⟩

theorem canJoinR_of (S : Schema) (rp : RPos) (a b : Option Node) (ha : rp.nodeBeforeR = some a)
    (hb : rp.nodeAfterR = some b) (hj : S.joinable a b = some true)
    (hc : S.nodeCanReplace rp.parent (rp.index rp.depth) (rp.index rp.depth + 1) [] = some true) :
    canJoinR S rp = some (some true) := by
  simp [canJoinR, ha, hb, hj, hc]

/-- the hit of the `join_point` loop at a depth strictly above `pos`: `can_join` approves at the boundary -/
theorem joinHit_outer (S : Schema) {ty0 : TypeId} {a0 : Attrs} {m0 : Marks} {K : List Node} {pos : Nat} {r : RPos}
    (hf : (Node.elem ty0 a0 m0 K).resolve pos = some r) (hn : fnorm K = true) (dir : Int) (d : Nat) (hd : d < r.depth)
    (cand : Nat)
    (hat : AtBoundary r d (if dir > 0 then .after else .before) (if dir > 0 then r.index d + 1 else r.index d) cand)
    (h : joinPointHit S r dir d = some true) : canJoin S (.elem ty0 a0 m0 K) cand = some (some true) := by
  have R := resolve_resolved hf
  obtain ⟨rp, hrp, hty, hk, hi, hto⟩ := boundary_resolve S hf hn d _ _ cand (.inl hd) hat
  have hchain := (R.chain d hd).1
  simp only [canJoin, hrp]
  unfold joinPointHit joinSides at h
  rw [if_neg (by omega)] at h
  have hcr : ∀ i, S.nodeCanReplace rp.parent i (i + 1) [] = S.nodeCanReplace (r.node d) i (i + 1) [] := by
    intro i; simp only [Schema.nodeCanReplace, hty, hk]
  by_cases hdir : dir > 0
  · simp only [hdir, if_true] at h hi
    obtain ⟨b, hb, hj, hc⟩ := joinTest_true S _ _ _ _ h
    refine canJoinR_of S rp (some (r.node (d + 1))) ((r.node d).kids[r.index d + 1]?) ?_ ?_ hj ?_
    · simp only [RPos.nodeBeforeR, hto, ne_eq, not_true_eq_false, if_false, hi, Nat.add_eq_zero_iff, Nat.succ_ne_self,
        and_false, Nat.add_sub_cancel, hk, hchain]
    · simp only [RPos.nodeAfterR, hi, hk, hto, if_true]
      cases (r.node d).kids[r.index d + 1]? <;> rfl
    · rw [hi, hcr]; exact hc
  · simp only [hdir, if_false] at h hi
    obtain ⟨b, hb, hj, hc⟩ := joinTest_true S _ _ _ _ h
    have hne : r.index d ≠ 0 := by
      intro h0; simp [h0] at hb
    rw [if_neg hne] at hb hj
    refine canJoinR_of S rp (some b) (some (r.node (d + 1))) ?_ ?_ (by rw [← hb]; exact hj) ?_
    · simp only [RPos.nodeBeforeR, hto, ne_eq, not_true_eq_false, if_false, hi, hne, hk, hb]
    · simp only [RPos.nodeAfterR, hi, hk, hchain, hto, if_true]
    · rw [hi, hcr]; exact hc

/-- the hit at the innermost depth is the test of `can_join` at `pos` itself -/
theorem joinHit_inner (S : Schema) (r : RPos) (dir : Int) (h : joinPointHit S r dir r.depth = some true) :
    canJoinR S r = some (some true) := by
  unfold joinPointHit joinSides at h
  rw [if_pos rfl] at h
  cases ha : r.nodeBeforeR with
  | none => simp [ha] at h
  | some a =>
    cases hb : r.nodeAfterR with
    | none => simp [ha, hb] at h
    | some b =>
      simp only [ha, hb] at h
      obtain ⟨_, _, hj, hc⟩ := joinTest_true S _ _ _ _ h
      exact canJoinR_of S r a b ha hb hj hc

theorem joinPointLoop_canJoin (S : Schema) {ty0 : TypeId} {a0 : Attrs} {m0 : Marks} {K : List Node} {pos : Nat}
    {r : RPos} (hf : (Node.elem ty0 a0 m0 K).resolve pos = some r) (hn : fnorm K = true) (dir : Int) (hdir : dir ≠ 0) :
    ∀ (d cand p : Nat), d ≤ r.depth → (d = r.depth → cand = pos) →
      (d < r.depth → AtBoundary r d (if dir > 0 then .after else .before)
        (if dir > 0 then r.index d + 1 else r.index d) cand) →
      joinPointLoop S r dir d cand = some (some p) → canJoin S (.elem ty0 a0 m0 K) p = some (some true) := by
  have hit : ∀ (d cand : Nat), d ≤ r.depth → (d = r.depth → cand = pos) →
      (d < r.depth → AtBoundary r d (if dir > 0 then .after else .before)
        (if dir > 0 then r.index d + 1 else r.index d) cand) →
      joinPointHit S r dir d = some true → canJoin S (.elem ty0 a0 m0 K) cand = some (some true) := by
    intro d cand hd h1 h2 h
    rcases Nat.lt_or_ge d r.depth with hlt | hge
    · exact joinHit_outer S hf hn dir d hlt cand (h2 hlt) h
    · have hde : d = r.depth := by omega
      subst hde
      rw [h1 rfl]
      simp only [canJoin, hf]
      exact joinHit_inner S r dir h
  intro d
  induction d with
  | zero =>
    intro cand p hd h1 h2 h
    simp only [joinPointLoop] at h
    split at h
    · simp at h
    · rename_i hh
      simp only [Option.some.injEq] at h
      subst h
      exact hit 0 cand hd h1 h2 hh
    · simp at h
  | succ d ih =>
    intro cand p hd h1 h2 h
    simp only [joinPointLoop] at h
    split at h
    · simp at h
    · rename_i hh
      simp only [Option.some.injEq] at h
      subst h
      exact hit (d + 1) cand hd h1 h2 hh
    · split at h
      · simp at h
      · rename_i p' hp'
        refine ih p' p (by omega) (fun e => by omega) (fun hlt => ?_) h
        have hia : r.indexAfter d = r.index d + 1 := by
          unfold RPos.indexAfter
          rw [if_neg (by simp; omega)]
        by_cases hpos : dir > 0
        · have hneg : ¬ dir < 0 := by omega
          simp only [hneg, if_false] at hp'
          simp only [hpos, if_true]
          exact ⟨by omega, hia.symm, hp'⟩
        · have hneg : dir < 0 := by omega
          simp only [hneg, if_true] at hp'
          simp only [hpos, if_false]
          exact ⟨by omega, rfl, hp'⟩

end PM
