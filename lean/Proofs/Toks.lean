/- Proofs/Toks.lean — basic lemmas about the flat token sequence (shared by C01–C04, C09, C11–C13, C16–C18). -/
import PM.Basic
import PM.Fragment
namespace PM

@[simp] theorem ftoks_nil : ftoks [] = [] := by simp [ftoks]
@[simp] theorem ftoks_cons (n : Node) (ns : List Node) : ftoks (n :: ns) = n.toks ++ ftoks ns := by simp [ftoks]
@[simp] theorem fsize_nil : fsize [] = 0 := by simp [fsize]
@[simp] theorem fsize_cons (n : Node) (ns : List Node) : fsize (n :: ns) = n.size + fsize ns := by simp [fsize]

theorem ftoks_append (a b : List Node) : ftoks (a ++ b) = ftoks a ++ ftoks b := by
  induction a with
  | nil => simp
  | cons n ns ih => simp [ih]

theorem fsize_append (a b : List Node) : fsize (a ++ b) = fsize a + fsize b := by
  induction a with
  | nil => simp
  | cons n ns ih => simp [ih]; omega

mutual
theorem Node.toks_length : ∀ n : Node, n.toks.length = n.size
  | .text s m => by simp [Node.toks, Node.size]
  | .leaf t a m => by simp [Node.toks, Node.size]
  | .elem t a m kids => by
    simp only [Node.toks, Node.size, List.length_cons, List.length_append, List.length_nil]
    rw [ftoks_length kids]; omega
theorem ftoks_length : ∀ ns : List Node, (ftoks ns).length = fsize ns
  | [] => by simp
  | n :: ns => by simp [Node.toks_length n, ftoks_length ns]
end

@[simp] theorem Node.toks_text (s : List Nat) (m : Marks) : (Node.text s m).toks = s.map (Tok.unit · m) := by
  simp [Node.toks]
@[simp] theorem Node.toks_leaf (t : TypeId) (a : Attrs) (m : Marks) : (Node.leaf t a m).toks = [Tok.leaf t a m] := by
  simp [Node.toks]
@[simp] theorem Node.toks_elem (t : TypeId) (a : Attrs) (m : Marks) (k : List Node) :
    (Node.elem t a m k).toks = Tok.op t a m :: (ftoks k ++ [Tok.cl]) := by
  simp [Node.toks]
@[simp] theorem Node.size_text (s : List Nat) (m : Marks) : (Node.text s m).size = s.length := by simp [Node.size]
@[simp] theorem Node.size_leaf (t : TypeId) (a : Attrs) (m : Marks) : (Node.leaf t a m).size = 1 := by simp [Node.size]
@[simp] theorem Node.size_elem (t : TypeId) (a : Attrs) (m : Marks) (k : List Node) :
    (Node.elem t a m k).size = 2 + fsize k := by simp [Node.size]

/-- `add_node` (text merging) preserves the token sequence -/
theorem addNode_toks (t : List Node) (c : Node) : ftoks (addNode t c) = ftoks t ++ c.toks := by
  unfold addNode
  split
  · rename_i s m s' m' h
    split
    · rename_i hm
      subst hm
      have hne : t ≠ [] := by intro h0; subst h0; simp at h
      have h2 := List.dropLast_concat_getLast hne
      rw [List.getLast?_eq_some_getLast hne] at h
      simp at h
      rw [h] at h2
      conv => rhs; rw [← h2]
      simp [ftoks_append]
    · simp [ftoks_append]
  · simp [ftoks_append]

theorem addNodes_toks (t cs : List Node) : ftoks (addNodes t cs) = ftoks t ++ ftoks cs := by
  induction cs generalizing t with
  | nil => simp [addNodes]
  | cons c cs ih =>
    simp only [addNodes, List.foldl_cons] at *
    rw [ih]; simp [addNode_toks]

/-- `Fragment.from_array` preserves the token sequence -/
theorem fromArray_toks (l : List Node) : ftoks (fromArray l) = ftoks l := by
  simp [fromArray, addNodes_toks]

/-- `Fragment.append` preserves the token sequence -/
theorem fappend_toks (a b : List Node) : ftoks (fappend a b) = ftoks a ++ ftoks b := by
  unfold fappend
  cases b with
  | nil => simp
  | cons c rest =>
    simp only
    split
    · rename_i h; simp at h; subst h; simp
    · simp [ftoks_append, addNode_toks]

theorem fromArray_size (l : List Node) : fsize (fromArray l) = fsize l := by
  rw [← ftoks_length, ← ftoks_length, fromArray_toks]

theorem fappend_size (a b : List Node) : fsize (fappend a b) = fsize a + fsize b := by
  rw [← ftoks_length, fappend_toks, List.length_append, ftoks_length, ftoks_length]

end PM
