/- Proofs/CreateFill.lean — helper lemmas about `Schema.createAndFill` / `Schema.createChecked`
   (PM/CreateFill.lean) for Props/C15.lean and Props/C07.lean -/
import PM.CreateFill
import Proofs.MkNode
import Proofs.Fill
import Proofs.ReplaceValid
namespace PM

theorem size_pos_of_not_text : ∀ (n : Node), n.isText = false → 0 < n.size
  | .text .., h => by simp [Node.isText] at h
  | .leaf .., _ => by simp [Node.size]
  | .elem .., _ => by simp [Node.size]; omega

theorem fsize_eq_zero_iff {l : List Node} (h : ∀ c, c ∈ l → c.size ≠ 0) : fsize l = 0 ↔ l = [] := by
  cases l with
  | nil => simp [fsize]
  | cons c rest =>
    have := h c (by simp)
    simp only [fsize, reduceCtorEq, iff_false]
    omega

/-! ### appending fillers never merges text -/

theorem addNode_not_text (target : List Node) (c : Node) (hc : c.isText = false) :
    addNode target c = target ++ [c] := by
  unfold addNode
  cases c <;> simp [Node.isText] at hc <;> split <;> simp_all

theorem addNode_last_not_text (target : List Node) (c : Node)
    (ht : ∀ n, n ∈ target → n.isText = false) : addNode target c = target ++ [c] := by
  unfold addNode
  split
  · rename_i s m s' m' h
    have hm := List.mem_of_getLast? h
    have := ht _ hm
    simp [Node.isText] at this
  · rfl

theorem addNodes_not_text : ∀ (l acc : List Node), (∀ n, n ∈ l → n.isText = false) →
    addNodes acc l = acc ++ l
  | [], acc, _ => by simp [addNodes]
  | c :: l, acc, h => by
    have ih := addNodes_not_text l (addNode acc c) (fun n hn => h n (List.mem_cons_of_mem _ hn))
    simp only [addNodes, List.foldl_cons] at ih ⊢
    rw [ih, addNode_not_text acc c (h c (by simp))]
    simp

theorem fromArray_not_text (l : List Node) (h : ∀ n, n ∈ l → n.isText = false) : fromArray l = l := by
  unfold fromArray
  rw [addNodes_not_text l [] h]; rfl

/-- fillers in front of content of non-zero size -/
theorem fappendSz_fillers_left (a b : List Node) (ha : ∀ n, n ∈ a → n.isText = false)
    (hb : ∀ c, c ∈ b → c.size ≠ 0) : fappendSz a b = a ++ b := by
  unfold fappendSz
  have ha' : ∀ c, c ∈ a → c.size ≠ 0 := fun c hc => Nat.ne_of_gt (size_pos_of_not_text c (ha c hc))
  split
  · rename_i h
    have := (fsize_eq_zero_iff hb).1 (by simpa using h)
    simp [this]
  · split
    · rename_i h
      have := (fsize_eq_zero_iff ha').1 (by simpa using h)
      simp [this]
    · cases b with
      | nil => simp
      | cons c rest =>
        simp only
        rw [addNode_last_not_text a c ha]; simp

/-- fillers behind content without zero-size children -/
theorem fappendSz_fillers_right (a b : List Node) (hb : ∀ n, n ∈ b → n.isText = false)
    (ha : ∀ c, c ∈ a → c.size ≠ 0) : fappendSz a b = a ++ b := by
  unfold fappendSz
  have hb' : ∀ c, c ∈ b → c.size ≠ 0 := fun c hc => Nat.ne_of_gt (size_pos_of_not_text c (hb c hc))
  split
  · rename_i h
    have := (fsize_eq_zero_iff hb').1 (by simpa using h)
    simp [this]
  · split
    · rename_i h
      have := (fsize_eq_zero_iff ha).1 (by simpa using h)
      simp [this]
    · cases b with
      | nil => simp
      | cons c rest =>
        simp only
        rw [addNode_not_text a c (hb c (by simp))]; simp

/-! ### what `fillNodesWith` / `fillFragment` return -/

/-- `nodes` are the results `mk tp = .node n`, type by type -/
inductive FilledBy (mk : TypeId → Built) : List TypeId → List Node → Prop
  | nil : FilledBy mk [] []
  | cons {tp : TypeId} {n : Node} {tys : List TypeId} {ns : List Node} :
      mk tp = .node n → FilledBy mk tys ns → FilledBy mk (tp :: tys) (n :: ns)

theorem fillNodesWith_ok (mk : TypeId → Built) : ∀ (tys : List TypeId) (opts : List (Option Node))
    (nodes : List Node), fillNodesWith mk tys = .ok opts → opts.mapM id = some nodes →
    FilledBy mk tys nodes
  | [], opts, nodes, h, hm => by
    simp only [fillNodesWith, Except.ok.injEq] at h
    subst h
    simp at hm
    subst hm
    exact FilledBy.nil
  | tp :: rest, opts, nodes, h, hm => by
    rw [fillNodesWith] at h
    split at h
    · rename_i n hn
      rcases hr : fillNodesWith mk rest with e | opts'
      · simp [hr, Except.map] at h
      · simp only [hr, Except.map, Except.ok.injEq] at h
        subst h
        simp only [List.mapM_cons, id_eq, Option.pure_def, Option.bind_eq_bind, Option.bind_some] at hm
        rcases hm' : opts'.mapM id with _ | nodes'
        · simp [hm'] at hm
        · simp only [hm', Option.bind_some, Option.some.injEq] at hm
          subst hm
          exact FilledBy.cons hn (fillNodesWith_ok mk rest opts' nodes' hr hm')
    · rcases hr : fillNodesWith mk rest with e | opts'
      · simp [hr, Except.map] at h
      · simp only [hr, Except.map, Except.ok.injEq] at h
        subst h
        simp at hm
    · simp at h

theorem fillNodesWith_error_ne (mk : TypeId → Built) : ∀ (tys : List TypeId) (b : Built),
    fillNodesWith mk tys = .error b → b ≠ .nothing ∧ ∀ n, b ≠ .node n
  | [], b, h => by simp [fillNodesWith] at h
  | tp :: rest, b, h => by
    rw [fillNodesWith] at h
    split at h
    · rcases hr : fillNodesWith mk rest with e | opts'
      · simp only [hr, Except.map, Except.error.injEq] at h
        subst h
        exact fillNodesWith_error_ne mk rest e hr
      · simp [hr, Except.map] at h
    · rcases hr : fillNodesWith mk rest with e | opts'
      · simp only [hr, Except.map, Except.error.injEq] at h
        subst h
        exact fillNodesWith_error_ne mk rest e hr
      · simp [hr, Except.map] at h
    · rename_i h1 h2
      simp only [Except.error.injEq] at h
      subst h
      exact ⟨fun e => h2 e, fun n e => h1 n e⟩

theorem fillFragment_ok (S : Schema) (mk : TypeId → Built) (d : Dfa) (q : Nat) (after : List TypeId)
    (toEnd : Bool) (nodes : List Node) (h : S.fillFragment mk d q after toEnd = .ok nodes) :
    ∃ tys nodes', fillBefore d S.generatable q after toEnd = some tys ∧
      FilledBy mk tys nodes' ∧ nodes = fromArray nodes' := by
  unfold Schema.fillFragment at h
  rcases hf : fillBefore d S.generatable q after toEnd with _ | tys
  · simp [hf] at h
  · simp only [hf] at h
    rcases hn : fillNodesWith mk tys with e | opts
    · simp [hn] at h
    · simp only [hn, fragOfOpts] at h
      rcases hm : opts.mapM id with _ | nodes'
      · simp [hm] at h
      · simp only [hm, Except.ok.injEq] at h
        exact ⟨tys, nodes', rfl, fillNodesWith_ok mk tys opts nodes' hn hm, h.symm⟩

/-- the filling reports `nothing` only when the type search found nothing -/
theorem fillFragment_nothing (S : Schema) (mk : TypeId → Built) (d : Dfa) (q : Nat) (after : List TypeId)
    (toEnd : Bool) (h : S.fillFragment mk d q after toEnd = .error .nothing) :
    fillBefore d S.generatable q after toEnd = none := by
  unfold Schema.fillFragment at h
  rcases hf : fillBefore d S.generatable q after toEnd with _ | tys
  · rfl
  · simp only [hf] at h
    rcases hn : fillNodesWith mk tys with e | opts
    · simp only [hn, Except.error.injEq] at h
      exact absurd h (fillNodesWith_error_ne mk tys e hn).1
    · simp only [hn, fragOfOpts] at h
      rcases hm : opts.mapM id with _ | nodes'
      · simp [hm] at h
      · simp [hm] at h

theorem fillFragment_error_not_node (S : Schema) (mk : TypeId → Built) (d : Dfa) (q : Nat)
    (after : List TypeId) (toEnd : Bool) (b : Built) (h : S.fillFragment mk d q after toEnd = .error b) :
    ∀ n, b ≠ .node n := by
  unfold Schema.fillFragment at h
  rcases hf : fillBefore d S.generatable q after toEnd with _ | tys
  · simp only [hf, Except.error.injEq] at h
    subst h; simp
  · simp only [hf] at h
    rcases hn : fillNodesWith mk tys with e | opts
    · simp only [hn, Except.error.injEq] at h
      subst h
      exact (fillNodesWith_error_ne mk tys e hn).2
    · simp only [hn, fragOfOpts] at h
      rcases hm : opts.mapM id with _ | nodes'
      · simp only [hm, Except.error.injEq] at h
        subst h; simp
      · simp [hm] at h

/-! ### validity of the built node -/

/-- the claim about a node-building function `mk` called without arguments on filler types -/
def FillerOk (S : Schema) (mk : TypeId → Built) : Prop :=
  ∀ tp n, mk tp = .node n → S.checkNode n = true ∧ n.isText = false ∧ S.tyOf n = tp ∧ n.marks = []

theorem filledBy_facts (S : Schema) (mk : TypeId → Built) (hmk : FillerOk S mk) :
    ∀ (tys : List TypeId) (ns : List Node), FilledBy mk tys ns →
      S.checkKids ns = true ∧ (∀ n, n ∈ ns → n.isText = false ∧ n.marks = []) ∧ S.types ns = tys := by
  intro tys ns h
  induction h with
  | nil => simp [Schema.types]
  | @cons tp n tys ns hn _ ih =>
    obtain ⟨h1, h2, h3, h4⟩ := hmk tp n hn
    obtain ⟨i1, i2, i3⟩ := ih
    refine ⟨by simp [h1, i1], ?_, ?_⟩
    · intro x hx
      rcases List.mem_cons.1 hx with rfl | hx
      · exact ⟨h2, h4⟩
      · exact i2 x hx
    · simp only [Schema.types, List.map_cons, h3] at i3 ⊢
      rw [i3]

theorem fillFragment_facts (S : Schema) (mk : TypeId → Built) (hmk : FillerOk S mk) (d : Dfa) (q : Nat)
    (after : List TypeId) (toEnd : Bool) (nodes : List Node)
    (h : S.fillFragment mk d q after toEnd = .ok nodes) :
    fillBefore d S.generatable q after toEnd = some (S.types nodes) ∧ S.checkKids nodes = true ∧
      (∀ n, n ∈ nodes → n.isText = false ∧ n.marks = []) := by
  obtain ⟨tys, nodes', hf, hby, hn⟩ := fillFragment_ok S mk d q after toEnd nodes h
  obtain ⟨f1, f2, f3⟩ := filledBy_facts S mk hmk tys nodes' hby
  rw [fromArray_not_text nodes' (fun n hn => (f2 n hn).1)] at hn
  subst hn
  exact ⟨by rw [f3]; exact hf, f1, f2⟩

theorem all_allowsMarks_fillers (nt : NodeType) (l : List Node) (h : ∀ n, n ∈ l → n.isText = false ∧ n.marks = []) :
    l.all (fun k => nt.allowsMarks k.marks) = true := by
  rw [List.all_eq_true]
  intro x hx
  rw [(h x hx).2]
  simp [NodeType.allowsMarks]

/-- assembling the node from a front filling, the content and a back filling -/
theorem assemble_valid (S : Schema) (t : TypeId) (hdet : ∀ q, (((S.dfa t).edgesOf q).map (·.1)).Nodup)
    (a : Attrs) (marks : Marks) (content before after : List Node) (matched : Nat)
    (hmarks : canonicalMarks S (setFrom marks) = true)
    (hallow : content.all (fun c => (S.nodeType t).allowsMarks c.marks) = true)
    (hcontent : S.checkKids content = true) (hsz : ∀ c, c ∈ content → c.size ≠ 0)
    (hb1 : S.checkKids before = true) (hb2 : ∀ n, n ∈ before → n.isText = false ∧ n.marks = [])
    (hrun : (S.dfa t).run 0 (S.types (before ++ content)) = some matched)
    (hfill : fillBefore (S.dfa t) S.generatable matched [] true = some (S.types after))
    (ha1 : S.checkKids after = true) (ha2 : ∀ n, n ∈ after → n.isText = false ∧ n.marks = []) :
    fappendSz (before ++ content) after = before ++ content ++ after ∧
    S.checkNode (S.mkNode t a (setFrom marks) (before ++ content ++ after)) = true := by
  have hfz : ∀ c, c ∈ before ++ content → c.size ≠ 0 := by
    intro c hc
    rcases List.mem_append.1 hc with hc | hc
    · exact Nat.ne_of_gt (size_pos_of_not_text c (hb2 c hc).1)
    · exact hsz c hc
  refine ⟨fappendSz_fillers_right _ _ (fun n hn => (ha2 n hn).1) hfz, ?_⟩
  rw [mkNode_check]
  have hsound := fillBefore_sound_aux (S.dfa t) S.generatable matched [] true hdet _ hfill
  rw [isFill_eq] at hsound
  simp only [Bool.and_eq_true] at hsound
  rcases hr : (S.dfa t).run matched (S.types after) with _ | f
  · simp [hr] at hsound
  · simp only [hr, fillFinished, Dfa.run, Bool.not_true, Bool.false_or] at hsound
    have hacc : (S.dfa t).accepts (S.types (before ++ content ++ after)) = true := by
      unfold Dfa.accepts
      rw [types_append, Dfa.run_append, hrun]
      simp [hr, hsound.2]
    have hall : (before ++ content ++ after).all (fun k => (S.nodeType t).allowsMarks k.marks) = true := by
      rw [List.all_append, List.all_append, hallow, all_allowsMarks_fillers _ before hb2,
        all_allowsMarks_fillers _ after ha2]
      rfl
    have hvc : S.validContent t (before ++ content ++ after) = true := by
      unfold Schema.validContent
      rw [hacc, hall]; rfl
    rw [hvc, hmarks, checkKids_append, checkKids_append, hb1, hcontent, ha1]; rfl

/-- what a successful front filling is -/
theorem fillFront_ok (S : Schema) (mk : TypeId → Built) (hmk : FillerOk S mk) (t : TypeId)
    (content frag : List Node) (hsz : ∀ c, c ∈ content → c.size ≠ 0)
    (h : S.fillFront mk t content = .ok frag) :
    ∃ before, frag = before ++ content ∧ S.checkKids before = true ∧
      (∀ x, x ∈ before → x.isText = false ∧ x.marks = []) ∧
      ((before = [] ∧ content = []) ∨
        fillBefore (S.dfa t) S.generatable 0 (S.types content) false = some (S.types before)) := by
  unfold Schema.fillFront at h
  split at h
  · rcases hff : S.fillFragment mk (S.dfa t) 0 (S.types content) false with e | before
    · simp [hff, Except.map] at h
    · simp only [hff, Except.map, Except.ok.injEq] at h
      obtain ⟨f1, f2, f3⟩ := fillFragment_facts S _ hmk _ _ _ _ _ hff
      refine ⟨before, ?_, f2, f3, Or.inr f1⟩
      rw [← h, fappendSz_fillers_left before content (fun x hx => (f3 x hx).1) hsz]
  · rename_i hz
    simp only [Except.ok.injEq] at h
    have : content = [] := (fsize_eq_zero_iff hsz).1 (by simpa using hz)
    exact ⟨[], by simp [h], by simp, by simp, Or.inl ⟨rfl, this⟩⟩

theorem fillFront_error (S : Schema) (mk : TypeId → Built) (t : TypeId) (content : List Node) (b : Built)
    (h : S.fillFront mk t content = .error b) :
    fsize content ≠ 0 ∧ S.fillFragment mk (S.dfa t) 0 (S.types content) false = .error b := by
  unfold Schema.fillFront at h
  split at h
  · rename_i hz
    rcases hff : S.fillFragment mk (S.dfa t) 0 (S.types content) false with e | before
    · simp only [hff, Except.map, Except.error.injEq] at h
      exact ⟨by simpa using hz, by rw [h]⟩
    · simp [hff, Except.map] at h
  · simp at h

theorem createAndFill_valid_aux (S : Schema) (hdet : ∀ w q, (((S.dfa w).edgesOf q).map (·.1)).Nodup) :
    ∀ (fuel : Nat) (t : TypeId) (attrs : Attrs) (content : List Node) (marks : Marks) (n : Node),
      S.createAndFill fuel t attrs content marks = .node n →
      canonicalMarks S (setFrom marks) = true → S.checkKids content = true →
      (∀ c, c ∈ content → c.size ≠ 0) →
      S.checkNode n = true ∧ n.isText = false ∧ S.tyOf n = t ∧ n.marks = setFrom marks ∧
        computeAttrs (S.nodeType t).attrs attrs = .ok n.attrs ∧
        ∃ before after, n.kids = before ++ content ++ after ∧
          ∀ x, x ∈ before ++ after → x.isText = false ∧ x.marks = []
  | 0, _, _, _, _, _, h, _, _, _ => by simp [Schema.createAndFill] at h
  | fuel + 1, t, attrs, content, marks, n, h, hmarks, hcontent, hsz => by
    have hmk : FillerOk S (fun tp => S.createAndFill fuel tp [] [] []) := by
      intro tp m hm
      obtain ⟨c1, c2, c3, c4, _⟩ := createAndFill_valid_aux S hdet fuel tp [] [] [] m hm (by rfl) (by simp) (by simp)
      exact ⟨c1, c2, c3, by simpa [setFrom] using c4⟩
    rw [Schema.createAndFill] at h
    rcases hca : computeAttrs (S.nodeType t).attrs attrs with e | a
    · simp [hca] at h
    · simp only [hca] at h
      by_cases hallow : content.all (fun c => (S.nodeType t).allowsMarks c.marks) = true
      · simp only [hallow, Bool.not_true, Bool.false_eq_true, if_false] at h
        split at h
        · rename_i b hb
          -- the front filling failed: the outcome is not a node
          exact absurd h (fillFragment_error_not_node S _ _ _ _ _ _ (fillFront_error S _ _ _ _ hb).2 n)
        · rename_i frag hfr
          obtain ⟨before, hfrag, hb1, hb2, _⟩ := fillFront_ok S _ hmk t content frag hsz hfr
          subst hfrag
          split at h
          · simp at h
          · rename_i matched hrun
            split at h
            · rename_i b hb
              exact absurd h (fillFragment_error_not_node S _ _ _ _ _ _ hb n)
            · rename_i after hafter
              obtain ⟨g1, g2, g3⟩ := fillFragment_facts S _ hmk _ _ _ _ _ hafter
              split at h
              · simp at h
              · simp only [Built.node.injEq] at h
                obtain ⟨e1, e2⟩ := assemble_valid S t (hdet t) a marks content before after matched hmarks hallow
                  hcontent hsz hb1 hb2 hrun g1 g2 g3
                rw [e1] at h
                subst h
                refine ⟨e2, mkNode_isText .., mkNode_tyOf .., mkNode_marks .., by rw [mkNode_attrs], ?_⟩
                refine ⟨before, after, by rw [mkNode_kids], ?_⟩
                intro x hx
                rcases List.mem_append.1 hx with hx | hx
                · exact hb2 x hx
                · exact g3 x hx
      · simp [hallow] at h

/-! ### when nothing is returned -/

theorem run_lt_size {d : Dfa} (hd : ∀ q t q', (t, q') ∈ d.edgesOf q → q' < d.size) :
    ∀ (l : List TypeId) (q q' : Nat), q < d.size → d.run q l = some q' → q' < d.size
  | [], q, q', hq, h => by
    simp only [Dfa.run, Option.some.injEq] at h
    omega
  | t :: l, q, q', _, h => by
    simp only [Dfa.run] at h
    rcases hm : d.matchType q t with _ | y
    · simp [hm] at h
    · rw [hm] at h
      exact run_lt_size hd l y q' (hd q t y (Dfa.mem_of_matchType hm)) h

theorem createAndFill_nothing_iff_aux (S : Schema)
    (hdet : ∀ w q, (((S.dfa w).edgesOf q).map (·.1)).Nodup) (t : TypeId)
    (hd : ∀ q ty q', (ty, q') ∈ (S.dfa t).edgesOf q → q' < (S.dfa t).size) (hpos : 0 < (S.dfa t).size)
    (hlive : ∀ q, q < (S.dfa t).size → fillBefore (S.dfa t) S.generatable q [] true ≠ none)
    (fuel : Nat) (attrs : Attrs) (content : List Node) (marks : Marks) (a : Attrs)
    (hca : computeAttrs (S.nodeType t).attrs attrs = .ok a) (hsz : ∀ c, c ∈ content → c.size ≠ 0) :
    S.createAndFill (fuel + 1) t attrs content marks = .nothing ↔
      (content.all (fun c => (S.nodeType t).allowsMarks c.marks) = false ∨
       ∀ fill, isFill (S.dfa t) S.generatable 0 (S.types content) false fill = false) := by
  have hmk : FillerOk S (fun tp => S.createAndFill fuel tp [] [] []) := by
    intro tp m hm
    obtain ⟨c1, c2, c3, c4, _⟩ := createAndFill_valid_aux S hdet fuel tp [] [] [] m hm (by rfl) (by simp) (by simp)
    exact ⟨c1, c2, c3, by simpa [setFrom] using c4⟩
  rw [Schema.createAndFill]
  simp only [hca]
  by_cases hallow : content.all (fun c => (S.nodeType t).allowsMarks c.marks) = true
  · simp only [hallow, Bool.not_true, Bool.false_eq_true, if_false, reduceCtorEq, false_or]
    constructor
    · intro h
      split at h
      · rename_i b hb
        subst h
        obtain ⟨_, hff⟩ := fillFront_error S _ _ _ _ hb
        exact fillBefore_complete_aux (S.dfa t) hd S.generatable 0 _ false (fillFragment_nothing S _ _ _ _ _ hff)
      · rename_i frag hfr
        obtain ⟨before, hfrag, _, _, hcase⟩ := fillFront_ok S _ hmk t content frag hsz hfr
        subst hfrag
        exfalso
        split at h
        · rename_i hrun
          rcases hcase with ⟨rfl, rfl⟩ | hfb
          · simp [Schema.types, Dfa.run] at hrun
          · have hs := fillBefore_sound_aux (S.dfa t) S.generatable 0 _ false (hdet t) _ hfb
            unfold isFill at hs
            rw [types_append] at hrun
            simp [hrun] at hs
        · rename_i matched hrun
          split at h
          · rename_i b hb
            subst h
            exact hlive matched (run_lt_size hd _ 0 matched hpos hrun) (fillFragment_nothing S _ _ _ _ _ hb)
          · split at h <;> simp at h
    · intro hno
      have hne : content ≠ [] := by
        intro he
        have := hno []
        simp [he, isFill, Schema.types, Dfa.run] at this
      have hfz : fsize content ≠ 0 := fun h0 => hne ((fsize_eq_zero_iff hsz).1 h0)
      have hfb : fillBefore (S.dfa t) S.generatable 0 (S.types content) false = none := by
        rcases hfb : fillBefore (S.dfa t) S.generatable 0 (S.types content) false with _ | tys
        · rfl
        · have hs := fillBefore_sound_aux (S.dfa t) S.generatable 0 _ false (hdet t) _ hfb
          rw [hno tys] at hs
          simp at hs
      have : S.fillFront (fun tp => S.createAndFill fuel tp [] [] []) t content = .error .nothing := by
        unfold Schema.fillFront Schema.fillFragment
        simp [hfz, hfb, Except.map]
      rw [this]
  · simp [hallow]

/-! ### an answer other than `outOfFuel` does not depend on the fuel -/

theorem fillNodesWith_congr (mk mk' : TypeId → Built)
    (hmk : ∀ tp, mk tp ≠ .outOfFuel → mk' tp = mk tp) :
    ∀ (tys : List TypeId), fillNodesWith mk tys ≠ .error .outOfFuel →
      fillNodesWith mk' tys = fillNodesWith mk tys
  | [], _ => by simp [fillNodesWith]
  | tp :: rest, h => by
    rw [fillNodesWith] at h ⊢
    rw [fillNodesWith]
    by_cases ho : mk tp = .outOfFuel
    · simp [ho] at h
    · rw [hmk tp ho]
      have ih := fillNodesWith_congr mk mk' hmk rest
      rcases hm : mk tp with n | _ | e | _ | _
      · simp only [hm] at h ⊢
        rw [ih (by
          intro he
          rw [he] at h
          exact h rfl)]
      · simp only [hm] at h ⊢
        rw [ih (by
          intro he
          rw [he] at h
          exact h rfl)]
      · rfl
      · rfl
      · exact absurd hm ho

theorem fillFragment_congr (S : Schema) (mk mk' : TypeId → Built)
    (hmk : ∀ tp, mk tp ≠ .outOfFuel → mk' tp = mk tp) (d : Dfa) (q : Nat) (after : List TypeId) (toEnd : Bool)
    (h : S.fillFragment mk d q after toEnd ≠ .error .outOfFuel) :
    S.fillFragment mk' d q after toEnd = S.fillFragment mk d q after toEnd := by
  unfold Schema.fillFragment at h ⊢
  rcases hf : fillBefore d S.generatable q after toEnd with _ | tys
  · rfl
  · simp only [hf] at h ⊢
    rw [fillNodesWith_congr mk mk' hmk tys (by
      intro he
      rw [he] at h
      exact h rfl)]

theorem fillFront_congr (S : Schema) (mk mk' : TypeId → Built)
    (hmk : ∀ tp, mk tp ≠ .outOfFuel → mk' tp = mk tp) (t : TypeId) (content : List Node)
    (h : S.fillFront mk t content ≠ .error .outOfFuel) :
    S.fillFront mk' t content = S.fillFront mk t content := by
  unfold Schema.fillFront at h ⊢
  split
  · rename_i hz
    simp only [hz, if_true] at h
    rw [fillFragment_congr S mk mk' hmk _ _ _ _ (by
      intro he
      rw [he] at h
      exact h rfl)]
  · rfl

theorem createAndFill_fuel_succ (S : Schema) :
    ∀ (fuel : Nat) (t : TypeId) (attrs : Attrs) (content : List Node) (marks : Marks),
      S.createAndFill fuel t attrs content marks ≠ .outOfFuel →
      S.createAndFill (fuel + 1) t attrs content marks = S.createAndFill fuel t attrs content marks
  | 0, _, _, _, _, h => by simp [Schema.createAndFill] at h
  | fuel + 1, t, attrs, content, marks, h => by
    have hmk : ∀ tp, S.createAndFill fuel tp [] [] [] ≠ .outOfFuel →
        S.createAndFill (fuel + 1) tp [] [] [] = S.createAndFill fuel tp [] [] [] :=
      fun tp => createAndFill_fuel_succ S fuel tp [] [] []
    rw [Schema.createAndFill] at h
    rw [Schema.createAndFill, Schema.createAndFill]
    rcases hca : computeAttrs (S.nodeType t).attrs attrs with e | a
    · rfl
    · simp only [hca] at h ⊢
      split
      · rfl
      · rename_i hallow
        simp only [hallow] at h
        have hfr := fillFront_congr S _ _ hmk t content (by
          intro he
          rw [he] at h
          exact h rfl)
        rw [hfr]
        rcases hfront : S.fillFront (fun tp => S.createAndFill fuel tp [] [] []) t content with b | frag
        · rfl
        · simp only [hfront] at h ⊢
          rcases hrun : (S.dfa t).run 0 (S.types frag) with _ | matched
          · rfl
          · simp only [hrun] at h ⊢
            rw [fillFragment_congr S _ _ hmk _ _ _ _ (by
              intro he
              rw [he] at h
              exact h rfl)]

theorem createAndFill_fuel_mono (S : Schema) (fuel : Nat) (t : TypeId) (attrs : Attrs) (content : List Node)
    (marks : Marks) (h : S.createAndFill fuel t attrs content marks ≠ .outOfFuel) :
    ∀ k, S.createAndFill (fuel + k) t attrs content marks = S.createAndFill fuel t attrs content marks
  | 0 => rfl
  | k + 1 => by
    have ih := createAndFill_fuel_mono S fuel t attrs content marks h k
    rw [← Nat.add_assoc, createAndFill_fuel_succ S (fuel + k) t attrs content marks (by rw [ih]; exact h), ih]

/-! ### no internal error on schemas without dead ends -/

theorem computeAttrs_error (given : Attrs) : ∀ (decls : List AttrDecl) (e : Err),
    computeAttrs decls given = .error e → e = .valueError
  | [], e, h => by simp [computeAttrs] at h
  | d :: decls, e, h => by
    have ih := computeAttrs_error given decls
    unfold computeAttrs at h ih
    simp only [List.foldr_cons] at h
    split at h
    · rename_i e' he'
      simp only [Except.error.injEq] at h
      subst h
      exact ih _ he'
    · split at h
      · split at h
        · simp at h
        · split at h
          · simp at h
          · simp only [Except.error.injEq] at h; exact h.symm
      · split at h
        · simp at h
        · simp only [Except.error.injEq] at h; exact h.symm

theorem computeAttrs_defaults : ∀ (decls : List AttrDecl),
    decls.any (fun a => !a.hasDefault) = false → ∃ a, computeAttrs decls [] = .ok a
  | [], _ => ⟨[], by simp [computeAttrs]⟩
  | d :: decls, h => by
    simp only [List.any_cons, Bool.or_eq_false_iff, Bool.not_eq_eq_eq_not, Bool.not_false] at h
    obtain ⟨a, ha⟩ := computeAttrs_defaults decls h.2
    refine ⟨(d.name, d.default) :: a, ?_⟩
    unfold computeAttrs at ha ⊢
    rw [List.foldr_cons, ha]
    simp [h.1]

/-- a filler call ends with a node or runs out of fuel -/
def NodeOrFuel (b : Built) : Prop := (∃ n, b = .node n) ∨ b = .outOfFuel

theorem fillNodesWith_nodeOrFuel (mk : TypeId → Built) : ∀ (tys : List TypeId),
    (∀ tp, tp ∈ tys → NodeOrFuel (mk tp)) →
    (∃ ns : List Node, fillNodesWith mk tys = .ok (ns.map some)) ∨ fillNodesWith mk tys = .error .outOfFuel
  | [], _ => Or.inl ⟨[], rfl⟩
  | tp :: rest, h => by
    rw [fillNodesWith]
    rcases h tp (by simp) with ⟨n, hn⟩ | ho
    · rw [hn]
      rcases fillNodesWith_nodeOrFuel mk rest (fun x hx => h x (List.mem_cons_of_mem _ hx)) with ⟨ns, hns⟩ | he
      · exact Or.inl ⟨n :: ns, by simp [hns, Except.map]⟩
      · exact Or.inr (by simp [he, Except.map])
    · rw [ho]; exact Or.inr rfl

theorem mapM_id_map_some (ns : List Node) : (ns.map some).mapM id = some ns := by
  induction ns with
  | nil => rfl
  | cons n ns ih => simp [List.mapM_cons, ih]

theorem run_mem_labels (d : Dfa) : ∀ (l : List TypeId) (q q' : Nat), d.run q l = some q' →
    ∀ ty, ty ∈ l → ∃ q1 q2, (ty, q2) ∈ d.edgesOf q1
  | [], _, _, _, ty, h => by simp at h
  | t :: l, q, q', h, ty, hty => by
    simp only [Dfa.run] at h
    rcases hm : d.matchType q t with _ | y
    · simp [hm] at h
    · rw [hm] at h
      rcases List.mem_cons.1 hty with rfl | hty
      · exact ⟨q, y, Dfa.mem_of_matchType hm⟩
      · exact run_mem_labels d l y q' h ty hty

/-- the hypotheses on a schema's automata (what `Schema.__init__` leaves behind): deterministic, edge
    targets and edge labels in range, and — for every node type of the schema — at least one state and
    from every state a valid end reachable through generatable types -/
structure LiveAut (S : Schema) : Prop where
  det : ∀ w q, (((S.dfa w).edgesOf q).map (·.1)).Nodup
  wf : ∀ w q ty q', (ty, q') ∈ (S.dfa w).edgesOf q → q' < (S.dfa w).size ∧ ty < S.nodes.size
  pos : ∀ w, w < S.nodes.size → 0 < (S.dfa w).size
  live : ∀ w, w < S.nodes.size → ∀ q, q < (S.dfa w).size →
    fillBefore (S.dfa w) S.generatable q [] true ≠ none

theorem fillFragment_nodeOrFuel (S : Schema) (hS : LiveAut S) (mk : TypeId → Built)
    (hmk : ∀ tp, tp < S.nodes.size → S.generatable tp = true → NodeOrFuel (mk tp)) (w : TypeId) (q : Nat)
    (after : List TypeId) (toEnd : Bool) :
    (∃ ns, S.fillFragment mk (S.dfa w) q after toEnd = .ok ns) ∨
      S.fillFragment mk (S.dfa w) q after toEnd = .error .nothing ∨
      S.fillFragment mk (S.dfa w) q after toEnd = .error .outOfFuel := by
  unfold Schema.fillFragment
  rcases hf : fillBefore (S.dfa w) S.generatable q after toEnd with _ | tys
  · exact Or.inr (Or.inl rfl)
  · have hs := fillBefore_sound_aux (S.dfa w) S.generatable q after toEnd (hS.det w) tys hf
    unfold isFill at hs
    simp only [Bool.and_eq_true, List.all_eq_true] at hs
    have hrange : ∀ tp, tp ∈ tys → tp < S.nodes.size := by
      intro tp htp
      rcases hr : (S.dfa w).run q (tys ++ after) with _ | f
      · simp [hr] at hs
      · obtain ⟨q1, q2, hm⟩ := run_mem_labels _ _ _ _ hr tp (List.mem_append_left _ htp)
        exact (hS.wf w q1 tp q2 hm).2
    rcases fillNodesWith_nodeOrFuel mk tys (fun tp htp => hmk tp (hrange tp htp) (hs.1 tp htp)) with ⟨ns, hns⟩ | he
    · simp only [hns, fragOfOpts, mapM_id_map_some]
      exact Or.inl ⟨_, rfl⟩
    · simp only [he]
      exact Or.inr (Or.inr trivial)

theorem filler_nodeOrFuel (S : Schema) (hS : LiveAut S) :
    ∀ (fuel : Nat) (tp : TypeId), tp < S.nodes.size → S.generatable tp = true →
      NodeOrFuel (S.createAndFill fuel tp [] [] [])
  | 0, _, _, _ => Or.inr (by simp [Schema.createAndFill])
  | fuel + 1, tp, hlt, hg => by
    have hmk := filler_nodeOrFuel S hS fuel
    unfold Schema.generatable at hg
    simp only [Bool.not_eq_eq_eq_not, Bool.not_true, Bool.or_eq_false_iff] at hg
    obtain ⟨a, ha⟩ := computeAttrs_defaults _ hg.2
    rw [Schema.createAndFill]
    simp only [ha, List.all_nil, Bool.not_true, Bool.false_eq_true, if_false]
    have hfront : S.fillFront (fun tp => S.createAndFill fuel tp [] [] []) tp [] = .ok [] := by
      simp [Schema.fillFront, fsize]
    simp only [hfront, Schema.types, List.map_nil, Dfa.run, hg.1, Bool.false_eq_true, if_false]
    rcases fillFragment_nodeOrFuel S hS _ hmk tp 0 [] true with ⟨ns, h⟩ | h | h
    · rw [h]; exact Or.inl ⟨_, rfl⟩
    · exact absurd (fillFragment_nothing S _ _ _ _ _ h) (hS.live tp hlt 0 (hS.pos tp hlt))
    · rw [h]; exact Or.inr rfl

/-- with no dead ends the only exception `create_and_fill` can raise is the ValueError of
    `compute_attrs` (a required attribute without a value) -/
theorem createAndFill_raises_aux (S : Schema) (hS : LiveAut S) (fuel : Nat) (t : TypeId) (attrs : Attrs)
    (content : List Node) (marks : Marks) (e : Err)
    (h : S.createAndFill fuel t attrs content marks = .raises e) :
    e = .valueError ∧ computeAttrs (S.nodeType t).attrs attrs = .error .valueError := by
  cases fuel with
  | zero => simp [Schema.createAndFill] at h
  | succ fuel =>
    have hmk := filler_nodeOrFuel S hS fuel
    rw [Schema.createAndFill] at h
    rcases hca : computeAttrs (S.nodeType t).attrs attrs with e' | a
    · simp only [hca, Built.raises.injEq] at h
      subst h
      have := computeAttrs_error attrs _ _ hca
      subst this
      exact ⟨rfl, rfl⟩
    · exfalso
      simp only [hca] at h
      split at h
      · simp at h
      · have hfrag : ∀ q after toEnd, S.fillFragment (fun tp => S.createAndFill fuel tp [] [] []) (S.dfa t) q after toEnd
            ≠ .error (.raises e) := by
          intro q after toEnd he
          rcases fillFragment_nodeOrFuel S hS _ hmk t q after toEnd with ⟨ns, h'⟩ | h' | h' <;>
            rw [h'] at he <;> simp at he
        split at h
        · rename_i b hb
          subst h
          exact hfrag _ _ _ (fillFront_error S _ _ _ _ hb).2
        · split at h
          · simp at h
          · split at h
            · rename_i b hb
              subst h
              exact hfrag _ _ _ hb
            · split at h <;> simp at h

end PM
