/- Proofs/Wrap.lean — the breadth-first wrapper search (`PM.wrapSearch`) finds a chain whenever one
   exists and the chain it finds is a shortest one (helper lemmas for Props/C15.lean).

   The search graph: a node is the root position (`none`) or a wrapper type (`some w`, standing for the
   start state of `w`'s content automaton).  `WSucc x t`: the search may go from `x` to wrapper `t`.
   `WReach x m`: `x` is reachable from the root by `m` such steps.  `WGoal x`: the target type is
   accepted at `x`.  A wrap chain (`isWrapChain`) is a path to a goal node (`reach_of_isWrapChain`).

   Invariant of the queue (`WInv`): depths are sorted and differ by at most one; every node that is
   seen and no longer queued is not a goal and has all its successors seen; a queued item's depth is
   a lower bound for every path to its node. -/
import PM.Fill
import Proofs.Fill
namespace PM

def wDfa (S : Schema) (d : Dfa) : Option TypeId → Dfa
  | none => d
  | some w => S.dfa w

def wState (q : Nat) : Option TypeId → Nat
  | none => q
  | some _ => 0

def WSucc (S : Schema) (d : Dfa) (q : Nat) (x : Option TypeId) (t : TypeId) : Prop :=
  S.wrapOk t = true ∧
    ∃ s, (t, s) ∈ (wDfa S d x).edgesOf (wState q x) ∧ (x = none ∨ (wDfa S d x).validEnd s = true)

def WGoal (S : Schema) (d : Dfa) (q : Nat) (target : TypeId) (x : Option TypeId) : Prop :=
  ((wDfa S d x).matchType (wState q x) target).isSome = true

inductive WReach (S : Schema) (d : Dfa) (q : Nat) : Option TypeId → Nat → Prop
  | root : WReach S d q none 0
  | step {x : Option TypeId} {t : TypeId} {m : Nat} :
      WReach S d q x m → WSucc S d q x t → WReach S d q (some t) (m + 1)

/-! ### a wrap chain is a path to a goal -/

theorem reach_of_chainInner (S : Schema) (d : Dfa) (q : Nat) (target : TypeId) :
    ∀ (rest : List TypeId) (w : TypeId) (m : Nat),
      rest.all S.wrapOk = true → chainInner S target (w :: rest) = true → WReach S d q (some w) m →
      ∃ x, WReach S d q x (m + rest.length) ∧ WGoal S d q target x
  | [], w, m, _, hc, hr => by
    refine ⟨some w, by simpa using hr, ?_⟩
    simpa [chainInner, WGoal, wDfa, wState] using hc
  | w' :: rest, w, m, hall, hc, hr => by
    simp only [List.all_cons, Bool.and_eq_true] at hall
    simp only [chainInner, Bool.and_eq_true] at hc
    rcases hm : (S.dfa w).matchType 0 w' with _ | s
    · simp [hm] at hc
    · rw [hm] at hc
      have hsucc : WSucc S d q (some w) w' :=
        ⟨hall.1, s, by simpa [wDfa, wState] using Dfa.mem_of_matchType hm, Or.inr (by simpa [wDfa] using hc.1)⟩
      obtain ⟨x, hx, hg⟩ := reach_of_chainInner S d q target rest w' (m + 1) hall.2 hc.2 (WReach.step hr hsucc)
      refine ⟨x, ?_, hg⟩
      have : m + (w' :: rest).length = m + 1 + rest.length := by simp; omega
      rw [this]; exact hx

theorem reach_of_isWrapChain (S : Schema) (d : Dfa) (q : Nat) (target : TypeId) (chain : List TypeId)
    (h : isWrapChain S d q target chain = true) :
    ∃ x, WReach S d q x chain.length ∧ WGoal S d q target x := by
  unfold isWrapChain at h
  rcases chain with _ | ⟨w, rest⟩
  · exact ⟨none, WReach.root, by simpa [WGoal, wDfa, wState] using h⟩
  · simp only [List.all_cons, Bool.and_eq_true] at h
    obtain ⟨⟨hw, hall⟩, hfirst, hinner⟩ := h
    obtain ⟨s, hs⟩ := Option.isSome_iff_exists.1 hfirst
    have h1 : WReach S d q (some w) (0 + 1) :=
      WReach.step WReach.root ⟨hw, s, by simpa [wDfa, wState] using Dfa.mem_of_matchType hs, Or.inl rfl⟩
    obtain ⟨x, hx, hg⟩ := reach_of_chainInner S d q target rest w 1 hall hinner h1
    refine ⟨x, ?_, hg⟩
    have : (w :: rest).length = 1 + rest.length := by simp; omega
    rw [this]; exact hx

/-! ### what one expansion does -/

def Active.node (a : Active) : Option TypeId := if a.root then none else some a.dfaOf

def InSeen (seen : List TypeId) : Option TypeId → Prop
  | none => True
  | some t => t ∈ seen

theorem wrapExpand_spec (S : Schema) (D : Dfa) (cur : Active) :
    ∀ (es : List (TypeId × Nat)) (seen : List TypeId),
      (∀ t, t ∈ seen → t ∈ (wrapExpand S D cur es seen).2) ∧
      (∀ a, a ∈ (wrapExpand S D cur es seen).1 →
        a.root = false ∧ a.state = 0 ∧ a.chain = cur.chain ++ [a.dfaOf] ∧ a.dfaOf ∉ seen) ∧
      (∀ t, t ∈ (wrapExpand S D cur es seen).2 → t ∉ seen →
        ∃ a, a ∈ (wrapExpand S D cur es seen).1 ∧ a.dfaOf = t) ∧
      (∀ e, e ∈ es → S.wrapOk e.1 = true → (cur.root || D.validEnd e.2) = true →
        e.1 ∈ (wrapExpand S D cur es seen).2)
  | [], seen => by simp [wrapExpand]
  | e :: es, seen => by
    rw [wrapExpand]
    split
    · rename_i hc
      simp only [Bool.and_eq_true, Bool.not_eq_eq_eq_not, Bool.not_true, List.contains_eq_mem,
        decide_eq_false_iff_not] at hc
      obtain ⟨h1, h2, h3, h4⟩ := wrapExpand_spec S D cur es (e.1 :: seen)
      refine ⟨fun t ht => h1 t (List.mem_cons_of_mem _ ht), ?_, ?_, ?_⟩
      · intro a ha
        rcases List.mem_cons.1 ha with rfl | ha
        · exact ⟨rfl, rfl, rfl, hc.1.2⟩
        · obtain ⟨a1, a2, a3, a4⟩ := h2 a ha
          exact ⟨a1, a2, a3, fun hm => a4 (List.mem_cons_of_mem _ hm)⟩
      · intro t ht hns
        by_cases hte : t = e.1
        · exact ⟨_, List.mem_cons_self, hte.symm⟩
        · obtain ⟨a, ha, hat⟩ := h3 t ht (by simp [hte, hns])
          exact ⟨a, List.mem_cons_of_mem _ ha, hat⟩
      · intro e' he' hok hv
        rcases List.mem_cons.1 he' with rfl | he'
        · exact h1 _ (by simp)
        · exact h4 e' he' hok hv
    · rename_i hc
      obtain ⟨h1, h2, h3, h4⟩ := wrapExpand_spec S D cur es seen
      refine ⟨h1, h2, h3, ?_⟩
      intro e' he' hok hv
      rcases List.mem_cons.1 he' with rfl | he'
      · simp only [hok, hv, Bool.true_and, Bool.and_true, Bool.not_eq_eq_eq_not, Bool.not_true,
          List.contains_eq_mem, decide_eq_false_iff_not, Decidable.not_not] at hc
        exact h1 _ hc
      · exact h4 e' he' hok hv

/-- every expansion uses up as many unseen types as it queues items -/
theorem wrapExpand_unseen (S : Schema) (D : Dfa) (cur : Active) (n : Nat) :
    ∀ (es : List (TypeId × Nat)) (seen : List TypeId), (∀ e, e ∈ es → e.1 < n) →
      unseen n (wrapExpand S D cur es seen).2 + (wrapExpand S D cur es seen).1.length ≤ unseen n seen
  | [], seen, _ => by simp [wrapExpand]
  | e :: es, seen, hlt => by
    rw [wrapExpand]
    have hlt' : ∀ e', e' ∈ es → e'.1 < n := fun e' he' => hlt e' (List.mem_cons_of_mem _ he')
    split
    · rename_i hc
      simp only [Bool.and_eq_true, Bool.not_eq_eq_eq_not, Bool.not_true, List.contains_eq_mem,
        decide_eq_false_iff_not] at hc
      have ih := wrapExpand_unseen S D cur n es (e.1 :: seen) hlt'
      have := unseen_cons_lt (hlt e (by simp)) hc.1.2
      simp only [List.length_cons]
      omega
    · exact wrapExpand_unseen S D cur n es seen hlt'

/-! ### the queue invariant -/

structure WInv (S : Schema) (d : Dfa) (q : Nat) (target : TypeId) (queue : List Active) (seen : List TypeId) :
    Prop where
  item : ∀ a, a ∈ queue → a.state = wState q a.node
  sorted : queue.Pairwise (fun a b => a.chain.length ≤ b.chain.length)
  near : ∀ a, a ∈ queue → ∀ b, b ∈ queue → b.chain.length ≤ a.chain.length + 1
  closed : ∀ x, InSeen seen x → (∀ a, a ∈ queue → a.node ≠ x) →
    ¬ WGoal S d q target x ∧ ∀ t, WSucc S d q x t → t ∈ seen
  depth : ∀ a, a ∈ queue → ∀ m, WReach S d q a.node m → a.chain.length ≤ m

theorem Active.dfa_eq (S : Schema) (d : Dfa) (a : Active) : a.dfa S d = wDfa S d a.node := by
  unfold Active.dfa Active.node
  cases a.root <;> simp [wDfa]

/-- a node reachable in fewer steps than every queued depth is already seen -/
theorem reach_inSeen {S : Schema} {d : Dfa} {q : Nat} {target : TypeId} {queue : List Active}
    {seen : List TypeId} (hinv : WInv S d q target queue seen) :
    ∀ {x : Option TypeId} {m : Nat}, WReach S d q x m → (∀ a, a ∈ queue → m ≤ a.chain.length) →
      InSeen seen x := by
  intro x m hr
  induction hr with
  | root => intro _; trivial
  | @step x t m hr hs ih =>
    intro hle
    have hx : InSeen seen x := ih (fun a ha => by have := hle a ha; omega)
    have hnq : ∀ a, a ∈ queue → a.node ≠ x := by
      intro a ha he
      have h1 := hinv.depth a ha m (he ▸ hr)
      have h2 := hle a ha
      omega
    exact (hinv.closed x hx hnq).2 t hs

theorem winv_init (S : Schema) (d : Dfa) (q : Nat) (target : TypeId) :
    WInv S d q target [{ dfaOf := 0, state := q, chain := [], root := true }] [] where
  item := by simp [Active.node, wState]
  sorted := by simp
  near := by simp
  closed := by
    intro x hx hn
    rcases x with _ | t
    · exact absurd rfl (hn { dfaOf := 0, state := q, chain := [], root := true } (by simp))
    · simp [InSeen] at hx
  depth := by simp

theorem winv_step {S : Schema} {d : Dfa} {q : Nat} {target : TypeId} {cur : Active} {rest : List Active}
    {seen : List TypeId} (hinv : WInv S d q target (cur :: rest) seen)
    (hng : ¬ WGoal S d q target cur.node) :
    WInv S d q target
      (rest ++ (wrapExpand S (cur.dfa S d) cur ((cur.dfa S d).edgesOf cur.state) seen).1)
      (wrapExpand S (cur.dfa S d) cur ((cur.dfa S d).edgesOf cur.state) seen).2 := by
  obtain ⟨e1, e2, e3, e4⟩ := wrapExpand_spec S (cur.dfa S d) cur ((cur.dfa S d).edgesOf cur.state) seen
  have hsorted := List.pairwise_cons.1 hinv.sorted
  have hk : ∀ a, a ∈ cur :: rest → cur.chain.length ≤ a.chain.length := by
    intro a ha
    rcases List.mem_cons.1 ha with rfl | ha
    · exact Nat.le_refl _
    · exact hsorted.1 a ha
  have hnewlen : ∀ a, a ∈ (wrapExpand S (cur.dfa S d) cur ((cur.dfa S d).edgesOf cur.state) seen).1 →
      a.chain.length = cur.chain.length + 1 := by
    intro a ha
    rw [(e2 a ha).2.2.1]; simp
  have hnewnode : ∀ a, a ∈ (wrapExpand S (cur.dfa S d) cur ((cur.dfa S d).edgesOf cur.state) seen).1 →
      a.node = some a.dfaOf := by
    intro a ha
    simp [Active.node, (e2 a ha).1]
  refine ⟨?_, ?_, ?_, ?_, ?_⟩
  · intro a ha
    rcases List.mem_append.1 ha with ha | ha
    · exact hinv.item a (List.mem_cons_of_mem _ ha)
    · rw [hnewnode a ha, (e2 a ha).2.1]; rfl
  · refine List.pairwise_append.2 ⟨hsorted.2, ?_, ?_⟩
    · refine List.Pairwise.imp_of_mem (R := fun _ _ => True) ?_ (List.pairwise_of_forall (fun _ _ => trivial))
      intro a b ha hb _
      rw [hnewlen a ha, hnewlen b hb]; exact Nat.le_refl _
    · intro a ha b hb
      rw [hnewlen b hb]
      exact hinv.near cur (by simp) a (List.mem_cons_of_mem _ ha)
  · intro a ha b hb
    rcases List.mem_append.1 ha with ha | ha <;> rcases List.mem_append.1 hb with hb | hb
    · exact hinv.near a (List.mem_cons_of_mem _ ha) b (List.mem_cons_of_mem _ hb)
    · rw [hnewlen b hb]
      have := hk a (List.mem_cons_of_mem _ ha)
      omega
    · rw [hnewlen a ha]
      have := hinv.near cur (by simp) b (List.mem_cons_of_mem _ hb)
      omega
    · rw [hnewlen a ha, hnewlen b hb]; omega
  · intro x hx hnq
    by_cases hxc : x = cur.node
    · subst hxc
      refine ⟨hng, ?_⟩
      rintro t ⟨hok, s, hmem, hv⟩
      rw [← Active.dfa_eq, ← hinv.item cur (by simp)] at hmem
      refine e4 (t, s) hmem hok ?_
      rcases hv with hv | hv
      · have : cur.root = true := by
          unfold Active.node at hv
          cases hr : cur.root <;> simp_all
        simp [this]
      · rw [← Active.dfa_eq] at hv
        simp [hv]
    · have hx' : InSeen seen x := by
        rcases x with _ | t
        · trivial
        · by_cases hts : t ∈ seen
          · exact hts
          · obtain ⟨a, ha, hat⟩ := e3 t hx hts
            exact absurd (by rw [hnewnode a ha, hat]) (hnq a (List.mem_append_right _ ha))
      have hnq' : ∀ a, a ∈ cur :: rest → a.node ≠ x := by
        intro a ha
        rcases List.mem_cons.1 ha with rfl | ha
        · exact fun h => hxc h.symm
        · exact hnq a (List.mem_append_left _ ha)
      obtain ⟨c1, c2⟩ := hinv.closed x hx' hnq'
      exact ⟨c1, fun t ht => e1 t (c2 t ht)⟩
  · intro a ha m hr
    rcases List.mem_append.1 ha with ha | ha
    · exact hinv.depth a (List.mem_cons_of_mem _ ha) m hr
    · rw [hnewlen a ha]
      by_cases hm : m ≤ cur.chain.length
      · rw [hnewnode a ha] at hr
        have := reach_inSeen hinv hr (fun b hb => Nat.le_trans hm (hk b hb))
        exact absurd this (e2 a ha).2.2.2
      · omega

/-! ### shortest and complete -/

theorem wrapSearch_shortest (S : Schema) (d : Dfa) (q : Nat) (target : TypeId) :
    ∀ (fuel : Nat) (queue : List Active) (seen : List TypeId) (c : List TypeId),
      WInv S d q target queue seen → wrapSearch S d target fuel queue seen = some c →
      ∀ x m, WReach S d q x m → WGoal S d q target x → c.length ≤ m
  | 0, _, _, _, _, h => by simp [wrapSearch] at h
  | _ + 1, [], _, _, _, h => by simp [wrapSearch] at h
  | fuel + 1, cur :: rest, seen, c, hinv, h => by
    rw [wrapSearch.eq_3] at h
    by_cases hm : ((cur.dfa S d).matchType cur.state target).isSome = true
    · rw [if_pos hm] at h
      simp only [Option.some.injEq] at h
      subst h
      intro x m hr hg
      by_cases hlt : m < cur.chain.length
      · exfalso
        have hsorted := List.pairwise_cons.1 hinv.sorted
        have hk : ∀ a, a ∈ cur :: rest → cur.chain.length ≤ a.chain.length := by
          intro a ha
          rcases List.mem_cons.1 ha with rfl | ha
          · exact Nat.le_refl _
          · exact hsorted.1 a ha
        have hx := reach_inSeen hinv hr (fun a ha => by have := hk a ha; omega)
        have hnq : ∀ a, a ∈ cur :: rest → a.node ≠ x := by
          intro a ha he
          have h1 := hinv.depth a ha m (he ▸ hr)
          have h2 := hk a ha
          omega
        exact (hinv.closed x hx hnq).1 hg
      · omega
    · rw [if_neg hm] at h
      have hng : ¬ WGoal S d q target cur.node := by
        unfold WGoal
        rw [← Active.dfa_eq, ← hinv.item cur (by simp)]
        exact hm
      exact wrapSearch_shortest S d q target fuel _ _ c (winv_step hinv hng) h

theorem wrapSearch_complete (S : Schema) (d : Dfa) (q : Nat) (target : TypeId) (n : Nat)
    (hwf : ∀ x t s, (t, s) ∈ (wDfa S d x).edgesOf (wState q x) → t < n) :
    ∀ (fuel : Nat) (queue : List Active) (seen : List TypeId),
      WInv S d q target queue seen → unseen n seen + queue.length ≤ fuel →
      wrapSearch S d target fuel queue seen = none →
      ∀ x m, WReach S d q x m → ¬ WGoal S d q target x
  | 0, queue, seen, hinv, hf, _ => by
    have hq : queue = [] := by
      rcases queue with _ | ⟨a, l⟩
      · rfl
      · simp at hf
    subst hq
    intro x m hr
    exact (hinv.closed x (reach_inSeen hinv hr (by simp)) (by simp)).1
  | _ + 1, [], seen, hinv, _, _ => by
    intro x m hr
    exact (hinv.closed x (reach_inSeen hinv hr (by simp)) (by simp)).1
  | fuel + 1, cur :: rest, seen, hinv, hf, h => by
    rw [wrapSearch.eq_3] at h
    by_cases hm : ((cur.dfa S d).matchType cur.state target).isSome = true
    · rw [if_pos hm] at h
      simp at h
    · rw [if_neg hm] at h
      have hng : ¬ WGoal S d q target cur.node := by
        unfold WGoal
        rw [← Active.dfa_eq, ← hinv.item cur (by simp)]
        exact hm
      refine wrapSearch_complete S d q target n hwf fuel _ _ (winv_step hinv hng) ?_ h
      have hu := wrapExpand_unseen S (cur.dfa S d) cur n ((cur.dfa S d).edgesOf cur.state) seen (by
        intro e he
        rw [Active.dfa_eq, hinv.item cur (by simp)] at he
        exact hwf cur.node e.1 e.2 he)
      simp only [List.length_cons, List.length_append] at hf ⊢
      omega

end PM
