/- Proofs/FitInline.lean — `replace_step` with a closed slice of leaf / text nodes (typed text, hard
   breaks, images: `Slice.inlineLeaves`) returns in the model: the loop of `fit` keeps an invariant
   (`FitLoopInv`: every frontier entry holds a match, `placed` has a last-child chain as long as the
   frontier, the unplaced slice stays closed and flat) under which no step raises; it terminates
   (Proofs/FitLoop.lean); `must_move_inline` and `close` go through as for deletions
   (Proofs/FitDelete.lean). -/
import Proofs.FitDelete
namespace PM

/-! ### the schema hypothesis `Schema.wrapOKB`, as a proposition -/

def WrapOK (S : Schema) : Prop :=
  (∀ w, S.wrappable w = true → (S.nodeType w).isText = false) ∧
  (∀ w q x w0 rest q', x < S.nodes.size → findWrappingTypes S (S.dfa w) q x = some (w0 :: rest) →
    (S.dfa w).matchType q w0 = some q' → (S.dfa w).matchType q' x = none)

theorem matchType_no_edges {d : Dfa} {q : Nat} (h : d.edgesOf q = []) (t : TypeId) : d.matchType q t = none := by
  unfold Dfa.matchType; rw [h]; rfl

theorem findWrappingTypes_no_edges (S : Schema) (d : Dfa) (q : Nat) (x : TypeId) (h : d.edgesOf q = [])
    (w : List TypeId) (hw : findWrappingTypes S d q x = some w) : w = [] := by
  unfold findWrappingTypes at hw
  rw [wrapSearchO.eq_3] at hw
  simp only [matchType_no_edges h, Option.isSome_none, Bool.false_eq_true, if_false, h, wrapEdges,
    List.nil_append] at hw
  cases hn : S.nodes.size + 1 with
  | zero => omega
  | succ n => rw [hn] at hw; simp [wrapSearchO] at hw

theorem dfa_out_of_range (S : Schema) (w : TypeId) (hw : ¬ w < S.nodes.size) (q : Nat) :
    (S.dfa w).edgesOf q = [] := by
  have : (S.dfa w) = #[] := by
    simp only [Schema.dfa, Schema.nodeType]
    rw [getElem!_neg S.nodes w hw]
    rfl
  rw [this]
  rfl

theorem wrapOK_of_B (S : Schema) (h : S.wrapOKB = true) : WrapOK S := by
  simp only [Schema.wrapOKB, List.all_eq_true, List.mem_range, Bool.and_eq_true, Bool.or_eq_true,
    Bool.not_eq_eq_eq_not, Bool.not_true] at h
  refine ⟨?_, ?_⟩
  · intro w hw
    by_cases hlt : w < S.nodes.size
    · rcases (h w hlt).1 with h1 | h1
      · rw [hw] at h1; simp at h1
      · exact h1
    · simp only [Schema.nodeType]
      rw [getElem!_neg S.nodes w hlt]
      rfl
  · intro w q x w0 rest q' hx hfw hm
    by_cases hlt : w < S.nodes.size
    · by_cases hq : q < (S.dfa w).size
      · have := (h w hlt).2 q hq x hx
        rw [hfw] at this
        simp only [hm, Option.isNone_iff_eq_none] at this
        exact this
      · have he : (S.dfa w).edgesOf q = [] := by
          simp only [Dfa.edgesOf]
          rw [Array.getElem?_eq_none (by omega)]
        have := findWrappingTypes_no_edges S _ q x he _ hfw
        simp at this
    · have := findWrappingTypes_no_edges S _ q x (dfa_out_of_range S w hlt q) _ hfw
      simp at this

/-! ### creating wrapper nodes -/

theorem computeAttrs_defaults' : ∀ (decls : List AttrDecl), decls.any (fun a => !a.hasDefault) = false →
    ∃ a, computeAttrs decls [] = .ok a
  | [], _ => ⟨[], rfl⟩
  | d :: ds, h => by
    simp only [List.any_cons, Bool.or_eq_false_iff, Bool.not_eq_eq_eq_not, Bool.not_false] at h
    obtain ⟨a, ha⟩ := computeAttrs_defaults' ds h.2
    have e : computeAttrs (d :: ds) [] =
        (match computeAttrs ds [] with
         | .error e => .error e
         | .ok rest =>
           match (([] : Attrs).find? (·.1 == d.name)).map (·.2) with
           | some v => if v != "null" then .ok ((d.name, v) :: rest)
                       else if d.hasDefault then .ok ((d.name, d.default) :: rest) else .error .valueError
           | none => if d.hasDefault then .ok ((d.name, d.default) :: rest) else .error .valueError) := rfl
    rw [e, ha]
    simp only [List.find?_nil, Option.map_none, h.1, if_true]
    exact ⟨_, rfl⟩

theorem wrapper_creatable (S : Schema) (hw : WrapOK S) (w : TypeId) (h : S.wrappable w = true) :
    (S.nodeType w).isText = false ∧ (S.nodeType w).isLeaf = false ∧
      ∃ a, computeAttrs (S.nodeType w).attrs [] = .ok a := by
  have h' := h
  simp only [Schema.wrappable, Bool.and_eq_true, Bool.not_eq_eq_eq_not, Bool.not_true] at h'
  exact ⟨hw.1 w h, h'.1, computeAttrs_defaults' _ h'.2⟩

/-! ### sizes and the frontier under `add_to_fragment`, `open_frontier_node` -/

theorem addToFragment_size : ∀ (d : Nat) (frag c r : List Node), addToFragment frag d c = .ok r →
    fsize r = fsize frag + fsize c
  | 0, frag, c, r, h => by
    have := pure_ok h
    subst this
    exact fappend_size frag c
  | d + 1, frag, c, r, h => by
    unfold addToFragment at h
    split at h
    · rename_i t a m kids hl
      obtain ⟨inner, hi, h⟩ := FM.bind_ok h
      have := pure_ok h
      subst this
      have ih := addToFragment_size d kids c inner hi
      have hfrag : frag = frag.dropLast ++ [Node.elem t a m kids] := by
        obtain ⟨ys, rfl⟩ := List.getLast?_eq_some_iff.mp hl
        simp
      conv => rhs; rw [hfrag]
      simp only [fsize_append, Node.size_elem, ih, fsize]
      omega
    · simp [throw, throwThe, MonadExceptOf.throw] at h

theorem addToFragment_nil : ∀ (d : Nat) (frag : List Node), rspineOK d frag → addToFragment frag d [] = .ok frag
  | 0, frag, _ => by
    unfold addToFragment fappend
    rfl
  | d + 1, frag, ⟨t, a, m, kids, h1, h2⟩ => by
    unfold addToFragment
    simp only [h1, FM.bind_eq (addToFragment_nil d kids h2)]
    obtain ⟨ys, rfl⟩ := List.getLast?_eq_some_iff.mp h1
    simp [pure, Except.pure]

theorem openFrontierNode_full (S : Schema) (fr : List FItem) (placed : List Node) (t : TypeId)
    (attrs : Option Attrs) (content : List Node) (top : FItem) (q : Nat) (hlast : fr.getLast? = some top)
    (hq : top.st = some q) (hsp : rspineOK (fr.length - 1) placed)
    (h1 : (S.nodeType t).isText = false) (h2 : (S.nodeType t).isLeaf = false)
    (h3 : ∃ a', computeAttrs (S.nodeType t).attrs (attrs.getD []) = .ok a') :
    ∃ p, openFrontierNode S fr placed t attrs content =
        .ok (fr.set (fr.length - 1) ⟨top.ty, (S.dfa top.ty).matchType q t⟩ ++ [⟨t, some 0⟩], p) ∧
      rspineOK fr.length p ∧ fsize p = fsize placed + 2 + fsize content := by
  obtain ⟨a', ha'⟩ := h3
  have hne : fr ≠ [] := by
    intro h0; subst h0; simp at hlast
  have hlen : fr.length - 1 < fr.length := by
    cases fr with
    | nil => exact absurd rfl hne
    | cons x l => simp
  have hit : fr[fr.length - 1] = top := by
    rw [List.getLast?_eq_getElem?, List.getElem?_eq_getElem hlen] at hlast
    simpa using hlast
  unfold openFrontierNode
  simp only
  rw [FM.bind_eq (getItem_lt hlen), hit]
  have hgs : getSt top = .ok q := by unfold getSt; rw [hq]; rfl
  have hcn : S.createNodeO t attrs content = .ok (.elem t a' [] content) := by
    unfold Schema.createNodeO Schema.mkNodeO
    simp only [h1, h2, Bool.false_eq_true, if_false, ha']
    rfl
  rw [FM.bind_eq hgs, FM.bind_eq hcn]
  obtain ⟨p, hp, _, hps⟩ := addToFragment_ok (fr.length - 1) placed [.elem t a' [] content] hsp
  have hsz := addToFragment_size _ _ _ _ hp
  rw [FM.bind_eq hp]
  refine ⟨p, rfl, ?_, ?_⟩
  · have := hps t a' [] content rfl
    rwa [show fr.length - 1 + 1 = fr.length by omega] at this
  · rw [hsz]; simp [fsize]; omega

theorem FrOK_set {fr : List FItem} (h : FrOK fr) (i : Nat) (it : FItem) (hq : ∃ q, it.st = some q) :
    FrOK (fr.set i it) := by
  intro x hx
  rcases List.mem_or_eq_of_mem_set hx with hx | rfl
  · exact h x hx
  · exact hq

theorem FrOK_append {a b : List FItem} (ha : FrOK a) (hb : FrOK b) : FrOK (a ++ b) := by
  intro x hx
  rcases List.mem_append.1 hx with hx | hx
  · exact ha x hx
  · exact hb x hx

/-- **opening a wrapper chain** keeps every invariant of the frontier and of `placed` -/
theorem openMany_ok (S : Schema) (hw : WrapOK S) : ∀ (ws : List TypeId) (fr : List FItem) (placed : List Node)
    (top : FItem) (q : Nat), fr.getLast? = some top → top.st = some q → ChainFrom S (S.dfa top.ty) q ws →
    FrOK fr → rspineOK (fr.length - 1) placed →
    ∃ r, openMany S ws fr placed = .ok r ∧ FrOK r.1 ∧ r.1.length = fr.length + ws.length ∧
      rspineOK (r.1.length - 1) r.2 ∧ fsize placed + 2 * ws.length ≤ fsize r.2 ∧
      (∀ i, i + 1 < fr.length → r.1[i]? = fr[i]?) ∧
      (∀ w0 rest, ws = w0 :: rest → r.1[fr.length - 1]? = some ⟨top.ty, (S.dfa top.ty).matchType q w0⟩)
  | [], fr, placed, top, q, _, _, _, hfr, hsp =>
    ⟨(fr, placed), rfl, hfr, by simp, hsp, by simp, fun _ _ => rfl, fun _ _ h => by simp at h⟩
  | w :: ws, fr, placed, top, q, hlast, hq, ⟨hc1, hc2, hc3⟩, hfr, hsp => by
    obtain ⟨h1, h2, h3⟩ := wrapper_creatable S hw w hc1
    obtain ⟨p, hp, hps, hpsz⟩ := openFrontierNode_full S fr placed w none [] top q hlast hq hsp h1 h2
      (by simpa using h3)
    have hne : fr ≠ [] := by
      intro h0; subst h0; simp at hlast
    have hlen : 1 ≤ fr.length := by
      cases fr with
      | nil => exact absurd rfl hne
      | cons x l => simp
    obtain ⟨q', hq'⟩ := Option.isSome_iff_exists.1 hc2
    let fr1 := fr.set (fr.length - 1) ⟨top.ty, (S.dfa top.ty).matchType q w⟩ ++ [⟨w, some 0⟩]
    have hfr1 : FrOK fr1 :=
      FrOK_append (FrOK_set hfr _ _ ⟨q', by simp [hq']⟩) (by intro x hx; simp at hx; subst hx; exact ⟨0, rfl⟩)
    have hfr1len : fr1.length = fr.length + 1 := by simp [fr1]
    have hfr1last : fr1.getLast? = some ⟨w, some 0⟩ := by simp [fr1]
    obtain ⟨r, hr, hr1, hr2, hr3, hr4, hr5, _⟩ := openMany_ok S hw ws fr1 p ⟨w, some 0⟩ 0 hfr1last rfl hc3 hfr1
      (by rw [hfr1len, Nat.add_sub_cancel]; exact hps)
    unfold openMany
    rw [FM.bind_eq hp]
    refine ⟨r, hr, hr1, by rw [hr2, hfr1len]; simp; omega, hr3, ?_, ?_, ?_⟩
    · simp only [List.length_cons]
      simp only [fsize, Nat.add_zero] at hpsz
      omega
    · intro i hi
      rw [hr5 i (by omega)]
      simp only [fr1]
      rw [List.getElem?_append_left (by simp; omega), List.getElem?_set_ne (by omega)]
    · intro w0 rest hws
      simp only [List.cons.injEq] at hws
      obtain ⟨rfl, _⟩ := hws
      rw [hr5 (fr.length - 1) (by omega)]
      simp only [fr1]
      rw [List.getElem?_append_left (by simp; omega), List.getElem?_set_self (by omega)]

/-! ### the invariant of the loop for closed slices of leaf nodes -/

/-- `D` = depth of `from` (for the `insert` of a replace-around step) -/
structure FitLoopInv (S : Schema) (D : Nat) (st : FitState) : Prop where
  frok : FrOK st.frontier
  ne : st.frontier ≠ []
  sp : rspineOK (st.frontier.length - 1) st.placed
  leaf : ∀ n ∈ st.unplaced.content, n.isLeaf = true
  tys : ∀ n ∈ st.unplaced.content, S.tyOf n < S.nodes.size
  os0 : st.unplaced.openStart = 0
  oe0 : st.unplaced.openEnd = 0
  sz : st.frontier.length - 1 + D ≤ fsize st.placed

/-! ### `find_fittable` goes through -/

theorem frontierHit_ok0 (S : Schema) (hdet : DetS S) (hf : FillersOK S) (pass2 : Bool) (sd : Nat)
    (first : Option Node) (it : FItem) (fd : Nat) (q : Nat) (hq : it.st = some q) :
    ∃ r, frontierHit S pass2 sd none first it fd = .ok r := by
  have hgs : getSt it = .ok q := by unfold getSt; rw [hq]; rfl
  unfold frontierHit
  cases pass2 with
  | false =>
    simp only [Bool.not_false, if_true]
    cases first with
    | none => exact ⟨none, rfl⟩
    | some fst =>
      simp only
      rw [FM.bind_eq hgs]
      split
      · exact ⟨_, rfl⟩
      · obtain ⟨inj, hinj⟩ := fillOpt_ok S hdet hf it.ty q [S.tyOf fst] false
        rw [FM.bind_eq hinj]
        cases inj <;> exact ⟨_, rfl⟩
  | true =>
    simp only [Bool.not_true, Bool.false_eq_true, if_false]
    cases first with
    | none => exact ⟨none, rfl⟩
    | some fst =>
      simp only
      rw [FM.bind_eq hgs]
      split <;> exact ⟨_, rfl⟩

theorem scanFrontier_ok0 (S : Schema) (hdet : DetS S) (hf : FillersOK S) (pass2 : Bool) (sd : Nat)
    (first : Option Node) (fr : List FItem) (hfr : FrOK fr) :
    ∀ n, n ≤ fr.length → ∃ r, scanFrontier S pass2 sd none first fr n = .ok r
  | 0, _ => ⟨none, rfl⟩
  | n + 1, h => by
    unfold scanFrontier
    rw [FM.bind_eq (getItem_lt (by omega))]
    obtain ⟨q, hq⟩ := hfr fr[n] (List.getElem_mem _)
    obtain ⟨hit, hhit⟩ := frontierHit_ok0 S hdet hf pass2 sd first fr[n] n q hq
    rw [FM.bind_eq hhit]
    cases hit with
    | some g => exact ⟨_, rfl⟩
    | none =>
      simp only
      have hb : frontierBreak S none fr[n] = .ok false := rfl
      rw [FM.bind_eq hb]
      simp only [Bool.false_eq_true, if_false]
      exact scanFrontier_ok0 S hdet hf pass2 sd first fr hfr n (by omega)

theorem scanSlice_ok0 (S : Schema) (hdet : DetS S) (hf : FillersOK S) (pass2 : Bool) (u : Slice)
    (fr : List FItem) (hfr : FrOK fr) : ∃ r, scanSlice S pass2 u fr 1 = .ok r := by
  unfold scanSlice
  have hl : sliceLevel u 0 = .ok (none, u.content) := by unfold sliceLevel; simp; rfl
  rw [FM.bind_eq hl]
  obtain ⟨r, hr⟩ := scanFrontier_ok0 S hdet hf pass2 0 u.content.head? fr hfr fr.length (Nat.le_refl _)
  simp only
  rw [FM.bind_eq hr]
  cases r with
  | some g => exact ⟨_, rfl⟩
  | none => exact ⟨none, rfl⟩

theorem findFittable_ok (S : Schema) (hdet : DetS S) (hf : FillersOK S) (D : Nat) (st : FitState)
    (inv : FitLoopInv S D st) : ∃ r, findFittable S st = .ok r := by
  unfold findFittable
  simp only [inv.os0]
  have hs : fittableStart S 0 0 0 st.unplaced.content st.unplaced.openEnd = .ok 0 := rfl
  rw [FM.bind_eq hs]
  obtain ⟨r, hr⟩ := scanSlice_ok0 S hdet hf false st.unplaced st.frontier inv.frok
  rw [FM.bind_eq hr]
  cases r with
  | some g => exact ⟨_, rfl⟩
  | none => exact scanSlice_ok0 S hdet hf true st.unplaced st.frontier inv.frok

/-! ### the take loop on a closed slice -/

theorem takeLoop_ok0 (S : Schema) (d : Dfa) (frontTy : TypeId) (oec : Int) (total : Nat) :
    ∀ (rest : List Node) (taken q : Nat) (add : List Node),
      ∃ r, takeLoop S d frontTy 0 oec total rest taken q add = .ok r
  | [], taken, q, add => ⟨_, rfl⟩
  | next :: rest, taken, q, add => by
    unfold takeLoop
    split
    · exact ⟨_, rfl⟩
    · simp only [beq_self_eq_true, Bool.or_true, Bool.true_or, if_true, ite_self]
      have hc : ∀ (n : Node) (oe : Int), closeNodeStart S 0 n oe = .ok n := fun n oe => rfl
      rw [FM.bind_eq (hc _ _)]
      exact takeLoop_ok0 S d frontTy oec total rest _ _ _

theorem takeLoop_nomatch (S : Schema) (d : Dfa) (frontTy : TypeId) (os : Nat) (oec : Int) (total : Nat)
    (next : Node) (rest : List Node) (taken q : Nat) (add : List Node)
    (h : d.matchType q (S.tyOf next) = none) :
    takeLoop S d frontTy os oec total (next :: rest) taken q add = .ok (taken, q, add) := by
  unfold takeLoop
  rw [h]
  rfl

theorem closeFrontierNode_size (S : Schema) (fr : List FItem) (placed : List Node)
    (r : List FItem × List Node) (h : closeFrontierNode S fr placed = .ok r) : fsize placed ≤ fsize r.2 := by
  unfold closeFrontierNode at h
  split at h
  · simp [throw, throwThe, MonadExceptOf.throw] at h
  · obtain ⟨q, _, h⟩ := FM.bind_ok h
    obtain ⟨add, _, h⟩ := FM.bind_ok h
    cases add with
    | none =>
      have := pure_ok h
      subst this; exact Nat.le_refl _
    | some a =>
      simp only at h
      split at h
      · have := pure_ok h
        subst this; exact Nat.le_refl _
      · obtain ⟨p, hp, h⟩ := FM.bind_ok h
        have := pure_ok h
        subst this
        have := addToFragment_size _ _ _ _ hp
        simp only
        omega

theorem closeMany_size (S : Schema) : ∀ (n : Nat) (fr : List FItem) (placed : List Node)
    (r : List FItem × List Node), closeMany S n fr placed = .ok r → fsize placed ≤ fsize r.2
  | 0, fr, placed, r, h => by
    have := pure_ok h
    subst this; exact Nat.le_refl _
  | n + 1, fr, placed, r, h => by
    unfold closeMany at h
    obtain ⟨x, hx, h⟩ := FM.bind_ok h
    have h1 := closeFrontierNode_size S fr placed x hx
    have h2 := closeMany_size S n x.1 x.2 r h
    omega

/-! ### `place_nodes` goes through and keeps the invariant -/

theorem placeNodes_ok (S : Schema) (hdet : DetS S) (hf : FillersOK S) (hw : WrapOK S) (D : Nat)
    (st : FitState) (inv : FitLoopInv S D st) (f : Fittable) (hfit : findFittable S st = .ok (some f)) :
    ∃ st', placeNodes S st f = .ok st' ∧ FitLoopInv S D st' := by
  obtain ⟨lvl, it, hsd, hlvl, hpar, hit, kind, _⟩ := findFittable_kind S st f hfit
  have hsd0 : f.sliceDepth = 0 := by have := inv.os0; omega
  rw [hsd0] at hlvl
  have hlvl' : lvl = (none, st.unplaced.content) := by
    rcases sliceLevel_ok hlvl with ⟨_, h⟩ | ⟨h, _⟩
    · exact h
    · omega
  subst hlvl'
  simp only at hpar kind
  have hfragment : f.fragment st.unplaced = st.unplaced.content := by
    unfold Fittable.fragment; rw [hpar]
  have hfdlt : f.frontierDepth < st.frontier.length := by
    rcases Nat.lt_or_ge f.frontierDepth st.frontier.length with h1 | h1
    · exact h1
    · rw [List.getElem?_eq_none h1] at hit; simp at hit
  obtain ⟨q, hq⟩ := inv.frok it (List.mem_of_getElem? hit)
  -- closing down to the fittable's depth
  obtain ⟨c1, hc1, hc1f, hc1s⟩ := closeMany_ok S hdet hf (st.frontier.length - 1 - f.frontierDepth)
    st.frontier st.placed inv.frok (by omega) inv.sp
  have hc1sz := closeMany_size S _ _ _ c1 hc1
  have hc1f' : c1.1 = st.frontier.take (f.frontierDepth + 1) := by
    rw [hc1f]; congr 1; omega
  have hc1len : c1.1.length = f.frontierDepth + 1 := by
    rw [hc1f', List.length_take]; omega
  have hc1ok : FrOK c1.1 := by rw [hc1f']; exact inv.frok.take _
  have hc1it : c1.1[f.frontierDepth]? = some it := by
    rw [hc1f', List.getElem?_take_of_lt (by omega)]; exact hit
  have hc1last : c1.1.getLast? = some it := by
    rw [List.getLast?_eq_getElem?, hc1len, Nat.add_sub_cancel]; exact hc1it
  -- the wrappers (if any) are opened
  have hchain : ChainFrom S (S.dfa it.ty) q (f.wrap.getD []) := by
    cases kind with
    | direct _ _ _ _ _ _ hwn => rw [hwn]; trivial
    | inject _ _ _ _ _ _ _ hwn => rw [hwn]; trivial
    | empty _ _ _ _ hwn => rw [hwn]; trivial
    | wrap fst q' w hfst hq' hfw _ hwn =>
      rw [hwn]
      rw [hq] at hq'
      simp only [Option.some.injEq] at hq'
      subst hq'
      exact findWrappingTypes_chain S _ _ _ w hfw
  obtain ⟨c2, hc2, hc2ok, hc2len, hc2s, hc2sz, hc2pre, hc2top⟩ :=
    openMany_ok S hw (f.wrap.getD []) c1.1 c1.2 it q hc1last hq hchain hc1ok hc1s
  rw [hc1len] at hc2len hc2top
  simp only [Nat.add_sub_cancel] at hc2top
  -- the frontier item the take loop starts from
  have hitem : ∃ item q0, c2.1[f.frontierDepth]? = some item ∧ item.st = some q0 ∧ item.ty = it.ty ∧
      (f.wrap.getD [] = [] → q0 = q) ∧
      (∀ w0 rest, f.wrap.getD [] = w0 :: rest → (S.dfa it.ty).matchType q w0 = some q0) := by
    cases hws : f.wrap.getD [] with
    | nil =>
      rw [hws] at hc2
      have := pure_ok hc2
      subst this
      exact ⟨it, q, hc1it, hq, rfl, fun _ => rfl, fun _ _ h => by simp at h⟩
    | cons w0 rest =>
      have htop := hc2top w0 rest hws
      rw [hws] at hchain
      obtain ⟨q', hq'⟩ := Option.isSome_iff_exists.1 hchain.2.1
      refine ⟨_, q', htop, by simp [hq'], rfl, fun h => by simp at h, ?_⟩
      intro w0' rest' h
      simp only [List.cons.injEq] at h
      rw [← h.1]; exact hq'
  obtain ⟨item, q0, hitem, hitq, hitty, hq0nil, hq0cons⟩ := hitem
  have hfdlt2 : f.frontierDepth < c2.1.length := by rw [hc2len]; omega
  -- the filling in front (pass 1) runs from the item's state
  have hrun : ∃ q1, (S.dfa item.ty).run q0 (S.types (f.inject.getD [])) = some q1 := by
    cases kind with
    | direct _ _ _ _ _ hinj _ => rw [hinj]; exact ⟨q0, rfl⟩
    | empty _ _ _ hinj _ => rw [hinj]; exact ⟨q0, rfl⟩
    | wrap _ _ _ _ _ _ hinj _ => rw [hinj]; exact ⟨q0, rfl⟩
    | inject fst q' inj hfst hq' hfill hinj hwn =>
      rw [hinj, hitty]
      have hq0 : q0 = q := hq0nil (by rw [hwn]; rfl)
      rw [hq] at hq'
      simp only [Option.some.injEq] at hq'
      subst hq'; subst hq0
      have htys := fillBeforeNodes_types S _ _ _ _ inj (liftRaise_ok hfill)
      obtain ⟨q1, hr, _⟩ := fillBeforeTypes_one S _ (hdet it.ty) q0 (S.tyOf fst) _ htys
      exact ⟨q1, hr⟩
  obtain ⟨q1, hq1⟩ := hrun
  -- the take loop
  obtain ⟨tk, htk⟩ := takeLoop_ok0 S (S.dfa item.ty) item.ty (f.oec0 st.unplaced) st.unplaced.content.length
    st.unplaced.content 0 q1 (f.inject.getD [])
  -- with wrappers opened nothing is taken at the frontier level itself
  have hwrap_nothing : ∀ w0 rest, f.wrap.getD [] = w0 :: rest → tk.2.2 = [] := by
    intro w0 rest hws
    cases kind with
    | direct _ _ _ _ _ _ hwn => rw [hwn] at hws; simp at hws
    | inject _ _ _ _ _ _ _ hwn => rw [hwn] at hws; simp at hws
    | empty _ _ _ _ hwn => rw [hwn] at hws; simp at hws
    | wrap fst q' w hfst hq' hfw hinj hwn =>
      rw [hwn] at hws
      simp only [Option.getD_some] at hws
      subst hws
      rw [hq] at hq'
      simp only [Option.some.injEq] at hq'
      subst hq'
      obtain ⟨rest', hl2⟩ : ∃ rest', st.unplaced.content = fst :: rest' := by
        cases hl : st.unplaced.content with
        | nil => rw [hl] at hfst; simp at hfst
        | cons a l => rw [hl] at hfst; simp at hfst; subst hfst; exact ⟨l, rfl⟩
      have hm0 := hq0cons w0 rest (by rw [hwn]; rfl)
      have hnm := hw.2 it.ty q (S.tyOf fst) w0 rest q0 (inv.tys fst (by rw [hl2]; simp)) hfw hm0
      have hq1' : q1 = q0 := by
        rw [hinj] at hq1
        simpa [Schema.types, Dfa.run] using hq1.symm
      rw [hl2, hinj, hq1', hitty, takeLoop_nomatch S _ _ _ _ _ fst rest' 0 q0 _ hnm] at htk
      have := pure_ok htk
      rw [← this]
      rfl
  -- adding what was taken
  have hadd : ∃ p, addToFragment c2.2 f.frontierDepth (fromArray tk.2.2) = .ok p ∧
      rspineOK (c2.1.length - 1) p ∧ fsize c2.2 ≤ fsize p := by
    cases hws : f.wrap.getD [] with
    | nil =>
      have hl : c2.1.length - 1 = f.frontierDepth := by rw [hc2len, hws]; simp
      rw [hl] at hc2s ⊢
      obtain ⟨p, hp, hps, _⟩ := addToFragment_ok f.frontierDepth c2.2 (fromArray tk.2.2) hc2s
      have := addToFragment_size _ _ _ _ hp
      exact ⟨p, hp, hps, by omega⟩
    | cons w0 rest =>
      rw [hwrap_nothing w0 rest hws]
      have hsp' : rspineOK f.frontierDepth c2.2 := rspineOK_le _ _ _ (by omega) hc2s
      exact ⟨c2.2, addToFragment_nil _ _ hsp', hc2s, Nat.le_refl _⟩
  obtain ⟨p, hp, hps, hpsz⟩ := hadd
  -- the step
  unfold placeNodes
  rw [FM.bind_eq hc1, FM.bind_eq hc2]
  simp only [hfragment, hsd0, Nat.sub_zero]
  rw [FM.bind_eq (show getItem c2.1 f.frontierDepth = .ok item by unfold getItem; rw [hitem]; rfl)]
  rw [FM.bind_eq (show getSt item = .ok q0 by unfold getSt; rw [hitq]; rfl)]
  rw [FM.bind_eq (show liftRaise ((S.dfa item.ty).run q0 (S.types (f.inject.getD []))) = .ok q1 by rw [hq1]; rfl)]
  have htk' : takeLoop S (S.dfa item.ty) item.ty st.unplaced.openStart
      ((fsize st.unplaced.content : Int) + (0 : Nat) - ((fsize st.unplaced.content : Int) - st.unplaced.openEnd))
      st.unplaced.content.length st.unplaced.content 0 q1 (f.inject.getD []) = .ok tk := by
    rw [inv.os0]
    have : f.oec0 st.unplaced = (fsize st.unplaced.content : Int) + (0 : Nat) -
        ((fsize st.unplaced.content : Int) - st.unplaced.openEnd) := by
      unfold Fittable.oec0; rw [hfragment, hsd0]
    rw [← this]; exact htk
  rw [FM.bind_eq htk', FM.bind_eq hp]
  have hset_len : (c2.1.set f.frontierDepth ⟨item.ty, some tk.2.1⟩).length = c2.1.length := List.length_set
  have hlast_lt : (c2.1.set f.frontierDepth ⟨item.ty, some tk.2.1⟩).length - 1 <
      (c2.1.set f.frontierDepth ⟨item.ty, some tk.2.1⟩).length := by
    rw [hset_len]; omega
  rw [FM.bind_eq (getItem_lt hlast_lt)]
  simp only [hpar, Bool.and_false, Bool.false_and, Bool.false_eq_true, if_false, hset_len]
  have hoec : ((if (tk.1 == st.unplaced.content.length) = true then
      (fsize st.unplaced.content : Int) + (0 : Nat) - ((fsize st.unplaced.content : Int) - st.unplaced.openEnd)
      else -1) : Int).toNat = 0 := by
    rw [inv.oe0]
    split
    · simp
    · rfl
  rw [FM.bind_eq (show (pure (c2.1.set f.frontierDepth ⟨item.ty, some tk.2.1⟩, p) : FM _) = .ok _ from rfl)]
  simp only [hoec, pushOpenEnd]
  rw [FM.bind_eq (show (pure (c2.1.set f.frontierDepth ⟨item.ty, some tk.2.1⟩) : FM _) = .ok _ from rfl)]
  -- the new unplaced slice
  have hrest : ∃ u', placeRest st.unplaced 0 tk.1 (tk.1 == st.unplaced.content.length)
      (if (tk.1 == st.unplaced.content.length) = true then
        (fsize st.unplaced.content : Int) + (0 : Nat) - ((fsize st.unplaced.content : Int) - st.unplaced.openEnd)
       else -1) = .ok u' ∧ (∀ n ∈ u'.content, n ∈ st.unplaced.content) ∧ u'.openStart = 0 ∧ u'.openEnd = 0 := by
    unfold placeRest
    cases (tk.1 == st.unplaced.content.length) with
    | false =>
      simp only [Bool.not_false, if_true, dropFromFragment]
      exact ⟨_, rfl, fun n hn => List.mem_of_mem_drop hn, inv.os0, inv.oe0⟩
    | true =>
      simp only [Bool.not_true, Bool.false_eq_true, if_false, beq_self_eq_true, if_true]
      exact ⟨Slice.empty, rfl, fun n hn => by simp [Slice.empty] at hn, rfl, rfl⟩
  obtain ⟨u', hu', hu1, hu2, hu3⟩ := hrest
  rw [FM.bind_eq hu']
  refine ⟨_, rfl, ?_⟩
  refine ⟨FrOK_set hc2ok _ _ ⟨_, rfl⟩, ?_, ?_, fun n hn => inv.leaf n (hu1 n hn), fun n hn => inv.tys n (hu1 n hn),
    hu2, hu3, ?_⟩
  · intro h0
    have : (c2.1.set f.frontierDepth ⟨item.ty, some tk.2.1⟩).length = 0 := by simp only at h0; rw [h0]; rfl
    rw [hset_len] at this; omega
  · simp only [hset_len]; exact hps
  · simp only [hset_len]
    have := inv.sz
    omega

/-! ### `open_more`, `drop_node`, the whole iteration -/

theorem openMore_none (S : Schema) (D : Nat) (st : FitState) (inv : FitLoopInv S D st) : openMore st = .ok none := by
  unfold openMore
  simp only [inv.os0, contentAt, bind, Except.bind, pure, Except.pure]
  cases hc : st.unplaced.content with
  | nil => rfl
  | cons first rest =>
    simp only
    rw [inv.leaf first (by rw [hc]; simp)]
    rfl

theorem dropNode_ok (S : Schema) (D : Nat) (st : FitState) (inv : FitLoopInv S D st) :
    ∃ st', dropNode st = .ok st' ∧ FitLoopInv S D st' := by
  unfold dropNode
  simp only [inv.os0, contentAt, bind, Except.bind, pure, Except.pure, Nat.lt_irrefl, decide_false,
    Bool.and_false, Bool.false_eq_true, if_false, dropFromFragment]
  refine ⟨_, rfl, inv.frok, inv.ne, inv.sp, ?_, ?_, rfl, inv.oe0, inv.sz⟩
  · intro n hn
    exact inv.leaf n (List.mem_of_mem_drop hn)
  · intro n hn
    exact inv.tys n (List.mem_of_mem_drop hn)

theorem fitStep_ok (S : Schema) (hdet : DetS S) (hf : FillersOK S) (hw : WrapOK S) (D : Nat)
    (st : FitState) (inv : FitLoopInv S D st) : ∃ st', fitStep S st = .ok st' ∧ FitLoopInv S D st' := by
  obtain ⟨r, hr⟩ := findFittable_ok S hdet hf D st inv
  unfold fitStep
  rw [FM.bind_eq hr]
  cases r with
  | some f => exact placeNodes_ok S hdet hf hw D st inv f hr
  | none =>
    simp only
    rw [FM.bind_eq (openMore_none S D st inv)]
    exact dropNode_ok S D st inv

/-- **the loop of `fit` returns** on a closed slice of leaf nodes, and its final state satisfies the
    invariant -/
theorem fitLoop_ok (S : Schema) (hdet : DetS S) (hf : FillersOK S) (hw : WrapOK S) (D : Nat) :
    ∀ (fuel : Nat) (st : FitState), FitLoopInv S D st → fitMeasure st.unplaced (cpot S st) < fuel →
      ∃ st', fitLoop S fuel st = .ok st' ∧ FitLoopInv S D st'
  | 0, st, _, h => by omega
  | fuel + 1, st, inv, hm => by
    unfold fitLoop
    cases hsz : (st.unplaced.size == 0) with
    | true => exact ⟨st, rfl, inv⟩
    | false =>
      simp only [Bool.false_eq_true, if_false]
      obtain ⟨st1, h1, inv1⟩ := fitStep_ok S hdet hf hw D st inv
      rw [FM.bind_eq h1]
      have hne : st.unplaced.content ≠ [] := by
        intro h0
        unfold Slice.size at hsz
        rw [h0, inv.os0, inv.oe0] at hsz
        simp [fsize] at hsz
      have hlt := fitStep_progress S hdet st st1 hne h1
      exact fitLoop_ok S hdet hf hw D fuel st1 inv1 (by omega)

/-! ### after the loop, and `replace_step` as a whole -/

theorem fitterFit_ok_of_loop (S : Schema) (hdet : DetS S) (hfill : FillersOK S) {doc : Node} {t : Nat}
    {rf rt : RPos} (ht : doc.resolve t = some rt) (hattrs : S.nodeAttrsOK doc = true)
    (htop : S.isTextblockO (S.tyOf doc) = false) (sl : Slice) (fuel : Nat) (st0 st : FitState)
    (h0 : fitInit S rf sl = .ok st0) (hl : fitLoop S fuel st0 = .ok st) (hfr : FrOK st.frontier)
    (hne : st.frontier ≠ []) (hsp : rspineOK (st.frontier.length - 1) st.placed)
    (hsz : st.frontier.length - 1 + rf.depth ≤ fsize st.placed) :
    ∃ r, fitterFit S doc rf rt sl fuel = .ok r := by
  have Rt := resolve_resolved ht
  unfold fitterFit
  rw [FM.bind_eq h0, FM.bind_eq hl]
  obtain ⟨mi, hmi⟩ := mustMoveInline_ok S hdet hfill Rt st.frontier hfr hne htop
  rw [FM.bind_eq hmi]
  simp only
  have htarget : ∃ target pt, closeTarget doc rt mi = .ok target ∧ doc.resolve pt = some target := by
    cases mi with
    | none => exact ⟨rt, t, rfl, ht⟩
    | some p =>
      obtain ⟨after, ha, hp⟩ := mustMoveInline_some S doc rt st.frontier p hmi
      have hd1 : 1 ≤ rt.depth := by
        rcases Nat.eq_zero_or_pos rt.depth with h0 | h0
        · rw [h0] at ha; simp [RPos.after] at ha
        · exact h0
      rw [Rt.after_eq rt.depth hd1 (Nat.le_refl _)] at ha
      simp only [Option.some.injEq] at ha
      have ns := Rt.nest_step (rt.depth - 1) (by omega)
      rw [show rt.depth - 1 + 1 = rt.depth by omega] at ns
      obtain ⟨_, m2, _⟩ := moveInlineAfter_spec Rt ht rt.depth after hd1 (Nat.le_refl _) (by omega)
      obtain ⟨r, hr⟩ := resolve_isSome doc p (by rw [hp]; exact m2)
      exact ⟨r, p, by simp only [closeTarget, hr]; rfl, hr⟩
  obtain ⟨target, pt, htg, hpt⟩ := htarget
  rw [FM.bind_eq htg]
  obtain ⟨c, hc⟩ := closeFit_ok S hdet hfill hpt hattrs st.frontier st.placed hfr hne hsp
  rw [FM.bind_eq hc]
  cases c with
  | none => exact ⟨none, rfl⟩
  | some c =>
    simp only
    unfold fitEmit
    cases mi with
    | none =>
      simp only
      split
      · exact ⟨_, rfl⟩
      · exact ⟨none, rfl⟩
    | some p =>
      simp only
      rw [if_neg (by omega)]
      exact ⟨_, rfl⟩

/-- **`replace_step` with a closed slice of leaf / text nodes returns** on every range of a valid
    document -/
theorem replaceStep_inline_total (S : Schema) (hdet : DetS S) (hfill : FillersOK S) (hw : WrapOK S)
    (doc : Node) (f t : Nat) (sl : Slice) (hsl : sl.inlineLeaves S = true)
    (hv : S.checkNode doc = true) (hattrs : S.nodeAttrsOK doc = true)
    (htop : S.isTextblockO (S.tyOf doc) = false) (hf : f ≤ fsize doc.kids) (ht : t ≤ fsize doc.kids) :
    ∃ r, replaceStep S doc f t sl = .ok r := by
  obtain ⟨rf, hrf⟩ := resolve_isSome doc f hf
  obtain ⟨rt, hrt⟩ := resolve_isSome doc t ht
  simp only [Slice.inlineLeaves, Bool.and_eq_true, beq_iff_eq, List.all_eq_true, decide_eq_true_eq] at hsl
  obtain ⟨⟨hos, hoe⟩, hall⟩ := hsl
  unfold replaceStep
  split
  · exact ⟨none, rfl⟩
  · simp only [hrf, hrt]
    obtain ⟨b, hb⟩ := fitsTriviallyR_some S hrf hv (rt := rt) sl
    rw [hb]
    cases b with
    | true => exact ⟨_, rfl⟩
    | false =>
      simp only
      obtain ⟨st0, h0, hu, hfr, hlen, hsp, hsz⟩ := fitInit_ok S hrf hv sl
      have inv0 : FitLoopInv S rf.depth st0 := by
        refine ⟨hfr, ?_, by rw [hlen, Nat.add_sub_cancel]; exact hsp, ?_, ?_, by rw [hu]; exact hos,
          by rw [hu]; exact hoe, by rw [hlen, hsz]; omega⟩
        · intro h; rw [h] at hlen; simp at hlen
        · intro n hn; rw [hu] at hn; exact (hall n hn).1
        · intro n hn; rw [hu] at hn; exact (hall n hn).2
      obtain ⟨st, hl, inv⟩ := fitLoop_ok S hdet hfill hw rf.depth (fitFuel S sl) st0 inv0 (by
        have := fitFuel_enough S st0
        rw [hu] at this
        rw [hu]; exact this)
      exact fitterFit_ok_of_loop S hdet hfill hrt hattrs htop sl _ st0 st h0 hl inv.frok inv.ne inv.sp inv.sz

end PM
