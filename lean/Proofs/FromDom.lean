/-
  Proofs/FromDom.lean — the declarative reading of context expressions (`Item`, `Denotes`,
  `AltMatches`, `itemsOf`) and the lemmas relating it to the model of
  `ParseContext.matches_context` (PM/FromDom.lean).  Property theorems: Props/C19.lean.
-/
import PM.FromDom
namespace PM.FromDom

/-! ### the declarative reading -/

/-- one step of a context expression: a node name / group name, or the `//` wildcard -/
inductive Item where
  | name (s : List Char)
  | any
deriving DecidableEq, Repr

def toItem (p : List Char) : Item := if p.isEmpty then .any else .name p

def dropFirstEmpty : List (List Char) → List (List Char)
  | [] :: r => r
  | l => l

def dropLastEmpty (l : List (List Char)) : List (List Char) :=
  if l.getLast? = some [] then l.dropLast else l

/-- how a `|`-free expression is read: split at `/`; an empty first piece (leading slash) and an empty
    last piece (trailing slash) are dropped; every other empty piece is a `//` wildcard -/
def itemsOf (alt : List Char) : List Item :=
  (dropFirstEmpty (dropLastEmpty (splitOn '/' alt))).map toItem

/-- `Denotes ok items l`: the list of ancestors `l` (outermost first) is matched *exactly* by `items`:
    a name matches one ancestor (by `ok`: type name or group), the wildcard any number (≥ 0) -/
inductive Denotes (ok : List Char → TypeId → Bool) : List Item → List TypeId → Prop
  | nil : Denotes ok [] []
  | name {s t is l} : ok s t = true → Denotes ok is l → Denotes ok (.name s :: is) (t :: l)
  | any {is l} (pre : List TypeId) : Denotes ok is l → Denotes ok (.any :: is) (pre ++ l)

/-- an expression matches a stack of visible ancestors (outermost first) iff some *suffix* of the stack
    is denoted by it (anchored at the innermost ancestor, free at the top) — and, when the expression
    begins with a wildcard, at least one ancestor is left outside the matched suffix (the wildcard loop
    never continues below the outermost visible ancestor) -/
def AltMatches (ok : List Char → TypeId → Bool) (items : List Item) (stack : List TypeId) : Prop :=
  ∃ pre suf, stack = pre ++ suf ∧ Denotes ok items suf ∧ (items.head? = some .any → pre ≠ [])

/-! ### the same matcher on items (innermost first) -/

def matchItems (ok : List Char → TypeId → Bool) : List Item → List TypeId → Bool
  | [], _ => true
  | .name _ :: _, [] => false
  | .name s :: is, t :: anc => ok s t && matchItems ok is anc
  | .any :: is, anc => wildLoop (matchItems ok is) anc

theorem dropLastEmpty_nil : dropLastEmpty [] = [] := by simp [dropLastEmpty]

theorem dropLastEmpty_cons (p : List Char) (rest : List (List Char)) :
    dropLastEmpty (p :: rest) =
      if rest = [] then (if p = [] then [] else [p]) else p :: dropLastEmpty rest := by
  cases rest with
  | nil => by_cases hp : p = [] <;> simp [dropLastEmpty, hp]
  | cons q r =>
    simp only [dropLastEmpty, List.getLast?_cons_cons, reduceCtorEq, if_false]
    split <;> simp [List.dropLast]

theorem wildLoop_congr {f g : List TypeId → Bool} (h : ∀ a, f a = g a) : ∀ anc, wildLoop f anc = wildLoop g anc
  | [] => by simp [wildLoop]
  | t :: rest => by simp [wildLoop, h, wildLoop_congr h rest]

theorem isEmpty_iff_nil (p : List Char) : p.isEmpty = true ↔ p = [] := by
  cases p <;> simp

/-- Lemma A: below the last part the index-flag version is the item matcher on the parts with an empty
    `parts[0]` dropped -/
theorem matchRev_false (ok : List Char → TypeId → Bool) :
    ∀ (r : List (List Char)) (anc : List TypeId),
      matchRev ok false r anc = matchItems ok ((dropLastEmpty r).map toItem) anc
  | [], anc => by simp [matchRev, dropLastEmpty_nil, matchItems]
  | p :: rest, anc => by
    have ih := matchRev_false ok rest
    rw [dropLastEmpty_cons]
    by_cases hp : p = []
    · subst hp
      by_cases hr : rest = []
      · subst hr; simp [matchRev, matchItems]
      · have hre : rest.isEmpty = false := by cases rest <;> simp_all
        simp only [matchRev, List.isEmpty_nil, if_true, Bool.false_or, hre, hr, if_false,
          List.map_cons, toItem, matchItems, Bool.false_eq_true]
        exact wildLoop_congr (fun a => ih a) anc
    · have hpe : p.isEmpty = false := by cases p <;> simp_all
      by_cases hr : rest = []
      · subst hr
        cases anc <;> simp [matchRev, hpe, hp, toItem, matchItems]
      · cases anc with
        | nil => simp [matchRev, hpe, hr, toItem, matchItems]
        | cons t anc' => simp [matchRev, hpe, hr, toItem, matchItems, ih anc']

/-- Lemma B: the top-level call, where `parts[len - 1]` is skipped when empty -/
theorem matchRev_true (ok : List Char → TypeId → Bool) (r : List (List Char)) (anc : List TypeId) :
    matchRev ok true r anc = matchItems ok ((dropLastEmpty (dropFirstEmpty r)).map toItem) anc := by
  cases r with
  | nil => simp [matchRev, dropFirstEmpty, dropLastEmpty_nil, matchItems]
  | cons p rest =>
    by_cases hp : p = []
    · subst hp
      simp only [matchRev, List.isEmpty_nil, if_true, Bool.true_or, dropFirstEmpty]
      exact matchRev_false ok rest anc
    · have hpe : p.isEmpty = false := by cases p <;> simp_all
      have hd : dropFirstEmpty (p :: rest) = p :: rest := by
        cases p with
        | nil => exact absurd rfl hp
        | cons c cs => rfl
      rw [hd, ← matchRev_false]
      cases anc <;> simp [matchRev, hpe]

theorem dropLastEmpty_reverse (l : List (List Char)) :
    dropLastEmpty l.reverse = (dropFirstEmpty l).reverse := by
  cases l with
  | nil => simp [dropFirstEmpty, dropLastEmpty_nil]
  | cons p rest =>
    by_cases hp : p = []
    · subst hp; simp [dropFirstEmpty, dropLastEmpty]
    · have : dropFirstEmpty (p :: rest) = p :: rest := by
        cases p with
        | nil => exact absurd rfl hp
        | cons c cs => rfl
      simp [dropLastEmpty, hp, this]

theorem dropFirstEmpty_reverse (l : List (List Char)) :
    dropFirstEmpty l.reverse = (dropLastEmpty l).reverse := by
  have := dropLastEmpty_reverse l.reverse
  rw [List.reverse_reverse] at this
  rw [this, List.reverse_reverse]

/-- the item matcher run on the reading of the expression, innermost first -/
theorem matchesAlt_eq (ok : List Char → TypeId → Bool) (anc : List TypeId) (alt : List Char) :
    matchesAlt ok anc alt = matchItems ok (itemsOf alt).reverse anc := by
  unfold matchesAlt itemsOf
  rw [matchRev_true, dropFirstEmpty_reverse, dropLastEmpty_reverse, List.map_reverse]

/-! ### `Denotes` read from the inner end -/

theorem denotes_snoc_name (ok : List Char → TypeId → Bool) (s : List Char) :
    ∀ (xs : List Item) (l : List TypeId),
      Denotes ok (xs ++ [.name s]) l ↔ ∃ l' t, l = l' ++ [t] ∧ ok s t = true ∧ Denotes ok xs l'
  | [], l => by
    constructor
    · intro h
      cases h with
      | name h1 h2 => cases h2; exact ⟨[], _, rfl, h1, .nil⟩
    · rintro ⟨l', t, rfl, h1, h2⟩
      cases h2; exact .name h1 .nil
  | .name s' :: xs, l => by
    constructor
    · intro h
      cases h with
      | name h1 h2 =>
        obtain ⟨l', t, rfl, h3, h4⟩ := (denotes_snoc_name ok s xs _).mp h2
        exact ⟨_ :: l', t, rfl, h3, .name h1 h4⟩
    · rintro ⟨l', t, rfl, h1, h2⟩
      cases h2 with
      | name h3 h4 => exact .name h3 ((denotes_snoc_name ok s xs _).mpr ⟨_, t, rfl, h1, h4⟩)
  | .any :: xs, l => by
    constructor
    · intro h
      cases h with
      | any pre h2 =>
        obtain ⟨l', t, rfl, h3, h4⟩ := (denotes_snoc_name ok s xs _).mp h2
        exact ⟨pre ++ l', t, by simp, h3, .any pre h4⟩
    · rintro ⟨l', t, rfl, h1, h2⟩
      cases h2 with
      | any pre h4 =>
        have := Denotes.any pre ((denotes_snoc_name ok s xs _).mpr ⟨_, t, rfl, h1, h4⟩)
        simpa using this

theorem denotes_snoc_any (ok : List Char → TypeId → Bool) :
    ∀ (xs : List Item) (l : List TypeId),
      Denotes ok (xs ++ [.any]) l ↔ ∃ l' mid, l = l' ++ mid ∧ Denotes ok xs l'
  | [], l => by
    constructor
    · intro h
      cases h with
      | any pre h2 => cases h2; exact ⟨[], pre, by simp, .nil⟩
    · rintro ⟨l', mid, rfl, h2⟩
      cases h2
      have := Denotes.any (ok := ok) mid .nil
      simpa using this
  | .name s' :: xs, l => by
    constructor
    · intro h
      cases h with
      | name h1 h2 =>
        obtain ⟨l', mid, rfl, h4⟩ := (denotes_snoc_any ok xs _).mp h2
        exact ⟨_ :: l', mid, rfl, .name h1 h4⟩
    · rintro ⟨l', mid, rfl, h2⟩
      cases h2 with
      | name h3 h4 => exact .name h3 ((denotes_snoc_any ok xs _).mpr ⟨_, mid, rfl, h4⟩)
  | .any :: xs, l => by
    constructor
    · intro h
      cases h with
      | any pre h2 =>
        obtain ⟨l', mid, rfl, h4⟩ := (denotes_snoc_any ok xs _).mp h2
        exact ⟨pre ++ l', mid, by simp, .any pre h4⟩
    · rintro ⟨l', mid, rfl, h2⟩
      cases h2 with
      | any pre h4 =>
        have := Denotes.any pre ((denotes_snoc_any ok xs _).mpr ⟨_, mid, rfl, h4⟩)
        simpa using this

theorem denotes_nil_iff (ok : List Char → TypeId → Bool) (l : List TypeId) : Denotes ok [] l ↔ l = [] := by
  constructor
  · intro h; cases h; rfl
  · rintro rfl; exact .nil

theorem denotes_name_ne_nil {ok : List Char → TypeId → Bool} {s : List Char} {is : List Item} {l : List TypeId}
    (h : Denotes ok (.name s :: is) l) : l ≠ [] := by
  cases h; simp

/-- `wildLoop f anc`: `f` holds on some non-empty tail of `anc` -/
theorem wildLoop_iff (f : List TypeId → Bool) :
    ∀ anc, wildLoop f anc = true ↔ ∃ skipped rest, anc = skipped ++ rest ∧ rest ≠ [] ∧ f rest = true
  | [] => by simp [wildLoop]
  | t :: anc => by
    simp only [wildLoop, Bool.or_eq_true, wildLoop_iff f anc]
    constructor
    · rintro (h | ⟨sk, rest, rfl, hne, hf⟩)
      · exact ⟨[], t :: anc, rfl, by simp, h⟩
      · exact ⟨t :: sk, rest, rfl, hne, hf⟩
    · rintro ⟨sk, rest, heq, hne, hf⟩
      cases sk with
      | nil => left; simp at heq; rw [heq]; exact hf
      | cons a sk =>
        right
        simp at heq
        exact ⟨sk, rest, heq.2, hne, hf⟩

/-- Lemma C: the item matcher (items and ancestors innermost first) decides `AltMatches` -/
theorem matchItems_iff (ok : List Char → TypeId → Bool) :
    ∀ (is : List Item) (anc : List TypeId),
      matchItems ok is anc = true ↔ AltMatches ok is.reverse anc.reverse
  | [], anc => by
    simp only [matchItems, List.reverse_nil, true_iff]
    exact ⟨anc.reverse, [], by simp, .nil, by simp⟩
  | .name s :: is, [] => by
    simp only [matchItems, Bool.false_eq_true, List.reverse_cons, List.reverse_nil, false_iff]
    rintro ⟨pre, suf, heq, hd, _⟩
    obtain ⟨l', t, rfl, _, _⟩ := (denotes_snoc_name ok s _ _).mp hd
    simp at heq
  | .name s :: is, t :: anc => by
    simp only [matchItems, Bool.and_eq_true, List.reverse_cons, matchItems_iff ok is anc]
    constructor
    · rintro ⟨hok, pre, suf, heq, hd, hq⟩
      refine ⟨pre, suf ++ [t], by simp [heq], (denotes_snoc_name ok s _ _).mpr ⟨suf, t, rfl, hok, hd⟩, ?_⟩
      intro hh
      apply hq
      cases hr : is.reverse with
      | nil => simp [hr] at hh
      | cons a r => simpa [hr] using hh
    · rintro ⟨pre, suf, heq, hd, hq⟩
      obtain ⟨l', t', rfl, hok, hd'⟩ := (denotes_snoc_name ok s _ _).mp hd
      have h2 : anc.reverse ++ [t] = (pre ++ l') ++ [t'] := by simpa using heq
      obtain ⟨h3, h4⟩ := List.append_inj' h2 rfl
      simp at h4
      subst h4
      refine ⟨hok, pre, l', h3, hd', ?_⟩
      intro hh
      apply hq
      cases hr : is.reverse with
      | nil => simp [hr] at hh
      | cons a r => simpa [hr] using hh
  | .any :: is, anc => by
    simp only [matchItems, List.reverse_cons, wildLoop_iff]
    constructor
    · rintro ⟨sk, rest, rfl, hne, hf⟩
      obtain ⟨pre, suf, heq, hd, hq⟩ := (matchItems_iff ok is rest).mp hf
      refine ⟨pre, suf ++ sk.reverse, by simp [heq], (denotes_snoc_any ok _ _).mpr ⟨suf, sk.reverse, rfl, hd⟩, ?_⟩
      intro hh
      cases hr : is.reverse with
      | nil =>
        rw [hr] at hd
        have := (denotes_nil_iff ok suf).mp hd
        subst this
        intro hpre
        subst hpre
        simp at heq
        exact hne heq
      | cons a r =>
        apply hq
        simpa [hr] using hh
    · rintro ⟨pre, suf, heq, hd, hq⟩
      obtain ⟨l', mid, rfl, hd'⟩ := (denotes_snoc_any ok _ _).mp hd
      have hrest : (pre ++ l').reverse.reverse = pre ++ l' := List.reverse_reverse _
      refine ⟨mid.reverse, (pre ++ l').reverse, ?_, ?_, ?_⟩
      · have : anc = (pre ++ (l' ++ mid)).reverse := by rw [← heq, List.reverse_reverse]
        rw [this]; simp
      · -- at least one ancestor remains for what follows
        intro hnil
        have hnil' : pre ++ l' = [] := List.reverse_eq_nil_iff.mp hnil
        have hp : pre = [] := (List.append_eq_nil_iff.mp hnil').1
        have hl : l' = [] := (List.append_eq_nil_iff.mp hnil').2
        subst hp hl
        cases hr : is.reverse with
        | nil => exact hq (by simp [hr]) rfl
        | cons a r =>
          rw [hr] at hd'
          cases a with
          | name s' => exact denotes_name_ne_nil hd' rfl
          | any => exact hq (by simp [hr]) rfl
      · apply (matchItems_iff ok is _).mpr
        refine ⟨pre, l', by rw [hrest], hd', ?_⟩
        intro hh
        apply hq
        cases hr : is.reverse with
        | nil => simp [hr] at hh
        | cons a r => simpa [hr] using hh

theorem splitOn_no_sep (sep : Char) : ∀ (s : List Char), sep ∉ s → splitOn sep s = [s]
  | [], _ => rfl
  | c :: cs, h => by
    have hc : (c == sep) = false := by
      simp only [beq_eq_false_iff_ne, ne_eq]
      intro e; exact h (by simp [e])
    have := splitOn_no_sep sep cs (fun hm => h (List.mem_cons_of_mem _ hm))
    simp [splitOn, hc, this]

theorem alternatives_no_bar (ctx : List Char) (h : '|' ∉ ctx) : alternatives ctx = [ctx] := by
  simp [alternatives, splitOn_no_sep '|' ctx h]

/-- a `|`-free expression: model = declarative reading -/
theorem matchesAlt_iff (ok : List Char → TypeId → Bool) (stack : List TypeId) (alt : List Char) :
    matchesAlt ok stack.reverse alt = true ↔ AltMatches ok (itemsOf alt) stack := by
  rw [matchesAlt_eq, matchItems_iff, List.reverse_reverse, List.reverse_reverse]

end PM.FromDom
