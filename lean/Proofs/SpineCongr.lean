/-
  Proofs/SpineCongr.lean — `replace` looks at the element nodes on the *left open spine* of its
  slice (the first child, its first child, … `openStart` levels deep) only through their types, and
  at those only in `check_join(from-ancestor, spine node)`: the rebuilt node keeps the markup of
  `from`'s ancestor.

  * `LSpineEq a M M2`: the child lists `M`, `M2` differ at most in the markup of the nodes on the
    left spine, `a` levels deep.
  * `lcompat S L f e M a`: the `check_join`s between the ancestors of offset `f` in `L` (below the
    `e` levels above the slice) and the left-spine nodes of `M`.
  * congruence (`replaceKids_lcongr`): a replace that succeeds with slice content `M` succeeds with
    the same result for `M2`, when `lcompat` holds for `M2` and the slice is not a single node open
    on both sides.
  * extraction (`replaceKids_lcompat`): a successful replace made these checks.
-/
import Proofs.MergeRel
import Proofs.NoInternal
namespace PM

/-! ### the relation and the check -/

inductive LSpineEq : Nat → List Node → List Node → Prop
  | zero (M : List Node) : LSpineEq 0 M M
  | succ {a : Nat} {ty : TypeId} {at_ : Attrs} {m : Marks} {k : List Node} {ty2 : TypeId}
      {at2 : Attrs} {m2 : Marks} {k2 rest : List Node} : a ≤ fsize k → a ≤ fsize k2 →
      LSpineEq a k k2 → LSpineEq (a + 1) (.elem ty at_ m k :: rest) (.elem ty2 at2 m2 k2 :: rest)

/-- the joins of `from`'s ancestors in `L` with the left-spine nodes of the slice content `M`
    (`e` levels above the slice's top level are skipped; `a` open levels) -/
def lcompat (S : Schema) : List Node → Nat → Nat → List Node → Nat → Bool
  | [], _, _, _, _ => true
  | n :: ns, f, e, M, a =>
    if f = 0 then true
    else if n.size ≤ f then lcompat S ns (f - n.size) e M a
    else match n with
      | .elem tyL _ _ kidsL =>
        match e with
        | e' + 1 => lcompat S kidsL (f - 1) e' M a
        | 0 =>
          match a, M with
          | a' + 1, .elem tyS _ _ kidsS :: _ =>
            S.compatibleContent tyS tyL && lcompat S kidsL (f - 1) 0 kidsS a'
          | _, _ => true
      | _ => true

theorem lcompat_cons (S : Schema) (n : Node) (ns : List Node) (f e : Nat) (M : List Node) (a : Nat) :
    lcompat S (n :: ns) f e M a =
      if f = 0 then true
      else if n.size ≤ f then lcompat S ns (f - n.size) e M a
      else match n with
        | .elem tyL _ _ kidsL =>
          match e with
          | e' + 1 => lcompat S kidsL (f - 1) e' M a
          | 0 =>
            match a, M with
            | a' + 1, .elem tyS _ _ kidsS :: _ =>
              S.compatibleContent tyS tyL && lcompat S kidsL (f - 1) 0 kidsS a'
            | _, _ => true
        | _ => true := by
  conv => lhs; unfold lcompat

theorem lcompat_skip (S : Schema) (n : Node) (ns : List Node) (f e : Nat) (M : List Node) (a : Nat)
    (h0 : f ≠ 0) (hle : n.size ≤ f) :
    lcompat S (n :: ns) f e M a = lcompat S ns (f - n.size) e M a := by
  rw [lcompat_cons, if_neg h0, if_pos hle]

theorem lcompat_elem_extra (S : Schema) (ty : TypeId) (at_ : Attrs) (m : Marks) (k ns : List Node)
    (f e : Nat) (M : List Node) (a : Nat) (h0 : f ≠ 0) (hlt : f < 2 + fsize k) :
    lcompat S (.elem ty at_ m k :: ns) f (e + 1) M a = lcompat S k (f - 1) e M a := by
  rw [lcompat_cons, if_neg h0, if_neg (by simp; omega)]

theorem lcompat_elem_open (S : Schema) (ty : TypeId) (at_ : Attrs) (m : Marks) (k ns : List Node)
    (f : Nat) (tyS : TypeId) (aS : Attrs) (mS : Marks) (kS Mt : List Node) (a : Nat) (h0 : f ≠ 0)
    (hlt : f < 2 + fsize k) :
    lcompat S (.elem ty at_ m k :: ns) f 0 (.elem tyS aS mS kS :: Mt) (a + 1)
      = (S.compatibleContent tyS ty && lcompat S k (f - 1) 0 kS a) := by
  rw [lcompat_cons, if_neg h0, if_neg (by simp; omega)]

theorem lcompat_zero (S : Schema) : ∀ (L : List Node) (f e : Nat) (M : List Node),
    lcompat S L f e M 0 = true
  | [], _, _, _ => by simp [lcompat]
  | n :: ns, f, e, M => by
    rw [lcompat_cons]
    split
    · rfl
    · split
      · exact lcompat_zero S ns _ e M
      · cases n with
        | text s m => rfl
        | leaf t a m => rfl
        | elem t a m k =>
          cases e with
          | zero => rfl
          | succ e => exact lcompat_zero S k _ e M

/-- only the head of the slice content is looked at -/
theorem lcompat_head (S : Schema) (x : Node) (r1 r2 : List Node) : ∀ (L : List Node) (f e a : Nat),
    lcompat S L f e (x :: r1) a = lcompat S L f e (x :: r2) a
  | [], _, _, _ => by simp [lcompat]
  | n :: ns, f, e, a => by
    rw [lcompat_cons, lcompat_cons]
    split
    · rfl
    · split
      · exact lcompat_head S x r1 r2 ns _ e a
      · cases n with
        | text s m => rfl
        | leaf t at_ m => rfl
        | elem t at_ m k =>
          cases e with
          | zero =>
            cases a with
            | zero => rfl
            | succ a => cases x <;> rfl
          | succ e => exact lcompat_head S x r1 r2 k _ e a

theorem lcompat_append_pre (S : Schema) (rest : List Node) (e : Nat) (M : List Node) (a : Nat) :
    ∀ (pre : List Node) (f : Nat), lcompat S (pre ++ rest) (fsize pre + f) e M a = lcompat S rest f e M a
  | [], f => by simp
  | n :: pre, f => by
    rw [List.cons_append, lcompat_cons]
    split
    · rename_i h0
      have : f = 0 := by simp at h0; omega
      subst this
      cases rest with
      | nil => simp [lcompat]
      | cons y ys => rw [lcompat_cons]; simp
    · rw [if_pos (by simp; omega)]
      have : fsize (n :: pre) + f - n.size = fsize pre + f := by simp; omega
      rw [this]
      exact lcompat_append_pre S rest e M a pre f

theorem lcompat_of_flat (S : Schema) : ∀ (L : List Node) (f e : Nat) (M : List Node) (a : Nat),
    depthAt L f = 0 → lcompat S L f e M a = true
  | [], _, _, _, _, _ => by simp [lcompat]
  | n :: ns, f, e, M, a, hd => by
    rw [lcompat_cons]
    split
    · rfl
    · rename_i h0
      split
      · rename_i hle
        rw [depthAt_skip n ns f hle] at hd
        exact lcompat_of_flat S ns _ e M a hd
      · rename_i hlt
        cases n with
        | text s m => rfl
        | leaf t at_ m => rfl
        | elem t at_ m k =>
          simp only [Node.size_elem, Nat.not_le] at hlt
          rw [depthAt_elem_cons _ _ _ _ _ _ (by omega) hlt] at hd
          omega

/-- the check reads `from`'s side only: the same ancestors (markup) to the left of `p` -/
theorem LeftRel.lcompat_eq (S : Schema) {L' O : List Node} {p : Nat} (h : LeftRel L' O p) :
    ∀ (e : Nat) (M : List Node) (a : Nat), lcompat S L' p e M a = lcompat S O p e M a := by
  induction h with
  | flat _ _ hd' hd _ _ =>
    intro e M a
    rw [lcompat_of_flat S _ _ e M a hd', lcompat_of_flat S _ _ e M a hd]
  | skip h0 hle _ ih =>
    intro e M a
    rw [lcompat_skip S _ _ _ _ _ _ h0 hle, lcompat_skip S _ _ _ _ _ _ h0 hle]
    exact ih e M a
  | @elem ty at_ m k' k L' O p h0 h1 h2 _ ih =>
    intro e M a
    cases e with
    | succ e =>
      rw [lcompat_elem_extra S _ _ _ _ _ _ _ _ _ h0 h1, lcompat_elem_extra S _ _ _ _ _ _ _ _ _ h0 h2]
      exact ih e M a
    | zero =>
      cases a with
      | zero => rw [lcompat_zero, lcompat_zero]
      | succ a =>
        cases M with
        | nil => rw [lcompat_cons, lcompat_cons, if_neg h0, if_neg h0, if_neg (by simp; omega),
            if_neg (by simp; omega)]
        | cons x Mt =>
          cases x with
          | text s mm => rw [lcompat_cons, lcompat_cons, if_neg h0, if_neg h0, if_neg (by simp; omega),
              if_neg (by simp; omega)]
          | leaf t aa mm => rw [lcompat_cons, lcompat_cons, if_neg h0, if_neg h0, if_neg (by simp; omega),
              if_neg (by simp; omega)]
          | elem tyS aS mS kS =>
            rw [lcompat_elem_open S _ _ _ _ _ _ _ _ _ _ _ _ h0 h1,
              lcompat_elem_open S _ _ _ _ _ _ _ _ _ _ _ _ h0 h2, ih 0 kS a]

/-! ### facts about `LSpineEq` -/

theorem LSpineEq.size {a : Nat} {M M2 : List Node} (h : LSpineEq a M M2) : fsize M = fsize M2 := by
  induction h with
  | zero M => rfl
  | succ _ _ _ ih => simp only [fsize_cons, Node.size_elem, ih]

theorem LSpineEq.spineR {a : Nat} {M M2 : List Node} (h : LSpineEq a M M2) : spineR M = spineR M2 := by
  induction h with
  | zero M => rfl
  | @succ a ty at_ m k ty2 at2 m2 k2 rest _ _ _ ih =>
    cases rest with
    | nil => rw [spineR_elem_single, spineR_elem_single, ih]
    | cons y ys =>
      have e1 := spineR_append_ne_nil [Node.elem ty at_ m k] (y :: ys) (by simp)
      have e2 := spineR_append_ne_nil [Node.elem ty2 at2 m2 k2] (y :: ys) (by simp)
      simp only [List.singleton_append] at e1 e2
      rw [e1, e2]

theorem LSpineEq.spineL_le {a : Nat} {M M2 : List Node} (h : LSpineEq a M M2) (ha : a ≤ spineL M) :
    a ≤ spineL M2 := by
  induction h with
  | zero M => exact ha
  | succ _ _ _ ih =>
    simp only [spineL] at ha ⊢
    have := ih (by omega)
    omega

theorem LSpineEq.length {a : Nat} {M M2 : List Node} (h : LSpineEq a M M2) : M.length = M2.length := by
  cases h with
  | zero M => rfl
  | succ _ _ _ => simp

theorem LSpineEq.symm {a : Nat} {M M2 : List Node} (h : LSpineEq a M M2) : LSpineEq a M2 M := by
  induction h with
  | zero M => exact .zero M
  | succ h1 h2 _ ih => exact .succ h2 h1 ih

theorem LSpineEq.split {a : Nat} {ty : TypeId} {at_ : Attrs} {m : Marks} {k : List Node} {rest : List Node}
    (ha : a ≤ fsize k) :
    splitRight (.elem ty at_ m k :: rest) (a + 1) = some (.deep (.elem ty at_ m k) a rest) := by
  have := splitRight_elem ty at_ m k rest (a + 1) (by omega) (by omega)
  simpa using this

/-! ### congruence: the two-way join -/

theorem twoWay_lcongr (S : Schema) : ∀ (L : List Node) (f : Nat) (R R2 : List Node) (a : Nat)
    (X : List Node), LSpineEq a R R2 → twoWay S L f R a = .ok X → lcompat S L f 0 R2 a = true →
    twoWay S L f R2 a = .ok X
  | [], f, R, R2, a, X, hse, h, _ => by
    cases hse with
    | zero M => exact h
    | succ hk hk2 hrec =>
      unfold twoWay at h
      rw [LSpineEq.split hk] at h
      split at h <;> simp at h
  | n :: ns, f, R, R2, a, X, hse, h, hc => by
    cases hse with
    | zero M => exact h
    | @succ a ty at_ m k ty2 at2 m2 k2 rest hk hk2 hrec =>
      have s1 := LSpineEq.split (ty := ty) (at_ := at_) (m := m) (rest := rest) hk
      have s2 := LSpineEq.split (ty := ty2) (at_ := at2) (m := m2) (rest := rest) hk2
      unfold twoWay at h ⊢
      by_cases hf : f = 0
      · rw [if_pos hf, s1] at h; simp at h
      rw [if_neg hf] at h ⊢
      by_cases hle : n.size ≤ f
      · rw [if_pos hle] at h ⊢
        rw [lcompat_skip S _ _ _ _ _ _ hf hle] at hc
        cases hx : twoWay S ns (f - n.size) (Node.elem ty at_ m k :: rest) (a + 1) with
        | error e => rw [hx] at h; simp at h
        | ok r =>
          rw [hx] at h
          rw [twoWay_lcongr S ns (f - n.size) _ _ (a + 1) r (.succ hk hk2 hrec) hx hc]
          exact h
      rw [if_neg hle] at h ⊢
      cases n with
      | text s mm =>
        simp only [s1] at h
        split at h <;> simp at h
      | leaf t aa mm => simp at h
      | elem tyL aL mL kidsL =>
        simp only [Node.size_elem, Nat.not_le] at hle
        rw [lcompat_elem_open S _ _ _ _ _ _ _ _ _ _ _ _ hf hle] at hc
        simp only [Bool.and_eq_true] at hc
        simp only [s1] at h
        simp only [s2, hc.1, if_true]
        split at h
        · cases hx : twoWay S kidsL (f - 1) k a with
          | error e => rw [hx] at h; simp at h
          | ok r =>
            rw [hx] at h
            rw [twoWay_lcongr S kidsL (f - 1) k k2 a r hrec hx hc.2]
            exact h
        · simp at h

/-! ### congruence: the three-way join -/

theorem rightJoin_head (S : Schema) (x y : Node) (rest : List Node) (b : Nat) (rs : RSplit)
    (hex : b = 0 ∨ rest ≠ []) : rightJoin S (x :: rest) b rs = rightJoin S (y :: rest) b rs := by
  cases rs with
  | flat r => rfl
  | deep c i r =>
    rcases hex with hb | hr
    · subst hb; simp [rightJoin]
    · cases rest with
      | nil => exact absurd rfl hr
      | cons z zs => simp only [rightJoin, List.getLast?_cons_cons]

theorem middle_head (x y : Node) (rest : List Node) (c : Bool) :
    middle (x :: rest) true c = middle (y :: rest) true c := by
  simp [middle]

/-- the three-way join at a level where `from` is deep in an element child, the slice is open on the
    left and is not a single node open on both sides: left join, middle, right join -/
theorem threeWay_elem_open (S : Schema) (tyL : TypeId) (aL : Attrs) (mL : Marks) (kidsL ns : List Node)
    (f : Nat) (tyS : TypeId) (aS : Attrs) (mS : Marks) (kS rest : List Node) (a b : Nat)
    (R : List Node) (t : Nat) (hf : f ≠ 0) (hlt : f < 2 + fsize kidsL) (hex : b = 0 ∨ rest ≠ []) :
    threeWay S (.elem tyL aL mL kidsL :: ns) f 0 (.elem tyS aS mS kS :: rest) (a + 1) b R t =
      match splitRight R t with
      | none => .error .valueError
      | some rs =>
        if !S.compatibleContent tyS tyL then .error .failed else
        match threeWay.rightJoinCheck rs b with
        | .error e => .error e
        | .ok () =>
          match twoWay S kidsL (f - 1) kS a with
          | .ok lr =>
            match S.close tyL aL mL (fromArray lr) with
            | .ok cl =>
              match rightJoin S (.elem tyS aS mS kS :: rest) b rs with
              | .ok rj =>
                .ok (cl :: (middle (.elem tyS aS mS kS :: rest) true (b != 0) ++ rj ++ rs.rest))
              | .error e => .error e
            | .error e => .error e
          | .error e => .error e := by
  conv => lhs; unfold threeWay
  rw [if_neg hf, if_neg (by simp; omega)]
  cases hs : splitRight R t with
  | none => rfl
  | some rs =>
    simp only [ne_eq, not_true_eq_false, if_false, Nat.add_one_ne_zero, Nat.add_sub_cancel]
    by_cases hcomp : S.compatibleContent tyS tyL = true
    · simp only [hcomp, Bool.not_true, Bool.false_eq_true, if_false]
      split
      · rename_i heq1 heq2 heq3
        exfalso
        rcases hex with hb | hr
        · omega
        · simp at heq3; exact hr heq3.2
      · rfl
    · simp only [hcomp, Bool.not_false, if_true]

theorem threeWay_lcongr (S : Schema) : ∀ (L : List Node) (f e : Nat) (M M2 : List Node) (a b : Nat)
    (R : List Node) (t : Nat) (X : List Node), LSpineEq a M M2 → (a ≠ 0 → b ≠ 0 → 2 ≤ M2.length) →
    threeWay S L f e M a b R t = .ok X → lcompat S L f e M2 a = true →
    threeWay S L f e M2 a b R t = .ok X
  | [], f, e, M, M2, a, b, R, t, X, hse, _, h, _ => by
    cases hse with
    | zero M => exact h
    | succ hk hk2 hrec =>
      unfold threeWay at h
      simp only [flatTail] at h
      split at h
      · split at h <;> simp at h
      · simp at h
  | n :: ns, f, e, M, M2, a, b, R, t, X, hse, hex, h, hc => by
    cases hse with
    | zero M => exact h
    | @succ a ty at_ m k ty2 at2 m2 k2 rest hk hk2 hrec =>
      have hex' : b = 0 ∨ rest ≠ [] := by
        by_cases hb : b = 0
        · exact .inl hb
        · have := hex (by omega) hb
          right; intro hr; subst hr; simp at this
      by_cases hf : f = 0
      · unfold threeWay at h
        rw [if_pos hf] at h; simp [flatTail] at h
      by_cases hle : n.size ≤ f
      · unfold threeWay at h ⊢
        rw [if_neg hf, if_pos hle] at h ⊢
        rw [lcompat_skip S _ _ _ _ _ _ hf hle] at hc
        cases hx : threeWay S ns (f - n.size) e (Node.elem ty at_ m k :: rest) (a + 1) b R t with
        | error e => rw [hx] at h; simp at h
        | ok r =>
          rw [hx] at h
          rw [threeWay_lcongr S ns (f - n.size) e _ _ (a + 1) b R t r (.succ hk hk2 hrec) hex hx hc]
          exact h
      cases n with
      | text s mm =>
        exfalso
        unfold threeWay at h
        rw [if_neg hf, if_neg hle] at h
        simp only [flatTail] at h
        split at h
        · simp at h
        · split at h <;> simp at h
      | leaf tt aa mm =>
        unfold threeWay at h
        rw [if_neg hf, if_neg hle] at h
        simp at h
      | elem tyL aL mL kidsL =>
        simp only [Node.size_elem, Nat.not_le] at hle
        by_cases he : e = 0
        · subst he
          rw [lcompat_elem_open S _ _ _ _ _ _ _ _ _ _ _ _ hf hle] at hc
          simp only [Bool.and_eq_true] at hc
          rw [threeWay_elem_open S _ _ _ _ _ _ _ _ _ _ _ _ _ _ _ hf hle hex'] at h ⊢
          cases hs : splitRight R t with
          | none => simp [hs] at h
          | some rs =>
            simp only [hs] at h ⊢
            by_cases hcomp : S.compatibleContent ty tyL = true
            · simp only [hcomp, hc.1, Bool.not_true, Bool.false_eq_true, if_false] at h ⊢
              cases hjc : threeWay.rightJoinCheck rs b with
              | error e => rw [hjc] at h; simp at h
              | ok u =>
                simp only [hjc] at h ⊢
                cases hx : twoWay S kidsL (f - 1) k a with
                | error e => rw [hx] at h; simp at h
                | ok lr =>
                  have hx2 := twoWay_lcongr S kidsL (f - 1) k k2 a lr hrec hx hc.2
                  simp only [hx, hx2] at h ⊢
                  rw [← rightJoin_head S (Node.elem ty at_ m k) (Node.elem ty2 at2 m2 k2) rest b rs hex',
                    ← middle_head (Node.elem ty at_ m k) (Node.elem ty2 at2 m2 k2) rest (b != 0)]
                  exact h
            · simp only [hcomp, Bool.not_false, if_true] at h
              simp at h
        · obtain ⟨e', rfl⟩ : ∃ e', e = e' + 1 := ⟨e - 1, by omega⟩
          rw [lcompat_elem_extra S _ _ _ _ _ _ _ _ _ hf hle] at hc
          unfold threeWay at h ⊢
          rw [if_neg hf, if_neg (by simp; omega)] at h ⊢
          cases hs : splitRight R t with
          | none => simp [hs] at h
          | some rs =>
            simp only [hs, ne_eq, Nat.add_one_ne_zero, not_false_eq_true, if_true,
              Nat.add_sub_cancel] at h ⊢
            split at h
            · rename_i tyR aR mR kidsR innerT rest'
              split at h
              · rename_i hcomp
                rw [if_pos hcomp]
                cases hx : threeWay S kidsL (f - 1) e' (Node.elem ty at_ m k :: rest) (a + 1) b kidsR innerT with
                | error e => rw [hx] at h; simp at h
                | ok r =>
                  rw [hx] at h
                  rw [threeWay_lcongr S kidsL (f - 1) e' _ _ (a + 1) b kidsR innerT r
                    (.succ hk hk2 hrec) hex hx hc]
                  exact h
              · simp at h
            · simp at h

/-! ### congruence: `atLevel`, `outer`, `replaceKids` -/

theorem atLevel_lcongr (S : Schema) (M M2 : List Node) (a b : Nat) (ty : TypeId) (level : List Node)
    (f t e : Nat) (X : List Node) (hse : LSpineEq a M M2) (hex : a ≠ 0 → b ≠ 0 → 2 ≤ M2.length)
    (h : atLevel S ⟨M, a, b⟩ ty level f t e = .ok X) (hc : lcompat S level f e M2 a = true) :
    atLevel S ⟨M2, a, b⟩ ty level f t e = .ok X := by
  cases hse with
  | zero M => exact h
  | @succ a ty1 at_ m k ty2 at2 m2 k2 rest hk hk2 hrec =>
    unfold atLevel at h ⊢
    simp only [] at h ⊢
    rw [if_neg (by simp), if_neg (by simp)] at h ⊢
    cases hx : threeWay S level f e (Node.elem ty1 at_ m k :: rest) (a + 1) b level t with
    | error err => rw [hx] at h; simp [Except.map] at h
    | ok r =>
      rw [hx] at h
      rw [threeWay_lcongr S level f e _ _ (a + 1) b level t r (.succ hk hk2 hrec) hex hx hc]
      exact h

theorem outer_lcongr (S : Schema) (M M2 : List Node) (a b : Nat) (hse : LSpineEq a M M2)
    (hex : a ≠ 0 → b ≠ 0 → 2 ≤ M2.length) :
    ∀ (rest : List Node) (ty : TypeId) (level : List Node) (f0 t0 idx f t e : Nat) (pre X : List Node),
      level = pre ++ rest → f0 = fsize pre + f →
      outer S ⟨M, a, b⟩ ty level f0 t0 idx rest f t e = .ok X → lcompat S rest f e M2 a = true →
      outer S ⟨M2, a, b⟩ ty level f0 t0 idx rest f t e = .ok X
  | [], ty, level, f0, t0, idx, f, t, e, pre, X, hl, hf0, h, hc => by
    unfold outer at h ⊢
    refine atLevel_lcongr S M M2 a b ty level f0 t0 e X hse hex h ?_
    rw [hl, hf0, lcompat_append_pre]; exact hc
  | n :: ns, ty, level, f0, t0, idx, f, t, e, pre, X, hl, hf0, h, hc => by
    have here : atLevel S ⟨M, a, b⟩ ty level f0 t0 e = .ok X →
        atLevel S ⟨M2, a, b⟩ ty level f0 t0 e = .ok X := by
      intro h'
      refine atLevel_lcongr S M M2 a b ty level f0 t0 e X hse hex h' ?_
      rw [hl, hf0, lcompat_append_pre]; exact hc
    unfold outer at h ⊢
    by_cases hf : f = 0
    · rw [if_pos hf] at h ⊢; exact here h
    rw [if_neg hf] at h ⊢
    by_cases hle : n.size ≤ f
    · rw [if_pos hle] at h ⊢
      rw [lcompat_skip S _ _ _ _ _ _ hf hle] at hc
      exact outer_lcongr S M M2 a b hse hex ns ty level f0 t0 (idx + 1) (f - n.size) (t - n.size) e
        (pre ++ [n]) X (by simp [hl]) (by rw [fsize_append]; simp; omega) h hc
    rw [if_neg hle] at h ⊢
    cases n with
    | text s mm => exact here h
    | leaf tt aa mm => exact here h
    | elem tyC aC mC kidsC =>
      simp only at h ⊢
      by_cases hcond : (e ≠ 0 && decide (t < (Node.elem tyC aC mC kidsC).size)) = true
      · rw [if_pos hcond] at h ⊢
        simp only [Bool.and_eq_true, decide_eq_true_eq, ne_eq] at hcond
        obtain ⟨e', rfl⟩ : ∃ e', e = e' + 1 := ⟨e - 1, by have := hcond.1; omega⟩
        simp only [Node.size_elem, Nat.not_le] at hle
        rw [lcompat_elem_extra S _ _ _ _ _ _ _ _ _ hf hle] at hc
        simp only [Nat.add_sub_cancel] at h ⊢
        cases hx : outer S ⟨M, a, b⟩ tyC kidsC (f - 1) (t - 1) 0 kidsC (f - 1) (t - 1) e' with
        | error err => rw [hx] at h; simp at h
        | ok inner =>
          rw [hx] at h
          rw [outer_lcongr S M M2 a b hse hex kidsC tyC kidsC (f - 1) (t - 1) 0 (f - 1) (t - 1) e'
            [] inner rfl (by simp) hx hc]
          exact h
      · rw [if_neg hcond] at h ⊢; exact here h

/-- **the left-spine markup of the slice does not matter** beyond the `check_join`s `lcompat` -/
theorem replaceKids_lcongr (S : Schema) (ty : TypeId) (K : List Node) (f t : Nat) (M M2 : List Node)
    (a b : Nat) (X : List Node) (hse : LSpineEq a M M2) (hex : a ≠ 0 → b ≠ 0 → 2 ≤ M2.length)
    (h : replaceKids S ty K f t ⟨M, a, b⟩ = .ok X)
    (hc : lcompat S K f (depthAt K f - a) M2 a = true) :
    replaceKids S ty K f t ⟨M2, a, b⟩ = .ok X := by
  unfold replaceKids at h ⊢
  simp only [] at h ⊢
  split at h
  · simp at h
  · rename_i hg
    rw [if_neg hg]
    split at h
    · simp at h
    · rename_i h1
      rw [if_neg h1]
      split at h
      · simp at h
      · rename_i h2
        rw [if_neg h2]
        split at h
        · simp at h
        · rename_i h3
          have hwf : (Slice.mk M2 a b).wf = true := by
            have : (Slice.mk M a b).wf = true := by
              cases hw : (Slice.mk M a b).wf with
              | true => rfl
              | false => simp [hw] at h3
            simp only [Slice.wf, Bool.and_eq_true, decide_eq_true_eq] at this ⊢
            exact ⟨hse.spineL_le this.1, by rw [← hse.spineR]; exact this.2⟩
          rw [if_neg (by simp [hwf])]
          exact outer_lcongr S M M2 a b hse hex K ty K f t 0 f t _ [] X rfl (by simp) h hc

/-! ### extraction: a successful replace made the left-spine joins -/

theorem spineL_pos_decomp {M : List Node} {a : Nat} (h : a + 1 ≤ spineL M) :
    ∃ ty at_ m k rest, M = .elem ty at_ m k :: rest ∧ a ≤ spineL k ∧ a ≤ fsize k := by
  cases M with
  | nil => simp [spineL] at h
  | cons x rest =>
    cases x with
    | text s m => simp [spineL] at h
    | leaf t at_ m => simp [spineL] at h
    | elem ty at_ m k =>
      simp only [spineL] at h
      have := spineL_le k
      exact ⟨ty, at_, m, k, rest, rfl, by omega, by omega⟩

theorem twoWay_lcompat (S : Schema) : ∀ (L : List Node) (f : Nat) (R : List Node) (a : Nat)
    (X : List Node), twoWay S L f R a = .ok X → a ≤ spineL R → lcompat S L f 0 R a = true
  | [], _, _, _, _, _, _ => by simp [lcompat]
  | n :: ns, f, R, a, X, h, ha => by
    cases a with
    | zero => exact lcompat_zero S _ _ _ _
    | succ a =>
      obtain ⟨ty, at_, m, k, rest, rfl, hak, hk⟩ := spineL_pos_decomp ha
      have s1 := LSpineEq.split (ty := ty) (at_ := at_) (m := m) (rest := rest) hk
      rw [lcompat_cons]
      by_cases hf : f = 0
      · rw [if_pos hf]
      rw [if_neg hf]
      unfold twoWay at h
      rw [if_neg hf] at h
      by_cases hle : n.size ≤ f
      · rw [if_pos hle] at h ⊢
        cases hx : twoWay S ns (f - n.size) (Node.elem ty at_ m k :: rest) (a + 1) with
        | error e => rw [hx] at h; simp at h
        | ok r => exact twoWay_lcompat S ns _ _ _ r hx ha
      rw [if_neg hle] at h ⊢
      cases n with
      | text s mm => rfl
      | leaf t aa mm => rfl
      | elem tyL aL mL kidsL =>
        simp only [s1] at h ⊢
        split at h
        · rename_i hcomp
          cases hx : twoWay S kidsL (f - 1) k a with
          | error e => rw [hx] at h; simp at h
          | ok r =>
            rw [hcomp, twoWay_lcompat S kidsL _ _ _ r hx hak]
            rfl
        · simp at h

theorem threeWay_lcompat (S : Schema) : ∀ (L : List Node) (f e : Nat) (M : List Node) (a b : Nat)
    (R : List Node) (t : Nat) (X : List Node), threeWay S L f e M a b R t = .ok X → a ≤ spineL M →
    lcompat S L f e M a = true
  | [], _, _, _, _, _, _, _, _, _, _ => by simp [lcompat]
  | n :: ns, f, e, M, a, b, R, t, X, h, ha => by
    cases a with
    | zero => exact lcompat_zero S _ _ _ _
    | succ a =>
      obtain ⟨tyS, aS, mS, kS, rest, rfl, hak, hk⟩ := spineL_pos_decomp ha
      rw [lcompat_cons]
      by_cases hf : f = 0
      · rw [if_pos hf]
      rw [if_neg hf]
      unfold threeWay at h
      rw [if_neg hf] at h
      by_cases hle : n.size ≤ f
      · rw [if_pos hle] at h ⊢
        cases hx : threeWay S ns (f - n.size) e (Node.elem tyS aS mS kS :: rest) (a + 1) b R t with
        | error e => rw [hx] at h; simp at h
        | ok r => exact threeWay_lcompat S ns _ _ _ _ _ _ _ r hx ha
      rw [if_neg hle] at h ⊢
      cases n with
      | text s mm => rfl
      | leaf tt aa mm => rfl
      | elem tyL aL mL kidsL =>
        cases hs : splitRight R t with
        | none => simp [hs] at h
        | some rs =>
          simp only [hs] at h
          cases e with
          | succ e' =>
            simp only [ne_eq, Nat.add_one_ne_zero, not_false_eq_true, if_true, Nat.add_sub_cancel] at h ⊢
            split at h
            · rename_i tyR aR mR kidsR innerT rest'
              split at h
              · cases hx : threeWay S kidsL (f - 1) e' (Node.elem tyS aS mS kS :: rest) (a + 1) b kidsR innerT with
                | error e => rw [hx] at h; simp at h
                | ok r => exact threeWay_lcompat S kidsL _ _ _ _ _ _ _ r hx ha
              · simp at h
            · simp at h
          | zero =>
            simp only [ne_eq, not_true_eq_false, if_false, Nat.add_one_ne_zero, Nat.add_sub_cancel] at h ⊢
            by_cases hcomp : S.compatibleContent tyS tyL = true
            · simp only [hcomp, Bool.not_true, Bool.false_eq_true, if_false, Bool.true_and] at h ⊢
              split at h
              · rename_i rs0 b0 M0 tyR aR mR kidsR innerT rest' b' hd heq
                split at h
                · simp at h
                · cases hx : threeWay S kidsL (f - 1) 0 kS a b' kidsR innerT with
                  | error e => rw [hx] at h; simp at h
                  | ok r => exact threeWay_lcompat S kidsL _ _ _ _ _ _ _ r hx hak
              · split at h
                · simp at h
                · cases hx : twoWay S kidsL (f - 1) kS a with
                  | error e => rw [hx] at h; simp at h
                  | ok lr => exact twoWay_lcompat S kidsL _ _ _ lr hx hak
            · simp only [hcomp, Bool.not_false, if_true] at h
              simp at h

theorem atLevel_lcompat (S : Schema) (sl : Slice) (ty : TypeId) (level : List Node) (f t e : Nat)
    (X : List Node) (h : atLevel S sl ty level f t e = .ok X) (hwf : sl.wf = true) :
    lcompat S level f e sl.content sl.openStart = true := by
  cases ha : sl.openStart with
  | zero => exact lcompat_zero S _ _ _ _
  | succ a =>
    simp only [Slice.wf, Bool.and_eq_true, decide_eq_true_eq] at hwf
    have hsp : a + 1 ≤ spineL sl.content := by omega
    obtain ⟨tyS, aS, mS, kS, rest, hM, _, _⟩ := spineL_pos_decomp hsp
    unfold atLevel at h
    simp only [] at h
    rw [if_neg (by rw [hM]; simp), if_neg (by simp [ha])] at h
    cases hx : threeWay S level f e sl.content sl.openStart sl.openEnd level t with
    | error err => rw [hx] at h; simp [Except.map] at h
    | ok r =>
      have := threeWay_lcompat S level f e sl.content sl.openStart sl.openEnd level t r hx (by omega)
      rw [ha] at this
      exact this

theorem outer_lcompat (S : Schema) (sl : Slice) (hwf : sl.wf = true) :
    ∀ (rest : List Node) (ty : TypeId) (level : List Node) (f0 t0 idx f t e : Nat) (pre X : List Node),
      level = pre ++ rest → f0 = fsize pre + f →
      outer S sl ty level f0 t0 idx rest f t e = .ok X →
      lcompat S rest f e sl.content sl.openStart = true
  | [], ty, level, f0, t0, idx, f, t, e, pre, X, hl, hf0, h => by simp [lcompat]
  | n :: ns, ty, level, f0, t0, idx, f, t, e, pre, X, hl, hf0, h => by
    have here : atLevel S sl ty level f0 t0 e = .ok X →
        lcompat S (n :: ns) f e sl.content sl.openStart = true := by
      intro h'
      have := atLevel_lcompat S sl ty level f0 t0 e X h' hwf
      rwa [hl, hf0, lcompat_append_pre] at this
    unfold outer at h
    by_cases hf : f = 0
    · rw [if_pos hf] at h; exact here h
    rw [if_neg hf] at h
    by_cases hle : n.size ≤ f
    · rw [if_pos hle] at h
      rw [lcompat_skip S _ _ _ _ _ _ hf hle]
      exact outer_lcompat S sl hwf ns ty level f0 t0 (idx + 1) (f - n.size) (t - n.size) e
        (pre ++ [n]) X (by simp [hl]) (by rw [fsize_append]; simp; omega) h
    rw [if_neg hle] at h
    cases n with
    | text s mm => exact here h
    | leaf tt aa mm => exact here h
    | elem tyC aC mC kidsC =>
      simp only at h
      by_cases hcond : (e ≠ 0 && decide (t < (Node.elem tyC aC mC kidsC).size)) = true
      · rw [if_pos hcond] at h
        simp only [Bool.and_eq_true, decide_eq_true_eq, ne_eq] at hcond
        obtain ⟨e', rfl⟩ : ∃ e', e = e' + 1 := ⟨e - 1, by have := hcond.1; omega⟩
        simp only [Node.size_elem, Nat.not_le] at hle
        rw [lcompat_elem_extra S _ _ _ _ _ _ _ _ _ hf hle]
        simp only [Nat.add_sub_cancel] at h
        cases hx : outer S sl tyC kidsC (f - 1) (t - 1) 0 kidsC (f - 1) (t - 1) e' with
        | error err => rw [hx] at h; simp at h
        | ok inner =>
          exact outer_lcompat S sl hwf kidsC tyC kidsC (f - 1) (t - 1) 0 (f - 1) (t - 1) e'
            [] inner rfl (by simp) hx
      · rw [if_neg hcond] at h; exact here h

/-- **a successful replace checked the joins of `from`'s ancestors with the slice's left spine** -/
theorem replaceKids_lcompat (S : Schema) (ty : TypeId) (K : List Node) (f t : Nat) (sl : Slice)
    (X : List Node) (h : replaceKids S ty K f t sl = .ok X) :
    lcompat S K f (depthAt K f - sl.openStart) sl.content sl.openStart = true := by
  obtain ⟨_, _, hwf, ho⟩ := replaceKids_ok h
  exact outer_lcompat S sl hwf K ty K f t 0 f t _ [] X rfl (by simp) ho

end PM
