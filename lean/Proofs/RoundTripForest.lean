/-
  Proofs/RoundTripForest.lean — the forest of mark elements `serialize_fragment` emits for a list of inline nodes, as a
  structure: `build` replays the active-mark stack of `serFrag` (keep the common prefix open, close the rest, open the
  new marks) on trees; its leaves are the nodes, in order, each below exactly its marks, and every mark element
  contains a node.
-/
import PM.RoundTrip
namespace PM.RoundTrip
open PM PM.Dom

inductive MTree where
  | leaf (n : Node)
  | wrap (m : Mark) (kids : List MTree)

/-- the stack of open mark elements, innermost first: the mark and the forest collected outside it so far -/
abbrev FStack := List (Mark × List MTree)

def closeF : FStack → List MTree → List MTree
  | [], G => G
  | (m, O) :: fs, G => closeF fs (O ++ [.wrap m G])

def popF : Nat → FStack → List MTree → FStack × List MTree
  | 0, fs, G => (fs, G)
  | _ + 1, [], G => ([], G)
  | n + 1, (m, O) :: fs, G => popF n fs (O ++ [.wrap m G])

def openF : Marks → FStack → List MTree → FStack × List MTree
  | [], fs, G => (fs, G)
  | m :: ms, fs, G => openF ms ((m, G) :: fs) []

/-- length of the common prefix of the open marks (outermost first) and the node's marks -/
def keepLen : Marks → Marks → Nat
  | a :: as, m :: ms => if m = a then keepLen as ms + 1 else 0
  | _, _ => 0

/-- the marks of the open elements, outermost first -/
def pathOf (fs : FStack) : Marks := fs.reverse.map (·.1)

def build : List Node → FStack → List MTree → List MTree
  | [], fs, G => closeF fs G
  | n :: rest, fs, G =>
    let keep := keepLen (pathOf fs) n.marks
    let s1 := popF (fs.length - keep) fs G
    let s2 := openF (n.marks.drop keep) s1.1 s1.2
    build rest s2.1 (s2.2 ++ [.leaf n])

mutual
def flatT : MTree → List Node
  | .leaf n => [n]
  | .wrap _ kids => flatF kids
def flatF : List MTree → List Node
  | [] => []
  | t :: ts => flatT t ++ flatF ts
end

mutual
def hasLeaf : MTree → Bool
  | .leaf _ => true
  | .wrap _ kids => hasLeafF kids
def hasLeafF : List MTree → Bool
  | [] => false
  | t :: ts => hasLeaf t || hasLeafF ts
end

mutual
/-- below the marks `p`: every leaf carries exactly the marks on its path, every mark element contains a node -/
def treeOk (p : Marks) : MTree → Bool
  | .leaf n => n.marks == p
  | .wrap m kids => forestOk (p ++ [m]) kids && hasLeafF kids
def forestOk (p : Marks) : List MTree → Bool
  | [] => true
  | t :: ts => treeOk p t && forestOk p ts
end

theorem flatF_append : ∀ (a b : List MTree), flatF (a ++ b) = flatF a ++ flatF b
  | [], b => by simp [flatF]
  | t :: a, b => by simp [flatF, flatF_append a b]

theorem hasLeafF_append : ∀ (a b : List MTree), hasLeafF (a ++ b) = (hasLeafF a || hasLeafF b)
  | [], b => by simp [hasLeafF]
  | t :: a, b => by simp [hasLeafF, hasLeafF_append a b, Bool.or_assoc]

theorem forestOk_append (p : Marks) : ∀ (a b : List MTree), forestOk p (a ++ b) = (forestOk p a && forestOk p b)
  | [], b => by simp [forestOk]
  | t :: a, b => by simp [forestOk, forestOk_append p a b, Bool.and_assoc]

theorem pathOf_cons (m : Mark) (O : List MTree) (fs : FStack) : pathOf ((m, O) :: fs) = pathOf fs ++ [m] := by
  simp [pathOf]

/-- the forests outside the open elements are well formed -/
def stackOk : FStack → Bool
  | [] => true
  | (_, O) :: fs => forestOk (pathOf fs) O && stackOk fs

/-- the leaves collected outside the open elements -/
def preF : FStack → List Node
  | [] => []
  | (_, O) :: fs => preF fs ++ flatF O

/-! ### closing -/

theorem flat_closeF : ∀ (fs : FStack) (G : List MTree), flatF (closeF fs G) = preF fs ++ flatF G
  | [], G => by simp [closeF, preF]
  | (m, O) :: fs, G => by
    rw [closeF, flat_closeF fs, preF, flatF_append]
    simp [flatF, flatT]

theorem ok_closeF : ∀ (fs : FStack) (G : List MTree), stackOk fs = true → forestOk (pathOf fs) G = true →
    (fs = [] ∨ hasLeafF G = true) → forestOk [] (closeF fs G) = true
  | [], G, _, hg, _ => by simpa [closeF, pathOf] using hg
  | (m, O) :: fs, G, hs, hg, hl => by
    rw [stackOk] at hs
    simp only [Bool.and_eq_true] at hs
    have hl' : hasLeafF G = true := by rcases hl with h | h; · cases h
                                       · exact h
    rw [closeF]
    apply ok_closeF fs _ hs.2
    · rw [forestOk_append, hs.1]
      rw [pathOf_cons] at hg
      simp [forestOk, treeOk, hg, hl']
    · right; rw [hasLeafF_append]; simp [hasLeafF, hasLeaf, hl']

theorem closeF_popF : ∀ (n : Nat) (fs : FStack) (G : List MTree), closeF (popF n fs G).1 (popF n fs G).2 = closeF fs G
  | 0, fs, G => rfl
  | n + 1, [], G => rfl
  | n + 1, (m, O) :: fs, G => by rw [popF, closeF_popF n fs, closeF]


/-! ### the invariant of `build` -/

structure Good (fs : FStack) (G : List MTree) : Prop where
  stack : stackOk fs = true
  cur : forestOk (pathOf fs) G = true

def Ready (fs : FStack) (G : List MTree) : Prop := fs = [] ∨ hasLeafF G = true

theorem pathOf_length (fs : FStack) : (pathOf fs).length = fs.length := by simp [pathOf]

theorem popF_spec : ∀ (n : Nat) (fs : FStack) (G : List MTree), Good fs G → Ready fs G → n ≤ fs.length →
    Good (popF n fs G).1 (popF n fs G).2 ∧ Ready (popF n fs G).1 (popF n fs G).2 ∧
    preF (popF n fs G).1 ++ flatF (popF n fs G).2 = preF fs ++ flatF G ∧
    pathOf (popF n fs G).1 = (pathOf fs).take (fs.length - n)
  | 0, fs, G, hg, hr, _ => by
    refine ⟨hg, hr, rfl, ?_⟩
    rw [popF, Nat.sub_zero, ← pathOf_length fs, List.take_length]
  | n + 1, [], G, _, _, hn => by simp at hn
  | n + 1, (m, O) :: fs, G, hg, hr, hn => by
    have hs := hg.stack
    rw [stackOk] at hs
    simp only [Bool.and_eq_true] at hs
    have hl : hasLeafF G = true := by rcases hr with h | h; · cases h
                                      · exact h
    have hc := hg.cur
    rw [pathOf_cons] at hc
    have hg' : Good fs (O ++ [.wrap m G]) := ⟨hs.2, by rw [forestOk_append, hs.1]; simp [forestOk, treeOk, hc, hl]⟩
    have hr' : Ready fs (O ++ [.wrap m G]) := .inr (by rw [hasLeafF_append]; simp [hasLeafF, hasLeaf, hl])
    obtain ⟨h1, h2, h3, h4⟩ := popF_spec n fs _ hg' hr' (by simp at hn; omega)
    rw [popF]
    refine ⟨h1, h2, ?_, ?_⟩
    · rw [h3, preF, flatF_append]; simp [flatF, flatT]
    · rw [h4, pathOf_cons]
      have : (m, O) :: fs = [(m, O)] ++ fs := rfl
      simp only [List.length_cons]
      rw [show fs.length + 1 - (n + 1) = fs.length - n by omega]
      rw [List.take_append_of_le_length (by rw [pathOf_length]; omega)]

theorem openF_spec : ∀ (ms : Marks) (fs : FStack) (G : List MTree), Good fs G →
    stackOk (openF ms fs G).1 = true ∧ pathOf (openF ms fs G).1 = pathOf fs ++ ms ∧
    (ms = [] → (openF ms fs G).2 = G) ∧ (ms ≠ [] → (openF ms fs G).2 = []) ∧
    preF (openF ms fs G).1 ++ flatF (openF ms fs G).2 = preF fs ++ flatF G
  | [], fs, G, hg => by simp [openF, hg.stack]
  | m :: ms, fs, G, hg => by
    have hg' : Good ((m, G) :: fs) [] := ⟨by rw [stackOk]; simp [hg.cur, hg.stack], by simp [forestOk]⟩
    obtain ⟨h1, h2, h3, h4, h5⟩ := openF_spec ms ((m, G) :: fs) [] hg'
    rw [openF]
    refine ⟨h1, (by rw [h2, pathOf_cons]; simp), (fun h => by cases h), ?_, ?_⟩
    · intro _
      by_cases hms : ms = []
      · rw [h3 hms]
      · exact h4 hms
    · rw [h5, preF]; simp [flatF]

theorem keepLen_spec : ∀ (path ms : Marks), path.take (keepLen path ms) = ms.take (keepLen path ms) ∧
    keepLen path ms ≤ path.length ∧ keepLen path ms ≤ ms.length
  | [], ms => by simp [keepLen]
  | a :: as, [] => by simp [keepLen]
  | a :: as, m :: ms => by
    rw [keepLen]
    split
    · rename_i h
      obtain ⟨h1, h2, h3⟩ := keepLen_spec as ms
      subst h
      simp [h1]; omega
    · simp

theorem build_spec : ∀ (kids : List Node) (fs : FStack) (G : List MTree), Good fs G → Ready fs G →
    forestOk [] (build kids fs G) = true ∧ flatF (build kids fs G) = preF fs ++ flatF G ++ kids
  | [], fs, G, hg, hr => by
    rw [build]
    exact ⟨ok_closeF fs G hg.stack hg.cur hr, by rw [flat_closeF]; simp⟩
  | n :: rest, fs, G, hg, hr => by
    rw [build]
    obtain ⟨hk1, hk2, hk3⟩ := keepLen_spec (pathOf fs) n.marks
    rw [pathOf_length] at hk2
    obtain ⟨p1, _, p3, p4⟩ := popF_spec (fs.length - keepLen (pathOf fs) n.marks) fs G hg hr (by omega)
    obtain ⟨o1, o2, o3, o4, o5⟩ := openF_spec (n.marks.drop (keepLen (pathOf fs) n.marks)) _ _ p1
    have hpath : pathOf (openF (n.marks.drop (keepLen (pathOf fs) n.marks))
        (popF (fs.length - keepLen (pathOf fs) n.marks) fs G).1 (popF (fs.length - keepLen (pathOf fs) n.marks) fs G).2).1 = n.marks := by
      rw [o2, p4, show fs.length - (fs.length - keepLen (pathOf fs) n.marks) = keepLen (pathOf fs) n.marks by omega, hk1,
        List.take_append_drop]
    have hcur : forestOk n.marks (openF (n.marks.drop (keepLen (pathOf fs) n.marks))
        (popF (fs.length - keepLen (pathOf fs) n.marks) fs G).1 (popF (fs.length - keepLen (pathOf fs) n.marks) fs G).2).2 = true := by
      by_cases hd : n.marks.drop (keepLen (pathOf fs) n.marks) = []
      · rw [o3 hd]
        have e := o2.symm.trans hpath
        rw [hd, List.append_nil] at e
        have := p1.cur
        rw [e] at this
        exact this
      · rw [o4 hd]; rfl
    have hg2 : Good _ (_ ++ [MTree.leaf n]) := ⟨o1, by rw [hpath, forestOk_append, hcur]; simp [forestOk, treeOk]⟩
    have hr2 : Ready (openF (n.marks.drop (keepLen (pathOf fs) n.marks))
        (popF (fs.length - keepLen (pathOf fs) n.marks) fs G).1 (popF (fs.length - keepLen (pathOf fs) n.marks) fs G).2).1
        ((openF (n.marks.drop (keepLen (pathOf fs) n.marks))
        (popF (fs.length - keepLen (pathOf fs) n.marks) fs G).1 (popF (fs.length - keepLen (pathOf fs) n.marks) fs G).2).2 ++ [MTree.leaf n]) :=
      .inr (by rw [hasLeafF_append]; simp [hasLeafF, hasLeaf])
    obtain ⟨b1, b2⟩ := build_spec rest _ _ hg2 hr2
    refine ⟨b1, ?_⟩
    rw [b2, flatF_append, ← List.append_assoc (preF _), o5, p3]
    simp [flatF, flatT]

/-- **the forest of a list of inline nodes**: well formed, its leaves are the nodes in order -/
theorem build_top (kids : List Node) : forestOk [] (build kids [] []) = true ∧ flatF (build kids [] []) = kids := by
  obtain ⟨h1, h2⟩ := build_spec kids [] [] ⟨rfl, rfl⟩ (.inl rfl)
  exact ⟨h1, by simpa [preF, flatF] using h2⟩

end PM.RoundTrip
