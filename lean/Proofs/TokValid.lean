/-
  Proofs/TokValid.lean — content validity read off the token sequence.

  `validContent q l` (the parent type `q` accepts the child list `l`) only depends on the *top-level*
  tokens of `ftoks l`: their types (a run of text units counts as text children) and their marks.
  Under `TextLoop` (a text child can always be followed by another one, staying in the same automaton
  state) the length of a run of text units does not matter, so validity can be transported along any
  token-level relation that keeps the shapes and keeps the parent-allowed mark sets parent-allowed
  (`CtxRel`).  This is how the success lemmas for the range mark steps (Proofs/MarkSuccess.lean)
  validate the nodes `replace` re-closes: their token sequences are explicit splices of the
  document's tokens and of the re-marked slice's tokens.
-/
import PM.Step
import Proofs.StepToks
import Proofs.StepValid
namespace PM

/-- after a text child another text child is accepted and the automaton stays where it is
    (`text*`, `inline*`, `(text | image)+` … — every bundled schema; `text?` violates it).
    Strictly stronger than `TextStable`. -/
def TextLoop (S : Schema) : Prop :=
  ∀ t q q1, (S.dfa t).matchType q S.textTy = some q1 → (S.dfa t).matchType q1 S.textTy = some q1

theorem TextLoop.stable {S : Schema} (h : TextLoop S) : TextStableP S := by
  intro t q q1 q2 h1 h2
  have := h t q q1 h1
  rw [this] at h2
  exact (Option.some.inj h2).symm

/-! ### top-level items of a token sequence -/

/-- `(type, marks)` of the top-level nodes whose tokens these are, one entry per top-level token (a
    text node contributes one entry per code unit); `d` = current nesting depth; an unmatched close
    token ends the list -/
def topItems (textTy : TypeId) : Nat → List Tok → List (TypeId × Marks)
  | _, [] => []
  | 0, .op t _ m :: r => (t, m) :: topItems textTy 1 r
  | d + 1, .op _ _ _ :: r => topItems textTy (d + 2) r
  | 0, .cl :: _ => []
  | d + 1, .cl :: r => topItems textTy d r
  | 0, .leaf t _ m :: r => (t, m) :: topItems textTy 0 r
  | d + 1, .leaf _ _ _ :: r => topItems textTy (d + 1) r
  | 0, .unit _ m :: r => (textTy, m) :: topItems textTy 0 r
  | d + 1, .unit _ _ :: r => topItems textTy (d + 1) r

/-- the parent type `q` accepts a child list with these tokens -/
def tokValid (S : Schema) (q : TypeId) (l : List Tok) : Bool :=
  (S.dfa q).accepts ((topItems S.textTy 0 l).map (·.1)) &&
    (topItems S.textTy 0 l).all (fun x => (S.nodeType q).allowsMarks x.2)

theorem topItems_units_deep (textTy : TypeId) (d : Nat) (m : Marks) : ∀ (s : List Nat) (r : List Tok),
    topItems textTy (d + 1) (s.map (Tok.unit · m) ++ r) = topItems textTy (d + 1) r
  | [], r => by simp
  | c :: s, r => by simp [topItems, topItems_units_deep textTy d m s r]

mutual
theorem Node.topItems_deep (textTy : TypeId) : ∀ (n : Node) (d : Nat) (r : List Tok),
    topItems textTy (d + 1) (n.toks ++ r) = topItems textTy (d + 1) r
  | .text s m, d, r => by rw [Node.toks_text]; exact topItems_units_deep textTy d m s r
  | .leaf t a m, d, r => by simp [topItems]
  | .elem t a m k, d, r => by
    rw [Node.toks_elem]
    simp only [List.cons_append, List.append_assoc, topItems]
    rw [topItems_deep_ftoks textTy k (d + 1)]
    simp [topItems]
theorem topItems_deep_ftoks (textTy : TypeId) : ∀ (l : List Node) (d : Nat) (r : List Tok),
    topItems textTy (d + 1) (ftoks l ++ r) = topItems textTy (d + 1) r
  | [], d, r => by simp
  | n :: ns, d, r => by
    rw [ftoks_cons, List.append_assoc, Node.topItems_deep textTy n d, topItems_deep_ftoks textTy ns d r]
end

/-- the items one child contributes -/
def itemsOf (S : Schema) : Node → List (TypeId × Marks)
  | .text s m => s.map (fun _ => (S.textTy, m))
  | .leaf t _ m => [(t, m)]
  | .elem t _ m _ => [(t, m)]

theorem topItems_units_top (textTy : TypeId) (m : Marks) : ∀ (s : List Nat) (r : List Tok),
    topItems textTy 0 (s.map (Tok.unit · m) ++ r) = s.map (fun _ => (textTy, m)) ++ topItems textTy 0 r
  | [], r => by simp
  | c :: s, r => by simp [topItems, topItems_units_top textTy m s r]

theorem topItems_ftoks (S : Schema) : ∀ (l : List Node) (r : List Tok),
    topItems S.textTy 0 (ftoks l ++ r) = l.flatMap (itemsOf S) ++ topItems S.textTy 0 r
  | [], r => by simp
  | n :: ns, r => by
    rw [ftoks_cons, List.append_assoc, List.flatMap_cons, List.append_assoc, ← topItems_ftoks S ns r]
    cases n with
    | text s m => rw [Node.toks_text]; exact topItems_units_top S.textTy m s _
    | leaf t a m => simp [topItems, itemsOf]
    | elem t a m k =>
      rw [Node.toks_elem]
      simp only [List.cons_append, List.append_assoc, topItems, itemsOf]
      rw [topItems_deep_ftoks S.textTy k 0]
      simp [topItems]

/-! ### validity of a child list = validity of its tokens -/

theorem Dfa.run_text_rep {S : Schema} (hts : TextLoop S) (t : TypeId) : ∀ (k : Nat) (q : Nat) (rest : List TypeId),
    (S.dfa t).run q (List.replicate (k + 1) S.textTy ++ rest) = (S.dfa t).run q (S.textTy :: rest)
  | 0, q, rest => by simp
  | k + 1, q, rest => by
    have ih := Dfa.run_text_rep hts t k
    rw [List.replicate_succ, List.cons_append]
    simp only [Dfa.run]
    cases h1 : (S.dfa t).matchType q S.textTy with
    | none => rfl
    | some q1 =>
      simp only []
      rw [ih q1 rest]
      simp only [Dfa.run, hts t q q1 h1]

theorem run_items {S : Schema} (hts : TextLoop S) (t : TypeId) : ∀ (l : List Node) (q : Nat),
    fnormKids l = true →
    (S.dfa t).run q ((l.flatMap (itemsOf S)).map (·.1)) = (S.dfa t).run q (S.types l)
  | [], q, _ => by simp [Schema.types]
  | n :: ns, q, hn => by
    simp only [fnormKids_cons, Bool.and_eq_true] at hn
    have ih := fun q' => run_items hts t ns q' hn.2
    rw [List.flatMap_cons, List.map_append]
    have hty : S.types (n :: ns) = S.tyOf n :: S.types ns := by simp [Schema.types]
    rw [hty]
    cases n with
    | text s m =>
      have hne : s ≠ [] := by
        have := hn.1; simp [Node.norm] at this; exact this
      obtain ⟨k, hk⟩ : ∃ k, s.length = k + 1 := ⟨s.length - 1, by
        have : s.length ≠ 0 := by simpa using hne
        omega⟩
      have e : (itemsOf S (Node.text s m)).map (·.1) = List.replicate (k + 1) S.textTy := by
        simp only [itemsOf, List.map_map, ← hk]
        apply List.ext_getElem <;> simp
      rw [e, Dfa.run_text_rep hts t k]
      simp only [Dfa.run, Schema.tyOf, Node.tyOr]
      split
      · exact ih _
      · rfl
    | leaf ty a m =>
      simp only [itemsOf, List.map_cons, List.map_nil, List.singleton_append, Dfa.run, Schema.tyOf, Node.tyOr]
      split
      · exact ih _
      · rfl
    | elem ty a m k =>
      simp only [itemsOf, List.map_cons, List.map_nil, List.singleton_append, Dfa.run, Schema.tyOf, Node.tyOr]
      split
      · exact ih _
      · rfl

theorem all_items (S : Schema) (P : Marks → Bool) : ∀ (l : List Node), fnormKids l = true →
    (l.flatMap (itemsOf S)).all (fun x => P x.2) = l.all (fun k => P k.marks)
  | [], _ => by simp
  | n :: ns, hn => by
    simp only [fnormKids_cons, Bool.and_eq_true] at hn
    rw [List.flatMap_cons, List.all_append, List.all_cons, all_items S P ns hn.2]
    congr 1
    cases n with
    | text s m =>
      have hne : s ≠ [] := by
        have := hn.1; simp [Node.norm] at this; exact this
      cases s with
      | nil => exact absurd rfl hne
      | cons c s =>
        simp only [itemsOf, List.map_cons, List.all_cons, Node.marks, List.all_map]
        cases hP : P m <;> simp [hP]
    | leaf ty a m => simp [itemsOf, Node.marks]
    | elem ty a m k => simp [itemsOf, Node.marks]

/-- **validity of a child list is validity of its tokens** (text nodes non-empty, `TextLoop`) -/
theorem validContent_eq_tokValid {S : Schema} (hts : TextLoop S) (q : TypeId) (l : List Node)
    (hn : fnormKids l = true) : S.validContent q l = tokValid S q (ftoks l) := by
  have h := topItems_ftoks S l []
  simp only [List.append_nil, topItems] at h
  unfold Schema.validContent tokValid
  rw [h, all_items S (fun m => (S.nodeType q).allowsMarks m) l hn]
  congr 1
  unfold Dfa.accepts
  rw [run_items hts q l 0 hn]

/-! ### a relation on token sequences that keeps validity -/

/-- `b` may stand where `a` stands below a node of type `p`: same structure and text; if the parent
    allowed `a`'s marks it allows `b`'s -/
def TokGood (S : Schema) (p : TypeId) (a b : Tok) : Prop :=
  b.shape = a.shape ∧
    ((S.nodeType p).allowsMarks a.marks = true → (S.nodeType p).allowsMarks b.marks = true)

theorem TokGood.refl (S : Schema) (p : TypeId) (a : Tok) : TokGood S p a a := ⟨rfl, id⟩

/-- pointwise `TokGood`, each token judged against the type of the node it lies directly in
    (`st` = stack of the enclosing types, innermost first) -/
inductive CtxRel (S : Schema) : List TypeId → List Tok → List Tok → Prop
  | nil (st : List TypeId) : CtxRel S st [] []
  | cons {st : List TypeId} {a b : Tok} {l l' : List Tok} :
      TokGood S (st.headD 0) a b → CtxRel S (stackAfter st [a]) l l' → CtxRel S st (a :: l) (b :: l')

theorem CtxRel.refl (S : Schema) : ∀ (l : List Tok) (st : List TypeId), CtxRel S st l l
  | [], st => .nil st
  | a :: l, _ => .cons (TokGood.refl S _ a) (CtxRel.refl S l _)

theorem CtxRel.length_eq {S : Schema} {st : List TypeId} {l l' : List Tok} (h : CtxRel S st l l') :
    l'.length = l.length := by
  induction h with
  | nil => rfl
  | cons _ _ ih => simp [ih]

theorem stackAfter_cons (st : List TypeId) (a : Tok) (l : List Tok) :
    stackAfter st (a :: l) = stackAfter (stackAfter st [a]) l := by
  cases a <;> simp [stackAfter]

theorem CtxRel.append {S : Schema} {st : List TypeId} {a a' b b' : List Tok}
    (h1 : CtxRel S st a a') (h2 : CtxRel S (stackAfter st a) b b') : CtxRel S st (a ++ b) (a' ++ b') := by
  induction h1 with
  | nil _ => simpa [stackAfter] using h2
  | cons hg _ ih =>
    rw [stackAfter_cons] at h2
    exact .cons hg (ih h2)

theorem CtxRel.take {S : Schema} {st : List TypeId} {l l' : List Tok} (h : CtxRel S st l l') (n : Nat) :
    CtxRel S st (l.take n) (l'.take n) := by
  induction h generalizing n with
  | nil st => simpa using CtxRel.nil st
  | cons hg _ ih =>
    cases n with
    | zero => simpa using CtxRel.nil _
    | succ n => simpa using CtxRel.cons hg (ih n)

theorem CtxRel.drop {S : Schema} {st : List TypeId} {l l' : List Tok} (h : CtxRel S st l l') (n : Nat) :
    CtxRel S (stackAfter st (l.take n)) (l.drop n) (l'.drop n) := by
  induction h generalizing n with
  | nil st => simpa [stackAfter] using CtxRel.nil st
  | @cons st a b l l' hg hr ih =>
    cases n with
    | zero => simpa [stackAfter] using CtxRel.cons hg hr
    | succ n =>
      simp only [List.take_succ_cons, List.drop_succ_cons]
      rw [stackAfter_cons]
      exact ih n

/-- the window `[a, a + n)` of related sequences is related (contexts: the stack after the first `a` tokens) -/
theorem CtxRel.window {S : Schema} {st : List TypeId} {l l' : List Tok} (h : CtxRel S st l l') (a n : Nat) :
    CtxRel S (stackAfter st (l.take a)) ((l.drop a).take n) ((l'.drop a).take n) :=
  (h.drop a).take n

theorem Tok.shape_eq_cases {a b : Tok} (h : b.shape = a.shape) :
    (∃ t x m x' m', a = .op t x m ∧ b = .op t x' m') ∨ (a = .cl ∧ b = .cl) ∨
    (∃ t x m x' m', a = .leaf t x m ∧ b = .leaf t x' m') ∨ (∃ c m m', a = .unit c m ∧ b = .unit c m') := by
  cases a <;> cases b <;> simp [Tok.shape] at h
  · subst h; exact .inl ⟨_, _, _, _, _, rfl, rfl⟩
  · exact .inr (.inl ⟨rfl, rfl⟩)
  · subst h; exact .inr (.inr (.inl ⟨_, _, _, _, _, rfl, rfl⟩))
  · subst h; exact .inr (.inr (.inr ⟨_, _, _, rfl, rfl⟩))

/-- related sequences have the same top-level types, and allowed top-level marks stay allowed -/
theorem topItems_rel {S : Schema} {q : TypeId} : ∀ {l l' : List Tok} {σ : List TypeId} {d : Nat},
    CtxRel S (σ ++ [q]) l l' → σ.length = d →
    (topItems S.textTy d l').map (·.1) = (topItems S.textTy d l).map (·.1) ∧
    ((topItems S.textTy d l).all (fun x => (S.nodeType q).allowsMarks x.2) = true →
      (topItems S.textTy d l').all (fun x => (S.nodeType q).allowsMarks x.2) = true)
  | [], _, σ, d, h, _ => by cases h; simp [topItems]
  | a :: l, _, σ, d, h, hd => by
    cases h with
    | @cons _ _ b _ l' hg hr =>
    have hq : d = 0 → (σ ++ [q]).headD 0 = q := by
      intro h0; subst hd
      have : σ = [] := List.eq_nil_of_length_eq_zero h0
      subst this; rfl
    rcases Tok.shape_eq_cases hg.1 with ⟨t, x, m, x', m', rfl, rfl⟩ | ⟨rfl, rfl⟩ |
        ⟨t, x, m, x', m', rfl, rfl⟩ | ⟨c, m, m', rfl, rfl⟩
    · -- open token: one level deeper
      have ih := topItems_rel (σ := t :: σ) (d := d + 1) (by simpa [stackAfter] using hr) (by simp [hd])
      cases d with
      | zero =>
        have hgm := hg.2
        rw [hq rfl] at hgm
        simp only [topItems, List.map_cons, List.all_cons, Bool.and_eq_true, Tok.marks] at hgm ⊢
        exact ⟨by rw [ih.1], fun h => ⟨hgm h.1, ih.2 h.2⟩⟩
      | succ d => simpa [topItems] using ih
    · -- close token
      cases d with
      | zero => simp [topItems]
      | succ d =>
        cases σ with
        | nil => simp at hd
        | cons y σ' =>
          have ih := topItems_rel (σ := σ') (d := d) (by simpa [stackAfter] using hr) (by simpa using hd)
          simpa [topItems] using ih
    · have ih := topItems_rel (σ := σ) (d := d) (by simpa [stackAfter] using hr) hd
      cases d with
      | zero =>
        have hgm := hg.2
        rw [hq rfl] at hgm
        simp only [topItems, List.map_cons, List.all_cons, Bool.and_eq_true, Tok.marks] at hgm ⊢
        exact ⟨by rw [ih.1], fun h => ⟨hgm h.1, ih.2 h.2⟩⟩
      | succ d => simpa [topItems] using ih
    · have ih := topItems_rel (σ := σ) (d := d) (by simpa [stackAfter] using hr) hd
      cases d with
      | zero =>
        have hgm := hg.2
        rw [hq rfl] at hgm
        simp only [topItems, List.map_cons, List.all_cons, Bool.and_eq_true, Tok.marks] at hgm ⊢
        exact ⟨by rw [ih.1], fun h => ⟨hgm h.1, ih.2 h.2⟩⟩
      | succ d => simpa [topItems] using ih

/-- **validity is kept along `CtxRel`** -/
theorem tokValid_rel {S : Schema} {q : TypeId} {l l' : List Tok} (h : CtxRel S [q] l l')
    (hv : tokValid S q l = true) : tokValid S q l' = true := by
  obtain ⟨h1, h2⟩ := topItems_rel (σ := []) (d := 0) (by simpa using h) rfl
  simp only [tokValid, Bool.and_eq_true] at hv ⊢
  exact ⟨by rw [h1]; exact hv.1, h2 hv.2⟩

/-! ### the mark-step maps relate a fragment's tokens to the mapped fragment's -/

theorem ctxRel_units (S : Schema) (p : TypeId) (st : List TypeId) (m m' : Marks)
    (hg : MarkGood S p m m') : ∀ s : List Nat,
    CtxRel S (p :: st) (s.map (Tok.unit · m)) (s.map (Tok.unit · m'))
  | [] => .nil _
  | c :: s => .cons ⟨rfl, hg.2⟩ (by simpa [stackAfter] using ctxRel_units S p st m m' hg s)

mutual
theorem MarkMap.ctxRel_node {S : Schema} {g : TypeId → Node → Node} (hg : MarkMap S g) :
    ∀ (n : Node) (p : TypeId) (st : List TypeId), CtxRel S (p :: st) n.toks (g p n).toks
  | .text s m, p, st => by
    obtain ⟨m', he, hgood⟩ := hg.text p s m
    rw [he, Node.toks_text, Node.toks_text]
    exact ctxRel_units S p st m m' hgood s
  | .leaf t a m, p, st => by
    obtain ⟨m', he, hgood⟩ := hg.leaf p t a m
    rw [he, Node.toks_leaf, Node.toks_leaf]
    exact .cons ⟨rfl, hgood.2⟩ (.nil _)
  | .elem t a m k, p, st => by
    obtain ⟨m', he, hgood⟩ := hg.elem p t a m k
    rw [he, Node.toks_elem, Node.toks_elem, fromArray_toks]
    refine .cons ⟨rfl, hgood.2⟩ ?_
    simp only [stackAfter]
    refine CtxRel.append (MarkMap.ctxRel_list hg k t (p :: st)) ?_
    exact CtxRel.refl S _ _
theorem MarkMap.ctxRel_list {S : Schema} {g : TypeId → Node → Node} (hg : MarkMap S g) :
    ∀ (l : List Node) (p : TypeId) (st : List TypeId),
      CtxRel S (p :: st) (ftoks l) (ftoks (l.map (g p)))
  | [], p, st => .nil _
  | n :: ns, p, st => by
    rw [List.map_cons, ftoks_cons, ftoks_cons]
    refine CtxRel.append (MarkMap.ctxRel_node hg n p st) ?_
    rw [Node.stackAfter_toks]
    exact MarkMap.ctxRel_list hg ns p st
end

end PM
