/-
  Proofs/SpecDeadEndFuel.lean — the allowance of the spec-level dead-end search: the derivative sets of an expression
  are subsets of a finite set of expressions (Antimirov: `pdAll`, at most one partial derivative per symbol
  occurrence, plus the expression itself), so at most `2 ^ (#pdAll + 1)` pairwise different sets are ever visited and
  the exploration `reachSets` finishes within `reachFuel`.  With that allowance the search always answers, so
  `DeadEndSpec` is decidable.
-/
import Proofs.SpecDeadEnd
namespace PM
set_option linter.unusedSimpArgs false

/-- all partial derivatives of an expression by non-empty words (Antimirov) -/
def pdAll : RE → List RE
  | .eps => []
  | .sym _ => [.eps]
  | .alt a b => pdAll a ++ pdAll b
  | .seq a b => (pdAll a).map (fun x => RE.mkSeq x b) ++ pdAll b
  | .star a => (pdAll a).map (fun x => RE.mkSeq x (.star a))

theorem pd_mkSeq (t s : RE) (a : Nat) (x : RE) (hx : x ∈ RE.pd (RE.mkSeq t s) a) :
    (∃ y, y ∈ RE.pd t a ∧ x = RE.mkSeq y s) ∨ x ∈ RE.pd s a := by
  have hseq : x ∈ RE.pd (RE.seq t s) a → (∃ y, y ∈ RE.pd t a ∧ x = RE.mkSeq y s) ∨ x ∈ RE.pd s a := by
    intro h
    simp only [RE.pd, List.mem_append, List.mem_map] at h
    rcases h with ⟨y, hy, rfl⟩ | h
    · exact Or.inl ⟨y, hy, rfl⟩
    · split at h
      · exact Or.inr h
      · simp at h
  cases t with
  | eps => exact Or.inr hx
  | sym _ => exact hseq hx
  | alt _ _ => exact hseq hx
  | seq _ _ => exact hseq hx
  | star _ => exact hseq hx

theorem pd_sub_pdAll (r : RE) (a : Nat) (x : RE) (hx : x ∈ RE.pd r a) : x ∈ pdAll r := by
  induction r generalizing x with
  | eps => simp [RE.pd] at hx
  | sym b =>
    simp only [RE.pd] at hx
    split at hx
    · simpa [pdAll] using hx
    · simp at hx
  | alt r s ihr ihs =>
    simp only [RE.pd, List.mem_append] at hx
    simp only [pdAll, List.mem_append]
    exact hx.imp (ihr x) (ihs x)
  | seq r s ihr ihs =>
    simp only [RE.pd, List.mem_append, List.mem_map] at hx
    simp only [pdAll, List.mem_append, List.mem_map]
    rcases hx with ⟨y, hy, rfl⟩ | hx
    · exact Or.inl ⟨y, ihr y hy, rfl⟩
    · split at hx
      · exact Or.inr (ihs x hx)
      · simp at hx
  | star r ih =>
    simp only [RE.pd, List.mem_map] at hx
    simp only [pdAll, List.mem_map]
    obtain ⟨y, hy, rfl⟩ := hx
    exact ⟨y, ih y hy, rfl⟩

theorem pdAll_closed (r : RE) (a : Nat) : ∀ t, t ∈ pdAll r → ∀ x, x ∈ RE.pd t a → x ∈ pdAll r := by
  induction r with
  | eps => intro t ht; simp [pdAll] at ht
  | sym b =>
    intro t ht x hx
    simp only [pdAll, List.mem_singleton] at ht
    subst ht
    simp [RE.pd] at hx
  | alt r s ihr ihs =>
    intro t ht x hx
    simp only [pdAll, List.mem_append] at ht ⊢
    rcases ht with ht | ht
    · exact Or.inl (ihr t ht x hx)
    · exact Or.inr (ihs t ht x hx)
  | seq r s ihr ihs =>
    intro t ht x hx
    simp only [pdAll, List.mem_append, List.mem_map] at ht ⊢
    rcases ht with ⟨t', ht', rfl⟩ | ht
    · rcases pd_mkSeq t' s a x hx with ⟨y, hy, rfl⟩ | h
      · exact Or.inl ⟨y, ihr t' ht' y hy, rfl⟩
      · exact Or.inr (pd_sub_pdAll s a x h)
    · exact Or.inr (ihs t ht x hx)
  | star r ih =>
    intro t ht x hx
    simp only [pdAll, List.mem_map] at ht ⊢
    obtain ⟨t', ht', rfl⟩ := ht
    rcases pd_mkSeq t' (.star r) a x hx with ⟨y, hy, rfl⟩ | h
    · exact ⟨y, ih t' ht' y hy, rfl⟩
    · simp only [RE.pd, List.mem_map] at h
      obtain ⟨y, hy, rfl⟩ := h
      exact ⟨y, pd_sub_pdAll r a y hy, rfl⟩

/-- one partial derivative per symbol occurrence -/
theorem pdAll_length (r : RE) : (pdAll r).length = r.syms.length := by
  induction r with
  | eps => rfl
  | sym _ => rfl
  | alt a b iha ihb => simp [pdAll, RE.syms, iha, ihb]
  | seq a b iha ihb => simp [pdAll, RE.syms, iha, ihb]
  | star a ih => simp [pdAll, RE.syms, ih]

/-- all the expressions of a set are the expression itself or partial derivatives of it -/
def SubPd (r : RE) (rs : List RE) : Prop := ∀ x, x ∈ rs → x ∈ r :: pdAll r

theorem subPd_pdSet (r : RE) (rs : List RE) (a : Nat) (h : SubPd r rs) : SubPd r (RE.pdSet rs a) := by
  intro x hx
  obtain ⟨t, ht, hxt⟩ := (mem_pdSet rs a x).1 hx
  rcases List.mem_cons.1 (h t ht) with rfl | ht'
  · exact List.mem_cons_of_mem _ (pd_sub_pdAll _ a x hxt)
  · exact List.mem_cons_of_mem _ (pdAll_closed r a t ht' x hxt)

theorem subPd_derivW (r : RE) (w : List Nat) : ∀ rs, SubPd r rs → SubPd r (derivW rs w) := by
  induction w with
  | nil => intro rs h; exact h
  | cons a w ih => intro rs h; exact ih _ (subPd_pdSet r rs a h)

theorem reachSet_subPd {r : RE} {rs : List RE} (h : ReachSet r rs) : SubPd r rs := by
  obtain ⟨w, rfl, _⟩ := h
  exact subPd_derivW r w [r] (fun x hx => by simp at hx; simp [hx])

/-! ### counting pairwise different subsets -/

theorem pairwise_subsets_length (C : List RE) (L : List (List RE)) (hsub : ∀ rs, rs ∈ L → ∀ x, x ∈ rs → x ∈ C)
    (hpw : L.Pairwise (fun a b => ¬ SetEq a b)) : L.length ≤ 2 ^ C.length := by
  let f : List RE → List RE := fun rs => C.filter (fun x => rs.contains x)
  have hinj : ∀ a b, a ∈ L → b ∈ L → f a = f b → SetEq a b := by
    intro a b ha hb hf x
    have key : ∀ (a b : List RE), a ∈ L → f a = f b → x ∈ a → x ∈ b := by
      intro a b ha hf hx
      have : x ∈ f a := List.mem_filter.2 ⟨hsub a ha x hx, by simpa using hx⟩
      rw [hf] at this
      simpa using (List.mem_filter.1 this).2
    exact ⟨key a b ha hf, key b a hb hf.symm⟩
  have hnd : (L.map f).Nodup := by
    rw [List.Nodup, List.pairwise_map]
    exact (List.Pairwise.and_mem.1 hpw).imp (fun ⟨ha, hb, hne⟩ hf => hne (hinj _ _ ha hb hf))
  have hsubl : ∀ s, s ∈ L.map f → s ∈ C.sublists := by
    intro s hs
    obtain ⟨rs, _, rfl⟩ := List.mem_map.1 hs
    exact List.mem_sublists.2 List.filter_sublist
  have := (List.subperm_of_subset hnd hsubl).length_le
  simpa using this

/-! ### the allowance -/

/-- an allowance within which `reachSets` finishes for `r` over `sigma` -/
def reachFuel (sigma : List Nat) (r : RE) : Nat := 1 + 2 ^ ((pdAll r).length + 1) * sigma.length

/-- … in terms of the size of the expression: `1 + 2 ^ (#symbol occurrences + 1) * #sigma` -/
theorem reachFuel_eq (sigma : List Nat) (r : RE) : reachFuel sigma r = 1 + 2 ^ (r.syms.length + 1) * sigma.length := by
  rw [reachFuel, pdAll_length]

theorem next_length_le (sigma : List Nat) (rs : List RE) :
    ((sigma.map (RE.pdSet rs ·)).filter (!·.isEmpty)).length ≤ sigma.length := by
  have := List.length_filter_le (fun (x : List RE) => !x.isEmpty) (sigma.map (RE.pdSet rs ·))
  simpa using this

theorem reachSets_some (sigma : List Nat) (r : RE) : ∀ (fuel : Nat) (todo seen : List (List RE)),
    SRInv sigma r todo seen →
    todo.length + (2 ^ ((pdAll r).length + 1) - seen.length) * sigma.length ≤ fuel →
    reachSets sigma fuel todo seen ≠ none := by
  intro fuel
  induction fuel with
  | zero =>
    intro todo seen _ hf
    cases todo with
    | nil => simp [reachSets]
    | cons _ _ => simp at hf
  | succ fuel ih =>
    intro todo seen hinv hf
    cases todo with
    | nil => simp [reachSets]
    | cons rs todo =>
      rw [reachSets]
      by_cases hs : seen.any (RE.sameSet · rs) = true
      · rw [if_pos hs]
        obtain ⟨x, hx, hxe⟩ := (any_sameSet_iff _ _).1 hs
        refine ih todo seen ⟨fun y hy => hinv.reach y ?_, ?_, ?_, hinv.distinct⟩ ?_
        · simp only [List.cons_append, List.mem_cons]; exact Or.inr hy
        · obtain ⟨y, hy, hye⟩ := hinv.start
          simp only [List.cons_append, List.mem_cons] at hy
          rcases hy with rfl | hy
          · exact ⟨x, List.mem_append_right _ hx, hxe.trans hye⟩
          · exact ⟨y, hy, hye⟩
        · intro y hy a ha hne
          obtain ⟨z, hz, hze⟩ := hinv.closed y hy a ha hne
          simp only [List.cons_append, List.mem_cons] at hz
          rcases hz with rfl | hz
          · exact ⟨x, List.mem_append_right _ hx, hxe.trans hze⟩
          · exact ⟨z, hz, hze⟩
        · simp only [List.length_cons] at hf
          omega
      · rw [if_neg hs]
        simp only
        have hnot : ∀ x, x ∈ seen → ¬ SetEq x rs := by
          intro x hx hxe
          exact hs ((any_sameSet_iff _ _).2 ⟨x, hx, hxe⟩)
        have hrs : ReachSet r rs := hinv.reach rs (by simp)
        have hdist : (rs :: seen).Pairwise (fun a b => ¬ SetEq a b) :=
          List.Pairwise.cons (fun x hx hxe => hnot x hx hxe.symm) hinv.distinct
        have hlen : (rs :: seen).length ≤ 2 ^ ((pdAll r).length + 1) := by
          have := pairwise_subsets_length (r :: pdAll r) (rs :: seen) (fun y hy => by
            refine reachSet_subPd (hinv.reach y ?_)
            simp only [List.mem_cons] at hy
            simp only [List.cons_append, List.mem_cons, List.mem_append]
            rcases hy with rfl | hy
            · exact Or.inl rfl
            · exact Or.inr (Or.inr hy)) hdist
          simpa using this
        refine ih _ _ ⟨?_, ?_, ?_, hdist⟩ ?_
        · intro y hy
          simp only [List.mem_append, List.mem_filter, List.mem_map, List.mem_cons] at hy
          rcases hy with (hy | ⟨⟨a, _, rfl⟩, hne⟩) | rfl | hy
          · exact hinv.reach y (by simp [hy])
          · obtain ⟨w, rfl, _⟩ := hrs
            refine ⟨w ++ [a], (derivW_snoc _ _ _).symm, ?_⟩
            intro he
            rw [he] at hne
            simp at hne
          · exact hrs
          · exact hinv.reach y (by simp [hy])
        · obtain ⟨y, hy, hye⟩ := hinv.start
          refine ⟨y, ?_, hye⟩
          simp only [List.cons_append, List.mem_cons, List.mem_append] at hy ⊢
          rcases hy with rfl | hy | hy
          · exact Or.inr (Or.inl rfl)
          · exact Or.inl (Or.inl hy)
          · exact Or.inr (Or.inr hy)
        · intro y hy a ha hne
          simp only [List.mem_cons] at hy
          rcases hy with rfl | hy
          · refine ⟨RE.pdSet y a, ?_, SetEq.refl _⟩
            simp only [List.mem_append, List.mem_filter, List.mem_map]
            refine Or.inl (Or.inr ⟨⟨a, ha, rfl⟩, ?_⟩)
            cases hp : RE.pdSet y a with
            | nil => exact absurd hp hne
            | cons _ _ => rfl
          · obtain ⟨z, hz, hze⟩ := hinv.closed y hy a ha hne
            refine ⟨z, ?_, hze⟩
            simp only [List.cons_append, List.mem_cons, List.mem_append] at hz ⊢
            rcases hz with rfl | hz | hz
            · exact Or.inr (Or.inl rfl)
            · exact Or.inl (Or.inl hz)
            · exact Or.inr (Or.inr hz)
        · have hn := next_length_le sigma rs
          simp only [List.length_cons] at hf hlen
          rw [List.length_append, List.length_cons]
          obtain ⟨m, hm⟩ : ∃ m, 2 ^ ((pdAll r).length + 1) - seen.length = m + 1 := ⟨_, (Nat.succ_pred_eq_of_pos (by omega)).symm⟩
          have hm' : 2 ^ ((pdAll r).length + 1) - (seen.length + 1) = m := by omega
          rw [hm, Nat.succ_mul] at hf
          rw [hm']
          omega

/-- **the allowance suffices**: with `reachFuel` (or more) the exploration of the derivative sets finishes -/
theorem reachSets_total (sigma : List Nat) (r : RE) (fuel : Nat) (hf : reachFuel sigma r ≤ fuel) :
    reachSets sigma fuel [[r]] [] ≠ none := by
  refine reachSets_some sigma r fuel [[r]] [] ?_ ?_
  · refine ⟨?_, ⟨[r], by simp, SetEq.refl _⟩, fun rs hrs => by simp at hrs, List.Pairwise.nil⟩
    intro rs hrs
    simp only [List.cons_append, List.nil_append, List.mem_singleton] at hrs
    subst hrs
    exact ⟨[], rfl, by simp⟩
  · simp only [List.length_cons, List.length_nil, Nat.sub_zero]
    unfold reachFuel at hf
    omega

/-- the search answers whenever its allowance is at least `reachFuel` -/
theorem hasDeadEndWith?_total (fuel : Nat) (sigma : List Nat) (gen : Nat → Bool) (r : RE)
    (hf : reachFuel sigma r ≤ fuel) : ∃ b, hasDeadEndWith? fuel sigma gen r = some b := by
  unfold hasDeadEndWith?
  cases hr : reachSets sigma fuel [[r]] [] with
  | none => exact absurd hr (reachSets_total sigma r fuel hf)
  | some all => exact ⟨_, rfl⟩

/-- **"unknown" is unreachable for small expressions**: the search of op `c06` (allowance 200000) answers for every
    expression with `1 + 2 ^ (#partial derivatives + 1) * #sigma ≤ 200000` -/
theorem hasDeadEnd?_total (sigma : List Nat) (gen : Nat → Bool) (r : RE) (hf : reachFuel sigma r ≤ 200000) :
    ∃ b, hasDeadEnd? sigma gen r = some b := hasDeadEndWith?_total 200000 sigma gen r hf

/-! ### `DeadEndSpec` is decidable -/

/-- the search with the structural allowance, over the symbols of the expression -/
def decDeadEnd (r : RE) (gen : Nat → Bool) : Bool :=
  (hasDeadEndWith? (reachFuel r.syms.eraseDups r) r.syms.eraseDups gen r).getD false

theorem decDeadEnd_iff (r : RE) (gen : Nat → Bool) : decDeadEnd r gen = true ↔ DeadEndSpec r gen := by
  obtain ⟨b, hb⟩ := hasDeadEndWith?_total (reachFuel r.syms.eraseDups r) r.syms.eraseDups gen r (Nat.le_refl _)
  have := hasDeadEndWith?_spec _ r.syms.eraseDups gen r (fun c hc => List.mem_eraseDups.2 hc) b hb
  unfold decDeadEnd
  rw [hb]
  exact this

instance (r : RE) (gen : Nat → Bool) : Decidable (DeadEndSpec r gen) :=
  decidable_of_iff _ (decDeadEnd_iff r gen)

end PM

namespace PM
set_option linter.unusedSimpArgs false

/-! ### the symbols of a parsed expression are node types of the table -/

theorem syms_alts (rs : List RE) (b : Nat) (h : b ∈ (RE.alts rs).syms) : ∃ x, x ∈ rs ∧ b ∈ x.syms := by
  induction rs with
  | nil => simp [RE.alts, RE.syms] at h
  | cons r rs ih =>
    cases rs with
    | nil => exact ⟨r, by simp, by simpa [RE.alts] using h⟩
    | cons r' rs =>
      simp only [RE.alts, RE.syms, List.mem_append] at h
      rcases h with h | h
      · exact ⟨r, by simp, h⟩
      · obtain ⟨x, hx, hb⟩ := ih h
        exact ⟨x, List.mem_cons_of_mem _ hx, hb⟩

theorem syms_seqs (rs : List RE) (b : Nat) (h : b ∈ (RE.seqs rs).syms) : ∃ x, x ∈ rs ∧ b ∈ x.syms := by
  induction rs with
  | nil => simp [RE.seqs, RE.syms] at h
  | cons r rs ih =>
    cases rs with
    | nil => exact ⟨r, by simp, by simpa [RE.seqs] using h⟩
    | cons r' rs =>
      simp only [RE.seqs, RE.syms, List.mem_append] at h
      rcases h with h | h
      · exact ⟨r, by simp, h⟩
      · obtain ⟨x, hx, hb⟩ := ih h
        exact ⟨x, List.mem_cons_of_mem _ hx, hb⟩

theorem syms_rep (r : RE) (n : Nat) (b : Nat) (h : b ∈ (RE.rep r n).syms) : b ∈ r.syms := by
  induction n with
  | zero => simp [RE.rep, RE.syms] at h
  | succ n ih =>
    simp only [RE.rep, RE.syms, List.mem_append] at h
    exact h.elim id ih

theorem syms_range (r : RE) (mn : Nat) (mx : Option Nat) (b : Nat) (h : b ∈ (RE.range r mn mx).syms) : b ∈ r.syms := by
  cases mx with
  | none =>
    simp only [RE.range, RE.syms, List.mem_append] at h
    exact h.elim (syms_rep r mn b) id
  | some m =>
    simp only [RE.range, RE.syms, List.mem_append] at h
    rcases h with h | h
    · exact syms_rep r mn b h
    · have := syms_rep (RE.opt r) (m - mn) b h
      simpa [RE.opt, RE.syms] using this

mutual
theorem toRE_syms : ∀ (e : Expr) (b : Nat), b ∈ e.toRE.syms → b ∈ e.names
  | .choice es, b, h => by
    simp only [Expr.toRE] at h
    simp only [Expr.names]
    obtain ⟨x, hx, hb⟩ := syms_alts _ b h
    exact toREs_syms es b x hx hb
  | .seq es, b, h => by
    simp only [Expr.toRE] at h
    simp only [Expr.names]
    obtain ⟨x, hx, hb⟩ := syms_seqs _ b h
    exact toREs_syms es b x hx hb
  | .plus e, b, h => by
    simp only [Expr.toRE, RE.plus, RE.syms, List.mem_append, or_self] at h
    simp only [Expr.names]
    exact toRE_syms e b h
  | .star e, b, h => by
    simp only [Expr.toRE, RE.syms] at h
    simp only [Expr.names]
    exact toRE_syms e b h
  | .opt e, b, h => by
    simp only [Expr.toRE, RE.opt, RE.syms, List.nil_append] at h
    simp only [Expr.names]
    exact toRE_syms e b h
  | .range mn mx e, b, h => by
    simp only [Expr.toRE] at h
    simp only [Expr.names]
    exact toRE_syms e b (syms_range _ mn mx b h)
  | .name t, b, h => by
    simpa [Expr.toRE, RE.syms, Expr.names] using h
theorem toREs_syms : ∀ (es : List Expr) (b : Nat) (x : RE), x ∈ Expr.toREs es → b ∈ x.syms → b ∈ Expr.namesL es
  | [], _, _, hx, _ => by simp [Expr.toREs] at hx
  | e :: es, b, x, hx, hb => by
    simp only [Expr.toREs, List.mem_cons] at hx
    simp only [Expr.namesL, List.mem_append]
    rcases hx with rfl | hx
    · exact Or.inl (toRE_syms e b hb)
    · exact Or.inr (toREs_syms es b x hx hb)
end

end PM
