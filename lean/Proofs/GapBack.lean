/-
  Proofs/GapBack.lean — after the repair of `insert_into` (it validates the content it *built*), the gap that
  `remove_range` took out of a slice cut from a valid document can always be put back by `insert_into`: what is built is
  the old child list again (normal forms with equal tokens), and that list is valid content of its node.  No condition
  on where the gap lies (`GapPath` / `TailPath` of Proofs/UndoFit.lean, Proofs/GapTailDef.lean are special cases) and no
  condition on the schema (`TextLoop`); the one proviso is that the two cuts `insert_into` makes in the remainder do not
  separate a surrogate pair (`alignedAt`: where `remove_range` joined two text nodes around the gap, the seam of the joined
  text is cut again).
-/
import Proofs.UndoFit
namespace PM

/-- a flat position (at a child boundary or inside a text child) sends `insert_into` to its flat case -/
theorem insertInto_flat_of_depth (S : Schema) (G : List Node) (parent : Option TypeId) (level : List Node)
    (d0 oa ob : Nat) :
    ∀ (rest : List Node) (idx d : Nat), depthAt rest d = 0 → d ≤ fsize rest →
      insertInto S G parent level d0 idx rest d oa ob = flatInsert S G parent level d0 0
  | [], idx, d, _, hle => by
    simp only [fsize_nil] at hle
    unfold insertInto
    rw [if_pos (by omega)]
    rfl
  | n :: ns, idx, d, hd, hle => by
    unfold insertInto
    split
    · rfl
    · rename_i h0
      split
      · rename_i hsz
        rw [depthAt_skip _ _ _ hsz] at hd
        simp only [fsize_cons] at hle
        exact insertInto_flat_of_depth S G parent level d0 oa ob ns (idx + 1) (d - n.size) hd (by omega)
      · rename_i hsz
        cases n with
        | text s m => rfl
        | leaf t a m => rfl
        | elem ty a m kids =>
          rw [depthAt_cons, if_neg h0, if_neg hsz] at hd
          simp only at hd
          omega

/-- the depth of a position, read from the tokens before it -/
theorem depthAt_eq_of_take {A B : List Node} {p : Nat} (hA : p ≤ fsize A) (hB : p ≤ fsize B)
    (h : (ftoks A).take p = (ftoks B).take p) : depthAt A p = depthAt B p := by
  have h1 := depthAt_balance A p hA
  have h2 := depthAt_balance B p hB
  rw [h] at h1
  have : (depthAt A p : Int) = depthAt B p := by rw [h1, h2]
  exact_mod_cast this

/-- **the flat case**: what `remove_range` removed between two flat positions of a normal-form child list is put back by
    `insert_into`, and the result is the child list as it was -/
theorem insert_flat_back (S : Schema) (G : List Node) (hnG : fnorm G = true) (level level' : List Node)
    (F T : Nat) (parent : Option TypeId) (oa ob : Nat) (hn : fnorm level = true) (hFT : F ≤ T)
    (hdF : depthAt level F = 0)
    (hrm : removeRange.removeFlat level F T = .ok level')
    (hpar : ∀ p, parent = some p → S.validContent p level = true)
    (htk : ftoks G = ((ftoks level).drop F).take (T - F))
    (hal : alignedAt level' F = true) :
    insertInto S G parent level' F 0 level' F oa ob = .ok (some level) := by
  have hTle : T ≤ fsize level := by
    unfold removeRange.removeFlat at hrm
    split at hrm
    · simp at hrm
    · rename_i hin
      simpa [inRange] using hin
  obtain ⟨htk', _⟩ := removeFlat_toks level F T level' (by omega) hdF hrm
  have hn' := removeFlat_norm level F T level' hn hrm
  have hlenT : ((ftoks level).take F).length = F := by rw [List.length_take, ftoks_length]; omega
  have hsz' : fsize level' = F + (fsize level - T) := by
    rw [← ftoks_length, htk', List.length_append, hlenT, List.length_drop, ftoks_length]
  have hFle' : F ≤ fsize level' := by omega
  have htake : (ftoks level').take F = (ftoks level).take F := by
    rw [htk']; exact win_take _ _ _ hlenT
  have hdrop : (ftoks level').drop F = (ftoks level).drop T := by
    rw [htk']; exact win_drop _ _ _ hlenT
  have hd' : depthAt level' F = 0 := by
    rw [depthAt_eq_of_take hFle' (by omega) htake]; exact hdF
  rw [insertInto_flat_of_depth S G parent level' F oa ob level' 0 F hd' hFle']
  obtain ⟨cl, hcl⟩ := fcut_total level' 0 F (Nat.zero_le _) hFle' (alignedAt_zero _) hal hn'
  obtain ⟨cr, hcr⟩ := fcut_total level' F (fsize level') hFle' (Nat.le_refl _) hal (alignedAt_fsize _) hn'
  have hback : fappend (fappend cl G) cr = level := by
    apply ftoks_inj _ _ (fappend_norm _ _ (fappend_norm _ _ (fcut_norm _ _ _ _ hn' hcl) hnG)
      (fcut_norm _ _ _ _ hn' hcr)) hn
    rw [fappend_toks, fappend_toks, fcut_prefix_toks hcl hFle' hd', fcut_suffix_toks hcr hd', htake, hdrop, htk]
    have := splice_mid (ftoks level) F T hFT (by rw [ftoks_length]; exact hTle)
    exact this
  have := flatInsert_of_cuts (S := S) (ins := G) (parent := parent) (idx := 0) hcl hcr
    (by intro p hp; rw [hback]; exact hpar p hp)
  rw [hback] at this
  exact this

/-- the window of a child list's tokens that starts inside its first remaining child, a text node -/
private theorem depth_text_cons (s : List Nat) (m : Marks) (ns : List Node) (f : Nat) (h : f < s.length) :
    depthAt (Node.text s m :: ns) f = 0 :=
  depthAt_nonelem_cons _ _ _ (by simpa using h) (by intro ty a m' k hh; cases hh)

/-- **`insert_into` undoes `remove_range`** on a child list of a valid, normal-form node (scan form, `pre` already
    passed): the result is the old child list -/
theorem insert_remove_scan (S : Schema) (G : List Node) (hnG : fnorm G = true) :
    ∀ (rest pre : List Node) (f t : Nat) (level' : List Node) (parent : Option TypeId) (oa ob : Nat),
    fnorm (pre ++ rest) = true → f ≤ t →
    removeRange (pre ++ rest) (fsize pre + f) (fsize pre + t) pre.length rest f t = .ok level' →
    openValid S oa ob (pre ++ rest) = true →
    (∀ p, parent = some p → S.validContent p (pre ++ rest) = true) →
    ftoks G = ((ftoks (pre ++ rest)).drop (fsize pre + f)).take (t - f) →
    alignedAt level' (fsize pre + f) = true →
    insertInto S G parent level' (fsize pre + f) 0 level' (fsize pre + f) oa ob = .ok (some (pre ++ rest))
  | [], pre, f, t, level', parent, oa, ob, hn, hft, h, _, hpar, htk, hal => by
    unfold removeRange at h
    split at h
    · rename_i h0; subst h0
      exact insert_flat_back S G hnG _ level' _ _ parent oa ob hn (by omega)
        (by rw [depthAt_append_pre]; simp) h hpar
        (by rw [htk]; congr 1; omega) hal
    · simp at h
  | n :: ns, pre, f, t, level', parent, oa, ob, hn, hft, h, hov, hpar, htk, hal => by
    unfold removeRange at h
    split at h
    · rename_i h0; subst h0
      exact insert_flat_back S G hnG _ level' _ _ parent oa ob hn (by omega)
        (by rw [depthAt_append_pre]; simp) h hpar
        (by rw [htk]; congr 1; omega) hal
    · rename_i h0
      split at h
      · rename_i hle
        have e : pre ++ [n] ++ ns = pre ++ n :: ns := by simp
        have e1 : fsize (pre ++ [n]) + (f - n.size) = fsize pre + f := by
          rw [fsize_append]; simp only [fsize_cons, fsize_nil, Nat.add_zero]; omega
        have e2 : fsize (pre ++ [n]) + (t - n.size) = fsize pre + t := by
          rw [fsize_append]; simp only [fsize_cons, fsize_nil, Nat.add_zero]; omega
        have := insert_remove_scan S G hnG ns (pre ++ [n]) (f - n.size) (t - n.size) level' parent oa ob
          (by rw [e]; exact hn) (by omega) (by rw [e, e1, e2]; simpa using h) (by rw [e]; exact hov)
          (by rw [e]; exact hpar)
          (by rw [e, e1, htk]; congr 1; omega) (by rw [e1]; exact hal)
        rwa [e, e1] at this
      · rename_i hlt
        cases n with
        | text s m =>
          simp only [Node.size_text] at hlt
          simp only at h
          exact insert_flat_back S G hnG _ level' _ _ parent oa ob hn (by omega)
            (by rw [depthAt_append_pre]; exact depth_text_cons s m ns f (by omega)) h hpar
            (by rw [htk]; congr 1; omega) hal
        | leaf ty a m => simp at hlt; omega
        | elem ty a m k =>
          simp only [Node.size_elem] at hlt h
          split at h
          · rename_i htl
            cases hin : removeRange k (f - 1) (t - 1) 0 k (f - 1) (t - 1) with
            | error e => rw [hin] at h; simp at h
            | ok inner =>
              rw [hin] at h
              simp only [Except.ok.injEq] at h
              rw [set_mid] at h
              subst h
              have hpre := fnormKids_append_left hn
              have hnk := fnorm_child hn
              obtain ⟨hovk, hvk⟩ := openValid_child S ty a m k ns oa ob pre hov
              obtain ⟨hitk, _⟩ := removeRange_toks k k (f - 1) (t - 1) 0 (f - 1) (t - 1) [] inner rfl rfl
                (by simp) (by simp) (by omega) hin
              -- the inner call
              have hS : (decide (0 < oa) && (0 + pre.length == 0)) = decide (0 < oa ∧ pre = []) := by
                by_cases h1 : 0 < oa <;> cases pre <;> simp [h1]
              have hE : (decide (0 < ob) && (0 + pre.length == (pre ++ Node.elem ty a m inner :: ns).length - 1))
                  = decide (0 < ob ∧ ns = []) := by
                by_cases h1 : 0 < ob <;> cases ns <;> simp [h1] <;> omega
              have hal' : alignedAt inner (f - 1) = true := by
                have e0 : fsize pre + f = fsize pre + (1 + (f - 1)) := by omega
                rw [e0, alignedAt_append_pre, alignedAt_cons, if_neg (by omega),
                  if_neg (by
                    have : f - 1 ≤ fsize inner := by
                      have := congrArg List.length hitk
                      simp only [List.length_append, List.length_take, List.length_drop, ftoks_length] at this
                      omega
                    simp only [Node.size_elem]; omega)] at hal
                simpa using hal
              have ih := insert_remove_scan S G hnG k [] (f - 1) (t - 1) inner
                (if (decide (0 < oa ∧ pre = []) || decide (0 < ob ∧ ns = [])) = true then none else some ty)
                (if 0 < oa ∧ pre = [] then oa - 1 else 0) (if 0 < ob ∧ ns = [] then ob - 1 else 0)
                (by simpa using hnk) (by omega) (by simpa using hin) (by simpa using hovk)
                (by
                  intro p hp
                  by_cases h1 : 0 < oa ∧ pre = []
                  · simp [h1] at hp
                  · by_cases h2 : 0 < ob ∧ ns = []
                    · simp [h2] at hp
                    · simp [h1, h2] at hp
                      subst hp
                      simpa using hvk h1 h2)
                (by
                  simp only [List.nil_append, fsize_nil, Nat.zero_add]
                  rw [htk, show fsize pre + f = fsize pre + 1 + (f - 1) by omega,
                    show t - f = (t - 1) - (f - 1) by omega]
                  exact window_elem pre ty a m k ns (f - 1) (t - 1) (by omega) (by omega))
                (by simpa using hal')
              simp only [List.nil_append, fsize_nil, Nat.zero_add] at ih
              -- what `insert_into` does
              have hscan2 := insertInto_scan_pre S G parent (pre ++ Node.elem ty a m inner :: ns)
                (fsize pre + f) oa ob pre (Node.elem ty a m inner :: ns) 0 f hpre
              rw [hscan2]
              unfold insertInto
              rw [if_neg (by omega), if_neg (by
                have : f - 1 ≤ fsize inner := by
                  have := congrArg List.length hitk
                  simp only [List.length_append, List.length_take, List.length_drop, ftoks_length] at this
                  omega
                simp only [Node.size_elem]; omega)]
              simp only [hS, hE]
              have hoa : (if decide (0 < oa ∧ pre = []) = true then oa - 1 else 0)
                  = (if 0 < oa ∧ pre = [] then oa - 1 else 0) := by
                by_cases h1 : 0 < oa ∧ pre = [] <;> simp [h1]
              have hob : (if decide (0 < ob ∧ ns = []) = true then ob - 1 else 0)
                  = (if 0 < ob ∧ ns = [] then ob - 1 else 0) := by
                by_cases h1 : 0 < ob ∧ ns = [] <;> simp [h1]
              rw [hoa, hob, ih]
              simp only [Nat.zero_add, set_mid]
          · simp at h
termination_by rest => sizeOf rest

/-- **`insert_into` undoes `remove_range`**: the gap `F … T` removed from the normal-form child list `level` (open
    `oa` / `ob` levels at its sides, valid as such; valid content of `parent` when there is one) is put back at `F`,
    whatever the shape of the gap, provided the cut at `F` in the remainder does not separate a surrogate pair -/
theorem insert_remove_any (S : Schema) (G : List Node) (hnG : fnorm G = true) (level level' : List Node)
    (F T : Nat) (parent : Option TypeId) (oa ob : Nat) (hn : fnorm level = true) (hFT : F ≤ T)
    (hrm : removeRange level F T 0 level F T = .ok level')
    (hov : openValid S oa ob level = true)
    (hpar : ∀ p, parent = some p → S.validContent p level = true)
    (htk : ftoks G = ((ftoks level).drop F).take (T - F))
    (hal : alignedAt level' F = true) :
    insertInto S G parent level' F 0 level' F oa ob = .ok (some level) := by
  have := insert_remove_scan S G hnG level [] F T level' parent oa ob (by simpa using hn) hFT
    (by simpa using hrm) (by simpa using hov) (by simpa using hpar) (by simpa using htk) (by simpa using hal)
  simpa using this

/-- **the fit guard of `replaceAround_undo` holds by itself** for a valid normal-form document: the gap `gf … gt`,
    removed from `doc.slice(f, t)`, is put back by `insert_at` — provided the cut `insert_at` makes in the remainder
    is pair-aligned (`hal`) -/
theorem gapFitsBack_of_valid (S : Schema) (doc : Node) (f t gf gt : Nat) (old rem gap : Slice)
    (hd : S.checkNode doc = true) (hn : fnorm doc.kids = true)
    (hg : f ≤ gf ∧ gf ≤ gt ∧ gt ≤ t) (ht : t ≤ fsize doc.kids)
    (hsl : doc.slice f t = .ok old) (hgap : doc.slice gf gt = .ok gap)
    (hgc : gap.openStart = 0 ∧ gap.openEnd = 0)
    (hrm : old.removeBetween (gf - f) (gt - f) = .ok rem)
    (hal : alignedAt rem.content (gf - f + rem.openStart) = true) :
    gapFitsBack S doc f t gf gt = true ∧ rem.insertAt S (gf - f) gap.content = .ok (some old) := by
  have hsl' : sliceKids doc.kids f t = .ok old := hsl
  have hgap' : sliceKids doc.kids gf gt = .ok gap := hgap
  have hon := sliceKids_norm doc.kids f t old hn hsl'
  have hgn := sliceKids_norm doc.kids gf gt gap hn hgap'
  have hov := sliceKids_openValid S doc.kids f t old (checkNode_kids hd) hsl'
  have hosz := sliceKids_size doc.kids f t old (by omega) ht hsl'
  have hgclosed : gap = ⟨gap.content, 0, 0⟩ := by
    cases gap; simp at hgc; simp [hgc.1, hgc.2]
  have hGt : ftoks gap.content = ((ftoks doc.kids).drop gf).take (gt - gf) := by
    rw [← Slice.toks_closed, ← hgclosed]
    exact sliceKids_toks doc.kids gf gt gap hg.2.1 (by omega) hgap'
  have hOt := sliceKids_toks doc.kids f t old (by omega) ht hsl'
  have hwin : ftoks gap.content
      = ((ftoks old.content).drop (gf - f + old.openStart)).take (gt - gf) := by
    rw [← slice_window old (gf - f) (gt - gf) (by rw [hosz]; omega), hOt, hGt, List.drop_take,
      List.drop_drop, List.take_take, show f + (gf - f) = gf by omega]
    congr 1
    omega
  have key : rem.insertAt S (gf - f) gap.content = .ok (some old) := by
    have hrs := (removeBetween_size old rem (gf - f) (gt - f) (by omega) hrm).1
    have hbound : ((gf - f : Nat) : Int) ≤ rem.size := by rw [hrs, hosz]; omega
    rw [insertAt_of_le hbound]
    unfold Slice.removeBetween at hrm
    simp only at hrm
    split at hrm
    · simp at hrm
    · split at hrm
      · rename_i c1 hc1
        simp at hrm; subst hrm
        have hc := insert_remove_any S gap.content hgn.1 old.content c1 (gf - f + old.openStart)
          (gt - f + old.openStart) none old.openStart old.openEnd hon.1 (by omega) hc1 hov
          (by intro p hp; simp at hp) (by rw [hwin]; congr 1; omega) hal
        simp only [Slice.insertAtIn, hc]
      · simp at hrm
  refine ⟨?_, key⟩
  simp only [gapFitsBack, hsl, hgap, hrm, key]

end PM
