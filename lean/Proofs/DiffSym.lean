/-
  Proofs/DiffSym.lean — `find_diff_start` / `find_diff_end` do not depend on the order of the two
  fragments (helper lemmas for Props/C20.lean).
-/
import PM.Diff
import Proofs.Diff
namespace PM

theorem lcpLen_comm {α} [DecidableEq α] : ∀ (a b : List α), lcpLen a b = lcpLen b a
  | [], [] => rfl
  | [], _ :: _ => by simp [lcpLen]
  | _ :: _, [] => by simp [lcpLen]
  | x :: xs, y :: ys => by
    simp only [lcpLen, lcpLen_comm xs ys]
    by_cases h : x = y
    · simp [h]
    · simp [h, Ne.symm h]

theorem Node.sameMarkup_comm (x y : Node) : x.sameMarkup y = y.sameMarkup x := by
  rw [Bool.eq_iff_iff]
  cases x <;> cases y <;> simp [Node.sameMarkup] <;> grind

theorem diffStart_comm (a b : List Node) (pos : Nat) : diffStart a b pos = diffStart b a pos := by
  fun_induction diffStart a b pos with
  | case1 => simp [diffStart]
  | case2 => simp [diffStart]
  | case3 => simp [diffStart]
  | case4 x xs y ys pos hm =>
    conv => rhs; unfold diffStart
    rw [Node.sameMarkup_comm] at hm
    simp [hm]
  | case5 xs ys pos s m s' m' hs =>
    rename_i hm
    conv => rhs; unfold diffStart
    rw [Node.sameMarkup_comm] at hm
    simp only [hm, ne_eq, Ne.symm hs, not_false_eq_true, if_true, lcpLen_comm s' s]
    simp
  | case6 xs ys pos s m s' m' hs hm ih =>
    conv => rhs; unfold diffStart
    rw [Node.sameMarkup_comm] at hm
    simp only [ne_eq, Decidable.not_not] at hs
    subst hs
    simp [hm, ih]
  | case7 xs ys pos t a m k t' a' m' k' r hr hm ih =>
    conv => rhs; unfold diffStart
    rw [Node.sameMarkup_comm] at hm
    have : (if fsize k' ≠ 0 ∨ fsize k ≠ 0 then diffStart k' k (pos + 1) else none) = some r := by
      by_cases hz : fsize k ≠ 0 ∨ fsize k' ≠ 0
      · rw [if_pos (Or.symm hz), ← ih]; simpa [hz] using hr
      · simp [hz] at hr
    simp [hm, this]
  | case8 xs ys pos t a m k t' a' m' k' hr hm ih ih2 =>
    conv => rhs; unfold diffStart
    rw [Node.sameMarkup_comm] at hm
    have : (if fsize k' ≠ 0 ∨ fsize k ≠ 0 then diffStart k' k (pos + 1) else none) = none := by
      by_cases hz : fsize k ≠ 0 ∨ fsize k' ≠ 0
      · rw [if_pos (Or.symm hz), ← ih]; simpa [hz] using hr
      · rw [if_neg (fun h => hz (Or.symm h))]
    have hsz : fsize k = fsize k' := by
      split at hr
      · exact fsize_eq_of_diffStart_none _ _ _ hr
      · omega
    simp only [Node.size_elem] at ih2 ⊢
    simp only [hm, this]
    rw [ih2, hsz]
    simp
  | case9 x xs y ys pos hm h1 h2 ih =>
    obtain ⟨hxy, t, a, m, hx⟩ := diffStart_case9 x y (by simpa using hm) h1 h2
    subst hxy; subst hx
    conv => rhs; unfold diffStart
    simp only [Node.size_leaf] at ih ⊢
    simp only [Node.sameMarkup_self, Bool.not_true, Bool.false_eq_true, if_false]
    exact ih

theorem diffEnd_comm (a b : List Node) (pa pb : Nat) :
    diffEnd a b pa pb = (diffEnd b a pb pa).map Prod.swap := by
  unfold diffEnd
  rw [diffStart_comm]
  cases diffStart (fmirror b) (fmirror a) 0 <;> simp

end PM
