/-
  Proofs/SplitSuccess.lean — **an approved split applies** (C12): the structural half.

  `Transform.split(pos, depth)` puts the slice `⟨[w, w], depth, depth⟩` (`w` = the nest of empty copies of
  the `depth` innermost ancestors of `pos`) over the empty range `pos … pos`.  `replace` descends to the
  node `depth` levels above `pos` (`Lvl`, Proofs/Level.lean) and rebuilds, along the cut, a left and a right
  half of every ancestor below it; each half is re-validated by `close`.

  `SplitOK S ty L p W XL XR` describes the cut of one child list `L` (of a node of type `ty`) at offset
  `p`, all the way down: `W` is the nest of empty copies of the nodes `p` is inside of, `XL` / `XR` are the
  two halves, both valid content for `ty`, and so on one level down.  From it:
  `twoWay_splitL` / `twoWay_splitR` (the two joins `replace_three_way` performs against the empty nest
  give exactly `XL` and `XR`), `atLevel_split` (the level above), `replaceKids_split` (the whole replace).
  The bridge from `can_split` (a walk along the resolved path) to `SplitOK` is in the second half of the file.
-/
import PM.Step
import PM.Structure
import PM.StructEdit
import Proofs.Reinsert
import Proofs.MarkupSuccess
import Proofs.MarkSuccess
import Proofs.Level
import Proofs.Structure2
namespace PM

/-! ### small additions to the replace lemmas -/

theorem twoWay_zero (S : Schema) (L R : List Node) (t : Nat) (rest : List Node)
    (h : splitRight R t = some (.flat rest)) : twoWay S L 0 R t = .ok rest := by
  cases L <;> (unfold twoWay; simp [h])

/-- a text child may be exchanged for another one with the same marks in a normal-form list -/
theorem fnorm_set_text {s s' : List Nat} {m : Marks} (hs' : s' ≠ []) {pre ns : List Node}
    (hl : fnorm (pre ++ .text s m :: ns) = true) : fnorm (pre ++ .text s' m :: ns) = true := by
  simp only [fnorm, fnormKids_append, fnormKids_cons, Bool.and_eq_true] at hl ⊢
  refine ⟨⟨hl.1.1, ?_, hl.1.2.2⟩, by rw [chainOk_set_sameKind (sameKind_text s s' m)]; exact hl.2⟩
  simpa using hs'

/-! ### the cut of a child list, all the way down -/

inductive SplitOK (S : Schema) : TypeId → List Node → Nat → List Node → List Node → List Node → Prop
  /-- the cut falls between two children -/
  | edge {ty : TypeId} {pre post : List Node} :
      S.validContent ty pre = true → S.validContent ty post = true →
      SplitOK S ty (pre ++ post) (fsize pre) [] pre post
  /-- the cut falls inside a text child -/
  | text {ty : TypeId} {pre post : List Node} {s : List Nat} {m : Marks} {k : Nat} :
      0 < k → k < s.length → splitOk s k = true →
      S.validContent ty (pre ++ [.text (s.take k) m]) = true →
      S.validContent ty (.text (s.drop k) m :: post) = true →
      SplitOK S ty (pre ++ .text s m :: post) (fsize pre + k) []
        (pre ++ [.text (s.take k) m]) (.text (s.drop k) m :: post)
  /-- the cut goes through an element child -/
  | deep {ty tyC : TypeId} {a : Attrs} {m : Marks} {pre post kC W XL XR : List Node} {p : Nat} :
      SplitOK S tyC kC p W XL XR →
      S.validContent ty (pre ++ [.elem tyC a m XL]) = true →
      S.validContent ty (.elem tyC a m XR :: post) = true →
      SplitOK S ty (pre ++ .elem tyC a m kC :: post) (fsize pre + 1 + p) [.elem tyC a m W]
        (pre ++ [.elem tyC a m XL]) (.elem tyC a m XR :: post)

namespace SplitOK
variable {S : Schema} {ty : TypeId} {L W XL XR : List Node} {p : Nat}

theorem valid (h : SplitOK S ty L p W XL XR) :
    S.validContent ty XL = true ∧ S.validContent ty XR = true := by
  cases h with
  | edge h1 h2 => exact ⟨h1, h2⟩
  | text _ _ _ h1 h2 => exact ⟨h1, h2⟩
  | deep _ h1 h2 => exact ⟨h1, h2⟩

/-- the nest is as deep as the position, and the position lies in the list -/
theorem depth (h : SplitOK S ty L p W XL XR) :
    depthAt L p = spineL W ∧ p ≤ fsize L ∧ fsize W = 2 * spineL W ∧ spineR W = spineL W := by
  induction h with
  | @edge ty pre post _ _ =>
    have := depthAt_append_pre pre post 0
    simp only [Nat.add_zero] at this
    refine ⟨by rw [this]; cases post <;> simp [spineL], by simp [fsize_append], by simp [spineL],
      by simp [spineL, spineR]⟩
  | @text ty pre post s m k hk0 hk _ _ _ =>
    refine ⟨?_, by simp [fsize_append]; omega, by simp [spineL], by simp [spineL, spineR]⟩
    rw [depthAt_append_pre, depthAt_nonelem_cons _ _ _ (by simpa using hk) (by simp)]
    simp [spineL]
  | @deep ty tyC a m pre post kC W XL XR p _ _ _ ih =>
    obtain ⟨i1, i2, i3, i4⟩ := ih
    refine ⟨?_, by simp [fsize_append]; omega, by simp; omega, by simp [i4]⟩
    rw [Nat.add_assoc, depthAt_append_pre, depthAt_elem_cons _ _ _ _ _ _ (by omega) (by omega)]
    simp [i1]

theorem norm (h : SplitOK S ty L p W XL XR) (hn : fnorm L = true) :
    fnorm XL = true ∧ fnorm XR = true := by
  induction h with
  | edge _ _ => exact ⟨fnorm_append_left hn, fnorm_append_right hn⟩
  | @text ty pre post s m k hk0 hk _ _ _ =>
    have h1 : fnorm (pre ++ .text (s.take k) m :: post) = true :=
      fnorm_set_text (by intro e; have := congrArg List.length e
                         rw [List.length_take, List.length_nil] at this; omega) hn
    have h2 : fnorm (pre ++ .text (s.drop k) m :: post) = true :=
      fnorm_set_text (by intro e; have := congrArg List.length e
                         rw [List.length_drop, List.length_nil] at this; omega) hn
    refine ⟨?_, fnorm_append_right h2⟩
    have : pre ++ .text (s.take k) m :: post = (pre ++ [.text (s.take k) m]) ++ post := by simp
    rw [this] at h1
    exact fnorm_append_left h1
  | @deep ty tyC a m pre post kC W XL XR p _ _ _ ih =>
    have hk : fnorm kC = true := by
      have := (fnorm_cons (fnorm_append_right hn)).1
      rwa [Node.norm_elem] at this
    obtain ⟨i1, i2⟩ := ih hk
    have h1 : fnorm (pre ++ .elem tyC a m XL :: post) = true :=
      fnorm_set_nontext (n := .elem tyC a m kC) rfl rfl (by rw [Node.norm_elem]; exact i1) hn
    have h2 : fnorm (pre ++ .elem tyC a m XR :: post) = true :=
      fnorm_set_nontext (n := .elem tyC a m kC) rfl rfl (by rw [Node.norm_elem]; exact i2) hn
    refine ⟨?_, fnorm_append_right h2⟩
    have : pre ++ .elem tyC a m XL :: post = (pre ++ [.elem tyC a m XL]) ++ post := by simp
    rw [this] at h1
    exact fnorm_append_left h1


/-- the nest, cut in its middle: an element child on every level, nothing beside it -/
theorem splitRight_nest (h : SplitOK S ty L p W XL XR) :
    (W = [] ∧ spineL W = 0) ∨
      ∃ tyC a m W', W = [.elem tyC a m W'] ∧ spineL W = 1 + spineL W' ∧ fsize W' = 2 * spineL W' ∧
        splitRight W (spineL W) = some (.deep (.elem tyC a m W') (spineL W') []) := by
  cases h with
  | edge _ _ => exact .inl ⟨rfl, by simp [spineL]⟩
  | text _ _ _ _ _ => exact .inl ⟨rfl, by simp [spineL]⟩
  | @deep ty tyC a m pre post kC W' XL XR p hin _ _ =>
    obtain ⟨_, _, i3, _⟩ := hin.depth
    refine .inr ⟨tyC, a, m, W', rfl, by simp, i3, ?_⟩
    have := splitRight_elem tyC a m W' [] (1 + spineL W') (by omega) (by omega)
    simpa [spineL] using this

/-- **the left join**: the list up to the cut, joined with the empty nest, is the left half -/
theorem twoWayL (h : SplitOK S ty L p W XL XR) (hn : fnorm L = true) :
    twoWay S L p W (spineL W) = .ok XL := by
  induction h with
  | @edge ty pre post _ _ =>
    have hp := fnormKids_of_fnorm (fnorm_append_left hn)
    have := twoWay_skip_pre S pre post 0 [] (spineL []) hp
    simp only [Nat.add_zero] at this
    rw [this, twoWay_zero S post [] _ [] (by simp [spineL])]
    simp [Except.map]
  | @text ty pre post s m k hk0 hk hso _ _ =>
    have hp := fnormKids_of_fnorm (fnorm_append_left hn)
    rw [twoWay_skip_pre S pre _ k [] _ hp]
    unfold twoWay
    rw [if_neg (by omega), if_neg (by simp; omega)]
    simp [hso, spineL, Except.map]
  | @deep ty tyC a m pre post kC W XL XR p hin _ _ ih =>
    have hp := fnormKids_of_fnorm (fnorm_append_left hn)
    have hk : fnorm kC = true := by
      have := (fnorm_cons (fnorm_append_right hn)).1
      rwa [Node.norm_elem] at this
    obtain ⟨_, hple, hW, _⟩ := hin.depth
    have hs : splitRight [Node.elem tyC a m W] (spineL [Node.elem tyC a m W])
        = some (.deep (.elem tyC a m W) (spineL W) []) := by
      have := splitRight_elem tyC a m W [] (1 + spineL W) (by omega) (by omega)
      simpa [spineL] using this
    rw [Nat.add_assoc, twoWay_skip_pre S pre _ (1 + p) _ _ hp]
    unfold twoWay
    rw [if_neg (by omega), if_neg (by simp; omega)]
    simp only [hs, compatibleContent_self, if_true, Nat.add_sub_cancel_left, ih hk,
      fromArray_of_fnorm (hin.norm hk).1, close_ok_of_valid S tyC a m XL hin.valid.1]
    simp [Except.map]

/-- **the right join**: the empty nest joined with the list from the cut on is the right half -/
theorem twoWayR (h : SplitOK S ty L p W XL XR) (hn : fnorm L = true) :
    twoWay S W (spineL W) L p = .ok XR := by
  induction h with
  | @edge ty pre post _ _ =>
    have hp := fnormKids_of_fnorm (fnorm_append_left hn)
    have := splitRight_skip_pre pre post 0 hp
    simp only [Nat.add_zero] at this
    rw [show spineL ([] : List Node) = 0 by simp [spineL]]
    exact twoWay_zero S [] _ _ post (by rw [this]; simp)
  | @text ty pre post s m k hk0 hk hso _ _ =>
    have hp := fnormKids_of_fnorm (fnorm_append_left hn)
    rw [show spineL ([] : List Node) = 0 by simp [spineL]]
    exact twoWay_zero S [] _ _ _
      (by rw [splitRight_skip_pre pre _ k hp]; exact splitRight_text s m post k (by omega) hk hso)
  | @deep ty tyC a m pre post kC W XL XR p hin _ _ ih =>
    have hp := fnormKids_of_fnorm (fnorm_append_left hn)
    have hk : fnorm kC = true := by
      have := (fnorm_cons (fnorm_append_right hn)).1
      rwa [Node.norm_elem] at this
    obtain ⟨_, hple, hW, _⟩ := hin.depth
    have hs : splitRight (pre ++ Node.elem tyC a m kC :: post) (fsize pre + 1 + p)
        = some (.deep (.elem tyC a m kC) p post) := by
      rw [Nat.add_assoc, splitRight_skip_pre pre _ _ hp,
        splitRight_elem tyC a m kC post (1 + p) (by omega) (by omega)]
      simp
    unfold twoWay
    rw [if_neg (by simp), if_neg (by simp; omega)]
    simp only [hs, compatibleContent_self, if_true]
    have e : spineL [Node.elem tyC a m W] - 1 = spineL W := by simp
    rw [e, ih hk]
    simp only [fromArray_of_fnorm (hin.norm hk).2, close_ok_of_valid S tyC a m XR hin.valid.2]

end SplitOK

/-! ### the level above the cut -/

/-- **the split seen from the node above the cut**: the child the cut goes through is replaced by its
    two halves; the only remaining question is whether the parent accepts the longer child list -/
theorem atLevel_split (S : Schema) {tyC : TypeId} {kC W XL XR : List Node} {p : Nat}
    (h : SplitOK S tyC kC p W XL XR) (tyP : TypeId) (a : Attrs) (m : Marks) (pre post : List Node)
    (hn : fnorm (pre ++ .elem tyC a m kC :: post) = true)
    (hvc : S.validContent tyP (pre ++ .elem tyC a m XL :: .elem tyC a m XR :: post) = true) :
    atLevel S ⟨[.elem tyC a m W, .elem tyC a m W], 1 + spineL W, 1 + spineL W⟩ tyP
      (pre ++ .elem tyC a m kC :: post) (fsize pre + 1 + p) (fsize pre + 1 + p) 0
      = .ok (pre ++ .elem tyC a m XL :: .elem tyC a m XR :: post) := by
  have hp := fnormKids_of_fnorm (fnorm_append_left hn)
  have hk : fnorm kC = true := by
    have := (fnorm_cons (fnorm_append_right hn)).1
    rwa [Node.norm_elem] at this
  obtain ⟨_, hple, hW, _⟩ := h.depth
  obtain ⟨nL, nR⟩ := h.norm hk
  have hs : splitRight (pre ++ Node.elem tyC a m kC :: post) (fsize pre + (1 + p))
      = some (.deep (.elem tyC a m kC) p post) := by
    rw [splitRight_skip_pre pre _ _ hp, splitRight_elem tyC a m kC post (1 + p) (by omega) (by omega)]
    simp
  have hL := h.twoWayL hk
  have hR := h.twoWayR hk
  have hrj : rightJoin S [.elem tyC a m W, .elem tyC a m W] (1 + spineL W) (.deep (.elem tyC a m kC) p post)
      = .ok [.elem tyC a m XR] := by
    unfold rightJoin
    have e : fsize W - spineL W = spineL W := by omega
    simp [compatibleContent_self, e, hR, fromArray_of_fnorm nR, close_ok_of_valid S tyC a m XR h.valid.2]
  have h3 : threeWay S (pre ++ .elem tyC a m kC :: post) (fsize pre + (1 + p)) 0
      [.elem tyC a m W, .elem tyC a m W] (1 + spineL W) (1 + spineL W)
      (pre ++ .elem tyC a m kC :: post) (fsize pre + (1 + p))
      = .ok (pre ++ .elem tyC a m XL :: .elem tyC a m XR :: post) := by
    rw [threeWay_skip_pre S _ _ _ _ _ _ _ _ _ hp]
    unfold threeWay
    rw [if_neg (by omega), if_neg (by simp; omega)]
    simp [hs, compatibleContent_self, threeWay.rightJoinCheck, hL, fromArray_of_fnorm nL,
      close_ok_of_valid S tyC a m XL h.valid.1, hrj, middle, RSplit.rest, Except.map]
  have hnew : fnorm (pre ++ .elem tyC a m XL :: .elem tyC a m XR :: post) = true := by
    have h2 : fnorm (pre ++ .elem tyC a m XR :: post) = true :=
      fnorm_set_nontext (n := .elem tyC a m kC) rfl rfl (by rw [Node.norm_elem]; exact nR) hn
    simp only [fnorm, fnormKids_append, fnormKids_cons, chainOk_append, Bool.and_eq_true] at h2 ⊢
    refine ⟨⟨h2.1.1, by rw [Node.norm_elem]; exact nL, h2.1.2⟩, ⟨h2.2.1.1, ?_⟩, ?_⟩
    · rw [chainOk_cons]; simp [seamOk, adjOk, h2.2.1.2]
    · have := h2.2.2
      cases hl : pre.getLast? <;> simp [seamOk, hl] at this ⊢
      rename_i x
      cases x <;> simp [adjOk]
  unfold atLevel
  simp only [Nat.add_assoc] at h3 ⊢
  simp [h3, Except.map, fromArray_of_fnorm hnew, hvc]

/-- **the whole replace**: below a level `L` of the document (`Lvl`), the split step's slice put over the
    empty range at the cut gives the document with the two halves in place -/
theorem replaceKids_split {S : Schema} {ty tyP : TypeId} {K : List Node} {b nd : Nat}
    {ctx : List Node → List Node} {tyC : TypeId} {kC W XL XR : List Node} {p : Nat}
    {a : Attrs} {m : Marks} {pre post : List Node}
    (hl : Lvl ty K b nd tyP (pre ++ .elem tyC a m kC :: post) ctx)
    (h : SplitOK S tyC kC p W XL XR)
    (hn : fnorm (pre ++ .elem tyC a m kC :: post) = true)
    (hvc : S.validContent tyP (pre ++ .elem tyC a m XL :: .elem tyC a m XR :: post) = true) :
    replaceKids S ty K (b + (fsize pre + 1 + p)) (b + (fsize pre + 1 + p))
      ⟨[.elem tyC a m W, .elem tyC a m W], 1 + spineL W, 1 + spineL W⟩
      = .ok (ctx (pre ++ .elem tyC a m XL :: .elem tyC a m XR :: post)) := by
  obtain ⟨hd, hple, hW, hsr⟩ := h.depth
  have hr := hl.range
  have hq : fsize pre + 1 + p ≤ fsize (pre ++ Node.elem tyC a m kC :: post) := by
    simp [fsize_append]; omega
  obtain ⟨d1, _⟩ := hl.depth (fsize pre + 1 + p) hq
  have hdL : depthAt (pre ++ Node.elem tyC a m kC :: post) (fsize pre + 1 + p) = 1 + spineL W := by
    rw [Nat.add_assoc, depthAt_append_pre, depthAt_elem_cons _ _ _ _ _ _ (by omega) (by omega)]
    simp [hd]
  unfold replaceKids
  rw [if_neg (by simp [inRange]; omega)]
  simp only []
  rw [if_neg (by rw [d1, hdL]; omega), if_neg (by simp),
    if_neg (by simp [Slice.wf, spineR, hsr]), d1, hdL,
    show nd + (1 + spineL W) - (1 + spineL W) = nd by omega,
    hl.outer _ (fsize pre + 1 + p) (fsize pre + 1 + p) (Nat.le_refl _) hq,
    atLevel_split S h tyP a m pre post hn hvc]
  rfl

/-! ### from the resolved path to levels -/

/-- a level one step further down -/
theorem Lvl.snoc {ty tyP : TypeId} {K L : List Node} {b nd : Nat} {ctx : List Node → List Node}
    (h : Lvl ty K b nd tyP L ctx) (pre : List Node) (tyC : TypeId) (aC : Attrs) (mC : Marks)
    (kC post : List Node) (hL : L = pre ++ .elem tyC aC mC kC :: post) (hp : fnormKids pre = true) :
    Lvl ty K (b + fsize pre + 1) (nd + 1) tyC kC (fun X => ctx (pre ++ .elem tyC aC mC X :: post)) := by
  induction h with
  | here ty K =>
    subst hL
    have := Lvl.down ty pre aC mC post hp (Lvl.here tyC kC)
    have e : fsize pre + 1 + 0 = 0 + fsize pre + 1 := by omega
    exact e ▸ this
  | @down tyC0 tyP kidsC0 L b nd ctx ty pre0 aC0 mC0 ns hp0 hl ih =>
    have := Lvl.down ty pre0 aC0 mC0 ns hp0 (ih hL)
    have e : fsize pre0 + 1 + (b + fsize pre + 1) = fsize pre0 + 1 + b + fsize pre + 1 := by omega
    exact e ▸ this

/-- the decomposition of a path level around the child the path continues in -/
theorem Resolved.level_deep {doc : Node} {pos : Nat} {r : RPos} (h : doc.resolve pos = some r)
    (d : Nat) (hd : d < r.depth) :
    ∃ tyC aC mC kC, r.node (d + 1) = .elem tyC aC mC kC ∧
      (r.node d).kids = (r.node d).kids.take (r.index d) ++ .elem tyC aC mC kC :: (r.node d).kids.drop (r.index d + 1) ∧
      r.start (d + 1) = r.start d + fsize ((r.node d).kids.take (r.index d)) + 1 ∧
      r.start (d + 1) ≤ pos ∧ pos ≤ r.start (d + 1) + fsize kC := by
  have R := resolve_resolved h
  obtain ⟨tyC, aC, mC, kC, e⟩ := resolve_node_elem h d hd
  obtain ⟨hc, _⟩ := R.chain d hd
  have hs := kids_split _ _ _ hc
  have hp := (R.entry d (by omega)).pos_eq
  have hin := R.pos_in (d + 1) (by omega)
  rw [e] at hs
  refine ⟨tyC, aC, mC, kC, e, hs, by rw [Resolved.start_succ, hp]; rfl, hin.1, ?_⟩
  have := hin.2
  rw [RPos.end_, e] at this
  exact this

/-- every depth of a resolved position is a level of the document -/
theorem Resolved.lvl {ty0 : TypeId} {a0 : Attrs} {m0 : Marks} {K : List Node} {pos : Nat} {r : RPos}
    (h : (Node.elem ty0 a0 m0 K).resolve pos = some r) (hn : fnorm K = true) :
    ∀ k, k ≤ r.depth → ∃ tyP aP mP ctx, r.node k = .elem tyP aP mP (r.node k).kids ∧
      Lvl ty0 K (r.start k) k tyP (r.node k).kids ctx
  | 0, _ => by
    have R := resolve_resolved h
    refine ⟨ty0, a0, m0, id, by rw [R.node_zero]; rfl, ?_⟩
    rw [R.node_zero]
    exact Lvl.here ty0 K
  | k + 1, hk => by
    obtain ⟨tyP, aP, mP, ctx, _, hl⟩ := Resolved.lvl h hn k (by omega)
    obtain ⟨tyC, aC, mC, kC, e, hs, hst, _, _⟩ := Resolved.level_deep h k (by omega)
    have hnl := hl.norm hn
    have hp : fnormKids ((r.node k).kids.take (r.index k)) = true := by
      rw [hs] at hnl
      exact fnormKids_of_fnorm (fnorm_append_left hnl)
    have := hl.snoc _ tyC aC mC kC _ hs hp
    rw [← hst] at this
    exact ⟨tyC, aC, mC, _, by rw [e]; rfl, by rw [e]; exact this⟩

/-! ### what `can_split` checked -/

theorem splitLoop_conds (S : Schema) (r : RPos) (base : Nat) : ∀ n : Nat,
    splitLoop S r base n = some true →
      (∀ j, base < j → j ≤ base + n →
        S.nodeCanReplace (r.node j) (r.index j + 1) (r.node j).kids.length [] = some true ∧
        S.validContent (S.tyOf (r.node j))
          (cutByIndex (r.node j).kids (r.index j) (r.node j).kids.length) = true) ∧
      base + 1 ≤ r.depth ∧
      S.nodeCanReplaceWith (r.node base) (r.indexAfter base) (r.indexAfter base)
        (S.tyOf (r.node (base + 1))) = some true
  | 0, h => by
    unfold splitLoop at h
    split at h
    · simp at h
    · exact ⟨fun j h1 h2 => by omega, by omega, h⟩
  | n + 1, h => by
    unfold splitLoop at h
    simp only at h
    split at h
    · simp at h
    · split at h
      · simp at h
      · simp at h
      · rename_i hcr
        split at h
        · simp at h
        · rename_i hvc
          obtain ⟨h1, h2, h3⟩ := splitLoop_conds S r base n h
          refine ⟨fun j hj1 hj2 => ?_, h2, h3⟩
          rcases Nat.lt_or_ge j (base + n + 1) with hlt | hge
          · exact h1 j hj1 (by omega)
          · have : j = base + n + 1 := by omega
            subst this
            exact ⟨hcr, by simpa using hvc⟩

theorem canSplitR_conds (S : Schema) (r : RPos) (depth : Nat) (h : canSplitR S r depth = some true) :
    depth ≤ r.depth ∧
    S.nodeCanReplace r.parent (r.index r.depth) r.parent.kids.length [] = some true ∧
    S.validContent (S.tyOf r.parent) (cutByIndex r.parent.kids (r.index r.depth) r.parent.kids.length) = true ∧
    (∀ j, r.depth - depth < j → j < r.depth →
        S.nodeCanReplace (r.node j) (r.index j + 1) (r.node j).kids.length [] = some true ∧
        S.validContent (S.tyOf (r.node j))
          (cutByIndex (r.node j).kids (r.index j) (r.node j).kids.length) = true) ∧
    r.depth - depth + 1 ≤ r.depth ∧
    S.nodeCanReplaceWith (r.node (r.depth - depth)) (r.indexAfter (r.depth - depth))
      (r.indexAfter (r.depth - depth)) (S.tyOf (r.node (r.depth - depth + 1))) = some true := by
  unfold canSplitR at h
  split at h
  · simp at h
  · rename_i hd
    simp only at h
    split at h
    · simp at h
    · split at h
      · simp at h
      · simp at h
      · rename_i hcr
        split at h
        · simp at h
        · rename_i hvc
          obtain ⟨h1, h2, h3⟩ := splitLoop_conds S r (r.depth - depth) (depth - 1) h
          exact ⟨by omega, hcr, by simpa using hvc, fun j hj1 hj2 => h1 j hj1 (by omega), h2, h3⟩

/-! ### content validity from the automaton tests -/

/-- `validContent` looks at the types and the marks of the children only -/
theorem validContent_sig (S : Schema) (ty : TypeId) (l l' : List Node)
    (h : l.map (fun n => (S.tyOf n, n.marks)) = l'.map (fun n => (S.tyOf n, n.marks))) :
    S.validContent ty l = S.validContent ty l' := by
  have h1 : S.types l = S.types l' := by
    have := congrArg (List.map Prod.fst) h
    simpa [Schema.types, List.map_map, Function.comp_def] using this
  have h2 : l.map Node.marks = l'.map Node.marks := by
    have := congrArg (List.map Prod.snd) h
    simpa [List.map_map, Function.comp_def] using this
  have h3 : ∀ (x : List Node), x.all (fun k => (S.nodeType ty).allowsMarks k.marks)
      = (x.map Node.marks).all (fun mk => (S.nodeType ty).allowsMarks mk) := by
    intro x; simp [List.all_map, Function.comp_def]
  simp only [Schema.validContent, h1, h3, h2]

theorem nodeCanReplace_end (S : Schema) (n : Node) (i : Nat)
    (h : S.nodeCanReplace n i n.kids.length [] = some true) :
    (S.dfa (S.tyOf n)).accepts (S.types (n.kids.take i)) = true := by
  unfold Schema.nodeCanReplace at h
  split at h
  · simp at h
  · unfold Schema.canReplace Schema.contentMatchAt at h
    simp only [List.take_nil, List.drop_nil, List.drop_length, Schema.types, List.map_nil, Dfa.run,
      List.all_nil, Bool.and_true] at h
    unfold Dfa.accepts
    simp only [Schema.types]
    split at h
    · simp at h
    · rename_i q hq
      rw [hq]
      simpa using h

theorem allowsMarks_of_valid (S : Schema) (ty : TypeId) (kids : List Node)
    (h : S.validContent ty kids = true) : ∀ k ∈ kids, (S.nodeType ty).allowsMarks k.marks = true := by
  simp only [Schema.validContent, Bool.and_eq_true, List.all_eq_true] at h
  exact h.2

theorem take_mid {α} (pre post : List α) (c : α) : (pre ++ c :: post).take (pre.length + 1) = pre ++ [c] := by
  simp [List.take_append, List.take_of_length_le]
theorem drop_mid {α} (pre post : List α) (c : α) : (pre ++ c :: post).drop (pre.length + 1) = post := by
  simp [List.drop_append]

/-- the left piece of a level: the children before the cut and a stand-in for the child cut through -/
theorem valid_left_piece (S : Schema) (n : Node) (pre post : List Node) (c c' : Node)
    (hk : n.kids = pre ++ c :: post) (hvn : S.validContent (S.tyOf n) n.kids = true)
    (hcr : S.nodeCanReplace n (pre.length + 1) n.kids.length [] = some true)
    (hty : S.tyOf c' = S.tyOf c) (hm : c'.marks = c.marks) :
    S.validContent (S.tyOf n) (pre ++ [c']) = true := by
  rw [validContent_sig S _ (pre ++ [c']) (pre ++ [c]) (by simp [hty, hm])]
  have ha := nodeCanReplace_end S n _ hcr
  have hall := allowsMarks_of_valid S _ _ hvn
  rw [hk, take_mid] at ha
  simp only [Schema.validContent, ha, Bool.true_and, List.all_eq_true]
  intro k hkm
  refine hall k ?_
  rw [hk]
  simp only [List.mem_append, List.mem_cons, List.not_mem_nil, or_false] at hkm ⊢
  rcases hkm with h | h
  · exact .inl h
  · exact .inr (.inl h)

/-- the right piece of a level: a stand-in for the child cut through and the children after it -/
theorem valid_right_piece (S : Schema) (n : Node) (pre post : List Node) (c c' : Node)
    (hk : n.kids = pre ++ c :: post)
    (hvc : S.validContent (S.tyOf n) (cutByIndex n.kids pre.length n.kids.length) = true)
    (hty : S.tyOf c' = S.tyOf c) (hm : c'.marks = c.marks) :
    S.validContent (S.tyOf n) (c' :: post) = true := by
  rw [validContent_sig S _ (c' :: post) (c :: post) (by simp [hty, hm])]
  have e : cutByIndex n.kids pre.length n.kids.length = c :: post := by
    unfold cutByIndex
    rw [List.take_length, hk]
    simp
  rwa [e] at hvc

/-- the node above the cut: it gets one more child of the type of the child cut through -/
theorem valid_base (S : Schema) (n : Node) (pre post : List Node) (c cl cr : Node)
    (hk : n.kids = pre ++ c :: post) (hvn : S.validContent (S.tyOf n) n.kids = true)
    (hcr : S.nodeCanReplaceWith n (pre.length + 1) (pre.length + 1) (S.tyOf c) = some true)
    (htl : S.tyOf cl = S.tyOf c) (hml : cl.marks = c.marks)
    (htr : S.tyOf cr = S.tyOf c) (hmr : cr.marks = c.marks) :
    S.validContent (S.tyOf n) (pre ++ cl :: cr :: post) = true := by
  rw [validContent_sig S _ (pre ++ cl :: cr :: post) (pre ++ c :: c :: post) (by simp [htl, hml, htr, hmr])]
  have hall := allowsMarks_of_valid S _ _ hvn
  unfold Schema.nodeCanReplaceWith at hcr
  split at hcr
  · simp at hcr
  · unfold Schema.canReplaceWith Schema.contentMatchAt at hcr
    simp only [List.isEmpty_nil, Bool.not_true, Bool.false_and, Bool.false_eq_true, if_false] at hcr
    rw [hk, take_mid, drop_mid] at hcr
    have hacc : (S.dfa (S.tyOf n)).accepts (S.types (pre ++ c :: c :: post)) = true := by
      unfold Dfa.accepts
      have e : S.types (pre ++ c :: c :: post) = S.types (pre ++ [c]) ++ (S.tyOf c :: S.types post) := by
        simp [Schema.types]
      rw [e, Dfa.run_append]
      split at hcr
      · simp at hcr
      · rename_i q hq
        rw [hq]
        simp only [Option.bind_some, Dfa.run]
        split at hcr
        · simp at hcr
        · rename_i q1 hq1
          rw [hq1]
          simp only
          split at hcr
          · simp at hcr
          · rename_i q2 hq2
            rw [hq2]
            simpa using hcr
    simp only [Schema.validContent, hacc, Bool.true_and, List.all_eq_true]
    intro k hkm
    refine hall k ?_
    rw [hk]
    simp only [List.mem_append, List.mem_cons] at hkm ⊢
    rcases hkm with h | h | h | h
    · exact .inl h
    · exact .inr (.inl h)
    · exact .inr (.inl h)
    · exact .inr (.inr h)

theorem validContent_of_checkNode (S : Schema) (n : Node) (ty : TypeId) (a : Attrs) (m : Marks)
    (e : n = .elem ty a m n.kids) (h : S.checkNode n = true) : S.validContent (S.tyOf n) n.kids = true := by
  rw [e] at h
  simp only [checkNode_elem, Bool.and_eq_true] at h
  have : S.tyOf n = ty := by rw [e]; rfl
  rw [this]; exact h.1.1

/-! ### `can_split`'s walk along the path gives `SplitOK` -/

/-- `pos_.node(d)`, …, `pos_.node(d + n - 1)` -/
def pathNodes (r : RPos) : Nat → Nat → List Node
  | _, 0 => []
  | d, n + 1 => r.node d :: pathNodes r (d + 1) n

theorem splitNodesFrom_path (r : RPos) : ∀ (n d : Nat), d + n ≤ r.depth + 1 →
    splitNodesFrom r (d : Int) n = some (pathNodes r d n)
  | 0, d, _ => rfl
  | n + 1, d, h => by
    have ih := splitNodesFrom_path r n (d + 1) (by omega)
    have hn : r.nodeI (d : Int) = some (r.node d) := by
      unfold RPos.nodeI
      simp only [show ¬ ((d : Int) < 0) by omega, if_false]
      rw [if_pos (by omega)]
      simp
    simp only [splitNodesFrom, hn, pathNodes]
    have e : (d : Int) + 1 = ((d + 1 : Nat) : Int) := by omega
    rw [e, ih]

/-- the innermost level: the cut falls between two children of the parent or inside a text child -/
theorem splitOK_last (S : Schema) {doc : Node} {pos : Nat} {r : RPos} (h : doc.resolve pos = some r)
    (hvn : S.validContent (S.tyOf r.parent) r.parent.kids = true)
    (hal : r.pairOk = true)
    (h0 : S.nodeCanReplace r.parent (r.index r.depth) r.parent.kids.length [] = some true)
    (h0' : S.validContent (S.tyOf r.parent)
      (cutByIndex r.parent.kids (r.index r.depth) r.parent.kids.length) = true)
    (hg : r.textOffset = 0 ∨
      S.nodeCanReplace r.parent (r.index r.depth + 1) r.parent.kids.length [] = some true) :
    ∃ XL XR, SplitOK S (S.tyOf r.parent) r.parent.kids (pos - r.start r.depth) [] XL XR := by
  have R := resolve_resolved h
  have E := R.entry r.depth (Nat.le_refl _)
  have hpe : (r.entry r.depth).pos = r.start r.depth + fsize (r.parent.kids.take (r.index r.depth)) := E.pos_eq
  have hple := E.pos_le
  have hto : r.textOffset = pos - (r.entry r.depth).pos := by unfold RPos.textOffset; rw [R.pos_eq]
  have hall := allowsMarks_of_valid S _ _ hvn
  by_cases ht : r.textOffset = 0
  · have hp : pos - r.start r.depth = fsize (r.parent.kids.take (r.index r.depth)) := by omega
    have h1 : S.validContent (S.tyOf r.parent) (r.parent.kids.take (r.index r.depth)) = true := by
      have ha := nodeCanReplace_end S _ _ h0
      simp only [Schema.validContent, ha, Bool.true_and, List.all_eq_true]
      exact fun k hk => hall k (List.mem_of_mem_take hk)
    have h2 : S.validContent (S.tyOf r.parent) (r.parent.kids.drop (r.index r.depth)) = true := by
      have e : cutByIndex r.parent.kids (r.index r.depth) r.parent.kids.length
          = r.parent.kids.drop (r.index r.depth) := by
        unfold cutByIndex; rw [List.take_length]
      rwa [e] at h0'
    have := SplitOK.edge (S := S) h1 h2
    rw [List.take_append_drop, ← hp] at this
    exact ⟨_, _, this⟩
  · obtain ⟨s, m, hc, hlt⟩ := R.in_text ht
    have hs := kids_split _ _ _ hc
    have hlen : (r.parent.kids.take (r.index r.depth)).length = r.index r.depth := by
      have : r.index r.depth < r.parent.kids.length := by
        rcases Nat.lt_or_ge (r.index r.depth) r.parent.kids.length with h' | h'
        · exact h'
        · simp [List.getElem?_eq_none h'] at hc
      rw [List.length_take]; omega
    have hso : splitOk s r.textOffset = true := by
      unfold RPos.pairOk at hal
      simpa [ht, hc] using hal
    have hg' := hg.resolve_left ht
    have h1 := valid_left_piece S r.parent _ _ (.text s m) (.text (s.take r.textOffset) m) hs hvn
      (by rw [hlen]; exact hg') rfl rfl
    have h2 := valid_right_piece S r.parent _ _ (.text s m) (.text (s.drop r.textOffset) m) hs
      (by rw [hlen]; exact h0') rfl rfl
    have := SplitOK.text (S := S) (pre := r.parent.kids.take (r.index r.depth))
      (post := r.parent.kids.drop (r.index r.depth + 1)) (by omega) hlt hso h1 h2
    rw [← hs] at this
    have hp : pos - r.start r.depth = fsize (r.parent.kids.take (r.index r.depth)) + r.textOffset := by
      omega
    rw [← hp] at this
    exact ⟨_, _, this⟩

/-- every level between the parent of the cut and the node above the split -/
theorem splitOK_path (S : Schema) {doc : Node} {pos : Nat} {r : RPos} (h : doc.resolve pos = some r)
    (hv : S.checkNode doc = true) (base : Nat)
    (hlast : ∃ XL XR, SplitOK S (S.tyOf r.parent) r.parent.kids (pos - r.start r.depth) [] XL XR)
    (hj : ∀ j, base < j → j < r.depth →
        S.nodeCanReplace (r.node j) (r.index j + 1) (r.node j).kids.length [] = some true ∧
        S.validContent (S.tyOf (r.node j))
          (cutByIndex (r.node j).kids (r.index j) (r.node j).kids.length) = true) :
    ∀ (n d : Nat), d + n = r.depth → base < d →
      ∃ XL XR, SplitOK S (S.tyOf (r.node d)) (r.node d).kids (pos - r.start d)
        (nestOut (pathNodes r (d + 1) n)) XL XR
  | 0, d, hd, _ => by
    have : d = r.depth := by omega
    subst this
    exact hlast
  | n + 1, d, hd, hb => by
    have R := resolve_resolved h
    obtain ⟨XL, XR, ih⟩ := splitOK_path S h hv base hlast hj n (d + 1) (by omega) (by omega)
    obtain ⟨tyC, aC, mC, kC, e, hs, hst, hle, _⟩ := Resolved.level_deep h d (by omega)
    obtain ⟨tyP, aP, mP, kP, eP⟩ := resolve_node_elem h (d - 1) (by omega)
    rw [show d - 1 + 1 = d by omega] at eP
    have hvn : S.validContent (S.tyOf (r.node d)) (r.node d).kids = true :=
      validContent_of_checkNode S _ tyP aP mP (by rw [eP]; rfl) (path_valid S R hv d (by omega))
    obtain ⟨c1, c2⟩ := hj d hb (by omega)
    have hlen : ((r.node d).kids.take (r.index d)).length = r.index d := by
      have := R.index_lt d (by omega)
      rw [List.length_take]; omega
    rw [e] at ih
    replace ih : SplitOK S tyC kC (pos - r.start (d + 1)) (nestOut (pathNodes r (d + 1 + 1) n)) XL XR := ih
    have h1 := valid_left_piece S (r.node d) _ _ (.elem tyC aC mC kC) (.elem tyC aC mC XL) hs hvn
      (by rw [hlen]; exact c1) rfl rfl
    have h2 := valid_right_piece S (r.node d) _ _ (.elem tyC aC mC kC) (.elem tyC aC mC XR) hs
      (by rw [hlen]; exact c2) rfl rfl
    have := SplitOK.deep (S := S) (a := aC) (m := mC) (pre := (r.node d).kids.take (r.index d))
      (post := (r.node d).kids.drop (r.index d + 1)) ih h1 h2
    rw [← hs] at this
    have hp : pos - r.start d = fsize ((r.node d).kids.take (r.index d)) + 1 + (pos - r.start (d + 1)) := by
      omega
    rw [← hp] at this
    have e2 : nestOut (pathNodes r (d + 1) (n + 1))
        = [Node.elem tyC aC mC (nestOut (pathNodes r (d + 1 + 1) n))] := by
      simp only [pathNodes, nestOut, e, Node.withKids]
    rw [e2]
    exact ⟨_, _, this⟩

theorem spineL_pathNest {doc : Node} {pos : Nat} {r : RPos} (h : doc.resolve pos = some r) :
    ∀ (n d : Nat), 1 ≤ d → d + n ≤ r.depth + 1 → spineL (nestOut (pathNodes r d n)) = n
  | 0, d, _, _ => by simp [pathNodes, nestOut, spineL]
  | n + 1, d, h1, h2 => by
    obtain ⟨t, a, m, k, e⟩ := resolve_node_elem h (d - 1) (by omega)
    rw [show d - 1 + 1 = d by omega] at e
    simp only [pathNodes, nestOut, e, Node.withKids, spineL]
    rw [spineL_pathNest h n (d + 1) (by omega) (by omega)]
    omega

/-! ### an approved split applies -/

/-- the structure flag's guard never refuses an empty range -/
theorem contentBetween_empty (doc : Node) (pos : Nat) (r : RPos) (h : doc.resolve pos = some r) :
    contentBetween doc pos pos = some false := by
  unfold contentBetween
  simp only [h, Nat.sub_self]
  simp [contentBetween.climb]

/-- **`can_split` approves ⇒ the split step applies** (valid normal-form document, pair-aligned position,
    `1 ≤ depth`, and `splitGuardR`: a cut inside a text child leaves a left half the parent accepts) -/
theorem split_applies (S : Schema) (ty0 : TypeId) (a0 : Attrs) (m0 : Marks) (K : List Node)
    (pos depth : Nat) (r : RPos) (st : Step)
    (h : (Node.elem ty0 a0 m0 K).resolve pos = some r)
    (hv : S.checkNode (.elem ty0 a0 m0 K) = true) (hn : fnorm K = true)
    (hal : r.pairOk = true) (hg : splitGuardR S r = true) (hd1 : 1 ≤ depth)
    (hc : canSplitR S r depth = some true)
    (hb : splitStep (.elem ty0 a0 m0 K) pos depth = .ok st) :
    ∃ doc', S.apply st (.elem ty0 a0 m0 K) = .ok doc' := by
  have R := resolve_resolved h
  obtain ⟨hdd, c0, c0', cj, _, cb⟩ := canSplitR_conds S r depth hc
  -- the step
  have hnodes : splitNodes r depth = some (pathNodes r (r.depth - depth + 1) depth) := by
    unfold splitNodes
    have e : (r.depth : Int) - (depth : Int) + 1 = ((r.depth - depth + 1 : Nat) : Int) := by omega
    rw [e]
    exact splitNodesFrom_path r depth _ (by omega)
  unfold splitStep at hb
  simp only [h, hnodes, Except.ok.injEq] at hb
  subst hb
  -- the innermost level
  obtain ⟨tyQ, aQ, mQ, kQ, eQ⟩ := resolve_node_elem h (r.depth - 1) (by omega)
  rw [show r.depth - 1 + 1 = r.depth by omega] at eQ
  have hvq : S.validContent (S.tyOf r.parent) r.parent.kids = true :=
    validContent_of_checkNode S _ tyQ aQ mQ (by unfold RPos.parent; rw [eQ]; rfl)
      (path_valid S R hv r.depth (Nat.le_refl _))
  have hg' : r.textOffset = 0 ∨
      S.nodeCanReplace r.parent (r.index r.depth + 1) r.parent.kids.length [] = some true := by
    unfold splitGuardR at hg
    simpa using hg
  have hlast := splitOK_last S h hvq hal c0 c0' hg'
  -- the levels up to the one below the base
  obtain ⟨XL, XR, hsp⟩ := splitOK_path S h hv (r.depth - depth) hlast cj (depth - 1) (r.depth - depth + 1)
    (by omega) (by omega)
  -- the base level
  obtain ⟨tyC, aC, mC, kC, e, hs, hst, hle, _⟩ := Resolved.level_deep h (r.depth - depth) (by omega)
  obtain ⟨tyP, aP, mP, ctx, eP, hl⟩ := Resolved.lvl h hn (r.depth - depth) (by omega)
  have hnb := hl.norm hn
  have hvn : S.validContent (S.tyOf (r.node (r.depth - depth))) (r.node (r.depth - depth)).kids = true :=
    validContent_of_checkNode S _ tyP aP mP eP (path_valid S R hv _ (by omega))
  have hlen : ((r.node (r.depth - depth)).kids.take (r.index (r.depth - depth))).length
      = r.index (r.depth - depth) := by
    have := R.index_lt (r.depth - depth) (by omega)
    rw [List.length_take]; omega
  have hia : r.indexAfter (r.depth - depth) = r.index (r.depth - depth) + 1 := by
    unfold RPos.indexAfter
    rw [if_neg (by simp; omega)]
  rw [e] at hsp cb
  replace hsp : SplitOK S tyC kC (pos - r.start (r.depth - depth + 1))
      (nestOut (pathNodes r (r.depth - depth + 1 + 1) (depth - 1))) XL XR := hsp
  have hvc := valid_base S (r.node (r.depth - depth)) _ _ (.elem tyC aC mC kC) (.elem tyC aC mC XL)
    (.elem tyC aC mC XR) hs hvn (by rw [hlen, ← hia]; exact cb) rfl rfl rfl rfl
  have htyP : S.tyOf (r.node (r.depth - depth)) = tyP := by rw [eP]; rfl
  rw [htyP] at hvc
  rw [hs] at hl hnb
  have hrep := replaceKids_split hl hsp hnb hvc
  -- the slice of the step is the one `replaceKids_split` is about
  have hW := spineL_pathNest h (depth - 1) (r.depth - depth + 1 + 1) (by omega) (by omega)
  have hw : nestOut (pathNodes r (r.depth - depth + 1) depth)
      = [Node.elem tyC aC mC (nestOut (pathNodes r (r.depth - depth + 1 + 1) (depth - 1)))] := by
    obtain ⟨k, rfl⟩ : ∃ k, depth = k + 1 := ⟨depth - 1, by omega⟩
    simp only [pathNodes, nestOut, e, Node.withKids, Nat.add_sub_cancel]
  have hpos : r.start (r.depth - depth) + (fsize ((r.node (r.depth - depth)).kids.take (r.index (r.depth - depth)))
      + 1 + (pos - r.start (r.depth - depth + 1))) = pos := by omega
  rw [hpos, hW, show 1 + (depth - 1) = depth by omega] at hrep
  have hsl : fappend (nestOut (pathNodes r (r.depth - depth + 1) depth))
      (nestOut (pathNodes r (r.depth - depth + 1) depth))
      = [Node.elem tyC aC mC (nestOut (pathNodes r (r.depth - depth + 1 + 1) (depth - 1))),
         Node.elem tyC aC mC (nestOut (pathNodes r (r.depth - depth + 1 + 1) (depth - 1)))] := by
    rw [hw]; simp [fappend, addNode]
  simp only [Schema.apply, if_true, contentBetween_empty _ pos r h, Schema.fromReplace, Schema.replace,
    hsl, hrep, Except.map]
  exact ⟨_, rfl⟩

/-! ### the split step's payload is valid (so the result is, C01) -/

theorem pathNest_openValid (S : Schema) {doc : Node} {pos : Nat} {r : RPos} (h : doc.resolve pos = some r)
    (hv : S.checkNode doc = true) : ∀ (n d : Nat), 1 ≤ d → d + n ≤ r.depth + 1 →
      leftOpenValid S n (nestOut (pathNodes r d n)) = true ∧
      rightOpenValid S n (nestOut (pathNodes r d n)) = true
  | 0, d, _, _ => by simp [pathNodes, nestOut, leftOpenValid, rightOpenValid]
  | n + 1, d, h1, h2 => by
    obtain ⟨t, a, m, k, e⟩ := resolve_node_elem h (d - 1) (by omega)
    rw [show d - 1 + 1 = d by omega] at e
    have hc := path_valid S (resolve_resolved h) hv d (by omega)
    rw [e, checkNode_elem] at hc
    simp only [Bool.and_eq_true] at hc
    obtain ⟨i1, i2⟩ := pathNest_openValid S h hv n (d + 1) (by omega) (by omega)
    simp only [pathNodes, nestOut, e, Node.withKids, leftOpenValid, rightOpenValid, hc.1.2, i1, i2,
      checkKids_nil, Bool.and_self]
    exact ⟨trivial, trivial⟩

/-- the slice `split` builds is a valid payload whenever the split depth does not exceed the depth of the
    position -/
theorem split_payload (S : Schema) {doc : Node} {pos : Nat} {r : RPos} (depth : Nat) (st : Step)
    (h : doc.resolve pos = some r) (hv : S.checkNode doc = true) (hd1 : 1 ≤ depth) (hdd : depth ≤ r.depth)
    (hb : splitStep doc pos depth = .ok st) :
    ∃ sl, st = .replace pos pos sl true ∧ openValid S sl.openStart sl.openEnd sl.content = true := by
  have hnodes : splitNodes r depth = some (pathNodes r (r.depth - depth + 1) depth) := by
    unfold splitNodes
    have e : (r.depth : Int) - (depth : Int) + 1 = ((r.depth - depth + 1 : Nat) : Int) := by omega
    rw [e]
    exact splitNodesFrom_path r depth _ (by omega)
  unfold splitStep at hb
  simp only [h, hnodes, Except.ok.injEq] at hb
  subst hb
  refine ⟨_, rfl, ?_⟩
  obtain ⟨k, rfl⟩ : ∃ k, depth = k + 1 := ⟨depth - 1, by omega⟩
  obtain ⟨t, a, m, kk, e⟩ := resolve_node_elem h (r.depth - (k + 1)) (by omega)
  have hc := path_valid S (resolve_resolved h) hv (r.depth - (k + 1) + 1) (by omega)
  rw [e, checkNode_elem] at hc
  simp only [Bool.and_eq_true] at hc
  obtain ⟨i1, i2⟩ := pathNest_openValid S h hv k (r.depth - (k + 1) + 1 + 1) (by omega) (by omega)
  simp only [pathNodes, nestOut, e, Node.withKids, fappend, addNode, List.isEmpty_cons,
    Bool.false_eq_true, if_false, List.getLast?_singleton, List.singleton_append, List.append_nil,
    openValid, rightOpenValid, hc.1.2, i1, i2, Bool.and_self]

end PM
