/-
  Proofs/SchemaCompile.lean — helper lemmas about the construction of a schema from its spec
  (PM/SchemaCompile.lean): inversion of `compileSchema`, membership in `gatherMarks`, and the
  reading of one word of an `excludes` / `marks` expression (`Names`).
-/
import PM.SchemaCompile
import PM.Marks
namespace PM.SchemaCompile
open PM

/-! ### `seqIdx` -/

theorem seqIdx_ok {α β ε} {f : Nat → α → Except ε β} :
    ∀ (l : List α) (i : Nat) (r : List β), seqIdx f i l = .ok r →
      r.length = l.length ∧ ∀ k (hk : k < l.length) (hk' : k < r.length), f (i + k) l[k] = .ok r[k]
  | [], i, r, h => by
    simp only [seqIdx, Except.ok.injEq] at h
    subst h; simp
  | x :: xs, i, r, h => by
    simp only [seqIdx] at h
    split at h
    · cases h
    · rename_i y hy
      split at h
      · cases h
      · rename_i ys hys
        simp only [Except.ok.injEq] at h
        subst h
        have ih := seqIdx_ok xs (i + 1) ys hys
        refine ⟨by simp [ih.1], ?_⟩
        intro k hk hk'
        cases k with
        | zero => simpa using hy
        | succ k =>
          have := ih.2 k (by simpa using hk) (by simpa using hk')
          simpa [Nat.add_assoc, Nat.add_comm 1 k] using this

theorem seqIdx_ok_iff {α β ε} {f : Nat → α → Except ε β} :
    ∀ (l : List α) (i : Nat), (∃ r, seqIdx f i l = .ok r) ↔
      ∀ k (hk : k < l.length), ∃ y, f (i + k) l[k] = .ok y
  | [], i => by simp [seqIdx]
  | x :: xs, i => by
    have ih := seqIdx_ok_iff (f := f) xs (i + 1)
    constructor
    · rintro ⟨r, h⟩ k hk
      have := (seqIdx_ok _ _ _ h)
      exact ⟨r[k]'(by rw [this.1]; exact hk), this.2 k hk _⟩
    · intro h
      obtain ⟨y, hy⟩ := h 0 (by simp)
      have : ∃ r, seqIdx f (i + 1) xs = .ok r := by
        refine ih.mpr ?_
        intro k hk
        obtain ⟨z, hz⟩ := h (k + 1) (by simpa using hk)
        exact ⟨z, by simpa [Nat.add_assoc, Nat.add_comm 1 k] using hz⟩
      obtain ⟨r, hr⟩ := this
      refine ⟨y :: r, ?_⟩
      simp only [Nat.add_zero, List.getElem_cons_zero] at hy
      simp [seqIdx, hy, hr]

/-! ### One word of an `excludes` / `marks` expression -/

/-- word `w` names mark type `b` (among the mark specs `marks`): it is `b`'s name; or no mark has that
    name and the word is `"_"` or one of `b`'s groups -/
def Names (marks : List MarkSpec) (w : String) (b : MarkSpec) : Prop :=
  b.name = w ∨ ((∀ m ∈ marks, m.name ≠ w) ∧ (w = "_" ∨ w ∈ b.groups))

instance (marks : List MarkSpec) (w : String) (b : MarkSpec) : Decidable (Names marks w b) := by
  unfold Names; infer_instance

theorem findIdx?_name_none (marks : List MarkSpec) (w : String) :
    marks.findIdx? (fun m => m.name == w) = none ↔ ∀ m ∈ marks, m.name ≠ w := by
  simp [List.findIdx?_eq_none_iff]

theorem findIdx?_name_some (marks : List MarkSpec) (hnd : (marks.map (·.name)).Nodup) (w : String)
    (b : Nat) (hb : b < marks.length) :
    marks.findIdx? (fun m => m.name == w) = some b ↔ marks[b].name = w := by
  rw [List.findIdx?_eq_some_iff_getElem]
  constructor
  · rintro ⟨_, h, _⟩
    simpa using h
  · intro h
    refine ⟨hb, by simpa using h, ?_⟩
    intro j hj
    have hjl : j < marks.length := Nat.lt_trans hj hb
    simp only [beq_iff_eq]
    intro hjw
    have e : (marks.map (·.name))[j]'(by simpa using hjl) = (marks.map (·.name))[b]'(by simpa using hb) := by
      simp [hjw, h]
    have : j = b := (List.getElem_inj hnd).mp e
    omega

theorem wordMarks_lt (marks : List MarkSpec) (w : String) (b : Nat) (h : b ∈ wordMarks marks w) :
    b < marks.length := by
  unfold wordMarks at h
  split at h
  · rename_i i hi
    simp only [List.mem_singleton] at h
    subst h
    exact (List.findIdx?_eq_some_iff_getElem.mp hi).1
  · simp only [List.mem_filter, List.mem_range] at h
    exact h.1

/-- exact reading of one word, by first occurrence of a name (no assumption on the spec) -/
theorem mem_wordMarks (marks : List MarkSpec) (w : String) (b : Nat) (hb : b < marks.length) :
    b ∈ wordMarks marks w ↔
      marks.findIdx? (fun m => m.name == w) = some b ∨
      ((∀ m ∈ marks, m.name ≠ w) ∧ (w = "_" ∨ w ∈ marks[b].groups)) := by
  unfold wordMarks
  split
  · rename_i i hi
    have hne : ¬ ∀ m ∈ marks, m.name ≠ w := by
      rw [← findIdx?_name_none, hi]; simp
    rw [hi]
    simp only [List.mem_singleton, Option.some.injEq]
    constructor
    · intro h; exact Or.inl h.symm
    · rintro (h | h)
      · exact h.symm
      · exact absurd h.1 hne
  · rename_i hnone
    have hall := (findIdx?_name_none marks w).mp hnone
    rw [hnone]
    simp only [List.mem_filter, List.mem_range, hb, true_and, List.getElem?_eq_getElem, Option.map_some,
      Option.getD_some, Bool.or_eq_true, beq_iff_eq, List.contains_iff_mem, reduceCtorEq, false_or]
    constructor
    · intro h; exact ⟨hall, h⟩
    · intro h; exact h.2

/-- … and under the dict invariant (names are distinct) -/
theorem mem_wordMarks_names (marks : List MarkSpec) (hnd : (marks.map (·.name)).Nodup) (w : String)
    (b : Nat) (hb : b < marks.length) :
    b ∈ wordMarks marks w ↔ Names marks w marks[b] := by
  rw [mem_wordMarks marks w b hb, findIdx?_name_some marks hnd w b hb]
  rfl

/-! ### `gather_marks` -/

theorem gatherMarks_error (marks : List MarkSpec) :
    ∀ (ws : List String) (e : CompileErr), gatherMarks marks ws = .error e → e = .unknownMark
  | [], e, h => by simp [gatherMarks] at h
  | w :: ws, e, h => by
    simp only [gatherMarks] at h
    split at h
    · cases h; rfl
    · split at h
      · rename_i e' he'
        cases h
        exact gatherMarks_error marks ws _ he'
      · cases h

theorem mem_gatherMarks (marks : List MarkSpec) :
    ∀ (ws : List String) (r : List MarkTypeId), gatherMarks marks ws = .ok r →
      ∀ b, b ∈ r ↔ ∃ w ∈ ws, b ∈ wordMarks marks w
  | [], r, h, b => by
    simp only [gatherMarks, Except.ok.injEq] at h
    subst h; simp
  | w :: ws, r, h, b => by
    simp only [gatherMarks] at h
    split at h
    · cases h
    · rename_i f fs hf
      split at h
      · cases h
      · rename_i rest hrest
        simp only [Except.ok.injEq] at h
        subst h
        have ih := mem_gatherMarks marks ws rest hrest b
        simp only [List.cons_append, List.mem_cons, List.mem_append, ih, exists_eq_or_imp, hf]
        constructor
        · rintro (h | h | h)
          · exact Or.inl (Or.inl h)
          · exact Or.inl (Or.inr h)
          · exact Or.inr h
        · rintro ((h | h) | h)
          · exact Or.inl h
          · exact Or.inr (Or.inl h)
          · exact Or.inr (Or.inr h)

theorem gatherMarks_ok_iff (marks : List MarkSpec) :
    ∀ (ws : List String), (∃ r, gatherMarks marks ws = .ok r) ↔ ∀ w ∈ ws, wordMarks marks w ≠ []
  | [] => by simp [gatherMarks]
  | w :: ws => by
    have ih := gatherMarks_ok_iff marks ws
    simp only [gatherMarks, List.mem_cons, forall_eq_or_imp]
    cases hw : wordMarks marks w with
    | nil => simp
    | cons f fs =>
      simp only [ne_eq, reduceCtorEq, not_false_eq_true, true_and, ← ih]
      cases hr : gatherMarks marks ws with
      | error e => simp
      | ok rest => simp

theorem gatherMarks_lt (marks : List MarkSpec) (ws : List String) (r : List MarkTypeId)
    (h : gatherMarks marks ws = .ok r) (b : Nat) (hb : b ∈ r) : b < marks.length := by
  obtain ⟨w, _, hw⟩ := (mem_gatherMarks marks ws r h b).mp hb
  exact wordMarks_lt marks w b hw

/-- a word finds nothing exactly when it names no mark type -/
theorem wordMarks_eq_nil_iff (marks : List MarkSpec) (w : String) :
    wordMarks marks w = [] ↔
      ∀ b (hb : b < marks.length), ¬ (marks[b].name = w ∨ w = "_" ∨ w ∈ marks[b].groups) := by
  rw [List.eq_nil_iff_forall_not_mem]
  constructor
  · intro h b hb hn
    by_cases hex : ∃ m ∈ marks, m.name = w
    · -- some mark has the name: the first such is found
      cases hf : marks.findIdx? (fun m => m.name == w) with
      | none =>
        obtain ⟨m, hm, hmw⟩ := hex
        exact (findIdx?_name_none marks w).mp hf m hm hmw
      | some i =>
        have hi := (List.findIdx?_eq_some_iff_getElem.mp hf).1
        exact h i ((mem_wordMarks marks w i hi).mpr (Or.inl hf))
    · have hall : ∀ m ∈ marks, m.name ≠ w := fun m hm e => hex ⟨m, hm, e⟩
      rcases hn with hn | hn
      · exact hall _ (List.getElem_mem hb) hn
      · exact h b ((mem_wordMarks marks w b hb).mpr (Or.inr ⟨hall, hn⟩))
  · intro h b hmem
    have hb := wordMarks_lt marks w b hmem
    rcases (mem_wordMarks marks w b hb).mp hmem with hf | ⟨_, hg⟩
    · have := (List.findIdx?_eq_some_iff_getElem.mp hf).2.1
      exact h b hb (Or.inl (by simpa using this))
    · exact h b hb (Or.inr hg)

/-! ### Inversion of `compileSchema` -/

/-- what an accepted spec went through -/
structure Compiled (spec : Spec) (dfas : List Dfa) (S : Schema) : Prop where
  top      : spec.nodes.findIdx? (fun n => n.name == spec.topName) = some S.top
  text     : spec.nodes.findIdx? (fun n => n.name == "text") = some S.textTy
  textAttrs : ∀ h : S.textTy < spec.nodes.length, spec.nodes[S.textTy].attrs = []
  nodesSize : S.nodes.size = spec.nodes.length
  marksSize : S.marks.size = spec.marks.length
  node     : ∀ i (h : i < spec.nodes.length), compileNode spec dfas i spec.nodes[i] = .ok (S.nodeType i)
  mark     : ∀ i (h : i < spec.marks.length), compileMark spec i spec.marks[i] = .ok (S.markType i)

theorem compileSchema_ok {spec : Spec} {dfas : List Dfa} {S : Schema}
    (h : compileSchema spec dfas = .ok S) : Compiled spec dfas S := by
  unfold compileSchema at h
  split at h
  · cases h
  · rename_i top htop
    split at h
    · cases h
    · rename_i textTy htext
      split at h
      · cases h
      · rename_i hattrs
        split at h
        · cases h
        · rename_i nodes hnodes
          split at h
          · cases h
          · rename_i marks hmarks
            simp only [Except.ok.injEq] at h
            subst h
            have hn := seqIdx_ok _ _ _ hnodes
            have hm := seqIdx_ok _ _ _ hmarks
            refine ⟨htop, htext, ?_, by simp [hn.1], by simp [hm.1], ?_, ?_⟩
            · intro hlt
              simp only [hlt, List.getElem?_eq_getElem, Option.map_some, Option.getD_some] at hattrs
              simpa using hattrs
            · intro i hi
              have := hn.2 i hi (by rw [hn.1]; exact hi)
              simp only [Nat.zero_add] at this
              rw [this]
              simp [Schema.nodeType, hn.1, hi]
            · intro i hi
              have := hm.2 i hi (by rw [hm.1]; exact hi)
              simp only [Nat.zero_add] at this
              rw [this]
              simp [Schema.markType, hm.1, hi]

theorem Compiled.top_lt {spec dfas S} (c : Compiled spec dfas S) : S.top < spec.nodes.length :=
  (List.findIdx?_eq_some_iff_getElem.mp c.top).1

theorem Compiled.text_lt {spec dfas S} (c : Compiled spec dfas S) : S.textTy < spec.nodes.length :=
  (List.findIdx?_eq_some_iff_getElem.mp c.text).1

/-- the fields of a compiled node type, read off `compileNode` -/
theorem compileNode_ok {spec : Spec} {dfas : List Dfa} {i : Nat} {ns : NodeSpec} {nt : NodeType}
    (h : compileNode spec dfas i ns = .ok nt) :
    (∀ m ∈ spec.marks, m.name ≠ ns.name) ∧
    nt.name = ns.name ∧ nt.isText = (ns.name == "text") ∧ nt.isInline = ns.isInline ∧
    nt.isLeaf = contentEmpty ns.content ∧ nt.isAtom = (contentEmpty ns.content || ns.atom) ∧
    nt.isolating = ns.isolating ∧ nt.defining = ns.defining ∧ nt.code = ns.code ∧
    nt.attrs = initAttrs ns.attrs ∧
    nt.dfa = (if contentEmpty ns.content then emptyMatch else dfas.getD i emptyMatch) ∧
    nt.inlineContent = inlineContentOf spec.nodes nt.dfa ∧
    markSetOf spec.marks ns.marks nt.inlineContent = .ok nt.markSet := by
  unfold compileNode at h
  split at h
  · cases h
  · rename_i hclash
    simp only at h
    split at h
    · cases h
    · rename_i ms hms
      simp only [Except.ok.injEq] at h
      subst h
      refine ⟨?_, rfl, rfl, rfl, rfl, rfl, rfl, rfl, rfl, rfl, rfl, rfl, hms⟩
      intro m hm e
      apply hclash
      simp only [List.any_eq_true, beq_iff_eq]
      exact ⟨m, hm, e⟩

theorem compileMark_ok {spec : Spec} {i : Nat} {ms : MarkSpec} {mt : MarkType}
    (h : compileMark spec i ms = .ok mt) :
    mt.name = ms.name ∧ mt.inclusive = ms.inclusive ∧ mt.attrs = initAttrs ms.attrs ∧
    (match ms.excludes with
      | none => mt.excluded = [i]
      | some e => if e = "" then mt.excluded = [] else gatherMarks spec.marks (pySplit e) = .ok mt.excluded) := by
  unfold compileMark at h
  cases hx : ms.excludes with
  | none =>
    simp only [hx, Except.ok.injEq] at h
    subst h
    exact ⟨rfl, rfl, rfl, rfl⟩
  | some e =>
    simp only [hx, beq_iff_eq] at h
    by_cases he : e = ""
    · simp only [he, if_true, Except.ok.injEq] at h
      subst h
      exact ⟨rfl, rfl, rfl, by simp [he]⟩
    · simp only [he, if_false] at h
      split at h
      · cases h
      · rename_i l hl
        simp only [Except.ok.injEq] at h
        subst h
        exact ⟨rfl, rfl, rfl, by simp [he, hl]⟩

/-! ### Acceptance -/

/-- the word finds some mark type: a mark of that name, or (`"_"` and there is a mark at all), or a
    mark with that group -/
def Known (marks : List MarkSpec) (w : String) : Prop :=
  ∃ b ∈ marks, b.name = w ∨ w = "_" ∨ w ∈ b.groups

theorem wordMarks_ne_nil_iff (marks : List MarkSpec) (w : String) :
    wordMarks marks w ≠ [] ↔ Known marks w := by
  rw [ne_eq, wordMarks_eq_nil_iff]
  unfold Known
  constructor
  · intro h
    apply Classical.byContradiction
    intro hno
    apply h
    intro b hb hc
    exact hno ⟨marks[b], List.getElem_mem hb, hc⟩
  · rintro ⟨b, hb, hc⟩ hall
    obtain ⟨i, hi, rfl⟩ := List.getElem_of_mem hb
    exact hall i hi hc

/-- an expression all of whose words are known -/
def ExprKnown (marks : List MarkSpec) (e : String) : Prop := ∀ w ∈ pySplit e, Known marks w

theorem gatherMarks_ok_iff_known (marks : List MarkSpec) (e : String) :
    (∃ r, gatherMarks marks (pySplit e) = .ok r) ↔ ExprKnown marks e := by
  rw [gatherMarks_ok_iff]
  unfold ExprKnown
  simp only [wordMarks_ne_nil_iff]

theorem markSetOf_ok_iff (marks : List MarkSpec) (expr : Option String) (ic : Bool) :
    (∃ r, markSetOf marks expr ic = .ok r) ↔
      ∀ e, expr = some e → e ≠ "_" → e ≠ "" → ExprKnown marks e := by
  unfold markSetOf
  cases expr with
  | none => simp; split <;> simp
  | some e =>
    simp only [beq_iff_eq, bne_iff_ne, ne_eq, Option.some.injEq, forall_eq']
    by_cases h1 : e = "_"
    · simp [h1]
    · by_cases h2 : e = ""
      · simp [h2]
      · simp only [h1, if_false, h2, not_false_eq_true, if_true, forall_const]
        rw [← gatherMarks_ok_iff_known]
        cases gatherMarks marks (pySplit e) with
        | error err => simp
        | ok l => simp

theorem compileNode_ok_iff (spec : Spec) (dfas : List Dfa) (i : Nat) (ns : NodeSpec) :
    (∃ nt, compileNode spec dfas i ns = .ok nt) ↔
      (∀ m ∈ spec.marks, m.name ≠ ns.name) ∧
      (∀ e, ns.marks = some e → e ≠ "_" → e ≠ "" → ExprKnown spec.marks e) := by
  unfold compileNode
  by_cases hc : spec.marks.any (fun m => m.name == ns.name) = true
  · simp only [hc, if_true, reduceCtorEq, exists_false, false_iff, not_and]
    intro h
    simp only [List.any_eq_true, beq_iff_eq] at hc
    obtain ⟨m, hm, e⟩ := hc
    exact absurd e (h m hm)
  · simp only [hc, Bool.false_eq_true, if_false]
    have hno : ∀ m ∈ spec.marks, m.name ≠ ns.name := by
      intro m hm e
      apply hc
      simp only [List.any_eq_true, beq_iff_eq]
      exact ⟨m, hm, e⟩
    have key := markSetOf_ok_iff spec.marks ns.marks
      (inlineContentOf spec.nodes (if contentEmpty ns.content then emptyMatch else dfas.getD i emptyMatch))
    cases hm : markSetOf spec.marks ns.marks
      (inlineContentOf spec.nodes (if contentEmpty ns.content then emptyMatch else dfas.getD i emptyMatch)) with
    | error err =>
      rw [hm] at key
      simp only [reduceCtorEq, exists_false, false_iff] at key ⊢
      exact fun h => key h.2
    | ok l =>
      rw [hm] at key
      simp only [Except.ok.injEq, exists_eq', true_iff] at key ⊢
      exact ⟨hno, key⟩

theorem compileMark_ok_iff (spec : Spec) (i : Nat) (ms : MarkSpec) :
    (∃ mt, compileMark spec i ms = .ok mt) ↔
      ∀ e, ms.excludes = some e → e ≠ "" → ExprKnown spec.marks e := by
  unfold compileMark
  cases hx : ms.excludes with
  | none => simp
  | some e =>
    simp only [beq_iff_eq, Option.some.injEq, forall_eq', ne_eq]
    by_cases he : e = ""
    · simp [he]
    · simp only [he, if_false, not_false_eq_true, forall_const]
      rw [← gatherMarks_ok_iff_known]
      cases gatherMarks spec.marks (pySplit e) with
      | error err => simp
      | ok l => simp

/-- what the constructor demands of a spec (node names distinct) -/
structure Accepts (spec : Spec) : Prop where
  top       : ∃ n ∈ spec.nodes, n.name = spec.topName
  text      : ∃ n ∈ spec.nodes, n.name = "text"
  textAttrs : ∀ n ∈ spec.nodes, n.name = "text" → n.attrs = []
  noClash   : ∀ n ∈ spec.nodes, ∀ m ∈ spec.marks, m.name ≠ n.name
  nodeMarks : ∀ n ∈ spec.nodes, ∀ e, n.marks = some e → e ≠ "_" → e ≠ "" → ExprKnown spec.marks e
  excludes  : ∀ m ∈ spec.marks, ∀ e, m.excludes = some e → e ≠ "" → ExprKnown spec.marks e

theorem findIdx?_nodeName_isSome (nodes : List NodeSpec) (w : String) (h : ∃ n ∈ nodes, n.name = w) :
    ∃ i, nodes.findIdx? (fun n => n.name == w) = some i := by
  cases hf : nodes.findIdx? (fun n => n.name == w) with
  | some i => exact ⟨i, rfl⟩
  | none =>
    obtain ⟨n, hn, e⟩ := h
    have := List.findIdx?_eq_none_iff.mp hf n hn
    simp [e] at this

theorem nodeName_of_findIdx? (nodes : List NodeSpec) (w : String) (i : Nat)
    (h : nodes.findIdx? (fun n => n.name == w) = some i) :
    ∃ hi : i < nodes.length, nodes[i].name = w := by
  obtain ⟨hi, hp, _⟩ := List.findIdx?_eq_some_iff_getElem.mp h
  exact ⟨hi, by simpa using hp⟩

theorem compileSchema_ok_iff (spec : Spec) (dfas : List Dfa) (hnd : (spec.nodes.map (·.name)).Nodup) :
    (∃ S, compileSchema spec dfas = .ok S) ↔ Accepts spec := by
  constructor
  · rintro ⟨S, h⟩
    have c := compileSchema_ok h
    obtain ⟨htl, htn⟩ := nodeName_of_findIdx? _ _ _ c.top
    obtain ⟨hxl, hxn⟩ := nodeName_of_findIdx? _ _ _ c.text
    refine ⟨⟨_, List.getElem_mem htl, htn⟩, ⟨_, List.getElem_mem hxl, hxn⟩, ?_, ?_, ?_, ?_⟩
    · intro n hn hname
      obtain ⟨i, hi, rfl⟩ := List.getElem_of_mem hn
      have e : (spec.nodes.map (·.name))[i]'(by simpa using hi) =
          (spec.nodes.map (·.name))[S.textTy]'(by simpa using hxl) := by simp [hname, hxn]
      have : i = S.textTy := (List.getElem_inj hnd).mp e
      subst this
      exact c.textAttrs hxl
    · intro n hn
      obtain ⟨i, hi, rfl⟩ := List.getElem_of_mem hn
      exact ((compileNode_ok_iff spec dfas i _).mp ⟨_, c.node i hi⟩).1
    · intro n hn
      obtain ⟨i, hi, rfl⟩ := List.getElem_of_mem hn
      exact ((compileNode_ok_iff spec dfas i _).mp ⟨_, c.node i hi⟩).2
    · intro m hm
      obtain ⟨i, hi, rfl⟩ := List.getElem_of_mem hm
      exact (compileMark_ok_iff spec i _).mp ⟨_, c.mark i hi⟩
  · intro a
    obtain ⟨top, htop⟩ := findIdx?_nodeName_isSome _ _ a.top
    obtain ⟨textTy, htext⟩ := findIdx?_nodeName_isSome _ _ a.text
    obtain ⟨hxl, hxn⟩ := nodeName_of_findIdx? _ _ _ htext
    have hattrs : ¬ ((spec.nodes[textTy]?.map (fun n => n.attrs.isEmpty)).getD true = false) := by
      simp [hxl, a.textAttrs _ (List.getElem_mem hxl) hxn]
    obtain ⟨nodes, hnodes⟩ := (seqIdx_ok_iff (f := compileNode spec dfas) spec.nodes 0).mpr (by
      intro k hk
      exact (compileNode_ok_iff spec dfas (0 + k) _).mpr
        ⟨a.noClash _ (List.getElem_mem hk), a.nodeMarks _ (List.getElem_mem hk)⟩)
    obtain ⟨marks, hmarks⟩ := (seqIdx_ok_iff (f := compileMark spec) spec.marks 0).mpr (by
      intro k hk
      exact (compileMark_ok_iff spec (0 + k) _).mpr (a.excludes _ (List.getElem_mem hk)))
    refine ⟨{ nodes := nodes.toArray, marks := marks.toArray, top := top, textTy := textTy }, ?_⟩
    unfold compileSchema
    simp only [htop, htext, hnodes, hmarks]
    rw [if_neg hattrs]

/-! ### Refusals have their cause -/

theorem seqIdx_error {α β ε} {f : Nat → α → Except ε β} :
    ∀ (l : List α) (i : Nat) (e : ε), seqIdx f i l = .error e →
      ∃ k, ∃ hk : k < l.length, f (i + k) l[k] = .error e
  | [], i, e, h => by simp [seqIdx] at h
  | x :: xs, i, e, h => by
    simp only [seqIdx] at h
    split at h
    · rename_i e' he'
      cases h
      exact ⟨0, by simp, by simpa using he'⟩
    · split at h
      · rename_i e' he'
        cases h
        obtain ⟨k, hk, hf⟩ := seqIdx_error xs (i + 1) _ he'
        exact ⟨k + 1, by simpa using hk, by simpa [Nat.add_assoc, Nat.add_comm 1 k] using hf⟩
      · cases h

theorem gatherMarks_error_unknown (marks : List MarkSpec) (e : String) (err : CompileErr)
    (h : gatherMarks marks (pySplit e) = .error err) : err = .unknownMark ∧ ¬ ExprKnown marks e := by
  refine ⟨gatherMarks_error _ _ _ h, ?_⟩
  intro hk
  obtain ⟨r, hr⟩ := (gatherMarks_ok_iff_known marks e).mpr hk
  rw [hr] at h
  cases h

theorem markSetOf_error (marks : List MarkSpec) (expr : Option String) (ic : Bool) (err : CompileErr)
    (h : markSetOf marks expr ic = .error err) :
    err = .unknownMark ∧ ∃ e, expr = some e ∧ e ≠ "_" ∧ e ≠ "" ∧ ¬ ExprKnown marks e := by
  unfold markSetOf at h
  cases expr with
  | none =>
    simp only at h
    split at h <;> cases h
  | some e =>
    simp only [beq_iff_eq, bne_iff_ne, ne_eq] at h
    by_cases h1 : e = "_"
    · simp [h1] at h
    · by_cases h2 : e = ""
      · simp [h2] at h
      · simp only [h1, if_false, h2, not_false_eq_true, if_true] at h
        split at h
        · rename_i err' hg
          cases h
          have := gatherMarks_error_unknown _ _ _ hg
          exact ⟨this.1, e, rfl, h1, h2, this.2⟩
        · cases h

theorem compileNode_error {spec : Spec} {dfas : List Dfa} {i : Nat} {ns : NodeSpec} {err : CompileErr}
    (h : compileNode spec dfas i ns = .error err) :
    (err = .nameClash ∧ ∃ m ∈ spec.marks, m.name = ns.name) ∨
    (err = .unknownMark ∧ ∃ e, ns.marks = some e ∧ e ≠ "_" ∧ e ≠ "" ∧ ¬ ExprKnown spec.marks e) := by
  unfold compileNode at h
  split at h
  · rename_i hc
    cases h
    simp only [List.any_eq_true, beq_iff_eq] at hc
    exact Or.inl ⟨rfl, hc⟩
  · simp only at h
    split at h
    · rename_i e' he'
      cases h
      exact Or.inr (markSetOf_error _ _ _ _ he')
    · cases h

theorem compileMark_error {spec : Spec} {i : Nat} {ms : MarkSpec} {err : CompileErr}
    (h : compileMark spec i ms = .error err) :
    err = .unknownMark ∧ ∃ e, ms.excludes = some e ∧ e ≠ "" ∧ ¬ ExprKnown spec.marks e := by
  unfold compileMark at h
  cases hx : ms.excludes with
  | none => simp [hx] at h
  | some e =>
    simp only [hx, beq_iff_eq] at h
    by_cases he : e = ""
    · simp [he] at h
    · simp only [he, if_false] at h
      split at h
      · rename_i err' hg
        cases h
        have := gatherMarks_error_unknown _ _ _ hg
        exact ⟨this.1, e, rfl, he, this.2⟩
      · cases h

/-- the cause of each kind of refusal -/
def Cause (spec : Spec) : CompileErr → Prop
  | .missingTop => ∀ n ∈ spec.nodes, n.name ≠ spec.topName
  | .missingText => ∀ n ∈ spec.nodes, n.name ≠ "text"
  | .textAttrs => ∃ n ∈ spec.nodes, n.name = "text" ∧ n.attrs ≠ []
  | .nameClash => ∃ n ∈ spec.nodes, ∃ m ∈ spec.marks, m.name = n.name
  | .unknownMark =>
    (∃ n ∈ spec.nodes, ∃ e, n.marks = some e ∧ e ≠ "_" ∧ e ≠ "" ∧ ¬ ExprKnown spec.marks e) ∨
    (∃ m ∈ spec.marks, ∃ e, m.excludes = some e ∧ e ≠ "" ∧ ¬ ExprKnown spec.marks e)

theorem compileSchema_error {spec : Spec} {dfas : List Dfa} {err : CompileErr}
    (h : compileSchema spec dfas = .error err) : Cause spec err := by
  unfold compileSchema at h
  split at h
  · rename_i hnone
    cases h
    intro n hn e
    have := List.findIdx?_eq_none_iff.mp hnone n hn
    simp [e] at this
  · split at h
    · rename_i hnone
      cases h
      intro n hn e
      have := List.findIdx?_eq_none_iff.mp hnone n hn
      simp [e] at this
    · rename_i textTy htext
      obtain ⟨hxl, hxn⟩ := nodeName_of_findIdx? _ _ _ htext
      split at h
      · rename_i hattrs
        cases h
        refine ⟨spec.nodes[textTy], List.getElem_mem hxl, hxn, ?_⟩
        intro e
        simp [hxl, e] at hattrs
      · split at h
        · rename_i e' he'
          cases h
          obtain ⟨k, hk, hf⟩ := seqIdx_error _ _ _ he'
          rcases compileNode_error hf with ⟨rfl, m, hm, e⟩ | ⟨rfl, hc⟩
          · exact ⟨_, List.getElem_mem hk, m, hm, e⟩
          · exact Or.inl ⟨_, List.getElem_mem hk, hc⟩
        · split at h
          · rename_i e' he'
            cases h
            obtain ⟨k, hk, hf⟩ := seqIdx_error _ _ _ he'
            obtain ⟨rfl, hc⟩ := compileMark_error hf
            exact Or.inr ⟨_, List.getElem_mem hk, hc⟩
          · cases h
