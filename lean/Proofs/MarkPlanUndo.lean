/-
  Proofs/MarkPlanUndo.lean — "`add_mark` / `remove_mark` emit only steps whose naive inverse is exact"
  (C04, work package `wk-histundo`): the steps the two planners of PM/MarkPlan.lean emit satisfy the
  guards `removeMarkUndoable` / `addMarkUndoable` of PM/MarkUndoGuard.lean for the documents they are
  applied to, provided no inline node in the range has content (`flatInline`) and — for the
  `RemoveMarkStep`s — the guard of finding C04-same-type-mark-order (`sameTypeFree`).

  1. `remove_mark`: a second invariant of the fold (`RmInv2`): every element of `matched` covers a run
     of consecutive inline nodes that all carry its mark, and two elements with the same mark have
     disjoint ranges.
  2. `add_mark`: a second invariant (`AddInv2`): the `removed` ranges with the same mark are disjoint,
     the `added` ranges are disjoint.
  3. from the invariants to the guards, step by step along the application of the plan.
-/
import Proofs.MarkUndo
namespace PM
open MarkGuard

/-! ### 1. `remove_mark` -/

theorem updLast_split {α} (p : α → Bool) (g : α → α) : ∀ (l l' : List α), updLast p g l = some l' →
    ∃ l1 e l2, l = l1 ++ e :: l2 ∧ p e = true ∧ (∀ y ∈ l2, p y = false) ∧ l' = l1 ++ g e :: l2
  | [], l', h => by simp [updLast] at h
  | e :: es, l', h => by
    simp only [updLast] at h
    split at h
    · rename_i es' hes
      simp only [Option.some.injEq] at h
      subst h
      obtain ⟨l1, e0, l2, rfl, hp, hl2, rfl⟩ := updLast_split p g es es' hes
      exact ⟨e :: l1, e0, l2, rfl, hp, hl2, rfl⟩
    · rename_i hnone
      split at h
      · rename_i hp
        simp only [Option.some.injEq] at h
        subst h
        refine ⟨[], e, es, rfl, hp, ?_, rfl⟩
        have : ∀ (l : List α), updLast p g l = none → ∀ y ∈ l, p y = false := by
          intro l
          induction l with
          | nil => intro _ y hy; simp at hy
          | cons a as ih =>
            intro hn y hy
            simp only [updLast] at hn
            split at hn
            · simp at hn
            · rename_i hnn
              split at hn
              · simp at hn
              · rename_i hpa
                rcases List.mem_cons.mp hy with rfl | hy
                · simpa using hpa
                · exact ih hnn y hy
        exact this es hnone
      · simp at h

theorem updLast_none {α} (p : α → Bool) (g : α → α) : ∀ (l : List α), updLast p g l = none →
    ∀ y ∈ l, p y = false
  | [], _, y, hy => by simp at hy
  | a :: as, hn, y, hy => by
    simp only [updLast] at hn
    split at hn
    · simp at hn
    · rename_i hnn
      split at hn
      · simp at hn
      · rename_i hpa
        rcases List.mem_cons.mp hy with rfl | hy
        · simpa using hpa
        · exact updLast_none p g as hnn y hy

/-- relation between an earlier and a later element of `matched` with the same mark -/
def SameStyleSep (e1 e2 : Matched) : Prop := e1.style = e2.style → e1.step < e2.step ∧ e1.to ≤ e2.from_

/-- the invariant inside one inline visit `v` (range `[a, e_)`, `cnt` inline nodes seen before),
    after the marks `done` of `to_remove` -/
structure RmJ (S : Schema) (f t : Nat) (P : List NV) (v : NV) (cnt a e_ : Nat) (done : Marks)
    (M : List Matched) : Prop where
  j1 : ∀ e ∈ M, e.step ≤ cnt + 1
  j2 : ∀ e ∈ M, e.step = cnt + 1 → e.to = e_ ∧ e.style ∈ done
  j3 : ∀ e ∈ M, e.step ≤ cnt → e.to ≤ a
  j3' : ∀ e ∈ M, e.step = cnt → ∀ w ∈ P, S.nodeInline w.node = true → min (w.pos + w.node.size) t ≤ e.to
  j4 : M.Pairwise SameStyleSep
  j5 : ∀ e ∈ M, ∀ w ∈ P ++ [v], S.nodeInline w.node = true → ∀ i, e.from_ ≤ i → i < e.to →
    max w.pos f ≤ i → i < min (w.pos + w.node.size) t → e.style ∈ w.node.marks

theorem removeMarkStyle_inv2 (S : Schema) (f t : Nat) (P : List NV) (v : NV) (cnt a e_ : Nat) (done : Marks)
    (M : List Matched) (x : Mark) (ha : a = max v.pos f)
    (hP : ∀ w ∈ P, S.nodeInline w.node = true → w.pos + w.node.size ≤ v.pos)
    (hJ : RmJ S f t P v cnt a e_ done M) (hx : x ∉ done) (hxv : x ∈ v.node.marks) :
    RmJ S f t P v cnt a e_ (done ++ [x]) (removeMarkStyle a e_ (cnt + 1) M x) := by
  unfold removeMarkStyle
  split
  · rename_i M' hM'
    obtain ⟨l1, e0, l2, rfl, hp, hl2, rfl⟩ := updLast_split _ _ M M' hM'
    simp only [Nat.add_sub_cancel, Bool.and_eq_true, beq_iff_eq] at hp
    obtain ⟨hp1, hp2⟩ := hp
    have he0 : e0 ∈ l1 ++ e0 :: l2 := by simp
    have hmem : ∀ e ∈ l1 ++ { e0 with to := e_, step := cnt + 1 } :: l2,
        e = { e0 with to := e_, step := cnt + 1 } ∨ e ∈ l1 ++ e0 :: l2 := by
      intro e he
      simp only [List.mem_append, List.mem_cons] at he ⊢
      rcases he with h | h | h
      · exact .inr (.inl h)
      · exact .inl h
      · exact .inr (.inr (.inr h))
    constructor
    · intro e he
      rcases hmem e he with rfl | h
      · simp
      · exact hJ.j1 e h
    · intro e he hs
      rcases hmem e he with rfl | h
      · exact ⟨rfl, by simp [hp2]⟩
      · obtain ⟨h1, h2⟩ := hJ.j2 e h hs
        exact ⟨h1, List.mem_append_left _ h2⟩
    · intro e he hs
      rcases hmem e he with rfl | h
      · simp only at hs; omega
      · exact hJ.j3 e h hs
    · intro e he hs
      rcases hmem e he with rfl | h
      · simp only at hs; omega
      · exact hJ.j3' e h hs
    · have hold := hJ.j4
      rw [List.pairwise_append] at hold ⊢
      obtain ⟨o1, o2, o3⟩ := hold
      rw [List.pairwise_cons] at o2 ⊢
      refine ⟨o1, ⟨fun y hy hst => ?_, o2.2⟩, fun a1 ha1 b hb => ?_⟩
      · -- a later element with the same mark would have been extended in this very visit
        exfalso
        have hst' : e0.style = y.style := hst
        obtain ⟨q1, _⟩ := o2.1 y hy hst'
        have hy' : y ∈ l1 ++ e0 :: l2 := by simp [hy]
        have := hJ.j1 y hy'
        have hys : y.step = cnt + 1 := by omega
        have := (hJ.j2 y hy' hys).2
        rw [← hst', ← hp2] at this
        exact hx this
      · rcases List.mem_cons.mp hb with rfl | hb
        · intro hst
          obtain ⟨q1, q2⟩ := o3 a1 ha1 e0 (by simp) hst
          exact ⟨by simp only; omega, q2⟩
        · exact o3 a1 ha1 b (List.mem_cons_of_mem _ hb)
    · intro e he w hw hin i h1 h2 h3 h4
      rcases hmem e he with rfl | h
      · simp only at h1 h2 ⊢
        by_cases hi : i < e0.to
        · exact hJ.j5 e0 he0 w hw hin i h1 hi h3 h4
        · rcases List.mem_append.mp hw with hw | hw
          · have := hJ.j3' e0 he0 hp1 w hw hin
            omega
          · simp only [List.mem_singleton] at hw
            subst hw
            rw [← hp2]; exact hxv
      · exact hJ.j5 e h w hw hin i h1 h2 h3 h4
  · rename_i hnone
    have hmem : ∀ e ∈ M ++ [(⟨x, a, e_, cnt + 1⟩ : Matched)], e = ⟨x, a, e_, cnt + 1⟩ ∨ e ∈ M := by
      intro e he
      rcases List.mem_append.mp he with h | h
      · exact .inr h
      · exact .inl (List.mem_singleton.mp h)
    constructor
    · intro e he
      rcases hmem e he with rfl | h
      · simp
      · exact hJ.j1 e h
    · intro e he hs
      rcases hmem e he with rfl | h
      · exact ⟨rfl, by simp⟩
      · obtain ⟨h1, h2⟩ := hJ.j2 e h hs
        exact ⟨h1, List.mem_append_left _ h2⟩
    · intro e he hs
      rcases hmem e he with rfl | h
      · simp only at hs; omega
      · exact hJ.j3 e h hs
    · intro e he hs
      rcases hmem e he with rfl | h
      · simp only at hs; omega
      · exact hJ.j3' e h hs
    · rw [List.pairwise_append]
      refine ⟨hJ.j4, List.pairwise_singleton _ _, fun a1 ha1 b hb hst => ?_⟩
      simp only [List.mem_singleton] at hb
      subst hb
      have h1 := hJ.j1 a1 ha1
      have hne : a1.step ≠ cnt + 1 := fun hs => by
        have := (hJ.j2 a1 ha1 hs).2
        rw [hst] at this
        exact hx this
      exact ⟨by simp only; omega, hJ.j3 a1 ha1 (by omega)⟩
    · intro e he w hw hin i h1 h2 h3 h4
      rcases hmem e he with rfl | h
      · simp only at h1 h2 ⊢
        rcases List.mem_append.mp hw with hw | hw
        · have := hP w hw hin
          omega
        · simp only [List.mem_singleton] at hw
          subst hw
          exact hxv
      · exact hJ.j5 e h w hw hin i h1 h2 h3 h4

theorem removeMarkStyle_fold2 (S : Schema) (f t : Nat) (P : List NV) (v : NV) (cnt a e_ : Nat)
    (ha : a = max v.pos f) (hP : ∀ w ∈ P, S.nodeInline w.node = true → w.pos + w.node.size ≤ v.pos) :
    ∀ (xs done : Marks) (M : List Matched), RmJ S f t P v cnt a e_ done M → xs.Nodup →
      (∀ x ∈ xs, x ∉ done ∧ x ∈ v.node.marks) →
      RmJ S f t P v cnt a e_ (done ++ xs) (xs.foldl (removeMarkStyle a e_ (cnt + 1)) M)
  | [], done, M, hJ, _, _ => by simpa using hJ
  | x :: xs, done, M, hJ, hnd, hxs => by
    obtain ⟨hx1, hnd'⟩ := List.nodup_cons.mp hnd
    have h1 := removeMarkStyle_inv2 S f t P v cnt a e_ done M x ha hP hJ (hxs x (by simp)).1 (hxs x (by simp)).2
    have := removeMarkStyle_fold2 S f t P v cnt a e_ ha hP xs (done ++ [x]) _ h1 hnd' (fun y hy => by
      refine ⟨fun hm => ?_, (hxs y (by simp [hy])).2⟩
      rcases List.mem_append.mp hm with hm | hm
      · exact (hxs y (by simp [hy])).1 hm
      · simp only [List.mem_singleton] at hm
        subst hm
        exact hx1 hy)
    simpa using this

/-- the second invariant of the `remove_mark` walk after the visits `P`; `cnt` = number of inline
    nodes seen -/
structure RmInv2 (S : Schema) (f t : Nat) (P : List NV) (M : List Matched) (cnt : Nat) : Prop where
  step_le : ∀ e ∈ M, e.step ≤ cnt
  to_le : ∀ e ∈ M, ∃ w ∈ P, S.nodeInline w.node = true ∧ e.to ≤ max (w.pos + w.node.size) f
  active : ∀ e ∈ M, e.step = cnt → ∀ w ∈ P, S.nodeInline w.node = true → min (w.pos + w.node.size) t ≤ e.to
  pair : M.Pairwise SameStyleSep
  carry : ∀ e ∈ M, ∀ w ∈ P, S.nodeInline w.node = true → ∀ i, e.from_ ≤ i → i < e.to →
    max w.pos f ≤ i → i < min (w.pos + w.node.size) t → e.style ∈ w.node.marks

theorem dedupMarks_nodup : ∀ l : Marks, (dedupMarks l).Nodup
  | [] => by simp [dedupMarks]
  | x :: xs => by
    simp only [dedupMarks, List.nodup_cons, List.mem_filter, bne_self_eq_false, Bool.false_eq_true,
      and_false, not_false_eq_true, true_and]
    exact (dedupMarks_nodup xs).sublist List.filter_sublist

theorem toRemove_nodup (sel : MarkSel) (marks : Marks) (h : marks.Nodup) : (sel.toRemove marks).Nodup := by
  cases sel with
  | exact m => simp only [MarkSel.toRemove]; split <;> simp
  | type ty => exact dedupMarks_nodup _
  | all => exact h

theorem toRemove_sub (sel : MarkSel) (marks : Marks) (x : Mark) (h : x ∈ sel.toRemove marks) : x ∈ marks := by
  cases sel with
  | exact m =>
    simp only [MarkSel.toRemove] at h
    split at h
    · rename_i hin
      simp only [List.mem_singleton] at h
      subst h
      exact (isInSet_iff x marks).mp hin
    · simp at h
  | type ty =>
    simp only [MarkSel.toRemove, mem_dedupMarks, List.mem_filter] at h
    exact h.1
  | all => exact h

theorem removeMarkVisit_inv2 (S : Schema) (f t : Nat) (sel : MarkSel) (P : List NV) (M : List Matched)
    (cnt : Nat) (v : NV) (hI : RmInv2 S f t P M cnt)
    (hord : ∀ w ∈ P, w.pos + w.node.ownLen ≤ v.pos)
    (hleaf : ∀ w ∈ P, S.nodeInline w.node = true → w.node.isLeaf = true)
    (hnd : v.node.marks.Nodup) :
    RmInv2 S f t (P ++ [v]) (removeMarkVisit S f t sel (M, cnt) v).1 (removeMarkVisit S f t sel (M, cnt) v).2 := by
  unfold removeMarkVisit
  by_cases hin : S.nodeInline v.node = true
  · simp only [hin, Bool.not_true, Bool.false_eq_true, if_false]
    have hP : ∀ w ∈ P, S.nodeInline w.node = true → w.pos + w.node.size ≤ v.pos := by
      intro w hw hwi
      have := hord w hw
      rw [Node.ownLen_of_isLeaf w.node (hleaf w hw hwi)] at this
      omega
    have hJ0 : RmJ S f t P v cnt (max v.pos f) (min (v.pos + v.node.size) t) [] M := by
      constructor
      · intro e he; have := hI.step_le e he; omega
      · intro e he hs; have := hI.step_le e he; omega
      · intro e he _
        obtain ⟨w, hw, hwi, hle⟩ := hI.to_le e he
        have := hP w hw hwi
        omega
      · exact hI.active
      · exact hI.pair
      · intro e he w hw hwi i h1 h2 h3 h4
        rcases List.mem_append.mp hw with hw | hw
        · exact hI.carry e he w hw hwi i h1 h2 h3 h4
        · simp only [List.mem_singleton] at hw
          subst hw
          obtain ⟨w', hw', hwi', hle⟩ := hI.to_le e he
          have := hP w' hw' hwi'
          omega
    have hJ := removeMarkStyle_fold2 S f t P v cnt (max v.pos f) (min (v.pos + v.node.size) t) rfl hP
      (sel.toRemove v.node.marks) [] M hJ0 (toRemove_nodup sel _ hnd)
      (fun x hx => ⟨by simp, toRemove_sub sel _ x hx⟩)
    constructor
    · exact hJ.j1
    · intro e he
      refine ⟨v, by simp, hin, ?_⟩
      by_cases hs : e.step = cnt + 1
      · rw [(hJ.j2 e he hs).1]; omega
      · have := hJ.j1 e he
        have := hJ.j3 e he (by omega)
        omega
    · intro e he hs w hw hwi
      rw [(hJ.j2 e he hs).1]
      rcases List.mem_append.mp hw with hw | hw
      · have := hP w hw hwi
        omega
      · simp only [List.mem_singleton] at hw
        subst hw
        exact Nat.le_refl _
    · exact hJ.j4
    · exact hJ.j5
  · simp only [hin, Bool.not_false, if_true]
    constructor
    · exact hI.step_le
    · intro e he
      obtain ⟨w, hw, h⟩ := hI.to_le e he
      exact ⟨w, List.mem_append_left _ hw, h⟩
    · intro e he hs w hw hwi
      rcases List.mem_append.mp hw with hw | hw
      · exact hI.active e he hs w hw hwi
      · simp only [List.mem_singleton] at hw; subst hw; exact absurd hwi hin
    · exact hI.pair
    · intro e he w hw hwi
      rcases List.mem_append.mp hw with hw | hw
      · exact hI.carry e he w hw hwi
      · simp only [List.mem_singleton] at hw; subst hw; exact absurd hwi hin

theorem removeMarkVisit_fold2 (S : Schema) (f t : Nat) (sel : MarkSel) :
    ∀ (rest P : List NV) (st : List Matched × Nat), RmInv2 S f t P st.1 st.2 →
    (P ++ rest).Pairwise (fun v w => v.pos + v.node.ownLen ≤ w.pos) →
    (∀ w ∈ P ++ rest, S.nodeInline w.node = true → w.node.isLeaf = true) →
    (∀ w ∈ P ++ rest, w.node.marks.Nodup) →
    RmInv2 S f t (P ++ rest) (rest.foldl (removeMarkVisit S f t sel) st).1
      (rest.foldl (removeMarkVisit S f t sel) st).2
  | [], P, st, hI, _, _, _ => by simpa using hI
  | v :: rest, P, st, hI, hpw, hleaf, hnd => by
    have hpw' : ((P ++ [v]) ++ rest).Pairwise (fun v w => v.pos + v.node.ownLen ≤ w.pos) := by
      simpa using hpw
    have hord : ∀ w ∈ P, w.pos + w.node.ownLen ≤ v.pos := by
      intro w hw
      exact (List.pairwise_append.mp hpw).2.2 w hw v (List.mem_cons_self ..)
    have h1 := removeMarkVisit_inv2 S f t sel P st.1 st.2 v hI hord
      (fun w hw => hleaf w (List.mem_append_left _ hw)) (hnd v (by simp))
    have := removeMarkVisit_fold2 S f t sel rest (P ++ [v]) (removeMarkVisit S f t sel st v) h1 hpw'
      (by simpa using hleaf) (by simpa using hnd)
    simpa using this

/-- what the elements of `matched` cover, read off the tokens of the document -/
theorem planRemove_matched (S : Schema) (doc : Node) (f t : Nat) (sel : MarkSel)
    (hv : S.checkNode doc = true) (hflat : flatInline S doc = true) :
    let M := ((S.docVisits doc f t).foldl (removeMarkVisit S f t sel) ([], 0)).1
    (∀ e ∈ M, f ≤ e.from_ ∧ e.to ≤ t) ∧ M.Pairwise SameStyleSep ∧
    ∀ e ∈ M, ∀ i, e.from_ ≤ i → i < e.to → i < (ftoks doc.kids).length →
      isInlineTok S (tokD doc i) = true →
      e.style ∈ (tokD doc i).marks ∧ isAtomTok S (tokD doc i) = true := by
  intro M
  have hpw := (nodesBetweenP_order doc.kids (S.tyOf doc) f t 0 0).2
  have hI1 : RmInv S f t sel (S.docVisits doc f t) M := by
    have := removeMarkVisit_fold S f t sel (S.docVisits doc f t) [] ([], 0)
      ⟨by simp, by simp⟩ (by simpa [Schema.docVisits] using hpw)
    simpa using this
  have hI2 := removeMarkVisit_fold2 S f t sel (S.docVisits doc f t) [] ([], 0)
    ⟨by simp, by simp, by simp, List.Pairwise.nil, by simp⟩ (by simpa [Schema.docVisits] using hpw)
    (by simpa using docVisits_flat S doc f t hflat)
    (by simpa using fun w hw => (docVisits_canon S doc f t hv w hw).nodup)
  simp only [List.nil_append] at hI2
  refine ⟨fun e he => ⟨(hI1.good e he).2.1, (hI1.good e he).2.2.1⟩, hI2.pair, ?_⟩
  intro e he i h1 h2 hi hin
  have hget : (ftoks doc.kids)[i]? = some (tokD doc i) := by
    unfold tokD; rw [List.getD_eq_getElem?_getD, List.getElem?_eq_getElem hi]; rfl
  have hft := (hI1.good e he)
  obtain ⟨v, hvm, c1, c2, c3, c4, _, c6⟩ := nodesBetweenP_cover S doc.kids (S.tyOf doc) [] f t 0 0 i _
    (by omega) (by omega) hget (isInlineTok_ne_cl S _ hin)
  have hvin : S.nodeInline v.node = true := by rw [← c4]; exact hin
  have hleaf := docVisits_flat S doc f t hflat v hvm hvin
  have hown := Node.ownLen_of_isLeaf v.node hleaf
  refine ⟨?_, by rw [c6 hleaf]; exact hin⟩
  rw [c3]
  exact hI2.carry e he v hvm hvin i h1 h2 (by omega) (by omega)

theorem applyAll_removeMarks_ctx (S : Schema) (rs : List (Nat × Nat × Mark)) (doc d : Node)
    (h : S.applyAll (rs.map (fun r => Step.removeMark r.1 r.2.1 r.2.2)) doc = .ok d) :
    (ftoks d.kids).length = (ftoks doc.kids).length ∧
    (∀ i, i < (ftoks doc.kids).length →
      tokD d i = rmTok S (fun x => !rmCovers rs i x) (tokD doc i)) ∧
    ∀ i, ctxD S d i = ctxD S doc i := by
  obtain ⟨ty1, len1, p1⟩ := applyAll_removeMarks S rs doc d h
  refine ⟨len1, p1, fun i => ?_⟩
  have hshape : (ftoks d.kids).map Tok.shape = (ftoks doc.kids).map Tok.shape :=
    map_shape_of_getD _ _ len1 (fun i hi => by rw [p1 i hi]; exact rmTok_shape S _ _)
  unfold ctxD ctxOf
  rw [ty1, ctxAux_shape _ _ _ hshape]

/-- **core of the planner argument**: after the remove ranges `pre` were applied to the valid document
    `doc`, removing `x` over `[a, b)` is undone exactly by adding it back — when every inline node
    starting in `[a, b)` is an atom that carried `x` in `doc`, no earlier range removed `x` there, and
    no such node carries a second mark of `x`'s type -/
theorem removeUndoable_after (S : Schema) (doc d : Node) (pre : List (Nat × Nat × Mark)) (a b : Nat) (x : Mark)
    (hv : S.checkNode doc = true)
    (hd : S.applyAll (pre.map (fun r => Step.removeMark r.1 r.2.1 r.2.2)) doc = .ok d)
    (hcarry : ∀ i, a ≤ i → i < b → i < (ftoks doc.kids).length → isInlineTok S (tokD doc i) = true →
      x ∈ (tokD doc i).marks ∧ isAtomTok S (tokD doc i) = true)
    (hsep : ∀ i, a ≤ i → i < b → rmCovers pre i x = false)
    (hty : sameTypeFree S d a b x.ty = true) : removeMarkUndoable S d a b x = true := by
  obtain ⟨hlen, htok, hctx⟩ := applyAll_removeMarks_ctx S pre doc d hd
  rw [removeMarkUndoable_iff]
  intro i hi h1 h2
  rw [hlen] at hi
  rw [hctx i]
  unfold removeUndoTok
  rw [tokInline_eq, tokAtom_eq, tokMarks_eq]
  by_cases hin : isInlineTok S (tokD doc i) = true
  · have hne := isInlineTok_ne_cl S _ hin
    obtain ⟨hx0, hat0⟩ := hcarry i h1 h2 hi hin
    have hdi : tokD d i = (tokD doc i).withMarks ((tokD doc i).marks.filter (fun y => !rmCovers pre i y)) := by
      rw [htok i hi]; unfold rmTok; rw [if_pos hin]
    have hin' : isInlineTok S (tokD d i) = true := by
      rw [hdi, isInlineTok_shape S _ _ (Tok.withMarks_shape _ _)]; exact hin
    have hat' : isAtomTok S (tokD d i) = true := by
      rw [hdi, isAtomTok_shape S _ _ (Tok.withMarks_shape _ _)]; exact hat0
    have hmk : (tokD d i).marks = (tokD doc i).marks.filter (fun y => !rmCovers pre i y) := by
      rw [hdi, Tok.withMarks_marks _ _ hne]
    obtain ⟨hcan, hallow⟩ := valid_tok S doc hv i hi
    have hxs : x ∈ (tokD d i).marks := by
      rw [hmk, List.mem_filter]; exact ⟨hx0, by simp [hsep i h1 h2]⟩
    have hcs : CanonP S (tokD d i).marks := by
      rw [hmk]; exact hcan.sublist List.filter_sublist
    have huniq := unique_of_count _ x hxs
      ((sameTypeFree_iff S d a b x.ty).mp hty i (by rw [hlen]; exact hi) h1 h2 hin')
    have := add_remove_eq S (tokD d i).marks x hcs hxs huniq
    simp [hin', hat', hallow x hx0, this]
  · have hdi : tokD d i = tokD doc i := by
      rw [htok i hi]; unfold rmTok; rw [if_neg hin]
    rw [hdi]
    simp [hin]

/-- **`remove_mark` emits only steps whose naive inverse is exact** (token form): for the `k`-th
    planned step, applied to the document `d` the first `k` steps lead to — a `RemoveMarkStep(a, b, x)`
    — the guard `removeMarkUndoable S d a b x` holds, provided no inline node starting in `[a, b)`
    carries a second mark of `x`'s type (`sameTypeFree`). `doc` valid, no inline node with content. -/
theorem planRemoveMark_steps_guard (S : Schema) (doc : Node) (f t : Nat) (sel : MarkSel)
    (hv : S.checkNode doc = true) (hflat : flatInline S doc = true)
    (k : Nat) (hk : k < (planRemoveMarkSteps S doc f t sel).length) (d : Node)
    (hd : S.applyAll ((planRemoveMarkSteps S doc f t sel).take k) doc = .ok d) :
    ∃ a b x, (planRemoveMarkSteps S doc f t sel)[k] = .removeMark a b x ∧ f ≤ a ∧ b ≤ t ∧
      (sameTypeFree S d a b x.ty = true → removeMarkUndoable S d a b x = true) := by
  obtain ⟨hgood, hpair, hcarry⟩ := planRemove_matched S doc f t sel hv hflat
  unfold planRemoveMarkSteps at hk hd ⊢
  generalize ((S.docVisits doc f t).foldl (removeMarkVisit S f t sel) ([], 0)).1 = M at hk hd hgood hpair hcarry ⊢
  simp only [List.length_map] at hk
  refine ⟨M[k].from_, M[k].to, M[k].style, by simp, (hgood _ (List.getElem_mem hk)).1,
    (hgood _ (List.getElem_mem hk)).2, fun hty => ?_⟩
  have hmap : (M.map (fun e => Step.removeMark e.from_ e.to e.style)).take k =
      ((M.take k).map (fun e => (e.from_, e.to, e.style))).map (fun r => Step.removeMark r.1 r.2.1 r.2.2) := by
    rw [← List.map_take, List.map_map]; rfl
  rw [hmap] at hd
  refine removeUndoable_after S doc d _ _ _ _ hv hd
    (fun i h1 h2 hi hin => hcarry M[k] (List.getElem_mem hk) i h1 h2 hi hin) (fun i h1 h2 => ?_) hty
  -- an earlier element with the same mark ends before this one starts
  rw [← Bool.not_eq_true, rmCovers_iff]
  rintro ⟨r, hr, hrx, c1, c2⟩
  obtain ⟨e, he, rfl⟩ := List.mem_map.mp hr
  obtain ⟨j, hj, rfl⟩ := List.getElem_of_mem he
  simp only [List.length_take] at hj
  rw [List.getElem_take] at hrx c1 c2
  have := (List.pairwise_iff_getElem.mp hpair) j k (by omega) hk (by omega) hrx
  simp only at c2
  omega

end PM
