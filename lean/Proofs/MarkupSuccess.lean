/-
  Proofs/MarkupSuccess.lean — *success* lemmas for the node-level markup steps (attribute, add / remove
  node mark): on a valid, normal-form document the replace these steps perform
  (`replace(pos, pos + 1, ⟨[u], 0, 0 | 1⟩)`, `u` = the addressed node re-created with new markup and no
  content) applies exactly when the parent of the addressed node allows the new mark set, and the
  result is the document with that one node's markup exchanged (`mapNodeAt`).
  Used by Props/C04.lean (`attr_undo`, `nodeMark_undo`) and Props/C01.lean.
-/
import PM.Step
import Proofs.Reinsert
import Proofs.StepToks
import Proofs.StepValid
import Proofs.Undo
namespace PM

/-! ### specification vocabulary -/

/-- the child list with the node `nodeAtKids` finds at `pos` replaced by `g n` -/
def mapNodeAt (g : Node → Node) : List Node → Nat → List Node
  | [], _ => []
  | n :: ns, pos =>
    if pos = 0 then g n :: ns
    else if n.size ≤ pos then n :: mapNodeAt g ns (pos - n.size)
    else match n with
      | .elem t a m kids => .elem t a m (mapNodeAt g kids (pos - 1)) :: ns
      | _ => g n :: ns

/-- type of the parent of the node `nodeAtKids` finds at `pos` (`ty` = type of the node owning the list) -/
def parentTyAt : TypeId → List Node → Nat → TypeId
  | ty, [], _ => ty
  | ty, n :: ns, pos =>
    if pos = 0 then ty
    else if n.size ≤ pos then parentTyAt ty ns (pos - n.size)
    else match n with
      | .elem t _ _ kids => parentTyAt t kids (pos - 1)
      | _ => ty

theorem mapNodeAt_cons (g : Node → Node) (n : Node) (ns : List Node) (pos : Nat) :
    mapNodeAt g (n :: ns) pos =
      if pos = 0 then g n :: ns
      else if n.size ≤ pos then n :: mapNodeAt g ns (pos - n.size)
      else match n with
        | .elem t a m kids => .elem t a m (mapNodeAt g kids (pos - 1)) :: ns
        | _ => g n :: ns := by
  conv => lhs; unfold mapNodeAt

theorem parentTyAt_cons (ty : TypeId) (n : Node) (ns : List Node) (pos : Nat) :
    parentTyAt ty (n :: ns) pos =
      if pos = 0 then ty
      else if n.size ≤ pos then parentTyAt ty ns (pos - n.size)
      else match n with
        | .elem t _ _ kids => parentTyAt t kids (pos - 1)
        | _ => ty := by
  conv => lhs; unfold parentTyAt

/-- `u` is `n` (not a text node) with other attributes / marks and no content: what `recreate` builds -/
def Remarked (n u : Node) : Prop :=
  (∃ t a m k a' m', n = .elem t a m k ∧ u = .elem t a' m' []) ∨
  (∃ t a m a' m', n = .leaf t a m ∧ u = .leaf t a' m')

theorem recreate_remarked (S : Schema) (n u : Node) (attrs : Attrs) (marks : Marks)
    (h : S.recreate n attrs marks = .ok u) : Remarked n u ∧ u.marks = setFrom marks := by
  unfold Schema.recreate at h
  cases n with
  | text s m => simp at h
  | leaf t a m =>
    simp only at h
    cases hc : computeAttrs (S.nodeType t).attrs attrs with
    | error e => rw [hc] at h; simp [Except.map] at h
    | ok a' =>
      rw [hc] at h; simp [Except.map] at h; subst h
      exact ⟨.inr ⟨t, a, m, a', _, rfl, rfl⟩, rfl⟩
  | elem t a m k =>
    simp only at h
    cases hc : computeAttrs (S.nodeType t).attrs attrs with
    | error e => rw [hc] at h; simp [Except.map] at h
    | ok a' =>
      rw [hc] at h; simp [Except.map] at h; subst h
      exact ⟨.inl ⟨t, a, m, k, a', _, rfl, rfl⟩, rfl⟩

/-! ### prefixes of a normal-form list -/

theorem fnorm_append_left {a b : List Node} (h : fnorm (a ++ b) = true) : fnorm a = true := by
  simp only [fnorm, fnormKids_append, chainOk_append, Bool.and_eq_true] at h ⊢
  exact ⟨h.1.1, h.2.1.1⟩

theorem fnorm_append_right {a b : List Node} (h : fnorm (a ++ b) = true) : fnorm b = true := by
  simp only [fnorm, fnormKids_append, chainOk_append, Bool.and_eq_true] at h ⊢
  exact ⟨h.1.2, h.2.1.2⟩

theorem fromArray_of_fnorm {l : List Node} (h : fnorm l = true) : fromArray l = l :=
  ftoks_inj _ _ (fromArray_norm l (fnormKids_of_fnorm h)) h (fromArray_toks l)

theorem sameKind_nontext {n n' : Node} (h : n.isText = false) (h' : n'.isText = false) : sameKind n n' := by
  cases n <;> cases n' <;> simp [Node.isText] at h h' <;>
    exact ⟨fun x => by cases x <;> simp [adjOk], fun y => by cases y <;> simp [adjOk]⟩

theorem chainOk_set_sameKind {n n' : Node} (h : sameKind n n') (pre ns : List Node) :
    chainOk (pre ++ n' :: ns) = chainOk (pre ++ n :: ns) := by
  rw [chainOk_append, chainOk_append, chainOk_cons_sameKind h]
  simp only [List.head?_cons]
  rw [seamOk_sameKind_right h]

theorem fnorm_set_nontext {n n' : Node} (h : n.isText = false) (h' : n'.isText = false)
    (hn' : n'.norm = true) {pre ns : List Node} (hl : fnorm (pre ++ n :: ns) = true) :
    fnorm (pre ++ n' :: ns) = true := by
  simp only [fnorm, fnormKids_append, fnormKids_cons, Bool.and_eq_true] at hl ⊢
  exact ⟨⟨hl.1.1, hn', hl.1.2.2⟩, by rw [chainOk_set_sameKind (sameKind_nontext h h')]; exact hl.2⟩

/-! ### skipping the children before the position -/

theorem threeWay_skip_pre (S : Schema) : ∀ (pre rest : List Node) (f extra : Nat) (M : List Node)
    (a b : Nat) (R : List Node) (t : Nat), fnormKids pre = true →
    threeWay S (pre ++ rest) (fsize pre + f) extra M a b R t =
      (threeWay S rest f extra M a b R t).map (pre ++ ·)
  | [], rest, f, extra, M, a, b, R, t, _ => by
    simp only [List.nil_append, fsize_nil, Nat.zero_add]
    cases threeWay S rest f extra M a b R t <;> rfl
  | p :: ps, rest, f, extra, M, a, b, R, t, hn => by
    simp only [fnormKids_cons, Bool.and_eq_true] at hn
    have hpos := Node.size_pos_of_norm p hn.1
    have ih := threeWay_skip_pre S ps rest f extra M a b R t hn.2
    rw [List.cons_append]
    conv => lhs; unfold threeWay
    rw [if_neg (by simp; omega), if_pos (by simp; omega)]
    have e1 : fsize (p :: ps) + f - p.size = fsize ps + f := by simp; omega
    rw [e1, ih]
    cases threeWay S rest f extra M a b R t <;> simp [Except.map]

theorem splitRight_skip_pre : ∀ (pre rest : List Node) (t : Nat), fnormKids pre = true →
    splitRight (pre ++ rest) (fsize pre + t) = splitRight rest t
  | [], rest, t, _ => by simp
  | p :: ps, rest, t, hn => by
    simp only [fnormKids_cons, Bool.and_eq_true] at hn
    have hpos := Node.size_pos_of_norm p hn.1
    rw [List.cons_append, splitRight_skip p _ _ (by simp; omega) (by simp; omega)]
    have e1 : fsize (p :: ps) + t - p.size = fsize ps + t := by simp; omega
    rw [e1, splitRight_skip_pre ps rest t hn.2]

/-- replacing a non-text child by one of the same type whose marks the parent allows -/
theorem validContent_set (S : Schema) (ty : TypeId) (pre ns : List Node) (n n' : Node)
    (hty : S.tyOf n' = S.tyOf n)
    (h : S.validContent ty (pre ++ n :: ns) = true) :
    S.validContent ty (pre ++ n' :: ns) = (S.nodeType ty).allowsMarks n'.marks := by
  simp only [Schema.validContent, Schema.types, List.map_append, List.map_cons, List.all_append,
    List.all_cons, Bool.and_eq_true, hty] at h ⊢
  simp [h.1, h.2.1, h.2.2.2]

/-! ### the level of the addressed node -/

theorem atLevel_node_elem (S : Schema) (ty : TypeId) (pre xs : List Node) (t : TypeId)
    (a a' : Attrs) (m m' : Marks) (k : List Node)
    (hvc : S.validContent ty (pre ++ .elem t a m k :: xs) = true)
    (hv : S.checkKids (pre ++ .elem t a m k :: xs) = true)
    (hn : fnorm (pre ++ .elem t a m k :: xs) = true) :
    atLevel S ⟨[.elem t a' m' []], 0, 1⟩ ty (pre ++ .elem t a m k :: xs) (fsize pre) (fsize pre + 1) 0
      = if (S.nodeType ty).allowsMarks m' then .ok (pre ++ .elem t a' m' k :: xs) else .error .failed := by
  obtain ⟨hvk, _, hnk⟩ := child_facts hv hn
  have hnp := fnormKids_of_fnorm (fnorm_append_left hn)
  have hnew : fnorm (pre ++ .elem t a' m' k :: xs) = true :=
    fnorm_set_nontext (n := .elem t a m k) rfl rfl (by rw [Node.norm_elem]; exact hnk) hn
  have hs : splitRight (pre ++ .elem t a m k :: xs) (fsize pre + 1) = some (.deep (.elem t a m k) 0 xs) := by
    rw [splitRight_skip_pre _ _ _ hnp, splitRight_elem t a m k xs 1 (by omega) (by omega)]
  have htw : twoWay S [] 0 k 0 = .ok k := by
    unfold twoWay; simp
  have hrj : rightJoin S [.elem t a' m' []] 1 (.deep (.elem t a m k) 0 xs) = .ok [.elem t a' m' k] := by
    unfold rightJoin
    simp [compatibleContent_self, htw, fromArray_of_fnorm hnk, close_ok_of_valid S t a' m' k hvk]
  have hft : flatTail S [.elem t a' m' []] 0 1 (pre ++ .elem t a m k :: xs) (fsize pre + 1)
      = .ok (.elem t a' m' k :: xs) := by
    unfold flatTail
    simp [hs, hrj, middle, RSplit.rest]
  have h3 : threeWay S (pre ++ .elem t a m k :: xs) (fsize pre + 0) 0 [.elem t a' m' []] 0 1
      (pre ++ .elem t a m k :: xs) (fsize pre + 1) = .ok (pre ++ .elem t a' m' k :: xs) := by
    rw [threeWay_skip_pre S _ _ _ _ _ _ _ _ _ hnp]
    unfold threeWay
    simp [hft, Except.map]
  have hval : S.validContent ty (pre ++ .elem t a' m' k :: xs) = (S.nodeType ty).allowsMarks m' :=
    validContent_set S ty pre xs (.elem t a m k) _ rfl hvc
  unfold atLevel
  simp only [Nat.add_zero] at h3
  simp [h3, Except.map, fromArray_of_fnorm hnew, hval]

theorem fcut_prefix_eq {pre rest : List Node} (hn : fnorm (pre ++ rest) = true) :
    fcut (pre ++ rest) 0 (fsize pre) = .ok pre := by
  have ha : alignedAt (pre ++ rest) (fsize pre) = true := by
    have := alignedAt_append_pre pre rest 0
    simpa using this
  have hd : depthAt (pre ++ rest) (fsize pre) = 0 := by
    have := depthAt_append_pre pre rest 0
    simpa using this
  obtain ⟨l, hl⟩ := fcut_total (pre ++ rest) 0 (fsize pre) (by omega) (by rw [fsize_append]; omega)
    (alignedAt_zero _) ha hn
  have htk := fcut_prefix_toks hl (by rw [fsize_append]; omega) hd
  rw [ftoks_append, take_app_le _ _ _ (by rw [ftoks_length]; exact Nat.le_refl _),
    List.take_of_length_le (by rw [ftoks_length]; exact Nat.le_refl _)] at htk
  rw [hl, ftoks_inj l pre (fcut_norm _ _ _ _ hn hl) (fnorm_append_left hn) htk]

theorem fcut_suffix_eq {pre rest : List Node} (hn : fnorm (pre ++ rest) = true) :
    fcut (pre ++ rest) (fsize pre) (fsize (pre ++ rest)) = .ok rest := by
  have ha : alignedAt (pre ++ rest) (fsize pre) = true := by
    have := alignedAt_append_pre pre rest 0
    simpa using this
  have hd : depthAt (pre ++ rest) (fsize pre) = 0 := by
    have := depthAt_append_pre pre rest 0
    simpa using this
  obtain ⟨r, hr⟩ := fcut_total (pre ++ rest) (fsize pre) (fsize (pre ++ rest))
    (by rw [fsize_append]; omega) (Nat.le_refl _) ha (alignedAt_fsize _) hn
  have htk := fcut_suffix_toks hr hd
  rw [ftoks_append, drop_app_ge _ _ _ (by rw [ftoks_length]; exact Nat.le_refl _), ftoks_length,
    Nat.sub_self, List.drop_zero] at htk
  rw [hr, ftoks_inj r rest (fcut_norm _ _ _ _ hn hr) (fnorm_append_right hn) htk]

theorem atLevel_node_leaf (S : Schema) (ty : TypeId) (pre xs : List Node) (t : TypeId)
    (a a' : Attrs) (m m' : Marks) (extra : Nat)
    (hvc : S.validContent ty (pre ++ .leaf t a m :: xs) = true)
    (hn : fnorm (pre ++ .leaf t a m :: xs) = true) :
    atLevel S ⟨[.leaf t a' m'], 0, 0⟩ ty (pre ++ .leaf t a m :: xs) (fsize pre) (fsize pre + 1) extra
      = if (S.nodeType ty).allowsMarks m' then .ok (pre ++ .leaf t a' m' :: xs) else .error .failed := by
  have hnew : fnorm (pre ++ .leaf t a' m' :: xs) = true :=
    fnorm_set_nontext (n := .leaf t a m) rfl rfl rfl hn
  have hl := fcut_prefix_eq hn
  have hn2 : fnorm ((pre ++ [.leaf t a m]) ++ xs) = true := by simpa using hn
  have hr := fcut_suffix_eq hn2
  have e1 : fsize (pre ++ [Node.leaf t a m]) = fsize pre + 1 := by rw [fsize_append]; simp
  have e2 : (pre ++ [Node.leaf t a m]) ++ xs = pre ++ Node.leaf t a m :: xs := by simp
  rw [e1, e2] at hr
  have hd1 : depthAt (pre ++ .leaf t a m :: xs) (fsize pre) = 0 := by
    have := depthAt_append_pre pre (.leaf t a m :: xs) 0
    simpa using this
  have hd2 : depthAt (pre ++ .leaf t a m :: xs) (fsize pre + 1) = 0 := by
    rw [depthAt_append_pre, depthAt_skip _ _ _ (by simp)]; simp
  have hval : S.validContent ty (pre ++ .leaf t a' m' :: xs) = (S.nodeType ty).allowsMarks m' :=
    validContent_set S ty pre xs (.leaf t a m) _ rfl hvc
  have hX : fappend (fappend pre [.leaf t a' m']) xs = pre ++ .leaf t a' m' :: xs := by
    apply ftoks_inj _ _ (fappend_norm _ _ (fappend_norm _ _ (fnorm_append_left hn) (by simp [fnorm, chainOk]))
      (fnorm_append_right hn2)) hnew
    rw [fappend_toks, fappend_toks, ftoks_append]
    simp
  unfold atLevel
  simp [hd1, hd2, hl, hr, hX, hval]

/-! ### descending to the addressed node -/

theorem nodeAtKids_lt {kids : List Node} {pos : Nat} {n : Node}
    (h : nodeAtKids kids pos = .ok (some n)) (hsz : n.size ≠ 0) : pos < fsize kids := by
  obtain ⟨p, hp1, hp2, hp3, _⟩ := nodeAtKids_some kids pos n h
  have := congrArg List.length hp3
  simp only [List.length_take, List.length_drop, ftoks_length, Node.toks_length] at this
  have := hp2 hsz
  omega

theorem Remarked.size_ne {n u : Node} (h : Remarked n u) : n.size ≠ 0 := by
  rcases h with ⟨t, a, m, k, a', m', rfl, rfl⟩ | ⟨t, a, m, a', m', rfl, rfl⟩ <;> simp

theorem outer_node (S : Schema) (u : Node) (e : Nat) : ∀ (rest : List Node) (ty : TypeId)
    (level : List Node) (f0 idx f : Nat) (pre : List Node) (n : Node),
    level = pre ++ rest → idx = pre.length → f0 = fsize pre + f →
    nodeAtKids rest f = .ok (some n) → Remarked n u → e = (if n.isLeaf then 0 else 1) →
    S.validContent ty level = true → S.checkKids level = true → fnorm level = true →
    outer S ⟨[u], 0, e⟩ ty level f0 (f0 + 1) idx rest f (f + 1) (depthAt rest f)
      = if (S.nodeType (parentTyAt ty rest f)).allowsMarks u.marks
        then .ok (pre ++ mapNodeAt (fun x => u.withKids x.kids) rest f) else .error .failed
  | [], ty, level, f0, idx, f, pre, n, _, _, _, hat, _, _, _, _, _ => by
    unfold nodeAtKids at hat
    split at hat <;> simp at hat
  | x :: xs, ty, level, f0, idx, f, pre, n, hl, hi, hf0, hat, hre, he, hvc, hv, hn => by
    by_cases hfz : f = 0
    · subst hfz
      have hx : n = x := by
        unfold nodeAtKids at hat; simp at hat; exact hat.symm
      subst hx
      simp only [Nat.add_zero] at hf0
      subst hf0; subst hl
      unfold outer
      simp only [if_true, depthAt_zero]
      rw [mapNodeAt_cons, parentTyAt_cons]
      simp only [if_true]
      rcases hre with ⟨t, a, m, k, a', m', rfl, rfl⟩ | ⟨t, a, m, a', m', rfl, rfl⟩
      · simp only [Node.isLeaf, Bool.false_eq_true, if_false] at he
        subst he
        exact atLevel_node_elem S ty pre xs t a a' m m' k hvc hv hn
      · simp only [Node.isLeaf, if_true] at he
        subst he
        exact atLevel_node_leaf S ty pre xs t a a' m m' 0 hvc hn
    by_cases hle : x.size ≤ f
    · have hat' : nodeAtKids xs (f - x.size) = .ok (some n) := by
        unfold nodeAtKids at hat; rw [if_neg hfz, if_pos hle] at hat; exact hat
      have ih := outer_node S u e xs ty level f0 (idx + 1) (f - x.size) (pre ++ [x]) n
        (by simp [hl]) (by simp [hi]) (by rw [fsize_append]; simp; omega) hat' hre he hvc hv hn
      unfold outer
      rw [if_neg hfz, if_pos hle, depthAt_skip x xs f hle]
      have e1 : f + 1 - x.size = f - x.size + 1 := by omega
      rw [e1, ih, mapNodeAt_cons, if_neg hfz, if_pos hle, parentTyAt_cons ty x, if_neg hfz, if_pos hle]
      simp
    · cases x with
      | text s m =>
        have hx : n = .text s m := by
          unfold nodeAtKids at hat; rw [if_neg hfz, if_neg hle] at hat; simp at hat; exact hat.symm
        subst hx
        rcases hre with ⟨t, a, m, k, a', m', h, _⟩ | ⟨t, a, m, a', m', h, _⟩ <;> cases h
      | leaf t a m => simp at hle; omega
      | elem tyC aC mC kidsC =>
        simp only [Node.size_elem, Nat.not_le] at hle
        have hat' : nodeAtKids kidsC (f - 1) = .ok (some n) := by
          unfold nodeAtKids at hat; rw [if_neg hfz, if_neg (by simp; omega)] at hat; exact hat
        have hlt := nodeAtKids_lt hat' hre.size_ne
        subst hl
        obtain ⟨c1, c2, c3⟩ := child_facts hv hn
        have ih := outer_node S u e kidsC tyC kidsC (f - 1) 0 (f - 1) [] n rfl rfl (by simp)
          hat' hre he c1 c2 c3
        have hd : depthAt (Node.elem tyC aC mC kidsC :: xs) f = 1 + depthAt kidsC (f - 1) :=
          depthAt_elem_cons _ _ _ _ _ _ (by omega) hle
        unfold outer
        rw [if_neg hfz, if_neg (by simp; omega), hd]
        have e1 : f + 1 - 1 = f - 1 + 1 := by omega
        have e2 : 1 + depthAt kidsC (f - 1) - 1 = depthAt kidsC (f - 1) := by omega
        have hc : (decide (1 + depthAt kidsC (f - 1) ≠ 0) && decide (f + 1 < (Node.elem tyC aC mC kidsC).size)) = true := by
          simp; omega
        simp only [hc, if_true, e1, e2, ih, List.nil_append]
        have hsz : ¬ (Node.elem tyC aC mC kidsC).size ≤ f := by simp; omega
        rw [mapNodeAt_cons, if_neg hfz, if_neg hsz, parentTyAt_cons ty, if_neg hfz, if_neg hsz]
        simp only []
        by_cases hal : (S.nodeType (parentTyAt tyC kidsC (f - 1))).allowsMarks u.marks = true
        · simp only [hal, if_true, hi, set_mid]
        · simp only [hal, Bool.false_eq_true, if_false]

theorem depthAt_node_succ {u : Node} : ∀ (kids : List Node) (pos : Nat) (n : Node),
    nodeAtKids kids pos = .ok (some n) → Remarked n u →
    depthAt kids (pos + 1) = depthAt kids pos + (if n.isLeaf then 0 else 1)
  | [], pos, n, hat, _ => by
    unfold nodeAtKids at hat
    split at hat <;> simp at hat
  | x :: xs, pos, n, hat, hre => by
    by_cases hfz : pos = 0
    · subst hfz
      have hx : n = x := by
        unfold nodeAtKids at hat; simp at hat; exact hat.symm
      subst hx
      rcases hre with ⟨t, a, m, k, a', m', rfl, rfl⟩ | ⟨t, a, m, a', m', rfl, rfl⟩
      · rw [depthAt_elem_cons _ _ _ _ _ _ (by omega) (by omega)]; simp [Node.isLeaf]
      · rw [depthAt_skip _ _ _ (by simp)]; simp [Node.isLeaf]
    by_cases hle : x.size ≤ pos
    · have hat' : nodeAtKids xs (pos - x.size) = .ok (some n) := by
        unfold nodeAtKids at hat; rw [if_neg hfz, if_pos hle] at hat; exact hat
      rw [depthAt_skip x xs _ (by omega), depthAt_skip x xs _ hle,
        show pos + 1 - x.size = pos - x.size + 1 by omega]
      exact depthAt_node_succ xs _ n hat' hre
    · cases x with
      | text s m =>
        have hx : n = .text s m := by
          unfold nodeAtKids at hat; rw [if_neg hfz, if_neg hle] at hat; simp at hat; exact hat.symm
        subst hx
        rcases hre with ⟨t, a, m, k, a', m', h, _⟩ | ⟨t, a, m, a', m', h, _⟩ <;> cases h
      | leaf t a m => simp at hle; omega
      | elem tyC aC mC kidsC =>
        simp only [Node.size_elem, Nat.not_le] at hle
        have hat' : nodeAtKids kidsC (pos - 1) = .ok (some n) := by
          unfold nodeAtKids at hat; rw [if_neg hfz, if_neg (by simp; omega)] at hat; exact hat
        have hlt := nodeAtKids_lt hat' hre.size_ne
        rw [depthAt_elem_cons _ _ _ _ _ _ (by omega) (by omega),
          depthAt_elem_cons _ _ _ _ _ _ (by omega) hle,
          show pos + 1 - 1 = pos - 1 + 1 by omega, depthAt_node_succ kidsC _ n hat' hre]
        omega

/-- **the replace of a node-markup step** on the children `kids` of a node of type `ty`: valid,
    normal-form content, a non-text node `n` at `pos`, `u` = `n` with new markup and no content, then
    the replace applies **iff** the parent of `n` allows `u`'s marks (otherwise it fails with a
    ReplaceError), and it exchanges exactly that node's markup. -/
theorem replaceKids_node (S : Schema) (ty : TypeId) (kids : List Node) (pos : Nat) (n u : Node)
    (hvc : S.validContent ty kids = true) (hv : S.checkKids kids = true) (hn : fnorm kids = true)
    (hat : nodeAtKids kids pos = .ok (some n)) (hre : Remarked n u) :
    replaceKids S ty kids pos (pos + 1) ⟨[u], 0, if n.isLeaf then 0 else 1⟩
      = if (S.nodeType (parentTyAt ty kids pos)).allowsMarks u.marks
        then .ok (mapNodeAt (fun x => u.withKids x.kids) kids pos) else .error .failed := by
  have hlt := nodeAtKids_lt hat hre.size_ne
  have ho := outer_node S u _ kids ty kids pos 0 pos [] n rfl rfl (by simp) hat hre rfl hvc hv hn
  simp only [List.nil_append] at ho
  have hd := depthAt_node_succ kids pos n hat hre
  have hwf : (Slice.mk [u] 0 (if n.isLeaf then 0 else 1)).wf = true := by
    rcases hre with ⟨t, a, m, k, a', m', rfl, rfl⟩ | ⟨t, a, m, a', m', rfl, rfl⟩ <;>
      simp [Slice.wf, Node.isLeaf, spineR]
  unfold replaceKids
  rw [if_neg (by simp [inRange]; omega)]
  simp only []
  rw [if_neg (by omega), if_neg (by rw [hd]; split <;> simp), if_neg (by simp [hwf])]
  exact ho

/-! ### the parent of a node of a valid document allows its marks -/

theorem parent_allows (S : Schema) : ∀ (kids : List Node) (pos : Nat) (n : Node) (ty : TypeId),
    kids.all (fun k => (S.nodeType ty).allowsMarks k.marks) = true → S.checkKids kids = true →
    nodeAtKids kids pos = .ok (some n) →
    (S.nodeType (parentTyAt ty kids pos)).allowsMarks n.marks = true
  | [], pos, n, ty, _, _, hat => by
    unfold nodeAtKids at hat
    split at hat <;> simp at hat
  | x :: xs, pos, n, ty, hall, hv, hat => by
    simp only [List.all_cons, Bool.and_eq_true] at hall
    simp only [checkKids_cons, Bool.and_eq_true] at hv
    rw [parentTyAt_cons]
    unfold nodeAtKids at hat
    split at hat
    · rename_i h0
      rw [if_pos h0]
      simp at hat; subst hat; exact hall.1
    · rename_i h0
      rw [if_neg h0]
      split at hat
      · rename_i hle
        rw [if_pos hle]
        exact parent_allows S xs _ n ty hall.2 hv.2 hat
      · rename_i hle
        rw [if_neg hle]
        cases x with
        | text s m => simp at hat; subst hat; exact hall.1
        | leaf t a m => simp at hat; subst hat; exact hall.1
        | elem t a m kids =>
          have h1 := hv.1
          simp only [checkNode_elem, Schema.validContent, Bool.and_eq_true] at h1
          exact parent_allows S kids _ n t h1.1.1.2 h1.2 hat

theorem Node.withKids_marks (u : Node) (k : List Node) : (u.withKids k).marks = u.marks := by
  cases u <;> rfl

/-! ### the three node-markup steps -/

/-- the document after a node-markup step: the node at `pos` has `u`'s markup and its own content -/
def remarkAt (kids : List Node) (pos : Nat) (u : Node) : List Node :=
  mapNodeAt (fun x => u.withKids x.kids) kids pos

/-- the replace all three node-markup steps end in -/
theorem fromReplace_node (S : Schema) (ty : TypeId) (a : Attrs) (mk : Marks) (kids : List Node)
    (pos : Nat) (n u : Node) (hd : S.checkNode (.elem ty a mk kids) = true) (hn : fnorm kids = true)
    (hat : nodeAtKids kids pos = .ok (some n)) (hre : Remarked n u) :
    S.fromReplace (.elem ty a mk kids) pos (pos + 1) ⟨[u], 0, if n.isLeaf then 0 else 1⟩
      = if (S.nodeType (parentTyAt ty kids pos)).allowsMarks u.marks
        then .ok (.elem ty a mk (remarkAt kids pos u)) else .error .failed := by
  simp only [checkNode_elem, Bool.and_eq_true] at hd
  unfold Schema.fromReplace Schema.replace
  simp only [replaceKids_node S ty kids pos n u hd.1.1 hd.2 hn hat hre, remarkAt]
  split <;> rfl

/-- **attribute step: applies whenever the node exists and the new attribute set computes**
    (`recreate`: the attribute is declared, required attributes have values); the marks are
    unchanged, so the parent accepts the re-created node -/
theorem attrStep_applies (S : Schema) (ty : TypeId) (a : Attrs) (mk : Marks) (kids : List Node)
    (pos : Nat) (name value : String) (n u : Node)
    (hd : S.checkNode (.elem ty a mk kids) = true) (hn : fnorm kids = true)
    (hat : nodeAtKids kids pos = .ok (some n))
    (hu : S.recreate n (n.attrs.filter (·.1 != name) ++ [(name, value)]) n.marks = .ok u) :
    S.apply (.attr pos name value) (.elem ty a mk kids) = .ok (.elem ty a mk (remarkAt kids pos u)) := by
  obtain ⟨hre, hum⟩ := recreate_remarked S n u _ _ hu
  have hd' := hd
  simp only [checkNode_elem, Schema.validContent, Bool.and_eq_true] at hd'
  have hnv := nodeAtKids_valid S kids pos n hd'.2 hat
  have hal := parent_allows S kids pos n ty hd'.1.1.2 hd'.2 hat
  rw [← setFrom_idem_of_canonical S n.marks (Node.marks_canonical hnv), ← hum] at hal
  have := fromReplace_node S ty a mk kids pos n u hd hn hat hre
  rw [if_pos hal] at this
  simp only [Schema.apply, Node.nodeAt, Node.kids, hat, hu, this]

/-- **add-node-mark step: applies iff the parent of the addressed node allows the new mark set**
    (otherwise it fails — `StepResult.fail`) -/
theorem addNodeMark_applies_iff (S : Schema) (ty : TypeId) (a : Attrs) (mk : Marks) (kids : List Node)
    (pos : Nat) (m : Mark) (n u : Node)
    (hd : S.checkNode (.elem ty a mk kids) = true) (hn : fnorm kids = true)
    (hat : nodeAtKids kids pos = .ok (some n))
    (hu : S.recreate n n.attrs (m.addToSet S n.marks) = .ok u) :
    S.apply (.addNodeMark pos m) (.elem ty a mk kids) =
      if (S.nodeType (parentTyAt ty kids pos)).allowsMarks (m.addToSet S n.marks)
      then .ok (.elem ty a mk (remarkAt kids pos u)) else .error .failed := by
  obtain ⟨hre, hum⟩ := recreate_remarked S n u _ _ hu
  have hd' := hd
  simp only [checkNode_elem, Bool.and_eq_true] at hd'
  have hnv := nodeAtKids_valid S kids pos n hd'.2 hat
  rw [setFrom_idem_of_canonical S _ (addToSet_canonical S m _ (Node.marks_canonical hnv))] at hum
  have := fromReplace_node S ty a mk kids pos n u hd hn hat hre
  rw [hum] at this
  simp only [Schema.apply, Node.nodeAt, Node.kids, hat, hu, this]

/-- sufficient: the parent allows the mark's type -/
theorem addNodeMark_applies (S : Schema) (ty : TypeId) (a : Attrs) (mk : Marks) (kids : List Node)
    (pos : Nat) (m : Mark) (n u : Node)
    (hd : S.checkNode (.elem ty a mk kids) = true) (hn : fnorm kids = true)
    (hat : nodeAtKids kids pos = .ok (some n))
    (hu : S.recreate n n.attrs (m.addToSet S n.marks) = .ok u)
    (hp : (S.nodeType (parentTyAt ty kids pos)).allowsMarkType m.ty = true) :
    S.apply (.addNodeMark pos m) (.elem ty a mk kids) = .ok (.elem ty a mk (remarkAt kids pos u)) := by
  have hd' := hd
  simp only [checkNode_elem, Schema.validContent, Bool.and_eq_true] at hd'
  have hal := parent_allows S kids pos n ty hd'.1.1.2 hd'.2 hat
  rw [addNodeMark_applies_iff S ty a mk kids pos m n u hd hn hat hu,
    if_pos (allowsMarks_addToSet S _ m _ hp hal)]

/-- **remove-node-mark step: applies whenever the node exists and its attributes re-compute** -/
theorem removeNodeMark_applies (S : Schema) (ty : TypeId) (a : Attrs) (mk : Marks) (kids : List Node)
    (pos : Nat) (m : Mark) (n u : Node)
    (hd : S.checkNode (.elem ty a mk kids) = true) (hn : fnorm kids = true)
    (hat : nodeAtKids kids pos = .ok (some n))
    (hu : S.recreate n n.attrs (m.removeFromSet n.marks) = .ok u) :
    S.apply (.removeNodeMark pos m) (.elem ty a mk kids) = .ok (.elem ty a mk (remarkAt kids pos u)) := by
  obtain ⟨hre, hum⟩ := recreate_remarked S n u _ _ hu
  have hd' := hd
  simp only [checkNode_elem, Schema.validContent, Bool.and_eq_true] at hd'
  have hnv := nodeAtKids_valid S kids pos n hd'.2 hat
  have hal := parent_allows S kids pos n ty hd'.1.1.2 hd'.2 hat
  rw [setFrom_idem_of_canonical S _ (removeFromSet_canonical S m _ (Node.marks_canonical hnv))] at hum
  have := fromReplace_node S ty a mk kids pos n u hd hn hat hre
  rw [hum, if_pos (allowsMarks_removeFromSet _ m _ hal)] at this
  simp only [Schema.apply, Node.nodeAt, Node.kids, hat, hu, this]

/-! ### the document after a node-markup step (for the inverse step) -/

theorem Remarked.withKids_size {n u : Node} (h : Remarked n u) : (u.withKids n.kids).size = n.size := by
  rcases h with ⟨t, a, m, k, a', m', rfl, rfl⟩ | ⟨t, a, m, a', m', rfl, rfl⟩ <;> simp [Node.withKids, Node.kids]

theorem Remarked.withKids_headTok {n u : Node} (h : Remarked n u) :
    (u.withKids n.kids).headTok = u.headTok ∧ (u.withKids n.kids).isText = false ∧ n.isText = false ∧
      (u.withKids n.kids).isLeaf = n.isLeaf := by
  rcases h with ⟨t, a, m, k, a', m', rfl, rfl⟩ | ⟨t, a, m, a', m', rfl, rfl⟩ <;>
    simp [Node.withKids, Node.kids, Node.headTok, Node.isText, Node.isLeaf]

theorem mapNodeAt_spec {u : Node} : ∀ (kids : List Node) (pos : Nat) (n : Node),
    nodeAtKids kids pos = .ok (some n) → Remarked n u →
    fsize (remarkAt kids pos u) = fsize kids ∧
      nodeAtKids (remarkAt kids pos u) pos = .ok (some (u.withKids n.kids))
  | [], pos, n, hat, _ => by
    unfold nodeAtKids at hat
    split at hat <;> simp at hat
  | x :: xs, pos, n, hat, hre => by
    unfold remarkAt
    rw [mapNodeAt_cons]
    by_cases hfz : pos = 0
    · subst hfz
      have hx : n = x := by
        unfold nodeAtKids at hat; simp at hat; exact hat.symm
      subst hx
      simp only [if_true, fsize_cons, hre.withKids_size]
      exact ⟨trivial, by unfold nodeAtKids; simp⟩
    rw [if_neg hfz]
    by_cases hle : x.size ≤ pos
    · have hat' : nodeAtKids xs (pos - x.size) = .ok (some n) := by
        unfold nodeAtKids at hat; rw [if_neg hfz, if_pos hle] at hat; exact hat
      obtain ⟨h1, h2⟩ := mapNodeAt_spec xs _ n hat' hre
      unfold remarkAt at h1 h2
      rw [if_pos hle]
      refine ⟨by simp [h1], ?_⟩
      conv => lhs; unfold nodeAtKids
      rw [if_neg hfz, if_pos hle, h2]
    · rw [if_neg hle]
      cases x with
      | text s m =>
        have hx : n = .text s m := by
          unfold nodeAtKids at hat; rw [if_neg hfz, if_neg hle] at hat; simp at hat; exact hat.symm
        subst hx
        rcases hre with ⟨t, a, m, k, a', m', h, _⟩ | ⟨t, a, m, a', m', h, _⟩ <;> cases h
      | leaf t a m => simp at hle; omega
      | elem tyC aC mC kidsC =>
        simp only [Node.size_elem, Nat.not_le] at hle
        have hat' : nodeAtKids kidsC (pos - 1) = .ok (some n) := by
          unfold nodeAtKids at hat; rw [if_neg hfz, if_neg (by simp; omega)] at hat; exact hat
        obtain ⟨h1, h2⟩ := mapNodeAt_spec kidsC _ n hat' hre
        unfold remarkAt at h1 h2
        simp only []
        refine ⟨by simp [h1], ?_⟩
        conv => lhs; unfold nodeAtKids
        rw [if_neg hfz, if_neg (by simp [h1]; omega)]
        exact h2

theorem parentTyAt_remarkAt {u : Node} : ∀ (kids : List Node) (pos : Nat) (n : Node) (ty : TypeId),
    nodeAtKids kids pos = .ok (some n) → Remarked n u →
    parentTyAt ty (remarkAt kids pos u) pos = parentTyAt ty kids pos
  | [], pos, n, ty, hat, _ => by
    unfold nodeAtKids at hat
    split at hat <;> simp at hat
  | x :: xs, pos, n, ty, hat, hre => by
    unfold remarkAt
    rw [mapNodeAt_cons, parentTyAt_cons ty x]
    by_cases hfz : pos = 0
    · subst hfz
      simp only [if_true]
      rw [parentTyAt_cons]; simp
    rw [if_neg hfz, if_neg hfz]
    by_cases hle : x.size ≤ pos
    · have hat' : nodeAtKids xs (pos - x.size) = .ok (some n) := by
        unfold nodeAtKids at hat; rw [if_neg hfz, if_pos hle] at hat; exact hat
      have ih := parentTyAt_remarkAt xs _ n ty hat' hre
      unfold remarkAt at ih
      rw [if_pos hle, if_pos hle, parentTyAt_cons, if_neg hfz, if_pos hle, ih]
    · rw [if_neg hle, if_neg hle]
      cases x with
      | text s m =>
        have hx : n = .text s m := by
          unfold nodeAtKids at hat; rw [if_neg hfz, if_neg hle] at hat; simp at hat; exact hat.symm
        subst hx
        rcases hre with ⟨t, a, m, k, a', m', h, _⟩ | ⟨t, a, m, a', m', h, _⟩ <;> cases h
      | leaf t a m => simp at hle; omega
      | elem tyC aC mC kidsC =>
        simp only [Node.size_elem, Nat.not_le] at hle
        have hat' : nodeAtKids kidsC (pos - 1) = .ok (some n) := by
          unfold nodeAtKids at hat; rw [if_neg hfz, if_neg (by simp; omega)] at hat; exact hat
        have ih := parentTyAt_remarkAt kidsC _ n tyC hat' hre
        have hs := (mapNodeAt_spec kidsC _ n hat' hre).1
        unfold remarkAt at ih hs
        simp only []
        rw [parentTyAt_cons, if_neg hfz, if_neg (by simp [hs]; omega)]
        exact ih

theorem recreate_total (S : Schema) (n : Node) (attrs a' : Attrs) (marks : Marks)
    (hnt : n.isText = false)
    (hc : computeAttrs (S.nodeType n.headTok.ty).attrs attrs = .ok a') :
    ∃ u, S.recreate n attrs marks = .ok u := by
  cases n with
  | text s m => simp [Node.isText] at hnt
  | leaf t a m =>
    simp only [Node.headTok, Tok.ty] at hc
    exact ⟨.leaf t a' (setFrom marks), by simp [Schema.recreate, hc, Except.map]⟩
  | elem t a m k =>
    simp only [Node.headTok, Tok.ty] at hc
    exact ⟨.elem t a' (setFrom marks) [], by simp [Schema.recreate, hc, Except.map]⟩

end PM
