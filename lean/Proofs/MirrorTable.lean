/-
  Proofs/MirrorTable.lean — mirror tables in which no index is registered twice (`MirrorFunctional`):
  what `get_mirror` does on them (mutual, distinct, in-range partners), what it does on tables that
  are not of that kind (first match in the flat list wins), and that `append_map` (with a fresh
  partner), `append_mapping`, `append_mapping_inverted`, `invert`, `slice` never leave the family.
-/
import PM.MapTable
import Proofs.MapCompose
namespace PM

/-- the flat table is a list of pairs, no index occurs twice, every index names a map -/
def MirrorFunctional (m : Mapping) : Prop :=
  m.mirror.length % 2 = 0 ∧ m.mirror.Nodup ∧ ∀ x ∈ m.mirror, x < m.maps.length

instance (m : Mapping) : Decidable (MirrorFunctional m) := by
  unfold MirrorFunctional; infer_instance

/-- the executable predicate of PM/MapTable.lean (evaluated by the driver) is this family -/
theorem functionalB_iff (m : Mapping) : m.functionalB = true ↔ MirrorFunctional m := by
  simp [Mapping.functionalB, MirrorFunctional, and_assoc]

/-! ### reading a table -/

theorem getMirrorAux_mem (n : Nat) : ∀ (T : List Nat) (k : Nat), getMirrorAux n T = some k → n ∈ T ∧ k ∈ T
  | [], _, h => by simp [getMirrorAux] at h
  | [_], _, h => by simp [getMirrorAux] at h
  | a :: b :: r, k, h => by
    rw [getMirrorAux_cons2] at h
    by_cases ha : a = n
    · simp only [ha, if_true, Option.some.injEq] at h; subst h; subst ha; simp
    · by_cases hb : b = n
      · simp only [ha, hb, if_false, if_true, Option.some.injEq] at h; subst h; subst hb; simp
      · simp only [ha, hb, if_false] at h
        have := getMirrorAux_mem n r k h
        simp [this.1, this.2]

theorem getMirrorAux_none_of_not_mem (n : Nat) : ∀ (T : List Nat), n ∉ T → getMirrorAux n T = none
  | [], _ => rfl
  | [_], _ => rfl
  | a :: b :: r, h => by
    simp only [List.mem_cons, not_or] at h
    rw [getMirrorAux_cons2, if_neg (fun e => h.1 e.symm), if_neg (fun e => h.2.1 e.symm)]
    exact getMirrorAux_none_of_not_mem n r h.2.2

theorem getMirrorAux_some_of_mem (n : Nat) : ∀ (T : List Nat), T.length % 2 = 0 → n ∈ T →
    ∃ k, getMirrorAux n T = some k
  | [], _, h => by simp at h
  | [_], h, _ => by simp at h
  | a :: b :: r, hev, h => by
    rw [getMirrorAux_cons2]
    by_cases ha : a = n
    · exact ⟨b, by simp [ha]⟩
    · by_cases hb : b = n
      · exact ⟨a, by simp [ha, hb]⟩
      · simp only [ha, hb, if_false]
        simp only [List.mem_cons] at h
        rcases h with h | h | h
        · exact absurd h.symm ha
        · exact absurd h.symm hb
        · exact getMirrorAux_some_of_mem n r (by simp only [List.length_cons] at hev; omega) h

/-- on a table without repeated entries partners are mutual and distinct -/
theorem getMirrorAux_sym (n : Nat) : ∀ (T : List Nat) (k : Nat), T.Nodup → getMirrorAux n T = some k →
    getMirrorAux k T = some n ∧ k ≠ n
  | [], _, _, h => by simp [getMirrorAux] at h
  | [_], _, _, h => by simp [getMirrorAux] at h
  | a :: b :: r, k, hnd, h => by
    have hab : a ≠ b := by
      intro e; subst e; simp at hnd
    have har : a ∉ r := by
      intro e; simp [e] at hnd
    have hbr : b ∉ r := by
      intro e
      have := (List.nodup_cons.mp hnd).2
      simp [e] at this
    have hr : r.Nodup := (List.nodup_cons.mp (List.nodup_cons.mp hnd).2).2
    rw [getMirrorAux_cons2] at h
    rw [getMirrorAux_cons2]
    by_cases ha : a = n
    · simp only [ha, if_true, Option.some.injEq] at h
      subst h; subst ha
      exact ⟨by simp [hab], fun e => hab e.symm⟩
    · by_cases hb : b = n
      · simp only [ha, hb, if_false, if_true, Option.some.injEq] at h
        subst h; subst hb
        exact ⟨by simp, hab⟩
      · simp only [ha, hb, if_false] at h
        obtain ⟨hn, hk⟩ := getMirrorAux_mem n r k h
        have hak : a ≠ k := fun e => har (e ▸ hk)
        have hbk : b ≠ k := fun e => hbr (e ▸ hk)
        simp only [hak, hbk, if_false]
        exact getMirrorAux_sym n r k hr h

theorem MirrorFunctional.sym {m : Mapping} (h : MirrorFunctional m) : MirrorSym m :=
  fun i k hg => getMirrorAux_sym i m.mirror k h.2.1 hg

theorem MirrorFunctional.inRange {m : Mapping} (h : MirrorFunctional m) : MirrorInRange m :=
  fun i k _ hg => h.2.2 k (getMirrorAux_mem i m.mirror k hg).2

theorem MirrorFunctional.key_lt {m : Mapping} (h : MirrorFunctional m) (i k : Nat)
    (hg : m.getMirror i = some k) : i < m.maps.length :=
  h.2.2 i (getMirrorAux_mem i m.mirror k hg).1

/-- **first match wins**: in any table, `get_mirror(n)` answers from the first pair (in list order)
    that contains `n` — its second entry if `n` is the first one, else its first entry -/
theorem getMirrorAux_first (n a b : Nat) (A B : List Nat) (hev : A.length % 2 = 0) (hA : n ∉ A)
    (hab : a = n ∨ b = n) :
    getMirrorAux n (A ++ a :: b :: B) = some (if a = n then b else a) := by
  rw [getMirrorAux_skip n A _ hev (fun x hx e => hA (e ▸ hx)), getMirrorAux_cons2]
  by_cases ha : a = n
  · simp [ha]
  · have hb : b = n := hab.resolve_left ha
    simp [ha, hb]

/-! ### the constructors stay inside the family -/

theorem mem_flatPairs (x : Nat) : ∀ (P : List (Nat × Nat)), x ∈ flatPairs P ↔ ∃ p ∈ P, x = p.1 ∨ x = p.2
  | [] => by simp [flatPairs]
  | (a, b) :: r => by
    simp only [flatPairs, List.mem_cons, mem_flatPairs x r]
    constructor
    · rintro (h | h | ⟨p, hp, h⟩)
      · exact ⟨(a, b), Or.inl rfl, Or.inl h⟩
      · exact ⟨(a, b), Or.inl rfl, Or.inr h⟩
      · exact ⟨p, Or.inr hp, h⟩
    · rintro ⟨p, hp | hp, h⟩
      · subst hp; rcases h with h | h
        · exact Or.inl h
        · exact Or.inr (Or.inl h)
      · exact Or.inr (Or.inr ⟨p, hp, h⟩)

theorem flatPairs_length_even : ∀ (P : List (Nat × Nat)), (flatPairs P).length % 2 = 0
  | [] => rfl
  | (a, b) :: r => by
    simp only [flatPairs, List.length_cons]
    have := flatPairs_length_even r
    omega

theorem slice_functional (m : Mapping) (a : Nat) (b : Option Nat) (h : MirrorFunctional m) :
    MirrorFunctional (m.slice a b) := h

theorem appendMap_none_functional (m : Mapping) (sm : StepMap) (h : MirrorFunctional m) :
    MirrorFunctional (m.appendMap sm) := by
  refine ⟨h.1, h.2.1, fun x hx => ?_⟩
  have := h.2.2 x hx
  simp only [appendMap_none_eq, List.length_append, List.length_cons, List.length_nil]
  omega

/-- `append_map(map, mirrors=k)` keeps the table functional when `k` names an earlier map that has
    no partner yet -/
theorem appendMap_some_functional (m : Mapping) (sm : StepMap) (k : Nat) (h : MirrorFunctional m)
    (hk : k < m.maps.length) (hfree : m.getMirror k = none) :
    MirrorFunctional (m.appendMap sm (some k)) := by
  have hkn : k ∉ m.mirror := by
    intro hmem
    obtain ⟨k', hk'⟩ := getMirrorAux_some_of_mem k m.mirror h.1 hmem
    unfold Mapping.getMirror at hfree
    rw [hfree] at hk'; cases hk'
  have hln : m.maps.length ∉ m.mirror := fun hmem => Nat.lt_irrefl _ (h.2.2 _ hmem)
  rw [appendMap_some_eq]
  refine ⟨?_, ?_, ?_⟩
  · simp only [List.length_append, List.length_cons, List.length_nil]; have := h.1; omega
  · rw [List.nodup_append]
    refine ⟨h.2.1, by simp; omega, ?_⟩
    intro x hx y hy
    simp only [List.mem_cons, List.not_mem_nil, or_false] at hy
    rcases hy with rfl | rfl
    · exact fun e => hln (e ▸ hx)
    · exact fun e => hkn (e ▸ hx)
  · intro x hx
    simp only [List.mem_append, List.mem_cons, List.not_mem_nil, or_false] at hx
    simp only [List.length_append, List.length_cons, List.length_nil]
    rcases hx with hx | rfl | rfl
    · have := h.2.2 x hx; omega
    · omega
    · omega

/-- the pairs `append_mapping` carries over have pairwise distinct entries -/
theorem carriedPairs_nodup (other : Mapping) (hsym : MirrorSym other) (start : Nat) :
    ∀ n, (flatPairs (carriedPairs other start n)).Nodup := by
  intro n
  induction n with
  | zero => simp [carriedPairs, flatPairs]
  | succ n ih =>
    rw [carriedPairs_succ, flatPairs_append]
    cases hc : carriedPair other start n with
    | none => simpa [flatPairs] using ih
    | some pr =>
      unfold carriedPair at hc
      cases hg : other.getMirror n with
      | none => simp [hg] at hc
      | some k =>
        simp only [hg] at hc
        by_cases hk : k < n
        · simp only [hk, if_true, Option.some.injEq] at hc
          subst hc
          simp only [Option.toList, flatPairs]
          rw [List.nodup_append]
          refine ⟨ih, by simp; omega, ?_⟩
          intro x hx y hy
          obtain ⟨p, hp, hxp⟩ := (mem_flatPairs x _).mp hx
          obtain ⟨i', k', hi', hgi, hki, rfl⟩ := (mem_carriedPairs _ _ _ _).mp hp
          simp only [List.mem_cons, List.not_mem_nil, or_false] at hy
          simp only at hxp
          rcases hy with rfl | rfl
          · rcases hxp with rfl | rfl <;> omega
          · rcases hxp with rfl | rfl
            · -- start + i' = start + k: i' = k
              intro e
              have : i' = k := by omega
              subst this
              have := (hsym n i' hg).1
              rw [hgi] at this
              simp only [Option.some.injEq] at this
              omega
            · intro e
              have : k' = k := by omega
              subst this
              have h1 := (hsym n k' hg).1
              have h2 := (hsym i' k' hgi).1
              rw [h1] at h2
              simp only [Option.some.injEq] at h2
              omega
        · simp [hk] at hc

theorem appendMapping_functional (m n : Mapping) (hm : MirrorFunctional m) (hn : MirrorFunctional n) :
    MirrorFunctional (m.appendMapping n) := by
  unfold MirrorFunctional
  rw [(appendMapping_mirror m n).1, appendMapping_maps]
  have hmem : ∀ x ∈ flatPairs (carriedPairs n m.maps.length n.maps.length),
      m.maps.length ≤ x ∧ x < m.maps.length + n.maps.length := by
    intro x hx
    obtain ⟨p, hp, hxp⟩ := (mem_flatPairs x _).mp hx
    obtain ⟨i, k, hi, _, hki, rfl⟩ := (mem_carriedPairs _ _ _ _).mp hp
    simp only at hxp
    rcases hxp with rfl | rfl <;> omega
  refine ⟨?_, ?_, ?_⟩
  · rw [List.length_append]
    have := flatPairs_length_even (carriedPairs n m.maps.length n.maps.length)
    have := hm.1
    omega
  · rw [List.nodup_append]
    refine ⟨hm.2.1, carriedPairs_nodup n hn.sym _ _, ?_⟩
    intro x hx y hy e
    have := hm.2.2 x hx
    have := (hmem y hy).1
    omega
  · intro x hx
    rw [List.length_append]
    rcases List.mem_append.mp hx with hx | hx
    · have := hm.2.2 x hx; omega
    · exact (hmem x hx).2

/-- the pairs `append_mapping_inverted` registers have pairwise distinct entries -/
theorem invertedPairs_nodup (other : Mapping) (hsym : MirrorSym other) (hrng : MirrorInRange other)
    (start : Nat) :
    ∀ n, n ≤ other.maps.length →
      (flatPairs (invertedPairs other start (start + other.maps.length) n)).Nodup := by
  intro n
  induction n with
  | zero => intro _; simp [invertedPairs, flatPairs]
  | succ n ih =>
    intro hn
    have ih := ih (by omega)
    rw [invertedPairs_succ, flatPairs_append]
    cases hc : invertedPair other start (start + other.maps.length) n with
    | none => simpa [flatPairs] using ih
    | some pr =>
      unfold invertedPair at hc
      cases hg : other.getMirror n with
      | none => simp [hg] at hc
      | some k =>
        simp only [hg] at hc
        by_cases hk : k > n
        · simp only [hk, if_true, Option.some.injEq] at hc
          subst hc
          have hkN : k < other.maps.length := hrng n k (by omega) hg
          simp only [Option.toList, flatPairs]
          rw [List.nodup_append]
          refine ⟨by simp; omega, ih, ?_⟩
          intro x hx y hy
          obtain ⟨p, hp, hyp⟩ := (mem_flatPairs y _).mp hy
          obtain ⟨i', k', hi', hgi, hki, rfl⟩ := (mem_invertedPairs _ _ _ _ _).mp hp
          have hk'N : k' < other.maps.length := hrng i' k' (by omega) hgi
          simp only [List.mem_cons, List.not_mem_nil, or_false] at hx
          simp only at hyp
          rcases hx with rfl | rfl
          · rcases hyp with rfl | rfl
            · omega
            · intro e
              have : k' = n := by omega
              subst this
              have := (hsym i' k' hgi).1
              rw [hg] at this
              simp only [Option.some.injEq] at this
              omega
          · rcases hyp with rfl | rfl
            · omega
            · intro e
              have : k' = k := by omega
              subst this
              have h1 := (hsym n k' hg).1
              have h2 := (hsym i' k' hgi).1
              rw [h1] at h2
              simp only [Option.some.injEq] at h2
              omega
        · simp [hk] at hc

theorem appendMappingInverted_functional (m n : Mapping) (hm : MirrorFunctional m) (hn : MirrorFunctional n) :
    MirrorFunctional (m.appendMappingInverted n) := by
  unfold MirrorFunctional
  rw [(appendMappingInverted_mirror m n).1, appendMappingInverted_maps]
  have hmem : ∀ x ∈ flatPairs (invertedPairs n m.maps.length (m.maps.length + n.maps.length) n.maps.length),
      m.maps.length ≤ x ∧ x < m.maps.length + n.maps.length := by
    intro x hx
    obtain ⟨p, hp, hxp⟩ := (mem_flatPairs x _).mp hx
    obtain ⟨i, k, hi, hg, hki, rfl⟩ := (mem_invertedPairs _ _ _ _ _).mp hp
    have := hn.inRange i k hi hg
    simp only at hxp
    rcases hxp with rfl | rfl <;> omega
  refine ⟨?_, ?_, ?_⟩
  · rw [List.length_append]
    have := flatPairs_length_even (invertedPairs n m.maps.length (m.maps.length + n.maps.length) n.maps.length)
    have := hm.1
    omega
  · rw [List.nodup_append]
    refine ⟨hm.2.1, invertedPairs_nodup n hn.sym hn.inRange _ _ (Nat.le_refl _), ?_⟩
    intro x hx y hy e
    have := hm.2.2 x hx
    have := (hmem y hy).1
    omega
  · intro x hx
    simp only [List.length_append, List.length_map, List.length_reverse]
    rcases List.mem_append.mp hx with hx | hx
    · have := hm.2.2 x hx; omega
    · exact (hmem x hx).2

theorem empty_functional : MirrorFunctional ({} : Mapping) := by
  refine ⟨rfl, List.nodup_nil, ?_⟩
  intro x hx
  cases hx

theorem invert_functional (m : Mapping) (h : MirrorFunctional m) : MirrorFunctional m.invert :=
  appendMappingInverted_functional {} m empty_functional h

theorem ofMaps_functional (ms : List StepMap) : MirrorFunctional (Mapping.ofMaps ms) := by
  refine ⟨rfl, List.nodup_nil, ?_⟩
  intro x hx
  cases hx

/-- the undo mapping of a history is functional -/
theorem palindrome_functional (ms : List StepMap) : MirrorFunctional (palindrome ms) := by
  have hpal := palindrome_isPalindrome ms
  have hto := hpal.to
  have hmaps : (palindrome ms).maps.length = 2 * ms.length := by
    rw [hpal.maps]; simp; omega
  -- built by `append_map` with fresh partners: a direct induction over the second loop
  unfold palindrome
  simp only []
  rw [foldl_appendMap_eq ms _ rfl]
  have key : ∀ (l : List (StepMap × Nat)) (acc : Mapping) (c : Nat), MirrorFunctional acc →
      (∀ s (hs : s < l.length), l[s].2 + s + 1 = c) → c ≤ acc.maps.length →
      (∀ x ∈ acc.mirror, c ≤ x) →
      MirrorFunctional (l.foldl (fun acc mi => acc.appendMap mi.1.invert (some mi.2)) acc) := by
    intro l
    induction l with
    | nil => intro acc c h _ _ _; exact h
    | cons mi rest ih =>
      intro acc c hacc hl hc hlow
      rw [List.foldl_cons]
      have h0 := hl 0 (by simp)
      simp only [List.getElem_cons_zero] at h0
      have hfree : acc.getMirror mi.2 = none := by
        apply getMirrorAux_none_of_not_mem
        intro hmem
        have := hlow _ hmem
        omega
      have hnew := appendMap_some_functional acc mi.1.invert mi.2 hacc (by omega) hfree
      apply ih _ (c - 1) hnew
      · intro s hs
        have := hl (s + 1) (by simpa using hs)
        simp only [List.getElem_cons_succ] at this
        omega
      · rw [appendMap_some_eq]
        simp only [List.length_append, List.length_cons, List.length_nil]
        omega
      · intro x hx
        rw [appendMap_some_eq] at hx
        simp only [List.mem_append, List.mem_cons, List.not_mem_nil, or_false] at hx
        rcases hx with hx | rfl | rfl
        · have := hlow x hx; omega
        · omega
        · omega
  apply key _ _ ms.length
  · refine ⟨rfl, List.nodup_nil, ?_⟩
    intro x hx; cases hx
  · intro s hs
    simp at hs
    rw [List.getElem_reverse]
    simp
    omega
  · simp
  · intro x hx; cases hx

/-! ### inverting twice -/

theorem StepMap.invert_invert (m : StepMap) : m.invert.invert = m := by
  cases m; simp [StepMap.invert]

theorem invert_invert_maps (mp : Mapping) : mp.invert.invert.maps = mp.maps := by
  rw [invert_maps, invert_maps, ← List.map_reverse, List.reverse_reverse, List.map_map]
  have : StepMap.invert ∘ StepMap.invert = id := by
    funext m; exact StepMap.invert_invert m
  rw [this, List.map_id]

theorem invert_maps_length (mp : Mapping) : mp.invert.maps.length = mp.maps.length := by
  rw [invert_maps]; simp

theorem invert_invert_getMirror (mp : Mapping) (h : MirrorFunctional mp) (j : Nat) (hj : j < mp.maps.length) :
    mp.invert.invert.getMirror j = mp.getMirror j := by
  have hi := invert_functional mp h
  have h2 := invert_getMirror mp.invert hi.sym hi.inRange (mp.maps.length - 1 - j)
    (by rw [invert_maps_length]; omega)
  rw [invert_maps_length] at h2
  have e : mp.maps.length - 1 - (mp.maps.length - 1 - j) = j := by omega
  rw [e] at h2
  have h1 := invert_getMirror mp h.sym h.inRange j hj
  rw [h2, h1]
  cases hg : mp.getMirror j with
  | none => rfl
  | some k =>
    have := h.inRange j k hj hg
    simp only [Option.map_some]
    congr 1; omega

/-- inverting twice gives a mapping that maps like the original read as a whole -/
theorem invert_invert_mapResult (mp : Mapping) (h : MirrorFunctional mp) (p a : Int) :
    mp.invert.invert.mapResult p a = mp.whole.mapResult p a := by
  rw [mapResult_eq_run, mapResult_eq_run, invert_from]
  have hto : mp.invert.invert.to = mp.maps.length := by rw [invert_to, invert_maps_length]
  have := run_congr mp.whole mp.invert.invert a 0 0 (by rw [hto]; simp [Mapping.whole, Mapping.slice])
    (fun j _ _ => by rw [Nat.zero_add, invert_invert_maps]; rfl)
    (fun j _ hj => by
      have hj' : j < mp.maps.length := by simpa [Mapping.whole, Mapping.slice] using hj
      rw [Nat.zero_add]
      have e : jumpT mp.invert.invert j = jumpT mp.whole j :=
        jumpT_same _ _ j (by rw [hto]; simp [Mapping.whole, Mapping.slice])
          (invert_invert_getMirror mp h j hj')
      rw [e]; cases jumpT mp.whole j <;> simp)
    (mp.whole.to - 0) 0 p 0 rfl (Nat.le_refl _)
  rw [Nat.zero_add] at this
  exact this

end PM
