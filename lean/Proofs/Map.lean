/- Proofs/Map.lean — helper lemmas for Props/C08.lean -/
import PM.Map
namespace PM
end PM
