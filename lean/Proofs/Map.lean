/- Proofs/Map.lean — helper lemmas for Props/C08.lean -/
import PM.Map
namespace PM

/-! ### Raw (list-level) versions of the notions used by Props/C08.lean -/

/-- same as `C08.WF` -/
def RWF : Int → List Range → Prop
  | _, [] => True
  | lo, r :: rest => lo ≤ r.1 ∧ 0 ≤ r.2.1 ∧ 0 ≤ r.2.2 ∧ RWF (r.1 + r.2.1) rest

/-- same as `C08.StrictWF` -/
def RSWF : Int → List Range → Prop
  | _, [] => True
  | lo, r :: rest => lo ≤ r.1 ∧ 0 ≤ r.2.1 ∧ 0 ≤ r.2.2 ∧ RSWF (r.1 + r.2.1 + 1) rest

theorem RSWF.toRWF : ∀ {rs : List Range} {lo : Int}, RSWF lo rs → RWF lo rs
  | [], _, _ => trivial
  | r :: rest, lo, h => by
    obtain ⟨h1, h2, h3, h4⟩ := h
    refine ⟨h1, h2, h3, ?_⟩
    have := RSWF.toRWF h4
    exact rwf_mono (by omega) this
where
  rwf_mono : ∀ {rs : List Range} {lo lo' : Int}, lo' ≤ lo → RWF lo rs → RWF lo' rs
    | [], _, _, _, _ => trivial
    | _ :: _, _, _, hl, h => ⟨by have := h.1; omega, h.2.1, h.2.2.1, h.2.2.2⟩

/-- Σ_{j<i} (new_j − old_j) in stored orientation -/
def shiftB (rs : List Range) (i : Nat) : Int := ((rs.take i).map (fun r => r.2.2 - r.2.1)).sum

@[simp] theorem shiftB_zero (rs : List Range) : shiftB rs 0 = 0 := by simp [shiftB]
@[simp] theorem shiftB_nil (i : Nat) : shiftB [] i = 0 := by simp [shiftB]
theorem shiftB_cons_succ (r : Range) (rest : List Range) (j : Nat) :
    shiftB (r :: rest) (j + 1) = (r.2.2 - r.2.1) + shiftB rest j := by
  simp [shiftB]

/-- old start of range `j` of the suffix `rs`, when the loop enters the suffix with accumulator `diff` -/
def qOS (inv : Bool) (diff : Int) (rs : List Range) (j : Nat) : Int :=
  rs[j]!.1 + (if inv then shiftB rs j - diff else 0)

/-- old end -/
def qOE (inv : Bool) (diff : Int) (rs : List Range) (j : Nat) : Int :=
  qOS inv diff rs j + rs[j]!.oldSize inv

theorem qOS_zero (inv : Bool) (diff : Int) (r : Range) (rest : List Range) :
    qOS inv diff (r :: rest) 0 = r.1 - (if inv then diff else 0) := by
  cases inv <;> simp [qOS]
  omega

theorem qOE_zero (inv : Bool) (diff : Int) (r : Range) (rest : List Range) :
    qOE inv diff (r :: rest) 0 = r.1 - (if inv then diff else 0) + r.oldSize inv := by
  simp [qOE, qOS_zero]

theorem qOS_succ (inv : Bool) (diff : Int) (r : Range) (rest : List Range) (j : Nat) :
    qOS inv diff (r :: rest) (j + 1) = qOS inv (diff + r.newSize inv - r.oldSize inv) rest j := by
  cases inv <;> simp [qOS, shiftB_cons_succ, Range.newSize, Range.oldSize]
  omega

theorem qOE_succ (inv : Bool) (diff : Int) (r : Range) (rest : List Range) (j : Nat) :
    qOE inv diff (r :: rest) (j + 1) = qOE inv (diff + r.newSize inv - r.oldSize inv) rest j := by
  simp [qOE, qOS_succ]

/-- new-side coordinates are old-side coordinates of the opposite orientation -/
theorem neg_step (inv : Bool) (diff : Int) (r : Range) :
    -diff + r.newSize (!inv) - r.oldSize (!inv) = -(diff + r.newSize inv - r.oldSize inv) := by
  cases inv <;> simp [Range.newSize, Range.oldSize] <;> omega


/-! ### The scanning loop of `StepMap._map` -/

theorem mapAux_outside (inv : Bool) (pos assoc : Int) :
    ∀ (rs : List Range) (lo diff : Int) (idx k : Nat), RWF lo rs → k ≤ rs.length →
      (∀ j, j < k → qOE inv diff rs j < pos) →
      (k < rs.length → pos < qOS inv diff rs k) →
      mapAux inv pos assoc rs diff idx =
        { pos := pos + diff + (if inv then - shiftB rs k else shiftB rs k) } := by
  intro rs
  induction rs with
  | nil => intro lo diff idx k _ hk _ _; simp [mapAux]
  | cons r rest ih =>
    intro lo diff idx k hwf hk hb ha
    cases k with
    | zero =>
      have h := ha (by simp)
      rw [qOS_zero] at h
      simp [mapAux, h]
    | succ k =>
      have h0 := hb 0 (by omega)
      rw [qOE_zero] at h0
      obtain ⟨_, h1, h2, hwf'⟩ := hwf
      have hos : 0 ≤ r.oldSize inv := by cases inv <;> simp [Range.oldSize, *]
      have hs : ¬ (r.1 - (if inv then diff else 0) > pos) := by omega
      have he : ¬ (pos ≤ r.1 - (if inv then diff else 0) + r.oldSize inv) := by omega
      rw [mapAux]
      simp only [hs, he, if_false]
      rw [ih _ (diff + r.newSize inv - r.oldSize inv) (idx + 1) k hwf' (by simpa using hk)
        (fun j hj => by have := hb (j + 1) (by omega); rwa [qOE_succ] at this)
        (fun hk' => by have := ha (by simpa using hk'); rwa [qOS_succ] at this)]
      rw [shiftB_cons_succ]
      cases inv <;> simp [Range.newSize, Range.oldSize] <;> omega

/-- the documented result for a position inside a range with the given coordinates -/
def insideRes (os oe ns ne : Int) (i : Nat) (pos assoc : Int) : MapResult :=
  { pos := if (if os = oe then assoc else if pos = os then -1 else if pos = oe then 1 else assoc) < 0
      then ns else ne
    delInfo :=
      let d0 := if pos = os then DEL_AFTER else if pos = oe then DEL_BEFORE else DEL_ACROSS
      if (if assoc < 0 then pos ≠ os else pos ≠ oe) then d0 ||| DEL_SIDE else d0
    recover := if pos = (if assoc < 0 then os else oe) then none else some (i, pos - os) }

theorem mapAux_cons_inside (inv : Bool) (pos assoc : Int) (r : Range) (rest : List Range)
    (diff : Int) (idx : Nat)
    (h1 : r.1 - (if inv then diff else 0) ≤ pos)
    (h2 : pos ≤ r.1 - (if inv then diff else 0) + r.oldSize inv) :
    mapAux inv pos assoc (r :: rest) diff idx =
      insideRes (r.1 - (if inv then diff else 0)) (r.1 - (if inv then diff else 0) + r.oldSize inv)
        (r.1 - (if inv then diff else 0) + diff)
        (r.1 - (if inv then diff else 0) + diff + r.newSize inv) idx pos assoc := by
  have hs : ¬ (r.1 - (if inv then diff else 0) > pos) := by omega
  rw [mapAux]
  simp only [hs, h2, if_true, if_false, insideRes]
  generalize r.1 - (if inv then diff else 0) = s
  generalize r.oldSize inv = o
  generalize r.newSize inv = n
  have e : (s = s + o) ↔ (o = 0) := by omega
  congr 1
  · simp only [e]
    generalize (if o = 0 then assoc else if pos = s then -1 else if pos = s + o then 1 else assoc) = sd
    split <;> omega
  · by_cases ha : assoc < 0 <;> simp [ha]

theorem oldSize_nonneg (inv : Bool) (r : Range) (h1 : 0 ≤ r.2.1) (h2 : 0 ≤ r.2.2) :
    0 ≤ r.oldSize inv := by cases inv <;> simp [Range.oldSize, *]

theorem qNS_zero (inv : Bool) (diff : Int) (r : Range) (rest : List Range) :
    qOS (!inv) (-diff) (r :: rest) 0 = r.1 - (if inv then diff else 0) + diff := by
  rw [qOS_zero]; cases inv <;> simp <;> omega

theorem qNE_zero (inv : Bool) (diff : Int) (r : Range) (rest : List Range) :
    qOE (!inv) (-diff) (r :: rest) 0 = r.1 - (if inv then diff else 0) + diff + r.newSize inv := by
  rw [qOE_zero]; cases inv <;> simp [Range.oldSize, Range.newSize] <;> omega

theorem qNS_succ (inv : Bool) (diff : Int) (r : Range) (rest : List Range) (j : Nat) :
    qOS (!inv) (-diff) (r :: rest) (j + 1) =
      qOS (!inv) (-(diff + r.newSize inv - r.oldSize inv)) rest j := by
  rw [qOS_succ, neg_step]

theorem qNE_succ (inv : Bool) (diff : Int) (r : Range) (rest : List Range) (j : Nat) :
    qOE (!inv) (-diff) (r :: rest) (j + 1) =
      qOE (!inv) (-(diff + r.newSize inv - r.oldSize inv)) rest j := by
  rw [qOE_succ, neg_step]

theorem mapAux_inside (inv : Bool) (pos assoc : Int) :
    ∀ (rs : List Range) (lo diff : Int) (idx i : Nat), RWF lo rs → i < rs.length →
      (∀ j, j < i → qOE inv diff rs j < pos) →
      qOS inv diff rs i ≤ pos → pos ≤ qOE inv diff rs i →
      mapAux inv pos assoc rs diff idx =
        insideRes (qOS inv diff rs i) (qOE inv diff rs i)
          (qOS (!inv) (-diff) rs i) (qOE (!inv) (-diff) rs i) (idx + i) pos assoc := by
  intro rs
  induction rs with
  | nil => intro lo diff idx i _ hi; simp at hi
  | cons r rest ih =>
    intro lo diff idx i hwf hi hb h1 h2
    cases i with
    | zero =>
      rw [qOS_zero] at h1
      rw [qOE_zero] at h2
      rw [mapAux_cons_inside inv pos assoc r rest diff idx h1 h2, qOS_zero, qOE_zero, qNS_zero,
        qNE_zero]
      rfl
    | succ i =>
      have h0 := hb 0 (by omega)
      rw [qOE_zero] at h0
      obtain ⟨_, hr1, hr2, hwf'⟩ := hwf
      have hos := oldSize_nonneg inv r hr1 hr2
      have hs : ¬ (r.1 - (if inv then diff else 0) > pos) := by omega
      have he : ¬ (pos ≤ r.1 - (if inv then diff else 0) + r.oldSize inv) := by omega
      rw [mapAux]
      simp only [hs, he, if_false]
      rw [qOS_succ] at h1
      rw [qOE_succ] at h2
      rw [ih _ (diff + r.newSize inv - r.oldSize inv) (idx + 1) i hwf' (by simpa using hi)
        (fun j hj => by have := hb (j + 1) (by omega); rwa [qOE_succ] at this) h1 h2]
      rw [qOS_succ, qOE_succ, qNS_succ, qNE_succ, Nat.add_assoc, Nat.add_comm 1 i]

/-! ### Ordering of the coordinates -/

theorem qOS_le_qOE (inv : Bool) :
    ∀ (rs : List Range) (lo diff : Int) (i : Nat), RWF lo rs → i < rs.length →
      qOS inv diff rs i ≤ qOE inv diff rs i := by
  intro rs
  induction rs with
  | nil => intro lo diff i _ hi; simp at hi
  | cons r rest ih =>
    intro lo diff i hwf hi
    obtain ⟨_, hr1, hr2, hwf'⟩ := hwf
    cases i with
    | zero => rw [qOS_zero, qOE_zero]; have := oldSize_nonneg inv r hr1 hr2; omega
    | succ i => rw [qOS_succ, qOE_succ]; exact ih _ _ _ hwf' (by simpa using hi)

theorem lo_le_qOS (inv : Bool) :
    ∀ (rs : List Range) (lo diff : Int) (i : Nat), RWF lo rs → i < rs.length →
      lo - (if inv then diff else 0) ≤ qOS inv diff rs i := by
  intro rs
  induction rs with
  | nil => intro lo diff i _ hi; simp at hi
  | cons r rest ih =>
    intro lo diff i hwf hi
    obtain ⟨hlo, hr1, hr2, hwf'⟩ := hwf
    cases i with
    | zero => rw [qOS_zero]; omega
    | succ i =>
      rw [qOS_succ]
      have := ih _ (diff + r.newSize inv - r.oldSize inv) i hwf' (by simpa using hi)
      revert this
      cases inv <;> simp [Range.newSize, Range.oldSize] <;> omega

/-- weak separation: ranges do not overlap (they may touch) -/
theorem qOE_le_qOS (inv : Bool) :
    ∀ (rs : List Range) (lo diff : Int) (j i : Nat), RWF lo rs → j < i → i < rs.length →
      qOE inv diff rs j ≤ qOS inv diff rs i := by
  intro rs
  induction rs with
  | nil => intro lo diff j i _ _ hi; simp at hi
  | cons r rest ih =>
    intro lo diff j i hwf hji hi
    obtain ⟨hlo, hr1, hr2, hwf'⟩ := hwf
    cases i with
    | zero => omega
    | succ i =>
      cases j with
      | zero =>
        rw [qOS_succ, qOE_zero]
        have := lo_le_qOS inv rest _ (diff + r.newSize inv - r.oldSize inv) i hwf' (by simpa using hi)
        revert this
        cases inv <;> simp [Range.newSize, Range.oldSize] <;> omega
      | succ j =>
        rw [qOS_succ, qOE_succ]
        exact ih _ _ _ _ hwf' (by omega) (by simpa using hi)

theorem slo_le_qOS (inv : Bool) :
    ∀ (rs : List Range) (lo diff : Int) (i : Nat), RSWF lo rs → i < rs.length →
      lo - (if inv then diff else 0) ≤ qOS inv diff rs i :=
  fun rs lo diff i h hi => lo_le_qOS inv rs lo diff i h.toRWF hi

/-- strict separation -/
theorem qOE_lt_qOS (inv : Bool) :
    ∀ (rs : List Range) (lo diff : Int) (j i : Nat), RSWF lo rs → j < i → i < rs.length →
      qOE inv diff rs j < qOS inv diff rs i := by
  intro rs
  induction rs with
  | nil => intro lo diff j i _ _ hi; simp at hi
  | cons r rest ih =>
    intro lo diff j i hwf hji hi
    obtain ⟨hlo, hr1, hr2, hwf'⟩ := hwf
    cases i with
    | zero => omega
    | succ i =>
      cases j with
      | zero =>
        rw [qOS_succ, qOE_zero]
        have := slo_le_qOS inv rest _ (diff + r.newSize inv - r.oldSize inv) i hwf' (by simpa using hi)
        revert this
        cases inv <;> simp [Range.newSize, Range.oldSize] <;> omega
      | succ j =>
        rw [qOS_succ, qOE_succ]
        exact ih _ _ _ _ hwf' (by omega) (by simpa using hi)

/-! ### for_each -/

theorem forEachAux_spec (inv : Bool) :
    ∀ (rs : List Range) (diff : Int), forEachAux inv rs diff =
      (List.range rs.length).map (fun i =>
        (qOS inv diff rs i, qOE inv diff rs i, qOS (!inv) (-diff) rs i, qOE (!inv) (-diff) rs i)) := by
  intro rs
  induction rs with
  | nil => intro diff; simp [forEachAux]
  | cons r rest ih =>
    intro diff
    rw [forEachAux]
    simp only [List.length_cons, List.range_succ_eq_map, List.map_cons, List.map_map]
    rw [ih, qOS_zero, qOE_zero, qNS_zero, qNE_zero]
    congr 1
    · cases inv <;> simp <;> omega
    · apply List.map_congr_left
      intro i _
      simp only [Function.comp, qOS_succ, qOE_succ, neg_step]

/-! ### touches -/

theorem touchesAux_spec (inv : Bool) (pos : Int) (index : Nat) :
    ∀ (rs : List Range) (lo diff : Int) (idx : Nat), RWF lo rs →
      (touchesAux inv pos index rs diff idx = true ↔
        ∃ i, index = idx + i ∧ i < rs.length ∧ qOS inv diff rs i ≤ pos ∧ pos ≤ qOE inv diff rs i) := by
  intro rs
  induction rs with
  | nil => intro lo diff idx _; simp [touchesAux]
  | cons r rest ih =>
    intro lo diff idx hwf
    have hlo := fun i hi => lo_le_qOS inv (r :: rest) lo diff i hwf hi
    have h0 := hlo 0 (by simp)
    obtain ⟨hl, hr1, hr2, hwf'⟩ := hwf
    rw [touchesAux]
    by_cases hs : r.1 - (if inv then diff else 0) > pos
    · simp only [hs, if_true]
      constructor
      · intro h; cases h
      · rintro ⟨i, _, hi, h1, _⟩
        exfalso
        cases i with
        | zero => rw [qOS_zero] at h1; omega
        | succ i =>
          have := qOE_le_qOS inv (r :: rest) lo diff 0 (i + 1) ⟨hl, hr1, hr2, hwf'⟩ (by omega) hi
          rw [qOE_zero] at this
          have := oldSize_nonneg inv r hr1 hr2
          omega
    · simp only [hs, if_false]
      by_cases hc : (decide (pos ≤ r.1 - (if inv then diff else 0) + r.oldSize inv) && idx == index) = true
      · simp only [hc, if_true, true_iff]
        simp at hc
        exact ⟨0, by omega, by simp, by rw [qOS_zero]; omega, by rw [qOE_zero]; omega⟩
      · simp only [hc, Bool.false_eq_true, if_false]
        rw [ih _ _ _ hwf']
        simp at hc
        constructor
        · rintro ⟨i, e, hi, h1, h2⟩
          exact ⟨i + 1, by omega, by simpa using hi, by rwa [qOS_succ], by rwa [qOE_succ]⟩
        · rintro ⟨i, e, hi, h1, h2⟩
          cases i with
          | zero =>
            rw [qOE_zero] at h2
            exact absurd (by omega) (hc h2)
          | succ i =>
            rw [qOS_succ] at h1; rw [qOE_succ] at h2
            exact ⟨i, by omega, by simpa using hi, h1, h2⟩

/-! ### Locating a position -/

theorem locate (os oe : Nat → Int) (pos : Int) : ∀ n : Nat,
    (∃ i, i < n ∧ (∀ j, j < i → oe j < pos) ∧ os i ≤ pos ∧ pos ≤ oe i) ∨
    (∃ k, k ≤ n ∧ (∀ j, j < k → oe j < pos) ∧ (k < n → pos < os k)) := by
  intro n
  induction n with
  | zero => exact Or.inr ⟨0, Nat.le_refl _, fun j hj => by omega, fun h => by omega⟩
  | succ n ih =>
    rcases ih with ⟨i, hi, h⟩ | ⟨k, hk, hb, ha⟩
    · exact Or.inl ⟨i, by omega, h⟩
    · by_cases hkn : k < n
      · exact Or.inr ⟨k, by omega, hb, fun _ => ha hkn⟩
      · have : k = n := by omega
        subst this
        by_cases h2 : pos ≤ oe k
        · by_cases h1 : os k ≤ pos
          · exact Or.inl ⟨k, by omega, hb, h1, h2⟩
          · exact Or.inr ⟨k, by omega, hb, fun _ => by omega⟩
        · refine Or.inr ⟨k + 1, by omega, fun j hj => ?_, fun h => by omega⟩
          by_cases hjk : j < k
          · exact hb j hjk
          · have : j = k := by omega
            subst this; omega

/-! ### Monotonicity -/

theorem end_eq (inv : Bool) (diff : Int) (r : Range) :
    r.1 + r.2.1 - (if inv then diff + r.newSize inv - r.oldSize inv else 0) =
      r.1 - (if inv then diff else 0) + r.oldSize inv := by
  cases inv <;> simp [Range.newSize, Range.oldSize] <;> omega

theorem newSize_nonneg (inv : Bool) (r : Range) (h1 : 0 ≤ r.2.1) (h2 : 0 ≤ r.2.2) :
    0 ≤ r.newSize inv := by cases inv <;> simp [Range.newSize, *]

theorem insideRes_pos_bounds (os oe ns ne : Int) (i : Nat) (pos assoc : Int) (h : ns ≤ ne) :
    ns ≤ (insideRes os oe ns ne i pos assoc).pos ∧ (insideRes os oe ns ne i pos assoc).pos ≤ ne := by
  simp only [insideRes]; split <;> omega

theorem insideRes_pos_mono (os oe ns ne : Int) (i : Nat) (p q assoc : Int) (h : ns ≤ ne)
    (h1 : os ≤ p) (h2 : p ≤ q) (h3 : q ≤ oe) :
    (insideRes os oe ns ne i p assoc).pos ≤ (insideRes os oe ns ne i q assoc).pos := by
  simp only [insideRes]
  repeat' split
  all_goals omega

theorem mapAux_cons_after (inv : Bool) (pos assoc : Int) (r : Range) (rest : List Range)
    (diff : Int) (idx : Nat) (ho : 0 ≤ r.oldSize inv)
    (h : r.1 - (if inv then diff else 0) + r.oldSize inv < pos) :
    mapAux inv pos assoc (r :: rest) diff idx =
      mapAux inv pos assoc rest (diff + r.newSize inv - r.oldSize inv) (idx + 1) := by
  have hs : ¬ (r.1 - (if inv then diff else 0) > pos) := by omega
  have he : ¬ (pos ≤ r.1 - (if inv then diff else 0) + r.oldSize inv) := by omega
  rw [mapAux]
  simp only [hs, he, if_false]

theorem mapAux_cons_before (inv : Bool) (pos assoc : Int) (r : Range) (rest : List Range)
    (diff : Int) (idx : Nat) (h : pos < r.1 - (if inv then diff else 0)) :
    mapAux inv pos assoc (r :: rest) diff idx = { pos := pos + diff } := by
  rw [mapAux]
  simp only [gt_iff_lt, h, if_true]

theorem mapAux_lb (inv : Bool) (pos assoc : Int) :
    ∀ (rs : List Range) (lo diff : Int) (idx : Nat), RWF lo rs →
      lo - (if inv then diff else 0) ≤ pos →
      lo - (if inv then diff else 0) + diff ≤ (mapAux inv pos assoc rs diff idx).pos := by
  intro rs
  induction rs with
  | nil => intro lo diff idx _ h; simp only [mapAux]; omega
  | cons r rest ih =>
    intro lo diff idx hwf h
    obtain ⟨hl, hr1, hr2, hwf'⟩ := hwf
    have ho := oldSize_nonneg inv r hr1 hr2
    have hn := newSize_nonneg inv r hr1 hr2
    by_cases hs : pos < r.1 - (if inv then diff else 0)
    · rw [mapAux_cons_before _ _ _ _ _ _ _ hs]; simp only; omega
    · by_cases he : pos ≤ r.1 - (if inv then diff else 0) + r.oldSize inv
      · rw [mapAux_cons_inside _ _ _ _ _ _ _ (by omega) he]
        have := (insideRes_pos_bounds (r.1 - (if inv then diff else 0))
          (r.1 - (if inv then diff else 0) + r.oldSize inv)
          (r.1 - (if inv then diff else 0) + diff)
          (r.1 - (if inv then diff else 0) + diff + r.newSize inv) idx pos assoc (by omega)).1
        omega
      · rw [mapAux_cons_after _ _ _ _ _ _ _ ho (by omega)]
        have := ih _ (diff + r.newSize inv - r.oldSize inv) (idx + 1) hwf'
          (by rw [end_eq]; omega)
        rw [end_eq] at this
        omega

theorem mapAux_mono (inv : Bool) (p q assoc : Int) (hpq : p ≤ q) :
    ∀ (rs : List Range) (lo diff : Int) (idx : Nat), RWF lo rs →
      (mapAux inv p assoc rs diff idx).pos ≤ (mapAux inv q assoc rs diff idx).pos := by
  intro rs
  induction rs with
  | nil => intro lo diff idx _; simp only [mapAux]; omega
  | cons r rest ih =>
    intro lo diff idx hwf
    obtain ⟨hl, hr1, hr2, hwf'⟩ := hwf
    have ho := oldSize_nonneg inv r hr1 hr2
    have hn := newSize_nonneg inv r hr1 hr2
    by_cases hsq : q < r.1 - (if inv then diff else 0)
    · rw [mapAux_cons_before _ _ _ _ _ _ _ hsq, mapAux_cons_before _ _ _ _ _ _ _ (by omega)]
      simp only; omega
    · by_cases hsp : p < r.1 - (if inv then diff else 0)
      · rw [mapAux_cons_before _ _ _ _ _ _ _ hsp]
        have := mapAux_lb inv q assoc (r :: rest) r.1 diff idx ⟨Int.le_refl _, hr1, hr2, hwf'⟩
          (by omega)
        simp only; omega
      · by_cases hep : p ≤ r.1 - (if inv then diff else 0) + r.oldSize inv
        · rw [mapAux_cons_inside _ p _ _ _ _ _ (by omega) hep]
          by_cases heq : q ≤ r.1 - (if inv then diff else 0) + r.oldSize inv
          · rw [mapAux_cons_inside _ q _ _ _ _ _ (by omega) heq]
            exact insideRes_pos_mono _ _ _ _ _ _ _ _ (by omega) (by omega) hpq heq
          · rw [mapAux_cons_after _ q _ _ _ _ _ ho (by omega)]
            have h1 := (insideRes_pos_bounds (r.1 - (if inv then diff else 0))
              (r.1 - (if inv then diff else 0) + r.oldSize inv)
              (r.1 - (if inv then diff else 0) + diff)
              (r.1 - (if inv then diff else 0) + diff + r.newSize inv) idx p assoc (by omega)).2
            have h2 := mapAux_lb inv q assoc rest _ (diff + r.newSize inv - r.oldSize inv) (idx + 1)
              hwf' (by rw [end_eq]; omega)
            rw [end_eq] at h2
            omega
        · rw [mapAux_cons_after _ p _ _ _ _ _ ho (by omega),
            mapAux_cons_after _ q _ _ _ _ _ ho (by omega)]
          exact ih _ _ _ hwf'

theorem insideRes_deleted (os oe ns ne : Int) (i : Nat) (pos assoc : Int) :
    (insideRes os oe ns ne i pos assoc).deleted = true ↔
      (if assoc < 0 then pos ≠ os else pos ≠ oe) := by
  simp only [insideRes, MapResult.deleted, DEL_AFTER, DEL_BEFORE, DEL_ACROSS, DEL_SIDE]
  by_cases hc : (if assoc < 0 then pos ≠ os else pos ≠ oe) <;>
    simp only [hc, if_true, if_false, iff_true, iff_false] <;> repeat' split
  all_goals decide

/-! ### Inversion -/

theorem shiftB_succ (rs : List Range) (j : Nat) (hj : j < rs.length) :
    shiftB rs (j + 1) = shiftB rs j + (rs[j]!.2.2 - rs[j]!.2.1) := by
  unfold shiftB
  rw [List.take_add_one, List.getElem?_eq_getElem hj, getElem!_pos rs j hj]
  simp only [Option.toList_some, List.map_append, List.sum_append, List.map_cons, List.map_nil,
    List.sum_cons, List.sum_nil]
  omega

theorem qNS_eq (inv : Bool) (diff : Int) (rs : List Range) (j : Nat) :
    qOS (!inv) (-diff) rs j =
      qOS inv diff rs j + diff + (if inv then - shiftB rs j else shiftB rs j) := by
  cases inv <;> simp [qOS] <;> omega

theorem qNE_eq (inv : Bool) (diff : Int) (rs : List Range) (j : Nat) (hj : j < rs.length) :
    qOE (!inv) (-diff) rs j =
      qOE inv diff rs j + diff + (if inv then - shiftB rs (j + 1) else shiftB rs (j + 1)) := by
  rw [qOE, qOE, qNS_eq, shiftB_succ rs j hj]
  cases inv <;> simp [Range.oldSize] <;> omega

theorem qOE_mono (inv : Bool) (rs : List Range) (lo diff : Int) (j i : Nat) (hwf : RWF lo rs)
    (hji : j ≤ i) (hi : i < rs.length) : qOE inv diff rs j ≤ qOE inv diff rs i := by
  by_cases h : j = i
  · subst h; exact Int.le_refl _
  · have h1 := qOE_le_qOS inv rs lo diff j i hwf (by omega) hi
    have h2 := qOS_le_qOE inv rs lo diff i hwf hi
    omega

/-- a position outside the ranges is mapped to a position outside the ranges of the inverse -/
theorem outside_transfer (inv : Bool) (rs : List Range) (lo : Int) (hwf : RWF lo rs) (pos : Int)
    (k : Nat) (hk : k ≤ rs.length) (hb : ∀ j, j < k → qOE inv 0 rs j < pos)
    (ha : k < rs.length → pos < qOS inv 0 rs k) :
    (∀ j, j < k → qOE (!inv) 0 rs j < pos + (if inv then - shiftB rs k else shiftB rs k)) ∧
    (k < rs.length → pos + (if inv then - shiftB rs k else shiftB rs k) < qOS (!inv) 0 rs k) := by
  constructor
  · intro j hj
    cases k with
    | zero => omega
    | succ k =>
      have h1 := qOE_mono (!inv) rs lo 0 j k hwf (by omega) (by omega)
      have h2 := qNE_eq inv 0 rs k (by omega)
      have h3 := hb k (by omega)
      rw [Int.neg_zero] at h2
      omega
  · intro hk'
    have h2 := qNS_eq inv 0 rs k
    have h3 := ha hk'
    rw [Int.neg_zero] at h2
    omega

/-! ### Mapping -/

theorem appendMap_maps (m : Mapping) (sm : StepMap) (mirr : Option Nat) :
    (m.appendMap sm mirr).maps = m.maps ++ [sm] := by
  cases mirr <;> simp [Mapping.appendMap, Mapping.setMirror]

theorem foldl_range_maps (f : Mapping → Nat → Mapping) (l : List StepMap)
    (h : ∀ acc i, (hi : i < l.length) → (f acc i).maps = acc.maps ++ [l[i]]) :
    ∀ n, n ≤ l.length → ∀ acc, ((List.range n).foldl f acc).maps = acc.maps ++ l.take n := by
  intro n
  induction n with
  | zero => intro _ acc; simp
  | succ n ih =>
    intro hn acc
    rw [List.range_succ, List.foldl_append, List.foldl_cons, List.foldl_nil, h _ n (by omega),
      ih (by omega), List.append_assoc, List.take_add_one]
    simp [List.getElem?_eq_getElem (show n < l.length by omega)]

theorem foldl_range_reverse_maps (f : Mapping → Nat → Mapping) (l : List StepMap)
    (h : ∀ acc i, (hi : i < l.length) → (f acc i).maps = acc.maps ++ [l[i].invert]) :
    ∀ n, n ≤ l.length → ∀ acc,
      ((List.range n).reverse.foldl f acc).maps = acc.maps ++ (l.take n).reverse.map StepMap.invert := by
  intro n
  induction n with
  | zero => intro _ acc; simp
  | succ n ih =>
    intro hn acc
    rw [List.range_succ, List.reverse_append, List.reverse_singleton, List.singleton_append,
      List.foldl_cons, ih (by omega), h _ n (by omega), List.append_assoc]
    have e : l.take (n + 1) = l.take n ++ [l[n]] := by
      rw [List.take_add_one]; simp [List.getElem?_eq_getElem (show n < l.length by omega)]
    rw [e]
    simp only [List.reverse_append, List.reverse_singleton, List.map_cons,
      List.cons_append, List.nil_append]

theorem getMirrorAux_nil (n : Nat) : getMirrorAux n [] = none := rfl

theorem mappingMapAux_plain (mp : Mapping) (hm : mp.mirror = []) (hto : mp.to ≤ mp.maps.length)
    (assoc : Int) :
    ∀ (fuel i : Nat) (pos : Int) (del : Nat), mp.to - i < fuel →
      (mappingMapAux mp assoc fuel i pos del).map (·.pos) =
        some (((mp.maps.take mp.to).drop i).foldl (fun p sm => sm.map p assoc) pos) := by
  intro fuel
  induction fuel with
  | zero => intro i pos del h; omega
  | succ fuel ih =>
    intro i pos del h
    rw [mappingMapAux]
    by_cases hi : i < mp.to
    · have hil : i < mp.maps.length := by omega
      have hd : (mp.maps.take mp.to).drop i = mp.maps[i] :: (mp.maps.take mp.to).drop (i + 1) := by
        rw [List.drop_eq_getElem_cons (by simp; omega)]
        simp
      simp only [hi, if_true, List.getElem?_eq_getElem hil, Mapping.getMirror, hm, getMirrorAux_nil]
      rw [hd, List.foldl_cons]
      split <;> exact ih _ _ _ (by omega)
    · simp only [hi, if_false, Option.map_some]
      rw [List.drop_eq_nil_of_le (by simp; omega)]
      rfl

/-! single steps of `Mapping._map` -/

theorem mappingMapAux_done (mp : Mapping) (assoc : Int) (fuel i : Nat) (pos : Int) (del : Nat)
    (h : ¬ i < mp.to) : mappingMapAux mp assoc fuel i pos del = some { pos := pos, delInfo := del } := by
  cases fuel <;> rw [mappingMapAux] <;> simp only [h, if_false]

/-- no mirror jump: the position is mapped through map `i` and the loop continues at `i + 1` -/
theorem mappingMapAux_step_nojump (mp : Mapping) (assoc : Int) (fuel i : Nat) (pos : Int) (del : Nat)
    (sm : StepMap) (hi : i < mp.to) (hsm : mp.maps[i]? = some sm)
    (h : (sm.mapResult pos assoc).recover = none ∨
      ∀ corr, mp.getMirror i = some corr → ¬ (corr > i ∧ corr < mp.to)) :
    mappingMapAux mp assoc (fuel + 1) i pos del =
      mappingMapAux mp assoc fuel (i + 1) (sm.mapResult pos assoc).pos
        (del ||| (sm.mapResult pos assoc).delInfo) := by
  rw [mappingMapAux]
  simp only [hi, if_true, hsm]
  split
  · next rv hrv =>
    split
    · next corr hc =>
      rcases h with h | h
      · rw [h] at hrv; cases hrv
      · simp only [h corr hc, if_false]
    · rfl
  · rfl

/-- mirror jump: the recover value is turned back into a position by the mirror map -/
theorem mappingMapAux_step_mirror (mp : Mapping) (assoc : Int) (fuel i : Nat) (pos : Int) (del : Nat)
    (sm cm : StepMap) (rv : Nat × Int) (corr : Nat) (p : Int)
    (hi : i < mp.to) (hsm : mp.maps[i]? = some sm)
    (hrv : (sm.mapResult pos assoc).recover = some rv)
    (hc : mp.getMirror i = some corr) (hci : corr > i) (hct : corr < mp.to)
    (hcm : mp.maps[corr]? = some cm) (hp : cm.recover rv = some p) :
    mappingMapAux mp assoc (fuel + 1) i pos del = mappingMapAux mp assoc fuel (corr + 1) p del := by
  rw [mappingMapAux]
  simp only [hi, if_true, hsm, hrv, hc, hci, hct, and_self, hcm, hp]

/-! ### Undoing a history in place: the palindrome mapping -/

/-- what the chain argument needs to know about a single map (for one association side):
    a position that gets no recover value is brought back by the inverse map, and a recover value
    is turned back into the position by `recover` of the inverse map -/
def RoundTrips (m : StepMap) (assoc : Int) : Prop :=
  ∀ p : Int,
    ((m.mapResult p assoc).recover = none → m.invert.map (m.map p assoc) assoc = p) ∧
    (∀ rv, (m.mapResult p assoc).recover = some rv → m.invert.recover rv = some p)

/-- the shape of `palindrome ms` that the round-trip argument uses (nothing about `from_`, so that
    slices of the palindrome have the same shape) -/
structure IsPalindrome (mp : Mapping) (ms : List StepMap) : Prop where
  maps : mp.maps = ms ++ ms.reverse.map StepMap.invert
  to : mp.to = 2 * ms.length
  mirror : ∀ i, i < 2 * ms.length → mp.getMirror i = some (2 * ms.length - 1 - i)

theorem IsPalindrome.get_fwd {mp : Mapping} {ms : List StepMap} (h : IsPalindrome mp ms) (i : Nat)
    (hi : i < ms.length) : mp.maps[i]? = some ms[i] := by
  rw [h.maps, List.getElem?_append_left hi, List.getElem?_eq_getElem hi]

theorem IsPalindrome.get_back {mp : Mapping} {ms : List StepMap} (h : IsPalindrome mp ms) (i : Nat)
    (hi : i < ms.length) : mp.maps[2 * ms.length - 1 - i]? = some ms[i].invert := by
  rw [h.maps, List.getElem?_append_right (by omega)]
  have e : 2 * ms.length - 1 - i - ms.length = ms.length - 1 - i := by omega
  rw [e, List.getElem?_map, List.getElem?_reverse (by omega)]
  have e2 : ms.length - 1 - (ms.length - 1 - i) = i := by omega
  rw [e2, List.getElem?_eq_getElem hi]
  rfl

/-- the inverses of a prefix of the history, applied last map first -/
def unwind (assoc : Int) (pre : List StepMap) (p : Int) : Int :=
  pre.foldr (fun m q => m.invert.map q assoc) p

theorem unwind_take_succ (assoc : Int) (ms : List StepMap) (j : Nat) (hj : j < ms.length) (p : Int) :
    unwind assoc (ms.take (j + 1)) p = unwind assoc (ms.take j) (ms[j].invert.map p assoc) := by
  unfold unwind
  rw [List.take_add_one, List.getElem?_eq_getElem hj, Option.toList_some, List.foldr_append]
  rfl

/-- second half of the palindrome: the inverse maps are applied one after the other (the mirror of
    each of them precedes it, so there is never a jump) -/
theorem palin_back {mp : Mapping} {ms : List StepMap} (h : IsPalindrome mp ms) (assoc : Int) :
    ∀ (j idx : Nat), idx + j = 2 * ms.length → j ≤ ms.length →
      ∀ (fuel : Nat) (p : Int) (del : Nat), j < fuel →
      (mappingMapAux mp assoc fuel idx p del).map (·.pos) = some (unwind assoc (ms.take j) p) := by
  intro j
  induction j with
  | zero =>
    intro idx hidx _ fuel p del _
    rw [mappingMapAux_done mp assoc fuel idx p del (by rw [h.to]; omega)]
    simp [unwind]
  | succ j ih =>
    intro idx hidx hj fuel p del hf
    obtain ⟨fuel, rfl⟩ : ∃ f, fuel = f + 1 := ⟨fuel - 1, by omega⟩
    have hidx' : idx = 2 * ms.length - 1 - j := by omega
    have hsm := h.get_back j (by omega)
    rw [← hidx'] at hsm
    rw [mappingMapAux_step_nojump mp assoc fuel idx p del ms[j].invert (by rw [h.to]; omega) hsm
      (Or.inr (fun corr hc => by
        rw [h.mirror idx (by omega)] at hc
        have := Option.some.inj hc
        omega))]
    rw [ih (idx + 1) (by omega) (by omega) fuel _ _ (by omega), unwind_take_succ assoc ms j (by omega)]
    rfl

/-- first half of the palindrome: at map `j`, either the position has a recover value, jumps to the
    mirror of map `j` and is recovered there, or it is mapped forward; in both cases the inverses of
    the maps already passed bring it back -/
theorem palin_fwd {mp : Mapping} {ms : List StepMap} (h : IsPalindrome mp ms) (assoc : Int)
    (hrt : ∀ m ∈ ms, RoundTrips m assoc) (pos0 : Int) :
    ∀ (n j : Nat), j + n = ms.length →
      ∀ (fuel : Nat) (p : Int) (del : Nat), 2 * ms.length - j < fuel →
      unwind assoc (ms.take j) p = pos0 →
      (mappingMapAux mp assoc fuel j p del).map (·.pos) = some pos0 := by
  intro n
  induction n with
  | zero =>
    intro j hj fuel p del hf hu
    rw [palin_back h assoc j j (by omega) (by omega) fuel p del (by omega), hu]
  | succ n ih =>
    intro j hj fuel p del hf hu
    obtain ⟨fuel, rfl⟩ : ∃ f, fuel = f + 1 := ⟨fuel - 1, by omega⟩
    have hjl : j < ms.length := by omega
    have hsm := h.get_fwd j hjl
    obtain ⟨hnone, hsome⟩ := hrt ms[j] (List.getElem_mem hjl) p
    cases hrec : (ms[j].mapResult p assoc).recover with
    | none =>
      rw [mappingMapAux_step_nojump mp assoc fuel j p del ms[j] (by rw [h.to]; omega) hsm
        (Or.inl hrec)]
      apply ih (j + 1) (by omega) fuel _ _ (by omega)
      rw [unwind_take_succ assoc ms j hjl]
      have := hnone hrec
      unfold StepMap.map at this
      unfold StepMap.map
      rw [this, hu]
    | some rv =>
      rw [mappingMapAux_step_mirror mp assoc fuel j p del ms[j] ms[j].invert rv
        (2 * ms.length - 1 - j) p (by rw [h.to]; omega) hsm hrec (h.mirror j (by omega)) (by omega)
        (by rw [h.to]; omega) (h.get_back j hjl) (hsome rv hrec)]
      rw [palin_back h assoc j (2 * ms.length - 1 - j + 1) (by omega) (by omega) fuel p del (by omega),
        hu]

theorem getMirrorAux_none_of_nil (mp : Mapping) (hm : mp.mirror.isEmpty = true) (i : Nat) :
    mp.getMirror i = none := by
  have : mp.mirror = [] := List.isEmpty_iff.1 hm
  simp [Mapping.getMirror, this, getMirrorAux]

/-- **round trip through a palindrome-shaped mapping** (as `Mapping.map` computes it) -/
theorem palin_roundtrip {mp : Mapping} {ms : List StepMap} (h : IsPalindrome mp ms)
    (hfrom : mp.from_ = 0) (assoc : Int) (hrt : ∀ m ∈ ms, RoundTrips m assoc) (pos : Int) :
    mp.map pos assoc = some pos := by
  unfold Mapping.map
  by_cases hm : mp.mirror.isEmpty = true
  · have hk : ms.length = 0 := by
      by_cases hk : ms.length = 0
      · exact hk
      · have := h.mirror 0 (by omega)
        rw [getMirrorAux_none_of_nil mp hm] at this
        cases this
    have hms : ms = [] := List.eq_nil_of_length_eq_zero hk
    subst hms
    have h1 := h.maps
    have h2 := h.to
    simp at h1 h2
    simp [hm, h1, h2, Mapping.mapPlain]
  · simp only [hm, Bool.false_eq_true, if_false]
    unfold Mapping.mapResult
    rw [hfrom, h.to]
    exact palin_fwd h assoc hrt pos ms.length 0 (by omega) _ pos 0 (by omega) (by simp [unwind])

/-- the second half of a palindrome-shaped mapping, taken as a slice, is the plain composition of
    the inverted maps, last map first (no complete mirror pair lies inside the slice) -/
theorem palin_slice_back {mp : Mapping} {ms : List StepMap} (h : IsPalindrome mp ms)
    (assoc : Int) (pos : Int) :
    (mp.slice ms.length (some (2 * ms.length))).map pos assoc =
      some (ms.foldr (fun m q => m.invert.map q assoc) pos) := by
  have hs : IsPalindrome (mp.slice ms.length (some (2 * ms.length))) ms :=
    ⟨h.maps, rfl, h.mirror⟩
  unfold Mapping.map
  by_cases hm : (mp.slice ms.length (some (2 * ms.length))).mirror.isEmpty = true
  · have hk : ms.length = 0 := by
      by_cases hk : ms.length = 0
      · exact hk
      · have := hs.mirror 0 (by omega)
        rw [getMirrorAux_none_of_nil _ hm] at this
        cases this
    have hms : ms = [] := List.eq_nil_of_length_eq_zero hk
    subst hms
    rw [if_pos hm]
    simp [Mapping.mapPlain, Mapping.slice]
  · simp only [hm, Bool.false_eq_true, if_false]
    unfold Mapping.mapResult
    have e1 : (mp.slice ms.length (some (2 * ms.length))).from_ = ms.length := rfl
    have e2 : (mp.slice ms.length (some (2 * ms.length))).to = 2 * ms.length := rfl
    rw [e1, e2, palin_back hs assoc ms.length ms.length (by omega) (Nat.le_refl _) _ pos 0 (by omega),
      List.take_length]
    rfl

/-! `palindrome ms` has the palindrome shape -/

theorem appendMap_none_eq (acc : Mapping) (sm : StepMap) :
    acc.appendMap sm = { acc with maps := acc.maps ++ [sm], to := acc.maps.length + 1 } := rfl

theorem appendMap_some_eq (acc : Mapping) (sm : StepMap) (i : Nat) :
    acc.appendMap sm (some i) =
      { acc with maps := acc.maps ++ [sm], to := acc.maps.length + 1,
                 mirror := acc.mirror ++ [acc.maps.length, i] } := by
  simp [Mapping.appendMap, Mapping.setMirror]

theorem foldl_appendMap_eq : ∀ (ms : List StepMap) (acc : Mapping), acc.to = acc.maps.length →
    ms.foldl (fun acc m => acc.appendMap m) acc =
      { acc with maps := acc.maps ++ ms, to := acc.maps.length + ms.length }
  | [], acc, h => by cases acc; simp_all
  | m :: rest, acc, h => by
    rw [List.foldl_cons, foldl_appendMap_eq rest _ (by simp [appendMap_none_eq])]
    simp [appendMap_none_eq]
    omega

/-- the mirror entries the second loop registers, when it starts with `base` maps -/
def mirrorOf : Nat → List (StepMap × Nat) → List Nat
  | _, [] => []
  | base, mi :: rest => base :: mi.2 :: mirrorOf (base + 1) rest

theorem foldl_undo_eq : ∀ (l : List (StepMap × Nat)) (acc : Mapping), acc.to = acc.maps.length →
    l.foldl (fun acc mi => acc.appendMap mi.1.invert (some mi.2)) acc =
      { acc with maps := acc.maps ++ l.map (fun mi => mi.1.invert),
                 to := acc.maps.length + l.length,
                 mirror := acc.mirror ++ mirrorOf acc.maps.length l }
  | [], acc, h => by cases acc; simp_all [mirrorOf]
  | mi :: rest, acc, h => by
    rw [List.foldl_cons, foldl_undo_eq rest _ (by simp [appendMap_some_eq])]
    simp [appendMap_some_eq, mirrorOf]
    omega

theorem getMirrorAux_cons2 (n a b : Nat) (rest : List Nat) :
    getMirrorAux n (a :: b :: rest) =
      if a = n then some b else if b = n then some a else getMirrorAux n rest := rfl

theorem getMirrorAux_mirrorOf : ∀ (l : List (StepMap × Nat)) (b c : Nat), c ≤ b →
    (∀ s (hs : s < l.length), l[s].2 + s + 1 = c) →
    ∀ s, s < l.length →
      getMirrorAux (b + s) (mirrorOf b l) = some (c - 1 - s) ∧
      getMirrorAux (c - 1 - s) (mirrorOf b l) = some (b + s)
  | [], _, _, _, _, s, hs => by simp at hs
  | mi :: rest, b, c, hcb, hl, s, hs => by
    have h0 := hl 0 (by simp)
    simp only [List.getElem_cons_zero] at h0
    have hrest : ∀ s (hs : s < rest.length), rest[s].2 + s + 1 = c - 1 := fun s hs' => by
      have := hl (s + 1) (by simpa using hs')
      simp only [List.getElem_cons_succ] at this
      omega
    rw [mirrorOf, getMirrorAux_cons2, getMirrorAux_cons2]
    cases s with
    | zero =>
      constructor
      · simp; omega
      · rw [if_neg (by omega), if_pos (by omega)]; simp
    | succ s =>
      have hs' : s < rest.length := by simpa using hs
      have hsc := hrest s hs'
      obtain ⟨ih1, ih2⟩ := getMirrorAux_mirrorOf rest (b + 1) (c - 1) (by omega) hrest s hs'
      constructor
      · rw [if_neg (by omega), if_neg (by omega)]
        have e : b + (s + 1) = b + 1 + s := by omega
        rw [e, ih1]; congr 1; omega
      · rw [if_neg (by omega), if_neg (by omega)]
        have e : c - 1 - (s + 1) = c - 1 - 1 - s := by omega
        rw [e, ih2]; congr 1; omega

theorem palindrome_eq (ms : List StepMap) :
    palindrome ms =
      { maps := ms ++ ms.reverse.map StepMap.invert, mirror := mirrorOf ms.length ms.zipIdx.reverse,
        from_ := 0, to := 2 * ms.length } := by
  unfold palindrome
  simp only []
  rw [foldl_appendMap_eq ms _ rfl, foldl_undo_eq _ _ (by simp)]
  have e : (ms.zipIdx.reverse.map fun mi => mi.1.invert) = ms.reverse.map StepMap.invert := by
    have e' : (fun mi : StepMap × Nat => mi.1.invert) = StepMap.invert ∘ Prod.fst := rfl
    rw [e', ← List.map_map, List.map_reverse, List.zipIdx_map_fst]
  simp [e]
  omega

theorem palindrome_isPalindrome (ms : List StepMap) : IsPalindrome (palindrome ms) ms := by
  rw [palindrome_eq]
  refine ⟨rfl, rfl, fun i hi => ?_⟩
  have hl : ∀ s (hs : s < ms.zipIdx.reverse.length), (ms.zipIdx.reverse)[s].2 + s + 1 = ms.length := by
    intro s hs
    simp at hs
    rw [List.getElem_reverse]
    simp
    omega
  simp only [Mapping.getMirror]
  by_cases hik : i < ms.length
  · have := (getMirrorAux_mirrorOf _ ms.length ms.length (Nat.le_refl _) hl (ms.length - 1 - i)
      (by simp; omega)).2
    have e : ms.length - 1 - (ms.length - 1 - i) = i := by omega
    rw [e] at this
    rw [this]; congr 1; omega
  · have := (getMirrorAux_mirrorOf _ ms.length ms.length (Nat.le_refl _) hl (i - ms.length)
      (by simp; omega)).1
    have e : ms.length + (i - ms.length) = i := by omega
    rw [e] at this
    rw [this]; congr 1; omega

theorem palindrome_from (ms : List StepMap) : (palindrome ms).from_ = 0 := by
  rw [palindrome_eq]

end PM
