/- Proofs/FitMeasure.lean — the termination measure of the Fitter's loop (PM/Fitter.lean `fitMeasure`):
   node count and height under the fragment helpers, and the arithmetic of the flattened
   lexicographic measure. -/
import PM.Fitter
import Proofs.Fitter
import Proofs.FitterText
namespace PM

/-! ### node count and height -/

theorem Node.ncount_pos (n : Node) : 1 ≤ n.ncount := by
  cases n <;> simp [Node.ncount] <;> omega

theorem Node.height_pos (n : Node) : 1 ≤ n.height := by
  cases n <;> simp [Node.height] <;> omega

theorem fcount_nil : fcount [] = 0 := by simp [fcount]

theorem fcount_cons (n : Node) (ns : List Node) : fcount (n :: ns) = n.ncount + fcount ns := by
  simp [fcount]

theorem fheight_nil : fheight [] = 0 := by simp [fheight]

theorem fheight_cons (n : Node) (ns : List Node) : fheight (n :: ns) = max n.height (fheight ns) := by
  simp [fheight]

theorem fcount_pos_of_ne_nil : ∀ (l : List Node), l ≠ [] → 1 ≤ fcount l
  | [], h => absurd rfl h
  | n :: ns, _ => by rw [fcount_cons]; have := n.ncount_pos; omega

theorem fcount_eq_zero {l : List Node} (h : fcount l = 0) : l = [] := by
  cases l with
  | nil => rfl
  | cons n ns => rw [fcount_cons] at h; have := n.ncount_pos; omega

theorem fcount_take_drop : ∀ (l : List Node) (k : Nat), fcount l = fcount (l.take k) + fcount (l.drop k)
  | [], k => by simp [fcount_nil]
  | n :: ns, 0 => by simp [fcount_nil]
  | n :: ns, k + 1 => by
    simp only [List.take_succ_cons, List.drop_succ_cons, fcount_cons]
    have := fcount_take_drop ns k
    omega

theorem fcount_take_pos : ∀ (l : List Node) (k : Nat), l ≠ [] → 1 ≤ k → 1 ≤ fcount (l.take k)
  | [], _, h, _ => absurd rfl h
  | n :: ns, k + 1, _, _ => by
    rw [List.take_succ_cons, fcount_cons]; have := n.ncount_pos; omega

theorem fheight_drop_le : ∀ (l : List Node) (k : Nat), fheight (l.drop k) ≤ fheight l
  | [], k => by simp
  | n :: ns, 0 => by simp
  | n :: ns, k + 1 => by
    rw [List.drop_succ_cons, fheight_cons]
    have := fheight_drop_le ns k
    omega

theorem Node.ncount_elem (t : TypeId) (a : Attrs) (m : Marks) (k : List Node) :
    (Node.elem t a m k).ncount = 1 + fcount k := by simp [Node.ncount]

theorem Node.height_elem (t : TypeId) (a : Attrs) (m : Marks) (k : List Node) :
    (Node.elem t a m k).height = 1 + fheight k := by simp [Node.height]

theorem Node.kids_height (n : Node) : fheight n.kids + 1 ≤ n.height := by
  cases n with
  | text s m => simp [Node.kids, Node.height, fheight_nil]
  | leaf t a m => simp [Node.kids, Node.height, fheight_nil]
  | elem t a m k => simp [Node.kids, Node.height_elem]; omega

/-- what `drop_from_fragment` removes, counted in nodes -/
theorem dropFromFragment_count : ∀ (d : Nat) (frag r inner : List Node) (count : Nat),
    dropFromFragment frag d count = .ok r → contentAt frag d = .ok inner →
    fcount frag = fcount (inner.take count) + fcount r
  | 0, frag, r, inner, count, h, hc => by
    have h1 := pure_ok h
    have h2 := pure_ok hc
    subst h1; subst h2
    exact fcount_take_drop _ _
  | d + 1, frag, r, inner, count, h, hc => by
    unfold dropFromFragment at h
    split at h
    · rename_i t a m kids rest
      obtain ⟨inner', hi, h⟩ := FM.bind_ok h
      have := pure_ok h
      subst this
      simp only [contentAt, Node.kids] at hc
      have ih := dropFromFragment_count d kids inner' inner count hi hc
      simp only [fcount_cons, Node.ncount_elem]
      omega
    · simp [throw, throwThe, MonadExceptOf.throw] at h

theorem dropFromFragment_height : ∀ (d : Nat) (frag r : List Node) (count : Nat),
    dropFromFragment frag d count = .ok r → fheight r ≤ fheight frag
  | 0, frag, r, count, h => by
    have h1 := pure_ok h
    subst h1
    exact fheight_drop_le _ _
  | d + 1, frag, r, count, h => by
    unfold dropFromFragment at h
    split at h
    · rename_i t a m kids rest
      obtain ⟨inner', hi, h⟩ := FM.bind_ok h
      have := pure_ok h
      subst this
      have ih := dropFromFragment_height d kids inner' count hi
      simp only [fheight_cons, Node.height_elem]
      omega
    · simp [throw, throwThe, MonadExceptOf.throw] at h

/-- dropping nothing changes nothing -/
theorem dropFromFragment_zero : ∀ (d : Nat) (frag r : List Node),
    dropFromFragment frag d 0 = .ok r → r = frag
  | 0, frag, r, h => by
    have h1 := pure_ok h
    subst h1
    simp
  | d + 1, frag, r, h => by
    unfold dropFromFragment at h
    split at h
    · rename_i t a m kids rest
      obtain ⟨inner', hi, h⟩ := FM.bind_ok h
      have := pure_ok h
      subst this
      rw [dropFromFragment_zero d kids inner' hi]
    · simp [throw, throwThe, MonadExceptOf.throw] at h

/-- a content level `d` levels down exists only in content at least that high -/
theorem contentAt_height : ∀ (d : Nat) (frag inner : List Node),
    contentAt frag d = .ok inner → d + fheight inner ≤ fheight frag
  | 0, frag, inner, h => by
    have := pure_ok h
    subst this
    omega
  | d + 1, frag, inner, h => by
    unfold contentAt at h
    split at h
    · simp [throw, throwThe, MonadExceptOf.throw] at h
    · rename_i n rest
      have ih := contentAt_height d n.kids inner h
      rw [fheight_cons]
      have := n.kids_height
      omega

/-- the level above: its first node is the parent of the level -/
theorem contentAt_pred : ∀ (d : Nat) (frag inner : List Node),
    contentAt frag (d + 1) = .ok inner → ∃ p rest, contentAt frag d = .ok (p :: rest) ∧ p.kids = inner
  | 0, frag, inner, h => by
    unfold contentAt at h
    split at h
    · simp [throw, throwThe, MonadExceptOf.throw] at h
    · rename_i n rest
      have := pure_ok h
      exact ⟨n, rest, rfl, this⟩
  | d + 1, frag, inner, h => by
    unfold contentAt at h
    split at h
    · simp [throw, throwThe, MonadExceptOf.throw] at h
    · rename_i n rest
      obtain ⟨p, r, hp, hk⟩ := contentAt_pred d n.kids inner h
      exact ⟨p, r, by simp only [contentAt]; exact hp, hk⟩

/-! ### arithmetic of the measure -/

theorem Slice.openStart_le_openBound (u : Slice) : u.openStart ≤ u.openBound := by
  unfold Slice.openBound; omega

/-- the two lower components together stay below one unit of the node count -/
theorem fitMeasure_tail_lt (B os c : Nat) (hos : os ≤ B) (hc : c ≤ os + 1) :
    (B - os) * (B + 2) + c < (B + 1) * (B + 2) := by
  obtain ⟨a, rfl⟩ : ∃ a, B = a + os := ⟨B - os, by omega⟩
  have e1 : a + os - os = a := by omega
  rw [e1]
  have e2 : (a + os + 1) * (a + os + 2) = a * (a + os + 2) + (os + 1) * (a + os + 2) := by
    rw [show a + os + 1 = a + (os + 1) by omega, Nat.add_mul]
  have e3 : (os + 1) * 2 ≤ (os + 1) * (a + os + 2) := Nat.mul_le_mul_left _ (by omega)
  rw [e2]
  omega

/-- a step that removes a node of the unplaced content decreases the measure, whatever it does to
    the open depths (they never grow beyond the old bound) -/
theorem fitMeasure_lt_of_count (u u' : Slice) (c c' : Nat)
    (hn : fcount u'.content < fcount u.content) (hB : u'.openBound ≤ u.openBound)
    (hc' : c' ≤ u'.openStart + 1) : fitMeasure u' c' < fitMeasure u c := by
  unfold fitMeasure
  have htail := fitMeasure_tail_lt u'.openBound u'.openStart c' u'.openStart_le_openBound hc'
  have hK : (u'.openBound + 1) * (u'.openBound + 2) ≤ (u.openBound + 1) * (u.openBound + 2) :=
    Nat.mul_le_mul (by omega) (by omega)
  have h1 : (fcount u'.content + 1) * ((u'.openBound + 1) * (u'.openBound + 2)) ≤
      fcount u.content * ((u.openBound + 1) * (u.openBound + 2)) := Nat.mul_le_mul (by omega) hK
  rw [Nat.add_mul, Nat.one_mul] at h1
  omega

/-- `open_more` decreases the measure: the node count and the bound stay, `open_start` grows -/
theorem fitMeasure_lt_of_open (u u' : Slice) (c c' : Nat) (hcontent : u'.content = u.content)
    (hos : u'.openStart = u.openStart + 1) (hh : u.openStart + 1 ≤ fheight u.content)
    (hc' : c' ≤ u'.openStart + 1) : fitMeasure u' c' < fitMeasure u c := by
  have hB : u.openBound = fheight u.content := by unfold Slice.openBound; omega
  have hB' : u'.openBound = fheight u.content := by unfold Slice.openBound; rw [hcontent, hos]; omega
  unfold fitMeasure
  rw [hB, hB', hcontent, hos]
  obtain ⟨a, ha⟩ : ∃ a, fheight u.content = a + (u.openStart + 1) := ⟨fheight u.content - (u.openStart + 1), by omega⟩
  rw [ha]
  have e1 : a + (u.openStart + 1) - (u.openStart + 1) = a := by omega
  have e2 : a + (u.openStart + 1) - u.openStart = a + 1 := by omega
  rw [e1, e2, Nat.add_mul a 1, Nat.one_mul]
  omega

theorem fitMeasure_lt_of_c (u : Slice) (c c' : Nat) (h : c' < c) : fitMeasure u c' < fitMeasure u c := by
  unfold fitMeasure; omega

end PM
