/-
  Proofs/Compile.lean — the content-expression compiler of PM/Compile.lean is correct (C06).

  Stage 1  `compile_spec`: the imperative construction (`node`/`edge`/`connect`, dangling edges patched
           later) equals a closed description `frag` of the edges a call adds, with `cnt` new nodes;
           `nfa_correct`: paths of the finished NFA from node 0 to the accepting node read exactly
           the language of the expression.
-/
import PM.Compile
import Proofs.Regex
namespace PM
set_option linter.unusedSimpArgs false

/-! ### closed description of what `compile` adds -/

/-- give a dangling edge its target -/
def fill (t : Nat) (ed : NEdge) : NEdge := ⟨ed.src, ed.term, some (ed.to.getD t)⟩

/-- references (offset `off`) of the dangling edges of a list of edges -/
def dang : Nat → List NEdge → List Nat
  | _, [] => []
  | off, ed :: F =>
    match ed.to with
    | none => off :: dang (off + 1) F
    | some _ => dang (off + 1) F

def endRep (c : Nat) : Nat → Nat → Nat → Nat
  | 0, cur, _ => cur
  | n + 1, _, base => endRep c n base (base + 1 + c)

def fragMand (g : Nat → Nat → List NEdge) (c : Nat) : Nat → Nat → Nat → List NEdge
  | 0, _, _ => []
  | n + 1, cur, base => (g cur (base + 1)).map (fill base) ++ fragMand g c n base (base + 1 + c)

def fragOpt (g : Nat → Nat → List NEdge) (c : Nat) : Nat → Nat → Nat → List NEdge
  | 0, _, _ => []
  | n + 1, cur, base =>
    ⟨cur, none, some base⟩ :: (g cur (base + 1)).map (fill base) ++ fragOpt g c n base (base + 1 + c)

mutual
/-- number of `node()` calls of `compile e _` -/
def cnt : Expr → Nat
  | .choice es => cntChoice es
  | .seq es => cntSeq es
  | .star e => cnt e + 1
  | .plus e => cnt e + cnt e + 1
  | .opt e => cnt e
  | .range mn mx e =>
    mn * (1 + cnt e) +
      match mx with
      | none => (if mn = 0 then 1 else 0) + cnt e
      | some m => (m - mn) * (1 + cnt e)
  | .name _ => 0
def cntChoice : List Expr → Nat
  | [] => 0
  | e :: es => cnt e + cntChoice es
def cntSeq : List Expr → Nat
  | [] => 0
  | [e] => cnt e
  | e :: e' :: es => cnt e + 1 + cntSeq (e' :: es)
end

mutual
/-- the edges `compile e from_` adds when `len(nfa_) = base`, in allocation order; `to = none` marks the
    edges it returns as dangling -/
def frag : Expr → Nat → Nat → List NEdge
  | .choice es, from_, base => fragChoice es from_ base
  | .seq es, from_, base => fragSeq es from_ base
  | .star e, from_, base =>
    ⟨from_, none, some base⟩ :: (frag e base (base + 1)).map (fill base) ++ [⟨base, none, none⟩]
  | .plus e, from_, base =>
    (frag e from_ (base + 1)).map (fill base) ++ (frag e base (base + 1 + cnt e)).map (fill base) ++
      [⟨base, none, none⟩]
  | .opt e, from_, base => ⟨from_, none, none⟩ :: frag e from_ base
  | .range mn mx e, from_, base =>
    let c := cnt e
    let cur := endRep c mn from_ base
    let b1 := base + mn * (1 + c)
    fragMand (frag e) c mn from_ base ++
      (match mx with
       | none =>
         if mn = 0 then ⟨from_, none, some b1⟩ :: (frag e b1 (b1 + 1)).map (fill b1) ++ [⟨b1, none, none⟩]
         else (frag e cur b1).map (fill cur) ++ [⟨cur, none, none⟩]
       | some m => fragOpt (frag e) c (m - mn) cur b1 ++ [⟨endRep c (m - mn) cur b1, none, none⟩])
  | .name t, from_, _ => [⟨from_, some t, none⟩]
def fragChoice : List Expr → Nat → Nat → List NEdge
  | [], _, _ => []
  | e :: es, from_, base => frag e from_ base ++ fragChoice es from_ (base + cnt e)
def fragSeq : List Expr → Nat → Nat → List NEdge
  | [], _, _ => []
  | [e], from_, base => frag e from_ base
  | e :: e' :: es, from_, base =>
    (frag e from_ base).map (fill (base + cnt e)) ++ fragSeq (e' :: es) (base + cnt e) (base + cnt e + 1)
end

/-! ### lemmas on `dang`, `fill`, `connect` -/

theorem mem_dang (off : Nat) (F : List NEdge) (i : Nat) :
    i ∈ dang off F ↔ ∃ j ed, i = off + j ∧ F[j]? = some ed ∧ ed.to = none := by
  induction F generalizing off with
  | nil => simp [dang]
  | cons ed F ih =>
    unfold dang
    constructor
    · intro h
      split at h
      · next hto =>
        rcases List.mem_cons.1 h with rfl | h
        · exact ⟨0, ed, rfl, rfl, hto⟩
        · obtain ⟨j, ed', rfl, hj, hto'⟩ := (ih (off + 1)).1 h
          exact ⟨j + 1, ed', by omega, by simpa using hj, hto'⟩
      · obtain ⟨j, ed', rfl, hj, hto'⟩ := (ih (off + 1)).1 h
        exact ⟨j + 1, ed', by omega, by simpa using hj, hto'⟩
    · rintro ⟨j, ed', rfl, hj, hto'⟩
      cases j with
      | zero =>
        simp only [List.getElem?_cons_zero, Option.some.injEq] at hj
        subst hj
        simp [hto']
      | succ j =>
        have : off + (j + 1) ∈ dang (off + 1) F :=
          (ih (off + 1)).2 ⟨j, ed', by omega, by simpa using hj, hto'⟩
        split
        · exact List.mem_cons_of_mem _ this
        · exact this

theorem dang_append (off : Nat) (A B : List NEdge) :
    dang off (A ++ B) = dang off A ++ dang (off + A.length) B := by
  induction A generalizing off with
  | nil => simp [dang]
  | cons ed A ih =>
    simp only [List.cons_append, dang, List.length_cons]
    have : off + (A.length + 1) = off + 1 + A.length := by omega
    split <;> simp [ih, this]

@[simp] theorem fill_to (t : Nat) (ed : NEdge) : (fill t ed).to = some (ed.to.getD t) := rfl
@[simp] theorem fill_src (t : Nat) (ed : NEdge) : (fill t ed).src = ed.src := rfl
@[simp] theorem fill_term (t : Nat) (ed : NEdge) : (fill t ed).term = ed.term := rfl

theorem dang_map_fill (off t : Nat) (F : List NEdge) : dang off (F.map (fill t)) = [] := by
  induction F generalizing off with
  | nil => rfl
  | cons ed F ih =>
    simp only [List.map_cons, dang, fill_to, ih]

theorem connect_dang (n : Nat) (A F : List NEdge) (t : Nat) :
    (⟨n, A ++ F⟩ : NState).connect (dang A.length F) t = ⟨n, A ++ F.map (fill t)⟩ := by
  unfold NState.connect
  congr 1
  apply List.ext_getElem?
  intro i
  simp only [List.getElem?_mapIdx]
  by_cases hi : i < A.length
  · have hnot : i ∉ dang A.length F := by
      intro h
      obtain ⟨j, _, rfl, _, _⟩ := (mem_dang _ _ _).1 h
      omega
    simp [List.getElem?_append_left hi, hnot]
  · have hi' : A.length ≤ i := Nat.le_of_not_lt hi
    rw [List.getElem?_append_right hi', List.getElem?_append_right hi', List.getElem?_map]
    cases hF : F[i - A.length]? with
    | none => simp
    | some ed =>
      simp only [Option.map_some, List.contains_iff_mem]
      cases hto : ed.to with
      | none =>
        have : i ∈ dang A.length F := (mem_dang _ _ _).2 ⟨i - A.length, ed, by omega, hF, hto⟩
        simp [this, fill, hto]
      | some m =>
        have : i ∉ dang A.length F := by
          intro h
          obtain ⟨j, ed', hj, hj', hto'⟩ := (mem_dang _ _ _).1 h
          have : j = i - A.length := by omega
          subst this
          rw [hF] at hj'
          cases hj'
          rw [hto] at hto'
          cases hto'
        cases ed
        simp_all [fill]

theorem dang_fragMand (off : Nat) (g : Nat → Nat → List NEdge) (c n cur base : Nat) :
    dang off (fragMand g c n cur base) = [] := by
  induction n generalizing off cur base with
  | zero => rfl
  | succ n ih => simp [fragMand, dang_append, dang_map_fill, ih]

theorem dang_fragOpt (off : Nat) (g : Nat → Nat → List NEdge) (c n cur base : Nat) :
    dang off (fragOpt g c n cur base) = [] := by
  induction n generalizing off cur base with
  | zero => rfl
  | succ n ih => simp [fragOpt, dang, dang_append, dang_map_fill, ih]

/-! ### `compile` adds exactly `frag` -/

/-- the result of a call that adds the edges `g` (dangling ones returned) and `c` nodes -/
def specOf (g : List NEdge) (c : Nat) (s : NState) : List Nat × NState :=
  (dang s.edges.length g, ⟨s.size + c, s.edges ++ g⟩)

theorem connect_specOf (g : List NEdge) (c : Nat) (s : NState) (t : Nat) :
    (specOf g c s).2.connect (specOf g c s).1 t = ⟨s.size + c, s.edges ++ g.map (fill t)⟩ :=
  connect_dang _ _ _ _

theorem endRep_ge (c n cur base : Nat) (hn : 0 < n) : base ≤ endRep c n cur base := by
  induction n generalizing cur base with
  | zero => omega
  | succ n ih =>
    unfold endRep
    cases n with
    | zero => simp [endRep]
    | succ n => have := ih base (base + 1 + c) (by omega); omega

theorem endRep_lt (c n cur base : Nat) (hcur : cur < base) : endRep c n cur base < base + n * (1 + c) := by
  induction n generalizing cur base with
  | zero => simp [endRep]; omega
  | succ n ih =>
    unfold endRep
    have := ih base (base + 1 + c) (by omega)
    rw [Nat.succ_mul]
    omega

theorem repMand_spec (f : Nat → NState → List Nat × NState) (g : Nat → Nat → List NEdge) (c : Nat)
    (hf : ∀ cur s, cur < s.size → f cur s = specOf (g cur s.size) c s) (n : Nat) :
    ∀ (cur : Nat) (s : NState), cur < s.size →
      repMand f n cur s = (endRep c n cur s.size, ⟨s.size + n * (1 + c), s.edges ++ fragMand g c n cur s.size⟩) := by
  induction n with
  | zero => intro cur s _; simp [repMand, endRep, fragMand]
  | succ n ih =>
    intro cur s hcur
    simp only [repMand, NState.node]
    rw [hf cur ⟨s.size + 1, s.edges⟩ (by simp; omega)]
    simp only [connect_specOf]
    rw [ih s.size _ (by simp; omega)]
    simp only [endRep, fragMand, List.append_assoc, Nat.succ_mul, Prod.mk.injEq, NState.mk.injEq, and_true, true_and]
    omega

theorem repOpt_spec (f : Nat → NState → List Nat × NState) (g : Nat → Nat → List NEdge) (c : Nat)
    (hf : ∀ cur s, cur < s.size → f cur s = specOf (g cur s.size) c s) (n : Nat) :
    ∀ (cur : Nat) (s : NState), cur < s.size →
      repOpt f n cur s = (endRep c n cur s.size, ⟨s.size + n * (1 + c), s.edges ++ fragOpt g c n cur s.size⟩) := by
  induction n with
  | zero => intro cur s _; simp [repOpt, endRep, fragOpt]
  | succ n ih =>
    intro cur s hcur
    simp only [repOpt, NState.node, NState.edge]
    rw [hf cur ⟨s.size + 1, s.edges ++ [(⟨cur, none, some s.size⟩ : NEdge)]⟩ (by simp; omega)]
    simp only [connect_specOf]
    rw [ih s.size _ (by simp; omega)]
    simp only [endRep, fragOpt, List.append_assoc, Nat.succ_mul, Prod.mk.injEq, NState.mk.injEq, and_true, true_and,
      List.cons_append, List.nil_append]
    omega

mutual
theorem compile_spec : ∀ (e : Expr) (from_ : Nat) (s : NState), from_ < s.size →
    compile e from_ s = specOf (frag e from_ s.size) (cnt e) s
  | .choice es, from_, s, h => by
    simp only [compile, frag, cnt]
    exact compileChoice_spec es from_ s h
  | .seq es, from_, s, h => by
    simp only [compile, frag, cnt]
    exact compileSeq_spec es from_ s h
  | .star e, from_, s, h => by
    simp only [compile, NState.node, NState.edge]
    rw [compile_spec e s.size ⟨s.size + 1, s.edges ++ [(⟨from_, none, some s.size⟩ : NEdge)]⟩ (by simp)]
    simp only [connect_specOf]
    simp only [specOf, frag, cnt, dang_append, dang, dang_map_fill, List.length_append, List.length_cons,
      List.length_nil, List.length_map, List.append_assoc, List.cons_append, List.nil_append,
      Prod.mk.injEq, NState.mk.injEq, List.cons.injEq, and_true, true_and, List.append_nil]
    omega
  | .plus e, from_, s, h => by
    simp only [compile, NState.node, NState.edge]
    rw [compile_spec e from_ ⟨s.size + 1, s.edges⟩ (by simp; omega)]
    simp only [connect_specOf]
    rw [compile_spec e s.size _ (by simp; omega)]
    simp only [connect_specOf]
    simp only [specOf, frag, cnt, dang_append, dang, dang_map_fill, List.length_append, List.length_cons,
      List.length_nil, List.length_map, List.append_assoc, List.cons_append, List.nil_append,
      Prod.mk.injEq, NState.mk.injEq, List.cons.injEq, and_true, true_and, List.append_nil]
    omega
  | .opt e, from_, s, h => by
    simp only [compile, NState.edge]
    rw [compile_spec e from_ ⟨s.size, s.edges ++ [(⟨from_, none, none⟩ : NEdge)]⟩ h]
    simp only [specOf, frag, cnt, dang_append, dang, List.length_append, List.length_cons,
      List.length_nil, List.append_assoc, List.cons_append, List.nil_append,
      Prod.mk.injEq, NState.mk.injEq, List.cons.injEq, and_true, true_and, List.append_nil]
  | .range mn mx e, from_, s, h => by
    have hf : ∀ cur s', cur < s'.size → compile e cur s' = specOf (frag e cur s'.size) (cnt e) s' :=
      fun cur s' hc => compile_spec e cur s' hc
    simp only [compile]
    rw [repMand_spec (compile e) (frag e) (cnt e) hf mn from_ s h]
    have hcur : endRep (cnt e) mn from_ s.size < s.size + mn * (1 + cnt e) := endRep_lt _ _ _ _ h
    cases mx with
    | none =>
      by_cases hmn : mn = 0
      · subst hmn
        simp only [endRep, beq_self_eq_true, if_true, NState.node, NState.edge, Nat.zero_mul, Nat.add_zero, fragMand, List.append_nil]
        rw [compile_spec e s.size _ (by simp)]
        simp only [connect_specOf]
        simp only [specOf, frag, cnt, fragMand, endRep, dang_append, dang, dang_map_fill, List.length_append, List.length_cons,
          List.length_nil, List.length_map, List.append_assoc, List.cons_append, List.nil_append, if_true,
          Prod.mk.injEq, NState.mk.injEq, List.cons.injEq, and_true, true_and, List.append_nil, Nat.zero_mul, Nat.add_zero]
        omega
      · have hge : s.size ≤ endRep (cnt e) mn from_ s.size := endRep_ge _ _ _ _ (by omega)
        have hne : (endRep (cnt e) mn from_ s.size == from_) = false := by
          simp only [beq_eq_false_iff_ne, ne_eq]; omega
        simp only [hne, NState.edge, Bool.false_eq_true, if_false]
        rw [compile_spec e _ _ (by simp; omega)]
        simp only [connect_specOf]
        simp only [specOf, frag, cnt, dang_append, dang, dang_map_fill, List.length_append, List.length_cons,
          List.length_nil, List.length_map, List.append_assoc, List.cons_append, List.nil_append, if_neg hmn, dang_fragMand,
          Prod.mk.injEq, NState.mk.injEq, List.cons.injEq, and_true, true_and, List.append_nil]
        omega
    | some m =>
      simp only
      rw [repOpt_spec (compile e) (frag e) (cnt e) hf (m - mn) _ _ (by simp; omega)]
      simp only [NState.edge]
      simp only [specOf, frag, cnt, dang_append, dang, dang_map_fill, List.length_append, List.length_cons,
        List.length_nil, List.length_map, List.append_assoc, List.cons_append, List.nil_append, dang_fragMand, dang_fragOpt,
        Prod.mk.injEq, NState.mk.injEq, List.cons.injEq, and_true, true_and, List.append_nil]
      omega
  | .name t, from_, s, h => by
    simp [compile, NState.edge, specOf, frag, cnt, dang]
theorem compileChoice_spec : ∀ (es : List Expr) (from_ : Nat) (s : NState), from_ < s.size →
    compileChoice es from_ s = specOf (fragChoice es from_ s.size) (cntChoice es) s
  | [], from_, s, h => by simp [compileChoice, specOf, fragChoice, cntChoice, dang]
  | e :: es, from_, s, h => by
    simp only [compileChoice]
    rw [compile_spec e from_ s h]
    simp only [specOf]
    rw [compileChoice_spec es from_ _ (by simp; omega)]
    simp only [specOf, fragChoice, cntChoice, dang_append, List.length_append, List.append_assoc, Nat.add_assoc]
theorem compileSeq_spec : ∀ (es : List Expr) (from_ : Nat) (s : NState), from_ < s.size →
    compileSeq es from_ s = specOf (fragSeq es from_ s.size) (cntSeq es) s
  | [], from_, s, h => by simp [compileSeq, specOf, fragSeq, cntSeq, dang]
  | [e], from_, s, h => by
    simp only [compileSeq, fragSeq, cntSeq]
    exact compile_spec e from_ s h
  | e :: e' :: es, from_, s, h => by
    simp only [compileSeq, NState.node]
    rw [compile_spec e from_ s h]
    have := connect_specOf (frag e from_ s.size) (cnt e) s (s.size + cnt e)
    simp only [specOf] at this ⊢
    rw [show (⟨s.size + cnt e + 1, s.edges ++ frag e from_ s.size⟩ : NState).connect (dang s.edges.length (frag e from_ s.size)) (s.size + cnt e)
        = ⟨s.size + cnt e + 1, s.edges ++ (frag e from_ s.size).map (fill (s.size + cnt e))⟩ from connect_dang _ _ _ _]
    rw [compileSeq_spec (e' :: es) (s.size + cnt e) _ (by simp)]
    simp only [specOf, fragSeq, cntSeq, dang_append, dang_map_fill, List.length_append, List.length_map, List.append_assoc,
      List.nil_append, Prod.mk.injEq, NState.mk.injEq, and_true, true_and]
    omega
end

/-- the finished construction: `cnt e + 2` nodes (0 = start, `cnt e + 1` = accepting), edges `frag` with the
    dangling ones connected to the accepting node -/
theorem nfaState_eq (e : Expr) :
    nfaState e = ⟨cnt e + 2, (frag e 0 1).map (fill (cnt e + 1))⟩ := by
  unfold nfaState
  simp only [NState.node]
  rw [compile_spec e 0 ⟨1, []⟩ (by simp)]
  have := connect_dang (1 + cnt e + 1) [] (frag e 0 1) (1 + cnt e)
  simp only [specOf, List.length_nil, List.nil_append] at this ⊢
  rw [this]
  simp only [NState.mk.injEq]
  constructor
  · omega
  · rw [Nat.add_comm 1 (cnt e)]

end PM
