/-
  Proofs/RoundTripMarks.lean — the mark bookkeeping of the import side on the serializer's own output: the marks of
  the enclosing emitted mark elements are first pending, then active in the open context, and a node inserted there
  gets exactly these marks.
-/
import Proofs.RoundTripDoc
namespace PM.RoundTrip
open PM PM.Dom PM.FromDom PM.DomWalk

/-- `m` can follow the marks of `set` in a mark set: rank not lower than theirs, different from all of them, no exclusion
    either way -/
def follows (S : Schema) (set : Marks) (m : Mark) : Prop :=
  ∀ o ∈ set, (o.ty ≤ m.ty ∧ o ≠ m) ∧ S.excludes m.ty o.ty = false ∧ S.excludes o.ty m.ty = false

theorem addToSetAux_follows (S : Schema) (m : Mark) (set : Marks) : ∀ (rest : Marks) (i : Nat),
    follows S rest m → addToSetAux S m set rest i none false = set ++ [m]
  | [], _, _ => by simp [addToSetAux]
  | o :: rest, i, h => by
    obtain ⟨h1, h2, h3⟩ := h o List.mem_cons_self
    have hne : m ≠ o := fun he => h1.2 he.symm
    have hgt : ¬ (o.ty > m.ty) := Nat.not_lt.2 h1.1
    unfold addToSetAux
    simp only [hne, if_false, h2, Bool.false_eq_true, h3, hgt, decide_false, Bool.and_false, Option.map_none]
    exact addToSetAux_follows S m set rest (i + 1) (fun x hx => h x (List.mem_cons_of_mem _ hx))

theorem addToSet_follows (S : Schema) (m : Mark) (set : Marks) (h : follows S set m) : m.addToSet S set = set ++ [m] :=
  addToSetAux_follows S m set set 0 h

theorem tAddToSetAux_follows (S : Schema) (m : TMark) (set : List TMark) : ∀ (rest : List TMark) (i : Nat),
    follows S (rest.map (·.2)) m.2 → tAddToSetAux S m set rest i none false = set ++ [m]
  | [], _, _ => by simp [tAddToSetAux]
  | o :: rest, i, h => by
    obtain ⟨h1, h2, h3⟩ := h o.2 (by simp)
    have hne : m.2 ≠ o.2 := fun he => h1.2 he.symm
    have hgt : ¬ (o.2.ty > m.2.ty) := Nat.not_lt.2 h1.1
    unfold tAddToSetAux
    simp only [hne, if_false, h2, Bool.false_eq_true, h3, hgt, decide_false, Bool.and_false, Option.map_none]
    exact tAddToSetAux_follows S m set rest (i + 1) (fun x hx => h x (by simp at hx ⊢; exact .inr hx))

theorem tAddToSet_follows (S : Schema) (m : TMark) (set : List TMark) (h : follows S (set.map (·.2)) m.2) :
    tAddToSet S m set = set ++ [m] :=
  tAddToSetAux_follows S m set set 0 h


/-- every mark of the list follows the ones before it -/
def Chain (S : Schema) (l : Marks) : Prop := ∀ a m b, l = a ++ m :: b → follows S a m

theorem follows_notIn (S : Schema) (set : Marks) (m : Mark) (h : follows S set m) : m.isInSet set = false := by
  unfold Mark.isInSet
  rw [List.any_eq_false]
  intro o ho he
  have : o = m := by simpa using he
  exact (h o ho).1.2 this

/-- one round of the loop of `apply_pending` -/
def apStep (S : Schema) (nextTy : TypeId) (cx : NodeCtx) (m : TMark) : NodeCtx :=
  let may := match cx.ty with
    | some t => (S.nodeType t).allowsMarkType m.2.ty
    | none => markMayApply S m.2.ty nextTy
  if may && !m.2.isInSet cx.active then
    { cx with active := m.2.addToSet S cx.active, pending := tRemoveFromSet m.2 cx.pending,
              activeT := tAddToSet S m cx.activeT }
  else cx

theorem applyPending_eq (S : Schema) (cx : NodeCtx) (nextTy : TypeId) :
    cx.applyPending S nextTy = cx.pending.foldl (apStep S nextTy) cx := rfl

theorem apStep_ok (S : Schema) (nextTy t : TypeId) (cx : NodeCtx) (m : TMark) (hty : cx.ty = some t)
    (ha : (S.nodeType t).allowsMarkType m.2.ty = true) (hf : follows S cx.active m.2) :
    apStep S nextTy cx m = { cx with active := cx.active ++ [m.2], pending := tRemoveFromSet m.2 cx.pending,
                                     activeT := tAddToSet S m cx.activeT } := by
  unfold apStep
  simp only [hty, ha, follows_notIn S _ _ hf, Bool.not_false, Bool.and_self, if_true, addToSet_follows S _ _ hf]

theorem applyPending_fold_marks (S : Schema) (nextTy : TypeId) (t : TypeId) : ∀ (l : List TMark) (cx : NodeCtx),
    cx.ty = some t → (∀ m ∈ l, (S.nodeType t).allowsMarkType m.2.ty = true) → Chain S (cx.active ++ l.map (·.2)) →
    ∃ aT, l.foldl (apStep S nextTy) cx =
      { cx with active := cx.active ++ l.map (·.2),
                pending := cx.pending.filter (fun o => l.all (fun m => o.2 != m.2)), activeT := aT }
  | [], cx, _, _, _ => ⟨cx.activeT, by
      have : cx.pending.filter (fun _ => true) = cx.pending := by induction cx.pending <;> simp_all
      simp [this]⟩
  | m :: l, cx, hty, hal, hch => by
    have hf : follows S cx.active m.2 := hch cx.active m.2 (l.map (·.2)) (by simp)
    have ha := hal m List.mem_cons_self
    rw [List.foldl_cons, apStep_ok S nextTy t cx m hty ha hf]
    obtain ⟨aT, h⟩ := applyPending_fold_marks S nextTy t l
      { cx with active := cx.active ++ [m.2], pending := tRemoveFromSet m.2 cx.pending, activeT := tAddToSet S m cx.activeT }
      hty (fun x hx => hal x (List.mem_cons_of_mem _ hx)) (by simpa using hch)
    refine ⟨aT, ?_⟩
    rw [h]
    simp [tRemoveFromSet, List.filter_filter, Bool.and_comm]


/-! ### the open context of a textblock inside emitted mark elements -/

/-- `pa`: the marks of the enclosing mark elements already applied (active), `pp`: those still pending -/
structure MarkSt (cx : NodeCtx) (t : TypeId) (q : Nat) (pa pp : List TMark) : Prop where
  ty : cx.ty = some t
  mtch : cx.mtch = some q
  solid : cx.solid = true
  active : cx.active = pa.map (·.2)
  pending : cx.pending = pp
  stash : cx.stash = []

theorem findPlace_direct' (S : Schema) (wsPre : TypeId → Bool) (st : PState) (cx : NodeCtx) (t : TypeId) (q q' : Nat)
    (ty : TypeId) (hn : st.nodes[st.open_]? = some cx) (hty : cx.ty = some t) (hmt : cx.mtch = some q) (hso : cx.solid = true)
    (hm : (S.dfa t).matchType q ty = some q') : st.findPlace S wsPre ty = .ok (st, true) := by
  unfold PState.findPlace
  simp only [findPlaceLoop, hn, findWrapping_known S cx t q ty hty hmt,
    findWrapping_direct S (S.dfa t) q ty q' hm, set_getElem?_self _ _ _ hn, hso, if_true]
  simp [enterRoute, Except.map]

theorem filter_self_nil (l : List TMark) : l.filter (fun o => l.all (fun m => o.2 != m.2)) = [] := by
  rw [List.filter_eq_nil_iff]
  intro o ho h
  rw [List.all_eq_true] at h
  have := h o ho
  simp at this

/-- **a node inserted inside emitted mark elements gets exactly their marks**: the pending ones become active, in
    order, and the node is appended with the active set -/
theorem insertNode_marks (S : Schema) (wsPre : TypeId → Bool) (st : PState) (base : List NodeCtx) (cx : NodeCtx)
    (t : TypeId) (q q' : Nat) (pa pp : List TMark) (node : Node)
    (hn : st.nodes = base ++ [cx]) (ho : st.open_ = base.length) (hs : MarkSt cx t q pa pp)
    (hch : Chain S ((pa ++ pp).map (·.2))) (hal : ∀ m ∈ pp, (S.nodeType t).allowsMarkType m.2.ty = true)
    (hm : (S.dfa t).matchType q (S.tyOf node) = some q') (hmk : node.marks = []) :
    ∃ aT, st.insertNode S wsPre node =
      .ok ({ st with nodes := base ++ [{ cx with active := (pa ++ pp).map (·.2), pending := [], activeT := aT, mtch := some q',
                                                  content := cx.content ++ [node.withMarks ((pa ++ pp).map (·.2))] }] }, true) := by
  have hx : st.nodes[st.open_]? = some cx := by rw [hn, ho]; exact getElem?_base base cx []
  have hce : st.closeExtra S = .ok st := by
    have := closeExtra_settles S st base cx cx.content [] hn ho (settles_nil S cx)
    rw [this]; congr 1; cases st; simp at hn ⊢; exact hn.symm
  obtain ⟨aT, hfold⟩ := applyPending_fold_marks S (S.tyOf node) t cx.pending cx hs.ty (by rw [hs.pending]; exact hal)
    (by rw [hs.active, hs.pending]; simpa using hch)
  refine ⟨aT, ?_⟩
  unfold PState.insertNode
  simp only [hx, Option.map_some, Option.getD_some, hs.ty, Option.isNone_some, Bool.and_false, Bool.false_eq_true, if_false,
    findPlace_direct' S wsPre st cx t q q' _ hx hs.ty hs.mtch hs.solid hm, hce]
  simp only [applyPending_eq, hfold, hs.mtch, hs.ty, hm, hmk, List.foldl_nil]
  simp only [PState.setTop, ho, hn, set_base, hs.active, hs.pending, filter_self_nil, List.map_append]


/-- **an emitted mark element opens**: its mark goes to the end of the pending list of the open context (nothing is
    stashed, nothing excluded) -/
theorem addPendingMark_marks (S : Schema) (st : PState) (base : List NodeCtx) (cx : NodeCtx) (t : TypeId) (q : Nat)
    (pa pp : List TMark) (mk : TMark)
    (hn : st.nodes = base ++ [cx]) (ho : st.open_ = base.length) (hs : MarkSt cx t q pa pp)
    (hf : follows S ((pa ++ pp).map (·.2)) mk.2) :
    st.addPendingMark S mk = .ok { st with nodes := base ++ [{ cx with pending := pp ++ [mk] }] } ∧
    MarkSt { cx with pending := pp ++ [mk] } t q pa (pp ++ [mk]) := by
  have hx : st.nodes[st.open_]? = some cx := by rw [hn, ho]; exact getElem?_base base cx []
  have hfp : follows S (pp.map (·.2)) mk.2 := fun o ho' => hf o (by simp at ho' ⊢; exact .inr ho')
  have hnone : findSameMark mk.2 cx.pending = none := by
    unfold findSameMark
    rw [hs.pending]
    simp only [Option.map_eq_none_iff, List.find?_eq_none]
    intro o ho' he
    have h1 := (hfp o.2 (by simp; exact ⟨o.1, by simpa using ho'⟩)).1
    have : o.2 = mk.2 := by simpa using he
    exact h1.2 this
  constructor
  · unfold PState.addPendingMark
    simp only [hx, hnone]
    simp only [hs.pending, tAddToSet_follows S mk pp hfp, PState.setTop, ho, hn, set_base]
  · exact ⟨hs.ty, hs.mtch, hs.solid, hs.active, rfl, hs.stash⟩

theorem filter_ne_snoc (l : Marks) (m : Mark) (h : ∀ o ∈ l, o ≠ m) : (l ++ [m]).filter (· != m) = l := by
  rw [List.filter_append]
  have h1 : l.filter (· != m) = l := by
    rw [List.filter_eq_self]
    intro o ho; simpa using h o ho
  simp [h1]

/-- **an emitted mark element closes** after a node was inserted in it: its mark, the last active one, is taken off -/
theorem removePendingMark_active (S : Schema) (st : PState) (base : List NodeCtx) (cx : NodeCtx) (t : TypeId) (q : Nat)
    (pa : List TMark) (mk : TMark)
    (hn : st.nodes = base ++ [cx]) (ho : st.open_ = base.length) (hs : MarkSt cx t q (pa ++ [mk]) [])
    (hf : follows S (pa.map (·.2)) mk.2) :
    ∃ aT, st.removePendingMark S mk (some base.length) =
        .ok { st with nodes := base ++ [{ cx with active := pa.map (·.2), activeT := aT }] } ∧
      MarkSt { cx with active := pa.map (·.2), activeT := aT } t q pa [] := by
  have hx : st.nodes[base.length]? = some cx := by rw [hn]; exact getElem?_base base cx []
  have hne : ∀ o ∈ pa.map (·.2), o ≠ mk.2 := by
    intro o ho' he
    exact (hf o ho').1.2 he
  refine ⟨tRemoveFromSet mk.2 cx.activeT, ?_, ⟨hs.ty, hs.mtch, hs.solid, rfl, hs.pending, hs.stash⟩⟩
  unfold PState.removePendingMark
  simp only [ho, removePendingLoop, hx, NodeCtx.removePending, hs.pending, List.any_nil, Bool.false_eq_true, if_false,
    NodeCtx.popFromStash, hs.stash, List.find?_nil, beq_self_eq_true, if_true, Except.map]
  rw [hn, set_base, hs.active]
  simp only [List.map_append, List.map_cons, List.map_nil, Mark.removeFromSet, filter_ne_snoc _ _ hne]

/-! ### an emitted mark element in the walk -/

theorem createMark_value (S : Schema) (mt : MarkTypeId) (ra : Option Attrs) (a : Attrs) (n : Nat)
    (h : computeAttrs (S.markType mt).attrs (ra.getD []) = .ok a) :
    ∃ id nx, createMark S mt ra n = .ok ((id, ⟨mt, a⟩), nx) := by
  unfold createMark
  simp only [h]
  split
  · exact ⟨_, _, rfl⟩
  · exact ⟨_, _, rfl⟩

/-- **an emitted mark element**: the walk opens it (the mark becomes pending), walks its children, and closes it (the
    mark, active by then, is taken off) -/
theorem addDom_markElem (R : RParser) (w : WState) (base : List NodeCtx) (cx : NodeCtx) (c c2 : List Node)
    (t : TypeId) (q q2 : Nat) (pa pp : List TMark) (m : Mark) (tag : String) (attrs : List (String × List Char))
    (r : TagRule) (ra : Option Attrs) (dkids : List DNode) (ptag : String) (prevBr : Bool)
    (hi : Inv R.P.S w base cx [] c) (hs : MarkSt cx t q pa pp)
    (hig : ignoreTags.contains tag = false) (hlt : listTags.contains tag = false)
    (hf : firstRule R tag attrs = some (r, ra)) (hst : straight r = true) (hrn : r.node = none)
    (hrm : r.mark = some (some m.ty)) (hca : computeAttrs (R.P.S.markType m.ty).attrs (ra.getD []) = .ok m.attrs)
    (hfo : follows R.P.S ((pa ++ pp).map (·.2)) m)
    (hkids : ∀ w1 mk, mk.2 = m → Inv R.P.S w1 base { cx with pending := pp ++ [mk] } [] c →
      ∃ w2 cx2, addAll R.P tag dkids false w1 = .ok w2 ∧ Inv R.P.S w2 base cx2 [] c2 ∧
        MarkSt cx2 t q2 (pa ++ pp ++ [mk]) [] ∧ cx2.uid = cx.uid) :
    ∃ w3 cx3, addDom R.P ptag prevBr (.elem tag [] (candsFrom tag attrs R.sel 0) dkids) w = .ok w3 ∧
      Inv R.P.S w3 base cx3 [] c2 ∧ MarkSt cx3 t q2 (pa ++ pp) [] ∧ cx3.uid = cx.uid := by
  obtain ⟨mr, hmt, hmr, hma, hmk⟩ := firstRule_matchTag R tag attrs r ra hf w.stack
  obtain ⟨id, nx, hcr⟩ := createMark_value R.P.S m.ty ra m.attrs w.nextMark hca
  have hmv : (⟨m.ty, m.attrs⟩ : Mark) = m := rfl
  have hc : c = cx.content := settles_nil_inv _ _ _ hi.settles
  have hx : w.st.nodes[w.st.open_]? = some cx := by rw [hi.nodes, hi.open_]; exact getElem?_base base cx []
  obtain ⟨hadd, hs1⟩ := addPendingMark_marks R.P.S w.st base cx t q pa pp (id, m) hi.nodes hi.open_ hs hfo
  -- the state after `add_pending_mark`
  have hi1 : Inv R.P.S { w with st := { w.st with nodes := base ++ [{ cx with pending := pp ++ [(id, m)] }] },
                                log := w.log ++ [.addPending (id, m)], nextMark := nx } base
      { cx with pending := pp ++ [(id, m)] } [] c :=
    ⟨rfl, hi.open_, by rw [hc]; exact settles_nil _ _, hi.below, hi.fresh⟩
  obtain ⟨w2, cx2, hall, hi2, hs2, hu2⟩ := hkids _ (id, m) rfl hi1
  have hc2 : c2 = cx2.content := settles_nil_inv _ _ _ hi2.settles
  have hidx : w2.idxOf cx.uid = some base.length := by
    unfold WState.idxOf
    rw [hi2.nodes]
    exact findIdx?_base _ base cx2 [] (fun x hx => by have := hi2.below x hx; rw [hu2] at this; simp; omega) (by simp [hu2])
  have hfo2 : follows R.P.S ((pa ++ pp).map (·.2)) (id, m).2 := hfo
  obtain ⟨aT, hrem, hs3⟩ := removePendingMark_active R.P.S w2.st base cx2 t q2 (pa ++ pp) (id, m) hi2.nodes hi2.open_ hs2 hfo2
  have hnk : normKids R.P tag dkids = dkids := by
    simp only [normKids, hlt, Bool.false_and, Bool.false_eq_true, if_false]
  have hcons : r.consuming = true := by unfold straight at hst; simp only [Bool.and_eq_true] at hst; exact hst.2
  refine ⟨{ w2 with st := { w2.st with nodes := base ++ [{ cx2 with active := (pa ++ pp).map (·.2), activeT := aT }] },
                    log := w2.log ++ [.removePending (id, m) (some base.length)] }, _, ?_,
    ⟨rfl, hi2.open_, by rw [hc2]; exact settles_nil _ _, by intro x hx; exact hi2.below x hx, hi2.fresh⟩, hs3, hu2⟩
  rw [addDom]
  simp only [stylePre_nil R.P w cx hi.top]
  rw [addElement_eq]
  simp only [hmt, decideTag_straight tag mr (by rw [hmr]; exact hst) hig, hmr, hma]
  unfold ruleOpen ruleFirst
  have htop1 : (({ w with st := { w.st with nodes := base ++ [{ cx with pending := pp ++ [(id, m)] }] },
                          log := w.log ++ [.addPending (id, m)], nextMark := nx } : WState)).top =
      some { cx with pending := pp ++ [(id, m)] } := hi1.top
  simp only [hrn, hrm, hcr, hmv, emit', emit, PState.step, hadd, Except.map, htop1, Bool.false_eq_true, if_false, hcons,
    Bool.not_true, hmk, hnk, hall]
  unfold ruleClose
  simp only [Bool.false_eq_true, if_false, emit', emit, PState.step, hidx, hrem, Except.map, stylePost_nil]

end PM.RoundTrip
