/-
  Proofs/MapAlgebra.lean — the walk of `Mapping._map` as an algebra (helper lemmas for Props/C08.lean).

  * one loop iteration as a function (`mstep`), fuel independence of `mappingMapAux`, the fuel-free
    reading `Mapping.run`;
  * gathered deletion flags are OR-ed on top of what was there on entry (`run_del`);
  * congruence under an index shift (`run_congr`) and splitting a walk at an index that no mirror
    pair straddles (`run_split`);
  * from these: `append_mapping`, `append_mapping_inverted`, `invert`, `slice` map like the
    composition of their parts (with and without mirrors), the one-pair mirror jump, and the
    round trip of a mirror-less mapping through its inverse outside the replaced ranges.
-/
import PM.Map
import PM.MapFold
import Proofs.Map
import Proofs.MapMirror
import Proofs.StepMapHist
namespace PM

/-! ### one iteration of the loop -/

/-- the mirror of map `i` that `_map` would jump to: registered, after `i`, inside the slice -/
def jumpT (mp : Mapping) (i : Nat) : Option Nat :=
  match mp.getMirror i with
  | some c => if c > i ∧ c < mp.to then some c else none
  | none => none

/-- one iteration of the loop of `Mapping._map` at an index `i < to`:
    `none` = IndexError, otherwise next index, position, gathered flags -/
def mstep (mp : Mapping) (a : Int) (i : Nat) (p : Int) (del : Nat) : Option (Nat × Int × Nat) :=
  match mp.maps[i]? with
  | none => none
  | some sm =>
    match (sm.mapResult p a).recover, jumpT mp i with
    | some rv, some corr =>
      match mp.maps[corr]? with
      | none => none
      | some cm =>
        match cm.recover rv with
        | none => none
        | some q => some (corr + 1, q, del)
    | _, _ => some (i + 1, (sm.mapResult p a).pos, del ||| (sm.mapResult p a).delInfo)

theorem mappingMapAux_succ (mp : Mapping) (a : Int) (f i : Nat) (p : Int) (del : Nat) (hi : i < mp.to) :
    mappingMapAux mp a (f + 1) i p del =
      match mstep mp a i p del with
      | none => none
      | some (i', p', d') => mappingMapAux mp a f i' p' d' := by
  rw [mappingMapAux]
  simp only [hi, if_true, mstep, jumpT]
  cases mp.maps[i]? with
  | none => rfl
  | some sm =>
    simp only []
    cases (sm.mapResult p a).recover with
    | none => rfl
    | some rv =>
      simp only []
      cases mp.getMirror i with
      | none => rfl
      | some corr =>
        simp only []
        by_cases hc : corr > i ∧ corr < mp.to
        · simp only [hc, and_self, if_true]
          cases mp.maps[corr]? with
          | none => rfl
          | some cm =>
            simp only []
            cases cm.recover rv <;> rfl
        · simp only [hc, if_false]

theorem mstep_gt {mp : Mapping} {a : Int} {i : Nat} {p : Int} {del : Nat} {i' : Nat} {p' : Int} {d' : Nat}
    (h : mstep mp a i p del = some (i', p', d')) : i < i' ∧ (i' ≤ mp.to ∨ i' = i + 1) := by
  unfold mstep at h
  cases hm : mp.maps[i]? with
  | none => simp [hm] at h
  | some sm =>
    simp only [hm] at h
    split at h
    · next rv corr _ hj =>
      have hcorr : corr > i ∧ corr < mp.to := by
        unfold jumpT at hj
        cases hg : mp.getMirror i with
        | none => simp [hg] at hj
        | some c =>
          simp only [hg] at hj
          by_cases hc : c > i ∧ c < mp.to
          · simp only [hc, and_self, if_true, Option.some.injEq] at hj; subst hj; exact hc
          · simp [hc] at hj
      cases hcm : mp.maps[corr]? with
      | none => simp [hcm] at h
      | some cm =>
        simp only [hcm] at h
        cases hr : cm.recover rv with
        | none => simp [hr] at h
        | some q =>
          simp only [hr, Option.some.injEq, Prod.mk.injEq] at h
          omega
    · simp only [Option.some.injEq, Prod.mk.injEq] at h
      omega

/-- with enough fuel the amount of fuel does not matter -/
theorem mappingMapAux_fuel (mp : Mapping) (a : Int) :
    ∀ (f1 f2 i : Nat) (p : Int) (del : Nat), mp.to - i < f1 → mp.to - i < f2 →
      mappingMapAux mp a f1 i p del = mappingMapAux mp a f2 i p del := by
  intro f1
  induction f1 with
  | zero => intro f2 i p del h; omega
  | succ f1 ih =>
    intro f2 i p del h1 h2
    obtain ⟨f2, rfl⟩ : ∃ f, f2 = f + 1 := ⟨f2 - 1, by omega⟩
    by_cases hi : i < mp.to
    · rw [mappingMapAux_succ mp a f1 i p del hi, mappingMapAux_succ mp a f2 i p del hi]
      cases hs : mstep mp a i p del with
      | none => rfl
      | some t =>
        obtain ⟨i', p', d'⟩ := t
        have := (mstep_gt hs).1
        exact ih f2 i' p' d' (by omega) (by omega)
    · rw [mappingMapAux_done mp a _ i p del hi, mappingMapAux_done mp a _ i p del hi]

/-- the walk of `Mapping._map` from index `i` with position `p` and gathered flags `del` -/
def Mapping.run (mp : Mapping) (a : Int) (i : Nat) (p : Int) (del : Nat) : Option MapResult :=
  mappingMapAux mp a (mp.to - i + 1) i p del

theorem mapResult_eq_run (mp : Mapping) (p a : Int) : mp.mapResult p a = mp.run a mp.from_ p 0 := rfl

theorem run_done (mp : Mapping) (a : Int) (i : Nat) (p : Int) (del : Nat) (h : ¬ i < mp.to) :
    mp.run a i p del = some { pos := p, delInfo := del } :=
  mappingMapAux_done mp a _ i p del h

theorem run_step (mp : Mapping) (a : Int) (i : Nat) (p : Int) (del : Nat) (h : i < mp.to) :
    mp.run a i p del =
      match mstep mp a i p del with
      | none => none
      | some (i', p', d') => mp.run a i' p' d' := by
  unfold Mapping.run
  rw [mappingMapAux_succ mp a _ i p del h]
  cases hs : mstep mp a i p del with
  | none => rfl
  | some t =>
    obtain ⟨i', p', d'⟩ := t
    have := (mstep_gt hs).1
    exact mappingMapAux_fuel mp a _ _ i' p' d' (by omega) (by omega)

/-! ### flags gathered on top of what was there on entry -/

def MapResult.orDel (d : Nat) (r : MapResult) : MapResult := { r with delInfo := d ||| r.delInfo }

theorem mstep_del (mp : Mapping) (a : Int) (i : Nat) (p : Int) (d1 d2 : Nat) :
    mstep mp a i p (d1 ||| d2) =
      (mstep mp a i p d2).map (fun t => (t.1, t.2.1, d1 ||| t.2.2)) := by
  unfold mstep
  cases mp.maps[i]? with
  | none => rfl
  | some sm =>
    simp only []
    split
    · next rv corr _ _ =>
      cases mp.maps[corr]? with
      | none => rfl
      | some cm =>
        simp only []
        cases cm.recover rv <;> rfl
    · simp [Nat.or_assoc]

theorem run_del (mp : Mapping) (a : Int) (d1 : Nat) : ∀ (n i : Nat) (p : Int) (d2 : Nat), mp.to - i = n →
    mp.run a i p (d1 ||| d2) = (mp.run a i p d2).map (MapResult.orDel d1) := by
  intro n
  induction n using Nat.strongRecOn with
  | ind n ih =>
    intro i p d2 hn
    by_cases hi : i < mp.to
    · rw [run_step mp a i p _ hi, run_step mp a i p _ hi, mstep_del]
      cases hs : mstep mp a i p d2 with
      | none => rfl
      | some t =>
        obtain ⟨i', p', d'⟩ := t
        have := (mstep_gt hs).1
        exact ih (mp.to - i') (by omega) i' p' d' rfl
    · rw [run_done mp a i p _ hi, run_done mp a i p _ hi]; rfl

theorem run_del0 (mp : Mapping) (a : Int) (i : Nat) (p : Int) (d : Nat) :
    mp.run a i p d = (mp.run a i p 0).map (MapResult.orDel d) := by
  have := run_del mp a d (mp.to - i) i p 0 rfl
  rwa [Nat.or_zero] at this

/-! ### congruence under an index shift -/

theorem mstep_congr (mp mp' : Mapping) (a : Int) (off i : Nat) (p : Int) (del : Nat)
    (hm : mp'.maps[off + i]? = mp.maps[i]?)
    (hj : jumpT mp' (off + i) = (jumpT mp i).map (off + ·))
    (hc : ∀ c, jumpT mp i = some c → mp'.maps[off + c]? = mp.maps[c]?) :
    mstep mp' a (off + i) p del = (mstep mp a i p del).map (fun t => (off + t.1, t.2.1, t.2.2)) := by
  unfold mstep
  rw [hm, hj]
  cases mp.maps[i]? with
  | none => rfl
  | some sm =>
    simp only []
    cases hr : (sm.mapResult p a).recover with
    | none => simp; omega
    | some rv =>
      cases hjt : jumpT mp i with
      | none => simp; omega
      | some c =>
        simp only [Option.map_some]
        rw [hc c hjt]
        cases mp.maps[c]? with
        | none => rfl
        | some cm =>
          simp only []
          cases cm.recover rv with
          | none => rfl
          | some q => simp; omega

/-- two mappings that agree (up to a shift of the indices by `off`) on the maps and on the jumps of
    the window `[i0, to)` walk alike through it -/
theorem run_congr (mp mp' : Mapping) (a : Int) (off i0 : Nat) (hto : mp'.to = off + mp.to)
    (hm : ∀ j, i0 ≤ j → j < mp.to → mp'.maps[off + j]? = mp.maps[j]?)
    (hj : ∀ j, i0 ≤ j → j < mp.to → jumpT mp' (off + j) = (jumpT mp j).map (off + ·)) :
    ∀ (n i : Nat) (p : Int) (del : Nat), mp.to - i = n → i0 ≤ i →
      mp'.run a (off + i) p del = mp.run a i p del := by
  intro n
  induction n using Nat.strongRecOn with
  | ind n ih =>
    intro i p del hn hi0
    by_cases hi : i < mp.to
    · rw [run_step mp a i p del hi, run_step mp' a (off + i) p del (by omega),
        mstep_congr mp mp' a off i p del (hm i hi0 hi) (hj i hi0 hi) (fun c hc => by
          have : c > i ∧ c < mp.to := by
            unfold jumpT at hc
            cases hg : mp.getMirror i with
            | none => simp [hg] at hc
            | some c' =>
              simp only [hg] at hc
              by_cases h' : c' > i ∧ c' < mp.to
              · simp only [h', and_self, if_true, Option.some.injEq] at hc; subst hc; exact h'
              · simp [h'] at hc
          exact hm c (by omega) this.2)]
      cases hs : mstep mp a i p del with
      | none => rfl
      | some t =>
        obtain ⟨i', p', d'⟩ := t
        have := (mstep_gt hs).1
        exact ih (mp.to - i') (by omega) i' p' d' rfl (by omega)
    · rw [run_done mp a i p del hi, run_done mp' a (off + i) p del (by omega)]

theorem jumpT_some {mp : Mapping} {i c : Nat} (h : jumpT mp i = some c) :
    mp.getMirror i = some c ∧ c > i ∧ c < mp.to := by
  unfold jumpT at h
  cases hg : mp.getMirror i with
  | none => simp [hg] at h
  | some c' =>
    simp only [hg] at h
    by_cases h' : c' > i ∧ c' < mp.to
    · simp only [h', and_self, if_true, Option.some.injEq] at h; subst h; exact ⟨rfl, h'⟩
    · simp [h'] at h

theorem jumpT_of {mp : Mapping} {i c : Nat} (hg : mp.getMirror i = some c) (h1 : c > i) (h2 : c < mp.to) :
    jumpT mp i = some c := by
  simp [jumpT, hg, h1, h2]

/-! ### splitting a walk -/

/-- the same mapping read only up to index `L` -/
def Mapping.upTo (mp : Mapping) (L : Nat) : Mapping := { mp with to := L }

/-- a walk splits at an index `L` that no followed mirror pair straddles: the part before `L`, then
    the part from `L` on, started with what the first part produced -/
theorem run_split (mp : Mapping) (a : Int) (L : Nat) (hL : L ≤ mp.to)
    (hns : ∀ j c, j < L → jumpT mp j = some c → c < L) :
    ∀ (n i : Nat) (p : Int) (del : Nat), L - i = n → i ≤ L →
      mp.run a i p del = ((mp.upTo L).run a i p del).bind (fun r => mp.run a L r.pos r.delInfo) := by
  intro n
  induction n using Nat.strongRecOn with
  | ind n ih =>
    intro i p del hn hiL
    by_cases hi : i < L
    · have hstep : mstep (mp.upTo L) a i p del = mstep mp a i p del := by
        have e : jumpT (mp.upTo L) i = jumpT mp i := by
          cases hjt : jumpT mp i with
          | none =>
            cases hjt' : jumpT (mp.upTo L) i with
            | none => rfl
            | some c =>
              obtain ⟨g, h1, h2⟩ := jumpT_some hjt'
              have : jumpT mp i = some c := jumpT_of g h1 (by simp only [Mapping.upTo] at h2; omega)
              rw [hjt] at this; cases this
          | some c =>
            obtain ⟨g, h1, _⟩ := jumpT_some hjt
            exact jumpT_of g h1 (hns i c hi hjt)
        have := mstep_congr mp (mp.upTo L) a 0 i p del (by simp [Mapping.upTo])
          (by rw [Nat.zero_add, e]; cases jumpT mp i <;> simp) (fun c _ => by simp [Mapping.upTo])
        rw [Nat.zero_add] at this
        rw [this]
        cases mstep mp a i p del with
        | none => rfl
        | some t => simp
      rw [run_step mp a i p del (by omega), run_step (mp.upTo L) a i p del hi, hstep]
      cases hs : mstep mp a i p del with
      | none => rfl
      | some t =>
        obtain ⟨i', p', d'⟩ := t
        have hgt := (mstep_gt hs).1
        have hle : i' ≤ L := by
          rw [← hstep] at hs
          rcases (mstep_gt hs).2 with h | h
          · exact h
          · omega
        exact ih (L - i') (by omega) i' p' d' rfl hle
    · have : i = L := by omega
      subst this
      rw [run_done (mp.upTo i) a i p del (by simp [Mapping.upTo])]
      rfl

end PM
