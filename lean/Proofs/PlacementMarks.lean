/-
  Proofs/PlacementMarks.lean — the mark clauses of validity for what the placement core builds: every node
  it places carries a canonical mark set that its parent allows.  Independent of the content automata
  (Proofs/Placement.lean); combined with the content clause in Props/C19.lean.
-/
import PM.FromDom
import Proofs.Marks
import Proofs.PlacementValid
namespace PM.FromDom

/-! ### the mark clauses of `Node.check` -/

/-- `parent.type.allows_marks(marks)`; no parent type (the fragment root of `parse_slice`): everything -/
def allowedB (S : Schema) (pty : Option TypeId) (ms : Marks) : Bool :=
  match pty with
  | none => true
  | some t => (S.nodeType t).allowsMarks ms

mutual
/-- the node's marks are canonical and allowed by its parent's type, and so for all its descendants -/
def marksOkB (S : Schema) (pty : Option TypeId) : Node → Bool
  | .text _ m => canonicalMarks S m && allowedB S pty m
  | .leaf _ _ m => canonicalMarks S m && allowedB S pty m
  | .elem t _ m kids => canonicalMarks S m && allowedB S pty m && marksOkAll S (some t) kids
def marksOkAll (S : Schema) (pty : Option TypeId) : List Node → Bool
  | [] => true
  | n :: ns => marksOkB S pty n && marksOkAll S pty ns
end

theorem marksOkAll_iff (S : Schema) (pty : Option TypeId) : ∀ (l : List Node),
    marksOkAll S pty l = true ↔ ∀ n ∈ l, marksOkB S pty n = true
  | [] => by simp [marksOkAll]
  | a :: l => by simp [marksOkAll, marksOkAll_iff S pty l]

/-- the part of `marksOkB` that does not depend on the node's own marks -/
def kidsMarksOk (S : Schema) : Node → Bool
  | .elem t _ _ kids => marksOkAll S (some t) kids
  | _ => true

theorem marksOkB_withMarks (S : Schema) (pty : Option TypeId) (n : Node) (m : Marks)
    (h1 : canonicalMarks S m = true) (h2 : allowedB S pty m = true) (h3 : kidsMarksOk S n = true) :
    marksOkB S pty (n.withMarks m) = true := by
  cases n <;> simp_all [Node.withMarks, marksOkB, kidsMarksOk]

theorem marksOkB_mkNode (S : Schema) (pty : Option TypeId) (t : TypeId) (a : Attrs) (m : Marks) (kids : List Node)
    (h1 : canonicalMarks S m = true) (h2 : allowedB S pty m = true) (h3 : ∀ n ∈ kids, marksOkB S (some t) n = true) :
    marksOkB S pty (mkNode S t a m kids) = true := by
  unfold mkNode
  split
  · simp [marksOkB, h1, h2]
  · simp [marksOkB, h1, h2, (marksOkAll_iff S (some t) kids).mpr h3]

theorem marksOkB_text (S : Schema) (pty : Option TypeId) (s s' : List Nat) (m : Marks)
    (h : marksOkB S pty (.text s m) = true) : marksOkB S pty (.text s' m) = true := by
  simpa [marksOkB] using h

/-- a mark is allowed under a (possibly absent) node type -/
def al (S : Schema) (oty : Option TypeId) (m : Mark) : Prop :=
  ∀ t, oty = some t → (S.nodeType t).allowsMarkType m.ty = true

theorem allowedB_iff (S : Schema) (pty : Option TypeId) (ms : Marks) :
    allowedB S pty ms = true ↔ ∀ m ∈ ms, al S pty m := by
  cases pty with
  | none => simp [allowedB, al]
  | some t => simp [allowedB, al, NodeType.allowsMarks]

theorem canonical_nil (S : Schema) : canonicalMarks S [] = true := by
  simp [canonicalMarks]

/-! ### mark-set operations -/

theorem mem_addToSet (S : Schema) (m x : Mark) (set : Marks) (h : x ∈ m.addToSet S set) : x = m ∨ x ∈ set := by
  rw [addToSet_eq] at h
  split at h
  · right; exact h
  · rcases (mem_insertByRank m x _).mp h with h | h
    · left; exact h
    · right; exact (List.mem_filter.mp h).1

theorem setFrom_canonP (S : Schema) (l : Marks) (h : CanonP S l) : CanonP S (setFrom l) := by
  have hp := setFrom_perm' l
  refine ⟨setFrom_sorted' l, hp.nodup_iff.mpr h.nodup, ?_⟩
  intro a ha b hb hab
  exact h.exclFree a (hp.subset ha) b (hp.subset hb) hab

/-- active marks: canonical and allowed by the context's own type -/
def AOk (S : Schema) (cx : NodeCtx) : Prop := CanonP S cx.active ∧ ∀ m ∈ cx.active, al S cx.ty m

theorem foldl_inv' {α β : Type} (Q : β → Prop) (f : β → α → β) (hf : ∀ b a, Q b → Q (f b a)) :
    ∀ (l : List α) (b : β), Q b → Q (l.foldl f b)
  | [], _, hb => hb
  | a :: l, b, hb => foldl_inv' Q f hf l (f b a) (hf b a hb)

theorem applyPending_aok (S : Schema) (cx : NodeCtx) (ty : TypeId) (h : AOk S cx) :
    AOk S (cx.applyPending S ty) ∧ (cx.applyPending S ty).marks = cx.marks := by
  unfold NodeCtx.applyPending
  have key := foldl_inv' (fun c : NodeCtx => AOk S c ∧ c.marks = cx.marks ∧ c.ty = cx.ty)
    (fun cx' (m : TMark) =>
      if ((match cx'.ty with
          | some t => (S.nodeType t).allowsMarkType m.2.ty
          | none => markMayApply S m.2.ty ty) && !m.2.isInSet cx'.active) = true then
        { cx' with active := m.2.addToSet S cx'.active, pending := tRemoveFromSet m.2 cx'.pending,
                   activeT := tAddToSet S m cx'.activeT }
      else cx') ?_ cx.pending cx ⟨h, rfl, rfl⟩
  · exact ⟨key.1, key.2.1⟩
  · intro c m ⟨⟨hc1, hc2⟩, hm, ht⟩
    by_cases hcond : ((match c.ty with
          | some t => (S.nodeType t).allowsMarkType m.2.ty
          | none => markMayApply S m.2.ty ty) && !m.2.isInSet c.active) = true
    · rw [if_pos hcond]
      refine ⟨⟨addToSet_canonP S _ _ hc1, ?_⟩, hm, ht⟩
      intro x hx
      rcases mem_addToSet S _ _ _ hx with rfl | hx
      · intro t htt
        simp only [Bool.and_eq_true] at hcond
        have := hcond.1
        simp only at htt
        rw [htt] at this
        exact this
      · exact hc2 x hx
    · rw [if_neg hcond]
      exact ⟨⟨hc1, hc2⟩, hm, ht⟩

theorem removePending_aok (S : Schema) (cx : NodeCtx) (m : TMark) (h : AOk S cx) :
    AOk S (cx.removePending S m) ∧ (cx.removePending S m).marks = cx.marks := by
  unfold NodeCtx.removePending NodeCtx.popFromStash
  by_cases hp : (cx.pending.any fun o => o.1 == m.1) = true
  · rw [if_pos hp]; exact ⟨h, rfl⟩
  · rw [if_neg hp]
    dsimp only
    have hrem : CanonP S (m.2.removeFromSet cx.active) ∧ ∀ x ∈ m.2.removeFromSet cx.active, al S cx.ty x :=
      ⟨removeFromSet_canonP S _ _ h.1, fun x hx => h.2 x (List.mem_filter.mp hx).1⟩
    cases hf : List.find? (fun x => x == m.2) cx.stash with
    | none => exact ⟨hrem, rfl⟩
    | some f =>
      dsimp only
      cases ht : cx.ty with
      | none => exact ⟨⟨hrem.1, fun x hx t htt => by simp at htt⟩, rfl⟩
      | some t =>
        dsimp only
        by_cases ha : (S.nodeType t).allowsMarkType f.ty = true
        · rw [if_pos ha]
          refine ⟨⟨addToSet_canonP S _ _ hrem.1, ?_⟩, rfl⟩
          intro x hx
          rcases mem_addToSet S _ _ _ hx with rfl | hx
          · intro t' ht'
            simp only [Option.some.injEq] at ht'
            subst ht'; exact ha
          · have := hrem.2 x hx
            rw [ht] at this
            exact this
        · rw [if_neg ha]
          refine ⟨⟨hrem.1, ?_⟩, rfl⟩
          intro x hx
          have := hrem.2 x hx
          rw [ht] at this
          exact this

/-- the marks `insert_node` gives the node: the context's active marks plus those of the node's own marks
    the context's type allows -/
theorem insertMarks_ok (S : Schema) (oty : Option TypeId) (active nodeMarks : Marks)
    (h1 : CanonP S active) (h2 : ∀ m ∈ active, al S oty m) :
    let marks := nodeMarks.foldl (fun acc m =>
      if (match oty with
          | none => true
          | some t => (S.nodeType t).allowsMarkType m.ty) then m.addToSet S acc else acc) active
    CanonP S marks ∧ ∀ m ∈ marks, al S oty m := by
  cases oty with
  | none =>
    apply foldl_inv' (fun acc : Marks => CanonP S acc ∧ ∀ m ∈ acc, al S none m) _ _ nodeMarks active ⟨h1, h2⟩
    intro acc m ⟨c1, _⟩
    simp only [if_true]
    exact ⟨addToSet_canonP S _ _ c1, fun x _ t ht => by cases ht⟩
  | some t =>
    apply foldl_inv' (fun acc : Marks => CanonP S acc ∧ ∀ m ∈ acc, al S (some t) m) _ _ nodeMarks active ⟨h1, h2⟩
    intro acc m ⟨c1, c2⟩
    dsimp only
    by_cases hc : (S.nodeType t).allowsMarkType m.ty = true
    · rw [if_pos hc]
      refine ⟨addToSet_canonP S _ _ c1, ?_⟩
      intro x hx
      rcases mem_addToSet S _ _ _ hx with rfl | hx
      · intro t' ht
        simp only [Option.some.injEq] at ht
        subst ht
        exact hc
      · exact c2 x hx
    · rw [if_neg hc]
      exact ⟨c1, c2⟩

/-! ### the invariant -/

/-- marks of one context: active marks canonical and allowed by the context's type; the marks the finished
    node will carry canonical and allowed by the parent's type; every collected child has valid marks -/
def MI (S : Schema) (pty : Option TypeId) (cx : NodeCtx) : Prop :=
  AOk S cx ∧ CanonP S cx.marks ∧ (∀ m ∈ cx.marks, al S pty m) ∧ (∀ n ∈ cx.content, marksOkB S cx.ty n = true)

def MInv (S : Schema) : Option TypeId → List NodeCtx → Prop
  | _, [] => True
  | pty, c :: r => MI S pty c ∧ MInv S c.ty r

/-- the type of the innermost context (`pty` for an empty stack) -/
def lastTy (pty : Option TypeId) (l : List NodeCtx) : Option TypeId :=
  match l.getLast? with
  | some x => x.ty
  | none => pty

theorem lastTy_cons (pty : Option TypeId) (a : NodeCtx) (l : List NodeCtx) : lastTy pty (a :: l) = lastTy a.ty l := by
  cases l with
  | nil => simp [lastTy]
  | cons b r =>
    unfold lastTy
    rw [List.getLast?_cons_cons]
    cases hg : (b :: r).getLast? with
    | none => simp at hg
    | some x => rfl

theorem MInv_append (S : Schema) : ∀ (l : List NodeCtx) (pty : Option TypeId) (c : NodeCtx),
    MInv S pty (l ++ [c]) ↔ MInv S pty l ∧ MI S (lastTy pty l) c
  | [], pty, c => by simp [MInv, lastTy]
  | a :: l, pty, c => by
    simp only [List.cons_append, MInv, MInv_append S l a.ty c, lastTy_cons, and_assoc]

/-- same type, marks, active marks and content -/
def MSame (a b : NodeCtx) : Prop := a.ty = b.ty ∧ a.active = b.active ∧ a.marks = b.marks ∧ a.content = b.content

theorem MI_append (S : Schema) (p : Option TypeId) (c c' : NodeCtx) (x : Node) (hc : MI S p c)
    (h1 : c'.ty = c.ty) (h2 : c'.active = c.active) (h3 : c'.marks = c.marks) (h4 : c'.content = c.content ++ [x])
    (hx : marksOkB S c.ty x = true) : MI S p c' := by
  obtain ⟨⟨b1, b2⟩, b3, b4, b5⟩ := hc
  refine ⟨⟨h2 ▸ b1, by rw [h1, h2]; exact b2⟩, h3 ▸ b3, by rw [h3]; exact b4, ?_⟩
  rw [h1, h4]
  intro n hn
  rcases List.mem_append.mp hn with hn | hn
  · exact b5 n hn
  · simp only [List.mem_singleton] at hn
    subst hn; exact hx

theorem MI_of_msame {S : Schema} {a b : NodeCtx} (h : MSame a b) (pty : Option TypeId) (hb : MI S pty b) : MI S pty a := by
  obtain ⟨h1, h2, h3, h4⟩ := h
  obtain ⟨⟨b1, b2⟩, b3, b4, b5⟩ := hb
  exact ⟨⟨h2 ▸ b1, by rw [h1, h2]; exact b2⟩, h3 ▸ b3, by rw [h3]; exact b4, by rw [h1, h4]; exact b5⟩

theorem MInv_set (S : Schema) : ∀ (l : List NodeCtx) (i : Nat) (cx cx' : NodeCtx) (pty : Option TypeId),
    l[i]? = some cx → cx'.ty = cx.ty → (∀ p, MI S p cx → MI S p cx') → MInv S pty l → MInv S pty (l.set i cx')
  | [], _, _, _, _, h, _, _, _ => by simp at h
  | a :: l, 0, cx, cx', pty, h, hty, hmi, hinv => by
    simp only [List.getElem?_cons_zero, Option.some.injEq] at h
    subst h
    simp only [List.set_cons_zero, MInv]
    exact ⟨hmi pty hinv.1, hty ▸ hinv.2⟩
  | a :: l, i + 1, cx, cx', pty, h, hty, hmi, hinv => by
    simp only [List.getElem?_cons_succ] at h
    simp only [List.set_cons_succ, MInv]
    exact ⟨hinv.1, MInv_set S l i cx cx' a.ty h hty hmi hinv.2⟩

/-! ### finishing a context -/

theorem mem_stripLast' (l : List Node) (n : Node) (h : n ∈ stripLast l) :
    n ∈ l ∨ ∃ s s0 m, n = .text s m ∧ .text s0 m ∈ l := by
  unfold stripLast at h
  cases hl : l.getLast? with
  | none => left; simpa [hl] using h
  | some x =>
    cases x with
    | leaf => left; simpa [hl] using h
    | elem => left; simpa [hl] using h
    | text s m =>
      simp only [hl] at h
      split at h
      · left; exact h
      · split at h
        · left; exact mem_of_mem_dropLast h
        · rcases List.mem_append.mp h with h | h
          · left; exact mem_of_mem_dropLast h
          · simp only [List.mem_singleton] at h
            right
            exact ⟨_, s, m, h, List.mem_of_getLast? hl⟩

theorem mem_addNode' (acc : List Node) (x n : Node) (h : n ∈ addNode acc x) :
    n ∈ acc ∨ n = x ∨ ∃ s s0 m, n = .text s m ∧ .text s0 m ∈ acc := by
  unfold addNode at h
  split at h
  · rename_i s m s' m' hgl
    split at h
    · rcases List.mem_append.mp h with h | h
      · left; exact mem_of_mem_dropLast h
      · simp only [List.mem_singleton] at h
        right; right
        exact ⟨_, s, m, h, List.mem_of_getLast? hgl⟩
    · rcases List.mem_append.mp h with h | h
      · left; exact h
      · right; left; simpa using h
  · rcases List.mem_append.mp h with h | h
    · left; exact h
    · right; left; simpa using h

theorem mem_fromArray' : ∀ (l : List Node) (n : Node), n ∈ fromArray l →
    n ∈ l ∨ ∃ s s0 m, n = .text s m ∧ .text s0 m ∈ l := by
  intro l
  induction l using snoc_induction with
  | h0 => intro n h; simp [fromArray, addNodes] at h
  | hs l x ih =>
    intro n h
    rw [fromArray_snoc] at h
    rcases mem_addNode' _ _ _ h with h | h | ⟨s, s0, m, h1, h2⟩
    · rcases ih n h with h | ⟨s, s0, m, h1, h2⟩
      · left; simp [h]
      · right; exact ⟨s, s0, m, h1, by simp [h2]⟩
    · left; simp [h]
    · rcases ih _ h2 with h | ⟨_, s1, m1, h3, h4⟩
      · right; exact ⟨s, s0, m, h1, by simp [h]⟩
      · simp only [Node.text.injEq] at h3
        right; exact ⟨s, s1, m1, by rw [h1, h3.2], by simp [h4]⟩

theorem createAndFill_marks (S : Schema) : ∀ (fuel : Nat) (t : TypeId) (n : Node),
    createAndFill S fuel t = .ok n → ∀ pty, marksOkB S pty n = true
  | 0, t, n, h => by simp [createAndFill] at h
  | fuel + 1, t, n, h => by
    unfold createAndFill at h
    split at h
    · cases h
    · split at h
      · cases h
      · rename_i tys hfb
        split at h
        · cases h
        · rename_i kids hk
          simp only [Except.ok.injEq] at h
          subst h
          intro pty
          apply marksOkB_mkNode S pty _ _ _ _ (canonical_nil S)
          · exact (allowedB_iff S pty []).mpr (by simp)
          · exact mapRes_all _ (fun b => marksOkB S (some t) b = true)
              (fun a b hb => createAndFill_marks S fuel a b hb (some t)) tys kids hk

theorem finishContent_marks (S : Schema) (cx : NodeCtx) (oe : Bool) (content : List Node)
    (hc : ∀ n ∈ cx.content, marksOkB S cx.ty n = true) (h : cx.finishContent S oe = .ok content) :
    ∀ n ∈ content, marksOkB S cx.ty n = true := by
  have hkept : ∀ n ∈ fromArray (if cx.opts.preserveWs = true then cx.content else stripLast cx.content),
      marksOkB S cx.ty n = true := by
    intro n hn
    have hsrc : ∀ x ∈ (if cx.opts.preserveWs = true then cx.content else stripLast cx.content), marksOkB S cx.ty x = true := by
      intro x hx
      split at hx
      · exact hc x hx
      · rcases mem_stripLast' _ _ hx with hx | ⟨s, s0, m, h1, h2⟩
        · exact hc x hx
        · rw [h1]; exact marksOkB_text S _ s0 s m (hc _ h2)
    rcases mem_fromArray' _ _ hn with hn | ⟨s, s0, m, h1, h2⟩
    · exact hsrc n hn
    · rw [h1]; exact marksOkB_text S _ s0 s m (hsrc _ h2)
  unfold NodeCtx.finishContent at h
  dsimp only at h
  split at h
  · rename_i _ _ _ q t _ _
    cases hfill : fillNodes S (S.dfa t) q [] true with
    | error e => simp [hfill] at h
    | ok fillo =>
      simp only [hfill] at h
      cases fillo with
      | none => simp at h
      | some fill =>
        simp only [Except.ok.injEq] at h
        unfold fillNodes at hfill
        cases hfb : fillBefore (S.dfa t) S.generatable q [] true with
        | none => simp [hfb] at hfill
        | some tys =>
          simp only [hfb] at hfill
          cases hmr : mapRes (createAndFill S (S.nodes.size + 1)) tys with
          | error e => simp [hmr, Except.map] at hfill
          | ok fl =>
            simp only [hmr, Except.map, Except.ok.injEq, Option.some.injEq] at hfill
            subst hfill
            have hfnt := mapRes_all _ (fun b => notText b)
              (fun a b hb => (createAndFill_notText S _ a b hb)) tys fl hmr
            have hfm := mapRes_all _ (fun b => marksOkB S cx.ty b = true)
              (fun a b hb => createAndFill_marks S _ a b hb cx.ty) tys fl hmr
            rw [fappend_notText _ _ hfnt] at h
            subst h
            intro n hn
            rcases List.mem_append.mp hn with hn | hn
            · exact hkept n hn
            · exact hfm n hn
  · simp only [Except.ok.injEq] at h
    subst h
    exact hkept

theorem finishNode_marks (S : Schema) (pty : Option TypeId) (cx : NodeCtx) (oe : Bool) (t : TypeId) (n : Node)
    (hmi : MI S pty cx) (hty : cx.ty = some t) (h : cx.finishNode S oe t = .ok n) : marksOkB S pty n = true := by
  obtain ⟨_, m1, m2, m3⟩ := hmi
  unfold NodeCtx.finishNode at h
  cases hfc : cx.finishContent S oe with
  | error e => simp [hfc] at h
  | ok content =>
    simp only [hfc] at h
    split at h
    · cases h
    · simp only [Except.ok.injEq] at h
      subst h
      have hcm := finishContent_marks S cx oe content m3 hfc
      rw [hty] at hcm
      have hcan := setFrom_canonP S cx.marks m1
      apply marksOkB_mkNode S pty _ _ _ _ ((canonicalMarks_iff_canonP S _).mpr hcan)
      · apply (allowedB_iff S pty _).mpr
        intro m hm
        exact m2 m ((setFrom_perm' cx.marks).subset hm)
      · exact hcm

/-! ### the operations keep the mark invariant -/

theorem closeExtraLoop_length (S : Schema) (oe : Bool) : ∀ (k : Nat) (nodes nodes' : List NodeCtx),
    closeExtraLoop S oe k nodes = .ok nodes' → k < nodes.length → nodes'.length = nodes.length - k
  | 0, nodes, nodes', h, _ => by
    simp only [closeExtraLoop, Except.ok.injEq] at h
    subst h; simp
  | k + 1, nodes, nodes', h, hk => by
    unfold closeExtraLoop at h
    cases hl : nodes.getLast? with
    | none => simp [hl] at h
    | some cx =>
      simp only [hl] at h
      cases hty : cx.ty with
      | none => simp [hty] at h
      | some t =>
        simp only [hty] at h
        cases hf : cx.finishNode S oe t with
        | error e => simp [hf] at h
        | ok n =>
          simp only [hf] at h
          have hal : (appendToLast nodes.dropLast n).length = nodes.length - 1 := by
            unfold appendToLast
            cases hg : nodes.dropLast.getLast? with
            | none => simp
            | some p =>
              have := eq_dropLast_append_getLast _ _ hg
              have hlen := congrArg List.length this
              simp only [List.length_append, List.length_singleton, List.length_dropLast] at hlen ⊢
              omega
          have := closeExtraLoop_length S oe k _ nodes' h (by rw [hal]; omega)
          rw [this, hal]; omega

theorem closeExtraLoop_minv (S : Schema) (oe : Bool) : ∀ (k : Nat) (nodes nodes' : List NodeCtx),
    MInv S none nodes → closeExtraLoop S oe k nodes = .ok nodes' → MInv S none nodes'
  | 0, nodes, nodes', hi, h => by
    simp only [closeExtraLoop, Except.ok.injEq] at h
    subst h; exact hi
  | k + 1, nodes, nodes', hi, h => by
    unfold closeExtraLoop at h
    cases hl : nodes.getLast? with
    | none => simp [hl] at h
    | some cx =>
      simp only [hl] at h
      cases hty : cx.ty with
      | none => simp [hty] at h
      | some t =>
        simp only [hty] at h
        cases hf : cx.finishNode S oe t with
        | error e => simp [hf] at h
        | ok n =>
          simp only [hf] at h
          have hn := eq_dropLast_append_getLast nodes cx hl
          rw [hn, MInv_append] at hi
          obtain ⟨hrest, hcx⟩ := hi
          have hnm := finishNode_marks S _ cx oe t n hcx hty hf
          refine closeExtraLoop_minv S oe k _ nodes' ?_ h
          unfold appendToLast
          cases hg : nodes.dropLast.getLast? with
          | none => exact hrest
          | some p =>
            dsimp only
            have hr := eq_dropLast_append_getLast _ _ hg
            rw [hr, MInv_append] at hrest
            rw [MInv_append]
            refine ⟨hrest.1, ?_⟩
            obtain ⟨a1, a2, a3, a4⟩ := hrest.2
            refine ⟨a1, a2, a3, ?_⟩
            intro x hx
            rcases List.mem_append.mp hx with hx | hx
            · exact a4 x hx
            · simp only [List.mem_singleton] at hx
              subst hx
              simpa [lastTy, hg] using hnm

theorem closeExtra_minv (S : Schema) (st st' : PState) (oe : Bool) (hi : MInv S none st.nodes)
    (h : st.closeExtra S oe = .ok st') : MInv S none st'.nodes ∧ st'.open_ = st.open_ ∧
      (st.open_ < st.nodes.length → st'.nodes.length = st.open_ + 1) := by
  unfold PState.closeExtra at h
  cases hl : closeExtraLoop S oe (st.nodes.length - 1 - st.open_) st.nodes with
  | error e => simp [hl, Except.map] at h
  | ok ns =>
    simp only [hl, Except.map, Except.ok.injEq] at h
    subst h
    refine ⟨closeExtraLoop_minv S oe _ _ _ hi hl, rfl, ?_⟩
    intro ho
    have := closeExtraLoop_length S oe _ _ _ hl (by omega)
    simp only; omega

theorem findWrapping_msame (S : Schema) (cx cx' : NodeCtx) (ty : TypeId) (r : Option (List TypeId))
    (h : cx.findWrapping S ty = .ok (cx', r)) : MSame cx' cx := by
  unfold NodeCtx.findWrapping at h
  repeat' split at h
  all_goals first
    | (simp only [Except.ok.injEq, Prod.mk.injEq] at h; obtain ⟨rfl, _⟩ := h; exact ⟨rfl, rfl, rfl, rfl⟩)
    | cases h

theorem findPlaceLoop_minv (S : Schema) (ty : TypeId) : ∀ (n : Nat) (nodes : List NodeCtx)
    (route : Option (List TypeId)) (sync : Option Nat) (res : List NodeCtx × Option (List TypeId) × Option Nat),
    MInv S none nodes → findPlaceLoop S ty n nodes route sync = .ok res → MInv S none res.1
  | 0, nodes, route, sync, res, hi, h => by
    simp only [findPlaceLoop, Except.ok.injEq] at h
    subst h; exact hi
  | d + 1, nodes, route, sync, res, hi, h => by
    unfold findPlaceLoop at h
    cases hd : nodes[d]? with
    | none => simp [hd] at h
    | some cx =>
      simp only [hd] at h
      cases hf : cx.findWrapping S ty with
      | error e => simp [hf] at h
      | ok r =>
        obtain ⟨cx', found⟩ := r
        simp only [hf] at h
        have hms := findWrapping_msame S cx cx' ty found hf
        have hset := MInv_set S nodes d cx cx' none hd hms.1 (fun p hp => MI_of_msame hms p hp) hi
        split at h
        · simp only [Except.ok.injEq] at h
          subst h; exact hset
        · exact findPlaceLoop_minv S ty d _ _ _ res hset h

theorem MI_at (S : Schema) : ∀ (l : List NodeCtx) (pty : Option TypeId) (i : Nat) (cx : NodeCtx),
    MInv S pty l → l[i]? = some cx → ∃ p, MI S p cx
  | [], _, _, _, _, h => by simp at h
  | a :: l, pty, 0, cx, hi, h => by
    simp only [List.getElem?_cons_zero, Option.some.injEq] at h
    subst h; exact ⟨pty, hi.1⟩
  | a :: l, pty, i + 1, cx, hi, h => by
    simp only [List.getElem?_cons_succ] at h
    exact MI_at S l a.ty i cx hi.2 h

theorem lastTy_set_last (pty : Option TypeId) (l : List NodeCtx) (n : Nat) (cx : NodeCtx) (h : l.length = n + 1) :
    lastTy pty (l.set n cx) = cx.ty := by
  unfold lastTy
  rw [List.getLast?_eq_getElem?]
  simp [h]

theorem push_minv (S : Schema) (nodes : List NodeCtx) (o : Nat) (top topX new : NodeCtx)
    (hi : MInv S none nodes) (htop : nodes[o]? = some top) (hlen : nodes.length = o + 1)
    (hty : topX.ty = top.ty) (hmi : ∀ p, MI S p top → MI S p topX) (hnew : MI S topX.ty new) :
    MInv S none (nodes.set o topX ++ [new]) := by
  rw [MInv_append]
  refine ⟨MInv_set S _ _ top _ none htop hty hmi hi, ?_⟩
  rw [lastTy_set_last none _ _ _ hlen]
  exact hnew

/-- the length fact `enter_inner` / `insert_node` rely on after `close_extra` -/
theorem closeExtra_top (S : Schema) (st st1 : PState) (hi : MInv S none st.nodes) (hce : st.closeExtra S = .ok st1)
    (top : NodeCtx) (htop : st1.nodes[st1.open_]? = some top) :
    MInv S none st1.nodes ∧ st1.nodes.length = st1.open_ + 1 := by
  obtain ⟨c1, c2, c3⟩ := closeExtra_minv S st st1 false hi hce
  refine ⟨c1, ?_⟩
  have ho1 : st1.open_ < st1.nodes.length := by
    rcases Nat.lt_or_ge st1.open_ st1.nodes.length with hh | hh
    · exact hh
    · rw [List.getElem?_eq_none hh] at htop; cases htop
  rcases Nat.lt_or_ge st.open_ st.nodes.length with hh | hh
  · rw [c2]; exact c3 hh
  · unfold PState.closeExtra at hce
    have hz : st.nodes.length - 1 - st.open_ = 0 := by omega
    simp only [hz, closeExtraLoop, Except.map, Except.ok.injEq] at hce
    subst hce
    simp only at ho1
    omega

theorem enterInner_minv (S : Schema) (wsPre : TypeId → Bool) (st st' : PState) (ty : TypeId) (attrs : Option Attrs)
    (solid : Bool) (pw : WS) (hi : MInv S none st.nodes)
    (h : st.enterInner S wsPre ty attrs solid pw = .ok st') : MInv S none st'.nodes := by
  unfold PState.enterInner at h
  cases hce : st.closeExtra S with
  | error e => simp [hce] at h
  | ok st1 =>
    simp only [hce] at h
    cases htop : st1.nodes[st1.open_]? with
    | none => simp [htop] at h
    | some top =>
      obtain ⟨c1, hlen⟩ := closeExtra_top S st st1 hi hce top htop
      have hap := applyPending_aok S top ty
      have hsame := applyPending_same S top ty
      obtain ⟨p0, hp0⟩ := MI_at S _ _ _ _ c1 htop
      have haok := (hap hp0.1).1
      have hmi_ap : ∀ p, MI S p top → MI S p (top.applyPending S ty) := by
        intro p ⟨a1, a2, a3, a4⟩
        have hb := hap a1
        exact ⟨hb.1, hb.2 ▸ a2, by rw [hb.2]; exact a3, by rw [hsame.1, hsame.2.2.1]; exact a4⟩
      have hnew : ∀ (topX : NodeCtx) (o : Opts) (u : Nat), topX.ty = top.ty → topX.active = (top.applyPending S ty).active →
          MI S topX.ty { NodeCtx.new (some ty) attrs topX.active topX.pending solid o with uid := u } := by
        intro topX o u h1 h2
        refine ⟨⟨CanonP.nil S, by simp [NodeCtx.new]⟩, ?_, ?_, by simp [NodeCtx.new]⟩
        · simpa [NodeCtx.new, h2] using haok.1
        · intro m hm
          have := haok.2 m (by simpa [NodeCtx.new, h2] using hm)
          rw [hsame.1, ← h1] at this
          exact this
      simp only [htop] at h
      cases hm : (top.applyPending S ty).mtch with
      | none =>
        simp only [hm, Except.ok.injEq] at h
        subst h
        exact push_minv S _ _ top _ _ c1 htop hlen hsame.1 hmi_ap (hnew _ _ _ hsame.1 rfl)
      | some q =>
        cases ht : (top.applyPending S ty).ty with
        | none =>
          simp only [hm, ht, Except.ok.injEq] at h
          subst h
          exact push_minv S _ _ top _ _ c1 htop hlen hsame.1 hmi_ap (hnew _ _ _ hsame.1 rfl)
        | some t =>
          simp only [hm, ht, Except.ok.injEq] at h
          subst h
          refine push_minv S _ _ top _ _ c1 htop hlen (by simpa using ht ▸ hsame.1) ?_ (hnew _ _ _ (by simpa using ht ▸ hsame.1) rfl)
          intro p hp
          have := hmi_ap p hp
          obtain ⟨⟨b1, b2⟩, b3, b4, b5⟩ := this
          rw [ht] at b2 b5
          exact ⟨⟨b1, b2⟩, b3, b4, b5⟩

theorem enterRoute_minv (S : Schema) (wsPre : TypeId → Bool) : ∀ (route : List TypeId) (st st' : PState),
    MInv S none st.nodes → enterRoute S wsPre route st = .ok st' → MInv S none st'.nodes
  | [], st, st', hi, h => by simp only [enterRoute, Except.ok.injEq] at h; subst h; exact hi
  | w :: rest, st, st', hi, h => by
    unfold enterRoute at h
    cases he : st.enterInner S wsPre w none false .unset with
    | error e => simp [he] at h
    | ok st1 =>
      simp only [he] at h
      exact enterRoute_minv S wsPre rest st1 st' (enterInner_minv S wsPre st st1 _ _ _ _ hi he) h

theorem findPlace_minv (S : Schema) (wsPre : TypeId → Bool) (st st' : PState) (ty : TypeId) (b : Bool)
    (hi : MInv S none st.nodes) (h : st.findPlace S wsPre ty = .ok (st', b)) : MInv S none st'.nodes := by
  unfold PState.findPlace at h
  cases hl : findPlaceLoop S ty (st.open_ + 1) st.nodes none none with
  | error e => simp [hl] at h
  | ok res =>
    have hres := findPlaceLoop_minv S ty _ _ _ _ res hi hl
    obtain ⟨nodes', route', sync'⟩ := res
    simp only [hl] at h
    cases route' with
    | none =>
      simp only [Except.ok.injEq, Prod.mk.injEq] at h
      obtain ⟨rfl, _⟩ := h; exact hres
    | some route =>
      cases sync' with
      | none =>
        simp only at h
        cases he : enterRoute S wsPre route { st with nodes := nodes' } with
        | error e => simp [he, Except.map] at h
        | ok st2 =>
          simp only [he, Except.map, Except.ok.injEq, Prod.mk.injEq] at h
          obtain ⟨rfl, _⟩ := h
          exact enterRoute_minv S wsPre route _ _ hres he
      | some d =>
        simp only at h
        cases he : enterRoute S wsPre route { ({ st with nodes := nodes' } : PState) with open_ := d } with
        | error e => simp [he, Except.map] at h
        | ok st2 =>
          simp only [he, Except.map, Except.ok.injEq, Prod.mk.injEq] at h
          obtain ⟨rfl, _⟩ := h
          exact enterRoute_minv S wsPre route _ _ hres he

theorem insertNode_minv (S : Schema) (wsPre : TypeId → Bool) (st st' : PState) (node : Node) (b : Bool)
    (hi : MInv S none st.nodes) (hk : kidsMarksOk S node = true)
    (h : st.insertNode S wsPre node = .ok (st', b)) : MInv S none st'.nodes := by
  unfold PState.insertNode at h
  dsimp only at h
  split at h
  · cases h
  · rename_i stp hp
    have hip : MInv S none stp.nodes := by
      split at hp
      · split at hp
        · exact enterInner_minv S wsPre st stp _ _ _ _ hi hp
        · simp only [Except.ok.injEq] at hp; subst hp; exact hi
      · simp only [Except.ok.injEq] at hp; subst hp; exact hi
    cases hf : stp.findPlace S wsPre (S.tyOf node) with
    | error e => simp [hf] at h
    | ok res =>
      obtain ⟨st2, b2⟩ := res
      have h2 := findPlace_minv S wsPre stp st2 _ b2 hip hf
      cases b2 with
      | false =>
        simp only [hf, Except.ok.injEq, Prod.mk.injEq] at h
        obtain ⟨rfl, _⟩ := h
        exact h2
      | true =>
        simp only [hf] at h
        cases hce : st2.closeExtra S with
        | error e => simp [hce] at h
        | ok st3 =>
          simp only [hce] at h
          cases htop : st3.nodes[st3.open_]? with
          | none => simp [htop] at h
          | some top =>
            obtain ⟨c1, _⟩ := closeExtra_top S st2 st3 h2 hce top htop
            have hap := applyPending_aok S top (S.tyOf node)
            have hsame := applyPending_same S top (S.tyOf node)
            have hmi_ap : ∀ p, MI S p top → MI S p (top.applyPending S (S.tyOf node)) := by
              intro p ⟨a1, a2, a3, a4⟩
              have hb := hap a1
              exact ⟨hb.1, hb.2 ▸ a2, by rw [hb.2]; exact a3, by rw [hsame.1, hsame.2.2.1]; exact a4⟩
            simp only [htop] at h
            split at h
            all_goals (
              simp only [Except.ok.injEq, Prod.mk.injEq] at h
              obtain ⟨rfl, _⟩ := h
              simp only [PState.setTop]
              refine MInv_set S _ _ top _ none htop hsame.1 ?_ c1
              intro p hp
              have hb := hmi_ap p hp
              refine MI_append S p (top.applyPending S (S.tyOf node)) _ _ hb rfl rfl rfl rfl ?_
              obtain ⟨k1, k2⟩ := insertMarks_ok S (top.applyPending S (S.tyOf node)).ty
                (top.applyPending S (S.tyOf node)).active node.marks hb.1.1 hb.1.2
              exact marksOkB_withMarks S _ _ _ ((canonicalMarks_iff_canonP S _).mpr k1)
                ((allowedB_iff S _ _).mpr k2) hk)

theorem enter_minv (S : Schema) (wsPre : TypeId → Bool) (st st' : PState) (ty : TypeId) (attrs : Option Attrs)
    (pw : WS) (b : Bool) (hi : MInv S none st.nodes) (h : st.enter S wsPre ty attrs pw = .ok (st', b)) :
    MInv S none st'.nodes := by
  unfold PState.enter at h
  split at h
  · cases h
  · cases hf : st.findPlace S wsPre ty with
    | error e => simp [hf] at h
    | ok res =>
      obtain ⟨st2, b2⟩ := res
      have h2 := findPlace_minv S wsPre st st2 _ b2 hi hf
      cases b2 with
      | false =>
        simp only [hf, Except.ok.injEq, Prod.mk.injEq] at h
        obtain ⟨rfl, _⟩ := h
        exact h2
      | true =>
        simp only [hf] at h
        cases he : st2.enterInner S wsPre ty attrs true pw with
        | error e => simp [he, Except.map] at h
        | ok st3 =>
          simp only [he, Except.map, Except.ok.injEq, Prod.mk.injEq] at h
          obtain ⟨rfl, _⟩ := h
          exact enterInner_minv S wsPre st2 st3 _ _ _ _ h2 he

theorem removePendingLoop_minv (S : Schema) (m : TMark) (upto : Option Nat) : ∀ (n : Nat) (nodes nodes' : List NodeCtx),
    MInv S none nodes → removePendingLoop S m upto n nodes = .ok nodes' → MInv S none nodes'
  | 0, nodes, nodes', hi, h => by
    simp only [removePendingLoop, Except.ok.injEq] at h
    subst h; exact hi
  | d + 1, nodes, nodes', hi, h => by
    unfold removePendingLoop at h
    cases hd : nodes[d]? with
    | none => simp [hd] at h
    | some level =>
      simp only [hd] at h
      have hsame := removePending_same S level m
      have hset : MInv S none (nodes.set d (level.removePending S m)) := by
        refine MInv_set S nodes d level _ none hd hsame.1 ?_ hi
        intro p ⟨a1, a2, a3, a4⟩
        have hb := removePending_aok S level m a1
        exact ⟨hb.1, hb.2 ▸ a2, by rw [hb.2]; exact a3, by rw [hsame.1, hsame.2.2.1]; exact a4⟩
      split at h
      · simp only [Except.ok.injEq] at h
        subst h; exact hset
      · exact removePendingLoop_minv S m upto d _ nodes' hset h

/-- what the DOM walk must respect for the mark invariant: below a node it hands to `insert_node`, marks are
    valid already (the node's own marks are replaced by `insert_node`) -/
def WalkMarksOk (S : Schema) : Event → Prop
  | .insertNode n => kidsMarksOk S n = true
  | _ => True

theorem step_minv (S : Schema) (wsPre : TypeId → Bool) (st st' : PState) (e : Event) (r : Option Bool)
    (hi : MInv S none st.nodes) (hev : WalkMarksOk S e) (h : st.step S wsPre e = .ok (st', r)) :
    MInv S none st'.nodes := by
  cases e with
  | insertNode n =>
    simp only [PState.step] at h
    cases hx : st.insertNode S wsPre n with
    | error e => simp [hx, Except.map] at h
    | ok res =>
      simp only [hx, Except.map, Except.ok.injEq, Prod.mk.injEq] at h
      obtain ⟨rfl, _⟩ := h
      exact insertNode_minv S wsPre st res.1 n res.2 hi hev hx
  | enter ty attrs pw =>
    simp only [PState.step] at h
    cases hx : st.enter S wsPre ty attrs pw with
    | error e => simp [hx, Except.map] at h
    | ok res =>
      simp only [hx, Except.map, Except.ok.injEq, Prod.mk.injEq] at h
      obtain ⟨rfl, _⟩ := h
      exact enter_minv S wsPre st res.1 ty attrs pw res.2 hi hx
  | findPlace n =>
    simp only [PState.step] at h
    cases hx : st.findPlace S wsPre (S.tyOf n) with
    | error e => simp [hx, Except.map] at h
    | ok res =>
      simp only [hx, Except.map, Except.ok.injEq, Prod.mk.injEq] at h
      obtain ⟨rfl, _⟩ := h
      exact findPlace_minv S wsPre st res.1 _ res.2 hi hx
  | addPending m =>
    simp only [PState.step, PState.addPendingMark] at h
    cases htop : st.nodes[st.open_]? with
    | none => simp [htop, Except.map] at h
    | some top =>
      simp only [htop, Except.map, Except.ok.injEq, Prod.mk.injEq] at h
      obtain ⟨rfl, _⟩ := h
      refine MInv_set S _ _ top _ none htop ?_ ?_ hi
      · cases findSameMark m.2 top.pending <;> rfl
      · intro p hp
        cases findSameMark m.2 top.pending <;> exact MI_of_msame ⟨rfl, rfl, rfl, rfl⟩ p hp
  | removePending m upto =>
    simp only [PState.step, PState.removePendingMark] at h
    cases hl : removePendingLoop S m upto (st.open_ + 1) st.nodes with
    | error e => simp [hl, Except.map] at h
    | ok ns =>
      simp only [hl, Except.map, Except.ok.injEq, Prod.mk.injEq] at h
      obtain ⟨rfl, _⟩ := h
      exact removePendingLoop_minv S m upto _ _ _ hi hl
  | sync to =>
    simp only [PState.step, PState.sync, Except.ok.injEq, Prod.mk.injEq] at h
    obtain ⟨rfl, _⟩ := h
    cases to with
    | none => exact hi
    | some k => dsimp only; split <;> exact hi
  | setOpen v =>
    simp only [PState.step, Except.ok.injEq, Prod.mk.injEq] at h
    obtain ⟨rfl, _⟩ := h; exact hi
  | setNeedsBlock b =>
    simp only [PState.step, Except.ok.injEq, Prod.mk.injEq] at h
    obtain ⟨rfl, _⟩ := h; exact hi
  | closeExtra oe =>
    simp only [PState.step] at h
    cases hx : st.closeExtra S oe with
    | error e => simp [hx, Except.map] at h
    | ok res =>
      simp only [hx, Except.map, Except.ok.injEq, Prod.mk.injEq] at h
      obtain ⟨rfl, _⟩ := h
      exact (closeExtra_minv S st res oe hi hx).1

theorem run_minv (S : Schema) (wsPre : TypeId → Bool) : ∀ (events : List Event) (st st' : PState),
    MInv S none st.nodes → (∀ e ∈ events, WalkMarksOk S e) → PState.run S wsPre st events = .ok st' → MInv S none st'.nodes
  | [], st, st', hi, _, h => by simp only [PState.run, Except.ok.injEq] at h; subst h; exact hi
  | e :: es, st, st', hi, hev, h => by
    unfold PState.run at h
    cases hs : st.step S wsPre e with
    | error err => simp [hs] at h
    | ok res =>
      simp only [hs] at h
      exact run_minv S wsPre es res.1 st' (step_minv S wsPre st res.1 e res.2 hi (hev e (by simp)) hs)
        (fun e' he' => hev e' (by simp [he'])) h

theorem init_minv (S : Schema) (isOpen : Bool) (pw : WS) (topOpen : Bool) : MInv S none (PState.init S isOpen pw topOpen).nodes := by
  refine ⟨⟨⟨CanonP.nil S, by simp [NodeCtx.new]⟩, CanonP.nil S, by simp [NodeCtx.new], by simp [NodeCtx.new]⟩, trivial⟩

/-- the finished document has valid marks throughout -/
theorem finish_marks (S : Schema) (st : PState) (doc : Node) (rest : List Node) (hi : MInv S none st.nodes)
    (h : st.finish S = .ok (some doc, rest)) : marksOkB S none doc = true := by
  unfold PState.finish at h
  cases hce : ({ st with open_ := 0 } : PState).closeExtra S st.isOpen with
  | error e => simp [hce] at h
  | ok st1 =>
    simp only [hce] at h
    have c1 := (closeExtra_minv S { st with open_ := 0 } st1 st.isOpen hi hce).1
    cases hn1 : st1.nodes with
    | nil => simp [hn1] at h
    | cons root l1 =>
      simp only [hn1, List.head?_cons] at h
      rw [hn1] at c1
      cases hty : root.ty with
      | none =>
        simp only [hty] at h
        cases hfc : root.finishContent S (st1.isOpen || st1.topOpen) with
        | error e => simp [hfc, Except.map] at h
        | ok c => simp [hfc, Except.map] at h
      | some t =>
        simp only [hty] at h
        cases hfn : root.finishNode S (st1.isOpen || st1.topOpen) t with
        | error e => simp [hfn, Except.map] at h
        | ok n =>
          simp only [hfn, Except.map, Except.ok.injEq, Prod.mk.injEq, Option.some.injEq] at h
          obtain ⟨rfl, _⟩ := h
          exact finishNode_marks S none root _ t n c1.1 hty hfn

/-! ### content clause + mark clauses = `Node.check` -/

theorem marksOkB_allowed (S : Schema) (pty : Option TypeId) (n : Node) (h : marksOkB S pty n = true) :
    allowedB S pty n.marks = true := by
  cases n <;> simp only [marksOkB, Bool.and_eq_true] at h <;> simp [Node.marks, h]

mutual
theorem checkNode_of (S : Schema) : ∀ (n : Node) (pty : Option TypeId),
    contentOk S n = true → marksOkB S pty n = true → S.checkNode n = true
  | .text s m, pty, _, h2 => by
    simp only [marksOkB, Bool.and_eq_true] at h2
    simp [Schema.checkNode, h2.1]
  | .leaf t a m, pty, h1, h2 => by
    simp only [marksOkB, Bool.and_eq_true] at h2
    simp only [contentOk] at h1
    simp [Schema.checkNode, Schema.validContent, Schema.types, h2.1, h1]
  | .elem t a m kids, pty, h1, h2 => by
    simp only [marksOkB, Bool.and_eq_true] at h2
    simp only [contentOk, Bool.and_eq_true] at h1
    simp only [Schema.checkNode, Schema.validContent, Bool.and_eq_true]
    refine ⟨⟨⟨h1.1, ?_⟩, h2.1.1⟩, checkKids_of S kids (some t) h1.2 h2.2⟩
    rw [List.all_eq_true]
    intro k hk
    exact marksOkB_allowed S (some t) k ((marksOkAll_iff S _ kids).mp h2.2 k hk)
theorem checkKids_of (S : Schema) : ∀ (l : List Node) (pty : Option TypeId),
    contentOkAll S l = true → marksOkAll S pty l = true → S.checkKids l = true
  | [], _, _, _ => by simp [Schema.checkKids]
  | n :: ns, pty, h1, h2 => by
    simp only [contentOkAll, Bool.and_eq_true] at h1
    simp only [marksOkAll, Bool.and_eq_true] at h2
    simp [Schema.checkKids, checkNode_of S n pty h1.1 h2.1, checkKids_of S ns pty h1.2 h2.2]
end

end PM.FromDom
