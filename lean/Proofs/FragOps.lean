/-
  Proofs/FragOps.lean — helper lemmas for the `Fragment` object model (PM/FragOps.lean): the line-by-line
  `from_array` loop computes the fold of `addNode` (`fromArray` of PM/Fragment.lean) and the sum of the input sizes;
  unconditional adjacency facts about `addNode`; `append`, `cut`, `cut_by_index`, `replace_child`, `find_index`,
  `eq` against their list-level counterparts.
-/
import PM.FragOps
import Proofs.Toks
import Proofs.TokCore
namespace PM

/-! ### the `from_array` loop -/

/-- marks of the last node if it is a text node -/
def lastKey (l : List Node) : Option Marks :=
  match l.getLast? with
  | some (.text _ m) => some m
  | _ => none

theorem lastKey_concat (l : List Node) (n : Node) :
    lastKey (l ++ [n]) = (match n with | .text _ m => some m | _ => none) := by
  cases n <;> simp [lastKey]

/-- the join test of the loop (`i and is_text(node) and array[i-1].same_markup(node)`) in terms of `lastKey` -/
theorem joinTest_iff (pre : List Node) (node : Node) :
    joinTest pre node = true ↔ ∃ s m, node = .text s m ∧ lastKey pre = some m := by
  unfold lastKey joinTest
  cases node with
  | text s m =>
    cases hl : pre.getLast? with
    | none => simp [Node.isText]
    | some p =>
      have hne : pre ≠ [] := by intro h; subst h; simp at hl
      cases p with
      | text s' m' =>
        simp only [Node.isText, Node.sameMarkup, Bool.and_true, Bool.and_eq_true, Bool.not_eq_true',
          List.isEmpty_eq_false_iff, beq_iff_eq, Node.text.injEq, Option.some.injEq]
        constructor
        · rintro ⟨_, h⟩; exact ⟨s, m, ⟨rfl, rfl⟩, h⟩
        · rintro ⟨_, _, ⟨rfl, rfl⟩, h⟩; exact ⟨hne, h⟩
      | leaf t a m' => simp [Node.isText, Node.sameMarkup]
      | elem t a m' k => simp [Node.isText, Node.sameMarkup]
  | leaf t a m => simp [Node.isText]
  | elem t a m k => simp [Node.isText]

theorem addNode_join (j : List Node) (s : List Nat) (m : Marks) (h : lastKey j = some m) :
    ∃ ls, j.getLast? = some (.text ls m) ∧ addNode j (.text s m) = j.dropLast ++ [.text (ls ++ s) m] := by
  unfold lastKey at h
  cases hl : j.getLast? with
  | none => simp [hl] at h
  | some p =>
    rw [hl] at h
    cases p with
    | text ls m' =>
      simp at h; subst h
      exact ⟨ls, rfl, by simp [addNode, hl]⟩
    | leaf => simp at h
    | elem => simp at h

theorem addNode_nojoin (j : List Node) (node : Node)
    (h : ¬ ∃ s m, node = .text s m ∧ lastKey j = some m) : addNode j node = j ++ [node] := by
  unfold addNode
  split
  · rename_i s m s' m' hl
    split
    · rename_i hm; subst hm
      exact (h ⟨s', m, rfl, by simp [lastKey, hl]⟩).elim
    · rfl
  · rfl

/-- the loop computes the fold of `addNode` over the remaining nodes and adds up their sizes; it never reaches the
    assertion.  `hinv`: the last node of `joined` has the markup of `array[i-1]`. -/
theorem fromArrayLoop_spec : ∀ (rest pre : List Node) (joined : Option (List Node)) (size : Int),
    lastKey (joined.getD pre) = lastKey pre →
    ∃ j', fromArrayLoop pre rest joined size = .ok (j', size + fsize rest) ∧
      j'.getD (pre ++ rest) = addNodes (joined.getD pre) rest
  | [], pre, joined, size, _ => ⟨joined, by simp [fromArrayLoop], by simp [addNodes]⟩
  | node :: rest, pre, joined, size, hinv => by
    unfold fromArrayLoop
    dsimp only
    by_cases hc : ∃ s m, node = .text s m ∧ lastKey pre = some m
    · obtain ⟨s, m, rfl, hk⟩ := hc
      have hc' := (joinTest_iff pre (.text s m)).2 ⟨s, m, rfl, hk⟩
      obtain ⟨ls, hl, ha⟩ := addNode_join (joined.getD pre) s m (hinv.trans hk)
      simp only [hc', if_true, hl]
      obtain ⟨j', h1, h2⟩ := fromArrayLoop_spec rest (pre ++ [.text s m])
        (some ((joined.getD pre).dropLast ++ [.text (ls ++ s) m])) (size + (Node.text s m).size)
        (by simp [lastKey_concat])
      refine ⟨j', ?_, ?_⟩
      · rw [h1]; simp [Int.add_assoc]
      · simp only [List.append_assoc, List.singleton_append, Option.getD_some] at h2
        rw [h2]; simp only [addNodes, List.foldl_cons, ha]
    · have hc' : joinTest pre node = false := by
        rw [Bool.eq_false_iff]; exact fun h => hc ((joinTest_iff pre node).1 h)
      have ha := addNode_nojoin (joined.getD pre) node (by rw [hinv]; exact hc)
      simp only [hc', Bool.false_eq_true, if_false]
      cases joined with
      | some j =>
        simp only [Option.getD_some] at ha hinv
        obtain ⟨j', h1, h2⟩ := fromArrayLoop_spec rest (pre ++ [node]) (some (j ++ [node])) (size + node.size)
          (by simp [lastKey_concat])
        refine ⟨j', ?_, ?_⟩
        · simp only; rw [h1]; simp [Int.add_assoc]
        · simp only [List.append_assoc, List.singleton_append, Option.getD_some] at h2
          rw [h2]; simp only [Option.getD_some, addNodes, List.foldl_cons, ha]
      | none =>
        simp only [Option.getD_none] at ha
        obtain ⟨j', h1, h2⟩ := fromArrayLoop_spec rest (pre ++ [node]) none (size + node.size) rfl
        refine ⟨j', ?_, ?_⟩
        · simp only; rw [h1]; simp [Int.add_assoc]
        · simp only [List.append_assoc, List.singleton_append, Option.getD_none] at h2
          rw [h2]; simp only [Option.getD_none, addNodes, List.foldl_cons, ha]

/-- **`Fragment.from_array` line by line = the fold of `add_node`, with the sum of the input sizes stored** -/
theorem Frag.fromArray_eq (l : List Node) : Frag.fromArray l = .ok ⟨PM.fromArray l, fsize l⟩ := by
  unfold Frag.fromArray
  cases l with
  | nil => simp [Frag.empty, PM.fromArray, addNodes]
  | cons n ns =>
    obtain ⟨j', h1, h2⟩ := fromArrayLoop_spec (n :: ns) [] none 0 rfl
    simp only [List.isEmpty_cons, Bool.false_eq_true, if_false, h1]
    simp only [List.nil_append, Option.getD_none] at h2
    simp [h2, PM.fromArray]

end PM
