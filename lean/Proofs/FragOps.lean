/-
  Proofs/FragOps.lean — helper lemmas for the `Fragment` object model (PM/FragOps.lean): the line-by-line
  `from_array` loop computes the fold of `addNode` (`fromArray` of PM/Fragment.lean) and the sum of the input sizes;
  unconditional adjacency facts about `addNode`; `append`, `cut`, `cut_by_index`, `replace_child`, `find_index`,
  `eq` against their list-level counterparts.
-/
import PM.FragOps
import Proofs.Toks
import Proofs.TokCore
namespace PM

/-! ### the `from_array` loop -/

/-- marks of the last node if it is a text node -/
def lastKey (l : List Node) : Option Marks :=
  match l.getLast? with
  | some (.text _ m) => some m
  | _ => none

theorem lastKey_concat (l : List Node) (n : Node) :
    lastKey (l ++ [n]) = (match n with | .text _ m => some m | _ => none) := by
  cases n <;> simp [lastKey]

/-- the join test of the loop (`i and is_text(node) and array[i-1].same_markup(node)`) in terms of `lastKey` -/
theorem faJoinTest_iff (pre : List Node) (node : Node) :
    faJoinTest pre node = true ↔ ∃ s m, node = .text s m ∧ lastKey pre = some m := by
  unfold lastKey faJoinTest
  cases node with
  | text s m =>
    cases hl : pre.getLast? with
    | none => simp [Node.isText]
    | some p =>
      have hne : pre ≠ [] := by intro h; subst h; simp at hl
      cases p with
      | text s' m' =>
        simp only [Node.isText, Node.sameMarkup, Bool.and_true, Bool.and_eq_true, Bool.not_eq_true',
          List.isEmpty_eq_false_iff, beq_iff_eq, Node.text.injEq, Option.some.injEq]
        constructor
        · rintro ⟨_, h⟩; exact ⟨s, m, ⟨rfl, rfl⟩, h⟩
        · rintro ⟨_, _, ⟨rfl, rfl⟩, h⟩; exact ⟨hne, h⟩
      | leaf t a m' => simp [Node.isText, Node.sameMarkup]
      | elem t a m' k => simp [Node.isText, Node.sameMarkup]
  | leaf t a m => simp [Node.isText]
  | elem t a m k => simp [Node.isText]

theorem addNode_join (j : List Node) (s : List Nat) (m : Marks) (h : lastKey j = some m) :
    ∃ ls, j.getLast? = some (.text ls m) ∧ addNode j (.text s m) = j.dropLast ++ [.text (ls ++ s) m] := by
  unfold lastKey at h
  cases hl : j.getLast? with
  | none => simp [hl] at h
  | some p =>
    rw [hl] at h
    cases p with
    | text ls m' =>
      simp at h; subst h
      exact ⟨ls, rfl, by simp [addNode, hl]⟩
    | leaf => simp at h
    | elem => simp at h

theorem addNode_nojoin (j : List Node) (node : Node)
    (h : ¬ ∃ s m, node = .text s m ∧ lastKey j = some m) : addNode j node = j ++ [node] := by
  unfold addNode
  split
  · rename_i s m s' m' hl
    split
    · rename_i hm; subst hm
      exact (h ⟨s', m, rfl, by simp [lastKey, hl]⟩).elim
    · rfl
  · rfl

/-- the loop computes the fold of `addNode` over the remaining nodes and adds up their sizes; it never reaches the
    assertion.  `hinv`: the last node of `joined` has the markup of `array[i-1]`. -/
theorem fromArrayLoop_spec : ∀ (rest pre : List Node) (joined : Option (List Node)) (size : Int),
    lastKey (joined.getD pre) = lastKey pre →
    ∃ j', fromArrayLoop pre rest joined size = .ok (j', size + fsize rest) ∧
      j'.getD (pre ++ rest) = addNodes (joined.getD pre) rest
  | [], pre, joined, size, _ => ⟨joined, by simp [fromArrayLoop], by simp [addNodes]⟩
  | node :: rest, pre, joined, size, hinv => by
    unfold fromArrayLoop
    dsimp only
    by_cases hc : ∃ s m, node = .text s m ∧ lastKey pre = some m
    · obtain ⟨s, m, rfl, hk⟩ := hc
      have hc' := (faJoinTest_iff pre (.text s m)).2 ⟨s, m, rfl, hk⟩
      obtain ⟨ls, hl, ha⟩ := addNode_join (joined.getD pre) s m (hinv.trans hk)
      simp only [hc', if_true, hl]
      obtain ⟨j', h1, h2⟩ := fromArrayLoop_spec rest (pre ++ [.text s m])
        (some ((joined.getD pre).dropLast ++ [.text (ls ++ s) m])) (size + (Node.text s m).size)
        (by simp [lastKey_concat])
      refine ⟨j', ?_, ?_⟩
      · rw [h1]; simp [Int.add_assoc]
      · simp only [List.append_assoc, List.singleton_append, Option.getD_some] at h2
        rw [h2]; simp only [addNodes, List.foldl_cons, ha]
    · have hc' : faJoinTest pre node = false := by
        rw [Bool.eq_false_iff]; exact fun h => hc ((faJoinTest_iff pre node).1 h)
      have ha := addNode_nojoin (joined.getD pre) node (by rw [hinv]; exact hc)
      simp only [hc', Bool.false_eq_true, if_false]
      cases joined with
      | some j =>
        simp only [Option.getD_some] at ha hinv
        obtain ⟨j', h1, h2⟩ := fromArrayLoop_spec rest (pre ++ [node]) (some (j ++ [node])) (size + node.size)
          (by simp [lastKey_concat])
        refine ⟨j', ?_, ?_⟩
        · simp only; rw [h1]; simp [Int.add_assoc]
        · simp only [List.append_assoc, List.singleton_append, Option.getD_some] at h2
          rw [h2]; simp only [Option.getD_some, addNodes, List.foldl_cons, ha]
      | none =>
        simp only [Option.getD_none] at ha
        obtain ⟨j', h1, h2⟩ := fromArrayLoop_spec rest (pre ++ [node]) none (size + node.size) rfl
        refine ⟨j', ?_, ?_⟩
        · simp only; rw [h1]; simp [Int.add_assoc]
        · simp only [List.append_assoc, List.singleton_append, Option.getD_none] at h2
          rw [h2]; simp only [Option.getD_none, addNodes, List.foldl_cons, ha]

/-- **`Fragment.from_array` line by line = the fold of `add_node`, with the sum of the input sizes stored** -/
theorem Frag.fromArray_eq (l : List Node) : Frag.fromArray l = .ok ⟨PM.fromArray l, fsize l⟩ := by
  unfold Frag.fromArray
  cases l with
  | nil => simp [Frag.empty, PM.fromArray, addNodes]
  | cons n ns =>
    obtain ⟨j', h1, h2⟩ := fromArrayLoop_spec (n :: ns) [] none 0 rfl
    simp only [List.isEmpty_cons, Bool.false_eq_true, if_false, h1]
    simp only [List.nil_append, Option.getD_none] at h2
    simp [h2, PM.fromArray]

/-! ### adjacency facts about `addNode` that need no hypothesis on the nodes -/

theorem seamOk_nojoin (t : List Node) (c : Node)
    (h : ¬ ∃ s m, c = .text s m ∧ lastKey t = some m) : seamOk t.getLast? (some c) = true := by
  cases hl : t.getLast? with
  | none => simp [seamOk]
  | some u =>
    cases u with
    | text ls m =>
      cases c with
      | text s m' =>
        simp only [seamOk, adjOk, bne_iff_ne, ne_eq]
        intro hm; subst hm
        exact h ⟨s, m, rfl, by simp [lastKey, hl]⟩
      | leaf => simp [seamOk, adjOk]
      | elem => simp [seamOk, adjOk]
    | leaf => cases c <;> simp [seamOk, adjOk]
    | elem => cases c <;> simp [seamOk, adjOk]

theorem join_of_seam_false (t : List Node) (c : Node) (h : ∃ s m, c = .text s m ∧ lastKey t = some m) :
    seamOk t.getLast? (some c) = false := by
  obtain ⟨s, m, rfl, hk⟩ := h
  obtain ⟨ls, hl, _⟩ := addNode_join t s m hk
  simp [hl, seamOk, adjOk]

/-- `add_node` keeps "no two adjacent same-markup text nodes" (whatever the nodes are: empty text included) -/
theorem addNode_chain (t : List Node) (c : Node) (h : chainOk t = true) : chainOk (addNode t c) = true := by
  by_cases hj : ∃ s m, c = .text s m ∧ lastKey t = some m
  · obtain ⟨s, m, rfl, hk⟩ := hj
    obtain ⟨ls, hl, ha⟩ := addNode_join t s m hk
    have hne : t ≠ [] := by intro h0; subst h0; simp at hl
    have h2 := List.dropLast_concat_getLast hne
    rw [List.getLast?_eq_some_getLast hne] at hl
    simp only [Option.some.injEq] at hl
    rw [hl] at h2
    rw [← h2, chainOk_append] at h
    rw [ha, chainOk_append]
    simp only [Bool.and_eq_true, List.head?_cons] at h ⊢
    refine ⟨⟨h.1.1, by simp [chainOk]⟩, ?_⟩
    rw [seamOk_sameKind_right (sameKind_text ls (ls ++ s) m)]; exact h.2
  · rw [addNode_nojoin t c hj, chainOk_append]
    simp [h, chainOk, seamOk_nojoin t c hj]

theorem addNodes_chain (cs : List Node) : ∀ t : List Node, chainOk t = true → chainOk (addNodes t cs) = true := by
  induction cs with
  | nil => intro t h; simpa [addNodes] using h
  | cons c cs ih =>
    intro t h
    simp only [addNodes, List.foldl_cons] at ih ⊢
    exact ih _ (addNode_chain t c h)

/-- **no two adjacent same-markup text nodes remain after `from_array`** — unconditionally -/
theorem fromArray_chain (l : List Node) : chainOk (fromArray l) = true :=
  addNodes_chain l [] (by simp [chainOk])

/-- nothing to join: the fold appends -/
theorem addNodes_of_chain (cs : List Node) : ∀ t : List Node, chainOk (t ++ cs) = true → addNodes t cs = t ++ cs := by
  induction cs with
  | nil => intro t _; simp [addNodes]
  | cons c cs ih =>
    intro t h
    have hs : seamOk t.getLast? (some c) = true := by
      rw [chainOk_append] at h
      simp only [Bool.and_eq_true, List.head?_cons] at h
      exact h.2
    have hj : ¬ ∃ s m, c = .text s m ∧ lastKey t = some m := by
      intro hj; rw [join_of_seam_false t c hj] at hs; exact Bool.false_ne_true hs
    simp only [addNodes, List.foldl_cons] at ih ⊢
    rw [addNode_nojoin t c hj, ih (t ++ [c]) (by simpa using h)]
    simp

theorem fromArray_of_chain (l : List Node) (h : chainOk l = true) : fromArray l = l := by
  simpa [fromArray] using addNodes_of_chain l [] (by simpa using h)

/-- `from_array` is idempotent (no hypothesis) -/
theorem fromArray_idem (l : List Node) : fromArray (fromArray l) = fromArray l :=
  fromArray_of_chain _ (fromArray_chain l)

/-- number of joins `from_array` performs: adjacent pairs of same-markup text nodes in the chain `prev :: cs`
    (`seamOk` is false exactly on such a pair) -/
def joinFrom : Option Node → List Node → Nat
  | _, [] => 0
  | prev, c :: cs => (if seamOk prev (some c) then 0 else 1) + joinFrom (some c) cs

theorem addNodes_length : ∀ (cs t : List Node) (u : Option Node), (∀ v, seamOk t.getLast? v = seamOk u v) →
    (addNodes t cs).length + joinFrom u cs = t.length + cs.length
  | [], t, u, _ => by simp [addNodes, joinFrom]
  | c :: cs, t, u, hu => by
    simp only [addNodes, List.foldl_cons, joinFrom, List.length_cons]
    by_cases hj : ∃ s m, c = .text s m ∧ lastKey t = some m
    · have hs : seamOk u (some c) = false := by rw [← hu]; exact join_of_seam_false t c hj
      obtain ⟨s, m, rfl, hk⟩ := hj
      obtain ⟨ls, hl, ha⟩ := addNode_join t s m hk
      have hne : t ≠ [] := by intro h0; subst h0; simp at hl
      have hlen : 0 < t.length := List.length_pos_iff.2 hne
      have ih := addNodes_length cs (addNode t (.text s m)) (some (.text s m)) (by
        intro v; rw [ha]; simp only [List.getLast?_append, List.getLast?_singleton, Option.some_or]
        exact seamOk_sameKind_left (sameKind_text s (ls ++ s) m) v)
      simp only [addNodes] at ih
      rw [hs]
      have e : (addNode t (.text s m)).length = t.length := by rw [ha]; simp; omega
      simp only [Bool.false_eq_true, if_false]; omega
    · have hs : seamOk u (some c) = true := by rw [← hu]; exact seamOk_nojoin t c hj
      have ha := addNode_nojoin t c hj
      have ih := addNodes_length cs (addNode t c) (some c) (by intro v; rw [ha]; simp)
      simp only [addNodes] at ih
      have e : (addNode t c).length = t.length + 1 := by rw [ha]; simp
      rw [hs]; simp only [if_true]; omega

/-- **child count of `from_array l` = number of inputs − number of adjacent same-markup text pairs** -/
theorem fromArray_length (l : List Node) : (fromArray l).length + joinFrom none l = l.length := by
  have := addNodes_length l [] none (by intro v; simp)
  simpa [fromArray] using this

/-! ### sizes -/

theorem ftoks_nil_of_fsize (l : List Node) (h : fsize l = 0) : ftoks l = [] := by
  apply List.eq_nil_of_length_eq_zero; rw [ftoks_length]; exact h

theorem Frag.ofList_WF (l : List Node) : (Frag.ofList l).WF := rfl
theorem Frag.empty_WF : Frag.empty.WF := rfl

/-! ### append -/

theorem getLast_split {l : List Node} {x : Node} (h : l.getLast? = some x) : l = l.dropLast ++ [x] := by
  have hne : l ≠ [] := by intro h0; subst h0; simp at h
  have h2 := List.dropLast_concat_getLast hne
  rw [List.getLast?_eq_some_getLast hne] at h
  simp only [Option.some.injEq] at h
  rw [h] at h2; exact h2.symm

theorem head_split {l : List Node} {x : Node} (h : l.head? = some x) : l = x :: l.drop 1 := by
  cases l with
  | nil => simp at h
  | cons a as => simp at h; subst h; simp

/-- `append` on fragments whose cache is right: succeeds, the cache of the result is right, tokens concatenate -/
theorem Frag.append_spec (a b : Frag) (ha : a.WF) (hb : b.WF) :
    ∃ r, Frag.append a b = .ok r ∧ r.WF ∧ r.size = a.size + b.size ∧
      ftoks r.content = ftoks a.content ++ ftoks b.content := by
  unfold Frag.WF at ha hb
  unfold Frag.append
  by_cases h0 : b.size = 0
  · have : fsize b.content = 0 := by omega
    exact ⟨a, by simp [h0], ha, by omega, by simp [ftoks_nil_of_fsize _ this]⟩
  by_cases h1 : a.size = 0
  · have : fsize a.content = 0 := by omega
    exact ⟨b, by simp [h0, h1], hb, by omega, by simp [ftoks_nil_of_fsize _ this]⟩
  simp only [h0, h1, if_false, Frag.lastChild, Frag.firstChild]
  cases hl : a.content.getLast? with
  | none =>
    have : a.content = [] := by simpa using hl
    simp [this] at ha; omega
  | some last =>
    cases hf : b.content.head? with
    | none =>
      have : b.content = [] := by simpa using hf
      simp [this] at hb; omega
    | some first =>
      have ea := getLast_split hl
      have eb := head_split hf
      simp only
      by_cases hm : (last.isText && last.sameMarkup first) = true
      · simp only [hm, if_true]
        cases last with
        | text s m =>
          cases first with
          | text s' m' =>
            have hmm : m = m' := by simpa [Node.isText, Node.sameMarkup] using hm
            subst hmm
            refine ⟨_, rfl, ?_, rfl, ?_⟩
            · unfold Frag.WF
              simp only
              rw [ha, hb, ea, eb]
              simp [fsize_append]; omega
            · simp only
              conv => rhs; rw [ea, eb]
              simp [ftoks_append]
          | leaf => simp [Node.isText, Node.sameMarkup] at hm
          | elem => simp [Node.isText, Node.sameMarkup] at hm
        | leaf => simp [Node.isText] at hm
        | elem => simp [Node.isText] at hm
      · simp only [hm, Bool.false_eq_true, if_false]
        refine ⟨_, rfl, ?_, rfl, by simp [ftoks_append]⟩
        unfold Frag.WF; simp [fsize_append, ha, hb]

/-- … and its content is the list-level `fappend` when no child has size 0 (no empty text node: always so for
    real nodes) -/
theorem Frag.append_fappend (a b : Frag) (ha : a.WF) (hb : b.WF)
    (za : ∀ c, c ∈ a.content → c.size ≠ 0) (zb : ∀ c, c ∈ b.content → c.size ≠ 0) :
    Frag.append a b = .ok ⟨fappend a.content b.content, a.size + b.size⟩ := by
  unfold Frag.WF at ha hb
  unfold Frag.append fappend
  have hza : fsize a.content = 0 ↔ a.content = [] := by
    cases hc : a.content with
    | nil => simp
    | cons c r => have := za c (by simp [hc]); simp; omega
  have hzb : fsize b.content = 0 ↔ b.content = [] := by
    cases hc : b.content with
    | nil => simp
    | cons c r => have := zb c (by simp [hc]); simp; omega
  by_cases h0 : b.size = 0
  · have e : b.content = [] := hzb.1 (by omega)
    rw [if_pos h0, e, h0]
    cases a; simp
  by_cases h1 : a.size = 0
  · have e : a.content = [] := hza.1 (by omega)
    rw [if_neg h0, if_pos h1, e, h1]
    cases hb' : b.content with
    | nil => exact (h0 (by rw [hb, hb']; simp)).elim
    | cons c r =>
      cases b with
      | mk bc bs => simp only at hb'; subst hb'; simp
  have nea : a.content ≠ [] := fun e => h1 (by rw [ha, e]; simp)
  have neb : b.content ≠ [] := fun e => h0 (by rw [hb, e]; simp)
  simp only [h0, h1, if_false, Frag.lastChild, Frag.firstChild]
  cases hbc : b.content with
  | nil => exact (neb hbc).elim
  | cons c rest =>
    simp only [List.head?_cons, List.isEmpty_iff, nea, if_false, List.drop_one, List.tail_cons]
    cases hl : a.content.getLast? with
    | none => exact (nea (by simpa using hl)).elim
    | some last =>
      simp only
      unfold addNode
      rw [hl]
      cases last with
      | text s m =>
        cases c with
        | text s' m' =>
          by_cases hm : m = m'
          · subst hm; simp [Node.isText, Node.sameMarkup]
          · simp [Node.isText, Node.sameMarkup, hm]
        | leaf => simp [Node.isText, Node.sameMarkup]
        | elem => simp [Node.isText, Node.sameMarkup]
      | leaf => simp [Node.isText]
      | elem => simp [Node.isText]

/-! ### cut / cut_by_index -/

theorem Frag.cut_some (f : Frag) (hf : f.WF) (a b : Nat) :
    Frag.cut f a (some b) = (fcut f.content a b).map Frag.ofList := by
  unfold Frag.WF at hf
  unfold Frag.cut Frag.cutI fcut
  simp only
  by_cases h1 : a = 0 ∧ (b : Int) = f.size
  · have h1' : (a = 0 && b = fsize f.content) = true := by simp; omega
    rw [if_pos h1, if_pos h1']
    cases f; simp_all [Frag.ofList, Except.map]
  · have h1' : ¬ (a = 0 && b = fsize f.content) = true := by simp; omega
    rw [if_neg h1, if_neg h1']
    by_cases h2 : (b : Int) ≤ a
    · rw [if_pos h2, if_pos (by omega)]; rfl
    · rw [if_neg h2, if_neg (by omega), Int.toNat_natCast]

theorem Frag.cut_none (f : Frag) (hf : f.WF) (a : Nat) :
    Frag.cut f a none = Frag.cut f a (some (fsize f.content)) := by
  unfold Frag.WF at hf
  unfold Frag.cut
  simp only [hf]

/-- whatever the stored size of the receiver, a fragment built by `cut` (not the receiver itself) has the right one -/
theorem Frag.cutI_WF (f : Frag) (hf : f.WF) (a : Nat) (toI : Int) (r : Frag) (h : Frag.cutI f a toI = .ok r) : r.WF := by
  unfold Frag.cutI at h
  by_cases c1 : a = 0 ∧ toI = f.size
  · rw [if_pos c1] at h; cases h; exact hf
  · rw [if_neg c1] at h
    by_cases c2 : toI ≤ a
    · rw [if_pos c2] at h; cases h; exact Frag.empty_WF
    · rw [if_neg c2] at h
      cases hc : fcutLoop f.content a toI.toNat with
      | error e => rw [hc] at h; simp [Except.map] at h
      | ok l => rw [hc] at h; simp [Except.map] at h; subst h; exact Frag.ofList_WF _

theorem Frag.cut_WF (f : Frag) (hf : f.WF) (a : Nat) (t : Option Nat) (r : Frag) (h : Frag.cut f a t = .ok r) : r.WF :=
  Frag.cutI_WF f hf a _ r h

theorem pyClamp_nat (len n : Nat) : pyClamp len (n : Int) = min n len := by
  unfold pyClamp
  have : ¬ ((n : Int) < 0) := by omega
  simp [this]

theorem take_drop_clamp {α} (l : List α) (a b : Nat) :
    (l.take (min b l.length)).drop (min a l.length) = (l.take b).drop a := by
  have e1 : l.take (min b l.length) = l.take b := by
    by_cases h : b ≤ l.length
    · rw [Nat.min_eq_left h]
    · rw [Nat.min_eq_right (by omega), List.take_length, List.take_of_length_le (by omega)]
  rw [e1]
  by_cases h : a ≤ l.length
  · rw [Nat.min_eq_left h]
  · rw [Nat.min_eq_right (by omega), List.drop_eq_nil_of_le (by simp; omega), List.drop_eq_nil_of_le (by simp; omega)]

/-- for natural-number bounds the content is the list-level `cutByIndex` -/
theorem Frag.cutByIndex_content (f : Frag) (a b : Nat) :
    (Frag.cutByIndex f a (some (b : Int))).content = PM.cutByIndex f.content a b := by
  unfold Frag.cutByIndex PM.cutByIndex
  by_cases h1 : a = b
  · subst h1; simp [Frag.empty]
  · have : ¬ (some (b : Int) = some (a : Int)) := by simp; omega
    rw [if_neg this]
    by_cases h2 : (a : Int) = 0 ∧ some (b : Int) = some (f.content.length : Int)
    · rw [if_pos h2]
      have ha : a = 0 := by omega
      have hb : b = f.content.length := by simp at h2; omega
      subst ha hb; simp
    · rw [if_neg h2]
      simp only [Frag.ofList, pySlice, pyClamp_nat]
      exact take_drop_clamp _ _ _

theorem Frag.cutByIndex_WF (f : Frag) (hf : f.WF) (a : Int) (b : Option Int) : (Frag.cutByIndex f a b).WF := by
  unfold Frag.cutByIndex
  split
  · exact Frag.empty_WF
  · split
    · exact hf
    · exact Frag.ofList_WF _

/-! ### replace_child -/

theorem ftoks_set (l : List Node) (k : Nat) (cur n : Node) (h : l[k]? = some cur) :
    l.set k n = l.take k ++ n :: l.drop (k + 1) ∧ l = l.take k ++ cur :: l.drop (k + 1) := by
  induction l generalizing k with
  | nil => simp at h
  | cons x xs ih =>
    cases k with
    | zero => simp at h; subst h; simp
    | succ k =>
      simp at h
      obtain ⟨h1, h2⟩ := ih k h
      constructor
      · simp [h1]
      · simp only [List.take_succ_cons, List.drop_succ_cons, List.cons_append]; rw [← h2]

theorem Frag.replaceChild_spec (f : Frag) (i : Int) (n : Node) (r : Frag) (h : Frag.replaceChild f i n = .ok r) :
    ∃ k cur, pyIdx f.content.length i = some k ∧ f.content[k]? = some cur ∧
      r.content = PM.replaceChild f.content k n ∧
      r.content = f.content.take k ++ n :: f.content.drop (k + 1) ∧
      r.size = f.size + n.size - cur.size ∧ (f.WF → r.WF) := by
  unfold Frag.replaceChild at h
  cases hk : pyIdx f.content.length i with
  | none => rw [hk] at h; simp at h
  | some k =>
    rw [hk] at h
    simp only at h
    cases hc : f.content[k]? with
    | none => rw [hc] at h; simp at h
    | some cur =>
      rw [hc] at h
      simp only [Except.ok.injEq] at h
      subst h
      obtain ⟨e1, e2⟩ := ftoks_set f.content k cur n hc
      refine ⟨k, cur, rfl, hc, rfl, e1, rfl, ?_⟩
      intro hf
      unfold Frag.WF at hf ⊢
      simp only
      rw [e1, hf]
      conv => lhs; rw [e2]
      simp [fsize_append]; omega

/-! ### eq -/

mutual
theorem Node.eqPy_iff : ∀ a b : Node, Node.eqPy a b = true ↔ a = b
  | .text s m, .text s' m' => by simp [Node.eqPy, and_comm]
  | .leaf t a m, .leaf t' a' m' => by simp [Node.eqPy, and_assoc]
  | .elem t a m k, .elem t' a' m' k' => by
    have := lenZip_iff k k'
    simp only [Bool.and_eq_true, beq_iff_eq] at this
    simp only [Node.eqPy, Bool.and_eq_true, beq_iff_eq, Node.elem.injEq, and_assoc]
    constructor
    · rintro ⟨h1, h2, h3, h4⟩; exact ⟨h1, h2, h3, this.1 h4⟩
    · rintro ⟨h1, h2, h3, h4⟩; exact ⟨h1, h2, h3, this.2 h4⟩
  | .text .., .leaf .. => by simp [Node.eqPy]
  | .text .., .elem .. => by simp [Node.eqPy]
  | .leaf .., .text .. => by simp [Node.eqPy]
  | .leaf .., .elem .. => by simp [Node.eqPy]
  | .elem .., .text .. => by simp [Node.eqPy]
  | .elem .., .leaf .. => by simp [Node.eqPy]
theorem lenZip_iff : ∀ a b : List Node, (a.length == b.length && eqZip a b) = true ↔ a = b
  | [], [] => by simp [eqZip]
  | a :: as, b :: bs => by
    have := lenZip_iff as bs
    simp only [Bool.and_eq_true, beq_iff_eq] at this
    simp only [eqZip, Bool.and_eq_true, beq_iff_eq, List.length_cons, Nat.add_right_cancel_iff, List.cons.injEq,
      Node.eqPy_iff a b]
    constructor
    · rintro ⟨h1, h2, h3⟩; exact ⟨h2, this.1 ⟨h1, h3⟩⟩
    · rintro ⟨h1, h2⟩; exact ⟨(this.2 h2).1, h1, (this.2 h2).2⟩
  | [], _ :: _ => by simp
  | _ :: _, [] => by simp
end

/-! ### find_index -/

theorem findIndexAux_zero (l : List Node) (i cur : Nat) : findIndexAux l 0 i cur = some (i, cur) := by
  cases l <;> simp [findIndexAux]

/-- the loop of the object-level `find_index` (absolute positions, rounding down) is the list-level scan
    (relative positions) as long as the position is inside -/
theorem Frag.findIndexLoop_eq : ∀ (l : List Node) (p i cur : Nat) (round : Int), round ≤ 0 → 0 < p → p ≤ fsize l →
    ∃ i' o, findIndexAux l p i cur = some (i', o) ∧
      Frag.findIndexLoop l ((cur : Int) + p) round i cur = .ok (i', (o : Int))
  | [], p, i, cur, round, _, hp, hle => by simp at hle; omega
  | n :: ns, p, i, cur, round, hr, hp, hle => by
    unfold Frag.findIndexLoop findIndexAux
    have hp0 : p ≠ 0 := by omega
    simp only [hp0, if_false]
    by_cases h1 : n.size = p
    · refine ⟨i + 1, cur + n.size, ?_, ?_⟩
      · simp [h1, findIndexAux_zero]
      · simp [h1]
    · by_cases h2 : p < n.size
      · refine ⟨i, cur, ?_, ?_⟩
        · simp [Nat.not_le.2 h2]
        · have c1 : (cur : Int) + n.size ≥ cur + p := by omega
          have c2 : ¬ ((cur : Int) + n.size = cur + p ∨ round > 0) := by omega
          simp only [c1, c2, if_true, if_false]
      · have h3 : n.size < p := by omega
        simp only [fsize_cons] at hle
        obtain ⟨i', o, e1, e2⟩ := Frag.findIndexLoop_eq ns (p - n.size) (i + 1) (cur + n.size) round hr (by omega) (by omega)
        refine ⟨i', o, ?_, ?_⟩
        · simp [Nat.le_of_lt h3, e1]
        · have c1 : ¬ ((cur : Int) + n.size ≥ cur + p) := by omega
          simp only [c1, if_false]
          have : ((cur + n.size : Nat) : Int) + ((p - n.size : Nat) : Int) = (cur : Int) + p := by omega
          rw [← this]; exact_mod_cast e2

theorem findIndexAux_full : ∀ (l : List Node) (i cur : Nat), (∀ c, c ∈ l → c.size ≠ 0) →
    findIndexAux l (fsize l) i cur = some (i + l.length, cur + fsize l)
  | [], i, cur, _ => by simp [findIndexAux]
  | n :: ns, i, cur, h => by
    have hn := h n (by simp)
    unfold findIndexAux
    simp only [fsize_cons]
    have : n.size + fsize ns ≠ 0 := by omega
    simp only [this, if_false, Nat.le_add_right, if_true, Nat.add_sub_cancel_left]
    rw [findIndexAux_full ns (i + 1) (cur + n.size) (fun c hc => h c (by simp [hc]))]
    simp; omega

/-- the object-level `find_index` (rounding down: `round ≤ 0`, the default `-1`) on a fragment whose cache is right and
    that has no child of size 0 is the list-level `findIndex` of PM/Fragment.lean (`none` = `ValueError`) -/
theorem Frag.findIndex_eq (f : Frag) (hf : f.WF) (hz : ∀ c, c ∈ f.content → c.size ≠ 0) (pos : Nat) (round : Int)
    (hr : round ≤ 0) :
    f.findIndex pos round = (match PM.findIndex f.content pos with
      | some (i, o) => .ok (i, (o : Int))
      | none => .error .valueError) := by
  unfold Frag.WF at hf
  unfold Frag.findIndex PM.findIndex
  by_cases h0 : pos = 0
  · subst h0; simp [findIndexAux_zero]
  · have h0' : ¬ ((pos : Int) = 0) := by omega
    rw [if_neg h0']
    by_cases h1 : (pos : Int) = f.size
    · have e : pos = fsize f.content := by omega
      rw [if_pos h1, e, findIndexAux_full _ 0 0 hz]; simp
    · rw [if_neg h1]
      by_cases h2 : (pos : Int) > f.size ∨ (pos : Int) < 0
      · rw [if_pos h2]
        have hgt : fsize f.content < pos := by omega
        have : findIndexAux f.content pos 0 0 = none := by
          have key : ∀ (l : List Node) (p i cur : Nat), fsize l < p → findIndexAux l p i cur = none := by
            intro l
            induction l with
            | nil => intro p i cur h; simp at h; simp [findIndexAux]; omega
            | cons n ns ih =>
              intro p i cur h
              simp only [fsize_cons] at h
              unfold findIndexAux
              have : p ≠ 0 := by omega
              have h3 : n.size ≤ p := by omega
              simp only [this, if_false, h3, if_true]
              exact ih _ _ _ (by omega)
          exact key _ _ _ _ hgt
        rw [this]
      · rw [if_neg h2]
        obtain ⟨i', o, e1, e2⟩ := Frag.findIndexLoop_eq f.content pos 0 0 round hr (by omega) (by omega)
        rw [e1]
        simp only [Int.natCast_zero, Int.zero_add] at e2
        rw [e2]

/-- … in particular it returns for every position inside -/
theorem Frag.findIndex_total (f : Frag) (hf : f.WF) (pos : Nat) (round : Int) (hr : round ≤ 0)
    (hp : pos ≤ fsize f.content) : ∃ i o, f.findIndex pos round = .ok (i, o) := by
  unfold Frag.WF at hf
  unfold Frag.findIndex
  by_cases h0 : (pos : Int) = 0
  · exact ⟨_, _, by rw [if_pos h0]⟩
  · by_cases h1 : (pos : Int) = f.size
    · exact ⟨_, _, by rw [if_neg h0, if_pos h1]⟩
    · have h2 : ¬ ((pos : Int) > f.size ∨ (pos : Int) < 0) := by omega
      obtain ⟨i', o, _, e2⟩ := Frag.findIndexLoop_eq f.content pos 0 0 round hr (by omega) (by omega)
      simp only [Int.natCast_zero, Int.zero_add] at e2
      exact ⟨_, _, by rw [if_neg h0, if_neg h1, if_neg h2, e2]⟩

/-- the loop of `find_index`, both roundings, without reference to the list-level model: it stops at the first child
    `k` whose end reaches the position -/
theorem Frag.findIndexLoop_spec : ∀ (l : List Node) (p i cur : Nat) (round : Int), 0 < p → p ≤ fsize l →
    ∃ k n, l[k]? = some n ∧ fsize (l.take k) < p ∧ p ≤ fsize (l.take k) + n.size ∧
      Frag.findIndexLoop l ((cur : Int) + p) round i cur =
        .ok (if p = fsize (l.take k) + n.size ∨ round > 0
          then (i + k + 1, (cur : Int) + (fsize (l.take k) + n.size : Nat))
          else (i + k, (cur : Int) + (fsize (l.take k) : Nat)))
  | [], p, i, cur, round, hp, hle => by simp at hle; omega
  | n :: ns, p, i, cur, round, hp, hle => by
    unfold Frag.findIndexLoop
    by_cases h1 : p ≤ n.size
    · refine ⟨0, n, by simp, by simpa using hp, by simpa using h1, ?_⟩
      have c1 : (cur : Int) + n.size ≥ cur + p := by omega
      simp only [c1, if_true, List.take_zero, fsize_nil, Nat.zero_add, Nat.add_zero, Int.natCast_zero, Int.add_zero]
      have e : ((cur : Int) + n.size = cur + p) ↔ (p = n.size) := by omega
      simp only [e]
      by_cases h2 : p = n.size ∨ round > 0
      · rw [if_pos h2, if_pos h2]
      · rw [if_neg h2, if_neg h2]
    · simp only [fsize_cons] at hle
      obtain ⟨k, m, e1, e2, e3, e4⟩ :=
        Frag.findIndexLoop_spec ns (p - n.size) (i + 1) (cur + n.size) round (by omega) (by omega)
      refine ⟨k + 1, m, by simpa using e1, by simp only [List.take_succ_cons, fsize_cons]; omega,
        by simp only [List.take_succ_cons, fsize_cons]; omega, ?_⟩
      have c1 : ¬ ((cur : Int) + n.size ≥ cur + p) := by omega
      simp only [c1, if_false]
      have : ((cur + n.size : Nat) : Int) + ((p - n.size : Nat) : Int) = (cur : Int) + p := by omega
      rw [this, Int.natCast_add] at e4
      rw [e4]
      simp only [List.take_succ_cons, fsize_cons]
      have e : (p - n.size = fsize (ns.take k) + m.size) ↔ (p = n.size + fsize (ns.take k) + m.size) := by omega
      simp only [e]
      by_cases h2 : p = n.size + fsize (ns.take k) + m.size ∨ round > 0
      · rw [if_pos h2, if_pos h2]; congr 2 <;> omega
      · rw [if_neg h2, if_neg h2]; congr 2 <;> omega

/-- **`find_index(pos, round)` strictly inside** a fragment whose cache is right: with `k` the first child whose end
    reaches `pos` — index `k + 1` and the child's end if `pos` is that end or rounding up, otherwise index `k` and the
    child's start -/
theorem Frag.findIndex_spec (f : Frag) (hf : f.WF) (pos : Nat) (round : Int) (h0 : 0 < pos)
    (h1 : pos < fsize f.content) :
    ∃ k n, f.content[k]? = some n ∧ fsize (f.content.take k) < pos ∧ pos ≤ fsize (f.content.take k) + n.size ∧
      f.findIndex pos round =
        .ok (if pos = fsize (f.content.take k) + n.size ∨ round > 0
          then (k + 1, ((fsize (f.content.take k) + n.size : Nat) : Int))
          else (k, ((fsize (f.content.take k) : Nat) : Int))) := by
  unfold Frag.WF at hf
  obtain ⟨k, n, e1, e2, e3, e4⟩ := Frag.findIndexLoop_spec f.content pos 0 0 round h0 (by omega)
  refine ⟨k, n, e1, e2, e3, ?_⟩
  unfold Frag.findIndex
  rw [if_neg (by omega), if_neg (by omega), if_neg (by omega)]
  simp only [Int.natCast_zero, Int.zero_add, Nat.zero_add] at e4
  exact e4

/-! ### child / maybe_child -/

theorem pyIdx_nat (len i : Nat) : pyIdx len (i : Int) = if i < len then some i else none := by
  unfold pyIdx
  have : (0 : Int) ≤ (i : Int) := by omega
  simp [this]

theorem pyIdx_neg (len k : Nat) (hk : 0 < k) : pyIdx len (-(k : Int)) = if k ≤ len then some (len - k) else none := by
  unfold pyIdx
  have h1 : ¬ ((0 : Int) ≤ -(k : Int)) := by omega
  rw [if_neg h1]
  by_cases h : k ≤ len
  · rw [if_pos (by omega), if_pos h]; congr 1; omega
  · rw [if_neg (by omega), if_neg h]

theorem Frag.child_nat (f : Frag) (i : Nat) :
    f.child (i : Int) = orIndexError f.content[i]? := by
  unfold Frag.child
  rw [pyIdx_nat]
  by_cases h : i < f.content.length
  · simp [h]
  · simp [h, List.getElem?_eq_none (Nat.le_of_not_lt h), orIndexError]

theorem Frag.child_neg (f : Frag) (k : Nat) (hk : 0 < k) :
    f.child (-(k : Int)) = (if k ≤ f.content.length then orIndexError f.content[f.content.length - k]?
      else .error .internal) := by
  unfold Frag.child
  rw [pyIdx_neg _ _ hk]
  by_cases h : k ≤ f.content.length <;> simp [h]

theorem Frag.child_neg_one (f : Frag) :
    f.child (-1) = orIndexError f.lastChild := by
  have := Frag.child_neg f 1 (by omega)
  simp only [Int.natCast_one] at this
  rw [this]
  unfold Frag.lastChild
  cases hc : f.content with
  | nil => simp [orIndexError]
  | cons a as =>
    rw [List.getLast?_eq_getElem?]
    simp

/-! ### the seeded defect `last = array[i - 1]` (instead of `joined[-1]`), for the sensitivity example in Props/C02 -/

/-- `fromArrayLoop` with the text of `array[i - 1]` in place of the text of `joined[-1]` -/
def fromArrayLoopBad (pre : List Node) : List Node → Option (List Node) → Int → Res (Option (List Node) × Int)
  | [], joined, size => .ok (joined, size)
  | node :: rest, joined, size =>
    let size := size + node.size
    if faJoinTest pre node then
      let j := joined.getD pre
      match pre.getLast?, node with
      | some (.text ls _), .text s m =>
        fromArrayLoopBad (pre ++ [node]) rest (some (j.dropLast ++ [.text (ls ++ s) m])) size
      | _, _ => .error .internal
    else
      match joined with
      | some j => fromArrayLoopBad (pre ++ [node]) rest (some (j ++ [node])) size
      | none => fromArrayLoopBad (pre ++ [node]) rest none size

def Frag.fromArrayBad (array : List Node) : Res Frag :=
  if array.isEmpty then .ok Frag.empty
  else
    match fromArrayLoopBad [] array none 0 with
    | .ok (joined, size) => .ok ⟨joined.getD array, size⟩
    | .error e => .error e

end PM
