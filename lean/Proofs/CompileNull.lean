/-
  Proofs/CompileNull.lean — stage 2 of C06's compiler proof: `null_from` computes the ε-closure
  (`nullFrom_spec`), for every NFA whose edge targets are nodes.  The nodes whose only edge is an
  ε-edge are passed through and left out of the result (the code's shortcut).  The recursion of `scan`
  is modelled with a fuel; the proof shows the fuel `3 * len(nfa) + 3` is never exhausted.
-/
import PM.Compile
import Mathlib.Logic.Relation
namespace PM
set_option linter.unusedSimpArgs false

/-- all edge targets are nodes -/
def Nfa.WF (N : Nfa) : Prop := ∀ n e, e ∈ N.getD n [] → e.2 < N.size

def EpsStep (N : Nfa) (n m : Nat) : Prop := (none, m) ∈ N.getD n []

/-- ε-reachability -/
inductive EpsReach (N : Nfa) : Nat → Nat → Prop
  | refl (n : Nat) : EpsReach N n n
  | step {n m k : Nat} : EpsStep N n m → EpsReach N m k → EpsReach N n k

theorem EpsReach.trans {N : Nfa} {a b c : Nat} (h1 : EpsReach N a b) (h2 : EpsReach N b c) : EpsReach N a c := by
  induction h1 with
  | refl => exact h2
  | step hs _ ih => exact .step hs (ih h2)

/-- a node whose only edge is an ε-edge (`len(edges) == 1 and not edges[0].term`) -/
def IsSkip (N : Nfa) (n : Nat) : Prop := ∃ to, N.getD n [] = [(none, to)]

/-! ### counting the nodes not yet in a list -/

def cntFree (N : Nat) (l : List Nat) : Nat := (List.range N).countP (fun v => !l.contains v)

theorem cntFree_mono (N : Nat) {l l' : List Nat} (h : ∀ v, v ∈ l → v ∈ l') : cntFree N l' ≤ cntFree N l := by
  unfold cntFree
  apply List.countP_mono_left
  intro v _ hv
  simp only [Bool.not_eq_true', List.contains_eq_mem, decide_eq_false_iff_not] at hv ⊢
  exact fun hmem => hv (h v hmem)

theorem cntFree_cons_lt (N : Nat) {l : List Nat} {v : Nat} (hv : v < N) (hnot : v ∉ l) :
    cntFree N (v :: l) + 1 ≤ cntFree N l := by
  induction N with
  | zero => omega
  | succ N ih =>
    have hstep : ∀ l : List Nat, cntFree (N + 1) l = cntFree N l + (if l.contains N then 0 else 1) := by
      intro l
      unfold cntFree
      rw [List.range_succ, List.countP_append]
      by_cases h : l.contains N <;> simp [h]
    rw [hstep, hstep]
    by_cases hvN : v = N
    · subst hvN
      have hm := cntFree_mono v (l := l) (l' := v :: l) (fun x hx => List.mem_cons_of_mem _ hx)
      have h1 : (v :: l).contains v = true := by simp
      have h2 : l.contains v = false := by simpa using hnot
      simp only [h1, h2]
      simp
      omega
    · have := ih (by omega)
      by_cases hN : l.contains N
      · have h1 : (v :: l).contains N = true := by
          simp only [List.contains_eq_mem, List.mem_cons, decide_eq_true_eq] at hN ⊢
          exact Or.inr hN
        simp only [h1, hN]
        simpa using this
      · have hN' : l.contains N = false := by simpa using hN
        have h1 : (v :: l).contains N = false := by
          simp only [List.contains_eq_mem, List.mem_cons, decide_eq_false_iff_not, not_or] at hN' ⊢
          exact ⟨fun h => hvN h.symm, hN'⟩
        simp only [h1, hN']
        simp
        omega

theorem cntFree_cons_ge (N : Nat) (l : List Nat) (v : Nat) : cntFree N l ≤ cntFree N (v :: l) + 1 := by
  by_cases hv : v < N
  · by_cases hl : v ∈ l
    · have := cntFree_mono N (l := v :: l) (l' := l) (fun x hx => by
        rcases List.mem_cons.1 hx with rfl | hx
        · exact hl
        · exact hx)
      omega
    · -- removing `v` from the free nodes removes exactly one
      induction N with
      | zero => omega
      | succ N ih =>
        have hstep : ∀ l : List Nat, cntFree (N + 1) l = cntFree N l + (if l.contains N then 0 else 1) := by
          intro l
          unfold cntFree
          rw [List.range_succ, List.countP_append]
          by_cases h : l.contains N <;> simp [h]
        rw [hstep, hstep]
        by_cases hvN : v = N
        · subst hvN
          have hgen : ∀ M, M ≤ v → cntFree M l ≤ cntFree M (v :: l) := by
            intro M hM
            unfold cntFree
            apply List.countP_mono_left
            intro x hx hp
            simp only [List.mem_range] at hx
            simp only [Bool.not_eq_true', List.contains_eq_mem, decide_eq_false_iff_not, List.mem_cons, not_or] at hp ⊢
            exact ⟨by omega, hp⟩
          have := hgen v (Nat.le_refl _)
          split <;> split <;> omega
        · have := ih (by omega)
          have hc : (v :: l).contains N = l.contains N := by
            simp only [List.contains_eq_mem, List.mem_cons]
            have : ¬ N = v := fun h => hvN h.symm
            simp [this]
          rw [hc]
          omega
  · have : cntFree N l ≤ cntFree N (v :: l) := by
      unfold cntFree
      apply List.countP_mono_left
      intro x hx hp
      simp only [List.mem_range] at hx
      simp only [Bool.not_eq_true', List.contains_eq_mem, decide_eq_false_iff_not, List.mem_cons, not_or] at hp ⊢
      exact ⟨by omega, hp⟩
    omega

/-! ### the depth-first scan -/

/-- visited: passed through (`skipped`) or collected (`result`) -/
def Vis (st : ScanSt) (v : Nat) : Prop := v ∈ st.skipped ∨ v ∈ st.result

structure ScanInv (N : Nfa) (st : ScanSt) : Prop where
  skS : ∀ v, v ∈ st.skipped → v < N.size ∧ IsSkip N v
  resS : ∀ v, v ∈ st.result → v < N.size ∧ ¬ IsSkip N v

/-- bound on the recursion depth still needed -/
def phi (N : Nfa) (n : Nat) (st : ScanSt) : Nat :=
  2 * cntFree N.size st.skipped + cntFree N.size (n :: st.result) + 1

structure ScanOk (N : Nfa) (n : Nat) (st st' : ScanSt) : Prop where
  inv : ScanInv N st'
  subS : ∀ v, v ∈ st.skipped → v ∈ st'.skipped
  subR : ∀ v, v ∈ st.result → v ∈ st'.result
  self : Vis st' n
  reach : ∀ v, Vis st' v → ¬ Vis st v → EpsReach N n v
  closed : ∀ v, Vis st' v → ¬ Vis st v → ∀ m, EpsStep N v m → Vis st' m

theorem ScanOk.vis {N : Nfa} {n : Nat} {st st' : ScanSt} (h : ScanOk N n st st') {v : Nat} (hv : Vis st v) :
    Vis st' v := by
  rcases hv with hv | hv
  · exact Or.inl (h.subS v hv)
  · exact Or.inr (h.subR v hv)

/-- the loop over the edges of a collected node -/
structure LoopInv (N : Nfa) (n : Nat) (st st1 cur : ScanSt) : Prop where
  inv : ScanInv N cur
  subS : ∀ v, v ∈ st1.skipped → v ∈ cur.skipped
  subR : ∀ v, v ∈ st1.result → v ∈ cur.result
  reach : ∀ v, Vis cur v → ¬ Vis st v → EpsReach N n v
  closed : ∀ v, Vis cur v → ¬ Vis st v → v ≠ n → ∀ m, EpsStep N v m → Vis cur m

theorem scan_loop (N : Nfa) (hN : N.WF) (fuel n : Nat) (st : ScanSt)
    (ih : ∀ m cur, m < N.size → ScanInv N cur → phi N m cur ≤ fuel → ScanOk N m cur (scan N fuel m cur))
    (hphi : phi N n st ≤ fuel + 1) :
    let st1 : ScanSt := { st with result := st.result ++ [n] }
    ∀ (es : List NfaEdge) (cur : ScanSt), (∀ e, e ∈ es → e ∈ N.getD n []) → LoopInv N n st st1 cur →
      let fin := es.foldl (fun st e =>
        if e.1.isNone && !st.result.contains e.2 then scan N fuel e.2 st else st) cur
      LoopInv N n st st1 fin ∧ (∀ v, Vis cur v → Vis fin v) ∧ (∀ e, e ∈ es → e.1 = none → Vis fin e.2) := by
  intro st1 es
  induction es with
  | nil => intro cur _ hinv; exact ⟨hinv, fun _ h => h, by simp⟩
  | cons e es ihes =>
    intro cur hes hinv
    simp only [List.foldl_cons]
    have hemem : e ∈ N.getD n [] := hes e (List.mem_cons_self ..)
    by_cases hc : (e.1.isNone && !cur.result.contains e.2) = true
    · rw [if_pos hc]
      simp only [Bool.and_eq_true, Option.isNone_iff_eq_none, Bool.not_eq_true', List.contains_eq_mem,
        decide_eq_false_iff_not] at hc
      have hm : e.2 < N.size := hN n e hemem
      have hstep : EpsStep N n e.2 := by
        unfold EpsStep
        have : e = (none, e.2) := by rw [← hc.1]
        rw [← this]; exact hemem
      have hfuel : phi N e.2 cur ≤ fuel := by
        unfold phi at hphi ⊢
        have h1 := cntFree_cons_lt N.size hm hc.2
        have h2 : cntFree N.size cur.result ≤ cntFree N.size (n :: st.result) :=
          cntFree_mono N.size (fun v hv => hinv.subR v (by
            show v ∈ st.result ++ [n]
            rcases List.mem_cons.1 hv with rfl | hv
            · simp
            · exact List.mem_append_left _ hv))
        have h3 : cntFree N.size cur.skipped ≤ cntFree N.size st.skipped :=
          cntFree_mono N.size (fun v hv => hinv.subS v hv)
        omega
      have ok := ih e.2 cur hm hinv.inv hfuel
      have hinv' : LoopInv N n st st1 (scan N fuel e.2 cur) := by
        refine ⟨ok.inv, fun v hv => ok.subS v (hinv.subS v hv), fun v hv => ok.subR v (hinv.subR v hv), ?_, ?_⟩
        · intro v hv hnv
          by_cases hcv : Vis cur v
          · exact hinv.reach v hcv hnv
          · exact .step hstep (ok.reach v hv hcv)
        · intro v hv hnv hvn m hm'
          by_cases hcv : Vis cur v
          · exact ok.vis (hinv.closed v hcv hnv hvn m hm')
          · exact ok.closed v hv hcv m hm'
      obtain ⟨h1, h2, h3⟩ := ihes (scan N fuel e.2 cur) (fun e' he' => hes e' (List.mem_cons_of_mem _ he')) hinv'
      refine ⟨h1, fun v hv => h2 v (ok.vis hv), ?_⟩
      intro e' he' hnone
      rcases List.mem_cons.1 he' with rfl | he'
      · exact h2 _ ok.self
      · exact h3 e' he' hnone
    · rw [if_neg hc]
      obtain ⟨h1, h2, h3⟩ := ihes cur (fun e' he' => hes e' (List.mem_cons_of_mem _ he')) hinv
      refine ⟨h1, h2, ?_⟩
      intro e' he' hnone
      rcases List.mem_cons.1 he' with rfl | he'
      · simp only [Bool.and_eq_true, Option.isNone_iff_eq_none, Bool.not_eq_true', List.contains_eq_mem,
          decide_eq_false_iff_not, not_and] at hc
        exact h2 _ (Or.inr (Classical.not_not.1 (hc hnone)))
      · exact h3 e' he' hnone

theorem scan_ok (N : Nfa) (hN : N.WF) : ∀ (fuel n : Nat) (st : ScanSt), n < N.size → ScanInv N st →
    phi N n st ≤ fuel → ScanOk N n st (scan N fuel n st) := by
  intro fuel
  induction fuel with
  | zero => intro n st _ _ hphi; unfold phi at hphi; omega
  | succ fuel ih =>
    intro n st hn hinv hphi
    unfold scan
    simp only
    split
    · next to hedges =>
      have hskip : IsSkip N n := ⟨to, hedges⟩
      have hstep : EpsStep N n to := by unfold EpsStep; rw [hedges]; simp
      by_cases hc : st.skipped.contains n = true
      · rw [if_pos hc]
        simp only [List.contains_eq_mem, decide_eq_true_eq] at hc
        exact ⟨hinv, fun _ h => h, fun _ h => h, Or.inl hc, fun v h1 h2 => absurd h1 h2,
          fun v h1 h2 => absurd h1 h2⟩
      · rw [if_neg hc]
        simp only [List.contains_eq_mem, decide_eq_true_eq] at hc
        have hto : to < N.size := hN n (none, to) (by rw [hedges]; simp)
        have hinv1 : ScanInv N { st with skipped := n :: st.skipped } := by
          refine ⟨?_, hinv.resS⟩
          intro v hv
          rcases List.mem_cons.1 hv with rfl | hv
          · exact ⟨hn, hskip⟩
          · exact hinv.skS v hv
        have hfuel : phi N to { st with skipped := n :: st.skipped } ≤ fuel := by
          unfold phi at hphi ⊢
          simp only
          have h1 := cntFree_cons_lt N.size hn hc
          have h2 : cntFree N.size (to :: st.result) ≤ cntFree N.size st.result :=
            cntFree_mono N.size (fun v hv => List.mem_cons_of_mem _ hv)
          have h3 := cntFree_cons_ge N.size st.result n
          omega
        have ok := ih to _ hto hinv1 hfuel
        refine ⟨ok.inv, fun v hv => ok.subS v (List.mem_cons_of_mem _ hv), ok.subR,
          Or.inl (ok.subS n (List.mem_cons_self ..)), ?_, ?_⟩
        · intro v hv hnv
          by_cases hvn : v = n
          · subst hvn; exact .refl _
          · refine .step hstep (ok.reach v hv ?_)
            rintro (h | h)
            · rcases List.mem_cons.1 h with rfl | h
              · exact hvn rfl
              · exact hnv (Or.inl h)
            · exact hnv (Or.inr h)
        · intro v hv hnv m hm
          by_cases hvn : v = n
          · subst hvn
            unfold EpsStep at hm
            rw [hedges] at hm
            simp only [List.mem_singleton, Prod.mk.injEq, true_and] at hm
            subst hm
            exact ok.self
          · refine ok.closed v hv ?_ m hm
            rintro (h | h)
            · rcases List.mem_cons.1 h with rfl | h
              · exact hvn rfl
              · exact hnv (Or.inl h)
            · exact hnv (Or.inr h)
    · next hnot =>
      have hnskip : ¬ IsSkip N n := by
        rintro ⟨to, hto⟩
        exact hnot to hto
      have hinv1 : LoopInv N n st { st with result := st.result ++ [n] } { st with result := st.result ++ [n] } := by
        refine ⟨⟨hinv.skS, ?_⟩, fun _ h => h, fun _ h => h, ?_, ?_⟩
        · intro v hv
          rcases List.mem_append.1 hv with hv | hv
          · exact hinv.resS v hv
          · simp only [List.mem_singleton] at hv; subst hv; exact ⟨hn, hnskip⟩
        · intro v hv hnv
          rcases hv with hv | hv
          · exact absurd (Or.inl hv) hnv
          · rcases List.mem_append.1 hv with hv | hv
            · exact absurd (Or.inr hv) hnv
            · simp only [List.mem_singleton] at hv; subst hv; exact .refl _
        · intro v hv hnv hvn
          rcases hv with hv | hv
          · exact absurd (Or.inl hv) hnv
          · rcases List.mem_append.1 hv with hv | hv
            · exact absurd (Or.inr hv) hnv
            · simp only [List.mem_singleton] at hv; exact absurd hv hvn
      obtain ⟨h1, h2, h3⟩ := scan_loop N hN fuel n st ih hphi (N.getD n []) _ (fun _ h => h) hinv1
      refine ⟨h1.inv, h1.subS, fun v hv => h1.subR v (List.mem_append_left _ hv),
        Or.inr (h1.subR n (by simp)), h1.reach, ?_⟩
      intro v hv hnv m hm
      by_cases hvn : v = n
      · subst hvn
        exact h3 (none, m) hm rfl
      · exact h1.closed v hv hnv hvn m hm

/-- **stage 2**: `null_from(nfa, node)` is the set of the nodes ε-reachable from `node` that are not
    pass-through nodes -/
theorem nullFrom_spec (N : Nfa) (hN : N.WF) (n : Nat) (hn : n < N.size) (m : Nat) :
    m ∈ nullFrom N n ↔ EpsReach N n m ∧ ¬ IsSkip N m := by
  unfold nullFrom
  rw [List.mem_mergeSort]
  have hinv0 : ScanInv N ⟨[], []⟩ := ⟨by simp, by simp⟩
  have hfuel : phi N n ⟨[], []⟩ ≤ scanFuel N := by
    simp only [phi, scanFuel, cntFree]
    have h1 := List.countP_le_length (p := fun v => !([] : List Nat).contains v) (l := List.range N.size)
    have h2 := List.countP_le_length (p := fun v => !([n] : List Nat).contains v) (l := List.range N.size)
    simp only [List.length_range] at h1 h2
    omega
  have ok := scan_ok N hN (scanFuel N) n ⟨[], []⟩ hn hinv0 hfuel
  have hnew : ∀ v, ¬ Vis ⟨[], []⟩ v := by intro v h; rcases h with h | h <;> simp at h
  constructor
  · intro hm
    exact ⟨ok.reach m (Or.inr hm) (hnew m), (ok.inv.resS m hm).2⟩
  · rintro ⟨hreach, hns⟩
    have hvis : ∀ a b, EpsReach N a b → Vis (scan N (scanFuel N) n ⟨[], []⟩) a →
        Vis (scan N (scanFuel N) n ⟨[], []⟩) b := by
      intro a b hab
      induction hab with
      | refl => exact fun h => h
      | step hs _ ih => exact fun h => ih (ok.closed _ h (hnew _) _ hs)
    rcases hvis n m hreach ok.self with h | h
    · exact absurd (ok.inv.skS m h).2 hns
    · exact h

end PM
