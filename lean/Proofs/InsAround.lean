/-
  Proofs/InsAround.lean — the replace-around answer of the Fitter when the loop of `fit` placed content at the innermost
  level of `from` (direct fit, Proofs/InsDirect.lean): `Slice.insert_at(insert, gap)` with `insert` = the size of the
  placed content, the innermost level with the placed and the moved content, and the step
  `ReplaceAroundStep(from, p, to, to.end(), slice, insert)` applies.
-/
import Proofs.InsDirect
namespace PM
open PM.FromDom (LeafOk)

/-! ### `insert_into` behind content at the innermost level -/

/-- the walk of `insert_into` steps over whole children -/
theorem insertInto_overKids (S : Schema) (ins : List Node) (parent : Option TypeId) (level : List Node) (d0 : Nat) :
    ∀ (X rest : List Node) (idx oa ob : Nat), fnormKids X = true →
      insertInto S ins parent level d0 idx (X ++ rest) (fsize X) oa ob
        = flatInsert S ins parent level d0 (idx + X.length)
  | [], rest, idx, oa, ob, _ => by
    cases rest with
    | nil => unfold insertInto; simp
    | cons r rs => unfold insertInto; simp
  | n :: ns, rest, idx, oa, ob, h => by
    simp only [fnormKids_cons, Bool.and_eq_true] at h
    have hp := Node.size_pos_of_norm n h.1
    have ih := insertInto_overKids S ins parent level d0 ns rest (idx + 1) oa ob h.2
    simp only [List.cons_append, fsize_cons]
    unfold insertInto
    rw [if_neg (by omega), if_pos (by omega), Nat.add_sub_cancel_left, ih]
    simp only [List.length_cons]
    congr 1
    omega

theorem leftS_size_ge' : ∀ (frs : List Frame) (fills : List (List Node)) (G : List Node),
    frs.length = fills.length → 2 * frs.length + fsize G ≤ fsize (leftS frs fills G)
  | [], _, _, _ => by simp [leftS]
  | _ :: _, [], _, h => by simp at h
  | fr :: frs, fill :: fills, G, h => by
    simp only [List.length_cons, Nat.add_right_cancel_iff] at h
    have := leftS_size_ge' frs fills G h
    simp only [leftS, Frame.node, fsize_cons, fsize_nil, Node.size_elem, fsize_append, List.length_cons]
    omega

/-- **`insert_into` at the innermost level of the open start, behind the content `X` that is there** -/
theorem insertInto_leftS_at (S : Schema) (G X : List Node) (hX : fnormKids X = true) (hne : X ≠ []) :
    ∀ (frs : List Frame) (fills : List (List Node)) (tail : List Node) (ob : Nat), frs.length = fills.length →
      (∀ x ∈ fills, textFreeKids x = true) → textFreeKids tail = true →
      insertInto S G none (leftS frs fills X ++ tail) (fsize X + frs.length) 0 (leftS frs fills X ++ tail)
          (fsize X + frs.length) frs.length ob
        = .ok (some (leftS frs fills (fappend X G) ++ tail))
  | [], fills, tail, ob, _, _, htail => by
    have hnt : fnormKids tail = true := fnormKids_textFree tail htail
    simp only [leftS, List.length_nil, Nat.add_zero]
    rw [insertInto_overKids S G none (X ++ tail) (fsize X) X tail 0 0 ob hX]
    unfold flatInsert
    simp only
    have h1 : fcut (X ++ tail) 0 (fsize X) = .ok X := by
      have := fcut_left_pre X tail 0 hX hne (Nat.zero_le _)
      rw [Nat.add_zero] at this
      rw [this]
      rcases fcut_zero_zero tail with h1 | ⟨h1, hz⟩
      · rw [h1]; simp [Except.map]
      · have : tail = [] := fsize_zero_of_fnormKids tail hnt hz
        subst this
        rw [h1]; simp [Except.map]
    have h2 : fcut (X ++ tail) (fsize X) (fsize (X ++ tail)) = .ok tail := by
      have := fcut_right_pre X tail 0 hX hne hnt
      rw [Nat.add_zero] at this
      rw [this, fcut_zero_full]
    rw [h1, h2]
    simp only
    rw [PM.FromDom.fappend_notText _ _ (textFree_notText_all htail)]
  | _ :: _, [], _, _, h, _, _ => by simp at h
  | fr :: frs, fill :: fills, tail, ob, h, hfills, htail => by
    simp only [List.length_cons, Nat.add_right_cancel_iff] at h
    have hsz := leftS_size_ge' frs fills X h
    have ih := fun ob' => insertInto_leftS_at S G X hX hne frs fills fill ob' h (fun x hx => hfills x (by simp [hx]))
      (hfills fill (by simp))
    simp only [leftS, Frame.node, List.length_cons, List.cons_append, List.nil_append] at ih ⊢
    unfold insertInto
    rw [if_neg (by omega), if_neg (by simp only [Node.size_elem, fsize_append]; omega)]
    simp only [← Nat.add_assoc, Nat.add_sub_cancel, Nat.zero_lt_succ, decide_true, beq_self_eq_true,
      Bool.and_self, Bool.true_or, if_true]
    rw [ih]
    simp

/-! ### the innermost level with placed and moved content -/

/-- `botLOK_gap` for any content `L` in front of the moved content (the children in front of `from`, the nodes the
    loop of `fit` placed) -/
theorem botLOK_gap' (S : Schema) (hdet : DetS S) (hleaf : LeafOk S) (hts : TextStableP S) (rf : RPos)
    (hU : InlineUniform S (S.tyOf rf.parent)) (L Gc : List Node) (q : Nat)
    (hL : (S.dfa (S.tyOf rf.parent)).run 0 (S.types L) = some q) (hmL : MarksOK S (S.tyOf rf.parent) L)
    (hfit' : ∃ fit', fillOpt S (S.dfa (S.tyOf rf.parent)) q (S.types Gc) true = .ok (some fit'))
    (hmG : MarksOK S (S.tyOf rf.parent) Gc) : BotLOK S rf q (fappend L Gc) := by
  intro fill after H2 hfill hH2 hm2
  obtain ⟨fit', hfit⟩ := hfit'
  have hft := fillBeforeNodes_types S _ _ _ _ _ (liftRaise_ok hfill)
  obtain ⟨_, q1, hr1, hfin1⟩ := fillBeforeTypes_sound S _ (hdet _) q _ true _ hft
  have hft' := fillBeforeNodes_types S _ _ _ _ _ (liftRaise_ok hfit)
  obtain ⟨_, q2, hr2, hfin2⟩ := fillBeforeTypes_sound S _ (hdet _) q _ true _ hft'
  have hfm := fillOpt_nodes S hdet hleaf _ _ _ _ _ hfill
  unfold fillFinished at hfin1 hfin2
  cases ha1 : (S.dfa (S.tyOf rf.parent)).run q1 (S.types after) with
  | none => rw [ha1] at hfin1; simp at hfin1
  | some e1 =>
    cases ha2 : (S.dfa (S.tyOf rf.parent)).run q2 (S.types Gc) with
    | none => rw [ha2] at hfin2; simp at hfin2
    | some e2 =>
      rw [ha1] at hfin1
      rw [ha2] at hfin2
      have hv1 : (S.dfa (S.tyOf rf.parent)).validEnd e1 = true := by simpa using hfin1
      have hv2 : (S.dfa (S.tyOf rf.parent)).validEnd e2 = true := by simpa using hfin2
      have h1 : (S.dfa (S.tyOf rf.parent)).run q (S.types fill ++ S.types after) = some e1 := by
        rw [Dfa.run_append, hr1]; exact ha1
      have h2 : (S.dfa (S.tyOf rf.parent)).run q (S.types fit' ++ S.types Gc) = some e2 := by
        rw [Dfa.run_append, hr2]; exact ha2
      obtain ⟨e, hrun, hve⟩ := uniform_accepts hU q _ _ _ _ e1 e2 h1 hv1 h2 hv2
      have hval : S.validContent (S.tyOf rf.parent) (L ++ Gc ++ (fill ++ H2)) = true := by
        simp only [Schema.validContent, Bool.and_eq_true, List.all_eq_true]
        constructor
        · unfold Dfa.accepts
          rw [types_append, types_append, types_append, hH2, List.append_assoc, Dfa.run_append, hL]
          simp only [Option.bind_some]
          rw [hrun]; exact hve
        · intro c hc
          simp only [List.mem_append] at hc
          rcases hc with (hc | hc) | hc | hc
          · exact hmL c hc
          · exact hmG c hc
          · rw [(hfm c hc).2]; exact allowsMarks_nil _
          · exact hm2 c hc
      have := validContent_fappend_pre hts _ L Gc (fill ++ H2) hval
      rwa [← List.append_assoc] at this

theorem fsize_chainF : ∀ (frs : List Frame) (X : List Node), fsize (chainF frs X) = 2 * frs.length + fsize X
  | [], X => by simp [chainF]
  | fr :: frs, X => by
    have := fsize_chainF frs X
    simp only [chainF, Frame.node, fsize_cons, fsize_nil, Node.size_elem, List.length_cons]
    omega

/-! ### the replace-around answer applies -/

/-- **`close_around_applies` with content `X` placed at the innermost level of `from`** (`X` in normal form, valid, with
    marks the node allows, leading the frontier's match from behind `from` to `qtop`; its text does not end in a high
    surrogate): the step `ReplaceAroundStep(from, p, to, to.end(), <placed, normalised>, size(X))` applies -/
theorem close_around_core (S : Schema) (hdet : DetS S) (hleaf : LeafOk S) (hfl : FillersOK S) (hcl : Closable S)
    (hts : TextStableP S) (hjc : joinCompatB S = true) (hro : reopenOKB S = true) (hiu : inlineUniformB S = true)
    {ty0 : TypeId} {a0 : Attrs} {m0 : Marks} {K : List Node} {f t p : Nat} {rf rt tg : RPos}
    (hf : (Node.elem ty0 a0 m0 K).resolve f = some rf) (ht : (Node.elem ty0 a0 m0 K).resolve t = some rt)
    (htg : (Node.elem ty0 a0 m0 K).resolve p = some tg)
    (hv : S.checkNode (.elem ty0 a0 m0 K) = true) (hn : fnorm K = true)
    (hattrs : S.nodeAttrsOK (.elem ty0 a0 m0 K) = true) (hhc : highClosedKids K = true)
    (hpf : rf.pairOk = true) (hpt : rt.pairOk = true) (hft : f ≤ t)
    (fr0 : List FItem) (qD qtop : Nat) (X : List Node)
    (hcmD : S.contentMatchAt (S.tyOf rf.parent) rf.parent.kids (rf.indexAfter rf.depth) = some qD)
    (hF : FrontierOf S rf qtop fr0)
    (hqtop : qtop = 0 ∨ ∃ q1 e, e ∈ (S.dfa (S.tyOf rf.parent)).edgesOf q1 ∧ e.2 = qtop)
    (hXn : fnorm X = true) (hXk : S.checkKids X = true) (hXm : MarksOK S (S.tyOf rf.parent) X)
    (hXr : (S.dfa (S.tyOf rf.parent)).run qD (S.types X) = some qtop)
    (hXl : ∀ c m, (ftoks X).getLast? = some (Tok.unit c m) → isHigh c = false)
    (hmi : mustMoveInline S (.elem ty0 a0 m0 K) rt fr0 = .ok (some p))
    (mv : RPos) (placed : List Node)
    (hcf : closeFit S (.elem ty0 a0 m0 K) tg fr0 (chainF (framesFrom rf 0 rf.depth) X) = .ok (some (mv, placed))) :
    ∃ doc', S.apply (.replaceAround f p t (rt.end_ rt.depth)
      ⟨(normalizeOpen (rf.depth + 1) placed rf.depth mv.depth).1,
       (normalizeOpen (rf.depth + 1) placed rf.depth mv.depth).2.1,
       (normalizeOpen (rf.depth + 1) placed rf.depth mv.depth).2.2⟩ (fsize X) false) (.elem ty0 a0 m0 K) = .ok doc' := by
  have Rf := resolve_resolved hf
  have Rt := resolve_resolved ht
  have Rg := resolve_resolved htg
  have hlen0 := hF.1
  -- what `must_move_inline` tested
  obtain ⟨top, fit', after, htop, htb, hfits, hafter, hp⟩ := mustMoveInline_spec S _ rt _ p hmi
  have hE : 1 ≤ rt.depth := by
    rcases Nat.eq_zero_or_pos rt.depth with h0' | h0'
    · rw [h0'] at hafter; simp [RPos.after] at hafter
    · exact h0'
  rw [Rt.after_eq rt.depth hE (Nat.le_refl _)] at hafter
  simp only [Option.some.injEq] at hafter
  subst hafter
  obtain ⟨j, hj, hpj, hjne⟩ := moveInlineAfter_level rt rt.depth hE
  rw [hpj] at hp
  have haj : rt.after (j + 1) = some p := by rw [Rt.after_eq (j + 1) (by omega) (by omega), hp]
  obtain ⟨hgd, _, _, _, _, hgto, hgend⟩ := closeMove_drop S ht hn j hj haj htg
  have hgpair : tg.pairOk = true := by simp [RPos.pairOk, hgto]
  have htp : t ≤ p := by
    have := (Rt.pos_in (j + 1) (by omega)).2
    omega
  have hnodrop : ∀ i, dropInnerB tg i = false := by
    refine no_drop_after_move Rg ?_
    rcases hjne with h | h
    · exact .inl (by rw [hgd, h])
    · refine .inr ?_
      rw [hgd, hgend j (Nat.le_refl _), hp]
      exact h
  obtain ⟨lv, hlv, hmvlv⟩ := closeFit_move S _ tg _ _ mv placed hcf
  obtain ⟨_, _, _, _, _, hkeep⟩ := closeFacts_of S htg hn fr0 hF lv hlv
  have hmv : mv = tg := by rw [hmvlv]; exact hkeep (hnodrop _)
  -- the two flat ends
  obtain ⟨hKf0, hfpos, hfs, hfle⟩ := doc_plug hf
  have hKf : K = plug (framesFrom rf 0 rf.depth) rf.parent.kids := hKf0
  obtain ⟨hKt0, _, _, _⟩ := doc_plug ht
  have hKt : K = plug (framesFrom rt 0 rt.depth) rt.parent.kids := hKt0
  obtain ⟨hFl, _, hidxF⟩ := resolved_flatAt hf hpf
  obtain ⟨hTl, _, hidxT⟩ := resolved_flatAt ht hpt
  obtain ⟨hvF, hkF, _⟩ := level_check S hf hv rf.depth (Nat.le_refl _)
  obtain ⟨_, hkT, _⟩ := level_check S ht hv rt.depth (Nat.le_refl _)
  have hnF : fnorm rf.parent.kids = true := (plug_framesFN _ _ (hKf ▸ hn)).2
  have hnT : fnorm rt.parent.kids = true := (plug_framesFN _ _ (hKt ▸ hn)).2
  obtain ⟨hnL, htkL, hkL, hsL⟩ := flat_left_facts S hFl hnF hkF
  obtain ⟨hspR, hkG, hsG⟩ := flat_right_facts S hTl hnT hkT
  have hnG := splitRight_flat_fnorm _ _ _ hnT hspR
  have hAl : (rf.parent.kids.take (rf.index rf.depth)).length = rf.index rf.depth := by
    rw [List.length_take]; omega
  have hBl : (rt.parent.kids.take (rt.index rt.depth)).length = rt.index rt.depth := by
    rw [List.length_take]; omega
  have hsL' : sigOf S (rf.parent.kids.take (rf.index rf.depth) ++ headCut (rf.parent.kids.drop (rf.index rf.depth)) rf.textOffset)
      = sigOf S (rf.parent.kids.take (rf.indexAfter rf.depth)) := by
    rw [hsL, hAl]
    unfold RPos.indexAfter
    simp
  rw [hBl] at hsG
  generalize hLdef : rf.parent.kids.take (rf.index rf.depth) ++
    headCut (rf.parent.kids.drop (rf.index rf.depth)) rf.textOffset = L at hnL htkL hkL hsL'
  generalize hGdef : tailCut (rt.parent.kids.drop (rt.index rt.depth)) rt.textOffset = Gc at hnG hkG hsG hspR
  -- the textblock `from` is in: its automaton is uniform, the moved content is accepted there
  obtain ⟨qD', hqD, hfs'⟩ := hF.2 rf.depth (Nat.le_refl _)
  rw [frontSt_top] at hfs'
  simp only [Option.some.injEq] at hfs'
  subst hfs'
  rw [hlen0, Nat.add_sub_cancel, hqD] at htop
  simp only [Option.some.injEq] at htop
  subst htop
  obtain ⟨_, _, q', hq', hfillG, himG⟩ := contentAfterFits_spec S rt rt.depth _ _ false fit' hfits
  simp only [Bool.false_eq_true, if_false, Option.some.injEq] at hq' hfillG himG
  subst hq'
  have hU : InlineUniform S (S.tyOf rf.parent) := by
    refine inlineUniform_of_B S hiu _ ?_
    simp only [Schema.isTextblockO, Bool.and_eq_true] at htb
    exact htb.2
  have hLr : (S.dfa (S.tyOf rf.parent)).run 0 (S.types L) = some qD := by
    rw [sigOf_types S hsL']; exact hcmD
  have hLm : MarksOK S (S.tyOf rf.parent) L :=
    sigOf_marksOK S _ hsL' (marksOK_sub S _ (marksOK_of_valid S _ _ hvF) (fun c hc => List.mem_of_mem_take hc))
  have hbLok := botLOK_gap' S hdet hleaf hts rf hU (fappend L X) Gc qtop
    (run_fappend_some hts _ _ _ _ _ (by rw [Dfa.run_append, hLr]; exact hXr))
    (MarksOK_fappend S _ _ _ hLm hXm)
    ⟨fit', by rw [sigOf_types S hsG]; exact hfillG⟩
    (sigOf_marksOK S _ hsG (invalidMarks_false S _ _ himG))
  -- the gap as a slice
  have hslice := slice_to_end ht hn hpt
  rw [hGdef] at hslice
  have htEnd : rt.end_ rt.depth ≤ fsize K := (Rt.end_le_size rt.depth (Nat.le_refl _)).1
  have htle : t ≤ rt.end_ rt.depth := (Rt.pos_in rt.depth (Nat.le_refl _)).2
  have hGtoks : ftoks Gc = ((ftoks K).drop t).take (rt.end_ rt.depth - t) := by
    have := sliceKids_toks K t (rt.end_ rt.depth) _ htle htEnd hslice
    simp only [Slice.toks, List.drop_zero, Nat.sub_zero] at this
    rw [← this, List.take_of_length_le (by rw [ftoks_length]; exact Nat.le_refl _)]
  -- alignment at the end of the gap
  have hKn := ftoks_highClosed K hhc
  have haEnd : tokAligned (ftoks K) (rt.end_ rt.depth) = true := by
    obtain ⟨tyP, aP, mP, ctx, _, hl⟩ := Resolved.lvl ht hn rt.depth (Nat.le_refl _)
    rw [← alignedAt_toks K _ hn, Resolved.end_eq, (hl.depth _ (Nat.le_refl _)).2]
    exact alignedAt_fsize _
  have haf : tokAligned (ftoks K) f = true := by
    rw [← alignedAt_toks K _ hn, hfpos, hKf, plug_aligned _ _ _ (plug_norm _ _ (hKf ▸ hn)).1 hfle]
    exact hFl.aligned
  have hlast : ∀ c m, (ftoks (fappend X Gc)).getLast? = some (Tok.unit c m) → isHigh c = false := by
    intro c m hl
    rw [fappend_toks] at hl
    by_cases hem : ftoks Gc = []
    · rw [hem, List.append_nil] at hl; exact hXl c m hl
    · rw [getLast?_append_ne _ _ hem] at hl
      refine prev_not_high (ftoks K) hKn (rt.end_ rt.depth) (by rw [ftoks_length]; exact htEnd) haEnd c m ?_
      have e : (ftoks K).take (rt.end_ rt.depth)
          = (ftoks K).take t ++ ((ftoks K).drop t).take (rt.end_ rt.depth - t) := by
        conv => lhs; rw [show rt.end_ rt.depth = t + (rt.end_ rt.depth - t) by omega]
        rw [List.take_add]
      rw [e, ← hGtoks, getLast?_append_ne _ _ hem]
      exact hl
  -- the replace with the placed and the gap content in place
  obtain ⟨ffsB, fills, tail, b, hlenB, htfF, htft, hbt, hnorm, Y, hY⟩ := close_core S hdet hleaf hfl hcl hts hjc hro hf htg hv hn
    hattrs hpf hgpair (by omega) fr0 qtop X hF hqtop mv placed hcf (fappend X Gc) (fappend (fappend L X) Gc)
    (fappend_norm _ _ hXn hnG)
    (by rw [fappend_toks, fappend_toks, fappend_toks, htkL, List.append_assoc])
    (fappend_norm _ _ (fappend_norm _ _ hnL hXn) hnG)
    (fappend_checkKids S _ _ (fappend_checkKids S _ _ hkL hXk) hkG) hbLok
    (fun Xn T hXn' _ _ => seams_gap (ftoks K) _ Xn f T hKn (by rw [ftoks_length]; exact Rf.le) haf hXn' hlast)
  -- the step
  rw [hnorm]
  have hpm : mv.pos = p := by rw [hmv]; exact Rg.pos_eq
  rw [hpm] at hY
  have hsl : (Node.elem ty0 a0 m0 K).slice t (rt.end_ rt.depth) = .ok ⟨Gc, 0, 0⟩ := hslice
  have hins : insertInto S Gc none (leftS ffsB fills X ++ tail) (fsize X + ffsB.length) 0 (leftS ffsB fills X ++ tail)
      (fsize X + ffsB.length) ffsB.length b = .ok (some (leftS ffsB fills (fappend X Gc) ++ tail)) := by
    by_cases hX0 : X = []
    · subst hX0
      rw [fappend_nil_left]
      simp only [fsize_nil, Nat.zero_add]
      exact insertInto_leftS S Gc ffsB fills tail b hlenB htfF htft
    · have hXnk : fnormKids X = true := by
        simp only [fnorm, Bool.and_eq_true] at hXn; exact hXn.1
      exact insertInto_leftS_at S Gc X hXnk hX0 ffsB fills tail b hlenB htfF htft
  -- the position `insert = size(X)` lies inside the slice: every open level is a node of the content
  have hia : Slice.insertAt S ⟨leftS ffsB fills X ++ tail, ffsB.length, b⟩ (fsize X) Gc
      = .ok (some ⟨leftS ffsB fills (fappend X Gc) ++ tail, ffsB.length, b⟩) := by
    have hsz := leftS_size_ge' ffsB fills X hlenB
    rw [insertAt_of_le (by simp only [Slice.size, fsize_append]; omega)]
    simp only [Slice.insertAtIn, hins]
  simp only [Schema.apply, Bool.false_eq_true, if_false, hsl, hia,
    Schema.fromReplace, Schema.replace, hY, Except.map]
  exact ⟨_, rfl⟩

/-! ### `replace_step` on a direct fit: every emitted step applies -/

/-- **a closed slice that the node `from` is in accepts directly behind `from`: every step `replace_step` emits
    applies** — `ReplaceStep` (Proofs/InsDirect.lean) and `ReplaceAroundStep` answers -/
theorem replaceStep_direct_applies (S : Schema) (hdet : DetS S) (hleaf : LeafOk S) (hfl : FillersOK S)
    (hcl : Closable S) (hts : TextStableP S) (hta : TextAbsorb S) (hjc : joinCompatB S = true)
    (hro : reopenOKB S = true) (hiu : inlineUniformB S = true) (ty0 : TypeId) (a0 : Attrs) (m0 : Marks)
    (K : List Node) (f t : Nat)
    (hv : S.checkNode (.elem ty0 a0 m0 K) = true) (hn : fnorm K = true)
    (hattrs : S.nodeAttrsOK (.elem ty0 a0 m0 K) = true) (hhc : highClosedKids K = true) (hft : f ≤ t)
    (rf rt : RPos) (hf : (Node.elem ty0 a0 m0 K).resolve f = some rf)
    (ht : (Node.elem ty0 a0 m0 K).resolve t = some rt) (hpf : rf.pairOk = true) (hpt : rt.pairOk = true)
    (sl : Slice) (hos : sl.openStart = 0) (hoe : sl.openEnd = 0) (hsn : fnorm sl.content = true)
    (hsk : S.checkKids sl.content = true) (hshc : highClosedKids sl.content = true)
    (qD q' : Nat) (hqD : S.contentMatchAt (S.tyOf rf.parent) rf.parent.kids (rf.indexAfter rf.depth) = some qD)
    (hrun : (S.dfa (S.tyOf rf.parent)).run qD (S.types sl.content) = some q')
    (st : Step) (h : replaceStep S (.elem ty0 a0 m0 K) f t sl = .ok (some st)) :
    ∃ doc', S.apply st (.elem ty0 a0 m0 K) = .ok doc' := by
  by_cases hne : sl.content = []
  · have hse : sl = Slice.empty := by
      cases sl; simp only at hos hoe hne; simp [Slice.empty, hos, hoe, hne]
    rw [hse] at h
    exact replaceStep_delete_applies S hdet hleaf hfl hcl hts hta hjc hro hiu ty0 a0 m0 K f t hv hn hattrs hhc hft
      rf rt hf ht hpf hpt st h
  have hrep : ∀ F T sl' b, st = .replace F T sl' b → ∃ doc', S.apply st (.elem ty0 a0 m0 K) = .ok doc' := by
    intro F T sl' b e
    subst e
    exact replaceStep_direct_replace_applies S hdet hleaf hfl hcl hts hta hjc hro ty0 a0 m0 K f t hv hn hattrs hhc hft
      rf rt hf ht hpf hpt sl hos hoe hsn hsk hshc qD q' hqD hrun F T sl' b h
  · -- the steps
    have hsnk : fnormKids sl.content = true := by
      simp only [fnorm, Bool.and_eq_true] at hsn; exact hsn.1
    have hsz : fsize sl.content ≠ 0 := by
      have := fsize_pos_of_ne_nil hsnk hne; omega
    unfold replaceStep at h
    split at h
    · simp [pure, Except.pure] at h
    · simp only [hf, ht] at h
      split at h
      · simp [throw, throwThe, MonadExceptOf.throw] at h
      · have := pure_ok h
        simp only [Option.some.injEq] at this
        exact hrep _ _ _ _ this.symm
      · unfold fitterFit at h
        obtain ⟨st0, h0, h⟩ := FM.bind_ok h
        obtain ⟨hu, hpl0, qD0, hcmD, hF, hqtop⟩ := frontierOf_init S hf sl st0 h0
        have hqq : qD0 = qD := by rw [hqD] at hcmD; exact (Option.some.inj hcmD).symm
        subst hqq
        obtain ⟨u, fr, pl⟩ := st0
        simp only at hu hpl0 hF
        subst hu hpl0
        have hlen : fr.length = (framesFrom rf 0 rf.depth).length + 1 := by rw [framesFrom_length]; exact hF.1
        have htop : fr[(framesFrom rf 0 rf.depth).length]? = some ⟨S.tyOf rf.parent, some qD0⟩ := by
          rw [framesFrom_length]
          obtain ⟨q, hq, hst⟩ := hF.2 rf.depth (Nat.le_refl _)
          rw [frontSt_top] at hst
          rw [hq, ← Option.some.inj hst]
          rfl
        have hloop := fitLoop_direct S u fr (framesFrom rf 0 rf.depth) (S.tyOf rf.parent) qD0 q' hos hoe hne hsz hlen
          htop hrun (fitMeasure u (u.openStart + 1))
        rw [show fitFuel S u = fitMeasure u (u.openStart + 1) + 1 from rfl, FM.bind_eq hloop] at h
        rw [framesFrom_length] at h
        obtain ⟨mi, hmi, h⟩ := FM.bind_ok h
        simp only at h
        obtain ⟨target, htarget, h⟩ := FM.bind_ok h
        obtain ⟨c, hc, h⟩ := FM.bind_ok h
        have hpos : rf.pos = f := (resolve_resolved hf).pos_eq
        have hpos' : rt.pos = t := (resolve_resolved ht).pos_eq
        cases c with
        | none => simp [pure, Except.pure] at h
        | some c =>
          simp only at h
          cases mi with
          | none =>
            unfold fitEmit at h
            simp only at h
            split at h
            · have := pure_ok h
              simp only [Option.some.injEq] at this
              exact hrep _ _ _ _ this.symm
            · simp [pure, Except.pure] at h
          | some p =>
            have htg : (Node.elem ty0 a0 m0 K).resolve p = some target := by
              simp only [closeTarget] at htarget
              exact liftRaise_ok htarget
            unfold fitEmit at h
            simp only at h
            split at h
            · simp [throw, throwThe, MonadExceptOf.throw] at h
            · have := pure_ok h
              simp only [Option.some.injEq] at this
              rw [← this]
              have hXt : ftoks (fromArray (filtMarks S (S.tyOf rf.parent) u.content))
                  = ftoks (filtMarks S (S.tyOf rf.parent) u.content) := fromArray_toks _
              have hps : ((fsize (chainF (framesFrom rf 0 rf.depth) (fromArray (filtMarks S (S.tyOf rf.parent) u.content))) : Int)
                  - (((fr.set rf.depth ⟨S.tyOf rf.parent, some q'⟩).length - 1 : Nat) : Int) - (rf.depth : Int)).toNat
                  = fsize (fromArray (filtMarks S (S.tyOf rf.parent) u.content)) := by
                rw [fsize_chainF, framesFrom_length, List.length_set, hF.1]
                simp only [Nat.add_sub_cancel]
                omega
              rw [hpos, hpos', hps]
              have hqtop' : q' = 0 ∨ ∃ q1 e, e ∈ (S.dfa (S.tyOf rf.parent)).edgesOf q1 ∧ e.2 = q' := by
                rcases run_target _ _ _ _ hrun with h1 | h1
                · rw [h1]; exact hqtop
                · exact .inr h1
              exact close_around_core S hdet hleaf hfl hcl hts hjc hro hiu hf ht htg hv hn hattrs hhc hpf hpt hft
                _ qD0 q' _ hqD (frontierOf_set S rf qD0 q' fr hF) hqtop'
                (fromArray_norm _ (by rw [filtMarks_fnormKids]; exact hsnk))
                (fromArray_checkKids S _ (filtMarks_checkKids S _ _ hsk))
                (MarksOK_fromArray S _ _ (filtMarks_marksOK S _ _))
                (run_fromArray_some hts _ _ _ _ (by rw [filtMarks_types]; exact hrun))
                (last_not_high _ (by
                  rw [hXt]
                  exact ftoks_highClosed _ (by rw [filtMarks_highClosed]; exact hshc)))
                hmi c.1 c.2 hc

end PM
