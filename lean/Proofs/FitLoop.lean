/- Proofs/FitLoop.lean — termination of the Fitter's loop `while self.unplaced.size` in the model
   (PM/Fitter.lean `fitLoop`): with fuel above the measure the loop answers `outOfFuel` exactly when
   it reaches the one state it maps to itself — empty unplaced content with `open_start = 0` and
   `open_end > 0`, whose `size` is negative and therefore "truthy" — and then it answers `outOfFuel`
   for every amount of fuel (`fitLoop_outOfFuel_iff`).  Slices whose top-level content ends in a
   non-leaf node, or consists of leaf/text nodes only, never get there (`fitLoop_terminates`). -/
import Proofs.FitTerm
namespace PM

/-! ### the errors of the loop -/

theorem fitLoop_err (S : Schema) : ∀ (fuel : Nat) (st : FitState) (e : FitErr),
    fitLoop S fuel st = .error e → e = .raises ∨ e = .outOfFuel
  | 0, st, e, h => by
    unfold fitLoop at h
    split at h
    · simp [pure, Except.pure] at h
    · simp only [throw, throwThe, MonadExceptOf.throw, Except.error.injEq] at h
      exact .inr h.symm
  | fuel + 1, st, e, h => by
    unfold fitLoop at h
    split at h
    · simp [pure, Except.pure] at h
    · cases hs : fitStep S st with
      | error e' =>
        rw [hs] at h
        simp only [bind, Except.bind, Except.error.injEq] at h
        subst h
        exact .inl ((fitStep_or S st).err hs)
      | ok st' =>
        rw [hs] at h
        exact fitLoop_err S fuel st' e h

/-! ### the state the loop maps to itself -/

/-- nothing left to place, but `Slice.size` is `-open_end ≠ 0` -/
def FitState.stuck (st : FitState) : Prop :=
  st.unplaced.content = [] ∧ st.unplaced.openStart = 0 ∧ st.unplaced.openEnd ≠ 0

instance (st : FitState) : Decidable st.stuck := by unfold FitState.stuck; infer_instance

theorem scanFrontier_nothing (S : Schema) (pass2 : Bool) (sd : Nat) (fr : List FItem) :
    ∀ n, n ≤ fr.length → scanFrontier S pass2 sd none none fr n = .ok none
  | 0, _ => rfl
  | n + 1, h => by
    unfold scanFrontier
    have hit : getItem fr n = .ok fr[n] := by
      unfold getItem
      rw [List.getElem?_eq_getElem (by omega)]
      rfl
    rw [hit]
    have hh : frontierHit S pass2 sd none none fr[n] n = .ok none := by
      unfold frontierHit
      cases pass2 <;> rfl
    simp only [bind, Except.bind, hh]
    have hb : frontierBreak S none fr[n] = .ok false := rfl
    simp only [hb, Bool.false_eq_true, if_false]
    exact scanFrontier_nothing S pass2 sd fr n (by omega)

/-- **the cycle**: a stuck state is a fixed point of the loop body -/
theorem fitStep_stuck (S : Schema) (st : FitState) (h : st.stuck) : fitStep S st = .ok st := by
  obtain ⟨placed, fr, pl⟩ := st
  obtain ⟨c, os, oe⟩ := placed
  obtain ⟨h1, h2, h3⟩ := h
  simp only at h1 h2 h3
  subst h1; subst h2
  have hscan : ∀ p2, scanSlice S p2 ⟨[], 0, oe⟩ fr 1 = .ok none := by
    intro p2
    unfold scanSlice
    have hl : sliceLevel ⟨[], 0, oe⟩ 0 = .ok (none, []) := rfl
    simp only [hl, bind, Except.bind, List.head?_nil]
    rw [scanFrontier_nothing S p2 0 fr fr.length (Nat.le_refl _)]
    rfl
  have hff : findFittable S ⟨⟨[], 0, oe⟩, fr, pl⟩ = .ok none := by
    unfold findFittable
    simp only [fittableStart, bind, Except.bind, pure, Except.pure, Nat.zero_add]
    rw [hscan false]
    simp only
    exact hscan true
  unfold fitStep
  simp only [hff, bind, Except.bind]
  rfl

theorem stuck_size (st : FitState) (h : st.stuck) : (st.unplaced.size == 0) = false := by
  obtain ⟨h1, h2, h3⟩ := h
  unfold Slice.size
  rw [h1, h2]
  simp only [fsize, Int.natCast_zero, Int.sub_zero, Int.zero_sub, beq_eq_false_iff_ne, ne_eq,
    Int.neg_eq_zero, Int.natCast_eq_zero]
  exact h3

/-- … hence the loop never ends from there, whatever the fuel -/
theorem fitLoop_stuck (S : Schema) (st : FitState) (h : st.stuck) :
    ∀ fuel, fitLoop S fuel st = .error .outOfFuel
  | 0 => by
    unfold fitLoop
    rw [stuck_size st h]
    rfl
  | fuel + 1 => by
    unfold fitLoop
    rw [stuck_size st h]
    simp only [Bool.false_eq_true, if_false, fitStep_stuck S st h, bind, Except.bind]
    exact fitLoop_stuck S st h fuel

/-! ### empty content with `open_start > 0`: the code dereferences `None` -/

theorem fitStep_empty_raises (S : Schema) (st : FitState) (h1 : st.unplaced.content = [])
    (h2 : 0 < st.unplaced.openStart) : fitStep S st = .error .raises := by
  obtain ⟨n, hn⟩ : ∃ n, st.unplaced.openStart = n + 1 := ⟨st.unplaced.openStart - 1, by omega⟩
  unfold fitStep findFittable
  simp only [h1, hn, fittableStart]
  rfl

/-! ### the states the loop goes through -/

/-- `st'` is reached from `st` by iterations of the loop (each started with `size ≠ 0`) -/
inductive FitReach (S : Schema) : FitState → FitState → Prop
  | refl (st : FitState) : FitReach S st st
  | step {st st1 st' : FitState} : (st.unplaced.size == 0) = false → fitStep S st = .ok st1 →
      FitReach S st1 st' → FitReach S st st'

/-- a loop that reaches a stuck state answers `outOfFuel` for every fuel -/
theorem fitLoop_of_reach_stuck (S : Schema) {st st' : FitState} (hr : FitReach S st st') (hs : st'.stuck) :
    ∀ fuel, fitLoop S fuel st = .error .outOfFuel := by
  induction hr with
  | refl st => exact fitLoop_stuck S st hs
  | step hsz hstep _ ih =>
    intro fuel
    cases fuel with
    | zero =>
      unfold fitLoop
      rw [hsz]
      rfl
    | succ fuel =>
      unfold fitLoop
      rw [hsz]
      simp only [Bool.false_eq_true, if_false, hstep, bind, Except.bind]
      exact ih hs fuel

/-- **the fuel is enough**: above the measure, `outOfFuel` is answered only when the loop reaches a
    stuck state -/
theorem fitLoop_outOfFuel_reach (S : Schema) (hdet : DetS S) : ∀ (fuel : Nat) (st : FitState),
    fitMeasure st.unplaced (cpot S st) < fuel → fitLoop S fuel st = .error .outOfFuel →
    ∃ st', FitReach S st st' ∧ st'.stuck
  | 0, st, hm, _ => by omega
  | fuel + 1, st, hm, h => by
    unfold fitLoop at h
    cases hsz : (st.unplaced.size == 0) with
    | true => rw [hsz] at h; simp [pure, Except.pure] at h
    | false =>
      rw [hsz] at h
      simp only [Bool.false_eq_true, if_false] at h
      cases hs : fitStep S st with
      | error e' =>
        rw [hs] at h
        simp only [bind, Except.bind, Except.error.injEq] at h
        subst h
        have := (fitStep_or S st).err hs
        simp at this
      | ok st1 =>
        rw [hs] at h
        simp only [bind, Except.bind] at h
        by_cases hne : st.unplaced.content = []
        · -- nothing left: `open_start = 0` (else the step raises), and `open_end ≠ 0` as `size ≠ 0`
          rcases Nat.eq_zero_or_pos st.unplaced.openStart with h0 | hpos
          · refine ⟨st, .refl st, hne, h0, ?_⟩
            intro he
            unfold Slice.size at hsz
            rw [hne, h0, he] at hsz
            simp [fsize] at hsz
          · rw [fitStep_empty_raises S st hne hpos] at hs
            simp at hs
        · have hlt := fitStep_progress S hdet st st1 hne hs
          obtain ⟨st', hr, hst⟩ := fitLoop_outOfFuel_reach S hdet fuel st1 (by omega) h
          exact ⟨st', .step hsz hs hr, hst⟩

/-- **`fitLoop_outOfFuel_iff`** — with fuel above the measure the answer `outOfFuel` is exact: it
    is given iff the loop reaches the state it maps to itself, iff the loop runs out of every
    amount of fuel -/
theorem fitLoop_outOfFuel_iff (S : Schema) (hdet : DetS S) (fuel : Nat) (st : FitState)
    (hfuel : fitMeasure st.unplaced (cpot S st) < fuel) :
    (fitLoop S fuel st = .error .outOfFuel ↔ ∃ st', FitReach S st st' ∧ st'.stuck) ∧
    (fitLoop S fuel st = .error .outOfFuel ↔ ∀ fuel', fitLoop S fuel' st = .error .outOfFuel) := by
  refine ⟨⟨fitLoop_outOfFuel_reach S hdet fuel st hfuel, ?_⟩, ⟨?_, fun h => h fuel⟩⟩
  · rintro ⟨st', hr, hs⟩
    exact fitLoop_of_reach_stuck S hr hs fuel
  · intro h
    obtain ⟨st', hr, hs⟩ := fitLoop_outOfFuel_reach S hdet fuel st hfuel h
    exact fitLoop_of_reach_stuck S hr hs

/-! ### a static condition under which no stuck state is reached -/

theorem endsInElem_ne_nil {l : List Node} (h : endsInElem l = true) : l ≠ [] := by
  intro h0; subst h0; simp [endsInElem] at h

theorem endsInElem_drop : ∀ (l : List Node) (k : Nat), endsInElem l = true → l.drop k ≠ [] →
    endsInElem (l.drop k) = true
  | [], k, h, _ => by simp [endsInElem] at h
  | [n], 0, h, _ => by simpa using h
  | [n], k + 1, _, hne => by simp at hne
  | a :: n :: ns, 0, h, _ => by simpa using h
  | a :: n :: ns, k + 1, h, hne => by
    simp only [List.drop_succ_cons] at hne ⊢
    exact endsInElem_drop (n :: ns) k (by simpa [endsInElem] using h) hne

theorem endsInElem_cons_elem (t : TypeId) (a : Attrs) (m : Marks) (k k' : List Node) (rest : List Node)
    (h : endsInElem (.elem t a m k :: rest) = true) : endsInElem (.elem t a m k' :: rest) = true := by
  cases rest with
  | nil => simp [endsInElem, Node.isLeaf]
  | cons n ns => simpa [endsInElem] using h

/-- dropping from the first-child spine keeps the last top-level node or empties the content -/
theorem dropFromFragment_endsInElem : ∀ (d : Nat) (frag r : List Node) (count : Nat),
    dropFromFragment frag d count = .ok r → endsInElem frag = true → r = [] ∨ endsInElem r = true
  | 0, frag, r, count, h, he => by
    have := pure_ok h
    subst this
    by_cases hn : frag.drop count = []
    · exact .inl hn
    · exact .inr (endsInElem_drop frag count he hn)
  | d + 1, frag, r, count, h, he => by
    unfold dropFromFragment at h
    split at h
    · rename_i t a m kids rest
      obtain ⟨inner', _, h⟩ := FM.bind_ok h
      have := pure_ok h
      subst this
      exact .inr (endsInElem_cons_elem t a m kids inner' rest he)
    · simp [throw, throwThe, MonadExceptOf.throw] at h

/-- the invariant: the content ends in a non-leaf node, or it is empty with `open_end = 0`, or it is
    all leaves with both sides closed -/
def TermInv (u : Slice) : Prop :=
  endsInElem u.content = true ∨ (u.content = [] ∧ u.openEnd = 0) ∨
  ((∀ n ∈ u.content, n.isLeaf = true) ∧ u.openStart = 0 ∧ u.openEnd = 0)

theorem TermInv.of_guard {u : Slice} (h : u.termGuard = true) : TermInv u := by
  unfold Slice.termGuard at h
  simp only [Bool.or_eq_true, Bool.and_eq_true, List.all_eq_true, beq_iff_eq] at h
  rcases h with h | ⟨⟨h1, h2⟩, h3⟩
  · exact .inl h
  · exact .inr (.inr ⟨h1, h2, h3⟩)

theorem TermInv.not_stuck {st : FitState} (h : TermInv st.unplaced) : ¬ st.stuck := by
  rintro ⟨h1, h2, h3⟩
  rcases h with h | ⟨_, h⟩ | ⟨_, _, h⟩
  · exact endsInElem_ne_nil h h1
  · exact h3 h
  · exact h3 h

/-! ### the invariant is kept by every iteration -/

theorem dropFromFragment_nil : ∀ (d : Nat) (frag : List Node) (count : Nat),
    dropFromFragment frag d count = .ok [] → d = 0 ∧ frag.drop count = []
  | 0, frag, count, h => ⟨rfl, pure_ok h⟩
  | d + 1, frag, count, h => by
    unfold dropFromFragment at h
    split at h
    · obtain ⟨inner', _, h⟩ := FM.bind_ok h
      have := pure_ok h
      simp at this
    · simp [throw, throwThe, MonadExceptOf.throw] at h

theorem takeLoop_le (S : Schema) (d : Dfa) (frontTy : TypeId) (openStart : Nat) (oec : Int) (total : Nat) :
    ∀ (rest : List Node) (taken q : Nat) (add : List Node) (r : Nat × Nat × List Node),
    takeLoop S d frontTy openStart oec total rest taken q add = .ok r → r.1 ≤ taken + rest.length
  | [], taken, q, add, r, h => by
    have := pure_ok h
    subst this
    simp
  | next :: rest, taken, q, add, r, h => by
    unfold takeLoop at h
    split at h
    · have := pure_ok h
      subst this
      simp
    · simp only at h
      split at h
      · obtain ⟨n, _, h⟩ := FM.bind_ok h
        have := takeLoop_le S d frontTy openStart oec total rest _ _ _ r h
        simp only [List.length_cons]
        omega
      · have := takeLoop_le S d frontTy openStart oec total rest _ _ _ r h
        simp only [List.length_cons]
        omega

theorem endsInElem_singleton {x : Node} (h : endsInElem [x] = true) : ∃ t a m k, x = .elem t a m k := by
  cases x with
  | elem t a m k => exact ⟨t, a, m, k, rfl⟩
  | text s m => simp [endsInElem, Node.isLeaf] at h
  | leaf t a m => simp [endsInElem, Node.isLeaf] at h

theorem contentAt_nil_succ (d : Nat) (r : List Node) : contentAt [] (d + 1) ≠ .ok r := by
  simp [contentAt, throw, throwThe, MonadExceptOf.throw]

theorem placeRest_termInv (u u' : Slice) (sd taken : Nat) (fragment : List Node)
    (hpar : (sd = 0 ∧ fragment = u.content) ∨
      (0 < sd ∧ ∃ p rest, contentAt u.content (sd - 1) = .ok (p :: rest) ∧ fragment = p.kids))
    (hsd : sd ≤ u.openStart) (htk : taken ≤ fragment.length) (hinv : TermInv u)
    (h : placeRest u sd taken (taken == fragment.length)
      (if taken == fragment.length then ((fsize fragment : Int) + sd) - ((fsize u.content : Int) - u.openEnd)
       else -1) = .ok u') : TermInv u' := by
  unfold placeRest at h
  cases hte : (taken == fragment.length) with
  | false =>
    rw [hte] at h
    simp only [Bool.not_false, if_true] at h
    have hlt : taken < fragment.length := by
      have : taken ≠ fragment.length := by simpa using hte
      omega
    obtain ⟨c, hc, h⟩ := FM.bind_ok h
    have := pure_ok h
    subst this
    rcases hinv with hi | ⟨hi, _⟩ | ⟨hi1, hi2, hi3⟩
    · rcases dropFromFragment_endsInElem sd _ _ taken hc hi with h0 | h1
      · exfalso
        subst h0
        obtain ⟨hd0, hdrop⟩ := dropFromFragment_nil sd _ taken hc
        rcases hpar with ⟨_, hf⟩ | ⟨hpos, _⟩
        · rw [← hf] at hdrop
          have := List.drop_eq_nil_iff.1 hdrop
          omega
        · omega
      · exact .inl h1
    · exfalso
      rcases hpar with ⟨_, hf⟩ | ⟨hpos, p, rest, hp, _⟩
      · rw [hf, hi] at hlt
        simp at hlt
      · rw [hi] at hp
        obtain ⟨k, hk⟩ : ∃ k, sd - 1 = k ∨ True := ⟨sd - 1, .inl rfl⟩
        cases hsd1 : sd - 1 with
        | zero => rw [hsd1] at hp; simp [contentAt, pure, Except.pure] at hp
        | succ k => rw [hsd1] at hp; exact contentAt_nil_succ k _ hp
    · have hsd0 : sd = 0 := by omega
      subst hsd0
      have := pure_ok hc
      subst this
      refine .inr (.inr ⟨?_, hi2, hi3⟩)
      intro n hn
      exact hi1 n (List.mem_of_mem_drop hn)
  | true =>
    rw [hte] at h
    simp only [Bool.not_true, Bool.false_eq_true, if_false, if_true] at h
    split at h
    · have := pure_ok h
      subst this
      exact .inr (.inl ⟨rfl, rfl⟩)
    · rename_i hsd0
      have hpos : 0 < sd := by
        rcases Nat.eq_zero_or_pos sd with h0 | h0
        · simp [h0] at hsd0
        · exact h0
      obtain ⟨c, hc, h⟩ := FM.bind_ok h
      have := pure_ok h
      subst this
      rcases hinv with hi | ⟨hi, _⟩ | ⟨_, hi2, _⟩
      · rcases dropFromFragment_endsInElem (sd - 1) _ _ 1 hc hi with h0 | h1
        · subst h0
          obtain ⟨hd0, hdrop⟩ := dropFromFragment_nil (sd - 1) _ 1 hc
          rcases hpar with ⟨h0, _⟩ | ⟨_, p, rest, hp, hf⟩
          · omega
          · rw [hd0] at hp
            have hcont := pure_ok hp
            rw [hcont] at hdrop
            simp only [List.drop_succ_cons, List.drop_zero] at hdrop
            subst hdrop
            rw [hcont] at hi
            obtain ⟨t, a, m, k, hpk⟩ := endsInElem_singleton hi
            subst hpk
            refine .inr (.inl ⟨rfl, ?_⟩)
            simp only [Node.kids] at hf
            simp only [hf, hcont, fsize, Node.size, Nat.add_zero]
            split
            · rename_i hlt
              omega
            · omega
        · exact .inl h1
      · exfalso
        rcases hpar with ⟨h0, _⟩ | ⟨_, p, rest, hp, _⟩
        · omega
        · rw [hi] at hp
          cases hsd1 : sd - 1 with
          | zero => rw [hsd1] at hp; simp [contentAt, pure, Except.pure] at hp
          | succ k => rw [hsd1] at hp; exact contentAt_nil_succ k _ hp
      · omega

theorem placeNodes_termInv (S : Schema) (st st' : FitState) (f : Fittable) (hinv : TermInv st.unplaced)
    (hf : findFittable S st = .ok (some f)) (h : placeNodes S st f = .ok st') : TermInv st'.unplaced := by
  obtain ⟨lvl, it, hsd, hlvl, hpar, _, _, _⟩ := findFittable_kind S st f hf
  obtain ⟨c1, c2, item, q0, q1, tk, _, _, _, _, _, htk, hrest, _⟩ := placeNodes_decomp S st st' f h
  have hfrag := fragment_eq_level hlvl hpar
  have hle := takeLoop_le S _ _ _ _ _ _ _ _ _ tk htk
  simp only [Nat.zero_add] at hle
  have hparR : (f.sliceDepth = 0 ∧ f.fragment st.unplaced = st.unplaced.content) ∨
      (0 < f.sliceDepth ∧ ∃ p rest, contentAt st.unplaced.content (f.sliceDepth - 1) = .ok (p :: rest) ∧
        f.fragment st.unplaced = p.kids) := by
    rw [hfrag]
    rcases sliceLevel_ok hlvl with ⟨h0, rfl⟩ | ⟨hpos, p, rest, hp, rfl⟩
    · exact .inl ⟨h0, rfl⟩
    · exact .inr ⟨hpos, p, rest, hp, rfl⟩
  exact placeRest_termInv st.unplaced st'.unplaced f.sliceDepth tk.1 (f.fragment st.unplaced) hparR hsd hle hinv hrest

theorem fitStep_empty (S : Schema) (st : FitState) (h1 : st.unplaced.content = [])
    (h2 : st.unplaced.openStart = 0) : fitStep S st = .ok st := by
  obtain ⟨placed, fr, pl⟩ := st
  obtain ⟨c, os, oe⟩ := placed
  simp only at h1 h2
  subst h1; subst h2
  have hscan : ∀ p2, scanSlice S p2 ⟨[], 0, oe⟩ fr 1 = .ok none := by
    intro p2
    unfold scanSlice
    have hl : sliceLevel ⟨[], 0, oe⟩ 0 = .ok (none, []) := rfl
    simp only [hl, bind, Except.bind, List.head?_nil]
    rw [scanFrontier_nothing S p2 0 fr fr.length (Nat.le_refl _)]
    rfl
  have hff : findFittable S ⟨⟨[], 0, oe⟩, fr, pl⟩ = .ok none := by
    unfold findFittable
    simp only [fittableStart, bind, Except.bind, pure, Except.pure, Nat.zero_add]
    rw [hscan false]
    simp only
    exact hscan true
  unfold fitStep
  simp only [hff, bind, Except.bind]
  rfl

theorem dropNode_termInv (st st' : FitState) (hinv : TermInv st.unplaced) (hopen : openMore st = .ok none)
    (h : dropNode st = .ok st') : TermInv st'.unplaced := by
  unfold dropNode at h
  simp only at h
  obtain ⟨inner, hinner, h⟩ := FM.bind_ok h
  split at h
  · rename_i hc
    simp only [Bool.and_eq_true, decide_eq_true_eq] at hc
    obtain ⟨c, hc', h⟩ := FM.bind_ok h
    have := pure_ok h
    subst this
    rcases hinv with hi | ⟨hi, _⟩ | ⟨_, hi2, _⟩
    · rcases dropFromFragment_endsInElem _ _ _ 1 hc' hi with h0 | h1
      · subst h0
        obtain ⟨hd0, hdrop⟩ := dropFromFragment_nil _ _ 1 hc'
        have hos : st.unplaced.openStart = 1 := by omega
        cases hcont : st.unplaced.content with
        | nil => rw [hcont] at hi; simp [endsInElem] at hi
        | cons p rest =>
          rw [hcont] at hdrop hi
          simp only [List.drop_succ_cons, List.drop_zero] at hdrop
          subst hdrop
          obtain ⟨t, a, m, k, hpk⟩ := endsInElem_singleton hi
          subst hpk
          rw [hos, hcont] at hinner
          have hk := pure_ok hinner
          simp only [Node.kids] at hk
          refine .inr (.inl ⟨rfl, ?_⟩)
          simp only [hos, ← hk, fsize, Node.size, Nat.add_zero]
          split
          · rfl
          · rename_i hn
            exfalso
            apply hn
            simp only [decide_eq_true_eq]
            omega
      · exact .inl h1
    · exfalso
      rw [hi] at hinner
      obtain ⟨k, hk⟩ : ∃ k, st.unplaced.openStart = k + 1 := ⟨st.unplaced.openStart - 1, by omega⟩
      rw [hk] at hinner
      exact contentAt_nil_succ k _ hinner
    · omega
  · rename_i hc
    obtain ⟨c, hc', h⟩ := FM.bind_ok h
    have := pure_ok h
    subst this
    rcases hinv with hi | ⟨hi, hoe⟩ | ⟨hi1, hi2, hi3⟩
    · rcases dropFromFragment_endsInElem _ _ _ 1 hc' hi with h0 | h1
      · exfalso
        subst h0
        obtain ⟨hd0, hdrop⟩ := dropFromFragment_nil _ _ 1 hc'
        cases hcont : st.unplaced.content with
        | nil => rw [hcont] at hi; simp [endsInElem] at hi
        | cons x rest =>
          rw [hcont] at hdrop hi
          simp only [List.drop_succ_cons, List.drop_zero] at hdrop
          subst hdrop
          obtain ⟨t, a, m, k, hxk⟩ := endsInElem_singleton hi
          subst hxk
          unfold openMore at hopen
          simp only [hd0, hcont, contentAt, bind, Except.bind, pure, Except.pure, Node.isLeaf,
            Bool.false_eq_true, if_false] at hopen
          simp at hopen
      · exact .inl h1
    · have hos : st.unplaced.openStart = 0 := by
        rcases Nat.eq_zero_or_pos st.unplaced.openStart with h0 | hpos
        · exact h0
        · exfalso
          rw [hi] at hinner
          obtain ⟨k, hk⟩ : ∃ k, st.unplaced.openStart = k + 1 := ⟨st.unplaced.openStart - 1, by omega⟩
          rw [hk] at hinner
          exact contentAt_nil_succ k _ hinner
      rw [hos, hi] at hc'
      have := pure_ok hc'
      subst this
      exact .inr (.inl ⟨rfl, hoe⟩)
    · rw [hi2] at hc'
      have := pure_ok hc'
      subst this
      refine .inr (.inr ⟨?_, hi2, hi3⟩)
      intro n hn
      exact hi1 n (List.mem_of_mem_drop hn)

theorem openMore_termInv (st st' : FitState) (hinv : TermInv st.unplaced) (h : openMore st = .ok (some st')) :
    TermInv st'.unplaced := by
  unfold openMore at h
  simp only at h
  obtain ⟨inner, hinner, h⟩ := FM.bind_ok h
  split at h
  · simp [pure, Except.pure] at h
  · rename_i first rest
    split at h
    · simp [pure, Except.pure] at h
    · rename_i hleaf
      have := pure_ok h
      simp only [Option.some.injEq] at this
      subst this
      rcases hinv with hi | ⟨hi, _⟩ | ⟨hi1, hi2, _⟩
      · exact .inl hi
      · exfalso
        rw [hi] at hinner
        cases hos : st.unplaced.openStart with
        | zero => rw [hos] at hinner; simp [contentAt, pure, Except.pure] at hinner
        | succ k => rw [hos] at hinner; exact contentAt_nil_succ k _ hinner
      · exfalso
        rw [hi2] at hinner
        have := pure_ok hinner
        exact hleaf (hi1 first (by rw [this]; simp))

/-- **the invariant is preserved by every iteration of the loop** -/
theorem fitStep_termInv (S : Schema) (st st' : FitState) (hinv : TermInv st.unplaced)
    (h : fitStep S st = .ok st') : TermInv st'.unplaced := by
  unfold fitStep at h
  obtain ⟨f, hf, h⟩ := FM.bind_ok h
  cases f with
  | some f => exact placeNodes_termInv S st st' f hinv hf h
  | none =>
    simp only at h
    obtain ⟨o, ho, h⟩ := FM.bind_ok h
    cases o with
    | some s2 =>
      have := pure_ok h
      subst this
      exact openMore_termInv st s2 hinv ho
    | none => exact dropNode_termInv st st' hinv ho h

theorem reach_termInv (S : Schema) {st st' : FitState} (hr : FitReach S st st') (hinv : TermInv st.unplaced) :
    TermInv st'.unplaced := by
  induction hr with
  | refl st => exact hinv
  | step _ hstep _ ih => exact ih (fitStep_termInv S _ _ hinv hstep)

/-- **`fitLoop_terminates`** — for a slice whose top-level content ends in a non-leaf node or
    consists of closed leaf/text nodes only, the loop of `fit` does not run out of the fuel
    `fitMeasure … + 1`, nor of any larger amount -/
theorem fitLoop_terminates (S : Schema) (hdet : DetS S) (st : FitState) (hg : st.unplaced.termGuard = true)
    (fuel : Nat) (hfuel : fitMeasure st.unplaced (cpot S st) < fuel) :
    fitLoop S fuel st ≠ .error .outOfFuel := by
  intro h
  obtain ⟨st', hr, hs⟩ := fitLoop_outOfFuel_reach S hdet fuel st hfuel h
  exact (reach_termInv S hr (TermInv.of_guard hg)).not_stuck hs

/-- the fuel `replaceStep` passes (`fitFuel`, a function of the slice alone) is above the measure of
    the initial state, whatever the frontier -/
theorem fitFuel_enough (S : Schema) (st : FitState) :
    fitMeasure st.unplaced (cpot S st) < fitFuel S st.unplaced := by
  unfold fitFuel fitMeasure
  have := cpot_le S st
  omega

end PM
