/-
  Proofs/MapCompose.lean — `append_mapping`, `append_mapping_inverted`, `invert`, `slice` map like the
  composition of their parts (helper lemmas for Props/C08.lean; built on Proofs/MapAlgebra.lean).
-/
import Proofs.MapAlgebra
namespace PM

/-! ### small facts -/

theorem run_recover_none (mp : Mapping) (a : Int) : ∀ (n i : Nat) (p : Int) (d : Nat) (r : MapResult),
    mp.to - i = n → mp.run a i p d = some r → r.recover = none := by
  intro n
  induction n using Nat.strongRecOn with
  | ind n ih =>
    intro i p d r hn h
    by_cases hi : i < mp.to
    · rw [run_step mp a i p d hi] at h
      cases hs : mstep mp a i p d with
      | none => simp [hs] at h
      | some t =>
        obtain ⟨i', p', d'⟩ := t
        simp only [hs] at h
        have := (mstep_gt hs).1
        exact ih (mp.to - i') (by omega) i' p' d' r rfl h
    · rw [run_done mp a i p d hi] at h
      cases h; rfl

/-- "first `r1`, then `f` on the position it produced; deletion flags OR-ed" -/
def thenRes (r1 : Option MapResult) (f : Int → Option MapResult) : Option MapResult :=
  r1.bind (fun x => (f x.pos).map (fun y => { pos := y.pos, delInfo := x.delInfo ||| y.delInfo }))

theorem orDel_eq (d : Nat) (r : MapResult) (h : r.recover = none) :
    MapResult.orDel d r = { pos := r.pos, delInfo := d ||| r.delInfo } := by
  cases r; simp only [MapResult.orDel] at *; subst h; rfl

theorem jumpT_shift (R m2 : Mapping) (L j : Nat) (hto : R.to = L + m2.to)
    (h : R.getMirror (L + j) = (m2.getMirror j).map (L + ·)) :
    jumpT R (L + j) = (jumpT m2 j).map (L + ·) := by
  unfold jumpT
  rw [h, hto]
  cases m2.getMirror j with
  | none => rfl
  | some c =>
    simp only [Option.map_some]
    by_cases hc : c > j ∧ c < m2.to
    · have : L + c > L + j ∧ L + c < L + m2.to := by omega
      simp [hc, this]
    · have : ¬ (L + c > L + j ∧ L + c < L + m2.to) := by omega
      simp only [hc, this, if_false, Option.map_none]

theorem jumpT_same (R m1 : Mapping) (j : Nat) (hto : R.to = m1.to) (h : R.getMirror j = m1.getMirror j) :
    jumpT R j = jumpT m1 j := by
  unfold jumpT; rw [h, hto]

/-- the walk reads only `maps`, `mirror` and `to` (not `from_`) -/
theorem run_eq_of (mp mp' : Mapping) (hmaps : mp'.maps = mp.maps) (hmir : mp'.mirror = mp.mirror)
    (hto : mp'.to = mp.to) (a : Int) (i : Nat) (p : Int) (d : Nat) :
    mp'.run a i p d = mp.run a i p d := by
  have := run_congr mp mp' a 0 0 (by rw [hto, Nat.zero_add])
    (fun j _ _ => by rw [Nat.zero_add, hmaps])
    (fun j _ _ => by
      rw [Nat.zero_add, jumpT_same mp' mp j hto (by unfold Mapping.getMirror; rw [hmir])]
      cases jumpT mp j <;> simp)
    (mp.to - i) i p d rfl (Nat.zero_le _)
  rwa [Nat.zero_add] at this

/-! ### the abstract composition law -/

/-- a mapping `R` whose first `L` maps and mirror entries are those of `m1` (no pair of `m1` leaving
    `[0, L)`) and whose remaining maps and mirror entries are those of `m2` shifted by `L` walks like
    `m1` followed by `m2` -/
theorem run_compose (R m1 m2 : Mapping) (a : Int) (L : Nat)
    (hto : R.to = L + m2.to) (hm1to : m1.to = L)
    (hmaps1 : ∀ j, j < L → R.maps[j]? = m1.maps[j]?)
    (hmir1 : ∀ j, j < L → R.getMirror j = m1.getMirror j)
    (hin1 : ∀ j c, j < L → m1.getMirror j = some c → c < L)
    (hmaps2 : ∀ j, j < m2.to → R.maps[L + j]? = m2.maps[j]?)
    (hmir2 : ∀ j, j < m2.to → R.getMirror (L + j) = (m2.getMirror j).map (L + ·))
    (i : Nat) (hi : i ≤ L) (p : Int) (del : Nat) :
    R.run a i p del = (m1.run a i p del).bind (fun r => m2.run a 0 r.pos r.delInfo) := by
  have hns : ∀ j c, j < L → jumpT R j = some c → c < L := by
    intro j c hj hjt
    obtain ⟨g, _, _⟩ := jumpT_some hjt
    rw [hmir1 j hj] at g
    exact hin1 j c hj g
  rw [run_split R a L (by omega) hns (L - i) i p del rfl hi]
  have h1 : (R.upTo L).run a i p del = m1.run a i p del := by
    have := run_congr m1 (R.upTo L) a 0 0 (by simp [Mapping.upTo, hm1to])
      (fun j _ hj => by rw [Nat.zero_add]; exact hmaps1 j (by omega))
      (fun j _ hj => by
        rw [Nat.zero_add]
        have e : jumpT (R.upTo L) j = jumpT m1 j :=
          jumpT_same (R.upTo L) m1 j (by simp [Mapping.upTo, hm1to]) (hmir1 j (by omega))
        rw [e]; cases jumpT m1 j <;> simp)
      (m1.to - i) i p del rfl (Nat.zero_le _)
    rwa [Nat.zero_add] at this
  rw [h1]
  congr 1
  funext r
  have := run_congr m2 R a L 0 hto (fun j _ hj => hmaps2 j hj)
    (fun j _ hj => jumpT_shift R m2 L j hto (hmir2 j hj)) (m2.to - 0) 0 r.pos r.delInfo rfl (Nat.le_refl _)
  rwa [Nat.add_zero] at this

/-- … in terms of `map_result`: `R` maps like `m1`, then `m2`, deletion flags OR-ed -/
theorem mapResult_compose (R m1 m2 : Mapping) (a : Int) (L : Nat)
    (hto : R.to = L + m2.to) (hm1to : m1.to = L)
    (hmaps1 : ∀ j, j < L → R.maps[j]? = m1.maps[j]?)
    (hmir1 : ∀ j, j < L → R.getMirror j = m1.getMirror j)
    (hin1 : ∀ j c, j < L → m1.getMirror j = some c → c < L)
    (hmaps2 : ∀ j, j < m2.to → R.maps[L + j]? = m2.maps[j]?)
    (hmir2 : ∀ j, j < m2.to → R.getMirror (L + j) = (m2.getMirror j).map (L + ·))
    (hfrom : R.from_ = m1.from_) (hf1 : m1.from_ ≤ L) (hf2 : m2.from_ = 0) (p : Int) :
    R.mapResult p a = thenRes (m1.mapResult p a) (fun q => m2.mapResult q a) := by
  rw [mapResult_eq_run, hfrom,
    run_compose R m1 m2 a L hto hm1to hmaps1 hmir1 hin1 hmaps2 hmir2 m1.from_ hf1 p 0]
  unfold thenRes
  rw [mapResult_eq_run]
  congr 1
  funext r
  have e : m2.mapResult r.pos a = m2.run a 0 r.pos 0 := by rw [mapResult_eq_run, hf2]
  simp only [e]
  rw [run_del0]
  cases h : m2.run a 0 r.pos 0 with
  | none => rfl
  | some y =>
    simp only [Option.map_some]
    rw [orDel_eq _ _ (run_recover_none m2 a _ 0 r.pos 0 y rfl h)]

/-! ### the builders: maps and selected window -/

theorem appendMapping_maps (mp other : Mapping) : (mp.appendMapping other).maps = mp.maps ++ other.maps := by
  have := (appendMapping_fold mp other other.maps.length (Nat.le_refl _)).1
  rw [List.take_length] at this
  exact this

theorem appendMappingInverted_maps (mp other : Mapping) :
    (mp.appendMappingInverted other).maps = mp.maps ++ other.maps.reverse.map StepMap.invert := by
  have := (appendMappingInverted_fold other (mp.maps.length + other.maps.length)
    other.maps.length (Nat.le_refl _) mp mp.maps.length rfl).1
  rw [List.take_length] at this
  exact this

theorem invert_maps (mp : Mapping) : mp.invert.maps = mp.maps.reverse.map StepMap.invert := by
  unfold Mapping.invert; rw [appendMappingInverted_maps]; rfl

theorem invert_from (mp : Mapping) : mp.invert.from_ = 0 :=
  (appendMappingInverted_mirror ({} : Mapping) mp).2.1

theorem invert_to (mp : Mapping) : mp.invert.to = mp.maps.length := by
  have := (appendMappingInverted_mirror ({} : Mapping) mp).2.2
  unfold Mapping.invert
  rw [this]
  by_cases h0 : mp.maps.length = 0 <;> simp [h0]

theorem invert_getMirror (mp : Mapping) (hsym : MirrorSym mp) (hrng : MirrorInRange mp)
    (j : Nat) (hj : j < mp.maps.length) :
    mp.invert.getMirror (mp.maps.length - 1 - j) =
      (mp.getMirror j).map (fun k => mp.maps.length - 1 - k) := by
  have := appendMappingInverted_getMirror_new ({} : Mapping) mp rfl (by simp) hsym hrng j hj
  simpa [Mapping.invert] using this

/-! ### `append_mapping` -/

/-- the receiver read from its `from_` to the end of its maps (what `append_mapping` makes of it) -/
def Mapping.toEnd (m : Mapping) : Mapping := m.slice m.from_ none
/-- a mapping read as a whole (what `append_mapping` takes from the other mapping) -/
def Mapping.whole (m : Mapping) : Mapping := m.slice 0 none

theorem appendMapping_mapResult (m n : Mapping) (hne : n.maps ≠ [])
    (hev : m.mirror.length % 2 = 0) (hin : ∀ x ∈ m.mirror, x < m.maps.length)
    (hmr : MirrorInRange m) (hsym : MirrorSym n) (hrng : MirrorInRange n)
    (hf : m.from_ ≤ m.maps.length) (p a : Int) :
    (m.appendMapping n).mapResult p a = thenRes (m.toEnd.mapResult p a) (fun q => n.whole.mapResult q a) := by
  have hlen : n.maps.length ≠ 0 := fun h => hne (List.eq_nil_of_length_eq_zero h)
  obtain ⟨_, hfrom, hto⟩ := appendMapping_mirror m n
  rw [if_neg hlen] at hto
  apply mapResult_compose (m.appendMapping n) m.toEnd n.whole a m.maps.length
  · rw [hto]; rfl
  · rfl
  · intro j hj
    rw [appendMapping_maps, List.getElem?_append_left hj]; rfl
  · intro j hj
    exact appendMapping_getMirror_old m n hev j hj
  · intro j c hj hc
    exact hmr j c hj hc
  · intro j hj
    rw [appendMapping_maps, List.getElem?_append_right (by omega)]
    simp only [Nat.add_sub_cancel_left]; rfl
  · intro j hj
    exact appendMapping_getMirror_new m n hev hin hsym hrng j hj
  · rw [hfrom]; rfl
  · exact hf
  · rfl

theorem appendMappingInverted_mapResult (m n : Mapping) (hne : n.maps ≠ [])
    (hev : m.mirror.length % 2 = 0) (hin : ∀ x ∈ m.mirror, x < m.maps.length)
    (hmr : MirrorInRange m) (hsym : MirrorSym n) (hrng : MirrorInRange n)
    (hf : m.from_ ≤ m.maps.length) (p a : Int) :
    (m.appendMappingInverted n).mapResult p a =
      thenRes (m.toEnd.mapResult p a) (fun q => n.invert.mapResult q a) := by
  have hlen : n.maps.length ≠ 0 := fun h => hne (List.eq_nil_of_length_eq_zero h)
  obtain ⟨_, hfrom, hto⟩ := appendMappingInverted_mirror m n
  rw [if_neg hlen] at hto
  apply mapResult_compose (m.appendMappingInverted n) m.toEnd n.invert a m.maps.length
  · rw [hto, invert_to]
  · rfl
  · intro j hj
    rw [appendMappingInverted_maps, List.getElem?_append_left hj]; rfl
  · intro j hj
    exact appendMappingInverted_getMirror_old m n hev hrng j hj
  · intro j c hj hc
    exact hmr j c hj hc
  · intro j hj
    rw [appendMappingInverted_maps, List.getElem?_append_right (by omega), invert_maps]
    simp only [Nat.add_sub_cancel_left]
  · intro j hj
    rw [invert_to] at hj
    have e : j = n.maps.length - 1 - (n.maps.length - 1 - j) := by omega
    have h1 := appendMappingInverted_getMirror_new m n hev hin hsym hrng (n.maps.length - 1 - j) (by omega)
    have h2 := invert_getMirror n hsym hrng (n.maps.length - 1 - j) (by omega)
    rw [← e] at h1 h2
    rw [h1, h2]
    cases n.getMirror (n.maps.length - 1 - j) <;> simp
  · rw [hfrom]; rfl
  · exact hf
  · exact invert_from n

/-- the receiver's `from_` lies at or beyond its last map: the walk starts inside the appended part -/
theorem appendMapping_mapResult_late (m n : Mapping) (hne : n.maps ≠ [])
    (hev : m.mirror.length % 2 = 0) (hin : ∀ x ∈ m.mirror, x < m.maps.length)
    (hsym : MirrorSym n) (hrng : MirrorInRange n)
    (hf : m.maps.length ≤ m.from_) (p a : Int) :
    (m.appendMapping n).mapResult p a = (n.slice (m.from_ - m.maps.length)).mapResult p a := by
  have hlen : n.maps.length ≠ 0 := fun h => hne (List.eq_nil_of_length_eq_zero h)
  obtain ⟨_, hfrom, hto⟩ := appendMapping_mirror m n
  rw [if_neg hlen] at hto
  rw [mapResult_eq_run, mapResult_eq_run, hfrom]
  have e : m.from_ = m.maps.length + (m.from_ - m.maps.length) := by omega
  have := run_congr n.whole (m.appendMapping n) a m.maps.length 0 (by rw [hto]; rfl)
    (fun j _ hj => by
      rw [appendMapping_maps, List.getElem?_append_right (by omega)]
      simp only [Nat.add_sub_cancel_left]; rfl)
    (fun j _ hj => jumpT_shift (m.appendMapping n) n.whole m.maps.length j (by rw [hto]; rfl)
      (appendMapping_getMirror_new m n hev hin hsym hrng j hj))
    (n.whole.to - (m.from_ - m.maps.length)) (m.from_ - m.maps.length) p 0 rfl (Nat.zero_le _)
  rw [← e] at this
  rw [this]
  exact run_eq_of (n.slice (m.from_ - m.maps.length)) n.whole rfl rfl rfl _ _ _ _

theorem appendMappingInverted_mapResult_late (m n : Mapping) (hne : n.maps ≠ [])
    (hev : m.mirror.length % 2 = 0) (hin : ∀ x ∈ m.mirror, x < m.maps.length)
    (hsym : MirrorSym n) (hrng : MirrorInRange n)
    (hf : m.maps.length ≤ m.from_) (p a : Int) :
    (m.appendMappingInverted n).mapResult p a =
      (n.invert.slice (m.from_ - m.maps.length) (some n.invert.to)).mapResult p a := by
  have hlen : n.maps.length ≠ 0 := fun h => hne (List.eq_nil_of_length_eq_zero h)
  obtain ⟨_, hfrom, hto⟩ := appendMappingInverted_mirror m n
  rw [if_neg hlen] at hto
  rw [mapResult_eq_run, mapResult_eq_run, hfrom]
  have e : m.from_ = m.maps.length + (m.from_ - m.maps.length) := by omega
  have := run_congr n.invert (m.appendMappingInverted n) a m.maps.length 0 (by rw [hto, invert_to])
    (fun j _ hj => by
      rw [appendMappingInverted_maps, List.getElem?_append_right (by omega), invert_maps]
      simp only [Nat.add_sub_cancel_left])
    (fun j _ hj => jumpT_shift (m.appendMappingInverted n) n.invert m.maps.length j (by rw [hto, invert_to])
      (by
        rw [invert_to] at hj
        have e' : j = n.maps.length - 1 - (n.maps.length - 1 - j) := by omega
        have h1 := appendMappingInverted_getMirror_new m n hev hin hsym hrng (n.maps.length - 1 - j) (by omega)
        have h2 := invert_getMirror n hsym hrng (n.maps.length - 1 - j) (by omega)
        rw [← e'] at h1 h2
        rw [h1, h2]
        cases n.getMirror (n.maps.length - 1 - j) <;> simp))
    (n.invert.to - (m.from_ - m.maps.length)) (m.from_ - m.maps.length) p 0 rfl (Nat.zero_le _)
  rw [← e] at this
  rw [this]
  exact run_eq_of (n.invert.slice (m.from_ - m.maps.length) (some n.invert.to)) n.invert rfl rfl rfl _ _ _ _

/-! ### mirror-less mappings: folds -/

theorem delFold_or : ∀ (ms : List StepMap) (a p : Int) (d : Nat),
    delFold ms a p d = d ||| delFold ms a p 0
  | [], _, _, d => by simp [delFold]
  | m :: ms, a, p, d => by
    rw [delFold, delFold, delFold_or ms a _ (d ||| _), delFold_or ms a _ (0 ||| _)]
    simp [Nat.or_assoc]

theorem delFold_append : ∀ (xs ys : List StepMap) (a p : Int) (d : Nat),
    delFold (xs ++ ys) a p d = delFold ys a (mapFold xs a p) (delFold xs a p d)
  | [], _, _, _, _ => rfl
  | x :: xs, ys, a, p, d => by
    rw [List.cons_append, delFold, delFold, mapFold_cons, delFold_append xs ys]

/-- a mirror-less mapping: `map_result` is the two folds over the selected window -/
theorem mapResult_plain (mp : Mapping) (hm : mp.mirror = []) (hto : mp.to ≤ mp.maps.length) (p a : Int) :
    mp.mapResult p a =
      some { pos := mapFold ((mp.maps.take mp.to).drop mp.from_) a p,
             delInfo := delFold ((mp.maps.take mp.to).drop mp.from_) a p 0 } :=
  mappingMapAux_plain_full mp hm hto a _ _ _ _ (by omega)

theorem map_plain (mp : Mapping) (hm : mp.mirror = []) (hto : mp.to ≤ mp.maps.length) (p a : Int) :
    mp.map p a = some (mapFold ((mp.maps.take mp.to).drop mp.from_) a p) := by
  simp [Mapping.map, hm, hto, Mapping.mapPlain, mapFold]

/-- `Mapping.map` is the position of `Mapping.map_result` whenever the latter does not run off the maps -/
theorem map_eq_mapResult (mp : Mapping) (hto : mp.to ≤ mp.maps.length) (p a : Int) :
    mp.map p a = (mp.mapResult p a).map (·.pos) := by
  by_cases hm : mp.mirror = []
  · rw [map_plain mp hm hto, mapResult_plain mp hm hto]; rfl
  · have : mp.mirror.isEmpty = false := by
      cases h : mp.mirror with
      | nil => exact absurd h hm
      | cons _ _ => rfl
    simp [Mapping.map, this]

theorem carriedPairs_nil (other : Mapping) (h : other.mirror = []) (s n : Nat) :
    carriedPairs other s n = [] := by
  unfold carriedPairs
  rw [List.filterMap_eq_nil_iff]
  intro i _
  simp [carriedPair, Mapping.getMirror, h, getMirrorAux]

theorem invertedPairs_nil (other : Mapping) (h : other.mirror = []) (s t n : Nat) :
    invertedPairs other s t n = [] := by
  unfold invertedPairs
  rw [List.filterMap_eq_nil_iff]
  intro i _
  simp [invertedPair, Mapping.getMirror, h, getMirrorAux]

theorem appendMapping_mirror_nil (m n : Mapping) (hm : m.mirror = []) (hn : n.mirror = []) :
    (m.appendMapping n).mirror = [] := by
  rw [(appendMapping_mirror m n).1, hm, carriedPairs_nil n hn]; rfl

theorem appendMappingInverted_mirror_nil (m n : Mapping) (hm : m.mirror = []) (hn : n.mirror = []) :
    (m.appendMappingInverted n).mirror = [] := by
  rw [(appendMappingInverted_mirror m n).1, hm, invertedPairs_nil n hn]; rfl

theorem invert_mirror_nil (m : Mapping) (hm : m.mirror = []) : m.invert.mirror = [] :=
  appendMappingInverted_mirror_nil {} m rfl hm

/-- mirror-less `append_mapping`: the receiver's maps from its `from_` on, then **all** maps of the
    other mapping (its `from_`/`to` are ignored), folded left to right -/
theorem appendMapping_mapResult_plain (m n : Mapping) (hm : m.mirror = []) (hn : n.mirror = [])
    (hne : n.maps ≠ []) (p a : Int) :
    (m.appendMapping n).mapResult p a =
      some { pos := mapFold ((m.maps ++ n.maps).drop m.from_) a p,
             delInfo := delFold ((m.maps ++ n.maps).drop m.from_) a p 0 } := by
  have hlen : n.maps.length ≠ 0 := fun h => hne (List.eq_nil_of_length_eq_zero h)
  obtain ⟨_, hfrom, hto⟩ := appendMapping_mirror m n
  rw [if_neg hlen] at hto
  rw [mapResult_plain _ (appendMapping_mirror_nil m n hm hn) (by rw [hto, appendMapping_maps]; simp),
    hto, hfrom, appendMapping_maps]
  have : (m.maps ++ n.maps).take (m.maps.length + n.maps.length) = m.maps ++ n.maps := by
    rw [List.take_of_length_le (by simp)]
  rw [this]

theorem appendMappingInverted_mapResult_plain (m n : Mapping) (hm : m.mirror = []) (hn : n.mirror = [])
    (hne : n.maps ≠ []) (p a : Int) :
    (m.appendMappingInverted n).mapResult p a =
      some { pos := mapFold ((m.maps ++ n.maps.reverse.map StepMap.invert).drop m.from_) a p,
             delInfo := delFold ((m.maps ++ n.maps.reverse.map StepMap.invert).drop m.from_) a p 0 } := by
  have hlen : n.maps.length ≠ 0 := fun h => hne (List.eq_nil_of_length_eq_zero h)
  obtain ⟨_, hfrom, hto⟩ := appendMappingInverted_mirror m n
  rw [if_neg hlen] at hto
  rw [mapResult_plain _ (appendMappingInverted_mirror_nil m n hm hn)
    (by rw [hto, appendMappingInverted_maps]; simp),
    hto, hfrom, appendMappingInverted_maps]
  have : (m.maps ++ n.maps.reverse.map StepMap.invert).take (m.maps.length + n.maps.length) =
      m.maps ++ n.maps.reverse.map StepMap.invert := by
    rw [List.take_of_length_le (by simp)]
  rw [this]

theorem mapFold_reverse_invert : ∀ (ms : List StepMap) (a p : Int),
    mapFold (ms.reverse.map StepMap.invert) a p = unwind a ms p
  | [], _, _ => rfl
  | m :: ms, a, p => by
    rw [List.reverse_cons, List.map_append, mapFold_append, mapFold_reverse_invert ms]
    rfl

theorem invert_mapResult_plain (m : Mapping) (hm : m.mirror = []) (p a : Int) :
    m.invert.mapResult p a =
      some { pos := unwind a m.maps p,
             delInfo := delFold (m.maps.reverse.map StepMap.invert) a p 0 } := by
  rw [mapResult_plain _ (invert_mirror_nil m hm) (by rw [invert_to, invert_maps]; simp),
    invert_to, invert_from, invert_maps, List.drop_zero,
    List.take_of_length_le (by simp), mapFold_reverse_invert]

/-! ### slices -/

/-- a slice never consults the maps at or after its upper bound -/
theorem slice_upper (mp : Mapping) (a' b : Nat) (p a : Int) :
    (mp.slice a' (some b)).mapResult p a =
      (({ mp with maps := mp.maps.take b }).slice a' (some b)).mapResult p a := by
  rw [mapResult_eq_run, mapResult_eq_run]
  have := run_congr (mp.slice a' (some b)) (({ mp with maps := mp.maps.take b }).slice a' (some b)) a 0 0
    (by simp [Mapping.slice])
    (fun j _ hj => by
      simp only [Mapping.slice, Option.getD_some] at hj ⊢
      rw [Nat.zero_add, List.getElem?_take_of_lt hj])
    (fun j _ _ => by
      rw [Nat.zero_add]
      have : jumpT (({ mp with maps := mp.maps.take b }).slice a' (some b)) j = jumpT (mp.slice a' (some b)) j := rfl
      rw [this]; cases jumpT (mp.slice a' (some b)) j <;> simp)
    ((mp.slice a' (some b)).to - a') a' p 0 rfl (Nat.zero_le _)
  rw [Nat.zero_add] at this
  exact this.symm

/-- a slice that follows no mirror jump (no registered pair lies completely inside it) is the plain
    composition of the maps `a' ≤ i < b` -/
theorem slice_nojump (mp : Mapping) (a' b : Nat) (hb : b ≤ mp.maps.length)
    (hno : ∀ j, a' ≤ j → j < b → jumpT (mp.slice a' (some b)) j = none) (p a : Int) :
    (mp.slice a' (some b)).mapResult p a =
      some { pos := mapFold ((mp.maps.take b).drop a') a p,
             delInfo := delFold ((mp.maps.take b).drop a') a p 0 } := by
  let pl : Mapping := { maps := mp.maps, mirror := [], from_ := a', to := b }
  have h1 : (mp.slice a' (some b)).mapResult p a = pl.mapResult p a := by
    rw [mapResult_eq_run, mapResult_eq_run]
    have := run_congr pl (mp.slice a' (some b)) a 0 a' (by simp [Mapping.slice, pl])
      (fun j _ _ => by rw [Nat.zero_add]; rfl)
      (fun j h1 h2 => by
        rw [Nat.zero_add, hno j h1 h2]
        simp [jumpT, Mapping.getMirror, pl, getMirrorAux])
      (pl.to - a') a' p 0 rfl (Nat.le_refl _)
    rw [Nat.zero_add] at this
    exact this
  rw [h1, mapResult_plain pl rfl hb]

/-- a slice splits at an index that no followed pair straddles -/
theorem slice_split (mp : Mapping) (a' L b : Nat) (h1 : a' ≤ L) (h2 : L ≤ b)
    (hns : ∀ j c, j < L → mp.getMirror j = some c → j < c → c < b → c < L) (p a : Int) :
    (mp.slice a' (some b)).mapResult p a =
      thenRes ((mp.slice a' (some L)).mapResult p a) (fun q => (mp.slice L (some b)).mapResult q a) := by
  rw [mapResult_eq_run]
  have hs := run_split (mp.slice a' (some b)) a L h2 (fun j c hj hjt => by
    obtain ⟨g, g1, g2⟩ := jumpT_some hjt
    exact hns j c hj g g1 g2) (L - a') a' p 0 rfl h1
  have e1 : (mp.slice a' (some b)).from_ = a' := rfl
  rw [e1, hs]
  unfold thenRes
  congr 1
  funext r
  have e2 : (mp.slice a' (some b)).run a L r.pos r.delInfo =
      (mp.slice L (some b)).run a L r.pos r.delInfo :=
    run_eq_of (mp.slice L (some b)) (mp.slice a' (some b)) rfl rfl rfl _ _ _ _
  rw [e2, run_del0]
  have e3 : (mp.slice L (some b)).run a L r.pos 0 = (mp.slice L (some b)).mapResult r.pos a := rfl
  rw [e3]
  show Option.map (MapResult.orDel r.delInfo) ((mp.slice L (some b)).mapResult r.pos a) =
    Option.map (fun y => ({ pos := y.pos, delInfo := r.delInfo ||| y.delInfo } : MapResult))
      ((mp.slice L (some b)).mapResult r.pos a)
  cases h : (mp.slice L (some b)).mapResult r.pos a with
  | none => rfl
  | some y =>
    simp only [Option.map_some]
    rw [orDel_eq _ _ (run_recover_none (mp.slice L (some b)) a _ L r.pos 0 y rfl h)]

/-! ### one mirrored pair inside a longer chain -/

/-- **the mirror shortcut**: at map `i`, when the position gets a recover value and map `j` (after
    `i`, before the upper bound) is registered as its mirror, the walk continues after `j` with the
    recovered position; maps `i … j` leave no trace, not even deletion flags -/
theorem slice_jump (mp : Mapping) (i j b : Nat) (sm cm : StepMap) (q a : Int) (rv : Nat × Int) (q' : Int)
    (hsm : mp.maps[i]? = some sm) (hg : mp.getMirror i = some j) (hij : i < j) (hjb : j < b)
    (hcm : mp.maps[j]? = some cm) (hrv : (sm.mapResult q a).recover = some rv)
    (hq' : cm.recover rv = some q') :
    (mp.slice i (some b)).mapResult q a = (mp.slice (j + 1) (some b)).mapResult q' a := by
  rw [mapResult_eq_run, mapResult_eq_run]
  have e1 : (mp.slice i (some b)).from_ = i := rfl
  have e2 : (mp.slice (j + 1) (some b)).from_ = j + 1 := rfl
  rw [e1, e2, run_step _ a i q 0 (show i < (mp.slice i (some b)).to by simp [Mapping.slice]; omega)]
  have hj : jumpT (mp.slice i (some b)) i = some j :=
    jumpT_of (by exact hg) hij (by simp [Mapping.slice]; omega)
  have hs : mstep (mp.slice i (some b)) a i q 0 = some (j + 1, q', 0) := by
    unfold mstep
    have m1 : (mp.slice i (some b)).maps = mp.maps := rfl
    rw [m1, hsm]
    simp only [hrv, hj, hcm, hq']
  rw [hs]
  exact run_eq_of (mp.slice (j + 1) (some b)) (mp.slice i (some b)) rfl rfl rfl _ _ _ _

/-- … and when there is no recover value, or no mirror to jump to inside the slice, map `i` is
    applied and the walk goes on with the next map -/
theorem slice_nojump_step (mp : Mapping) (i b : Nat) (sm : StepMap) (q a : Int) (hib : i < b)
    (hsm : mp.maps[i]? = some sm)
    (h : (sm.mapResult q a).recover = none ∨ ∀ c, mp.getMirror i = some c → ¬ (c > i ∧ c < b)) :
    (mp.slice i (some b)).mapResult q a =
      thenRes (some (sm.mapResult q a)) (fun q' => (mp.slice (i + 1) (some b)).mapResult q' a) := by
  rw [mapResult_eq_run]
  have e1 : (mp.slice i (some b)).from_ = i := rfl
  rw [e1, run_step _ a i q 0 (show i < (mp.slice i (some b)).to by simp [Mapping.slice]; omega)]
  have hs : mstep (mp.slice i (some b)) a i q 0 =
      some (i + 1, (sm.mapResult q a).pos, 0 ||| (sm.mapResult q a).delInfo) := by
    unfold mstep
    have m1 : (mp.slice i (some b)).maps = mp.maps := rfl
    rw [m1, hsm]
    simp only []
    split
    · next rv corr hr hj =>
      rcases h with h | h
      · rw [h] at hr; cases hr
      · obtain ⟨g, g1, g2⟩ := jumpT_some hj
        exact absurd ⟨g1, g2⟩ (h corr g)
    · rfl
  rw [hs]
  simp only [thenRes, Option.bind_some, Nat.zero_or]
  have e2 : (mp.slice i (some b)).run a (i + 1) (sm.mapResult q a).pos (sm.mapResult q a).delInfo =
      (mp.slice (i + 1) (some b)).run a (i + 1) (sm.mapResult q a).pos (sm.mapResult q a).delInfo :=
    run_eq_of (mp.slice (i + 1) (some b)) (mp.slice i (some b)) rfl rfl rfl _ _ _ _
  rw [e2, run_del0]
  have e3 : (mp.slice (i + 1) (some b)).run a (i + 1) (sm.mapResult q a).pos 0 =
      (mp.slice (i + 1) (some b)).mapResult (sm.mapResult q a).pos a := rfl
  rw [e3]
  cases hh : (mp.slice (i + 1) (some b)).mapResult (sm.mapResult q a).pos a with
  | none => rfl
  | some y =>
    simp only [Option.map_some]
    rw [orDel_eq _ _ (run_recover_none (mp.slice (i + 1) (some b)) a _ (i + 1) _ 0 y rfl hh)]

end PM
