/-
  Proofs/OpHistory.lean — histories built through the transform API (C04, work package `wk-c04ops`).

  `Op` lists the modelled operations of `Transform` with their arguments; `Tr.runOp` runs one of them
  on a transform (a composition of the step-emitting models, all tied to the code elsewhere:
  PM/StructEdit.lean builders, PM/MarkPlan.lean, PM/TypePlan.lean / TypePlanFit.lean planners with
  the Fitter model plugged in, followed by `Transform.step`); `Tr.runOps` a list of operations that
  all went through.  Nothing new is modelled here.

  `Tr.Grows`: every operation only ever appends successfully applied steps (`Transform.step`), so
  what an operation appends to the recorded history replays (`Grows.hist`).
-/
import PM.StructEdit
import PM.TypePlanFit
import Proofs.HistoryUndo
import Proofs.MarkHistory
namespace PM

/-- the modelled operations of `Transform` -/
inductive Op where
  /-- `Transform.step(step)` with a step built by the caller (any of the eight kinds) -/
  | step (s : Step)
  /-- `Transform.replace(from, to, slice)` (`delete`, `insert`, `replace_with` are instances) -/
  | replace (f t : Nat) (sl : Slice)
  /-- `add_mark` / `remove_mark` -/
  | mark (o : MarkOp)
  | addNodeMark (pos : Nat) (m : Mark)
  | removeNodeMark (pos : Nat) (sel : Mark ⊕ MarkTypeId)
  | setNodeAttribute (pos : Nat) (name value : String)
  /-- `split(pos, depth)` (types_after = None) -/
  | split (pos depth : Nat)
  | join (pos depth : Nat)
  /-- `lift(NodeRange(resolve a, resolve b, depth), target)` -/
  | lift (a b depth target : Nat)
  /-- `wrap(NodeRange(resolve a, resolve b, depth), wrappers)` -/
  | wrap (a b depth : Nat) (ws : List (TypeId × Attrs))
  | setNodeMarkup (pos : Nat) (ty : Option TypeId) (attrs : Attrs) (marks : Option Marks)
  | setBlockType (f t : Nat) (ty : TypeId) (attrs : Attrs)

/-- build a step, then `Transform.step` it -/
def Tr.built (S : Schema) (tr : Tr) : Res Step → Option Tr
  | .ok st => (tr.step S st).toOption
  | .error _ => none

/-- run a planner of PM/TypePlanFit.lean on a transform (its Fitter log starts empty and is dropped) -/
def Tr.planned (tr : Tr) (run : PSt → PlanRes PSt) : Option Tr :=
  match run { tr := tr } with
  | .ok st => some st.tr
  | .error _ => none

/-- one operation; `none` = the operation raised (the transform is then unchanged in the real code:
    an operation that raises part-way has recorded the steps before the failing one — such histories
    are the `Tr.run` form of `family_history_undo_run`) -/
def Tr.runOp (S : Schema) (tr : Tr) : Op → Option Tr
  | .step s => (tr.step S s).toOption
  | .replace f t sl => tr.planned (fun st => st.replaceF S f t sl)
  | .mark o => (tr.markOp S o).toOption
  | .addNodeMark pos m => (tr.addNodeMark S pos m).toOption
  | .removeNodeMark pos sel => (tr.removeNodeMark S pos sel).toOption
  | .setNodeAttribute pos name value => (tr.setNodeAttribute S pos name value).toOption
  | .split pos depth => tr.built S (splitStep tr.doc pos depth)
  | .join pos depth => tr.built S (joinStep pos depth)
  | .lift a b depth target => tr.built S (liftStep tr.doc a b depth target)
  | .wrap a b depth ws => tr.built S (wrapStep S tr.doc a b depth ws)
  | .setNodeMarkup pos ty attrs marks => tr.planned (fun st => st.setNodeMarkupF S pos ty attrs marks)
  | .setBlockType f t ty attrs => tr.planned (fun st => st.setBlockTypeF S f t ty attrs)

/-- a list of operations that all went through -/
def Tr.runOps (S : Schema) : Tr → List Op → Option Tr
  | tr, [] => some tr
  | tr, op :: ops =>
    match tr.runOp S op with
    | some tr1 => tr1.runOps S ops
    | none => none

/-- `R op before after` holds of every operation of the run -/
def OpsAll (S : Schema) (R : Op → Tr → Tr → Prop) : Tr → List Op → Prop
  | _, [] => True
  | tr, op :: ops =>
    match tr.runOp S op with
    | some tr1 => R op tr tr1 ∧ OpsAll S R tr1 ops
    | none => True

/-! ### operations only append applied steps -/

/-- `tr'` is `tr` followed by finitely many successful `Transform.step`s -/
inductive Tr.Grows (S : Schema) : Tr → Tr → Prop
  | refl (tr : Tr) : Tr.Grows S tr tr
  | step {tr tr1 tr' : Tr} (s : Step) : tr.step S s = .ok tr1 → Tr.Grows S tr1 tr' → Tr.Grows S tr tr'

theorem Tr.Grows.trans {S : Schema} {a b c : Tr} (h1 : Tr.Grows S a b) (h2 : Tr.Grows S b c) : Tr.Grows S a c := by
  induction h1 with
  | refl => exact h2
  | step s hs _ ih => exact .step s hs (ih h2)

theorem Tr.Grows.one {S : Schema} {tr tr' : Tr} {s : Step} (h : tr.step S s = .ok tr') : Tr.Grows S tr tr' :=
  .step s h (.refl _)

theorem Tr.Grows.stepAll {S : Schema} : ∀ (ss : List Step) {tr tr' : Tr}, tr.stepAll S ss = .ok tr' → Tr.Grows S tr tr'
  | [], tr, tr', h => by
    simp only [Tr.stepAll, Except.ok.injEq] at h
    subst h; exact .refl _
  | s :: ss, tr, tr', h => by
    simp only [Tr.stepAll] at h
    split at h
    · rename_i tr1 h1
      exact .step s h1 (Tr.Grows.stepAll ss h)
    · simp at h

/-- what a grown transform appended to the recorded history: it replays from the old current
    document to the new one -/
theorem Tr.Grows.hist {S : Schema} {tr tr' : Tr} (h : Tr.Grows S tr tr') :
    tr.steps.length = tr.docs.length →
    ∃ h2, tr'.hist = tr.hist ++ h2 ∧ tr'.steps.length = tr'.docs.length ∧
      histNext h2 tr'.doc = tr.doc ∧ ReplayChain S h2 tr'.doc := by
  induction h with
  | refl tr => intro hlen; exact ⟨[], by simp, hlen, rfl, trivial⟩
  | @step tr tr1 tr' s hs _ ih =>
    intro hlen
    simp only [Tr.step] at hs
    cases ha : S.apply s tr.doc with
    | error e => rw [ha] at hs; simp at hs
    | ok d =>
      rw [ha] at hs
      simp only [Except.ok.injEq] at hs
      subst hs
      obtain ⟨h2, e, l2, n2, r2⟩ := ih (by simp [Tr.addStep, hlen])
      refine ⟨(s, tr.doc) :: h2, ?_, l2, rfl, ?_⟩
      · rw [e]
        simp only [Tr.hist, Tr.addStep]
        rw [List.zip_append hlen]
        simp
      · refine ⟨?_, r2⟩
        show S.apply s tr.doc = .ok (histNext h2 tr'.doc)
        rw [n2, ha]
        rfl

/-! ### every operation grows the transform -/

theorem PSt.step_grows {S : Schema} {st st' : PSt} {s : Step} (h : st.step S s = .ok st') :
    Tr.Grows S st.tr st'.tr := by
  unfold PSt.step at h
  cases hs : st.tr.step S s with
  | error e => rw [hs] at h; simp [Except.map] at h
  | ok tr1 =>
    rw [hs] at h
    simp only [Except.map, Except.ok.injEq] at h
    subst h
    exact .one hs

theorem PSt.step_tr' {S : Schema} {st st' : PSt} {s : Step} (h : st.step S s = .ok st') :
    st.tr.step S s = .ok st'.tr := by
  unfold PSt.step at h
  cases hs : st.tr.step S s with
  | error e => rw [hs] at h; simp [Except.map] at h
  | ok tr => rw [hs] at h; simp only [Except.map, Except.ok.injEq] at h; subst h; rfl

theorem PSt.stepAll_grows {S : Schema} : ∀ (ss : List Step) {st st' : PSt}, st.stepAll S ss = .ok st' →
    Tr.Grows S st.tr st'.tr
  | [], st, st', h => by
    simp only [PSt.stepAll, Except.ok.injEq] at h
    subst h; exact .refl _
  | s :: ss, st, st', h => by
    simp only [PSt.stepAll] at h
    split at h
    · rename_i st1 h1
      exact (PSt.step_grows h1).trans (PSt.stepAll_grows ss h)
    · simp at h

theorem liftP_ok {α} {r : Res α} {a : α} (h : liftP r = .ok a) : r = .ok a := by
  cases r with
  | ok x => simpa [liftP] using h
  | error e => simp [liftP] at h

theorem PSt.replaceF_grows {S : Schema} {st st' : PSt} {f t : Nat} {sl : Slice}
    (h : st.replaceF S f t sl = .ok st') : Tr.Grows S st.tr st'.tr := by
  unfold PSt.replaceF at h
  split at h
  · simp only [Except.ok.injEq] at h; subst h; exact .refl _
  · split at h
    · split at h
      · simp at h
      · exact PSt.step_grows (liftP_ok h)
      · split at h
        · simp at h
        · simp only [Except.ok.injEq] at h; subst h; exact .refl _
        · have := PSt.step_grows (liftP_ok h)
          exact this
    · simp at h

theorem PSt.setNodeMarkupF_grows {S : Schema} {st st' : PSt} {pos : Nat} {ty : Option TypeId} {attrs : Attrs}
    {marks : Option Marks} (h : st.setNodeMarkupF S pos ty attrs marks = .ok st') : Tr.Grows S st.tr st'.tr := by
  unfold PSt.setNodeMarkupF at h
  split at h
  · simp at h
  · simp at h
  · simp only at h
    split at h
    · simp at h
    · split at h
      · exact PSt.replaceF_grows h
      · split at h
        · simp at h
        · exact PSt.step_grows (liftP_ok h)

theorem clearLoop_grows {S : Schema} (pty : TypeId) : ∀ (kids : List Node) (q cur : Nat) (repl : List Step)
    (st : PSt) (q' cur' : Nat) (repl' : List Step) (st' : PSt),
    clearLoop S pty kids q cur repl st = .ok (q', cur', repl', st') → Tr.Grows S st.tr st'.tr
  | [], q, cur, repl, st, q', cur', repl', st', h => by
    simp only [clearLoop, Except.ok.injEq, Prod.mk.injEq] at h
    obtain ⟨_, _, _, rfl⟩ := h
    exact .refl _
  | c :: cs, q, cur, repl, st, q', cur', repl', st', h => by
    simp only [clearLoop] at h
    split at h
    · exact clearLoop_grows pty cs _ _ _ _ _ _ _ _ h
    · split at h
      · simp at h
      · rename_i st1 h1
        exact (PSt.stepAll_grows _ h1).trans (clearLoop_grows pty cs _ _ _ _ _ _ _ _ h)

theorem PSt.clearIncompatibleF_grows {S : Schema} {st st' : PSt} {pos : Nat} {pty : TypeId} {q0 : Nat}
    (h : st.clearIncompatibleF S pos pty q0 = .ok st') : Tr.Grows S st.tr st'.tr := by
  unfold PSt.clearIncompatibleF at h
  split at h
  · simp at h
  · simp at h
  · split at h
    · simp at h
    · rename_i q cur repl st1 hloop
      have g1 := clearLoop_grows pty _ _ _ _ _ _ _ _ _ hloop
      simp only at h
      split at h
      · simp at h
      · rename_i st2 hfill
        refine (g1.trans ?_).trans (PSt.stepAll_grows _ (liftP_ok h))
        split at hfill
        · simp only [Except.ok.injEq] at hfill; subst hfill; exact .refl _
        · split at hfill
          · simp at hfill
          · exact PSt.replaceF_grows hfill

theorem setBlockTypeVisitF_grows {S : Schema} (ty : TypeId) (attrs : Attrs) (mf : Nat) (st : PSt) (skip : Nat)
    (v : NV) (st' : PSt) (skip' : Nat)
    (h : setBlockTypeVisitF S ty attrs mf (.ok (st, skip)) v = .ok (st', skip')) : Tr.Grows S st.tr st'.tr := by
  simp only [setBlockTypeVisitF] at h
  split at h
  · simp only [Except.ok.injEq, Prod.mk.injEq] at h; obtain ⟨rfl, _⟩ := h; exact .refl _
  · split at h
    · simp only [Except.ok.injEq, Prod.mk.injEq] at h; obtain ⟨rfl, _⟩ := h; exact .refl _
    · split at h
      · simp at h
      · simp only [Except.ok.injEq, Prod.mk.injEq] at h; obtain ⟨rfl, _⟩ := h; exact .refl _
      · split at h
        · simp at h
        · rename_i st1 hclear
          split at h
          · simp at h
          · split at h
            · simp at h
            · rename_i st2 hstep
              simp only [Except.ok.injEq, Prod.mk.injEq] at h
              obtain ⟨rfl, _⟩ := h
              exact (PSt.clearIncompatibleF_grows hclear).trans (PSt.step_grows hstep)

theorem sbtF_fold_grows {S : Schema} (ty : TypeId) (attrs : Attrs) (mf : Nat) : ∀ (vs : List NV) (st : PSt)
    (skip : Nat) (st' : PSt) (skip' : Nat),
    vs.foldl (setBlockTypeVisitF S ty attrs mf) (.ok (st, skip)) = .ok (st', skip') → Tr.Grows S st.tr st'.tr
  | [], st, skip, st', skip', h => by
    simp only [List.foldl, Except.ok.injEq, Prod.mk.injEq] at h
    obtain ⟨rfl, _⟩ := h; exact .refl _
  | v :: vs, st, skip, st', skip', h => by
    simp only [List.foldl] at h
    cases h1 : setBlockTypeVisitF S ty attrs mf (.ok (st, skip)) v with
    | error e =>
      rw [h1] at h
      have : ∀ (l : List NV), l.foldl (setBlockTypeVisitF S ty attrs mf) (.error e) = .error e := by
        intro l; induction l with
        | nil => rfl
        | cons x xs ih => simpa [List.foldl, setBlockTypeVisitF] using ih
      rw [this] at h; simp at h
    | ok p =>
      obtain ⟨st1, skip1⟩ := p
      rw [h1] at h
      exact (setBlockTypeVisitF_grows ty attrs mf st skip v st1 skip1 h1).trans
        (sbtF_fold_grows ty attrs mf vs st1 skip1 st' skip' h)

theorem PSt.setBlockTypeF_grows {S : Schema} {st st' : PSt} {f t : Nat} {ty : TypeId} {attrs : Attrs}
    (h : st.setBlockTypeF S f t ty attrs = .ok st') : Tr.Grows S st.tr st'.tr := by
  unfold PSt.setBlockTypeF at h
  simp only at h
  split at h
  · simp at h
  · split at h
    · simp at h
    · rename_i st1 sk hfold
      split at h
      · simp at h
      · simp only [Except.ok.injEq] at h
        subst h
        exact sbtF_fold_grows ty attrs _ _ st 0 _ sk hfold

theorem toOption_some {ε α} {r : Except ε α} {a : α} (h : r.toOption = some a) : r = .ok a := by
  cases r with
  | ok x => simpa [Except.toOption] using h
  | error e => simp [Except.toOption] at h

theorem Tr.built_some {S : Schema} {tr tr' : Tr} {r : Res Step} (h : tr.built S r = some tr') :
    ∃ st, r = .ok st ∧ tr.step S st = .ok tr' := by
  cases r with
  | ok st => exact ⟨st, rfl, toOption_some h⟩
  | error e => simp [Tr.built] at h

theorem Tr.planned_some {tr tr' : Tr} {run : PSt → PlanRes PSt} (h : tr.planned run = some tr') :
    ∃ st', run { tr := tr } = .ok st' ∧ st'.tr = tr' := by
  unfold Tr.planned at h
  split at h
  · rename_i st hst
    simp only [Option.some.injEq] at h
    exact ⟨st, hst, h⟩
  · simp at h

/-- **every operation only appends successfully applied steps** -/
theorem Tr.runOp_grows {S : Schema} {tr tr' : Tr} (op : Op) (h : tr.runOp S op = some tr') : Tr.Grows S tr tr' := by
  cases op with
  | step s => exact .one (toOption_some h)
  | replace f t sl =>
    obtain ⟨st', hs, rfl⟩ := Tr.planned_some (run := fun st => st.replaceF S f t sl) h
    exact PSt.replaceF_grows (st := { tr := tr }) hs
  | mark o =>
    have h' := toOption_some h
    cases o with
    | add f t m =>
      simp only [Tr.markOp, Tr.addMark] at h'
      split at h'
      · exact Tr.Grows.stepAll _ h'
      · simp at h'
    | remove f t sel =>
      simp only [Tr.markOp, Tr.removeMark] at h'
      split at h'
      · exact Tr.Grows.stepAll _ h'
      · simp at h'
  | addNodeMark pos m => exact .one (toOption_some h)
  | removeNodeMark pos sel =>
    have h' := toOption_some h
    simp only [Tr.removeNodeMark] at h'
    split at h'
    · exact .one h'
    · split at h'
      · simp at h'
      · simp at h'
      · split at h'
        · simp only [Except.ok.injEq] at h'; subst h'; exact .refl _
        · exact .one h'
  | setNodeAttribute pos name value => exact .one (toOption_some h)
  | split pos depth => obtain ⟨st, _, hs⟩ := Tr.built_some h; exact .one hs
  | join pos depth => obtain ⟨st, _, hs⟩ := Tr.built_some h; exact .one hs
  | lift a b depth target => obtain ⟨st, _, hs⟩ := Tr.built_some h; exact .one hs
  | wrap a b depth ws => obtain ⟨st, _, hs⟩ := Tr.built_some h; exact .one hs
  | setNodeMarkup pos ty attrs marks =>
    obtain ⟨st', hs, rfl⟩ := Tr.planned_some (run := fun st => st.setNodeMarkupF S pos ty attrs marks) h
    exact PSt.setNodeMarkupF_grows (st := { tr := tr }) hs
  | setBlockType f t ty attrs =>
    obtain ⟨st', hs, rfl⟩ := Tr.planned_some (run := fun st => st.setBlockTypeF S f t ty attrs) h
    exact PSt.setBlockTypeF_grows (st := { tr := tr }) hs

/-- a single-step operation: what it appended is that step on the old current document -/
theorem Tr.step_hist {S : Schema} {tr tr' : Tr} {s : Step} (hlen : tr.steps.length = tr.docs.length)
    (h : tr.step S s = .ok tr') :
    tr'.hist = tr.hist ++ [(s, tr.doc)] ∧ S.apply s tr.doc = .ok tr'.doc := by
  simp only [Tr.step] at h
  cases ha : S.apply s tr.doc with
  | error e => rw [ha] at h; simp at h
  | ok d =>
    rw [ha] at h
    simp only [Except.ok.injEq] at h
    subst h
    refine ⟨?_, rfl⟩
    simp only [Tr.hist, Tr.addStep]
    rw [List.zip_append hlen]
    simp

end PM
