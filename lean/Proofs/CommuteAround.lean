/-
  Proofs/CommuteAround.lean — helper lemmas for the replace-around clauses of Props/C17.lean.

  On tokens a replace step is one *splice* `L[:f] ++ A ++ L[t:]`, a replace-around step two of them
  (`[gt, t)` by the slice's tail, `[f, gf)` by its head, the gap `[gf, gt)` kept).  Separated splices
  commute once the later one is shifted by the earlier one's size change (`splice_comm`); everything
  about pairs with a replace-around step is that lemma applied two or four times.
-/
import PM.Step
import Proofs.StepToks
import Proofs.Commute
import Proofs.CommuteMarkup
namespace PM

/-! ### splices -/

def splice {α} (L : List α) (f t : Nat) (A : List α) : List α := L.take f ++ A ++ L.drop t

theorem splice_length {α} (L A : List α) (f t : Nat) (hf : f ≤ t) (ht : t ≤ L.length) :
    (splice L f t A).length = f + A.length + (L.length - t) := by
  simp [splice, List.length_take, List.length_drop]; omega

/-- two separated splices: the later one, shifted by the earlier one's size change, commutes with it -/
theorem splice_comm {α} (L A B : List α) (f1 t1 f2 t2 : Nat)
    (h1 : f1 ≤ t1) (hsep : t1 ≤ f2) (h2 : f2 ≤ t2) (hl : t2 ≤ L.length) :
    splice (splice L f1 t1 A) (f1 + A.length + (f2 - t1)) (f1 + A.length + (t2 - t1)) B =
      splice (splice L f2 t2 B) f1 t1 A := by
  unfold splice
  rw [splice_after L A B f1 t1 f2 t2 _ h1 hsep h2 hl rfl, splice_before L A B f1 t1 f2 t2 h1 hsep h2 hl]

/-- the token effect of a replace-around step: `[gt, t)` replaced by `Y`, `[f, gf)` by `X` -/
def aroundL {α} (L : List α) (f gf gt t : Nat) (X Y : List α) : List α :=
  splice (splice L gt t Y) f gf X

theorem aroundL_eq {α} (L X Y : List α) (f gf gt t : Nat)
    (hg : f ≤ gf ∧ gf ≤ gt ∧ gt ≤ t) (hl : t ≤ L.length) :
    L.take f ++ X ++ (L.drop gf).take (gt - gf) ++ Y ++ L.drop t = aroundL L f gf gt t X Y := by
  unfold aroundL splice
  exact (splice_before L X Y f gf gt t hg.1 hg.2.1 hg.2.2 hl).symm

theorem aroundL_length {α} (L X Y : List α) (f gf gt t : Nat)
    (hg : f ≤ gf ∧ gf ≤ gt ∧ gt ≤ t) (hl : t ≤ L.length) :
    (aroundL L f gf gt t X Y).length = f + X.length + (gt - gf) + Y.length + (L.length - t) := by
  unfold aroundL
  rw [splice_length _ _ _ _ hg.1 (by rw [splice_length _ _ _ _ hg.2.2 hl]; omega),
    splice_length _ _ _ _ hg.2.2 hl]
  omega

/-- a splice **before** a replace-around: the around, shifted by the splice's size change, commutes -/
theorem around_splice_before {α} (L S1 X Y : List α) (f1 t1 f gf gt t : Nat)
    (h1 : f1 ≤ t1) (hsep : t1 ≤ f) (hg : f ≤ gf ∧ gf ≤ gt ∧ gt ≤ t) (hl : t ≤ L.length) :
    aroundL (splice L f1 t1 S1) (f1 + S1.length + (f - t1)) (f1 + S1.length + (gf - t1))
        (f1 + S1.length + (gt - t1)) (f1 + S1.length + (t - t1)) X Y =
      splice (aroundL L f gf gt t X Y) f1 t1 S1 := by
  unfold aroundL
  rw [splice_comm L S1 Y f1 t1 gt t h1 (by omega) hg.2.2 hl]
  exact splice_comm (splice L gt t Y) S1 X f1 t1 f gf h1 hsep hg.1
    (by rw [splice_length _ _ _ _ hg.2.2 hl]; omega)

/-- a splice **after** a replace-around, shifted by both size changes -/
theorem around_splice_after {α} (L S1 X Y : List α) (f1 t1 f gf gt t : Nat)
    (h1 : f1 ≤ t1) (hsep : t ≤ f1) (hg : f ≤ gf ∧ gf ≤ gt ∧ gt ≤ t) (hl : t1 ≤ L.length) :
    splice (aroundL L f gf gt t X Y) (f + X.length + (gt + Y.length + (f1 - t) - gf))
        (f + X.length + (gt + Y.length + (t1 - t) - gf)) S1 =
      aroundL (splice L f1 t1 S1) f gf gt t X Y := by
  unfold aroundL
  rw [← splice_comm L Y S1 gt t f1 t1 hg.2.2 hsep h1 hl]
  exact splice_comm (splice L gt t Y) X S1 f gf _ _ hg.1 (by omega) (by omega)
    (by rw [splice_length _ _ _ _ hg.2.2 (by omega)]; omega)

/-- a splice **inside the gap** of a replace-around: the splice is shifted by the first range's size
    change, the around's second range by the splice's -/
theorem around_splice_gap {α} (L S1 X Y : List α) (f1 t1 f gf gt t : Nat)
    (h1 : f1 ≤ t1) (hlo : gf ≤ f1) (hhi : t1 ≤ gt) (hg : f ≤ gf ∧ gf ≤ gt ∧ gt ≤ t) (hl : t ≤ L.length) :
    splice (aroundL L f gf gt t X Y) (f + X.length + (f1 - gf)) (f + X.length + (t1 - gf)) S1 =
      aroundL (splice L f1 t1 S1) f gf (f1 + S1.length + (gt - t1)) (f1 + S1.length + (t - t1)) X Y := by
  unfold aroundL
  rw [splice_comm L S1 Y f1 t1 gt t h1 hhi hg.2.2 hl]
  exact splice_comm (splice L gt t Y) X S1 f gf f1 t1 hg.1 hlo h1
    (by rw [splice_length _ _ _ _ hg.2.2 hl]; omega)

/-- a replace-around **after** another one -/
theorem around_around_after {α} (L X Y X' Y' : List α) (f gf gt t f' gf' gt' t' : Nat)
    (hg : f ≤ gf ∧ gf ≤ gt ∧ gt ≤ t) (hsep : t ≤ f') (hg' : f' ≤ gf' ∧ gf' ≤ gt' ∧ gt' ≤ t')
    (hl : t' ≤ L.length) :
    let sh := fun p => f + X.length + (gt + Y.length + (p - t) - gf)
    aroundL (aroundL L f gf gt t X Y) (sh f') (sh gf') (sh gt') (sh t') X' Y' =
      aroundL (aroundL L f' gf' gt' t' X' Y') f gf gt t X Y := by
  intro sh
  show splice (splice (aroundL L f gf gt t X Y) (sh gt') (sh t') Y') (sh f') (sh gf') X' = _
  rw [around_splice_after L Y' X Y gt' t' f gf gt t hg'.2.2 (by omega) hg hl]
  exact around_splice_after (splice L gt' t' Y') X' X Y f' gf' f gf gt t hg'.1 hsep hg
    (by rw [splice_length _ _ _ _ hg'.2.2 hl]; omega)

/-- a replace-around **inside the gap** of another one -/
theorem around_around_gap {α} (L X Y X' Y' : List α) (f gf gt t f' gf' gt' t' : Nat)
    (hg : f ≤ gf ∧ gf ≤ gt ∧ gt ≤ t) (hlo : gf ≤ f') (hhi : t' ≤ gt)
    (hg' : f' ≤ gf' ∧ gf' ≤ gt' ∧ gt' ≤ t') (hl : t ≤ L.length) :
    let sh := fun p => f + X.length + (p - gf)
    let sh' := fun p => f' + X'.length + (gt' + Y'.length + (p - t') - gf')
    aroundL (aroundL L f gf gt t X Y) (sh f') (sh gf') (sh gt') (sh t') X' Y' =
      aroundL (aroundL L f' gf' gt' t' X' Y') f gf (sh' gt) (sh' t) X Y := by
  intro sh sh'
  show splice (splice (aroundL L f gf gt t X Y) (sh gt') (sh t') Y') (sh f') (sh gf') X' = _
  rw [around_splice_gap L Y' X Y gt' t' f gf gt t hg'.2.2 (by omega) hhi hg hl]
  have hl1 : (splice L gt' t' Y').length = gt' + Y'.length + (L.length - t') :=
    splice_length _ _ _ _ hg'.2.2 (by omega)
  have := around_splice_gap (splice L gt' t' Y') X' X Y f' gf' f gf
    (gt' + Y'.length + (gt - t')) (gt' + Y'.length + (t - t')) hg'.1 hlo (by omega)
    ⟨hg.1, by omega, by omega⟩ (by rw [hl1]; omega)
  rw [this]
  show _ = aroundL (splice (splice L gt' t' Y') f' gf' X') f gf (sh' gt) (sh' t) X Y
  have e1 : f' + X'.length + (gt' + Y'.length + (gt - t') - gf') = sh' gt := rfl
  have e2 : f' + X'.length + (gt' + Y'.length + (t - t') - gf') = sh' t := rfl
  rw [e1, e2]

/-! ### rebasing a replace-around step over a separated replace step, and vice versa -/

/-- the replace step lies **before** the replace-around step: the around is shifted by the size change -/
theorem around_map_replace_before (f t gf gt ins f1 t1 : Nat) (sl s1 : Slice) (st b1 : Bool)
    (hg : f ≤ gf ∧ gf ≤ gt ∧ gt ≤ t) (h1 : f1 ≤ t1) (hsep : t1 < f) :
    (Step.replaceAround f t gf gt sl ins st).map (Step.replace f1 t1 s1 b1).getMap =
      some (.replaceAround ((f : Int) + (s1.size - ((t1 : Int) - f1))).toNat
        ((t : Int) + (s1.size - ((t1 : Int) - f1))).toNat
        ((gf : Int) + (s1.size - ((t1 : Int) - f1))).toNat
        ((gt : Int) + (s1.size - ((t1 : Int) - f1))).toNat sl ins st) := by
  have e : ∀ (p : Nat) (a : Int), t1 < p → (Step.replace f1 t1 s1 b1).getMap.mapResult (p : Int) a
      = { pos := (p : Int) + (s1.size - ((t1 : Int) - f1)) } :=
    fun p a hp => mapResult_one_after _ _ _ _ a (by omega) (by omega)
  simp only [Step.map, StepMap.map, e f _ (by omega), e t _ (by omega), e gf _ (by omega),
    e gt _ (by omega), deleted_zero]
  rw [if_neg (by simp; omega)]

/-- … and the replace step is unchanged -/
theorem replace_map_around_after (f t gf gt ins f1 t1 : Nat) (sl s1 : Slice) (st b1 : Bool)
    (h1 : f1 ≤ t1) (hsep : t1 < f) :
    (Step.replace f1 t1 s1 b1).map (Step.replaceAround f t gf gt sl ins st).getMap =
      some (.replace f1 t1 s1 false) := by
  have e : ∀ (p : Nat) (a : Int), p < f → (Step.replaceAround f t gf gt sl ins st).getMap.mapResult (p : Int) a
      = { pos := (p : Int) } :=
    fun p a hp => mapResult_two_before _ _ _ _ _ _ _ a (by omega)
  simp only [Step.map, e f1 _ (by omega), e t1 _ (by omega), deleted_zero]
  simp; omega

/-- the replace step lies **after** the replace-around step: the around is unchanged -/
theorem around_map_replace_after (f t gf gt ins f1 t1 : Nat) (sl s1 : Slice) (st b1 : Bool)
    (hg : f ≤ gf ∧ gf ≤ gt ∧ gt ≤ t) (hsep : t < f1) :
    (Step.replaceAround f t gf gt sl ins st).map (Step.replace f1 t1 s1 b1).getMap =
      some (.replaceAround f t gf gt sl ins st) := by
  have e : ∀ (p : Nat) (a : Int), p < f1 → (Step.replace f1 t1 s1 b1).getMap.mapResult (p : Int) a
      = { pos := (p : Int) } :=
    fun p a hp => mapResult_one_before _ _ _ _ a (by omega)
  simp only [Step.map, StepMap.map, e f _ (by omega), e t _ (by omega), e gf _ (by omega),
    e gt _ (by omega), deleted_zero]
  rw [if_neg (by simp; omega)]
  simp

/-- … and the replace step is shifted by the size changes of both ranges -/
theorem replace_map_around_before (f t gf gt ins f1 t1 : Nat) (sl s1 : Slice) (st b1 : Bool)
    (hg : f ≤ gf ∧ gf ≤ gt ∧ gt ≤ t) (h1 : f1 ≤ t1) (hsep : t < f1) :
    (Step.replace f1 t1 s1 b1).map (Step.replaceAround f t gf gt sl ins st).getMap =
      some (.replace
        ((f1 : Int) + ((ins : Int) - ((gf : Int) - f)) + (sl.size - ins - ((t : Int) - gt))).toNat
        ((t1 : Int) + ((ins : Int) - ((gf : Int) - f)) + (sl.size - ins - ((t : Int) - gt))).toNat
        s1 false) := by
  have e : ∀ (p : Nat) (a : Int), t < p → (Step.replaceAround f t gf gt sl ins st).getMap.mapResult (p : Int) a
      = { pos := (p : Int) + ((ins : Int) - ((gf : Int) - f)) + (sl.size - ins - ((t : Int) - gt)) } :=
    fun p a hp => mapResult_two_after _ _ _ _ _ _ _ a (by omega) (by omega) (by omega) (by omega)
  simp only [Step.map, e f1 _ (by omega), e t1 _ (by omega), deleted_zero]
  simp only [Bool.false_and, Bool.false_eq_true, if_false, Option.some.injEq, Step.replace.injEq,
    and_true, true_and]
  congr 1; omega

/-- the replace step lies **inside the kept gap**: the around's second range is shifted -/
theorem around_map_replace_gap (f t gf gt ins f1 t1 : Nat) (sl s1 : Slice) (st b1 : Bool)
    (hg : f ≤ gf ∧ gf ≤ gt ∧ gt ≤ t) (h1 : f1 ≤ t1) (hlo : gf < f1) (hhi : t1 < gt) :
    (Step.replaceAround f t gf gt sl ins st).map (Step.replace f1 t1 s1 b1).getMap =
      some (.replaceAround f ((t : Int) + (s1.size - ((t1 : Int) - f1))).toNat gf
        ((gt : Int) + (s1.size - ((t1 : Int) - f1))).toNat sl ins st) := by
  have e : ∀ (p : Nat) (a : Int), p < f1 → (Step.replace f1 t1 s1 b1).getMap.mapResult (p : Int) a
      = { pos := (p : Int) } :=
    fun p a hp => mapResult_one_before _ _ _ _ a (by omega)
  have e' : ∀ (p : Nat) (a : Int), t1 < p → (Step.replace f1 t1 s1 b1).getMap.mapResult (p : Int) a
      = { pos := (p : Int) + (s1.size - ((t1 : Int) - f1)) } :=
    fun p a hp => mapResult_one_after _ _ _ _ a (by omega) (by omega)
  simp only [Step.map, StepMap.map, e f _ (by omega), e' t _ (by omega), e gf _ (by omega),
    e' gt _ (by omega), deleted_zero]
  rw [if_neg (by simp; omega)]
  simp

/-- … and the replace step is shifted by the first range's size change -/
theorem replace_map_around_gap (f t gf gt ins f1 t1 : Nat) (sl s1 : Slice) (st b1 : Bool)
    (hg : f ≤ gf ∧ gf ≤ gt ∧ gt ≤ t) (h1 : f1 ≤ t1) (hlo : gf < f1) (hhi : t1 < gt) :
    (Step.replace f1 t1 s1 b1).map (Step.replaceAround f t gf gt sl ins st).getMap =
      some (.replace ((f1 : Int) + ((ins : Int) - ((gf : Int) - f))).toNat
        ((t1 : Int) + ((ins : Int) - ((gf : Int) - f))).toNat s1 false) := by
  have e : ∀ (p : Nat) (a : Int), gf < p → p < gt →
      (Step.replaceAround f t gf gt sl ins st).getMap.mapResult (p : Int) a
      = { pos := (p : Int) + ((ins : Int) - ((gf : Int) - f)) } :=
    fun p a hp hp' => mapResult_two_mid _ _ _ _ _ _ _ a (by omega) (by omega) (by omega)
  simp only [Step.map, e f1 _ (by omega) (by omega), e t1 _ (by omega) (by omega), deleted_zero]
  simp only [Bool.false_and, Bool.false_eq_true, if_false, Option.some.injEq, Step.replace.injEq,
    and_true, true_and]
  congr 1; omega

/-! ### rebasing a replace-around step over a separated replace-around step -/

/-- the mapped step lies **before** the other one: unchanged -/
theorem around_map_around_before (f t gf gt ins f' t' gf' gt' ins' : Nat) (sl sl' : Slice) (st st' : Bool)
    (hg : f ≤ gf ∧ gf ≤ gt ∧ gt ≤ t) (hsep : t < f') :
    (Step.replaceAround f t gf gt sl ins st).map (Step.replaceAround f' t' gf' gt' sl' ins' st').getMap =
      some (.replaceAround f t gf gt sl ins st) := by
  have e : ∀ (p : Nat) (a : Int), p < f' →
      (Step.replaceAround f' t' gf' gt' sl' ins' st').getMap.mapResult (p : Int) a = { pos := (p : Int) } :=
    fun p a hp => mapResult_two_before _ _ _ _ _ _ _ a (by omega)
  simp only [Step.map, StepMap.map, e f _ (by omega), e t _ (by omega), e gf _ (by omega),
    e gt _ (by omega), deleted_zero]
  rw [if_neg (by simp; omega)]
  simp

/-- the mapped step lies **after** the other one: shifted by the size changes of both ranges -/
theorem around_map_around_after (f t gf gt ins f' t' gf' gt' ins' : Nat) (sl sl' : Slice) (st st' : Bool)
    (hg : f ≤ gf ∧ gf ≤ gt ∧ gt ≤ t) (hg' : f' ≤ gf' ∧ gf' ≤ gt' ∧ gt' ≤ t') (hsep : t < f') :
    let Δ : Int := ((ins : Int) - ((gf : Int) - f)) + (sl.size - ins - ((t : Int) - gt))
    (Step.replaceAround f' t' gf' gt' sl' ins' st').map (Step.replaceAround f t gf gt sl ins st).getMap =
      some (.replaceAround ((f' : Int) + Δ).toNat ((t' : Int) + Δ).toNat ((gf' : Int) + Δ).toNat
        ((gt' : Int) + Δ).toNat sl' ins' st') := by
  intro Δ
  have e : ∀ (p : Nat) (a : Int), t < p → (Step.replaceAround f t gf gt sl ins st).getMap.mapResult (p : Int) a
      = { pos := (p : Int) + Δ } := by
    intro p a hp
    have := mapResult_two_after (f : Int) ((gf : Int) - f) ins gt ((t : Int) - gt) (sl.size - ins) p a
      (by omega) (by omega) (by omega) (by omega)
    rw [Int.add_assoc] at this
    exact this
  simp only [Step.map, StepMap.map, e f' _ (by omega), e t' _ (by omega), e gf' _ (by omega),
    e gt' _ (by omega), deleted_zero]
  rw [if_neg (by simp; omega)]

/-- the mapped step lies **inside the other one's gap**: shifted by the first range's size change -/
theorem around_map_around_gap (f t gf gt ins f' t' gf' gt' ins' : Nat) (sl sl' : Slice) (st st' : Bool)
    (hg : f ≤ gf ∧ gf ≤ gt ∧ gt ≤ t) (hg' : f' ≤ gf' ∧ gf' ≤ gt' ∧ gt' ≤ t') (hlo : gf < f') (hhi : t' < gt) :
    let δ : Int := (ins : Int) - ((gf : Int) - f)
    (Step.replaceAround f' t' gf' gt' sl' ins' st').map (Step.replaceAround f t gf gt sl ins st).getMap =
      some (.replaceAround ((f' : Int) + δ).toNat ((t' : Int) + δ).toNat ((gf' : Int) + δ).toNat
        ((gt' : Int) + δ).toNat sl' ins' st') := by
  intro δ
  have e : ∀ (p : Nat) (a : Int), gf < p → p < gt →
      (Step.replaceAround f t gf gt sl ins st).getMap.mapResult (p : Int) a = { pos := (p : Int) + δ } :=
    fun p a hp hp' => mapResult_two_mid _ _ _ _ _ _ _ a (by omega) (by omega) (by omega)
  simp only [Step.map, StepMap.map, e f' _ (by omega) (by omega), e t' _ (by omega) (by omega),
    e gf' _ (by omega) (by omega), e gt' _ (by omega) (by omega), deleted_zero]
  rw [if_neg (by simp; omega)]

/-- the mapped step **holds the other one in its gap**: its second range is shifted -/
theorem around_map_around_outer (f t gf gt ins f' t' gf' gt' ins' : Nat) (sl sl' : Slice) (st st' : Bool)
    (hg : f ≤ gf ∧ gf ≤ gt ∧ gt ≤ t) (hg' : f' ≤ gf' ∧ gf' ≤ gt' ∧ gt' ≤ t') (hlo : gf < f') (hhi : t' < gt) :
    let Δ' : Int := ((ins' : Int) - ((gf' : Int) - f')) + (sl'.size - ins' - ((t' : Int) - gt'))
    (Step.replaceAround f t gf gt sl ins st).map (Step.replaceAround f' t' gf' gt' sl' ins' st').getMap =
      some (.replaceAround f ((t : Int) + Δ').toNat gf ((gt : Int) + Δ').toNat sl ins st) := by
  intro Δ'
  have e : ∀ (p : Nat) (a : Int), p < f' →
      (Step.replaceAround f' t' gf' gt' sl' ins' st').getMap.mapResult (p : Int) a = { pos := (p : Int) } :=
    fun p a hp => mapResult_two_before _ _ _ _ _ _ _ a (by omega)
  have e' : ∀ (p : Nat) (a : Int), t' < p →
      (Step.replaceAround f' t' gf' gt' sl' ins' st').getMap.mapResult (p : Int) a = { pos := (p : Int) + Δ' } := by
    intro p a hp
    have := mapResult_two_after (f' : Int) ((gf' : Int) - f') ins' gt' ((t' : Int) - gt') (sl'.size - ins') p a
      (by omega) (by omega) (by omega) (by omega)
    rw [Int.add_assoc] at this
    exact this
  simp only [Step.map, StepMap.map, e f _ (by omega), e' t _ (by omega), e gf _ (by omega),
    e' gt _ (by omega), deleted_zero]
  rw [if_neg (by simp; omega)]
  simp

/-! ### explicit forms of the three normal forms -/

theorem aroundL_as_splice {α} (L X Y : List α) (f gf gt t : Nat)
    (hg : f ≤ gf ∧ gf ≤ gt ∧ gt ≤ t) (hl : t ≤ L.length) :
    aroundL L f gf gt t X Y = splice L f t (X ++ (L.drop gf).take (gt - gf) ++ Y) := by
  rw [← aroundL_eq L X Y f gf gt t hg hl]
  simp [splice, List.append_assoc]

theorem explicit_before {α} (L S1 X Y : List α) (f1 t1 f gf gt t : Nat)
    (h1 : f1 ≤ t1) (hsep : t1 ≤ f) (hg : f ≤ gf ∧ gf ≤ gt ∧ gt ≤ t) (hl : t ≤ L.length) :
    splice (aroundL L f gf gt t X Y) f1 t1 S1 =
      L.take f1 ++ S1 ++ (L.drop t1).take (f - t1) ++ X ++ (L.drop gf).take (gt - gf) ++ Y ++ L.drop t := by
  rw [aroundL_as_splice L X Y f gf gt t hg hl]
  unfold splice
  rw [splice_before L S1 _ f1 t1 f t h1 hsep (by omega) hl]
  simp [List.append_assoc]

theorem explicit_after {α} (L S1 X Y : List α) (f1 t1 f gf gt t : Nat)
    (h1 : f1 ≤ t1) (hsep : t ≤ f1) (hg : f ≤ gf ∧ gf ≤ gt ∧ gt ≤ t) (hl : t1 ≤ L.length) :
    aroundL (splice L f1 t1 S1) f gf gt t X Y =
      L.take f ++ X ++ (L.drop gf).take (gt - gf) ++ Y ++ (L.drop t).take (f1 - t) ++ S1 ++ L.drop t1 := by
  have hlen := splice_length L S1 f1 t1 h1 hl
  rw [aroundL_as_splice _ X Y f gf gt t hg (by rw [hlen]; omega)]
  have hm : ((splice L f1 t1 S1).drop gf).take (gt - gf) = (L.drop gf).take (gt - gf) := by
    unfold splice
    rw [List.append_assoc, List.drop_append_of_le_length (by simp [List.length_take]; omega),
      List.take_append_of_le_length (by simp [List.length_drop, List.length_take]; omega),
      List.drop_take, List.take_take]
    congr 1; omega
  rw [hm]
  unfold splice
  rw [splice_before L _ S1 f t f1 t1 (by omega) hsep h1 hl]
  simp [List.append_assoc]

theorem explicit_gap {α} (L S1 X Y : List α) (f1 t1 f gf gt t : Nat)
    (h1 : f1 ≤ t1) (hlo : gf ≤ f1) (hhi : t1 ≤ gt) (hg : f ≤ gf ∧ gf ≤ gt ∧ gt ≤ t) (hl : t ≤ L.length) :
    aroundL (splice L f1 t1 S1) f gf (f1 + S1.length + (gt - t1)) (f1 + S1.length + (t - t1)) X Y =
      L.take f ++ X ++ (L.drop gf).take (f1 - gf) ++ S1 ++ (L.drop t1).take (gt - t1) ++ Y ++ L.drop t := by
  unfold aroundL
  rw [splice_comm L S1 Y f1 t1 gt t h1 hhi hg.2.2 hl]
  have e : splice (splice L gt t Y) f1 t1 S1 = splice L f1 t (S1 ++ (L.drop t1).take (gt - t1) ++ Y) := by
    unfold splice
    rw [splice_before L S1 Y f1 t1 gt t h1 hhi hg.2.2 hl]
    simp [List.append_assoc]
  rw [e]
  unfold splice
  rw [splice_before L X _ f gf f1 t hg.1 hlo (by omega) hl]
  simp [List.append_assoc]

end PM
