/-
  Proofs/MergeNecessary.lean — C16: the per-case guard `mergeCompat` is *necessary*: a replace that
  succeeds has checked `compatible_content` between the ancestors of its `from` and of its `to` at every
  level above its slice (the levels where `replace_three_way` merges `to`'s ancestor into `from`'s:
  `check_join`), so a merged step that applies satisfies the guard.
-/
import Proofs.MergeGuard
namespace PM

theorem ancCompat_not_deep (S : Schema) (n : Nat) (L : List Node) (f : Nat) (R : List Node) (t : Nat)
    (h : ∀ c i r, splitRight L f ≠ some (.deep c i r)) : ancCompat S n L f R t = true := by
  have := ancCompat_of_not_deep S n L f R t h
  simpa [bridgeCompat] using this

theorem twoWay_anc (S : Schema) : ∀ (L : List Node) (f : Nat) (R : List Node) (t : Nat) (X : List Node),
    twoWay S L f R t = .ok X → ∀ n, ancCompat S n L f R t = true
  | [], f, R, t, X, h, n => by
    refine ancCompat_not_deep S n _ _ _ _ ?_
    intro c i r hs
    cases f <;> simp [splitRight] at hs
  | n0 :: ns, f, R, t, X, h, n => by
    unfold twoWay at h
    split at h
    · rename_i hf
      refine ancCompat_not_deep S n _ _ _ _ ?_
      intro c i r hs
      rw [hf] at hs; simp at hs
    · rename_i hf
      split at h
      · rename_i hle
        split at h
        · rename_i r hr
          rw [ancCompat_congr_left S n R t (splitRight_skip n0 ns f hf hle)]
          exact twoWay_anc S ns (f - n0.size) R t r hr n
        · simp at h
      · rename_i hlt
        cases n0 with
        | text s m =>
          refine ancCompat_not_deep S n _ _ _ _ ?_
          intro c i r hs
          rw [splitRight_cons, if_neg hf, if_neg hlt] at hs
          simp only at hs
          split at hs <;> simp at hs
        | leaf ty a m => simp at h
        | elem ty a m kids =>
          simp only at h
          split at h
          · rename_i ty' a' m' kids' inner rest hs
            split at h
            · rename_i hcomp
              split at h
              · rename_i innerRes hin
                simp only [Node.size_elem, Nat.not_le] at hlt
                cases n with
                | zero => simp [ancCompat]
                | succ n =>
                  simp only [ancCompat, splitRight_elem ty a m kids ns f hf hlt, hs, Bool.and_eq_true]
                  exact ⟨by rw [compat_symm]; exact hcomp, twoWay_anc S kids (f - 1) kids' inner innerRes hin n⟩
              · simp at h
            · simp at h
          · simp at h
          · simp at h

theorem threeWay_anc (S : Schema) : ∀ (L : List Node) (f extra : Nat) (M : List Node) (a b : Nat)
    (R : List Node) (t : Nat) (X : List Node),
    threeWay S L f extra M a b R t = .ok X → ancCompat S extra L f R t = true
  | [], f, extra, M, a, b, R, t, X, h => by
    unfold threeWay at h
    split at h
    · split at h
      · rename_i he; subst he; simp [ancCompat]
      · simp at h
    · simp at h
  | n0 :: ns, f, extra, M, a, b, R, t, X, h => by
    unfold threeWay at h
    split at h
    · split at h
      · rename_i he; subst he; simp [ancCompat]
      · simp at h
    · rename_i hf
      split at h
      · rename_i hle
        split at h
        · rename_i r hr
          rw [ancCompat_congr_left S extra R t (splitRight_skip n0 ns f hf hle)]
          exact threeWay_anc S ns (f - n0.size) extra M a b R t r hr
        · simp at h
      · rename_i hlt
        cases n0 with
        | text s m =>
          simp only at h
          split at h
          · simp at h
          · split at h
            · simp at h
            · rename_i he
              have : extra = 0 := by simpa using he
              subst this; simp [ancCompat]
        | leaf ty at_ m => simp at h
        | elem tyL aL mL kidsL =>
          simp only [Node.size_elem, Nat.not_le] at hlt
          simp only at h
          split at h
          · simp at h
          · rename_i rs hs
            split at h
            · rename_i hex
              split at h
              · rename_i tyR aR mR kidsR innerT rest
                split at h
                · rename_i hcomp
                  split at h
                  · rename_i inner hin
                    obtain ⟨e, rfl⟩ : ∃ e, extra = e + 1 := ⟨extra - 1, by omega⟩
                    simp only [ancCompat, splitRight_elem tyL aL mL kidsL ns f hf hlt, hs, Bool.and_eq_true]
                    exact ⟨by rw [compat_symm]; exact hcomp,
                      threeWay_anc S kidsL (f - 1) e M a b kidsR innerT inner hin⟩
                  · simp at h
                · simp at h
              · simp at h
            · rename_i hex
              have : extra = 0 := by simpa using hex
              subst this; simp [ancCompat]

theorem atLevel_anc (S : Schema) {sl : Slice} {ty : TypeId} {level : List Node} {f t extra : Nat}
    {level' : List Node} (h : atLevel S sl ty level f t extra = .ok level') :
    ancCompat S extra level f level t = true := by
  unfold atLevel at h
  simp only at h
  split at h
  · rename_i c hc
    split at hc
    · cases hx : twoWay S level f level t with
      | error e => rw [hx] at hc; simp [Except.map] at hc
      | ok r => exact twoWay_anc S _ _ _ _ _ hx extra
    · split at hc
      · rename_i hcond
        simp only [Bool.and_eq_true, decide_eq_true_eq] at hcond
        exact ancCompat_of_flat S extra level f level t hcond.1.2
      · cases hx : threeWay S level f extra sl.content sl.openStart sl.openEnd level t with
        | error e => rw [hx] at hc; simp [Except.map] at hc
        | ok r => exact threeWay_anc S _ _ _ _ _ _ _ _ _ hx
  · simp at h

theorem outer_anc (S : Schema) (sl : Slice) :
    ∀ (rest : List Node) (ty : TypeId) (level : List Node) (f0 t0 idx f t extra : Nat)
      (pre level' : List Node),
      level = pre ++ rest → f0 = fsize pre + f → t0 = fsize pre + t → f ≤ t →
      outer S sl ty level f0 t0 idx rest f t extra = .ok level' → fnorm level = true →
      ancCompat S extra rest f rest t = true
  | [], ty, level, f0, t0, idx, f, t, extra, pre, level', hl, hf0, ht0, hft, h, hn => by
    have hpre : fnormKids pre = true := by rw [hl] at hn; exact fnormKids_append_left hn
    unfold outer at h
    have := atLevel_anc S h
    have e1 : splitRight level f0 = splitRight [] f := by
      rw [hl, hf0]; exact splitRight_append_pre pre [] f hpre
    have e2 : splitRight level t0 = splitRight [] t := by
      rw [hl, ht0]; exact splitRight_append_pre pre [] t hpre
    cases extra with
    | zero => simp [ancCompat]
    | succ e => simp only [ancCompat, e1, e2] at this ⊢; exact this
  | n :: ns, ty, level, f0, t0, idx, f, t, extra, pre, level', hl, hf0, ht0, hft, h, hn => by
    have hpre : fnormKids pre = true := by rw [hl] at hn; exact fnormKids_append_left hn
    have here : atLevel S sl ty level f0 t0 extra = .ok level' →
        ancCompat S extra (n :: ns) f (n :: ns) t = true := by
      intro h'
      have := atLevel_anc S h'
      have e1 : splitRight level f0 = splitRight (n :: ns) f := by
        rw [hl, hf0]; exact splitRight_append_pre pre _ f hpre
      have e2 : splitRight level t0 = splitRight (n :: ns) t := by
        rw [hl, ht0]; exact splitRight_append_pre pre _ t hpre
      cases extra with
      | zero => simp [ancCompat]
      | succ e => simp only [ancCompat, e1, e2] at this ⊢; exact this
    unfold outer at h
    split at h
    · exact here h
    · rename_i hf
      split at h
      · rename_i hle
        have ih := outer_anc S sl ns ty level f0 t0 (idx + 1) (f - n.size) (t - n.size) extra
          (pre ++ [n]) level' (by simp [hl]) (by rw [fsize_append]; simp; omega)
          (by rw [fsize_append]; simp; omega) (by omega) h hn
        cases extra with
        | zero => simp [ancCompat]
        | succ e =>
          simp only [ancCompat, splitRight_skip n ns f hf hle,
            splitRight_skip n ns t (by omega) (by omega)] at ih ⊢
          exact ih
      · rename_i hlt
        split at h
        · rename_i tyC aC mC kidsC
          split at h
          · rename_i hcond
            simp only [Bool.and_eq_true, decide_eq_true_eq, Node.size_elem] at hcond
            simp only [Node.size_elem, Nat.not_le] at hlt
            obtain ⟨hex, htsz⟩ := hcond
            split at h
            · rename_i inner hin
              subst hl
              obtain ⟨e, rfl⟩ : ∃ e, extra = e + 1 := ⟨extra - 1, by omega⟩
              simp only [ancCompat, splitRight_elem tyC aC mC kidsC ns f hf hlt,
                splitRight_elem tyC aC mC kidsC ns t (by omega) htsz, compatibleContent_self,
                Bool.true_and]
              exact outer_anc S sl kidsC tyC kidsC (f - 1) (t - 1) 0 (f - 1) (t - 1) e
                [] inner rfl (by simp) (by simp) (by omega) hin (fnorm_child hn)
            · simp at h
          · exact here h
        · exact here h

/-- **a successful replace has checked the join of `from`'s and `to`'s ancestors at every level above
    its slice** -/
theorem replaceKids_anc (S : Schema) (ty : TypeId) (K K' : List Node) (f t : Nat) (sl : Slice)
    (hn : fnorm K = true) (h : replaceKids S ty K f t sl = .ok K') :
    ancCompat S (depthAt K f - sl.openStart) K f K t = true := by
  obtain ⟨hft, ht, hwf, ho⟩ := replaceKids_ok h
  exact outer_anc S sl K ty K f t 0 f t _ [] K' rfl (by simp) (by simp) hft ho hn

end PM
