/-
  Proofs/FlatReplace.lean — *flat* replaces: a closed slice put over a range whose two ends lie in the
  same parent node, not strictly inside an element child (typing, deleting inside a textblock, replacing
  whole children).  Such a replace descends to that parent (`Lvl`), rebuilds its child list in one
  piece and re-validates it (`replaceKids_flat`, `atLevel_flat_spec`); nothing else can fail.

  Used by Props/C16.lean (`merge_succeeds_replace_flat`): the child list the merged step builds is,
  token for token, the one the second step built and validated.

  (The few lemmas under `PM.Flat` restate lemmas of Proofs/UndoReplace.lean, which cannot be imported
  together with Proofs/Merge.lean.)
-/
import PM.Step
import Proofs.Reinsert
import Proofs.Lvl
import Proofs.MarkMerge
namespace PM

/-- the range `f … t` stays inside the parent of `f`: it ends at the depth it starts at and never
    goes above it -/
def FlatRange (K : List Node) (f t : Nat) : Prop :=
  depthAt K t = depthAt K f ∧ ∀ k, f ≤ k → k ≤ t → depthAt K f ≤ depthAt K k

theorem flatRange_refl (K : List Node) (f : Nat) : FlatRange K f f :=
  ⟨rfl, fun k h1 h2 => by have : k = f := by omega
                          rw [this]; exact Nat.le_refl _⟩

/-- a range whose slice is closed is flat -/
theorem flatRange_of_closed (K : List Node) (f t : Nat) (old : Slice) (hft : f ≤ t) (ht : t ≤ fsize K)
    (hs : sliceKids K f t = .ok old) (h0 : old.openStart = 0) (h1 : old.openEnd = 0) :
    FlatRange K f t := by
  by_cases he : f = t
  · subst he; exact flatRange_refl K f
  · obtain ⟨sh, e1, e2, e3, _⟩ := sliceKids_open K f t old (by omega) ht hs
    refine ⟨by omega, fun k hk1 hk2 => ?_⟩
    have := e3 k hk1 hk2
    rw [← depthAt_balance K k (by omega)] at this
    omega

/-- the end of a flat range lies in the level of its start, not strictly inside a child -/
theorem lvl_flat {ty tyP : TypeId} {K L : List Node} {b nd : Nat} {ctx : List Node → List Node}
    (h : Lvl ty K b nd tyP L ctx) (f t fP : Nat) (hf : f = b + fP) (hfp : fP ≤ fsize L)
    (hd : depthAt L fP = 0) (hfl : FlatRange K f t) (hft : f ≤ t) (ht : t ≤ fsize K) :
    ∃ tP, t = b + tP ∧ fP ≤ tP ∧ tP ≤ fsize L ∧ depthAt L tP = 0 := by
  obtain ⟨d1, _⟩ := h.depth fP hfp
  rw [← hf, hd, Nat.add_zero] at d1
  by_cases hin : t ≤ b + fsize L
  · obtain ⟨d2, _⟩ := h.depth (t - b) (by omega)
    rw [show b + (t - b) = t by omega, hfl.1, d1] at d2
    exact ⟨t - b, by omega, by omega, by omega, by omega⟩
  · exfalso
    by_cases hz : nd = 0
    · subst hz
      obtain ⟨hb, hL⟩ := h.zero
      subst hb; subst hL
      omega
    · obtain ⟨a1, a2⟩ := h.after (by omega)
      have := hfl.2 (b + fsize L + 1) (by omega) (by omega)
      omega

/-! ### the replace inside one level -/

theorem fsize_zero_of_fnormKids : ∀ (c : List Node), fnormKids c = true → fsize c = 0 → c = []
  | [], _, _ => rfl
  | n :: ns, hn, hz => by
    simp only [fnormKids_cons, Bool.and_eq_true] at hn
    have := Node.size_pos_of_norm n hn.1
    simp at hz; omega

/-- **a flat closed replace inside one child list is a validity check of one well-defined list**:
    the normal-form list `Y` with tokens `before ++ content ++ after` -/
theorem atLevel_flat_spec (S : Schema) (c : List Node) (hcn : fnorm c = true) (ty : TypeId)
    (L : List Node) (f t : Nat) (hft : f ≤ t) (ht : t ≤ fsize L)
    (hdf : depthAt L f = 0) (hdt : depthAt L t = 0)
    (haf : alignedAt L f = true) (hat : alignedAt L t = true) (hn : fnorm L = true) :
    ∃ Y, fnorm Y = true ∧ ftoks Y = (ftoks L).take f ++ ftoks c ++ (ftoks L).drop t ∧
      atLevel S ⟨c, 0, 0⟩ ty L f t 0 = if S.validContent ty Y then .ok Y else .error .failed := by
  have hnl := fnormKids_of_fnorm hn
  by_cases hz : fsize c = 0
  · have hc : c = [] := fsize_zero_of_fnormKids c (fnormKids_of_fnorm hcn) hz
    subst hc
    obtain ⟨X, hX⟩ := Flat.twoWay_flat S L f L t (by omega) haf hdf
      (Flat.splitRight_flat_of_depth L t ht hat hdt)
    refine ⟨fromArray X, fromArray_norm _ (twoWay_norm S _ _ _ _ _ hnl hnl hX), ?_, ?_⟩
    · rw [fromArray_toks, twoWay_toks S _ _ _ _ _ hX]; simp
    · unfold atLevel
      simp only [fsize_nil, if_true, hX, Except.map]
  · obtain ⟨l, hl⟩ := fcut_total L 0 f (by omega) (by omega) (alignedAt_zero _) haf hn
    obtain ⟨r, hr⟩ := fcut_total L t (fsize L) ht (Nat.le_refl _) hat (alignedAt_fsize _) hn
    refine ⟨fappend (fappend l c) r,
      fappend_norm _ _ (fappend_norm _ _ (fcut_norm _ _ _ _ hn hl) hcn) (fcut_norm _ _ _ _ hn hr), ?_, ?_⟩
    · rw [fappend_toks, fappend_toks, fcut_prefix_toks hl (by omega) hdf, fcut_suffix_toks hr hdt]
    · unfold atLevel
      simp only []
      rw [if_neg hz]
      simp only [hdf, hdt, decide_true, Bool.and_self, if_true, hl, hr]

/-- a flat closed replace that succeeded has pair-aligned ends -/
theorem twoWay_flat_aligned (S : Schema) : ∀ (L : List Node) (f : Nat) (R : List Node) (t : Nat) (X : List Node),
    depthAt L f = 0 → twoWay S L f R t = .ok X → alignedAt L f = true
  | [], f, R, t, X, _, _ => by simp [alignedAt]
  | n :: ns, f, R, t, X, hd, h => by
    by_cases hf0 : f = 0
    · subst hf0; simp
    by_cases hle : n.size ≤ f
    · rw [alignedAt_skip n ns f hle]
      rw [depthAt_skip n ns f hle] at hd
      unfold twoWay at h
      rw [if_neg hf0, if_pos hle] at h
      cases hr : twoWay S ns (f - n.size) R t with
      | error e => simp [hr] at h
      | ok r => exact twoWay_flat_aligned S ns _ R t r hd hr
    · rw [alignedAt_cons, if_neg hf0, if_neg hle]
      cases n with
      | text s m =>
        unfold twoWay at h
        rw [if_neg hf0, if_neg hle] at h
        simp only at h ⊢
        split at h
        · simp at h
        · rename_i hs; simpa using hs
      | leaf ty a m => rfl
      | elem ty a m kids =>
        simp only [Node.size_elem, Nat.not_le] at hle
        rw [depthAt_elem_cons _ _ _ _ _ _ (by omega) hle] at hd
        omega

theorem splitRight_flat_aligned : ∀ (R : List Node) (t : Nat) (rs : RSplit), depthAt R t = 0 →
    splitRight R t = some rs → alignedAt R t = true
  | [], t, rs, _, _ => by simp [alignedAt]
  | n :: ns, t, rs, hd, h => by
    by_cases h0 : t = 0
    · subst h0; simp
    by_cases hle : n.size ≤ t
    · rw [alignedAt_skip n ns t hle]
      rw [depthAt_skip n ns t hle] at hd
      rw [splitRight_skip n ns t h0 hle] at h
      exact splitRight_flat_aligned ns _ rs hd h
    · rw [alignedAt_cons, if_neg h0, if_neg hle]
      cases n with
      | text s m =>
        rw [splitRight_cons, if_neg h0, if_neg hle] at h
        simp only at h ⊢
        split at h
        · rename_i hs; exact hs
        · simp at h
      | leaf ty a m => rfl
      | elem ty a m kids =>
        simp only [Node.size_elem, Nat.not_le] at hle
        rw [depthAt_elem_cons _ _ _ _ _ _ (by omega) hle] at hd
        omega

theorem twoWay_splitRight (S : Schema) : ∀ (L : List Node) (f : Nat) (R : List Node) (t : Nat) (X : List Node),
    depthAt L f = 0 → twoWay S L f R t = .ok X → ∃ rs, splitRight R t = some rs
  | [], f, R, t, X, _, h => by
    unfold twoWay at h
    split at h
    · cases hs : splitRight R t with
      | none => simp [hs] at h
      | some rs => exact ⟨rs, rfl⟩
    · simp at h
  | n :: ns, f, R, t, X, hd, h => by
    by_cases hf0 : f = 0
    · unfold twoWay at h
      rw [if_pos hf0] at h
      cases hs : splitRight R t with
      | none => simp [hs] at h
      | some rs => exact ⟨rs, rfl⟩
    by_cases hle : n.size ≤ f
    · rw [depthAt_skip n ns f hle] at hd
      unfold twoWay at h
      rw [if_neg hf0, if_pos hle] at h
      cases hr : twoWay S ns (f - n.size) R t with
      | error e => simp [hr] at h
      | ok r => exact twoWay_splitRight S ns _ R t r hd hr
    · cases n with
      | text s m =>
        unfold twoWay at h
        rw [if_neg hf0, if_neg hle] at h
        simp only at h
        split at h
        · simp at h
        · cases hs : splitRight R t with
          | none => simp [hs] at h
          | some rs => exact ⟨rs, rfl⟩
      | leaf ty a m => simp at hle; omega
      | elem ty a m kids =>
        simp only [Node.size_elem, Nat.not_le] at hle
        rw [depthAt_elem_cons _ _ _ _ _ _ (by omega) hle] at hd
        omega

theorem atLevel_flat_aligned (S : Schema) (c : List Node) (ty : TypeId) (L : List Node) (f t : Nat)
    (Y : List Node) (hft : f ≤ t) (ht : t ≤ fsize L) (hdf : depthAt L f = 0) (hdt : depthAt L t = 0)
    (h : atLevel S ⟨c, 0, 0⟩ ty L f t 0 = .ok Y) :
    alignedAt L f = true ∧ alignedAt L t = true := by
  unfold atLevel at h
  simp only [] at h
  split at h
  · rename_i Y' hY
    split at hY
    · -- deletion: two-way join
      cases hx : twoWay S L f L t with
      | error e => simp [hx, Except.map] at hY
      | ok X =>
        obtain ⟨rs, hrs⟩ := twoWay_splitRight S L f L t X hdf hx
        exact ⟨twoWay_flat_aligned S L f L t X hdf hx, splitRight_flat_aligned L t rs hdt hrs⟩
    · simp only [hdf, hdt, decide_true, Bool.and_self, if_true] at hY
      split at hY
      · rename_i l r hl hr
        constructor
        · by_cases h0 : f = 0
          · subst h0; simp
          · exact (fcut_aligned (by omega) (by omega) hl).2
        · by_cases h1 : t = fsize L
          · subst h1; exact alignedAt_fsize _
          · exact (fcut_aligned (by omega) (Nat.le_refl _) hr).1
      · simp at hY
      · simp at hY
  · simp at h

/-- the start of a flat range lies in the level of its end -/
theorem lvl_flat_back {ty tyP : TypeId} {K L : List Node} {b nd : Nat} {ctx : List Node → List Node}
    (h : Lvl ty K b nd tyP L ctx) (f t tP : Nat) (ht : t = b + tP) (htp : tP ≤ fsize L)
    (hd : depthAt L tP = 0) (hfl : FlatRange K f t) (hft : f ≤ t) :
    ∃ fP, f = b + fP ∧ fP ≤ tP ∧ depthAt L fP = 0 := by
  obtain ⟨d1, _⟩ := h.depth tP htp
  rw [← ht, hd, Nat.add_zero] at d1
  by_cases hin : b ≤ f
  · obtain ⟨d2, _⟩ := h.depth (f - b) (by omega)
    rw [show b + (f - b) = f by omega, ← hfl.1, d1] at d2
    exact ⟨f - b, by omega, by omega, by omega⟩
  · exfalso
    by_cases hz : nd = 0
    · subst hz
      obtain ⟨hb, _⟩ := h.zero
      omega
    · obtain ⟨a1, a2⟩ := h.before (by omega)
      have := hfl.2 (b - 1) (by omega) (by omega)
      have := hfl.1
      omega

/-- **a flat replace with a closed slice**: it is the level's own replace, put back in place -/
theorem replaceKids_flat {S : Schema} {ty tyP : TypeId} {K L : List Node} {b nd : Nat}
    {ctx : List Node → List Node} (h : Lvl ty K b nd tyP L ctx) (c : List Node) (fP tP : Nat)
    (hft : fP ≤ tP) (ht : tP ≤ fsize L) (hdf : depthAt L fP = 0) (hdt : depthAt L tP = 0) :
    replaceKids S ty K (b + fP) (b + tP) ⟨c, 0, 0⟩ = (atLevel S ⟨c, 0, 0⟩ tyP L fP tP 0).map ctx := by
  have hr := h.range
  obtain ⟨d1, _⟩ := h.depth fP (by omega)
  obtain ⟨d2, _⟩ := h.depth tP ht
  unfold replaceKids
  rw [if_neg (by simp [inRange]; omega)]
  simp only []
  rw [if_neg (by omega), if_neg (by rw [d1, d2, hdf, hdt]; simp), if_neg (by simp [Slice.wf]),
    d1, hdf, Nat.add_zero, Nat.sub_zero]
  exact h.outer ⟨c, 0, 0⟩ fP tP hft ht

/-! ### two flat replaces, the second starting where the first one's content ends -/

theorem Lvl.norm {ty tyP : TypeId} {K L : List Node} {b nd : Nat} {ctx : List Node → List Node}
    (h : Lvl ty K b nd tyP L ctx) (hn : fnorm K = true) : fnorm L = true := by
  induction h with
  | here => exact hn
  | down ty pre aC mC ns _ _ ih =>
    have := fnormKids_of_fnorm hn
    rw [fnormKids_append] at this
    simp only [fnormKids_cons, Bool.and_eq_true, Node.norm_elem] at this
    exact ih this.2.1

theorem tokAligned_shift (l l' : List Tok) (p q : Nat) (hp : 0 < p) (hq : 0 < q)
    (h1 : l[p - 1]? = l'[q - 1]?) (h2 : l[p]? = l'[q]?) : tokAligned l p = tokAligned l' q := by
  obtain ⟨p', rfl⟩ : ∃ p', p = p' + 1 := ⟨p - 1, by omega⟩
  obtain ⟨q', rfl⟩ : ∃ q', q = q' + 1 := ⟨q - 1, by omega⟩
  simp only [Nat.add_sub_cancel] at h1
  simp only [tokAligned, h1, h2]

section Splice
variable {α : Type} (A C D : List α)

theorem splice_take_mid (k : Nat) : (A ++ C ++ D).take (A.length + C.length + k) = A ++ C ++ D.take k := by
  rw [← List.length_append]; exact List.take_length_add_append k

theorem splice_drop_mid (k : Nat) : (A ++ C ++ D).drop (A.length + C.length + k) = D.drop k := by
  rw [← List.length_append]; exact List.drop_length_add_append k

theorem splice_get_tail (i : Nat) : (A ++ C ++ D)[A.length + C.length + i]? = D[i]? := by
  rw [List.getElem?_append_right (by simp)]
  simp
theorem splice_take_pre (k : Nat) (hk : k ≤ A.length) : (A ++ C ++ D).take k = A.take k := by
  rw [List.append_assoc, List.take_append_of_le_length hk]

theorem splice_drop_pre : (A ++ C ++ D).drop A.length = C ++ D := by
  rw [List.append_assoc]; exact List.drop_left' rfl

theorem splice_get_pre (i : Nat) (hi : i < A.length) : (A ++ C ++ D)[i]? = A[i]? := by
  rw [List.append_assoc, List.getElem?_append_left hi]
end Splice

/-- **the merged flat replace builds what the second step built.**  Two closed, normal-form slices
    `c`, `c'`; the first replace puts `c` over the flat range `f … t` of `K`, the second puts `c'` over
    a flat range of the result that starts where `c` ends.  Then replacing `f … t + (t' - f')` of `K` by
    `c ++ c'` in one step succeeds with the same result.  (No validity hypothesis on `K`: the one child
    list the merged step re-validates is the one the second step validated.) -/
theorem replaceKids_merge_flat (S : Schema) (ty : TypeId) (K K1 K2 : List Node) (f t f' t' : Nat)
    (c c' : List Node) (hn : fnorm K = true) (hcn : fnorm c = true) (hcn' : fnorm c' = true)
    (hr1 : replaceKids S ty K f t ⟨c, 0, 0⟩ = .ok K1)
    (hr2 : replaceKids S ty K1 f' t' ⟨c', 0, 0⟩ = .ok K2)
    (hf' : f' = f + fsize c) (hfl1 : FlatRange K f t) (hfl2 : FlatRange K1 f' t') :
    replaceKids S ty K f (t + (t' - f')) ⟨fappend c c', 0, 0⟩ = .ok K2 := by
  obtain ⟨hft, ht, _, _⟩ := replaceKids_ok hr1
  obtain ⟨hft', ht', _, _⟩ := replaceKids_ok hr2
  -- the level of `f`
  obtain ⟨b, nd, tyP, L, ctx, fP, hl, hfb, hfp, hdf⟩ :=
    lvl_of_pos (depthAt K f) K f ty rfl (by omega) (fnormKids_of_fnorm hn)
  obtain ⟨tP, htb, hftP, htp, hdt⟩ := lvl_flat hl f t fP hfb hfp hdf hfl1 hft ht
  have hnL := hl.norm hn
  -- step 1 inside the level
  rw [hfb, htb, replaceKids_flat hl c fP tP hftP htp hdf hdt] at hr1
  cases ha1 : atLevel S ⟨c, 0, 0⟩ tyP L fP tP 0 with
  | error e => rw [ha1] at hr1; simp [Except.map] at hr1
  | ok L1 =>
  rw [ha1] at hr1
  simp only [Except.map, Except.ok.injEq] at hr1
  obtain ⟨haf, hat⟩ := atLevel_flat_aligned S c tyP L fP tP L1 hftP htp hdf hdt ha1
  obtain ⟨Y1, hY1n, hY1t, hY1⟩ := atLevel_flat_spec S c hcn tyP L fP tP hftP htp hdf hdt haf hat hnL
  rw [ha1] at hY1
  have hY1e : Y1 = L1 := by
    split at hY1
    · exact (Except.ok.inj hY1).symm
    · cases hY1
  subst hY1e
  -- sizes and token arithmetic around the inserted content
  have hlenA : ((ftoks L).take fP).length = fP := by simp [ftoks_length]; omega
  have hlenC : (ftoks c).length = fsize c := ftoks_length c
  have hsz1 : fsize Y1 = fP + fsize c + (fsize L - tP) := by
    rw [← ftoks_length Y1, hY1t]; simp [ftoks_length]; omega
  have hbalA : balance ((ftoks L).take fP) = 0 := by
    rw [← depthAt_balance L fP hfp, hdf]; rfl
  have hbalT : balance ((ftoks L).take tP) = 0 := by
    rw [← depthAt_balance L tP htp, hdt]; rfl
  -- step 2 happens in the same place
  have hl1 := hl.replace Y1
  rw [hr1] at hl1
  have hd1 : depthAt Y1 (fP + fsize c) = 0 := by
    have h := depthAt_balance Y1 (fP + fsize c) (by omega)
    have e := splice_take_mid ((ftoks L).take fP) (ftoks c) ((ftoks L).drop tP) 0
    rw [hlenA, hlenC, Nat.add_zero, List.take_zero, List.append_nil, ← hY1t] at e
    rw [e, balance_append, hbalA, balance_ftoks] at h
    omega
  obtain ⟨tP', htb', hftP', htp', hdt'⟩ := lvl_flat hl1 f' t' (fP + fsize c) (by omega) (by omega) hd1
    hfl2 hft' ht'
  rw [show f' = b + (fP + fsize c) by omega, htb',
    replaceKids_flat hl1 c' (fP + fsize c) tP' hftP' htp' hd1 hdt'] at hr2
  cases ha2 : atLevel S ⟨c', 0, 0⟩ tyP Y1 (fP + fsize c) tP' 0 with
  | error e => rw [ha2] at hr2; simp [Except.map] at hr2
  | ok L2 =>
  rw [ha2] at hr2
  simp only [Except.map, Except.ok.injEq] at hr2
  obtain ⟨haf', hat'⟩ := atLevel_flat_aligned S c' tyP Y1 (fP + fsize c) tP' L2 hftP' htp' hd1 hdt' ha2
  obtain ⟨Y2, hY2n, hY2t, hY2⟩ := atLevel_flat_spec S c' hcn' tyP Y1 (fP + fsize c) tP' hftP' htp' hd1 hdt'
    haf' hat' hY1n
  rw [ha2] at hY2
  have hY2v : S.validContent tyP Y2 = true ∧ Y2 = L2 := by
    split at hY2
    · rename_i hv; exact ⟨hv, (Except.ok.inj hY2).symm⟩
    · cases hY2
  obtain ⟨hval2, hY2e⟩ := hY2v
  subst hY2e
  -- the merged range inside the level
  obtain ⟨k, hk⟩ : ∃ k, tP' = fP + fsize c + k := ⟨tP' - (fP + fsize c), by omega⟩
  have hTP : tP + k ≤ fsize L := by omega
  have etake : (ftoks Y1).take tP' = (ftoks L).take fP ++ ftoks c ++ ((ftoks L).drop tP).take k := by
    have e := splice_take_mid ((ftoks L).take fP) (ftoks c) ((ftoks L).drop tP) k
    rw [hlenA, hlenC, ← hY1t, ← hk] at e; exact e
  have edrop : (ftoks Y1).drop tP' = (ftoks L).drop (tP + k) := by
    have e := splice_drop_mid ((ftoks L).take fP) (ftoks c) ((ftoks L).drop tP) k
    rw [hlenA, hlenC, ← hY1t, ← hk, List.drop_drop] at e; exact e
  have hdT : depthAt L (tP + k) = 0 := by
    have h1 := depthAt_balance Y1 tP' htp'
    rw [hdt', etake, balance_append, balance_append, hbalA, balance_ftoks] at h1
    have h2 := depthAt_balance L (tP + k) hTP
    rw [List.take_add, balance_append, hbalT] at h2
    simp only [Int.natCast_zero] at h1
    omega
  have haT : alignedAt L (tP + k) = true := by
    by_cases hk0 : k = 0
    · subst hk0; simpa using hat
    · rw [alignedAt_toks L _ hnL]
      rw [alignedAt_toks Y1 _ hY1n] at hat'
      rw [← hat']
      apply tokAligned_shift _ _ _ _ (by omega) (by omega)
      · have e := splice_get_tail ((ftoks L).take fP) (ftoks c) ((ftoks L).drop tP) (k - 1)
        rw [hlenA, hlenC, ← hY1t, List.getElem?_drop] at e
        rw [show tP' - 1 = fP + fsize c + (k - 1) by omega, e]
        congr 1; omega
      · have e := splice_get_tail ((ftoks L).take fP) (ftoks c) ((ftoks L).drop tP) k
        rw [hlenA, hlenC, ← hY1t, List.getElem?_drop] at e
        rw [hk, e]
  -- the merged step inside the level builds the list step 2 built
  obtain ⟨YM, hYMn, hYMt, hYM⟩ := atLevel_flat_spec S (fappend c c') (fappend_norm _ _ hcn hcn') tyP L fP
    (tP + k) (by omega) hTP hdf hdT haf haT hnL
  have hYMe : YM = Y2 := by
    apply ftoks_inj _ _ hYMn hY2n
    rw [hYMt, hY2t, fappend_toks, edrop]
    have e := splice_take_mid ((ftoks L).take fP) (ftoks c) ((ftoks L).drop tP) 0
    rw [hlenA, hlenC, Nat.add_zero, List.take_zero, List.append_nil, ← hY1t] at e
    rw [e]
    simp
  rw [hYMe, hval2, if_pos rfl] at hYM
  have hmain := replaceKids_flat (S := S) hl (fappend c c') fP (tP + k) (by omega) hTP hdf hdT
  rw [hYM] at hmain
  simp only [Except.map] at hmain
  rw [show t + (t' - f') = b + (tP + k) by omega, hfb, hmain, hr2]

/-- **the mirror image**: the second replace ends where the first one starts (`t' = f`; deleting
    backwards, typing in front).  The merged step puts `c' ++ c` over `f' … t`. -/
theorem replaceKids_merge_flat_left (S : Schema) (ty : TypeId) (K K1 K2 : List Node) (f t f' : Nat)
    (c c' : List Node) (hn : fnorm K = true) (hcn : fnorm c = true) (hcn' : fnorm c' = true)
    (hr1 : replaceKids S ty K f t ⟨c, 0, 0⟩ = .ok K1)
    (hr2 : replaceKids S ty K1 f' f ⟨c', 0, 0⟩ = .ok K2)
    (hfl1 : FlatRange K f t) (hfl2 : FlatRange K1 f' f) :
    replaceKids S ty K f' t ⟨fappend c' c, 0, 0⟩ = .ok K2 := by
  obtain ⟨hft, ht, _, _⟩ := replaceKids_ok hr1
  obtain ⟨hft', ht', _, _⟩ := replaceKids_ok hr2
  -- the level of `f`
  obtain ⟨b, nd, tyP, L, ctx, fP, hl, hfb, hfp, hdf⟩ :=
    lvl_of_pos (depthAt K f) K f ty rfl (by omega) (fnormKids_of_fnorm hn)
  obtain ⟨tP, htb, hftP, htp, hdt⟩ := lvl_flat hl f t fP hfb hfp hdf hfl1 hft ht
  have hnL := hl.norm hn
  -- step 1 inside the level
  rw [hfb, htb, replaceKids_flat hl c fP tP hftP htp hdf hdt] at hr1
  cases ha1 : atLevel S ⟨c, 0, 0⟩ tyP L fP tP 0 with
  | error e => rw [ha1] at hr1; simp [Except.map] at hr1
  | ok L1 =>
  rw [ha1] at hr1
  simp only [Except.map, Except.ok.injEq] at hr1
  obtain ⟨haf, hat⟩ := atLevel_flat_aligned S c tyP L fP tP L1 hftP htp hdf hdt ha1
  obtain ⟨Y1, hY1n, hY1t, hY1⟩ := atLevel_flat_spec S c hcn tyP L fP tP hftP htp hdf hdt haf hat hnL
  rw [ha1] at hY1
  have hY1e : Y1 = L1 := by
    split at hY1
    · exact (Except.ok.inj hY1).symm
    · cases hY1
  subst hY1e
  have hlenA : ((ftoks L).take fP).length = fP := by simp [ftoks_length]; omega
  have hsz1 : fsize Y1 = fP + fsize c + (fsize L - tP) := by
    rw [← ftoks_length Y1, hY1t]; simp [ftoks_length]; omega
  have hbalA : balance ((ftoks L).take fP) = 0 := by
    rw [← depthAt_balance L fP hfp, hdf]; rfl
  -- tokens of the new level before `fP`
  have epre : ∀ k, k ≤ fP → (ftoks Y1).take k = (ftoks L).take k := by
    intro k hk
    rw [hY1t, splice_take_pre _ _ _ k (by omega), List.take_take, Nat.min_eq_left hk]
  -- step 2 happens in the same place
  have hl1 := hl.replace Y1
  rw [hr1] at hl1
  have hd1 : depthAt Y1 fP = 0 := by
    have h := depthAt_balance Y1 fP (by omega)
    rw [epre fP (Nat.le_refl _), hbalA] at h
    omega
  obtain ⟨fP', hfb', hfP', hdf'⟩ := lvl_flat_back hl1 f' f fP hfb (by omega) hd1 hfl2 hft'
  rw [hfb', hfb, replaceKids_flat hl1 c' fP' fP hfP' (by omega) hdf' hd1] at hr2
  cases ha2 : atLevel S ⟨c', 0, 0⟩ tyP Y1 fP' fP 0 with
  | error e => rw [ha2] at hr2; simp [Except.map] at hr2
  | ok L2 =>
  rw [ha2] at hr2
  simp only [Except.map, Except.ok.injEq] at hr2
  obtain ⟨haf', hat'⟩ := atLevel_flat_aligned S c' tyP Y1 fP' fP L2 hfP' (by omega) hdf' hd1 ha2
  obtain ⟨Y2, hY2n, hY2t, hY2⟩ := atLevel_flat_spec S c' hcn' tyP Y1 fP' fP hfP' (by omega) hdf' hd1
    haf' hat' hY1n
  rw [ha2] at hY2
  have hY2v : S.validContent tyP Y2 = true ∧ Y2 = L2 := by
    split at hY2
    · rename_i hv; exact ⟨hv, (Except.ok.inj hY2).symm⟩
    · cases hY2
  obtain ⟨hval2, hY2e⟩ := hY2v
  subst hY2e
  -- the merged range inside the level
  have hdF : depthAt L fP' = 0 := by
    have h1 := depthAt_balance Y1 fP' (by omega)
    rw [hdf', epre fP' hfP'] at h1
    have h2 := depthAt_balance L fP' (by omega)
    simp only [Int.natCast_zero] at h1
    omega
  have haF : alignedAt L fP' = true := by
    by_cases he : fP' = fP
    · rw [he]; exact haf
    · refine alignedAt_transfer L Y1 fP' hnL hY1n ?_ ?_ haf'
      · rw [hY1t, splice_get_pre _ _ _ _ (by omega), List.getElem?_take_of_lt (by omega)]
      · rw [hY1t, splice_get_pre _ _ _ _ (by omega), List.getElem?_take_of_lt (by omega)]
  obtain ⟨YM, hYMn, hYMt, hYM⟩ := atLevel_flat_spec S (fappend c' c) (fappend_norm _ _ hcn' hcn) tyP L fP'
    tP (by omega) htp hdF hdt haF hat hnL
  have hYMe : YM = Y2 := by
    apply ftoks_inj _ _ hYMn hY2n
    rw [hYMt, hY2t, fappend_toks, epre fP' hfP']
    have e := splice_drop_pre ((ftoks L).take fP) (ftoks c) ((ftoks L).drop tP)
    rw [hlenA, ← hY1t] at e
    rw [e]
    simp
  rw [hYMe, hval2, if_pos rfl] at hYM
  have hmain := replaceKids_flat (S := S) hl (fappend c' c) fP' tP (by omega) htp hdF hdt
  rw [hYM] at hmain
  simp only [Except.map] at hmain
  rw [hfb', htb, hmain, hr2]

end PM
