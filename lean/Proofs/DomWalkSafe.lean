/-
  Proofs/DomWalkSafe.lean — second instance of `walk_post` (Proofs/DomWalk.lean): the DOM walk never dies with
  an internal error, given the guards on schema (`SchemaOk`), rules (`Parser.rulesOk`) and DOM (`listOk true`).
-/
import Proofs.DomWalk
import Proofs.PlacementNoInternal
namespace PM.DomWalk
open PM.FromDom

theorem safe_frame (P : Parser) (N : Node → Bool) (G : SchemaOk P.S) (hr : P.rulesOk = true) :
    Frame P N (fun t => t < P.S.nodes.size) (fun w => CInv P.S w.st) (fun e => e ≠ .internal) true where
  emit := by
    intro w e hi he
    unfold emit
    have hes : EventSafe P.S w.st e := by
      cases he with
      | enter t a pw ht => exact ht
      | setOpen v hv => exact hv
      | _ => trivial
    have := step_safe P.S G P.wsPre w.st e hi hes
    cases hs : w.st.step P.S P.wsPre e with
    | error err => rw [hs] at this; exact this
    | ok res => obtain ⟨st', r⟩ := res; rw [hs] at this; exact this
  nextMark := fun _ _ h => h
  valueError := by decide
  top := by
    intro w hi htop
    have := hi.lt
    simp only [WState.top] at htop
    rw [List.getElem?_eq_none_iff] at htop
    omega
  lax := fun h => by cases h
  rules := fun _ => hr
  types := by
    intro r hmem t ht
    simp only [Parser.rulesOk, Bool.and_eq_true, List.all_eq_true] at hr
    have := hr.1.1 r hmem
    simp only [ht, decide_eq_true_eq] at this
    exact this

/-- the walk keeps the core's invariant and never fails with an internal error -/
theorem addAll_safe (P : Parser) (N : Node → Bool) (G : SchemaOk P.S) (hr : P.rulesOk = true) (ptag : String)
    (kids : List DNode) (hk : listOk true N kids = true) (isOpen : Bool) (pw : WS) :
    Safe (fun w => CInv P.S w.st) (addAll P ptag kids false (walkInit P isOpen pw)) := by
  have := (walk_post (safe_frame P N G hr)).1 ptag kids false (walkInit P isOpen pw)
    (init_cinv P.S G isOpen pw false) hk
  cases h : addAll P ptag kids false (walkInit P isOpen pw) with
  | error e => rw [h] at this; exact this
  | ok w => rw [h] at this; exact this

/-- third instance: whatever the input, the walk fails only with ValueError or an internal error -/
theorem nofail_frame (P : Parser) (N : Node → Bool) :
    Frame P N (fun _ => True) (fun _ => True) (fun e => e ≠ .failed) false where
  emit := by
    intro w e _ _
    unfold emit
    cases hs : w.st.step P.S P.wsPre e with
    | error err => exact step_nf P.S P.wsPre w.st e err hs
    | ok res => trivial
  nextMark := fun _ _ h => h
  valueError := by decide
  top := fun _ _ _ => by decide
  lax := fun _ => by decide
  rules := fun h => by cases h
  types := fun _ _ _ _ => trivial

theorem addAll_nofail (P : Parser) (ptag : String) (kids : List DNode) (w0 : WState) (e : Err)
    (h : addAll P ptag kids false w0 = .error e) : e ≠ .failed := by
  have := (walk_post (nofail_frame P (fun _ => true))).1 ptag kids false w0 trivial (listOk_lax kids)
  rw [h] at this
  exact this

end PM.DomWalk
