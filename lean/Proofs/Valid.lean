/- Proofs/Valid.lean — helper lemmas for Props/C07.lean -/
import PM.Content
namespace PM

theorem Dfa.run_nil (d : Dfa) (q : Nat) : d.run q [] = some q := rfl

theorem Dfa.run_cons (d : Dfa) (q : Nat) (t : TypeId) (ts : List TypeId) :
    d.run q (t :: ts) = (d.matchType q t).bind (fun q' => d.run q' ts) := by
  simp only [Dfa.run]
  cases d.matchType q t <;> rfl

theorem Dfa.run_append (d : Dfa) (q : Nat) (xs ys : List TypeId) :
    d.run q (xs ++ ys) = (d.run q xs).bind (fun q' => d.run q' ys) := by
  induction xs generalizing q with
  | nil => rfl
  | cons x xs ih =>
    simp only [List.cons_append, Dfa.run_cons]
    cases d.matchType q x with
    | none => rfl
    | some q' => simp [ih]

theorem Dfa.run_singleton (d : Dfa) (q : Nat) (t : TypeId) : d.run q [t] = d.matchType q t := by
  simp only [Dfa.run_cons]
  cases d.matchType q t <;> rfl

/-- a successful run over a concatenation implies a successful run over the prefix -/
theorem Dfa.run_prefix_isSome (d : Dfa) (q : Nat) (xs ys : List TypeId)
    (h : (d.run q (xs ++ ys)).isSome = true) : (d.run q xs).isSome = true := by
  rw [Dfa.run_append] at h
  cases hx : d.run q xs with
  | none => simp [hx] at h
  | some _ => rfl

theorem Dfa.accepts_run_isSome (d : Dfa) (ts : List TypeId) (h : d.accepts ts = true) :
    (d.run 0 ts).isSome = true := by
  unfold Dfa.accepts at h
  cases hx : d.run 0 ts with
  | none => simp [hx] at h
  | some _ => rfl

theorem Schema.types_append (S : Schema) (a b : List Node) :
    S.types (a ++ b) = S.types a ++ S.types b := by
  simp [Schema.types]

theorem Schema.checkKids_iff (S : Schema) (l : List Node) :
    S.checkKids l = true ↔ ∀ k, k ∈ l → S.checkNode k = true := by
  induction l with
  | nil => simp [Schema.checkKids]
  | cons n ns ih => simp [Schema.checkKids, ih]

theorem Dfa.compatible_symm (a b : Dfa) : a.compatible b = b.compatible a := by
  unfold Dfa.compatible
  rw [Bool.eq_iff_iff]
  simp only [List.any_eq_true, beq_iff_eq]
  constructor
  · rintro ⟨e, he, e', he', h⟩
    exact ⟨e', he', e, he, h.symm⟩
  · rintro ⟨e, he, e', he', h⟩
    exact ⟨e', he', e, he, h.symm⟩

end PM
