/- Proofs/Valid.lean — helper lemmas for Props/C07.lean -/
import PM.Content
import Proofs.DfaRun
namespace PM

/-- a successful run over a concatenation implies a successful run over the prefix -/
theorem Dfa.run_prefix_isSome (d : Dfa) (q : Nat) (xs ys : List TypeId)
    (h : (d.run q (xs ++ ys)).isSome = true) : (d.run q xs).isSome = true := by
  rw [Dfa.run_append] at h
  cases hx : d.run q xs with
  | none => simp [hx] at h
  | some _ => rfl

theorem Dfa.accepts_run_isSome (d : Dfa) (ts : List TypeId) (h : d.accepts ts = true) :
    (d.run 0 ts).isSome = true := by
  unfold Dfa.accepts at h
  cases hx : d.run 0 ts with
  | none => simp [hx] at h
  | some _ => rfl

theorem Schema.checkKids_iff (S : Schema) (l : List Node) :
    S.checkKids l = true ↔ ∀ k, k ∈ l → S.checkNode k = true := by
  induction l with
  | nil => simp [Schema.checkKids]
  | cons n ns ih => simp [Schema.checkKids, ih]

theorem Dfa.compatible_symm (a b : Dfa) : a.compatible b = b.compatible a := by
  unfold Dfa.compatible
  rw [Bool.eq_iff_iff]
  simp only [List.any_eq_true, beq_iff_eq]
  constructor
  · rintro ⟨e, he, e', he', h⟩
    exact ⟨e', he', e, he, h.symm⟩
  · rintro ⟨e, he, e', he', h⟩
    exact ⟨e', he', e, he, h.symm⟩

end PM
