/-
  Proofs/RoundTripParts.lean — `rtOk` from its schema part and its document part (PM/RoundTripSchema.lean).
-/
import PM.RoundTripSchema
namespace PM.RoundTrip
open PM PM.Dom PM.FromDom PM.DomWalk

theorem prevTagG_plain (R : RParser) (D : ToDom) (n : Node) : prevTagG (Forms.plain R D) n = prevTag R D n := by
  cases n <;> rfl

mutual
theorem nodeOkG_plain (R : RParser) (D : ToDom) (opts : Opts) (pt : TypeId) :
    ∀ n : Node, nodeOkG R D (Forms.plain R D) opts pt n = nodeOk R D opts pt n
  | .text _ _ => by simp only [nodeOkG, nodeOk, Forms.plain]
  | .leaf _ _ _ => by simp only [nodeOkG, nodeOk, Forms.plain]
  | .elem t a ms kids => by
    rw [nodeOkG, nodeOk]
    have hk : ∀ o, kidsOkG R D (Forms.plain R D) o t none kids = kidsOk R D o t none kids :=
      fun o => kidsOkG_plain R D o t none kids
    have hp : (fun k => !listTags.contains (prevTagG (Forms.plain R D) k)) = (fun k => !listTags.contains (prevTag R D k)) := by
      funext k; rw [prevTagG_plain]
    simp only [hk, hp]
    rfl
theorem kidsOkG_plain (R : RParser) (D : ToDom) (opts : Opts) (pt : TypeId) :
    ∀ (prev : Option (Node × String)) (kids : List Node),
      kidsOkG R D (Forms.plain R D) opts pt prev kids = kidsOk R D opts pt prev kids
  | _, [] => by simp only [kidsOkG, kidsOk]
  | prev, k :: ks => by
    simp only [kidsOkG, kidsOk, nodeOkG_plain R D opts pt k, prevTagG_plain, kidsOkG_plain R D opts pt _ ks]
    cases k <;> rfl
end

theorem rtOkG_plain (R : RParser) (D : ToDom) (doc : Node) :
    (R.sel.length == R.P.tags.length && rtOkG R D (Forms.plain R D) doc) = rtOk R D doc := by
  cases doc with
  | text s m => simp [rtOkG, rtOk]
  | leaf t a m => simp [rtOkG, rtOk]
  | elem t a ms kids =>
    simp only [rtOkG, rtOk, kidsOkG_plain, Bool.and_assoc]

theorem mem_nodePatterns_formOk {R : RParser} {D : ToDom} (h : rtSchemaOk R D = true) {t : TypeId} {a : Attrs}
    (hm : (nodePatterns R).contains (t, a) = true) : nodeFormOk R D (t, a) = true := by
  simp only [rtSchemaOk, Bool.and_eq_true, List.all_eq_true] at h
  exact h.1.2 (t, a) (by simpa using hm)

/-- under the schema part, trusting the patterns is the same as computing them -/
theorem trusting_eq_plain (R : RParser) (D : ToDom) (h : rtSchemaOk R D = true) : Forms.trusting R D = Forms.plain R D := by
  have he : (Forms.trusting R D).elem = elemRule R D := by
    funext t a
    simp only [Forms.trusting]
    split
    · rename_i hc
      simp only [Bool.and_eq_true, Bool.not_eq_eq_eq_not, Bool.not_true] at hc
      have := mem_nodePatterns_formOk h hc.1
      simp only [nodeFormOk, hc.2, Bool.false_eq_true, if_false] at this
      cases hx : elemRule R D t a with
      | none => rw [hx] at this; cases this
      | some x => rfl
    · rfl
  have hl : (Forms.trusting R D).leaf = leafRule R D := by
    funext t a
    simp only [Forms.trusting]
    split
    · rename_i hc
      simp only [Bool.and_eq_true] at hc
      have := mem_nodePatterns_formOk h hc.1
      simp only [nodeFormOk, hc.2, if_true] at this
      cases hx : leafRule R D t a with
      | none => rw [hx] at this; cases this
      | some x => rfl
    · rfl
  have hm : (Forms.trusting R D).mark = markRule R D := by
    funext m inline
    simp only [Forms.trusting]
    cases hc : (inline && (markPatterns R).contains m) with
    | false => simp
    | true =>
      simp only [Bool.and_eq_true] at hc
      simp only [rtSchemaOk, Bool.and_eq_true, List.all_eq_true] at h
      have := h.2 m (by simpa using hc.2)
      rw [hc.1, this]; rfl
  cases hT : Forms.trusting R D with
  | mk e l m =>
    rw [hT] at he hl hm
    simp only at he hl hm
    subst he hl hm
    rfl

/-- **`rtOk` from its parts**: the schema part (decided once per schema) and the document part -/
theorem rtOk_of_parts (R : RParser) (D : ToDom) (doc : Node) (hs : rtSchemaOk R D = true) (hd : rtDocOk R D doc = true) :
    rtOk R D doc = true := by
  rw [← rtOkG_plain, ← trusting_eq_plain R D hs]
  have hlen : (R.sel.length == R.P.tags.length) = true := by
    simp only [rtSchemaOk, Bool.and_eq_true] at hs
    exact hs.1.1
  rw [hlen]
  exact hd

/-- conversely the parts follow from `rtOk` when the schema part holds: the split loses nothing -/
theorem rtDocOk_of_rtOk (R : RParser) (D : ToDom) (doc : Node) (hs : rtSchemaOk R D = true) (h : rtOk R D doc = true) :
    rtDocOk R D doc = true := by
  rw [← rtOkG_plain, ← trusting_eq_plain R D hs] at h
  simp only [Bool.and_eq_true] at h
  exact h.2

end PM.RoundTrip
